//go:build verif

// C01 end-to-end stage: what LineProtocolHandler.handleWrite does per accepted request (real parser →
// BatchToColumnar → ArrowBuffer.WriteColumnarRecord) for SEQUENCES of requests to one measurement,
// within one buffer lifetime and across flushes, then FlushAll and an independent read-back of every
// Parquet file (arrow-go reader). Every ground-truth point of every accepted request must be stored
// exactly once with exactly its own columns and typed values. Column-name sets are engineered to
// collide under naive joins ("a,b"+"c" vs "a"+"b,c", with every separator that fmt verbs, cache keys or
// signatures might use).
package main

import (
	"bytes"
	"context"
	"fmt"
	"math"
	"os"
	"path/filepath"
	"sort"
	"strconv"
	"strings"

	"github.com/apache/arrow-go/v18/arrow"
	"github.com/apache/arrow-go/v18/arrow/array"
	"github.com/apache/arrow-go/v18/arrow/memory"
	"github.com/apache/arrow-go/v18/parquet/file"
	"github.com/apache/arrow-go/v18/parquet/pqarrow"
	"github.com/basekick-labs/arc/internal/config"
	"github.com/basekick-labs/arc/internal/ingest"
	"github.com/basekick-labs/arc/internal/storage"
	"github.com/basekick-labs/arc/internal/verif/vh"
	"github.com/rs/zerolog"
)

const e2eDB = "verifdb"

// separators a non-injective join/format could use; all legal inside (escaped) line-protocol names.
// `"` and `\` are excluded: they are the carve-outs of the known finding quote-in-name / of line protocol.
var e2eSeps = []string{",", " ", "=", ":", "|", ", ", " |", "%", "%v", "%!q", "[", "]", "] [", "{", "'", ";", "/", "\u00a0", "\u3000", ":string", ",time,", ",v,"}

type e2eRow map[string]string // column -> canonical value (goVal format), non-null cells only

func rowKey(r e2eRow) string {
	ks := make([]string, 0, len(r))
	for k := range r {
		ks = append(ks, k)
	}
	sort.Strings(ks)
	var b strings.Builder
	for _, k := range ks {
		fmt.Fprintf(&b, "%q=%s;", k, r[k])
	}
	return b.String()
}

func expectedRow(p *point) e2eRow {
	r := e2eRow{"time": goVal(p.ts)}
	for _, t := range p.tags {
		r[string(t.k)] = goVal(string(t.v))
	}
	for _, f := range p.fields {
		r[string(f.k)] = goVal(f.v.goValue())
	}
	return r
}

// readStored returns every row of every parquet file below dir (non-null cells only).
func readStored(dir string) ([]e2eRow, error) {
	var rows []e2eRow
	var files []string
	filepath.Walk(dir, func(p string, info os.FileInfo, err error) error {
		if err == nil && !info.IsDir() && strings.HasSuffix(p, ".parquet") {
			files = append(files, p)
		}
		return nil
	})
	sort.Strings(files)
	for _, p := range files {
		data, err := os.ReadFile(p)
		if err != nil {
			return nil, err
		}
		rdr, err := file.NewParquetReader(bytes.NewReader(data))
		if err != nil {
			return nil, fmt.Errorf("open %s: %w", p, err)
		}
		fr, err := pqarrow.NewFileReader(rdr, pqarrow.ArrowReadProperties{}, memory.DefaultAllocator)
		if err != nil {
			rdr.Close()
			return nil, err
		}
		tbl, err := fr.ReadTable(context.Background())
		if err != nil {
			rdr.Close()
			return nil, err
		}
		n := int(tbl.NumRows())
		out := make([]e2eRow, n)
		for i := range out {
			out[i] = e2eRow{}
		}
		for ci := 0; ci < int(tbl.NumCols()); ci++ {
			name := tbl.Schema().Field(ci).Name
			base := 0
			for _, ch := range tbl.Column(ci).Data().Chunks() {
				for i := 0; i < ch.Len(); i++ {
					if ch.IsNull(i) {
						continue
					}
					var v string
					switch a := ch.(type) {
					case *array.Int64:
						v = goVal(a.Value(i))
					case *array.Float64:
						v = goVal(a.Value(i))
					case *array.String:
						v = goVal(a.Value(i))
					case *array.LargeString:
						v = goVal(a.Value(i))
					case *array.Boolean:
						v = goVal(a.Value(i))
					case *array.Timestamp:
						if a.DataType().(*arrow.TimestampType).Unit != arrow.Microsecond {
							v = "?unit:" + a.ValueStr(i)
						} else {
							v = goVal(int64(a.Value(i)))
						}
					default:
						v = "?" + ch.DataType().Name() + ":" + ch.ValueStr(i)
					}
					out[base+i][name] = v
				}
				base += ch.Len()
			}
		}
		tbl.Release()
		rdr.Close()
		rows = append(rows, out...)
	}
	return rows, nil
}

type e2eReq struct {
	body      []byte
	points    []*point
	flushNext bool // FlushAll after this request (sequence continues across the flush)
}

// collidingKeySets: for tokens a<b<c and a separator J the sets {aJb, c}, {a, bJc}, {a, b, c}, {aJbJc}
// all read the same once their sorted members are joined with J.
func collidingKeySets(g *gen) [][][]byte {
	j := vh.Pick(g.r, e2eSeps)
	base := string(vh.Pick(g.r, []byte("abcdefghijklm")))
	a, b, c := base+"a", base+"b", base+"c"
	if g.r.Chance(30) { // unequal lengths / utf-8 tokens
		a, b, c = base+"a", base+"bé", base+"c9"
	}
	sets := [][][]byte{
		{[]byte(a + j + b), []byte(c)},
		{[]byte(a), []byte(b + j + c)},
		{[]byte(a), []byte(b), []byte(c)},
		{[]byte(a + j + b + j + c)},
	}
	for i := len(sets) - 1; i > 0; i-- {
		k := g.r.Intn(i + 1)
		sets[i], sets[k] = sets[k], sets[i]
	}
	return sets[:g.r.Range(2, 4)]
}

var e2eTsBase = int64(1_700_000_000_000_000) // µs; every point of the run gets a unique timestamp

// the minimal colliding pair first, so that the replay kept per key is the smallest one:
// `m,a\,b=x,c=y v=1 <ts>` then `m,a=x,b\,c=y v=2 <ts>` (tag keys {"a,b","c"} vs {"a","b,c"})
func e2eMinimal(meas string, seq *int64) []e2eReq {
	mk := func(k1, k2 string, v string, bits uint64) e2eReq {
		*seq++
		p := &point{meas: []byte(meas), hasTs: true, ts: e2eTsBase + *seq*1_000_003, sp1: 1, sp2: 1,
			tags:   []kv{{[]byte(k1), []byte("x")}, {[]byte(k2), []byte("y")}},
			fields: []fkv{{[]byte("v"), fval{kind: 'f', text: v, f: bits}}}}
		line, _ := p.render()
		return e2eReq{body: line, points: []*point{p}}
	}
	return []e2eReq{mk("a,b", "c", "1", math.Float64bits(1)), mk("a", "b,c", "2", math.Float64bits(2))}
}

func (g *gen) e2eScenario(meas string, seq *int64) []e2eReq {
	if *seq == 0 {
		return e2eMinimal(meas, seq)
	}
	sets := collidingKeySets(g)
	asTags := g.r.Chance(55) // the colliding names are tag keys, otherwise field keys
	ftype := vh.Pick(g.r, []byte("fisb"))
	var reqs []e2eReq
	for _, set := range sets {
		var req e2eReq
		for n := g.r.Range(1, 3); n > 0; n-- {
			p := &point{meas: []byte(meas), hasTs: true, sp1: 1, sp2: 1}
			*seq++
			p.ts = e2eTsBase + *seq*1_000_003 // unique; ~1 s apart, so longer runs span several hour partitions
			if asTags {
				for _, k := range set {
					v := g.name(vh.Pick(g.r, []int{0, 1, 4, 5}), 1, 6)
					v = stripByte(stripByte(v, '"'), '\\')
					p.tags = append(p.tags, kv{k, v})
				}
				p.fields = []fkv{{[]byte("v"), g.valueOfKind('f')}}
			} else {
				for _, k := range set {
					p.fields = append(p.fields, fkv{k, g.valueOfKind(ftype)})
				}
				if g.r.Chance(50) {
					p.tags = []kv{{[]byte("host"), []byte("h" + strconv.Itoa(g.r.Intn(3)))}}
				}
			}
			line, _ := p.render()
			if len(req.body) > 0 {
				req.body = append(req.body, '\n')
			}
			req.body = append(req.body, line...)
			req.points = append(req.points, p)
		}
		req.flushNext = g.r.Chance(35)
		reqs = append(reqs, req)
	}
	return reqs
}

// Sparse, out-of-time-order batches: ONE request with 3..8 points of one measurement whose timestamps
// are in a non-involutive order (3-cycles, rotations, shuffles: p∘p ≠ id, so a scatter/gather mix-up
// of the flush-time sort cannot cancel out) and whose points carry different subsets of the fields
// and tags. Zero values (0, 0.0, "", false) are frequent so that NULL and zero are told apart.
func nonInvolutive(g *gen, k int) []int {
	for {
		p := make([]int, k)
		for i := range p {
			p[i] = i
		}
		switch g.r.Intn(3) {
		case 0: // rotation by 1..k-1 (k>=3: not an involution unless 2*shift == k)
			sh := g.r.Range(1, k-1)
			for i := range p {
				p[i] = (i + sh) % k
			}
		default:
			for i := k - 1; i > 0; i-- {
				j := g.r.Intn(i + 1)
				p[i], p[j] = p[j], p[i]
			}
		}
		for i := range p {
			if p[p[i]] != i {
				return p
			}
		}
	}
}

func zeroish(g *gen, t byte) fval {
	if g.r.Chance(45) {
		switch t {
		case 'f':
			return fval{kind: 'f', text: "0", f: 0}
		case 'i':
			return fval{kind: 'i', text: "0i", i: 0}
		case 's':
			return fval{kind: 's', s: nil}
		case 'b':
			return fval{kind: 'b', text: "false", b: false}
		}
	}
	return g.valueOfKind(t)
}

func (g *gen) e2eSparse(meas string, seq *int64, minimal bool) []e2eReq {
	k := g.r.Range(3, 8)
	perm := nonInvolutive(g, k)
	nf, nt := g.r.Range(2, 5), g.r.Range(0, 3)
	ftypes := make([]byte, nf)
	for i := range ftypes {
		ftypes[i] = vh.Pick(g.r, []byte("fisb"))
	}
	if minimal { // timestamps 3,1,2 ; fields {a} {b} {a,b}
		k, perm, nf, nt, ftypes = 3, []int{2, 0, 1}, 2, 0, []byte("ii")
	}
	base := *seq
	*seq += int64(k)
	var req e2eReq
	for i := 0; i < k; i++ {
		p := &point{meas: []byte(meas), hasTs: true, ts: e2eTsBase + (base+1+int64(perm[i]))*1_000_003, sp1: 1, sp2: 1}
		for t := 0; t < nt; t++ {
			if g.r.Chance(60) {
				p.tags = append(p.tags, kv{[]byte(fmt.Sprintf("t%d", t)), []byte(fmt.Sprintf("v%d", g.r.Intn(3)))})
			}
		}
		for f := 0; f < nf; f++ {
			present := g.r.Chance(55)
			if minimal {
				present = (i == 0 && f == 0) || (i == 1 && f == 1) || i == 2
			}
			if present {
				v := zeroish(g, ftypes[f])
				if minimal {
					v = fval{kind: 'i', text: strconv.Itoa(10*(i+1)+f) + "i", i: int64(10*(i+1) + f)}
				}
				p.fields = append(p.fields, fkv{[]byte(fmt.Sprintf("f%d", f)), v})
			}
		}
		if len(p.fields) == 0 {
			f := g.r.Intn(nf)
			p.fields = append(p.fields, fkv{[]byte(fmt.Sprintf("f%d", f)), zeroish(g, ftypes[f])})
		}
		line, _ := p.render()
		if len(req.body) > 0 {
			req.body = append(req.body, '\n')
		}
		req.body = append(req.body, line...)
		req.points = append(req.points, p)
	}
	return []e2eReq{req}
}

func sameColumns(a, b e2eRow) bool {
	if len(a) != len(b) {
		return false
	}
	for k := range a {
		if _, ok := b[k]; !ok {
			return false
		}
	}
	return true
}

func e2eStage(c *vh.Ctx, g *gen, scenarios int) {
	root, err := os.MkdirTemp("/var/tmp", "verif-c01-e2e-")
	if err != nil {
		panic(err)
	}
	defer os.RemoveAll(root)
	cfg := &config.IngestConfig{MaxBufferSize: 1000000, MaxBufferAgeMS: 600000, FlushWorkers: 2, FlushQueueSize: 64, ShardCount: 4, Compression: "snappy"}
	parser := ingest.NewLineProtocolParser()
	ctx := context.Background()
	var seq int64

	const perBuffer = 12
	for done := 0; done < scenarios; {
		dir := filepath.Join(root, fmt.Sprintf("b%d", done))
		st, err := storage.NewLocalBackend(dir, zerolog.Nop())
		if err != nil {
			panic(err)
		}
		buf := ingest.NewArrowBuffer(cfg, st, zerolog.Nop())
		type scen struct {
			meas   string
			reqs   []e2eReq
			sparse bool
		}
		var scens []scen
		var flushErrs []string
		for k := 0; k < perBuffer && done < scenarios; k++ {
			meas := fmt.Sprintf("e2e_%d", done)
			sparse := done%3 == 1
			var reqs []e2eReq
			if sparse {
				reqs = g.e2eSparse(meas, &seq, done == 1)
				c.Tag("e2e:sparse-out-of-order-batch")
			} else {
				reqs = g.e2eScenario(meas, &seq)
			}
			accepted := reqs[:0]
			for _, rq := range reqs {
				recs := parser.ParseBatchWithPrecision(rq.body, "us")
				c.Op(fmt.Sprintf("batch us %d %s", nowUs, hx(rq.body)), batchStr(recs))
				ok := true
				for _, cr := range ingest.BatchToColumnar(recs) {
					if err := buf.WriteColumnarRecord(ctx, e2eDB, cr); err != nil {
						ok = false // the handler answers 500: the request is not accepted
						c.Tag("e2e:write-rejected")
					}
				}
				if ok {
					accepted = append(accepted, rq)
					c.Tag("e2e:request-accepted")
				}
				if rq.flushNext {
					if err := buf.FlushAll(ctx); err != nil {
						flushErrs = append(flushErrs, err.Error())
					}
					c.Tag("e2e:flush-between-requests")
				}
			}
			scens = append(scens, scen{meas, accepted, sparse})
			done++
		}
		if err := buf.FlushAll(ctx); err != nil {
			flushErrs = append(flushErrs, err.Error())
		}
		buf.Close()
		st.Close()

		for _, sc := range scens {
			stored, err := readStored(filepath.Join(dir, e2eDB, sc.meas))
			replay := func() string {
				var b strings.Builder
				fmt.Fprintf(&b, "one ArrowBuffer; per request: ParseBatchWithPrecision(body,\"us\") -> BatchToColumnar -> WriteColumnarRecord(db=%s); then FlushAll and read every parquet file of measurement %s. requests (hex):", e2eDB, sc.meas)
				for _, rq := range sc.reqs {
					fmt.Fprintf(&b, " %s", hx(rq.body))
					if rq.flushNext {
						b.WriteString(" [FlushAll]")
					}
				}
				if len(flushErrs) > 0 {
					fmt.Fprintf(&b, " ; flush errors: %s", strings.Join(flushErrs, " / "))
				}
				return b.String()
			}
			if err != nil {
				c.Fail("stored-differs:end-to-end:unreadable", "a written parquet file cannot be read back: "+err.Error(), replay())
				continue
			}
			byTime := map[string][]e2eRow{}
			for _, r := range stored {
				byTime[r["time"]] = append(byTime[r["time"]], r)
			}
			nExp := 0
			for _, rq := range sc.reqs {
				for _, p := range rq.points {
					nExp++
					want := expectedRow(p)
					got := byTime[want["time"]]
					switch {
					case len(got) == 0:
						c.Fail("accepted-point-not-stored:end-to-end",
							fmt.Sprintf("a point of an accepted request is in no parquet file after FlushAll (%d of the measurement's rows stored): %s", len(stored), rowKey(want)), replay())
					case len(got) > 1:
						c.Fail("stored-differs:end-to-end:duplicate", "a point is stored more than once: "+rowKey(want), replay())
					case rowKey(got[0]) != rowKey(want) && sc.sparse && !sameColumns(got[0], want):
						c.Fail("field-set-changed:out-of-order-sparse-batch",
							fmt.Sprintf("a request with out-of-time-order points carrying different field sets: after the flush-time sort the point %s is stored as %s (a field it was written with is NULL and/or a field it never had holds a zero value)", rowKey(want), rowKey(got[0])), replay())
					case rowKey(got[0]) != rowKey(want):
						c.Fail("stored-differs:end-to-end:cell", fmt.Sprintf("stored row %s differs from the point %s", rowKey(got[0]), rowKey(want)), replay())
					default:
						c.Tag("e2e:point-stored")
					}
				}
			}
			if len(stored) > nExp {
				c.Fail("stored-differs:end-to-end:extra-row", fmt.Sprintf("%d rows stored for %d points", len(stored), nExp), replay())
			}
			var canon strings.Builder
			for _, rq := range sc.reqs {
				canon.WriteString(hx(rq.body) + ";")
			}
			c.Case("e2e "+canon.String(), true)
		}
	}
	// observation only (not flagged): columns whose name starts with '_' are treated as internal by
	// getSchema/inferSchema and are not written (InfluxDB reserves the leading underscore).
	{
		dir := filepath.Join(root, "underscore")
		st, _ := storage.NewLocalBackend(dir, zerolog.Nop())
		buf := ingest.NewArrowBuffer(cfg, st, zerolog.Nop())
		recs := parser.ParseBatchWithPrecision([]byte("e2e_us _x=1i,v=2i 1700000000000000"), "us")
		for _, cr := range ingest.BatchToColumnar(recs) {
			buf.WriteColumnarRecord(ctx, e2eDB, cr)
		}
		buf.FlushAll(ctx)
		buf.Close()
		st.Close()
		rows, _ := readStored(filepath.Join(dir, e2eDB, "e2e_us"))
		if len(rows) == 1 && rows[0]["_x"] == "" && rows[0]["v"] != "" {
			c.Tag("observed:e2e-underscore-column-not-written")
		} else {
			c.Tag("observed:e2e-underscore-column-written")
		}
	}
	_ = math.MaxInt64
}
