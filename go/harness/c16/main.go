//go:build verif

// C16 harness: Arc's REAL query path vs plain DuckDB with views, plus the rewrite-text correspondence.
//
// For every dataset (two databases x three measurements, Parquet files spread over hours and days with
// schema differences, written under a temp storage root in /var/tmp) and every generated statement:
//   - ARC: the request gates of POST /api/v1/query (ValidateSQLRequest, header validation, cross-database
//     check), the handler's transformation entry getTransformedSQLForParallel (transform cache included),
//     then execution of the transformed text on the handler's DuckDB exactly as executeQuery does
//     (parallel executor when chosen; "No files found" = empty result). A sample of the statements also
//     goes through the real fiber route and must agree on success / row count (self check).
//   - REFERENCE: a separate plain DuckDB in which every measurement is a VIEW over exactly its stored
//     files (read_parquet([files], union_by_name=true)); bare names resolve to the header database (or
//     `default`), db.measurement to a schema of that name. The ORIGINAL SQL text runs there.
//   - monitors: typed row multisets (or sequences when the statement orders completely) must be equal, or
//     both sides must fail; every base-table reference must be replaced by its read_parquet call and
//     nothing else may be.
//   - correspondence: op `rw <hdr> <tokens>` -> the real rewritten text (storage root shown as ROOT); the
//     Lean model computes the same from the token stream.
package main

import (
	"bytes"
	"context"
	"database/sql"
	"encoding/json"
	"flag"
	"fmt"
	"io"
	"math"
	"math/big"
	"net/http/httptest"
	"os"
	"path/filepath"
	"regexp"
	"sort"
	"strconv"
	"strings"
	"time"

	"github.com/basekick-labs/arc/internal/api"
	"github.com/basekick-labs/arc/internal/database"
	"github.com/basekick-labs/arc/internal/query"
	"github.com/basekick-labs/arc/internal/storage"
	"github.com/basekick-labs/arc/internal/verif/vh"
	"github.com/gofiber/fiber/v2"
	"github.com/rs/zerolog"
)

func must(err error) {
	if err != nil {
		panic(err)
	}
}

type env struct {
	c      *vh.Ctx
	root   string
	logger zerolog.Logger
	db     *database.DuckDB
	be     storage.Backend
	qh     *api.QueryHandler
	app    *fiber.App
	ref    map[string]*sql.DB // "" = no header; otherwise header database
	files  map[string][]string
	rid    int64
	seq    int
	nq     int
	httpOK, httpBad int
}

func newEnv(c *vh.Ctx) *env {
	root, err := os.MkdirTemp("/var/tmp", "verif-c16-")
	must(err)
	e := &env{c: c, root: root, logger: zerolog.New(io.Discard).Level(zerolog.Disabled), ref: map[string]*sql.DB{}}
	e.be, err = storage.NewLocalBackend(root, e.logger)
	must(err)
	e.db, err = database.New(&database.Config{MemoryLimit: "1GB", ThreadCount: 2, MaxConnections: 4, LocalStorageRoot: root}, e.logger)
	must(err)
	for _, h := range []string{"", "default", "prod"} {
		d, err := sql.Open("duckdb", "")
		must(err)
		d.SetMaxOpenConns(1)
		_, err = d.Exec("SET threads = 2")
		must(err)
		e.ref[h] = d
	}
	e.fresh()
	return e
}

// fresh: a new QueryHandler (empty transform cache) on the same DuckDB and storage backend.
func (e *env) fresh() {
	e.qh = api.NewQueryHandler(e.db, e.be, e.logger, 0, 0)
	e.app = fiber.New(fiber.Config{DisableStartupMessage: true})
	e.qh.RegisterRoutes(e.app)
	e.c.Op("fresh", "ok")
}

func (e *env) close() {
	for _, d := range e.ref {
		d.Close()
	}
	e.db.Close()
	os.RemoveAll(e.root)
}

// ---------------------------------------------------------------- datasets

type column struct{ name, typ string }

var allCols = []column{{"rid", "BIGINT"}, {"time", "TIMESTAMP"}, {"host", "VARCHAR"}, {"region", "VARCHAR"},
	{"usage", "DOUBLE"}, {"cnt", "BIGINT"}, {"ok", "BOOLEAN"}, {"extra", "BIGINT"}}

func sqlStr(s string) string { return "'" + strings.ReplaceAll(s, "'", "''") + "'" }

func (e *env) dataset(r *vh.Rand) {
	for _, db := range databases {
		os.RemoveAll(filepath.Join(e.root, db))
	}
	e.files = map[string][]string{}
	base := time.Date(2024, time.Month(1+r.Intn(12)), 1+r.Intn(25), 0, 0, 0, 0, time.UTC)
	for _, db := range databases {
		for _, m := range measurements {
			nf := 3 + r.Intn(4)
			for f := 0; f < nf; f++ {
				day, hour := r.Intn(4), r.Intn(24)
				t0 := base.Add(time.Duration(day*24+hour) * time.Hour)
				// schema differences between files: the first file has every column but `extra`
				has := map[string]bool{"rid": true, "time": true, "host": true, "usage": true, "cnt": true, "region": true, "ok": true}
				if f > 0 {
					if r.Chance(35) {
						has["region"] = false
					}
					if r.Chance(35) {
						has["ok"] = false
					}
					if r.Chance(30) {
						has["extra"] = true
					}
				}
				nrows := 1 + r.Intn(6)
				var rows []string
				for i := 0; i < nrows; i++ {
					e.rid++
					var vs []string
					for _, c := range allCols {
						if !has[c.name] {
							continue
						}
						null := r.Chance(15)
						var v string
						switch c.name {
						case "rid":
							v = fmt.Sprint(e.rid)
						case "time":
							v = sqlStr(t0.Add(time.Duration(r.Intn(3600)) * time.Second).Format("2006-01-02 15:04:05"))
						case "host":
							v = sqlStr(fmt.Sprintf("h%d", r.Intn(5)))
						case "region":
							v = sqlStr(vh.Pick(r, []string{"eu", "us", "ap"}))
						case "usage":
							v = strconv.FormatFloat(float64(r.Intn(200))/4, 'f', 2, 64)
						case "cnt":
							v = fmt.Sprint(r.Intn(20))
						case "ok":
							v = vh.Pick(r, []string{"true", "false"})
						case "extra":
							v = fmt.Sprint(r.Intn(1000))
						}
						if null && c.name != "rid" && c.name != "time" {
							v = "NULL"
						}
						vs = append(vs, v)
					}
					rows = append(rows, "("+strings.Join(vs, ", ")+")")
				}
				var sel []string
				k := 0
				for _, c := range allCols {
					if !has[c.name] {
						continue
					}
					sel = append(sel, fmt.Sprintf("CAST(c%d AS %s) AS \"%s\"", k, c.typ, c.name))
					k++
				}
				var cn []string
				for i := 0; i < k; i++ {
					cn = append(cn, fmt.Sprintf("c%d", i))
				}
				e.seq++
				full := filepath.Join(e.root, db, m, t0.Format("2006/01/02/15"), fmt.Sprintf("%s_%06d.parquet", m, e.seq))
				must(os.MkdirAll(filepath.Dir(full), 0o755))
				q := fmt.Sprintf("COPY (SELECT %s FROM (VALUES %s) t(%s)) TO %s (FORMAT PARQUET)",
					strings.Join(sel, ", "), strings.Join(rows, ", "), strings.Join(cn, ","), sqlStr(full))
				_, err := e.ref[""].Exec(q)
				must(err)
				e.files[db+"/"+m] = append(e.files[db+"/"+m], full)
			}
		}
	}
	// reference views: each measurement = exactly its stored files
	view := func(d *sql.DB, name, key string) {
		fs := append([]string{}, e.files[key]...)
		sort.Strings(fs)
		var qs []string
		for _, f := range fs {
			qs = append(qs, sqlStr(f))
		}
		_, err := d.Exec(fmt.Sprintf("CREATE OR REPLACE VIEW %s AS SELECT * FROM read_parquet([%s], union_by_name=true)", name, strings.Join(qs, ", ")))
		must(err)
	}
	for h, d := range e.ref {
		if h == "" {
			_, err := d.Exec(`CREATE SCHEMA IF NOT EXISTS prod; CREATE SCHEMA IF NOT EXISTS "default"`)
			must(err)
		}
		for _, m := range measurements {
			if h == "" {
				view(d, m, "default/"+m)
				view(d, "prod."+m, "prod/"+m)
				view(d, `"default".`+m, "default/"+m)
			} else {
				view(d, m, h+"/"+m)
			}
		}
	}
}

// ---------------------------------------------------------------- execution

type result struct {
	rejected string
	err      error
	cols     []string
	rows     [][]string
	noFiles  bool
	text     string // rewritten SQL (arc)
}

func encVal(v any) string {
	switch x := v.(type) {
	case nil:
		return "N"
	case int64:
		return "i" + strconv.FormatInt(x, 10)
	case int32:
		return "i" + strconv.FormatInt(int64(x), 10)
	case int16:
		return "i" + strconv.FormatInt(int64(x), 10)
	case int8:
		return "i" + strconv.FormatInt(int64(x), 10)
	case int:
		return "i" + strconv.Itoa(x)
	case uint64:
		return "i" + strconv.FormatUint(x, 10)
	case uint32:
		return "i" + strconv.FormatUint(uint64(x), 10)
	case uint16:
		return "i" + strconv.FormatUint(uint64(x), 10)
	case uint8:
		return "i" + strconv.FormatUint(uint64(x), 10)
	case *big.Int:
		return "i" + x.String()
	case float64:
		return "f" + strconv.FormatUint(math.Float64bits(x), 16)
	case float32:
		return "f" + strconv.FormatUint(math.Float64bits(float64(x)), 16)
	case bool:
		if x {
			return "bT"
		}
		return "bF"
	case string:
		return "s" + strconv.Quote(x)
	case []byte:
		return "x" + fmt.Sprintf("%x", x)
	case time.Time:
		return "t" + strconv.FormatInt(x.UnixMicro(), 10)
	}
	return fmt.Sprintf("?%T:%v", v, v)
}

type rowIter interface {
	Next() bool
	Scan(dest ...any) error
	Err() error
}

func collect(it rowIter, cols []string) ([][]string, error) {
	var out [][]string
	for it.Next() {
		vals := make([]any, len(cols))
		ptr := make([]any, len(cols))
		for i := range vals {
			ptr[i] = &vals[i]
		}
		if err := it.Scan(ptr...); err != nil {
			return nil, err
		}
		row := make([]string, len(cols))
		for i, v := range vals {
			row[i] = encVal(v)
		}
		out = append(out, row)
	}
	return out, it.Err()
}

func runSQL(d *sql.DB, q string) result {
	var res result
	ctx, cancel := context.WithTimeout(context.Background(), 60*time.Second)
	defer cancel()
	rows, err := d.QueryContext(ctx, q)
	if err != nil {
		res.err = err
		return res
	}
	defer rows.Close()
	res.cols, err = rows.Columns()
	if err != nil {
		res.err = err
		return res
	}
	res.rows, res.err = collect(rows, res.cols)
	return res
}

// arc: gates + the handler's transformation entry + execution as executeQuery does it.
func (e *env) arc(sqlText, hdr string) result {
	var res result
	ctx := context.Background()
	text, paths, tmpl, opts, _ := api.C16Transform(e.qh, ctx, sqlText, hdr)
	res.text = text
	if g := api.C16Gate(sqlText, hdr); g != "" {
		res.rejected = g
		return res
	}
	if paths != nil {
		ex := api.C16Executor(e.qh)
		prs, err := ex.ExecutePartitioned(ctx, paths, tmpl, opts)
		if err != nil {
			res.err = err
			return res
		}
		for _, p := range prs {
			if p.Error != nil {
				res.err = p.Error
			}
		}
		if res.err != nil {
			for _, p := range prs {
				if p.Rows != nil {
					p.Rows.Close()
				}
			}
			return res
		}
		it, err := query.NewMergedRowIterator(prs, e.logger)
		if err != nil {
			res.err = err
			return res
		}
		defer it.Close()
		res.cols = it.Columns()
		res.rows, res.err = collect(it, res.cols)
		e.c.Tag("exec:parallel")
		return res
	}
	r := runSQL(e.db.DB(), text)
	r.text = text
	if r.err != nil && api.C16IsNoFiles(r.err) {
		r.err, r.noFiles, r.cols, r.rows = nil, true, nil, nil
	}
	return r
}

// http: the same statement through the real fiber route (self check of the entry used above).
func (e *env) http(sqlText, hdr string) (status int, success bool, rowCount int) {
	body, _ := json.Marshal(map[string]string{"sql": sqlText})
	req := httptest.NewRequest("POST", "/api/v1/query", bytes.NewReader(body))
	req.Header.Set("Content-Type", "application/json")
	if hdr != "" {
		req.Header.Set("x-arc-database", hdr)
	}
	resp, err := e.app.Test(req, -1)
	must(err)
	b, _ := io.ReadAll(resp.Body)
	resp.Body.Close()
	var r struct {
		Success  bool `json:"success"`
		RowCount int  `json:"row_count"`
	}
	_ = json.Unmarshal(b, &r)
	return resp.StatusCode, r.Success, r.RowCount
}

func canonRows(res result, star, ordered bool) []string {
	out := make([]string, 0, len(res.rows)+1)
	for _, row := range res.rows {
		if star {
			ps := make([]string, len(row))
			for i, v := range row {
				ps[i] = strings.ToLower(res.cols[i]) + "=" + v
			}
			sort.Strings(ps)
			out = append(out, strings.Join(ps, "|"))
		} else {
			out = append(out, strings.Join(row, "|"))
		}
	}
	if !ordered {
		sort.Strings(out)
	}
	return out
}

func errShort(err error) string {
	s := err.Error()
	if i := strings.IndexByte(s, '\n'); i > 0 {
		s = s[:i]
	}
	if len(s) > 160 {
		s = s[:160]
	}
	return s
}

// ---------------------------------------------------------------- classification helpers

var labelJoinWord = regexp.MustCompile(`\bjoin\b`)
var labelSimpleRef = regexp.MustCompile(`(?i)\bFROM\s+([a-zA-Z_][a-zA-Z0-9_]*)\b`)
var labelCTE = regexp.MustCompile(`(?i)\bWITH\s+(?:RECURSIVE\s+)?(\w+)(?:\s*\([^)]*\))?\s+AS\s*\(|,\s*(\w+)(?:\s*\([^)]*\))?\s+AS\s*\(`)
var lateralNL = regexp.MustCompile(`\blateral[ \t]*[\n\r][\s]*\(`)

var rpRe = regexp.MustCompile(`read_parquet\('([^']*)', union_by_name=true\)`)

func esc(s string) string {
	r := strings.NewReplacer("\\", "\\\\", "\n", "\\n", "\t", "\\t", "\r", "\\r")
	return r.Replace(s)
}

// fastEligible mirrors the conditions under which the header path takes convertSingleTableQuery
// (only used to LABEL statements; the verdicts never depend on it).
func fastEligible(s string) bool {
	l := strings.ToLower(s)
	if strings.Count(l, "from ") != 1 || labelJoinWord.MatchString(l) || strings.Contains(l, "with ") {
		return false
	}
	rest := strings.TrimLeft(l[strings.Index(l, "from ")+5:], " \t\r\n")
	if len(rest) > 0 && rest[0] == '(' {
		return false
	}
	// since /repo 53c9b19: exactly one FROM <name> match, at the offset of that "from ", and nothing CTE-looking
	refs := labelSimpleRef.FindAllStringIndex(l, -1)
	if len(refs) != 1 || refs[0][0] != strings.Index(l, "from ") || labelCTE.MatchString(l) {
		return false
	}
	if strings.ContainsAny(s, "'\"$") || strings.Contains(s, "--") || strings.Contains(s, "/*") {
		return false
	}
	return !regexp.MustCompile(`(?i)\b(extract|substring|trim|overlay)\s*\(`).MatchString(s)
}

func classOf(b *qb, hdr string) string {
	if b.hazard == "soup" || b.hazard == "cache-collision" {
		return b.hazard
	}
	// structural classes first (they can co-occur with any generated shape)
	text := render(b.toks)
	// (comment-before-last-byte, lateral-newline, fastpath-cr, with-newline are fixed in /repo: no structural class any
	// more; their corpus statements keep the label and must agree — any key of those classes is a regression)
	// the text the reference patterns see: literals masked, comments stripped
	var sb strings.Builder
	for _, t := range b.toks {
		switch t.k {
		case 'l', 'q':
			sb.WriteString("__X__")
		case 'b':
			sb.WriteString(" ")
		case 'c':
		default:
			sb.WriteString(t.s)
		}
	}
	stripped := strings.ToLower(sb.String())
	_ = lateralNL
	_ = stripped
	if hdr != "" {
		nbase := 0
		for _, r := range b.refs {
			if r.base {
				nbase++
			}
		}
		// (no structural fastpath-cr class any more: fixed by /repo 002a8ca; the corpus statement keeps the label as a
		// regression monitor)
		nfrom := 0
		for _, t := range b.toks {
			if t.k == 'w' && strings.EqualFold(t.s, "from") {
				nfrom++
			}
		}
		if fastEligible(text) && (nbase > 1 || len(b.refs) > nbase || nfrom > 1) {
			return "fastpath-partial"
		}
		// (no structural with-newline class any more: since /repo 04fa395 the header path always extracts the CTE
		// names; the generated `with-newline` statements stay in the stream as a regression monitor)
	}
	if b.hazard != "" {
		return b.hazard
	}
	for _, f := range []string{"fn-nested", "cte", "subquery", "fn-from", "join", "db-qualified", "quoted-name", "comment"} {
		if b.feats[f] {
			return f
		}
	}
	return "plain"
}

// ---------------------------------------------------------------- one statement

func (e *env) statement(b *qb, hdr string, dsID string) {
	c := e.c
	sqlText := render(b.toks)
	class := classOf(b, hdr)
	mode := "nohdr"
	if hdr != "" {
		mode = "hdr"
	}
	key := class + ":" + mode
	h := hdr
	if h == "" {
		h = "-"
	}
	a := e.arc(sqlText, hdr)
	shown := strings.ReplaceAll(a.text, e.root, "ROOT")
	c.Op("rw "+h+" "+encToks(b.toks), esc(shown))
	e.nq++
	replay := fmt.Sprintf("seed=%d dataset=%s header=%q sql=%q  (C16_DATASET=%s C16_HDR=%s C16_SQL=<sql> h_c16 -seed %d …)", c.Seed, dsID, hdr, sqlText, dsID, hdr, c.Seed)
	c.Case(mode+" "+sqlText, class != "plain")
	c.Tag("class:" + key)
	for f := range b.feats {
		if strings.HasPrefix(f, "join:") {
			c.Tag(f)
		}
	}
	if a.rejected != "" {
		c.Tag("rejected:" + a.rejected + ":" + class)
		return
	}
	// ---- reference
	r := runSQL(e.ref[hdr], sqlText)
	// ---- reference-level monitors on the rewritten text
	want := map[string]int{}
	for _, rf := range b.refs {
		if !rf.base {
			continue
		}
		db := rf.db
		if db == "" {
			db = hdr
		}
		if db == "" {
			db = "default"
		}
		want[db+"/"+rf.tbl]++
	}
	got := map[string]int{}
	for _, m := range rpRe.FindAllStringSubmatch(shown, -1) {
		p := strings.TrimSuffix(strings.TrimPrefix(m[1], "ROOT/"), "/**/*.parquet")
		got[p]++
	}
	if class != "soup" {
		for k, n := range want {
			if got[k] < n {
				c.Tag("not-rewritten:" + key)
				c.Fail("reference-not-rewritten:"+key, fmt.Sprintf("base-table reference %s is not replaced by its read_parquet call (%d of %d) in the text Arc executes: %s", k, got[k], n, esc(shown)), replay)
			}
		}
		for k, n := range got {
			if want[k] < n {
				c.Tag("non-reference-rewritten:" + key)
				c.Fail("non-reference-rewritten:"+key, fmt.Sprintf("read_parquet for %s was spliced where the statement has no base-table reference of that name (%d > %d): %s", k, n, want[k], esc(shown)), replay)
			}
		}
	}
	// ---- result monitors
	switch {
	case a.err != nil && r.err != nil:
		c.Tag("both-fail:" + class)
	case a.err != nil:
		c.Tag("arc-fails:" + key)
		if class != "soup" {
			c.Fail("arc-fails-duckdb-succeeds:"+key, fmt.Sprintf("Arc: %s; DuckDB with views returns %d rows; executed text: %s", errShort(a.err), len(r.rows), esc(shown)), replay)
		}
	case r.err != nil:
		c.Tag("duckdb-fails:" + key)
		if class != "soup" {
			c.Fail("arc-succeeds-duckdb-fails:"+key, fmt.Sprintf("DuckDB with views: %s; Arc returns %d rows; executed text: %s", errShort(r.err), len(a.rows), esc(shown)), replay)
		}
	default:
		ca, cr := canonRows(a, b.star, b.order), canonRows(r, b.star, b.order)
		same := len(ca) == len(cr)
		if same {
			for i := range ca {
				if ca[i] != cr[i] {
					same = false
					break
				}
			}
		}
		if same && !b.star && !a.noFiles && len(a.cols) == len(r.cols) {
			for i := range a.cols {
				if a.cols[i] != r.cols[i] {
					same = false
				}
			}
		}
		if same {
			c.Tag("agree:" + class)
			if len(ca) > 0 {
				c.Tag("agree-nonempty")
			}
		} else {
			c.Tag("differs:" + key)
			d := ""
			for i := 0; i < len(ca) || i < len(cr); i++ {
				x, y := "<none>", "<none>"
				if i < len(ca) {
					x = ca[i]
				}
				if i < len(cr) {
					y = cr[i]
				}
				if x != y {
					d = fmt.Sprintf("first difference at row %d: arc=%s duckdb=%s", i, x, y)
					break
				}
			}
			if d == "" {
				d = fmt.Sprintf("column names differ: arc=%v duckdb=%v", a.cols, r.cols)
			}
			if a.noFiles {
				d += " (Arc: read_parquet matched no files -> empty result)"
			}
			c.Fail("result-differs:"+key, fmt.Sprintf("Arc %d rows, DuckDB with views %d rows; %s; executed text: %s", len(ca), len(cr), d, esc(shown)), replay)
		}
	}
	// ---- self check: the real HTTP route agrees with the entry used above (sampled)
	if e.nq%7 == 0 && class != "soup" {
		st, ok, n := e.http(sqlText, hdr)
		entryOK := a.err == nil
		if (st == 200 && ok) != entryOK || (entryOK && n != len(a.rows)) {
			e.httpBad++
			c.Fail("harness-self-check:http-route-vs-entry", fmt.Sprintf("POST /api/v1/query status=%d success=%v row_count=%d but the entry path gave err=%v rows=%d", st, ok, n, a.err, len(a.rows)), replay)
		} else {
			e.httpOK++
		}
	}
}

// cacheProbe: REGRESSION MONITOR (must never fire since /repo 12df811, key = headerDB + NUL + sql): two requests whose
// transform-cache keys collided under the old construction (hdr+":"+sql vs sql), in both orders on a fresh handler.
// Any `*:cache-collision:*` key is a violation (none is listed in known_findings).
func (e *env) cacheProbe(r *vh.Rand, dsID string) {
	g := &gen{r: r}
	mk := func() *qb {
		b := &qb{r: r, feats: map[string]bool{}, kwCase: 0}
		b.kw("SELECT")
		b.ws(" ")
		b.id("rid")
		b.ws(" ")
		b.kw("FROM")
		b.ws(" ")
		g.tableName(b, vh.Pick(r, measurements), nameOpt{})
		b.ws(" ")
		b.kw("WHERE")
		b.ws(" ")
		b.id("host")
		b.p("<>")
		b.str("zz" + fmt.Sprint(r.Intn(1000)))
		b.ws(" ")
		b.kw("ORDER BY")
		b.ws(" ")
		b.id("rid")
		b.order = true
		b.hazard = "cache-collision"
		return b
	}
	for order := 0; order < 2; order++ {
		e.fresh()
		with := mk()
		pre := &qb{r: r, feats: map[string]bool{}, hazard: "cache-collision", order: true}
		pre.id("prod")
		pre.p(":")
		pre.toks = append(pre.toks, with.toks...)
		pre.refs = append(pre.refs, with.refs...) // the statement after the `prod:` prefix has the same table positions
		if order == 0 {
			e.statement(with, "prod", dsID)
			e.statement(pre, "", dsID)
		} else {
			e.statement(pre, "", dsID)
			e.statement(with, "prod", dsID)
		}
	}
	e.fresh()
}

var hazards = []string{"fastpath-partial", "with-newline", "rp-text", "cte-shadow", "cte-quoted", "distinct-from", "comma-join",
	"mixed-case", "quoted-upper", "table-qualified-col", "tablefunc", "cte", "fn-nested", "soup"}

func main() {
	oneSQL := flag.String("sql", os.Getenv("C16_SQL"), "replay: run only this statement")
	oneHdr := flag.String("hdr", os.Getenv("C16_HDR"), "replay: x-arc-database header")
	oneDS := flag.String("dataset", os.Getenv("C16_DATASET"), "replay: dataset index")
	os.Setenv("TZ", "UTC")
	c := vh.Start()
	e := newEnv(c)
	defer e.close()
	nds, nq := 2, 120
	if c.Thorough() {
		nds, nq = 8, 700
	}
	if c.N > 0 {
		nq = c.N
	}
	top := vh.NewRand(c.Seed)
	for ds := 0; ds < nds; ds++ {
		dsID := fmt.Sprint(ds)
		dr := vh.NewRand(c.Seed*1000 + uint64(ds))
		e.dataset(dr)
		if *oneSQL != "" {
			if *oneDS != "" && *oneDS != dsID {
				continue
			}
			a := e.arc(*oneSQL, *oneHdr)
			r := runSQL(e.ref[*oneHdr], *oneSQL)
			fmt.Printf("rewritten: %s\narc: rejected=%q err=%v rows=%d noFiles=%v\nduckdb-with-views: err=%v rows=%d\n",
				strings.ReplaceAll(a.text, e.root, "ROOT"), a.rejected, a.err, len(a.rows), a.noFiles, r.err, len(r.rows))
			fmt.Println("arc rows:   ", canonRows(a, false, false))
			fmt.Println("duckdb rows:", canonRows(r, false, false))
			c.Finish("replay")
			return
		}
		e.fresh()
		qr := top.Fork()
		// edge grid first: every hazard shape in both header modes, then the random stream
		for _, hz := range hazards {
			for _, hdr := range []string{"", "prod", "default"} {
				g := &gen{r: qr, hdr: hdr}
				e.statement(g.query(qr.Fork(), hz), hdr, dsID)
			}
		}
		// fixed corpus: one minimal statement per confirmed class (seed independent)
		for _, cs := range corpus {
			for _, hdr := range cs.hdrs {
				e.statement(cs.build(), hdr, dsID)
			}
		}
		e.cacheProbe(qr.Fork(), dsID)
		for i := 0; i < nq; i++ {
			hz := ""
			if qr.Chance(22) {
				hz = vh.Pick(qr, hazards)
			}
			g := &gen{r: qr}
			b := g.query(qr.Fork(), hz)
			// the same statement with and without the header
			hdrs := []string{"", vh.Pick(qr, databases)}
			for _, hdr := range hdrs {
				e.statement(b, hdr, dsID)
			}
		}
	}
	c.Extra["http_self_check_ok"] = e.httpOK
	c.Extra["http_self_check_bad"] = e.httpBad
	c.Finish("a case = one (header mode, SQL text) pair executed on Arc's query path and on DuckDB-with-views; non-trivial = the statement is not a plain single-table select (CTE, join, subquery, function-body FROM, qualified/quoted name, comment or a candidate-defect shape)")
}
