//go:build verif

package main

import (
	"encoding/hex"
	"fmt"
	"strings"

	"github.com/basekick-labs/arc/internal/verif/vh"
)

// ---------------------------------------------------------------- tokens
//
// The query grammar is TOKEN level: a query is a list of tokens, rendered by concatenation. The
// Lean model receives the token stream, the real code the rendered text.
//   w word (keyword / bare identifier, [A-Za-z_][A-Za-z0-9_]*)   s whitespace run ([ \t\n\r]+)
//   p one punctuation byte                                        n digits
//   l '…' string literal (with quotes)                             q "…" quoted identifier (with quotes)
//   b /* … */ block comment                                        c -- … line comment (without the newline)
// Well-formedness kept by the builder (asserted): w/n/l/q tokens are never adjacent (the lexer of
// the real code would glue them), a `c` token is followed by an `s` token starting with '\n' or ends
// the stream, comment bodies contain no `(`, `)`, quotes, `*/` or `/*`.

type tok struct {
	k byte
	s string
}

func (t tok) enc() string { return string(t.k) + hex.EncodeToString([]byte(t.s)) }

func render(ts []tok) string {
	var sb strings.Builder
	for _, t := range ts {
		sb.WriteString(t.s)
	}
	return sb.String()
}

func encToks(ts []tok) string {
	xs := make([]string, len(ts))
	for i, t := range ts {
		xs[i] = t.enc()
	}
	return strings.Join(xs, " ")
}

func wordish(k byte) bool { return k == 'w' || k == 'n' || k == 'l' || k == 'q' }

// ---------------------------------------------------------------- builder

// refAnn: one table-position name of the query as the SPEC reads it (what DuckDB's binder does).
type refAnn struct {
	base bool   // resolved as a base table (a stored measurement): must be replaced
	db   string // database the replacement must read ("" = header database, or "default")
	tbl  string // name as written (unquoted)
	meas string // stored measurement DuckDB resolves it to (lower case)
}

type qb struct {
	r      *vh.Rand
	toks   []tok
	refs   []refAnn
	kwCase int // 0 upper, 1 lower, 2 mixed per keyword
	wsMode int // 0 single spaces, 1 spaces/tabs/newlines
	cm     int // percent of gaps that carry a comment
	feats  map[string]bool
	hazard string
	star   bool
	order  bool // the query orders its rows completely
	nalias int
	nested bool // prefer function bodies with nested first operands (class fn-nested)
}

func (b *qb) push(t tok) {
	if n := len(b.toks); n > 0 {
		p := b.toks[n-1]
		if wordish(p.k) && wordish(t.k) {
			panic(fmt.Sprintf("generator bug: adjacent wordish tokens %q %q", p.s, t.s))
		}
		if p.k == 's' && t.k == 's' {
			b.toks[n-1].s += t.s
			return
		}
		if p.k == 'c' && !(t.k == 's' && strings.HasPrefix(t.s, "\n")) {
			panic("generator bug: line comment not followed by newline")
		}
		if p.k == 'p' && t.k == 'p' && ((p.s == "-" && t.s == "-") || (p.s == "/" && t.s == "*")) {
			panic("generator bug: punctuation forms a comment opener")
		}
	}
	b.toks = append(b.toks, t)
}

func (b *qb) id(s string) { b.push(tok{'w', s}) }
func (b *qb) p(s string) {
	for i := 0; i < len(s); i++ {
		b.push(tok{'p', s[i : i+1]})
	}
}
func (b *qb) num(n int)     { b.push(tok{'n', fmt.Sprintf("%d", n)}) }
func (b *qb) str(s string)  { b.push(tok{'l', "'" + strings.ReplaceAll(s, "'", "''") + "'"}); b.feats["literal"] = true }
func (b *qb) qid(s string)  { b.push(tok{'q', `"` + strings.ReplaceAll(s, `"`, `""`) + `"`}) }
func (b *qb) ws(s string)   { b.push(tok{'s', s}) }
func (b *qb) dec(n int) { // n quarters: 1.25
	b.num(n / 4)
	b.p(".")
	b.push(tok{'n', []string{"0", "25", "5", "75"}[n%4]})
}

func (b *qb) caseOf(s string) string {
	switch b.kwCase {
	case 0:
		return strings.ToUpper(s)
	case 1:
		return strings.ToLower(s)
	}
	switch b.r.Intn(4) {
	case 0:
		return strings.ToUpper(s)
	case 1:
		return strings.ToLower(s)
	case 2:
		return strings.ToUpper(s[:1]) + strings.ToLower(s[1:])
	}
	bs := []byte(strings.ToLower(s))
	for i := range bs {
		if b.r.Bool() {
			bs[i] = strings.ToUpper(string(bs[i]))[0]
		}
	}
	return string(bs)
}

var commentPool = []string{"c", "note 1", "FROM mem", "x, y AS z", "JOIN prod.disk d", "with cpu as", "select * from disk", "a.b = 1"}

func (b *qb) rawWS() string {
	if b.wsMode == 0 {
		return " "
	}
	return vh.Pick(b.r, []string{" ", " ", " ", "  ", "\n", "\t", " \n", "\n  ", "\t ", " \r\n", "   "})
}

// gap: mandatory separator (whitespace, possibly with a comment inside)
func (b *qb) gap() {
	b.ws(b.rawWS())
	if b.cm > 0 && b.r.Chance(b.cm) {
		b.feats["comment"] = true
		txt := vh.Pick(b.r, commentPool)
		if b.r.Bool() {
			b.push(tok{'b', "/* " + txt + " */"})
			if b.r.Bool() {
				b.ws(b.rawWS())
			}
		} else {
			b.push(tok{'c', "-- " + txt})
			b.ws("\n" + vh.Pick(b.r, []string{"", " ", "  "}))
		}
	}
}

// ogap: optional separator
func (b *qb) ogap() {
	if b.wsMode == 1 && b.r.Chance(40) || b.wsMode == 0 && b.r.Chance(15) {
		b.ws(b.rawWS())
	}
}

// kw emits one or more space separated keywords with gaps between them (no trailing gap).
func (b *qb) kw(s string) {
	for i, w := range strings.Fields(s) {
		if i > 0 {
			b.gap()
		}
		b.id(b.caseOf(w))
	}
}

func (b *qb) comma() { b.ogapNoNL(); b.p(","); b.gapOrNone() }
func (b *qb) ogapNoNL() {
	if b.r.Chance(10) {
		b.ws(" ")
	}
}
func (b *qb) gapOrNone() {
	if b.r.Chance(85) {
		b.ws(b.rawWS())
	}
}

// ---------------------------------------------------------------- generator

var measurements = []string{"cpu", "mem", "disk"}
var databases = []string{"default", "prod"}

type source struct {
	alias string
	base  bool // has the full column set (time, region, ok)
}

type gen struct {
	r   *vh.Rand
	hdr string // "" = no header
}

func (g *gen) newAlias(b *qb) string {
	b.nalias++
	return fmt.Sprintf("%c%d", "abcdefgh"[b.nalias%8], b.nalias)
}

type nameOpt struct {
	mixed   bool // mixed-case spelling (hazard)
	quoted  bool // "cpu"
	dbq     int  // 0 bare, 1 db.m, 2 "db".m, 3 db."m"
	noAlias bool
}

// tableName emits the name of a base-table reference (after the introducer and its gap) and records it.
func (g *gen) tableName(b *qb, m string, o nameOpt) {
	written := m
	if o.mixed {
		written = vh.Pick(b.r, []string{strings.ToUpper(m), strings.ToUpper(m[:1]) + m[1:], m[:1] + strings.ToUpper(m[1:])})
		b.hazard = pickHazard(b.hazard, "mixed-case")
	}
	db := ""
	if o.dbq > 0 {
		db = vh.Pick(b.r, databases)
		if db == "default" && o.dbq != 2 {
			db = "prod" // bare `default` is a reserved word for DuckDB's parser
		}
		b.feats["db-qualified"] = true
		if o.dbq == 2 {
			b.qid(db)
			b.feats["quoted-name"] = true
		} else {
			b.id(db)
		}
		b.p(".")
	}
	if o.quoted || o.dbq == 3 {
		b.qid(written)
		b.feats["quoted-name"] = true
	} else {
		b.id(written)
	}
	b.refs = append(b.refs, refAnn{base: true, db: db, tbl: written, meas: m})
}

func pickHazard(cur, h string) string {
	if cur == "" {
		return h
	}
	return cur
}

// baseRef emits `<intro> <name> [AS] alias`.
func (g *gen) baseRef(b *qb, intro string, o nameOpt) source {
	m := vh.Pick(b.r, measurements)
	b.kw(intro)
	b.gap()
	g.tableName(b, m, o)
	if o.noAlias {
		return source{alias: m, base: true}
	}
	a := g.newAlias(b)
	b.gap()
	if b.r.Chance(30) {
		b.kw("AS")
		b.gap()
	}
	b.id(a)
	return source{alias: a, base: true}
}

func (g *gen) nameOpt(b *qb) nameOpt {
	var o nameOpt
	if b.r.Chance(12) {
		o.quoted = true
	}
	if b.r.Chance(22) {
		o.dbq = 1 + b.r.Intn(3)
	}
	return o
}

// innerSelect: `SELECT rid, host, usage, cnt FROM <base> [WHERE …]` (optionally a join or a UNION ALL inside);
// used for CTE bodies, derived tables, IN-subqueries. Always projects rid, host, usage, cnt.
func (g *gen) innerSelect(b *qb, depth int, ctes []string) {
	if depth > 0 && b.r.Chance(20) {
		g.innerSelect(b, depth-1, ctes)
		b.gap()
		b.kw("UNION ALL")
		b.gap()
		g.innerSelect(b, depth-1, ctes)
		b.feats["union"] = true
		return
	}
	b.kw("SELECT")
	b.gap()
	useCte := len(ctes) > 0 && b.r.Chance(35)
	join := !useCte && depth > 0 && b.r.Chance(20)
	if join {
		b.id("x")
		b.p(".")
		b.id("rid")
		b.comma()
		b.id("x")
		b.p(".")
		b.id("host")
		b.comma()
		b.id("x")
		b.p(".")
		b.id("usage")
		b.comma()
		b.id("x")
		b.p(".")
		b.id("cnt")
		b.gap()
		m := vh.Pick(b.r, measurements)
		b.kw("FROM")
		b.gap()
		g.tableName(b, m, g.nameOpt(b))
		b.gap()
		b.id("x")
		b.gap()
		b.kw(vh.Pick(b.r, []string{"JOIN", "INNER JOIN", "LEFT JOIN"}))
		b.gap()
		m2 := vh.Pick(b.r, measurements)
		g.tableName(b, m2, g.nameOpt(b))
		b.gap()
		b.id("y")
		b.gap()
		b.kw("ON")
		b.gap()
		b.id("x")
		b.p(".")
		b.id("host")
		b.ogap()
		b.p("=")
		b.ogap()
		b.id("y")
		b.p(".")
		b.id("host")
		b.feats["join"] = true
		return
	}
	for i, c := range []string{"rid", "host", "usage", "cnt"} {
		if i > 0 {
			b.comma()
		}
		b.id(c)
	}
	b.gap()
	b.kw("FROM")
	b.gap()
	if useCte {
		c := vh.Pick(b.r, ctes)
		b.id(c)
		b.refs = append(b.refs, refAnn{base: false, tbl: c})
	} else if depth > 0 && b.r.Chance(15) {
		b.p("(")
		b.ogap()
		g.innerSelect(b, depth-1, ctes)
		b.ogap()
		b.p(")")
		b.gap()
		b.id("s" + fmt.Sprint(b.r.Intn(9)))
		b.feats["subquery"] = true
	} else {
		g.tableName(b, vh.Pick(b.r, measurements), g.nameOpt(b))
	}
	if b.r.Chance(50) {
		b.gap()
		b.kw("WHERE")
		b.gap()
		g.simpleCond(b, "", false)
	}
}

// simpleCond: a predicate over the common columns (qual = "" for unqualified).
func (g *gen) col(b *qb, qual, c string) {
	if qual != "" {
		b.id(qual)
		b.p(".")
	}
	b.id(c)
}

// ---- function-body FROM whose first operand contains nested calls / parentheses (class fn-nested)

// nestedOperand wraps a VARCHAR column in 1..3 nested calls or parenthesised subexpressions.
func (g *gen) nestedOperand(b *qb, qual, c string) {
	depth := 1 + b.r.Intn(3)
	var closers []func()
	for i := 0; i < depth; i++ {
		switch b.r.Intn(5) {
		case 0:
			b.kw(vh.Pick(b.r, []string{"UPPER", "LOWER"}))
			b.ogap()
			b.p("(")
			closers = append(closers, func() { b.p(")") })
		case 1:
			b.p("(")
			closers = append(closers, func() { b.p(")") })
		case 2:
			b.kw("CONCAT")
			b.p("(")
			closers = append(closers, func() { b.comma(); b.str(vh.Pick(b.r, []string{"x", "", "h"})); b.p(")") })
		case 3:
			b.kw("COALESCE")
			b.p("(")
			closers = append(closers, func() { b.comma(); b.str("h9"); b.ogap(); b.p(")") })
		case 4:
			b.kw("REPLACE")
			b.p("(")
			closers = append(closers, func() { b.comma(); b.str("h"); b.comma(); b.str("H"); b.p(")") })
		}
		b.ogap()
	}
	g.col(b, qual, c)
	for i := len(closers) - 1; i >= 0; i-- {
		b.ogap()
		closers[i]()
	}
}

// identOperand: what follows the body's FROM: identifier, qualified identifier, parenthesised or a nested call.
func (g *gen) identOperand(b *qb, qual, c string) {
	switch b.r.Intn(5) {
	case 0, 1:
		g.col(b, qual, c)
	case 2:
		b.kw("ABS")
		b.p("(")
		g.col(b, qual, c)
		b.p(")")
	case 3:
		b.kw("COALESCE")
		b.p("(")
		g.col(b, qual, c)
		b.comma()
		b.num(1)
		b.p(")")
	case 4:
		b.p("(")
		g.col(b, qual, c)
		b.p(")")
	}
}

func boolInt(x bool) int {
	if x {
		return 1
	}
	return 0
}

// nestedFnFrom emits a VARCHAR expression; base = the source has `time`.
func (g *gen) nestedFnFrom(b *qb, qual string, base bool) {
	b.feats["fn-nested"] = true
	b.feats["fn-from"] = true
	n := 4
	if base {
		n = 5
	}
	k := b.r.Intn(n)
	if k == 3 && !b.nested {
		k = 0 // DuckDB has no overlay(): both sides fail; only generated in the dedicated fn-nested statements
	}
	switch k {
	case 0, 1: // SUBSTRING(<nested host> FROM <ident> [FOR k])
		b.kw("SUBSTRING")
		b.ogap()
		b.p("(")
		b.ogap()
		g.nestedOperand(b, qual, "host")
		b.gap()
		b.kw("FROM")
		b.gap()
		g.identOperand(b, qual, "cnt")
		if b.r.Bool() {
			b.gap()
			b.kw("FOR")
			b.gap()
			b.num(1 + b.r.Intn(3))
		}
		b.ogap()
		b.p(")")
	case 2: // TRIM(LEADING <nested literal> FROM <host | nested host>)
		b.kw("TRIM")
		b.ogap()
		b.p("(")
		b.kw(vh.Pick(b.r, []string{"LEADING", "TRAILING", "BOTH"}))
		b.gap()
		b.kw(vh.Pick(b.r, []string{"LOWER", "UPPER"}))
		b.p("(")
		if b.r.Bool() {
			b.kw("CONCAT")
			b.p("(")
			b.str("H")
			b.comma()
			b.str("")
			b.p(")")
		} else {
			b.str("H")
		}
		b.p(")")
		b.gap()
		b.kw("FROM")
		b.gap()
		if b.r.Bool() {
			g.col(b, qual, "host")
		} else {
			b.kw("LOWER")
			b.p("(")
			g.col(b, qual, "host")
			b.p(")")
		}
		b.ogap()
		b.p(")")
	case 3: // OVERLAY(<nested host> PLACING 'x' FROM <ident> [FOR 1])
		b.kw("OVERLAY")
		b.ogap()
		b.p("(")
		g.nestedOperand(b, qual, "host")
		b.gap()
		b.kw("PLACING")
		b.gap()
		b.str("x")
		b.gap()
		b.kw("FROM")
		b.gap()
		g.identOperand(b, qual, "cnt")
		if b.r.Bool() {
			b.gap()
			b.kw("FOR")
			b.gap()
			b.num(1)
		}
		b.p(")")
	case 4: // SUBSTRING(CAST(EXTRACT(year FROM time) AS VARCHAR) FROM <ident>): a body nested in a body
		b.kw("SUBSTRING")
		b.p("(")
		b.kw("CAST")
		b.p("(")
		b.kw("EXTRACT")
		b.ogap()
		b.p("(")
		b.kw(vh.Pick(b.r, []string{"year", "doy", "hour"}))
		b.gap()
		b.kw("FROM")
		b.gap()
		g.col(b, qual, "time")
		b.p(")")
		b.gap()
		b.kw("AS")
		b.gap()
		b.kw("VARCHAR")
		b.p(")")
		b.gap()
		b.kw("FROM")
		b.gap()
		g.identOperand(b, qual, "cnt")
		b.p(")")
	}
}

func (g *gen) simpleCond(b *qb, qual string, base bool) {
	if b.r.Chance(10) || b.nested && b.r.Chance(60) {
		g.nestedFnFrom(b, qual, base)
		b.gap()
		if b.r.Bool() {
			b.kw("IS NOT NULL")
		} else {
			b.kw("NOT IN")
			b.gap()
			b.p("(")
			b.str("zz")
			b.comma()
			b.str("H1")
			b.p(")")
		}
		return
	}
	n := 7
	if base {
		n = 11
	}
	switch b.r.Intn(n) {
	case 0:
		g.col(b, qual, "cnt")
		b.ogap()
		b.p(vh.Pick(b.r, []string{">", "<", ">=", "<=", "<>"}))
		b.ogap()
		b.num(b.r.Intn(20))
	case 1:
		g.col(b, qual, "usage")
		b.ogap()
		b.p(vh.Pick(b.r, []string{">", "<="}))
		b.ogap()
		b.dec(b.r.Intn(80))
	case 2:
		g.col(b, qual, "host")
		b.ogap()
		b.p("=")
		b.ogap()
		b.str(fmt.Sprintf("h%d", b.r.Intn(5)))
	case 3:
		g.col(b, qual, "host")
		b.gap()
		b.kw(vh.Pick(b.r, []string{"IS NOT NULL", "IS NULL"}))
	case 4:
		g.col(b, qual, "cnt")
		b.gap()
		b.kw("IN")
		b.gap()
		b.p("(")
		for i := 0; i < 3; i++ {
			if i > 0 {
				b.comma()
			}
			b.num(b.r.Intn(20))
		}
		b.p(")")
	case 5:
		b.kw("SUBSTRING")
		b.ogap()
		b.p("(")
		b.ogap()
		g.col(b, qual, "host")
		b.gap()
		b.kw("FROM")
		b.gap()
		b.num(2)
		b.gap()
		b.kw("FOR")
		b.gap()
		b.num(1)
		b.ogap()
		b.p(")")
		b.ogap()
		b.p("=")
		b.ogap()
		b.str(fmt.Sprint(b.r.Intn(5)))
		b.feats["fn-from"] = true
	case 6:
		b.kw("TRIM")
		b.p("(")
		b.kw("BOTH")
		b.gap()
		b.str("h")
		b.gap()
		b.kw("FROM")
		b.gap()
		g.col(b, qual, "host")
		b.p(")")
		b.ogap()
		b.p("<>")
		b.ogap()
		b.str(fmt.Sprint(b.r.Intn(5)))
		b.feats["fn-from"] = true
	case 7:
		b.kw("EXTRACT")
		b.ogap()
		b.p("(")
		b.ogap()
		b.kw(vh.Pick(b.r, []string{"hour", "day", "dow", "year"}))
		b.gap()
		b.kw("FROM")
		b.gap()
		if b.r.Chance(30) {
			b.kw("CAST")
			b.p("(")
			g.col(b, qual, "time")
			b.gap()
			b.kw("AS")
			b.gap()
			b.kw("DATE")
			b.p(")")
		} else {
			g.col(b, qual, "time")
		}
		b.ogap()
		b.p(")")
		b.ogap()
		b.p(vh.Pick(b.r, []string{"<", ">="}))
		b.ogap()
		b.num(b.r.Intn(24))
		b.feats["fn-from"] = true
	case 8:
		g.col(b, qual, "region")
		b.ogap()
		b.p("<>")
		b.ogap()
		b.str(vh.Pick(b.r, []string{"eu", "us", "FROM mem", "a JOIN b"}))
	case 9:
		g.col(b, qual, "ok")
	case 10:
		g.col(b, qual, "region")
		b.gap()
		b.kw("IS NULL")
	}
}

// subqueryCond: predicates that contain a sub-select over a base table.
func (g *gen) subqueryCond(b *qb, qual string, depth int, ctes []string) {
	b.feats["subquery"] = true
	switch b.r.Intn(4) {
	case 0:
		g.col(b, qual, "rid")
		b.gap()
		b.kw(vh.Pick(b.r, []string{"IN", "NOT IN"}))
		b.gap()
		b.p("(")
		b.ogap()
		b.kw("SELECT")
		b.gap()
		b.id("rid")
		b.gap()
		b.kw("FROM")
		b.gap()
		g.tableName(b, vh.Pick(b.r, measurements), g.nameOpt(b))
		b.gap()
		b.kw("WHERE")
		b.gap()
		g.simpleCond(b, "", false)
		b.ogap()
		b.p(")")
	case 1:
		b.kw("EXISTS")
		b.gap()
		b.p("(")
		b.kw("SELECT")
		b.gap()
		b.num(1)
		b.gap()
		b.kw("FROM")
		b.gap()
		g.tableName(b, vh.Pick(b.r, measurements), g.nameOpt(b))
		b.gap()
		b.id("z")
		b.gap()
		b.kw("WHERE")
		b.gap()
		b.id("z")
		b.p(".")
		b.id("host")
		b.ogap()
		b.p("=")
		b.ogap()
		g.col(b, qual, "host")
		b.p(")")
	case 2:
		g.col(b, qual, "cnt")
		b.ogap()
		b.p(">")
		b.ogap()
		b.p("(")
		b.kw("SELECT")
		b.gap()
		b.kw("avg")
		b.p("(")
		b.id("cnt")
		b.p(")")
		b.gap()
		b.kw("FROM")
		b.gap()
		g.tableName(b, vh.Pick(b.r, measurements), g.nameOpt(b))
		b.p(")")
	case 3:
		// FROM inside a function body whose argument is itself a sub-select over a base table
		b.kw("EXTRACT")
		b.p("(")
		b.kw("year")
		b.gap()
		b.kw("FROM")
		b.gap()
		b.p("(")
		b.kw("SELECT")
		b.gap()
		b.kw("max")
		b.p("(")
		b.id("time")
		b.p(")")
		b.gap()
		b.kw("FROM")
		b.gap()
		g.tableName(b, vh.Pick(b.r, measurements), g.nameOpt(b))
		b.p(")")
		b.p(")")
		b.ogap()
		b.p(">")
		b.ogap()
		b.num(2000)
		b.feats["fn-from"] = true
	}
}

var joinKinds = []string{"JOIN", "INNER JOIN", "LEFT JOIN", "LEFT OUTER JOIN", "RIGHT JOIN", "RIGHT OUTER JOIN",
	"FULL JOIN", "FULL OUTER JOIN", "CROSS JOIN", "NATURAL JOIN", "NATURAL LEFT JOIN", "SEMI JOIN", "ANTI JOIN",
	"ASOF JOIN", "ASOF LEFT JOIN", "LEFT JOIN LATERAL", "CROSS JOIN LATERAL", "JOIN LATERAL"}

// projItem emits one projection expression over source s.
func (g *gen) projItem(b *qb, s source, i int) {
	if b.r.Chance(10) || b.nested && b.r.Chance(60) {
		g.nestedFnFrom(b, s.alias, s.base)
		b.gap()
		b.kw("AS")
		b.gap()
		b.id(fmt.Sprintf("e%d", i))
		return
	}
	n := 6
	if s.base {
		n = 9
	}
	switch b.r.Intn(n) {
	case 0, 1:
		g.col(b, s.alias, vh.Pick(b.r, []string{"host", "usage", "cnt", "rid"}))
	case 2:
		g.col(b, s.alias, "cnt")
		b.ogap()
		b.p("+")
		b.ogap()
		b.num(b.r.Intn(5))
		b.gap()
		b.kw("AS")
		b.gap()
		b.id(fmt.Sprintf("e%d", i))
	case 3:
		b.kw("coalesce")
		b.p("(")
		g.col(b, s.alias, "usage")
		b.comma()
		b.num(0)
		b.p(")")
		b.gap()
		b.kw("AS")
		b.gap()
		b.id(fmt.Sprintf("e%d", i))
	case 4:
		b.kw("SUBSTRING")
		b.p("(")
		g.col(b, s.alias, "host")
		b.gap()
		b.kw("FROM")
		b.gap()
		b.num(1)
		b.gap()
		b.kw("FOR")
		b.gap()
		b.num(2)
		b.p(")")
		b.gap()
		b.kw("AS")
		b.gap()
		b.id(fmt.Sprintf("e%d", i))
		b.feats["fn-from"] = true
	case 5:
		b.str(vh.Pick(b.r, []string{"x", "FROM cpu", "it''s", "a, b FROM mem m", "-- no", "/* c */"}))
		b.gap()
		b.kw("AS")
		b.gap()
		b.id(fmt.Sprintf("e%d", i))
	case 6:
		b.kw("EXTRACT")
		b.ogap()
		b.p("(")
		b.kw(vh.Pick(b.r, []string{"hour", "doy", "month"}))
		b.gap()
		b.kw("FROM")
		b.gap()
		g.col(b, s.alias, "time")
		b.p(")")
		b.gap()
		b.kw("AS")
		b.gap()
		b.id(fmt.Sprintf("e%d", i))
		b.feats["fn-from"] = true
	case 7:
		g.col(b, s.alias, "time")
	case 8:
		g.col(b, s.alias, vh.Pick(b.r, []string{"region", "ok"}))
	}
}

// query generates one statement of the grammar. hazard = "" for the benign grammar, otherwise the
// candidate-defect shape to include.
func (g *gen) query(r *vh.Rand, hazard string) *qb {
	b := &qb{r: r, feats: map[string]bool{}, kwCase: r.Intn(3), wsMode: 0}
	if r.Chance(45) {
		b.wsMode = 1
	}
	if r.Chance(30) {
		b.cm = 10 + r.Intn(25)
	}
	switch hazard {
	case "fastpath-partial":
		return g.hzFastPartial(b)
	case "with-newline":
		return g.hzWithNewline(b)
	case "rp-text":
		return g.hzRPText(b)
	case "cte-shadow":
		return g.hzCteShadow(b)
	case "distinct-from":
		return g.hzDistinctFrom(b)
	case "cte-quoted":
		return g.hzCteQuoted(b)
	case "soup":
		return g.soup(b)
	}
	b.hazard = ""
	b.nested = hazard == "fn-nested"
	if b.r.Chance(8) {
		b.ws(b.rawWS())
	}
	// ---- WITH
	var ctes []string
	if hazard == "" && r.Chance(30) || hazard == "cte" {
		b.feats["cte"] = true
		b.kw("WITH")
		b.gap()
		n := 1 + r.Intn(2)
		for i := 0; i < n; i++ {
			if i > 0 {
				b.ogapNoNL()
				b.p(",")
				b.gapOrNone()
			}
			name := vh.Pick(r, []string{"recent", "agg", "t1", "Hot", "base_rows", "w"})
			for _, c := range ctes {
				if strings.EqualFold(c, name) {
					name += "2"
				}
			}
			b.id(name)
			if r.Chance(20) {
				b.ogap()
				b.p("(")
				for j, c := range []string{"rid", "host", "usage", "cnt"} {
					if j > 0 {
						b.comma()
					}
					b.id(c)
				}
				b.p(")")
			}
			b.gap()
			b.kw("AS")
			b.ogap()
			b.p("(")
			b.ogap()
			g.innerSelect(b, 1, ctes)
			b.ogap()
			b.p(")")
			ctes = append(ctes, name)
		}
		b.gap()
	}
	// ---- SELECT list is emitted after the FROM clause is planned: plan sources first
	type plan struct {
		kind  string // base, cte, derived, func
		join  string
		m     string
		o     nameOpt
		alias string
		cte   string
	}
	var plans []plan
	nsrc := 1
	if r.Chance(45) {
		nsrc = 2
	}
	if r.Chance(10) {
		nsrc = 3
	}
	if hazard == "comma-join" || hazard == "table-qualified-col" {
		nsrc = 2
	}
	star := nsrc == 1 && r.Chance(20) && hazard == ""
	for i := 0; i < nsrc; i++ {
		p := plan{kind: "base", m: vh.Pick(r, measurements), o: g.nameOpt(b)}
		if hazard == "mixed-case" && i == 0 {
			p.o.mixed = true
		}
		if hazard == "quoted-upper" && i == 0 {
			p.o.mixed, p.o.quoted = true, true
		}
		if hazard == "table-qualified-col" {
			p.o = nameOpt{noAlias: true}
			if i == 1 {
				for p.m == plans[0].m {
					p.m = vh.Pick(r, measurements)
				}
			}
		}
		if hazard == "" || hazard == "cte" {
			switch {
			case len(ctes) > 0 && r.Chance(60):
				p.kind, p.cte = "cte", vh.Pick(r, ctes)
			case r.Chance(15):
				p.kind = "derived"
			}
		}
		if i > 0 {
			p.join = vh.Pick(r, joinKinds)
			if hazard == "comma-join" {
				p.join = ","
			}
			if hazard == "table-qualified-col" {
				p.join = vh.Pick(r, []string{"JOIN", "LEFT JOIN", "INNER JOIN"})
			}
			if strings.HasSuffix(p.join, "LATERAL") {
				p.kind = "derived"
			}
			if strings.HasPrefix(p.join, "NATURAL") {
				p.kind = "natural"
			}
		}
		if hazard == "tablefunc" && i == nsrc-1 {
			p.kind = "func"
			if i > 0 {
				p.join = vh.Pick(r, []string{"JOIN", "CROSS JOIN", "LEFT JOIN"})
			}
		}
		if p.kind == "base" && p.o.noAlias {
			p.alias = p.m
		} else {
			p.alias = g.newAlias(b)
		}
		plans = append(plans, p)
	}
	semi := false
	for _, p := range plans {
		if strings.HasPrefix(p.join, "SEMI") || strings.HasPrefix(p.join, "ANTI") {
			semi = true
		}
	}
	visible := []source{}
	for i, p := range plans {
		if i > 0 && semi {
			break
		}
		if p.kind == "func" {
			continue
		}
		if p.kind == "natural" {
			continue
		}
		visible = append(visible, source{alias: p.alias, base: p.kind == "base"})
	}
	hasFunc := false
	for _, p := range plans {
		if p.kind == "func" {
			hasFunc = true
		}
	}
	if len(visible) == 0 {
		visible = append(visible, source{alias: plans[0].alias})
	}
	agg := !star && r.Chance(30)
	b.kw("SELECT")
	b.gap()
	if r.Chance(8) && !agg && !star {
		b.kw("DISTINCT")
		b.gap()
	}
	groupBy := visible[0]
	switch {
	case star:
		b.p("*")
		b.star = true
	case agg:
		b.feats["aggregate"] = true
		g.col(b, groupBy.alias, "host")
		b.comma()
		b.kw("count")
		b.p("(")
		b.p("*")
		b.p(")")
		b.gap()
		b.kw("AS")
		b.gap()
		b.id("n")
		b.comma()
		b.kw(vh.Pick(r, []string{"sum", "max", "min", "avg"}))
		b.p("(")
		g.col(b, visible[len(visible)-1].alias, vh.Pick(r, []string{"cnt", "usage"}))
		b.p(")")
		b.gap()
		b.kw("AS")
		b.gap()
		b.id("v")
	default:
		// complete ordering needs every source's unique rid in the select list (DISTINCT) – always project them
		k := 0
		for _, s := range visible {
			if k > 0 {
				b.comma()
			}
			g.col(b, s.alias, "rid")
			k++
		}
		extra := 1 + r.Intn(3)
		for j := 0; j < extra; j++ {
			b.comma()
			g.projItem(b, vh.Pick(r, visible), j)
		}
	}
	b.gap()
	// ---- FROM clause
	for i, p := range plans {
		intro := "FROM"
		if i > 0 {
			intro = p.join
		}
		if intro == "," {
			b.ogapNoNL()
			b.p(",")
			b.gapOrNone()
			b.hazard = pickHazard(b.hazard, "comma-join")
		} else {
			if i > 0 {
				b.gap()
			}
			b.kw(intro)
			b.gap()
			if i > 0 {
				b.feats["join"] = true
				b.feats["join:"+strings.ToLower(strings.ReplaceAll(intro, " ", "-"))] = true
			}
		}
		switch p.kind {
		case "base":
			g.tableName(b, p.m, p.o)
		case "cte":
			b.id(p.cte)
			b.refs = append(b.refs, refAnn{base: false, tbl: p.cte})
		case "derived":
			b.p("(")
			b.ogap()
			g.innerSelect(b, 1, ctes)
			b.ogap()
			b.p(")")
			b.feats["subquery"] = true
		case "natural":
			b.p("(")
			b.kw("SELECT")
			b.gap()
			b.id("host")
			b.comma()
			b.kw("max")
			b.p("(")
			b.id("cnt")
			b.p(")")
			b.gap()
			b.kw("AS")
			b.gap()
			b.id("mc")
			b.gap()
			b.kw("FROM")
			b.gap()
			g.tableName(b, p.m, g.nameOpt(b))
			b.gap()
			b.kw("GROUP BY")
			b.gap()
			b.id("host")
			b.p(")")
			b.feats["subquery"] = true
		case "func":
			b.kw(vh.Pick(r, []string{"range", "generate_series"}))
			if r.Chance(30) {
				b.ws(" ")
			}
			if r.Chance(30) { // a comment between the function name and its parenthesis is still a call
				b.push(tok{'b', "/* " + vh.Pick(r, commentPool) + " */"})
				b.ws(" ")
			}
			b.p("(")
			b.num(1)
			b.comma()
			b.num(3)
			b.p(")")
			b.hazard = pickHazard(b.hazard, "tablefunc")
		}
		if !(p.kind == "base" && p.o.noAlias) {
			b.gap()
			if r.Chance(25) {
				b.kw("AS")
				b.gap()
			}
			b.id(p.alias)
			if p.kind == "func" {
				b.p("(")
				b.id("g")
				b.p(")")
			}
		} else {
			b.hazard = pickHazard(b.hazard, "table-qualified-col")
		}
		if i > 0 && intro != "," {
			needOn := !strings.HasPrefix(intro, "CROSS") && !strings.HasPrefix(intro, "NATURAL")
			if needOn {
				b.gap()
				b.kw("ON")
				b.gap()
				l := plans[i-1].alias
				if p.kind == "func" {
					g.col(b, l, "cnt")
					b.ogap()
					b.p(">=")
					b.ogap()
					g.col(b, p.alias, "g")
				} else {
					g.col(b, l, "host")
					b.ogap()
					b.p("=")
					b.ogap()
					g.col(b, p.alias, "host")
					if strings.HasPrefix(intro, "ASOF") {
						b.gap()
						b.kw("AND")
						b.gap()
						g.col(b, l, "rid")
						b.ogap()
						b.p(">=")
						b.ogap()
						g.col(b, p.alias, "rid")
					}
				}
			}
		}
	}
	// ---- WHERE
	conds := 0
	if hazard == "comma-join" {
		b.gap()
		b.kw("WHERE")
		b.gap()
		g.col(b, plans[0].alias, "host")
		b.ogap()
		b.p("=")
		b.ogap()
		g.col(b, plans[1].alias, "host")
		conds++
	}
	nc := r.Intn(3)
	for j := 0; j < nc; j++ {
		b.gap()
		if conds == 0 {
			b.kw("WHERE")
		} else {
			b.kw(vh.Pick(r, []string{"AND", "AND", "OR"}))
		}
		b.gap()
		s := vh.Pick(r, visible)
		if r.Chance(25) {
			g.subqueryCond(b, s.alias, 1, ctes)
		} else {
			g.simpleCond(b, s.alias, s.base)
		}
		conds++
	}
	// ---- GROUP BY / ORDER BY / LIMIT
	if agg {
		b.gap()
		b.kw("GROUP BY")
		b.gap()
		g.col(b, groupBy.alias, "host")
		if r.Chance(60) {
			b.gap()
			b.kw("ORDER BY")
			b.gap()
			g.col(b, groupBy.alias, "host")
			if r.Chance(30) {
				b.gap()
				b.kw(vh.Pick(r, []string{"DESC", "ASC NULLS FIRST"}))
			}
			b.order = true
		}
	} else if !star && r.Chance(55) {
		b.gap()
		b.kw("ORDER BY")
		b.gap()
		for k, s := range visible {
			if k > 0 {
				b.comma()
			}
			g.col(b, s.alias, "rid")
			if r.Chance(25) {
				b.gap()
				b.kw("DESC")
			}
		}
		b.order = !hasFunc
		if r.Chance(40) && !hasFunc {
			b.gap()
			b.kw("LIMIT")
			b.gap()
			b.num(1 + r.Intn(12))
		}
	} else if star && r.Chance(40) {
		b.gap()
		b.kw("ORDER BY")
		b.gap()
		b.id("rid")
		b.order = true
	}
	if r.Chance(10) {
		b.ogap()
		b.p(";")
	}
	if r.Chance(8) {
		b.ws(b.rawWS())
	}
	return b
}

// ---- hazard shapes (candidate defects); each sets b.hazard

// exactly one "from " in the text, no quotes/comments/joins spelled " join ", but more than one base reference
func (g *gen) hzFastPartial(b *qb) *qb {
	b.hazard = "fastpath-partial"
	b.wsMode, b.cm = 0, 0
	m1, m2 := vh.Pick(b.r, measurements), vh.Pick(b.r, measurements)
	switch b.r.Intn(3) {
	case 0: // outer FROM followed by a newline, inner FROM by a space
		b.kw("SELECT")
		b.ws(" ")
		b.id("rid")
		b.p(",")
		b.ws(" ")
		b.id("cnt")
		b.ws(" ")
		b.kw("FROM")
		b.ws(vh.Pick(b.r, []string{"\n", "\n  ", "\t"}))
		g.tableName(b, m1, nameOpt{})
		b.ws(" ")
		b.kw("WHERE")
		b.ws(" ")
		b.id("rid")
		b.ws(" ")
		b.kw("IN")
		b.ws(" ")
		b.p("(")
		b.kw("SELECT")
		b.ws(" ")
		b.id("rid")
		b.ws(" ")
		b.kw("FROM")
		b.ws(" ")
		g.tableName(b, m2, nameOpt{})
		b.p(")")
		b.ws(" ")
		b.kw("ORDER BY")
		b.ws(" ")
		b.id("rid")
		b.order = true
	case 1: // JOIN followed by a newline: " join " is not in the text
		b.kw("SELECT")
		b.ws(" ")
		b.id("a")
		b.p(".")
		b.id("rid")
		b.p(",")
		b.ws(" ")
		b.id("b")
		b.p(".")
		b.id("rid")
		b.ws(" ")
		b.kw("FROM")
		b.ws(" ")
		g.tableName(b, m1, nameOpt{})
		b.ws(" ")
		b.id("a")
		b.ws("\n")
		b.kw(vh.Pick(b.r, []string{"JOIN", "LEFT JOIN"}))
		b.ws("\n  ")
		g.tableName(b, m2, nameOpt{})
		b.ws(" ")
		b.id("b")
		b.ws(" ")
		b.kw("ON")
		b.ws(" ")
		b.id("a")
		b.p(".")
		b.id("host")
		b.p("=")
		b.id("b")
		b.p(".")
		b.id("host")
	case 2: // UNION ALL with the second FROM on a new line
		b.kw("SELECT")
		b.ws(" ")
		b.id("rid")
		b.ws(" ")
		b.kw("FROM")
		b.ws(" ")
		g.tableName(b, m1, nameOpt{})
		b.ws("\n")
		b.kw("UNION ALL")
		b.ws("\n")
		b.kw("SELECT")
		b.ws(" ")
		b.id("rid")
		b.ws(" ")
		b.kw("FROM")
		b.ws("\n")
		g.tableName(b, m2, nameOpt{})
	}
	return b
}

// WITH followed by a newline: with the header the CTE names are not collected ("with " not in the text)
func (g *gen) hzWithNewline(b *qb) *qb {
	b.hazard = "with-newline"
	b.wsMode, b.cm = 0, 0
	b.kw("WITH")
	b.ws(vh.Pick(b.r, []string{"\n", "\n  ", "\t"}))
	b.id("recent")
	b.ws(" ")
	b.kw("AS")
	b.ws(" ")
	b.p("(")
	b.kw("SELECT")
	b.ws(" ")
	b.id("rid")
	b.p(",")
	b.ws(" ")
	b.id("host")
	b.ws(" ")
	b.kw("FROM")
	b.ws(" ")
	g.tableName(b, vh.Pick(b.r, measurements), nameOpt{})
	b.p(")")
	b.ws("\n")
	b.kw("SELECT")
	b.ws(" ")
	b.id("rid")
	b.ws(" ")
	b.kw("FROM")
	b.ws(" ")
	b.id("recent")
	b.refs = append(b.refs, refAnn{base: false, tbl: "recent"})
	b.ws(" ")
	b.kw("ORDER BY")
	b.ws(" ")
	b.id("rid")
	b.order = true
	return b
}

// the text `read_parquet` somewhere that is not a call: literal, comment, alias, column alias
func (g *gen) hzRPText(b *qb) *qb {
	b.hazard = "rp-text"
	b.cm = 0
	b.kw("SELECT")
	b.gap()
	b.id("rid")
	k := b.r.Intn(4)
	if k == 0 {
		b.comma()
		b.str(vh.Pick(b.r, []string{"read_parquet", "see read_parquet docs", "READ_PARQUET"}))
		b.gap()
		b.kw("AS")
		b.gap()
		b.id("src")
	}
	if k == 1 {
		b.comma()
		b.id("cnt")
		b.gap()
		b.kw("AS")
		b.gap()
		b.id(vh.Pick(b.r, []string{"read_parquet_cnt", "n_read_parquet"}))
	}
	b.gap()
	if k == 2 {
		b.push(tok{'b', "/* was read_parquet before */"})
		b.ws(" ")
	}
	b.kw("FROM")
	b.gap()
	g.tableName(b, vh.Pick(b.r, measurements), nameOpt{})
	if k == 3 {
		b.gap()
		b.kw("WHERE")
		b.gap()
		b.id("host")
		b.ogap()
		b.p("<>")
		b.ogap()
		b.str("read_parquet")
	}
	b.gap()
	b.kw("ORDER BY")
	b.gap()
	b.id("rid")
	b.order = true
	return b
}

// a CTE name defined in an inner scope equals a measurement referenced outside that scope
func (g *gen) hzCteShadow(b *qb) *qb {
	b.hazard = "cte-shadow"
	m := vh.Pick(b.r, measurements)
	cname := m
	if b.r.Chance(30) {
		cname = strings.ToUpper(m)
	}
	b.kw("SELECT")
	b.gap()
	b.id("a")
	b.p(".")
	b.id("rid")
	b.comma()
	b.id("s")
	b.p(".")
	b.id("k")
	b.gap()
	b.kw("FROM")
	b.gap()
	g.tableName(b, m, nameOpt{})
	b.gap()
	b.id("a")
	b.gap()
	b.kw("JOIN")
	b.gap()
	b.p("(")
	b.kw("WITH")
	b.gap()
	b.id(cname)
	b.gap()
	b.kw("AS")
	b.gap()
	b.p("(")
	b.kw("SELECT")
	b.gap()
	b.num(1)
	b.gap()
	b.kw("AS")
	b.gap()
	b.id("k")
	b.p(")")
	b.gap()
	b.kw("SELECT")
	b.gap()
	b.id("k")
	b.gap()
	b.kw("FROM")
	b.gap()
	b.id(cname)
	b.refs = append(b.refs, refAnn{base: false, tbl: cname})
	b.p(")")
	b.gap()
	b.id("s")
	b.gap()
	b.kw("ON")
	b.gap()
	b.id("a")
	b.p(".")
	b.id("cnt")
	b.ogap()
	b.p(">=")
	b.ogap()
	b.id("s")
	b.p(".")
	b.id("k")
	b.gap()
	b.kw("ORDER BY")
	b.gap()
	b.id("a")
	b.p(".")
	b.id("rid")
	b.order = true
	b.feats["cte"] = true
	return b
}

// quoted CTE names: definition quoted / reference bare (the registry holds the placeholder, the bare
// reference misses it), both quoted with the same spelling, definition bare / reference quoted
func (g *gen) hzCteQuoted(b *qb) *qb {
	name := vh.Pick(b.r, []string{"agg", "recent", "t1"})
	v := b.r.Intn(3)
	b.feats["cte"] = true
	if v == 0 {
		b.hazard = "cte-quoted"
	}
	b.kw("WITH")
	b.gap()
	if v == 2 {
		b.id(name)
	} else {
		b.qid(name)
	}
	b.gap()
	b.kw("AS")
	b.ogap()
	b.p("(")
	g.innerSelect(b, 0, nil)
	b.p(")")
	b.gap()
	b.kw("SELECT")
	b.gap()
	b.id("rid")
	b.comma()
	b.id("cnt")
	b.gap()
	b.kw("FROM")
	b.gap()
	if v == 0 {
		b.id(name)
	} else {
		b.qid(name)
	}
	b.refs = append(b.refs, refAnn{base: false, tbl: name})
	b.gap()
	b.kw("ORDER BY")
	b.gap()
	b.id("rid")
	b.order = true
	return b
}

// IS [NOT] DISTINCT FROM <operand>: a FROM keyword that is not a table position
func (g *gen) hzDistinctFrom(b *qb) *qb {
	b.hazard = "distinct-from"
	b.kw("SELECT")
	b.gap()
	b.id("a")
	b.p(".")
	b.id("rid")
	b.gap()
	b.kw("FROM")
	b.gap()
	g.tableName(b, vh.Pick(b.r, measurements), nameOpt{})
	b.gap()
	b.id("a")
	b.gap()
	b.kw("WHERE")
	b.gap()
	b.id("a")
	b.p(".")
	b.id("host")
	b.gap()
	b.kw(vh.Pick(b.r, []string{"IS DISTINCT FROM", "IS NOT DISTINCT FROM"}))
	b.gap()
	switch b.r.Intn(3) {
	case 0:
		b.id("a")
		b.p(".")
		b.id("region")
	case 1:
		b.id("region")
	case 2:
		b.kw("NULL")
	}
	b.gap()
	b.kw("ORDER BY")
	b.gap()
	b.id("a")
	b.p(".")
	b.id("rid")
	b.order = true
	return b
}

// soup: a well-formed-token but grammatically random stream (malformed statements); exercises the
// matchers of the model against the regexes on shapes no SQL generator produces.
func (g *gen) soup(b *qb) *qb {
	b.hazard = "soup"
	words := []string{"SELECT", "FROM", "from", "JOIN", "join", "LEFT", "RIGHT", "FULL", "OUTER", "INNER", "CROSS", "NATURAL", "LATERAL", "lateral",
		"ASOF", "SEMI", "ANTI", "POSITIONAL", "WITH", "with", "RECURSIVE", "AS", "as", "cpu", "mem", "disk", "prod", "x", "rid", "host", "WHERE",
		"EXTRACT", "extract", "SUBSTRING", "TRIM", "OVERLAY", "ON", "pg_catalog", "duckdb_tables", "information_schema", "valfrom", "joined", "startswith", "UNION"}
	n := 3 + b.r.Intn(14)
	b.kw("SELECT")
	b.ws(" ")
	for i := 0; i < n; i++ {
		switch b.r.Intn(12) {
		case 0, 1, 2, 3, 4:
			if len(b.toks) > 0 && wordish(b.toks[len(b.toks)-1].k) {
				b.ws(b.pickWS())
			}
			b.id(vh.Pick(b.r, words))
		case 5:
			b.ws(b.pickWS())
		case 6:
			b.p(vh.Pick(b.r, []string{"(", ")", ",", ".", "*", "=", "(", ")", ","}))
		case 7:
			if len(b.toks) > 0 && wordish(b.toks[len(b.toks)-1].k) {
				b.ws(" ")
			}
			b.num(b.r.Intn(30))
		case 8:
			if len(b.toks) > 0 && wordish(b.toks[len(b.toks)-1].k) {
				b.ws(" ")
			}
			b.str(vh.Pick(b.r, []string{"a", "FROM cpu", "x"}))
		case 9:
			if len(b.toks) > 0 && wordish(b.toks[len(b.toks)-1].k) {
				b.ws(" ")
			}
			b.qid(vh.Pick(b.r, []string{"cpu", "Mem", "a b", "x-y", "prod", "w"}))
		case 10:
			b.push(tok{'b', "/* " + vh.Pick(b.r, commentPool) + " */"})
		case 11:
			b.push(tok{'c', "-- " + vh.Pick(b.r, commentPool)})
			b.ws("\n")
		}
	}
	return b
}

func (b *qb) pickWS() string {
	return vh.Pick(b.r, []string{" ", " ", "  ", "\n", "\t", " \t", "\r\n", " \n "})
}

// ---------------------------------------------------------------- fixed corpus (seed independent)

// lex splits a corpus statement into the token kinds of the grammar.
func lex(s string) []tok {
	var out []tok
	isW := func(c byte) bool { return c == '_' || (c >= 'a' && c <= 'z') || (c >= 'A' && c <= 'Z') }
	isD := func(c byte) bool { return c >= '0' && c <= '9' }
	isS := func(c byte) bool { return c == ' ' || c == '\t' || c == '\n' || c == '\r' }
	for i := 0; i < len(s); {
		c := s[i]
		j := i + 1
		k := byte('p')
		switch {
		case isW(c):
			for j < len(s) && (isW(s[j]) || isD(s[j])) {
				j++
			}
			k = 'w'
		case isD(c):
			for j < len(s) && isD(s[j]) {
				j++
			}
			k = 'n'
		case isS(c):
			for j < len(s) && isS(s[j]) {
				j++
			}
			k = 's'
		case c == '\'' || c == '"':
			for j < len(s) {
				if s[j] == c {
					if j+1 < len(s) && s[j+1] == c {
						j += 2
						continue
					}
					break
				}
				j++
			}
			j++
			k = 'l'
			if c == '"' {
				k = 'q'
			}
		case c == '/' && j < len(s) && s[j] == '*':
			j = i + 2 + strings.Index(s[i+2:], "*/") + 2
			k = 'b'
		case c == '-' && j < len(s) && s[j] == '-':
			for j < len(s) && s[j] != '\n' {
				j++
			}
			k = 'c'
		}
		out = append(out, tok{k, s[i:j]})
		i = j
	}
	return out
}

type corpusStmt struct {
	hazard string
	sql    string
	base   []string // names of the base-table references, as written
	ctes   []string
	order  bool
	hdrs   []string // header modes to run ("" = none)
}

// one minimal statement per confirmed class: the primary keys of every class fire in every run
var corpus = []corpusStmt{
	{"rp-text", "SELECT rid, cnt AS read_parquet_cnt FROM cpu ORDER BY rid", []string{"cpu"}, nil, true, []string{"", "prod"}},
	{"rp-text", "SELECT rid FROM cpu WHERE host <> 'read_parquet' ORDER BY rid", []string{"cpu"}, nil, true, []string{"", "prod"}},
	{"comma-join", "SELECT a.rid, b.rid FROM cpu a, mem b WHERE a.host = b.host AND a.host <> 'zz' ORDER BY a.rid, b.rid", []string{"cpu", "mem"}, nil, true, []string{"", "prod"}},
	{"distinct-from", "SELECT a.rid FROM disk a WHERE a.host IS DISTINCT FROM NULL ORDER BY a.rid", []string{"disk"}, nil, true, []string{"", "prod"}},
	{"cte-shadow", "SELECT a.rid, s.k FROM cpu a JOIN (WITH cpu AS (SELECT 1 AS k) SELECT k FROM cpu) s ON a.cnt >= s.k ORDER BY a.rid", []string{"cpu"}, []string{"cpu"}, true, []string{"", "prod"}},
	{"cte-quoted", "WITH \"t1\" AS (SELECT rid, cnt FROM mem) SELECT rid, cnt FROM t1 ORDER BY rid", []string{"mem"}, []string{"t1"}, true, []string{"", "prod"}},
	{"lateral-newline", "SELECT a.rid, b.rid FROM cpu a JOIN LATERAL\n(SELECT rid, host FROM mem) b ON a.host = b.host ORDER BY a.rid, b.rid", []string{"cpu", "mem"}, nil, true, []string{"", "prod"}},
	{"comment-before-last-byte", "SELECT rid FROM cpu ORDER BY rid LIMIT /* c */9", []string{"cpu"}, nil, true, []string{"", "prod"}},
	{"table-qualified-col", "SELECT cpu.rid, mem.rid FROM cpu JOIN mem ON cpu.host = mem.host ORDER BY cpu.rid, mem.rid", []string{"cpu", "mem"}, nil, true, []string{"", "prod"}},
	{"mixed-case", "SELECT rid, cnt FROM Disk WHERE cnt >= 0 ORDER BY rid", []string{"Disk"}, nil, true, []string{"", "prod"}},
	{"mixed-case", "SELECT a.rid, b.rid FROM cpu a JOIN \"MEM\" b ON a.host = b.host ORDER BY a.rid, b.rid", []string{"cpu", "MEM"}, nil, true, []string{"", "prod"}},
	{"mixed-case", "SELECT rid, nosuchcol FROM Disk ORDER BY rid", []string{"Disk"}, nil, true, []string{"", "prod"}},
	{"fastpath-partial", "SELECT rid FROM cpu\nUNION ALL\nSELECT rid FROM\ndisk", []string{"cpu", "disk"}, nil, false, []string{"prod"}},
	{"fastpath-partial", "SELECT rid, cnt FROM\ncpu WHERE rid IN (SELECT rid FROM cpu) ORDER BY rid", []string{"cpu", "cpu"}, nil, true, []string{"prod"}},
	{"fastpath-partial", "SELECT a.rid, b.rid FROM cpu a, mem b WHERE a.host = b.host ORDER BY a.rid, b.rid", []string{"cpu", "mem"}, nil, true, []string{"prod"}},
	{"fastpath-cr", "SELECT rid, cnt FROM \r\ncpu ORDER BY rid", []string{"cpu"}, nil, true, []string{"prod"}},
	{"with-newline", "WITH\nrecent AS (SELECT rid, host FROM mem WHERE host <> 'x')\nSELECT rid FROM recent ORDER BY rid", []string{"mem"}, []string{"recent"}, true, []string{"prod"}},
	{"tablefunc", "SELECT g FROM range(1, 3) t(g) ORDER BY g", nil, nil, true, []string{"prod"}},
	{"tablefunc", "SELECT g FROM range /* n */ (1, 3) t(g) ORDER BY g", nil, nil, true, []string{"", "prod"}},
	{"tablefunc", "SELECT g FROM generate_series -- n\n (1, 3) t(g) ORDER BY g", nil, nil, true, []string{"", "prod"}},
	// benign class fn-nested: must agree on the unchanged tree (regression corpus for the frame stack of the FROM mask)
	{"fn-nested", "SELECT rid, SUBSTRING(UPPER(host) FROM cnt) AS e FROM cpu ORDER BY rid", []string{"cpu"}, nil, true, []string{"", "prod"}},
	{"fn-nested", "SELECT a.rid, TRIM(LEADING LOWER('H') FROM a.host) AS e FROM mem a WHERE SUBSTRING(CONCAT(a.host, (a.region)) FROM a.cnt FOR 3) IS NOT NULL ORDER BY a.rid", []string{"mem"}, nil, true, []string{"", "prod"}},
	{"fn-nested", "SELECT rid FROM disk WHERE rid IN (SELECT rid FROM disk WHERE SUBSTRING(CAST(EXTRACT(year FROM time) AS VARCHAR) FROM ABS(cnt)) IS NOT NULL) ORDER BY rid", []string{"disk", "disk"}, nil, true, []string{"", "prod"}},
}

func (cs corpusStmt) build() *qb {
	b := &qb{feats: map[string]bool{}, hazard: cs.hazard, order: cs.order}
	b.toks = lex(cs.sql)
	for _, n := range cs.base {
		b.refs = append(b.refs, refAnn{base: true, tbl: n, meas: strings.ToLower(n)})
	}
	for _, n := range cs.ctes {
		b.refs = append(b.refs, refAnn{base: false, tbl: n})
	}
	if len(cs.ctes) > 0 {
		b.feats["cte"] = true
	}
	return b
}
