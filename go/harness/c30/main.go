//go:build verif

// C30 correspondence harness. Drives the REAL routing code of arc:
//
//	(fn)   api.decideForward (exported by the verif hook), api.BuildHTTPRequest, cluster.Router.RouteWrite /
//	       RouteQuery / CanRouteLocally over a real cluster.Registry, with the router's HTTP client transport
//	       replaced by an in-process RoundTripper that records the outbound request;
//	(e2e)  the real fiber handlers (MsgPackHandler, LineProtocolHandler, TLEHandler, QueryHandler) of up to four
//	       in-process nodes; the RoundTripper delivers a forwarded request to the target node's fiber app, so a
//	       request really travels node -> node and every handler invocation is observed by a middleware.
//
// Every configuration of 1..4 nodes (role x writer state x health) x entry router presence x write/query x
// client header variant is enumerated (see enumerate()); the op line of every handler invocation carries
// exactly what that invocation saw, and the compiled Lean model must answer the same.
package main

import (
	"bytes"
	"context"
	"encoding/hex"
	"fmt"
	"io"
	"mime/multipart"
	"net"
	"net/http"
	"net/http/httptest"
	"os"
	"sort"
	"strings"

	"github.com/basekick-labs/arc/internal/api"
	"github.com/basekick-labs/arc/internal/cluster"
	"github.com/basekick-labs/arc/internal/config"
	"github.com/basekick-labs/arc/internal/database"
	"github.com/basekick-labs/arc/internal/ingest"
	"github.com/basekick-labs/arc/internal/storage"
	"github.com/basekick-labs/arc/internal/verif/vh"
	"github.com/gofiber/fiber/v2"
	"github.com/rs/zerolog"
	"github.com/valyala/fasthttp"
)

// ---------------------------------------------------------------- facts

type facts struct {
	roles       []string // declared role strings
	states      []string
	wstates     []string
	healthy     string
	primary     string
	marker      string
	hop         []string
	client      []string
	inline      []string
	setKeys     []string
	strippedSet map[string]bool
}

func strs(v any) []string {
	var out []string
	for _, x := range v.([]any) {
		out = append(out, x.(string))
	}
	return out
}

func loadFacts(c *vh.Ctx) *facts {
	f := &facts{strippedSet: map[string]bool{}}
	for _, r := range c.Facts["roles"].([]any) {
		f.roles = append(f.roles, r.(map[string]any)["value"].(string))
	}
	f.states = strs(c.Facts["states"])
	f.wstates = strs(c.Facts["writer_states"])
	f.healthy = c.Facts["state_healthy"].(string)
	f.primary = c.Facts["writer_state_primary"].(string)
	f.marker = c.Facts["forwarded_by_header"].(string)
	f.hop = strs(c.Facts["hop_by_hop"])
	f.client = strs(c.Facts["client_forwarding"])
	f.inline = strs(c.Facts["inline_filtered"])
	for _, s := range c.Facts["forward_sets"].([]any) {
		f.setKeys = append(f.setKeys, s.(map[string]any)["key"].(string))
	}
	for _, l := range [][]string{f.hop, f.client, f.inline} {
		for _, k := range l {
			f.strippedSet[k] = true
		}
	}
	return f
}

// ---------------------------------------------------------------- encoding helpers

func tok(s string) string {
	if s == "" {
		return "-"
	}
	return s
}

func hx(s string) string {
	if s == "" {
		return "-"
	}
	return hex.EncodeToString([]byte(s))
}

type kv struct{ k, v string }

func hdrFields(hs []kv) string {
	var b strings.Builder
	for _, h := range hs {
		b.WriteByte(' ')
		b.WriteString(h.k)
		b.WriteByte(':')
		b.WriteString(hx(h.v))
	}
	return b.String()
}

func renderHeader(h http.Header) string {
	if len(h) == 0 {
		return "-"
	}
	keys := make([]string, 0, len(h))
	for k := range h {
		keys = append(keys, k)
	}
	sort.Strings(keys)
	var parts []string
	for _, k := range keys {
		var vs []string
		for _, v := range h[k] {
			vs = append(vs, hx(v))
		}
		parts = append(parts, k+"="+strings.Join(vs, ","))
	}
	return strings.Join(parts, ";")
}

func seenHeaders(c *fiber.Ctx) []kv {
	var out []kv
	c.Request().Header.VisitAll(func(k, v []byte) { out = append(out, kv{string(k), string(v)}) })
	return out
}

// ---------------------------------------------------------------- cluster under test

type nodeSpec struct {
	id, role, ws, state string
	gone                bool // sequence cases: currently not in the registry (unregistered)
}

func (n nodeSpec) String() string {
	return n.id + ":" + tok(n.role) + ":" + tok(n.ws) + ":" + tok(n.state)
}

type capture struct {
	to  int
	hdr http.Header
	res *http.Response
}

type visit struct {
	slot   int
	seen   []kv
	ip     string
	host   string
	marker string
}

type env struct {
	c       *vh.Ctx
	f       *facts
	logger  zerolog.Logger
	fnApp   *fiber.App
	specs   []nodeSpec
	nodes   []*cluster.Node
	reg     *cluster.Registry
	routers []*cluster.Router
	addrIdx map[string]int
	// e2e
	apps     []*fiber.App
	mp       []*api.MsgPackHandler
	lp       []*api.LineProtocolHandler
	tle      []*api.TLEHandler
	qh       []*api.QueryHandler
	visits   []visit
	captures []capture
	e2eMode  bool
	history  []string // sequence cases: registry contents / requests so far on the long-lived router
	tmp      string
	db       *database.DuckDB
	buf      *ingest.ArrowBuffer
}

const maxSlots = 4

func addrOf(i int) string { return fmt.Sprintf("n%d.arc.test:8000", i) }

// RoundTrip is the in-process stand-in for the network between nodes.
func (e *env) RoundTrip(req *http.Request) (*http.Response, error) {
	to, ok := e.addrIdx[req.URL.Host]
	if !ok {
		return nil, fmt.Errorf("verif: unknown forward target %q", req.URL.Host)
	}
	cp := capture{to: to, hdr: req.Header.Clone()}
	idx := len(e.captures)
	e.captures = append(e.captures, cp)
	if len(e.captures) > 8 {
		return nil, fmt.Errorf("verif: forward chain longer than 8 hops")
	}
	var resp *http.Response
	if e.e2eMode {
		// deliver to the target node's real fiber app
		r2 := httptest.NewRequest(req.Method, req.URL.RequestURI(), req.Body)
		r2.Host = req.URL.Host
		r2.Header = req.Header.Clone()
		var err error
		resp, err = e.apps[to].Test(r2, -1)
		if err != nil {
			return nil, err
		}
	} else {
		resp = &http.Response{StatusCode: 299, Header: http.Header{}, Body: io.NopCloser(strings.NewReader("stub")), Request: req}
	}
	e.captures[idx].res = resp
	return resp, nil
}

func (e *env) setCluster(specs []nodeSpec) {
	e.specs = specs
	e.nodes = e.nodes[:0]
	e.routers = e.routers[:0]
	e.addrIdx = map[string]int{}
	for i, s := range specs {
		n := cluster.NewNode(s.id, s.id, cluster.NodeRole(s.role), "verif")
		n.APIAddress = addrOf(i)
		n.State = cluster.NodeState(s.state)
		n.WriterSt = cluster.WriterState(s.ws)
		e.nodes = append(e.nodes, n)
		e.addrIdx[addrOf(i)] = i
	}
	e.reg = cluster.NewRegistry(&cluster.RegistryConfig{LocalNode: e.nodes[0], Logger: e.logger})
	for _, n := range e.nodes[1:] {
		if err := e.reg.Register(n); err != nil {
			panic(err)
		}
	}
	for range specs {
		e.routers = append(e.routers, nil)
	}
	e.history = e.history[:0]
	e.emitCfg()
}

// emitCfg writes the registry content AS IT IS NOW (unregistered nodes left out; node 0 never leaves).
func (e *env) emitCfg() {
	var parts []string
	for _, s := range e.specs {
		if !s.gone {
			parts = append(parts, s.String())
		}
	}
	e.c.Op("cfg "+strings.Join(parts, " "), fmt.Sprintf("ok n=%d", len(parts)))
	e.history = append(e.history, "registry ["+strings.Join(parts, " ")+"]")
}

func (e *env) router(i int) *cluster.Router {
	if e.routers[i] == nil {
		r := cluster.NewRouter(&cluster.RouterConfig{Registry: e.reg, LocalNode: e.nodes[i], Logger: e.logger, Retries: 1})
		r.C30SetRoundTripper(e)
		e.routers[i] = r
	}
	return e.routers[i]
}

func (e *env) idIdx(id string) int {
	for i, s := range e.specs {
		if s.id == id {
			return i
		}
	}
	return -1
}

// regOp compares the registry getters with the model's filters.
func (e *env) regOp() {
	ids := func(ns []*cluster.Node) string {
		var l []string
		for _, n := range ns {
			l = append(l, n.ID)
		}
		sort.Strings(l)
		if len(l) == 0 {
			return "-"
		}
		return strings.Join(l, ",")
	}
	obs := "-"
	if p := e.reg.GetPrimaryWriter(); p != nil {
		obs = p.ID
	}
	e.c.Op("reg "+obs, fmt.Sprintf("writers=%s readers=%s primary=ok", ids(e.reg.GetWriters()), ids(e.reg.GetReaders())))
}

// ---------------------------------------------------------------- one handler invocation (observed)

type obs struct {
	src      string
	slot     int
	router   bool
	isWrite  bool
	seen     []kv
	ip, host string
	marker   string // c.Get(marker) as the node saw it
	kind     string // local | 508 | 503-writer | 503-reader | forward | other:<..>
	to       int
	out      http.Header
}

func canServe(role string, isWrite bool) bool {
	caps := cluster.NodeRole(role).GetCapabilities()
	if isWrite {
		return caps.CanIngest
	}
	return caps.CanQuery
}

func (e *env) replay(o obs) string {
	var parts []string
	for _, s := range e.specs {
		if !s.gone {
			parts = append(parts, s.String())
		}
	}
	wq := "q"
	if o.isWrite {
		wq = "w"
	}
	if len(e.history) > 1 {
		return fmt.Sprintf("ONE long-lived Router on node %d; sequence: %s ; then %s request via %s (router=%v) with headers%s -> %s (current registry [%s])", o.slot, strings.Join(e.history, " ; "), wq, o.src, o.router, hdrFields(o.seen), o.kind, strings.Join(parts, " "))
	}
	return fmt.Sprintf("cluster [%s]; %s request via %s handled at node %d (router=%v, ip=%s, host=%s) with headers%s -> %s", strings.Join(parts, " "), wq, o.src, o.slot, o.router, o.ip, o.host, hdrFields(o.seen), o.kind)
}

// record writes the op line for one observed handler invocation and runs the per-invocation monitors.
func (e *env) record(o obs) {
	c := e.c
	wq := "q"
	if o.isWrite {
		wq = "w"
	}
	rt := "0"
	if o.router {
		rt = "1"
	}
	chosen := "-"
	impl := o.kind
	if o.kind == "forward" {
		chosen = e.specs[o.to].id
		impl = fmt.Sprintf("forward to=%s ok out=%s", chosen, renderHeader(o.out))
	}
	c.Op(fmt.Sprintf("step %s %d %s %s %s %s %s%s", o.src, o.slot, rt, wq, chosen, tok(o.ip), tok(o.host), hdrFields(o.seen)), impl)
	c.Tag(o.src + ":" + o.kind)

	// ---- monitors: the property statement, judged with the REAL capability function
	self := e.specs[o.slot]
	capable := canServe(self.role, o.isWrite)
	if o.router && !capable && o.kind == "local" {
		c.Fail("incapable-local:"+o.src, fmt.Sprintf("node with role %q (cannot serve this request type) and a router processed the request locally", self.role), e.replay(o))
	}
	if (!o.router || capable) && o.kind != "local" {
		c.Fail("capable-not-local:"+o.src, fmt.Sprintf("node with role %q that can serve the request (or has no router) did not handle it locally: %s", self.role, o.kind), e.replay(o))
	}
	if o.marker != "" && o.kind == "forward" {
		c.Fail("marked-request-forwarded:"+o.src, "a request carrying a non-empty "+e.f.marker+" was forwarded again", e.replay(o))
	}
	if o.kind == "forward" {
		t := e.specs[o.to]
		if vs := o.out.Values(e.f.marker); len(vs) != 1 || vs[0] != self.id || self.id == "" {
			c.Fail("marker-missing-or-wrong:"+o.src, fmt.Sprintf("forwarded request carries %s=%q, expected exactly the forwarding node id %q", e.f.marker, vs, self.id), e.replay(o))
		}
		for k, vs := range o.out {
			if !e.f.strippedSet[k] {
				continue
			}
			for _, v := range vs {
				if strings.Contains(v, "evil") && k != "X-Arc-Original-Host" {
					c.Fail("client-header-leak:"+k, fmt.Sprintf("client-supplied value %q of %s reached the inter-node request", v, k), e.replay(o))
				}
			}
			if k == "X-Arc-Original-Host" {
				for _, v := range vs {
					if strings.Contains(v, "evil") {
						c.Tag("note:original-host-taken-from-client-x-forwarded-host")
					}
				}
			}
		}
		if !canServe(t.role, o.isWrite) {
			c.Fail("target-incapable:"+o.src, fmt.Sprintf("request forwarded to node %s whose role %q cannot serve it", t.id, t.role), e.replay(o))
		}
		if t.state != e.f.healthy {
			c.Fail("target-unhealthy:"+o.src, fmt.Sprintf("request forwarded to node %s in state %q", t.id, t.state), e.replay(o))
		}
		if t.gone {
			c.Fail("target-unregistered:"+o.src, fmt.Sprintf("request forwarded to node %s, which is not in the forwarding node's registry at request time", t.id), e.replay(o))
		}
		if o.to == o.slot {
			c.Fail("forward-to-self:"+o.src, "request forwarded to the forwarding node itself", e.replay(o))
		}
	}
	if o.router && !capable && o.marker == "" && o.kind != "forward" {
		// is there a peer the router is documented to target?
		targetable, capablePeer := false, false
		for i, s := range e.specs {
			if i == o.slot || s.state != e.f.healthy || s.gone {
				continue
			}
			if canServe(s.role, o.isWrite) {
				capablePeer = true
			}
			if s.role == "writer" || (!o.isWrite && s.role == "reader") {
				targetable = true
			}
		}
		if targetable {
			c.Fail("forwardable-not-forwarded:"+o.src, "incapable node with a router and a healthy writer/reader peer did not forward an unmarked request: "+o.kind, e.replay(o))
		} else if capablePeer {
			c.Tag("note:capable-standalone-peer-not-targeted")
			if _, ok := c.Extra["standalone_peer_not_targeted_example"]; !ok {
				c.Extra["standalone_peer_not_targeted_example"] = e.replay(o)
			}
		}
	}
}

// chainMonitors judges a whole request path (entry invocation + what followed).
func (e *env) chainMonitors(src string, chain []obs) {
	hops := 0
	for _, o := range chain {
		if o.kind == "forward" {
			hops++
		}
	}
	if hops > 1 {
		e.c.Fail("second-hop:"+src, fmt.Sprintf("request was forwarded %d times", hops), e.replay(chain[0])+" ; then "+e.replay(chain[len(chain)-1]))
	}
	if hops >= 1 {
		last := chain[len(chain)-1]
		if last.kind != "local" {
			e.c.Fail("forwarded-not-served:"+src, "a forwarded request was not served by the node it was forwarded to: "+last.kind, e.replay(chain[0])+" ; then "+e.replay(last))
		}
	}
	e.c.Tag(fmt.Sprintf("hops:%d", hops))
}

// ---------------------------------------------------------------- function-level invocation

type reqSpec struct {
	isWrite bool
	hdrs    []kv
	remote  net.Addr
	host    string
}

func (e *env) fnInvoke(slot int, router bool, rq reqSpec) obs {
	var freq fasthttp.Request
	freq.Header.SetMethod("POST")
	if rq.isWrite {
		freq.SetRequestURI("/api/v1/write/msgpack?x=1")
	} else {
		freq.SetRequestURI("/api/v1/query")
	}
	freq.Header.SetHost(rq.host)
	for _, h := range rq.hdrs {
		freq.Header.Add(h.k, h.v)
	}
	var fctx fasthttp.RequestCtx
	fctx.Init(&freq, rq.remote, nil)
	c := e.fnApp.AcquireCtx(&fctx)
	defer e.fnApp.ReleaseCtx(c)

	o := obs{src: "fn", slot: slot, router: router, isWrite: rq.isWrite, seen: seenHeaders(c), ip: c.IP(), host: c.Hostname(), marker: c.Get(e.f.marker), to: -1}
	var r *cluster.Router
	if router {
		r = e.router(slot)
	}
	e.captures = e.captures[:0]
	o.kind = vh.Guard(func() string {
		switch api.C30DecideForward(r, c, rq.isWrite) {
		case 0:
			return "local"
		case 2:
			return "508"
		case 1:
			hreq, err := api.BuildHTTPRequest(c)
			if err != nil {
				return "other:build-error"
			}
			if hreq.Host != o.host {
				return "other:host-differs:" + hreq.Host
			}
			var resp *http.Response
			if rq.isWrite {
				resp, err = r.RouteWrite(context.Background(), hreq)
			} else {
				resp, err = r.RouteQuery(context.Background(), hreq)
			}
			switch {
			case err == cluster.ErrLocalNodeCanHandle:
				return "local"
			case err == cluster.ErrNoWriterAvailable:
				return "503-writer"
			case err == cluster.ErrNoReaderAvailable:
				return "503-reader"
			case err != nil:
				return "other:route-error"
			}
			resp.Body.Close()
			if len(e.captures) != 1 {
				return fmt.Sprintf("other:%d-roundtrips", len(e.captures))
			}
			return "forward"
		}
		return "other:decision"
	})
	if o.kind == "forward" {
		o.to = e.captures[0].to
		o.out = e.captures[0].hdr
	}
	return o
}

// fnChain follows a request through the cluster at function level: entry invocation, then (if it was
// forwarded) the invocation at the chosen target with exactly the outbound headers, and so on.
func (e *env) fnChain(entry int, router bool, rq reqSpec) {
	var chain []obs
	slot, rt, cur := entry, router, rq
	for step := 0; step < 4; step++ {
		o := e.fnInvoke(slot, rt, cur)
		e.record(o)
		chain = append(chain, o)
		if o.kind != "forward" {
			break
		}
		// what the target sees on the wire: the outbound header map (keys sorted as net/http writes them),
		// Host = target address, socket peer = the forwarder
		var hs []kv
		keys := make([]string, 0, len(o.out))
		for k := range o.out {
			keys = append(keys, k)
		}
		sort.Strings(keys)
		for _, k := range keys {
			for _, v := range o.out[k] {
				hs = append(hs, kv{k, v})
			}
		}
		cur = reqSpec{isWrite: rq.isWrite, hdrs: hs, remote: &net.TCPAddr{IP: net.IPv4(10, 0, 0, byte(10+slot)), Port: 40000}, host: addrOf(o.to)}
		slot, rt = o.to, true
	}
	e.chainMonitors("fn", chain)
}

// ---------------------------------------------------------------- sequences on a long-lived router

// registry mutations through the real API (the *cluster.Node objects in e.nodes are the registry's own records)
func (e *env) mutHealth(j int, state string) {
	e.reg.UpdateNodeState(e.specs[j].id, cluster.NodeState(state))
	e.specs[j].state = state
}
func (e *env) mutWriterState(j int, ws string) {
	e.nodes[j].SetWriterState(cluster.WriterState(ws))
	e.specs[j].ws = ws
}
func (e *env) mutUnregister(j int) {
	e.reg.Unregister(e.specs[j].id)
	e.specs[j].gone = true
}
func (e *env) mutRegister(j int) { // a fresh record for the same id (what a re-join does)
	s := e.specs[j]
	n := cluster.NewNode(s.id, s.id, cluster.NodeRole(s.role), "verif")
	n.APIAddress = addrOf(j)
	n.State = cluster.NodeState(s.state)
	n.WriterSt = cluster.WriterState(s.ws)
	e.nodes[j] = n
	if err := e.reg.Register(n); err != nil {
		panic(err)
	}
	e.specs[j].gone = false
}

// seqRequests: one write and one query at node 0 through its long-lived router (function level), plus the
// same write through the real msgpack handler when the e2e apps exist.
func (e *env) seqRequests(hs []kv) {
	for _, w := range []bool{true, false} {
		o := e.fnInvoke(0, true, reqSpec{isWrite: w, hdrs: hs, remote: clientAddr, host: "client-facing.example:8000"})
		o.src = "seq"
		e.record(o)
		wq := "q"
		if w {
			wq = "w"
		}
		e.history = append(e.history, wq+" -> "+o.kind+func() string {
			if o.kind == "forward" {
				return " to " + e.specs[o.to].id
			}
			return ""
		}())
		e.c.Tag("seq:" + o.kind)
	}
}

func (e *env) seqCases(r *vh.Rand) {
	f := e.f
	H, U := f.healthy, "unhealthy"
	type mut func()
	script := func(sp []nodeSpec, steps ...mut) {
		e.setCluster(withIDs(sp))
		e.router(0) // the one Router instance all requests of this sequence go through
		e.seqRequests(nil)
		for _, m := range steps {
			m()
			e.emitCfg()
			e.regOp()
			e.seqRequests(nil)
			e.seqRequests(nil) // twice: the call after the first post-change call must not differ either
		}
		var parts []string
		for _, s := range e.history {
			parts = append(parts, s)
		}
		e.c.Case("seq "+strings.Join(parts, ";"), true)
	}
	for _, entry := range []string{"reader", "compactor"} {
		// primary fails, standby promoted
		script([]nodeSpec{{role: entry, state: H}, {role: "writer", ws: f.primary, state: H}, {role: "writer", ws: "standby", state: H}},
			func() { e.mutHealth(1, U); e.mutWriterState(1, "standby"); e.mutWriterState(2, f.primary) },
			func() { e.mutUnregister(1) },
			func() { e.mutRegister(1); e.mutHealth(1, H) },
			func() { e.mutWriterState(2, "standby"); e.mutWriterState(1, f.primary) })
		// primary only turns unhealthy (no promotion yet): round-robin over the remaining healthy writers
		script([]nodeSpec{{role: entry, state: H}, {role: "writer", ws: f.primary, state: H}, {role: "writer", ws: "standby", state: H}, {role: "reader", state: H}},
			func() { e.mutHealth(1, U) },
			func() { e.mutHealth(1, "dead") },
			func() { e.mutHealth(2, U) },
			func() { e.mutHealth(1, H) })
		// primary demoted while healthy; primary unregistered while still primary+healthy
		script([]nodeSpec{{role: entry, state: H}, {role: "writer", ws: f.primary, state: H}, {role: "writer", ws: "", state: H}},
			func() { e.mutWriterState(1, "standby"); e.mutWriterState(2, f.primary) },
			func() { e.mutUnregister(2) },
			func() { e.mutUnregister(1) },
			func() { e.mutRegister(2) })
		// readers come and go (query side)
		script([]nodeSpec{{role: entry, state: H}, {role: "reader", state: H}, {role: "reader", state: H}, {role: "writer", ws: f.primary, state: H}},
			func() { e.mutHealth(1, U) },
			func() { e.mutUnregister(2) },
			func() { e.mutHealth(3, U) },
			func() { e.mutRegister(2); e.mutHealth(1, H) })
	}
	// random sequences
	n := 150
	if e.c.Thorough() {
		n = 3000
	}
	types := e.nodeTypes()
	for i := 0; i < n; i++ {
		k := r.Range(2, 4)
		sp := []nodeSpec{{role: vh.Pick(r, []string{"reader", "compactor", "reader", "compactor", "writer", "standalone"}), state: H}}
		for j := 1; j < k; j++ {
			t := vh.Pick(r, types)
			if r.Chance(60) {
				t.role = "writer"
			}
			sp = append(sp, t)
		}
		e.setCluster(withIDs(sp))
		e.router(0)
		e.seqRequests(nil)
		for st, m := 0, r.Range(2, 6); st < m; st++ {
			j := r.Range(1, k-1)
			switch {
			case e.specs[j].gone:
				e.mutRegister(j)
			default:
				switch r.Intn(5) {
				case 0:
					e.mutHealth(j, vh.Pick(r, []string{H, U, "dead", "joining"}))
				case 1:
					e.mutWriterState(j, vh.Pick(r, f.wstates))
				case 2:
					e.mutUnregister(j)
				case 3: // failover: demote every primary, promote j
					for q := 1; q < k; q++ {
						if e.specs[q].ws == f.primary && !e.specs[q].gone {
							e.mutWriterState(q, "standby")
						}
					}
					e.mutWriterState(j, f.primary)
					e.mutHealth(j, H)
				case 4:
					e.mutHealth(j, U)
				}
			}
			e.emitCfg()
			if r.Chance(30) {
				e.regOp()
			}
			e.seqRequests(nil)
		}
		e.c.Case("seq "+strings.Join(e.history, ";"), true)
	}
}

// ---------------------------------------------------------------- e2e through the real fiber handlers

func (e *env) initE2E() {
	tmp, err := os.MkdirTemp("/var/tmp", "verif-c30-*")
	if err != nil {
		panic(err)
	}
	e.tmp = tmp
	be, err := storage.NewLocalBackend(tmp, e.logger)
	if err != nil {
		panic(err)
	}
	db, err := database.New(&database.Config{MemoryLimit: "256MB", ThreadCount: 1, MaxConnections: 2, LocalStorageRoot: tmp}, e.logger)
	if err != nil {
		panic(err)
	}
	e.db = db
	e.buf = ingest.NewArrowBuffer(&config.IngestConfig{MaxBufferSize: 100000, MaxBufferAgeMS: 3600000, FlushWorkers: 1, FlushQueueSize: 4, ShardCount: 2}, be, e.logger)
	for i := 0; i < maxSlots; i++ {
		slot := i
		app := fiber.New(fiber.Config{DisableStartupMessage: true})
		app.Use(func(c *fiber.Ctx) error {
			e.visits = append(e.visits, visit{slot: slot, seen: seenHeaders(c), ip: c.IP(), host: c.Hostname(), marker: c.Get(e.f.marker)})
			return c.Next()
		})
		mp := api.NewMsgPackHandler(e.logger, e.buf, 1<<20)
		lp := api.NewLineProtocolHandler(e.buf, e.logger)
		tl := api.NewTLEHandler(e.buf, e.logger)
		qh := api.NewQueryHandler(db, be, e.logger, 0, 0)
		mp.RegisterRoutes(app)
		lp.RegisterRoutes(app)
		tl.RegisterRoutes(app)
		qh.RegisterRoutes(app)
		ih := api.NewImportHandler(e.logger)
		ih.SetArrowBuffer(e.buf)
		ih.RegisterRoutes(app)
		e.apps = append(e.apps, app)
		e.mp = append(e.mp, mp)
		e.lp = append(e.lp, lp)
		e.tle = append(e.tle, tl)
		e.qh = append(e.qh, qh)
	}
}

func (e *env) closeE2E() {
	if e.db != nil {
		e.db.Close()
	}
	if e.tmp != "" {
		os.RemoveAll(e.tmp)
	}
}

type endpoint struct {
	name, method, path string
	isWrite            bool
	body               []byte
	ctype              string
}

var endpoints = []endpoint{
	{name: "msgpack", method: "POST", path: "/api/v1/write/msgpack", isWrite: true},
	{name: "lp", method: "POST", path: "/api/v1/write/line-protocol", isWrite: true},
	{name: "lp-v1", method: "POST", path: "/write?db=verifdb", isWrite: true},
	{name: "lp-v2", method: "POST", path: "/api/v2/write?bucket=verifdb", isWrite: true},
	{name: "tle", method: "POST", path: "/api/v1/write/tle", isWrite: true},
	{name: "query", method: "POST", path: "/api/v1/query", isWrite: false},
	{name: "query-msgpack", method: "POST", path: "/api/v1/query/msgpack", isWrite: false},
}

func (e *env) wire(routerOn []bool) {
	for i := 0; i < maxSlots; i++ {
		var r *cluster.Router
		if i < len(e.specs) && routerOn[i] {
			r = e.router(i)
		}
		e.mp[i].SetRouter(r)
		e.lp[i].SetRouter(r)
		e.tle[i].SetRouter(r)
		e.qh[i].SetRouter(r)
	}
}

func classify(status int, body string) string {
	switch {
	case status == 508:
		return "508"
	case status == 503 && strings.Contains(body, "No writer node available"):
		return "503-writer"
	case status == 503 && strings.Contains(body, "No reader node available"):
		return "503-reader"
	case status == 400 && (strings.Contains(body, "Empty payload") || strings.Contains(body, "Empty request body") ||
		strings.Contains(body, "empty") || strings.Contains(body, "Invalid request body") || strings.Contains(body, "SQL")):
		return "local" // the handler got past `localProcessing:` and rejected the (deliberately empty) payload itself
	}
	b := body
	if len(b) > 60 {
		b = b[:60]
	}
	return fmt.Sprintf("other:%d:%s", status, strings.ReplaceAll(strings.ReplaceAll(b, " ", "_"), "\n", "_"))
}

// e2eChain sends one client request to node `entry` through the real handler of `ep`.
func (e *env) e2eChain(ep endpoint, entry int, routerOn []bool, hdrs []kv) (string, []obs) {
	e.wire(routerOn)
	e.visits = e.visits[:0]
	e.captures = e.captures[:0]
	e.e2eMode = true
	defer func() { e.e2eMode = false }()
	var rbody io.Reader
	if ep.body != nil {
		rbody = bytes.NewReader(ep.body)
	}
	req := httptest.NewRequest(ep.method, ep.path, rbody)
	req.Host = addrOf(entry)
	if ep.ctype != "" {
		req.Header.Set("Content-Type", ep.ctype)
	}
	for _, h := range hdrs {
		req.Header[h.k] = append(req.Header[h.k], h.v) // raw key: the wire carries exactly this spelling
	}
	resp, err := e.apps[entry].Test(req, -1)
	if err != nil {
		return "other:test-error:" + err.Error(), nil
	}
	body, _ := io.ReadAll(resp.Body)
	resp.Body.Close()
	final := classify(resp.StatusCode, string(body))
	var chain []obs
	for k, v := range e.visits {
		o := obs{src: ep.name, slot: v.slot, router: v.slot < len(routerOn) && routerOn[v.slot], isWrite: ep.isWrite, seen: v.seen, ip: v.ip, host: v.host, marker: v.marker, to: -1}
		if k < len(e.captures) {
			o.kind, o.to, o.out = "forward", e.captures[k].to, e.captures[k].hdr
		} else {
			o.kind = final
		}
		chain = append(chain, o)
	}
	if len(e.visits) != len(e.captures)+1 {
		return fmt.Sprintf("other:%d-visits-%d-forwards", len(e.visits), len(e.captures)), chain
	}
	return final, chain
}

func (e *env) e2eRun(ep endpoint, entry int, routerOn []bool, hdrs []kv) {
	final, chain := e.e2eChain(ep, entry, routerOn, hdrs)
	if strings.HasPrefix(final, "other:") && len(chain) == 0 {
		e.c.Op("step "+ep.name+" broken", final)
		return
	}
	for _, o := range chain {
		e.record(o)
	}
	e.chainMonitors(ep.name, chain)
}

// routeName: "/api/v1/query/:measurement" -> "query-measurement" (stable part of the finding key)
func routeName(path string) string {
	n := strings.TrimPrefix(path, "/api/v1/")
	n = strings.TrimPrefix(n, "/")
	n = strings.ReplaceAll(n, ":", "")
	return strings.ReplaceAll(n, "/", "-")
}

// benignRoute: registered by a data handler but neither ingests nor executes a query.
func benignRoute(path string) bool {
	for _, suf := range []string{"/stats", "/health", "/spec", "/flush"} {
		if strings.HasSuffix(path, suf) {
			return true
		}
	}
	return path == "/api/v1/measurements"
}

// probeRoutes sends one request to EVERY route the five data handlers register (list regenerated by
// factgen), at a node whose role cannot serve that request type, with a router wired and healthy
// reader + primary writer peers.  A route that starts with the routing prologue forwards it
// ("prologue"); a route without one answers from its own local path ("local").  The model's answer
// comes from the regenerated `routes` table.  Local processing of a data route is the property
// violated: one stable key per route.
func (e *env) probeRoutes() {
	for _, rf := range e.c.Facts["routes"].([]any) {
		m := rf.(map[string]any)
		recv, route := m["recv"].(string), m["route"].(string)
		sp := strings.SplitN(route, " ", 2)
		method, pattern := sp[0], sp[1]
		isWrite := recv != "QueryHandler"
		name := routeName(pattern)
		path := strings.ReplaceAll(pattern, ":measurement", "cpu") + "?db=verifdb&bucket=verifdb&database=verifdb"
		ep := endpoint{name: "route-" + name, method: method, path: path, isWrite: isWrite}
		if name == "import-lp" {
			// a real one-line line-protocol file: the import is actually executed
			var buf bytes.Buffer
			mw := multipart.NewWriter(&buf)
			fw, _ := mw.CreateFormFile("file", "probe.lp")
			fw.Write([]byte("cpu,host=a v=1 1700000000000000000\n"))
			mw.Close()
			ep.body, ep.ctype = buf.Bytes(), mw.FormDataContentType()
		}
		observed := ""
		for _, role := range e.f.roles {
			if canServe(role, isWrite) {
				continue
			}
			e.setCluster([]nodeSpec{{id: "n0", role: role, state: e.f.healthy}, {id: "n1", role: "reader", state: e.f.healthy}, {id: "n2", role: "writer", ws: e.f.primary, state: e.f.healthy}})
			e.wire([]bool{true, true, true, true})
			e.visits = e.visits[:0]
			e.captures = e.captures[:0]
			e.e2eMode = true
			var rbody io.Reader
			if ep.body != nil {
				rbody = bytes.NewReader(ep.body)
			}
			req := httptest.NewRequest(ep.method, ep.path, rbody)
			req.Host = addrOf(0)
			req.Header.Set("X-Arc-Database", "verifdb")
			if ep.ctype != "" {
				req.Header.Set("Content-Type", ep.ctype)
			}
			resp, err := e.apps[0].Test(req, -1)
			e.e2eMode = false
			if err != nil {
				e.c.Op(fmt.Sprintf("route %s %s %s", recv, method, pattern), "other:test-error")
				continue
			}
			body, _ := io.ReadAll(resp.Body)
			resp.Body.Close()
			cls := classify(resp.StatusCode, string(body))
			res := "local"
			if len(e.captures) > 0 || cls == "508" || strings.HasPrefix(cls, "503-") {
				res = "prologue"
			}
			if observed == "" {
				observed = res
			} else if observed != res {
				observed = "inconsistent"
			}
			e.c.Op(fmt.Sprintf("route %s %s %s", recv, method, pattern), res)
			e.c.Tag("route:" + name + ":" + res)
			if res == "local" {
				b := string(body)
				if len(b) > 120 {
					b = b[:120]
				}
				if benignRoute(pattern) {
					e.c.Tag("note:unrouted-benign:" + name)
					continue
				}
				wq := "query"
				if isWrite {
					wq = "write"
				}
				e.c.Fail("incapable-local:unrouted-endpoint:"+name,
					fmt.Sprintf("%s %s (%s.%s) on a node with role %q, which cannot serve a %s, and a router wired is processed locally (HTTP %d): the handler has no routing prologue", method, pattern, recv, m["func"].(string), role, wq, resp.StatusCode),
					fmt.Sprintf("cluster [n0:%s:-:healthy n1:reader:-:healthy n2:writer:primary:healthy], router wired on every node; %s %s sent to n0 -> answered by n0's own handler with HTTP %d %s; no forward, no 508", role, method, path, resp.StatusCode, strings.ReplaceAll(b, "\n", " ")))
			}
		}
		e.c.Case("route "+recv+" "+route, observed == "local")
	}
}

// ---------------------------------------------------------------- header material

var legit = []kv{{"X-Arc-Database", "db1"}, {"Authorization", "Bearer tok"}, {"Via", "1.1 p1"}, {"Via", "1.1 p2"}, {"Accept", "application/json"}, {"X-Custom-Thing", "v"}}

func (e *env) spoofAll(mark string) []kv {
	var hs []kv
	for _, k := range e.f.client {
		if k == e.f.marker {
			continue
		}
		hs = append(hs, kv{k, "evil-" + strings.ToLower(k)})
	}
	hs = append(hs, kv{"Proxy-Authorization", "evil-pa"}, kv{"Keep-Alive", "evil-ka"}, kv{"Te", "evil-te"}, kv{"Upgrade", "evil-up"})
	if mark != "\x00" {
		hs = append(hs, kv{e.f.marker, mark})
	}
	return append(hs, legit...)
}

func caseVariants(k string) []string {
	return []string{k, strings.ToLower(k), strings.ToUpper(k)}
}

// headerVariants: what a client may put on a request with respect to forwarding (the property's
// "client-supplied forwarding headers"): nothing, a marker (any spelling), an empty marker, several
// markers, and the full set of identity/hop headers with and without a marker.
func (e *env) headerVariants(full bool) [][]kv {
	m := e.f.marker
	v := [][]kv{
		nil,
		{{m, "evil-node"}},
		{{m, ""}},
		e.spoofAll("evil-node"),
	}
	if full {
		v = append(v,
			[]kv{{strings.ToLower(m), "evil-node"}},
			[]kv{{strings.ToUpper(m), "evil-node"}},
			[]kv{{m, ""}, {m, "evil-second"}},
			[]kv{{m, "evil-first"}, {m, ""}},
			[]kv{{m, "n1"}}, // a real peer id
			e.spoofAll(""),
			e.spoofAll("\x00"),
			legit,
		)
	}
	return v
}

// ---------------------------------------------------------------- enumeration

func (e *env) nodeTypes() []nodeSpec {
	var ts []nodeSpec
	for _, r := range e.f.roles {
		for _, ws := range e.f.wstates {
			for _, st := range []string{e.f.healthy, "unhealthy"} {
				ts = append(ts, nodeSpec{"", r, ws, st, false})
			}
		}
	}
	return ts
}

func withIDs(ts []nodeSpec) []nodeSpec {
	out := make([]nodeSpec, len(ts))
	for i, t := range ts {
		t.id = fmt.Sprintf("n%d", i)
		out[i] = t
	}
	return out
}

var clientAddr = &net.TCPAddr{IP: net.IPv4(203, 0, 113, 9), Port: 5555}

func (e *env) fnConfig(specs []nodeSpec, variants [][]kv) {
	e.setCluster(specs)
	e.regOp()
	nontriv := false
	for _, rt := range []bool{true, false} {
		for _, w := range []bool{true, false} {
			for _, hs := range variants {
				if !rt && len(hs) > 1 {
					continue // no router: one marked and one unmarked variant are enough (decision ignores everything)
				}
				e.fnChain(0, rt, reqSpec{isWrite: w, hdrs: hs, remote: clientAddr, host: "client-facing.example:8000"})
			}
		}
	}
	if !canServe(specs[0].role, true) || !canServe(specs[0].role, false) {
		nontriv = true
	}
	var parts []string
	for _, s := range specs {
		parts = append(parts, s.String())
	}
	e.c.Case("fn "+strings.Join(parts, " "), nontriv)
}

func main() {
	c := vh.Start()
	e := &env{c: c, f: loadFacts(c), logger: zerolog.New(io.Discard).Level(zerolog.Disabled)}
	e.fnApp = fiber.New(fiber.Config{DisableStartupMessage: true})
	r := vh.NewRand(c.Seed)
	f := e.f

	// (A) capability rows: declared roles and undeclared strings
	for _, role := range append(append([]string{}, f.roles...), "", "bogus", "Writer", "READER", "writers") {
		caps := cluster.NodeRole(role).GetCapabilities()
		b := func(x bool) int {
			if x {
				return 1
			}
			return 0
		}
		c.Op("caps "+tok(role), fmt.Sprintf("ingest=%d query=%d compact=%d coord=%d", b(caps.CanIngest), b(caps.CanQuery), b(caps.CanCompact), b(caps.CanCoordinate)))
	}

	// (B) decideForward, exhaustively: router (absent | LocalNode nil | every role incl. undeclared) x w/q x marker lists
	markerLists := [][]string{nil, {""}, {"x"}, {"", "x"}, {"x", ""}, {"evil-node"}, {"n1"}, {"", ""}}
	for _, rs := range append([]string{"none", "nil", "", "bogus"}, f.roles...) {
		for _, w := range []bool{true, false} {
			for _, ml := range markerLists {
				for _, name := range caseVariants(f.marker) {
					var rt *cluster.Router
					switch rs {
					case "none":
					case "nil":
						rt = cluster.NewRouter(&cluster.RouterConfig{Registry: cluster.NewRegistry(&cluster.RegistryConfig{Logger: e.logger}), Logger: e.logger})
					default:
						n := cluster.NewNode("nX", "nX", cluster.NodeRole(rs), "verif")
						rt = cluster.NewRouter(&cluster.RouterConfig{Registry: cluster.NewRegistry(&cluster.RegistryConfig{LocalNode: n, Logger: e.logger}), LocalNode: n, Logger: e.logger})
					}
					var freq fasthttp.Request
					freq.Header.SetMethod("POST")
					freq.SetRequestURI("/x")
					for _, v := range ml {
						freq.Header.Add(name, v)
					}
					var fctx fasthttp.RequestCtx
					fctx.Init(&freq, nil, nil)
					fc := e.fnApp.AcquireCtx(&fctx)
					d := vh.Guard(func() string { return []string{"local", "peer", "already"}[api.C30DecideForward(rt, fc, w)] })
					// the two boolean wrappers must agree with the three-way decision
					sf := api.ShouldForwardQuery(rt, fc)
					if w {
						sf = api.ShouldForwardWrite(rt, fc)
					}
					if sf != (d == "peer") {
						d += "/should-forward-disagrees"
					}
					if rt != nil && rt.CanRouteLocally(w) != (rs != "nil" && canServe(rs, w)) {
						d += "/can-route-locally-disagrees"
					}
					e.fnApp.ReleaseCtx(fc)
					wq := "q"
					if w {
						wq = "w"
					}
					var vals []string
					for _, v := range ml {
						vals = append(vals, hx(v))
					}
					op := strings.TrimSpace(fmt.Sprintf("dec %s %s %s", tok(rs), wq, strings.Join(vals, " ")))
					c.Op(op, d)
					c.Case(op+" "+name, d != "local")
					c.Tag("dec:" + d)
					if len(ml) > 0 && ml[0] != "" && d == "peer" {
						c.Fail("marked-request-forwarded:decideForward", "decideForward returned ForwardToPeer for a request carrying "+f.marker, op)
					}
				}
			}
		}
	}

	// (C) BuildHTTPRequest + doForward header maps on a fixed reader -> writer pair
	e.setCluster([]nodeSpec{{id: "n0", role: "reader", state: f.healthy}, {id: "n1", role: "writer", ws: f.primary, state: f.healthy}})
	fwd := func(hs []kv) {
		o := e.fnInvoke(0, true, reqSpec{isWrite: true, hdrs: hs, remote: clientAddr, host: "client-facing.example:8000"})
		if o.marker != "" || o.kind != "forward" {
			e.record(o)
			return
		}
		c.Op(fmt.Sprintf("fwd %s %s %s%s", tok(o.ip), "n0", tok(o.host), hdrFields(o.seen)), renderHeader(o.out))
		c.Case("fwd"+hdrFields(o.seen), len(hs) > 0)
		// monitors on the outbound request
		e.specs[0].id = "n0"
		o.src = "fwd"
		e.recordMonitorsOnly(o)
	}
	pool := append(append(append([]string{}, f.hop...), f.client...), f.inline...)
	pool = append(pool, "X-Arc-Database", "Authorization", "Via", "Accept", "Cookie", "User-Agent", "Content-Type", "X-Custom-Thing", "X-Arc-Forwarded-By-2", "X-Forwarded", "Trailer")
	for _, k := range pool {
		if k == f.marker {
			continue // a non-empty marker makes the reader answer 508: covered by (B)/(D); the empty marker is below
		}
		for _, name := range caseVariants(k) {
			fwd([]kv{{name, "evil-1"}})
			fwd([]kv{{name, "evil-1"}, {name, "evil-2"}})
			fwd(append([]kv{{name, "evil-1"}}, legit...))
		}
	}
	fwd([]kv{{f.marker, ""}})
	fwd([]kv{{f.marker, ""}, {f.marker, "evil-2"}})
	fwd(e.spoofAll(""))
	fwd(e.spoofAll("\x00"))
	nRand := 200
	if c.Thorough() {
		nRand = 3000
	}
	for i := 0; i < nRand; i++ {
		var hs []kv
		for j, n := 0, r.Range(1, 8); j < n; j++ {
			k := vh.Pick(r, pool)
			if k == f.marker {
				hs = append(hs, kv{vh.Pick(r, caseVariants(k)), ""})
				continue
			}
			hs = append(hs, kv{vh.Pick(r, caseVariants(k)), fmt.Sprintf("evil-%d", r.Intn(3))})
		}
		fwd(hs)
	}

	// (D) every configuration of 1..4 nodes, function level.  Node 0 is the node the client talks to; the
	// other nodes are the rest of its registry.  quick: every ordered configuration of 1..3 nodes plus every
	// 4-node configuration up to permutation of the three peers (multisets); thorough: every ORDERED
	// configuration of 1..4 nodes.
	types := e.nodeTypes()
	vq := e.headerVariants(false)
	vfull := e.headerVariants(true)
	nT := len(types)
	for a := 0; a < nT; a++ {
		e.fnConfig(withIDs([]nodeSpec{types[a]}), vfull)
		for b := 0; b < nT; b++ {
			e.fnConfig(withIDs([]nodeSpec{types[a], types[b]}), vfull)
			for d := 0; d < nT; d++ {
				e.fnConfig(withIDs([]nodeSpec{types[a], types[b], types[d]}), vq)
				for g := 0; g < nT; g++ {
					if !c.Thorough() && !(b <= d && d <= g) {
						continue
					}
					e.fnConfig(withIDs([]nodeSpec{types[a], types[b], types[d], types[g]}), vq)
				}
			}
		}
	}
	// other health states, undeclared roles and writer-state strings, duplicate primaries (1..3 nodes, seeded sample)
	oddRoles := append(append([]string{}, f.roles...), "bogus", "")
	oddWS := append(append([]string{}, f.wstates...), "PRIMARY", "leader")
	nOdd := 400
	if c.Thorough() {
		nOdd = 6000
	}
	for i := 0; i < nOdd; i++ {
		n := r.Range(1, 4)
		var sp []nodeSpec
		for j := 0; j < n; j++ {
			sp = append(sp, nodeSpec{role: vh.Pick(r, oddRoles), ws: vh.Pick(r, oddWS), state: vh.Pick(r, f.states)})
		}
		e.fnConfig(withIDs(sp), vq)
	}

	// (D2) SEQUENCES on one long-lived Router: request, change the registry (health flip, demote/promote,
	// unregister/re-register), request again.  The model is stateless — every answer must be admissible for
	// the registry content AT REQUEST TIME — so a router that remembers an earlier target shows up both as a
	// model mismatch and through the target-* monitors.
	e.seqCases(r)

	// (E) the same property observed end to end through the real fiber handlers
	e.initE2E()
	defer e.closeE2E()
	e2eCfg := func(sp []nodeSpec, variants [][]kv, eps []endpoint) {
		e.setCluster(sp)
		for _, entryRouter := range []bool{true, false} {
			on := []bool{entryRouter, true, true, true}
			for _, ep := range eps {
				for _, hs := range variants {
					if !entryRouter && len(hs) > 1 {
						continue
					}
					e.e2eRun(ep, 0, on, hs)
				}
			}
		}
		var parts []string
		for _, s := range sp {
			parts = append(parts, s.String())
		}
		c.Case("e2e "+strings.Join(parts, " "), !canServe(sp[0].role, true) || !canServe(sp[0].role, false))
	}
	mainEPs := []endpoint{endpoints[0], endpoints[1], endpoints[5]}
	for a := 0; a < nT; a++ {
		e2eCfg(withIDs([]nodeSpec{types[a]}), vfull, endpoints)
		for b := 0; b < nT; b++ {
			if c.Thorough() {
				e2eCfg(withIDs([]nodeSpec{types[a], types[b]}), vfull, endpoints)
			} else {
				e2eCfg(withIDs([]nodeSpec{types[a], types[b]}), vq, mainEPs)
			}
		}
	}
	nE := 150
	if c.Thorough() {
		nE = 4000
	}
	for i := 0; i < nE; i++ {
		n := r.Range(3, 4)
		var sp []nodeSpec
		for j := 0; j < n; j++ {
			sp = append(sp, vh.Pick(r, types))
		}
		if r.Chance(70) { // make forwarding likely: entry incapable of something
			sp[0].role = vh.Pick(r, []string{"reader", "compactor"})
		}
		e2eCfg(withIDs(sp), vq, mainEPs)
	}
	// peers without a router (a forwarded request reaching a node whose handlers have none)
	e.setCluster(withIDs([]nodeSpec{{role: "reader", state: f.healthy}, {role: "writer", state: f.healthy}}))
	for _, ep := range mainEPs {
		e.e2eRun(ep, 0, []bool{true, false}, nil)
	}

	// (F) every registered route of the data handlers: prologue or not?
	e.probeRoutes()

	c.Extra["node_types"] = nT
	c.Extra["header_variants_full"] = len(vfull)
	c.Finish("cases = configurations (node 0 = entry node with its role/writer-state/health, nodes 1..3 = the rest of its registry) x entry router presence x write/query x client header variant, run through the real decideForward/BuildHTTPRequest/RouteWrite/RouteQuery (fn) and through the real fiber handlers (e2e); quick enumerates every ordered configuration of 1..3 nodes and every 4-node configuration up to permutation of the peers, thorough every ordered configuration of 1..4 nodes; plus the full decideForward table and a header grid; non-trivial = entry node cannot serve at least one request type; distinct = distinct configuration text")
}

// recordMonitorsOnly runs the outbound-request monitors for an observation whose op line was written elsewhere.
func (e *env) recordMonitorsOnly(o obs) {
	self := e.specs[o.slot]
	if vs := o.out.Values(e.f.marker); len(vs) != 1 || vs[0] != self.id {
		e.c.Fail("marker-missing-or-wrong:"+o.src, fmt.Sprintf("forwarded request carries %s=%q, expected exactly the forwarding node id %q", e.f.marker, vs, self.id), e.replay(o))
	}
	for k, vs := range o.out {
		if !e.f.strippedSet[k] || k == "X-Arc-Original-Host" {
			continue
		}
		for _, v := range vs {
			if strings.Contains(v, "evil") {
				e.c.Fail("client-header-leak:"+k, fmt.Sprintf("client-supplied value %q of %s reached the inter-node request", v, k), e.replay(o))
			}
		}
	}
	// every legitimate header must survive
	for _, h := range o.seen {
		k := http.CanonicalHeaderKey(h.k)
		if e.f.strippedSet[k] {
			continue
		}
		found := false
		for _, v := range o.out[k] {
			if v == h.v {
				found = true
			}
		}
		if !found {
			e.c.Tag("note:end-to-end-header-dropped:" + k)
		}
	}
}
