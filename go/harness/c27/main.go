//go:build verif

// C27 harness: real Agent + Ledger (SQLite file) + Receiver + HubIndex + Reconciler (LocalBackend on
// both sides), connected by an in-process loop-back SyncTransport that injects one scripted fault per
// transport call and a spoke crash at any step (ledger mutation or transport call). After every run
// the ledger rows, the ledger's transition log (SQLite trigger), the hub objects and the receipt
// index are dumped (compared with the Lean model) and the property clauses are checked directly.
package main

import (
	"bytes"
	"context"
	"crypto/sha256"
	"database/sql"
	"encoding/hex"
	"errors"
	"fmt"
	"io"
	"os"
	"path/filepath"
	"sort"
	"strconv"
	"strings"
	"time"

	"github.com/basekick-labs/arc/internal/edgesync"
	"github.com/basekick-labs/arc/internal/storage"
	"github.com/basekick-labs/arc/internal/verif/vh"
	_ "github.com/mattn/go-sqlite3"
	"github.com/rs/zerolog"
)

const hubID = "hub1"

func shaHex(b []byte) string { s := sha256.Sum256(b); return hex.EncodeToString(s[:]) }

// ---------------------------------------------------------------- faults

type fault struct {
	kind string // n db he bp sh co sc rf fc
	a, b int
	lost bool
}

func (f fault) String() string {
	s := f.kind
	switch f.kind {
	case "sh", "co":
		s += ":" + strconv.Itoa(f.a)
	case "sc":
		s += ":" + strconv.Itoa(f.a) + ":" + strconv.Itoa(f.b)
	}
	if f.lost {
		s += "!"
	}
	return s
}

func parseFault(t string) (fault, error) {
	var f fault
	if strings.HasSuffix(t, "!") {
		f.lost = true
		t = t[:len(t)-1]
	}
	p := strings.Split(t, ":")
	f.kind = p[0]
	var err error
	switch f.kind {
	case "n", "db", "he", "bp", "rf", "fc":
		if len(p) != 1 {
			return f, fmt.Errorf("bad fault %q", t)
		}
	case "sh", "co":
		if len(p) != 2 {
			return f, fmt.Errorf("bad fault %q", t)
		}
		f.a, err = strconv.Atoi(p[1])
	case "sc":
		if len(p) != 3 {
			return f, fmt.Errorf("bad fault %q", t)
		}
		if f.a, err = strconv.Atoi(p[1]); err == nil {
			f.b, err = strconv.Atoi(p[2])
		}
	default:
		return f, fmt.Errorf("bad fault %q", t)
	}
	return f, err
}

// ---------------------------------------------------------------- hub backend wrapper (hub-side fault)

type hubBackend struct {
	*storage.LocalBackend
	armPath string // when set: after Delete(armPath) the armed cancel fires (index write then fails)
	cancel  context.CancelFunc
}

func (b *hubBackend) Delete(ctx context.Context, p string) error {
	err := b.LocalBackend.Delete(ctx, p)
	if b.armPath != "" && p == b.armPath && b.cancel != nil {
		b.cancel()
	}
	return err
}

var _ storage.AppendingBackend = (*hubBackend)(nil)

// ---------------------------------------------------------------- world

type spoke struct {
	id      string
	dir     string
	dbPath  string
	backend *storage.LocalBackend
	origin  map[string][]byte // every path this spoke ever wrote (paths are immutable)
	db      *sql.DB           // open ledger handle (nil = process not running)
	ledger  *edgesync.Ledger
	agent   *edgesync.Agent // the long-lived Agent of the running process (nil = none yet)
	batch   int             // its BatchSize
	sw      *switchT        // its transport (delegates to the current pass's controller)
}

// switchT is the SyncTransport a long-lived Agent holds; each pass plugs its own controller in.
type switchT struct{ cur *runCtl }

func (t *switchT) Reconcile(ctx context.Context, hub string, pending []*edgesync.LedgerEntry) (*edgesync.ReconcileResult, error) {
	return t.cur.Reconcile(ctx, hub, pending)
}
func (t *switchT) PutFile(ctx context.Context, hub string, e *edgesync.LedgerEntry, body io.Reader, offset int64) (*edgesync.PutResult, error) {
	return t.cur.PutFile(ctx, hub, e, body, offset)
}

// proc returns the spoke's ledger handle; restart = a new process (close + re-open the SQLite file,
// NewLedger, and the Agent instance is gone).
func (s *spoke) proc(restart bool) (*sql.DB, *edgesync.Ledger) {
	if s.db != nil && restart {
		s.db.Close()
		s.db = nil
	}
	if s.db == nil {
		s.db, s.ledger = s.openLedger()
		s.agent = nil
	}
	return s.db, s.ledger
}

type world struct {
	c       *vh.Ctx
	root    string
	maxAtt  int
	hubDir  string
	hubBE   *hubBackend
	hubDB   *sql.DB
	index   *edgesync.HubIndex
	recv    *edgesync.Receiver
	spokes  map[string]*spoke
	content map[string][]byte // sha256 hex -> bytes (to print receipts by content)
	keys    map[string]bool   // "sid\x00path" ever touched on the hub
	prom    map[string]int    // promotes observed per key
	// ghosts for the monitors
	delivered       map[string]bool // content of key currently held by the hub (file or compacted output)
	planted         map[string]bool
	envTouched      map[string]bool
	orphanCompacted map[string]bool // hub compaction consumed a promoted file that had no receipt
	marked          map[string]bool // hub compaction stamped this key's receipt (job started)
	unmarked        map[string]bool // … and the stamp was gone when the job deleted the source
	ops             []string        // replay text of the current case
	cur             string          // op line of the agent run in progress
}

func key(sid, p string) string { return sid + "\x00" + p }

func (w *world) op(line, out string) {
	w.c.Op(line, out)
	w.ops = append(w.ops, line+"  => "+out)
}

func (w *world) replay() string {
	s := strings.Join(w.ops, "\n")
	if w.cur != "" {
		s += "\n(during) " + w.cur
	}
	return s
}

func newWorld(c *vh.Ctx, root string, maxAtt int) *world {
	w := &world{c: c, root: root, maxAtt: maxAtt, spokes: map[string]*spoke{}, content: map[string][]byte{},
		keys: map[string]bool{}, prom: map[string]int{}, delivered: map[string]bool{}, planted: map[string]bool{},
		envTouched: map[string]bool{}, orphanCompacted: map[string]bool{}, marked: map[string]bool{}, unmarked: map[string]bool{}}
	must(os.MkdirAll(root, 0o755))
	w.hubDir = filepath.Join(root, "hub")
	lb, err := storage.NewLocalBackend(w.hubDir, zerolog.Nop())
	must(err)
	w.hubBE = &hubBackend{LocalBackend: lb}
	w.hubDB, err = sql.Open("sqlite3", filepath.Join(root, "hub.db"))
	must(err)
	w.hubDB.SetMaxOpenConns(1)
	_, err = w.hubDB.Exec("PRAGMA synchronous = OFF; PRAGMA journal_mode = MEMORY")
	must(err)
	w.index, err = edgesync.NewHubIndex(w.hubDB, zerolog.Nop())
	must(err)
	w.recv, err = edgesync.NewReceiver(edgesync.ReceiverConfig{Backend: w.hubBE, Index: w.index, Logger: zerolog.Nop()})
	must(err)
	w.content[shaHex(nil)] = []byte{}
	w.op(fmt.Sprintf("init %d", maxAtt), "ok")
	return w
}

func (w *world) close() {
	for _, s := range w.spokes {
		if s.db != nil {
			s.db.Close()
		}
	}
	w.hubDB.Close()
	os.RemoveAll(w.root)
}

func (w *world) spoke(sid string) *spoke {
	if s, ok := w.spokes[sid]; ok {
		return s
	}
	s := &spoke{id: sid, dir: filepath.Join(w.root, "spoke-"+sid), dbPath: filepath.Join(w.root, "ledger-"+sid+".db"),
		origin: map[string][]byte{}}
	var err error
	s.backend, err = storage.NewLocalBackend(s.dir, zerolog.Nop())
	must(err)
	w.spokes[sid] = s
	return s
}

func must(err error) {
	if err != nil {
		panic(err)
	}
}

// openLedger (re)opens the spoke's SQLite ledger file — a process restart.
func (s *spoke) openLedger() (*sql.DB, *edgesync.Ledger) {
	db, err := sql.Open("sqlite3", s.dbPath)
	must(err)
	db.SetMaxOpenConns(1)
	_, err = db.Exec("PRAGMA synchronous = OFF; PRAGMA journal_mode = MEMORY")
	must(err)
	l, err := edgesync.NewLedger(db, zerolog.Nop())
	must(err)
	_, err = db.Exec(`
	CREATE TABLE IF NOT EXISTS verif_log (id INTEGER PRIMARY KEY AUTOINCREMENT, path TEXT, old TEXT, new TEXT);
	CREATE TRIGGER IF NOT EXISTS verif_upd AFTER UPDATE OF state ON sync_ledger WHEN old.state <> new.state
	BEGIN INSERT INTO verif_log(path, old, new) VALUES (new.path, old.state, new.state); END;
	CREATE TRIGGER IF NOT EXISTS verif_ins AFTER INSERT ON sync_ledger
	BEGIN INSERT INTO verif_log(path, old, new) VALUES (new.path, '', new.state); END;
	CREATE TRIGGER IF NOT EXISTS verif_del AFTER DELETE ON sync_ledger
	BEGIN INSERT INTO verif_log(path, old, new) VALUES (old.path, old.state, 'DELETED'); END;`)
	must(err)
	return db, l
}

// ---------------------------------------------------------------- environment ops

func (w *world) sput(sid, p string, pt int, b []byte) {
	s := w.spoke(sid)
	out := "ok"
	if _, dup := s.origin[p]; dup {
		out = "dup"
	} else {
		must(s.backend.Write(context.Background(), p, b))
		s.origin[p] = b
		w.content[shaHex(b)] = b
	}
	w.op(fmt.Sprintf("sput %s %s %d %s", sid, p, pt, vh.Hex(b)), out)
}

func (w *world) srm(sid, p string) {
	must(w.spoke(sid).backend.Delete(context.Background(), p))
	w.op(fmt.Sprintf("srm %s %s", sid, p), "ok")
}

func finalPath(sid, p string) string   { return edgesync.NamespacedPath(sid, p) }
func stagingPath(sid, p string) string { return edgesync.StagingPrefix + "/" + sid + "/" + p }

func (w *world) hplant(sid, p string, b []byte, indexed bool) {
	ctx := context.Background()
	must(w.hubBE.Write(ctx, finalPath(sid, p), b))
	w.content[shaHex(b)] = b
	ix := "0"
	if indexed {
		ix = "1"
		must(w.index.Record(ctx, &edgesync.ReceivedRecord{SpokeID: sid, SourcePath: p, HubPath: finalPath(sid, p),
			SHA256: shaHex(b), SizeBytes: int64(len(b))}))
	}
	k := key(sid, p)
	w.keys[k], w.planted[k], w.envTouched[k] = true, true, true
	w.marked[k] = false
	w.op(fmt.Sprintf("hplant %s %s %s %s", sid, p, vh.Hex(b), ix), "ok")
}

func (w *world) hdel(sid, p string) {
	must(w.hubBE.LocalBackend.Delete(context.Background(), finalPath(sid, p)))
	k := key(sid, p)
	w.keys[k], w.envTouched[k] = true, true
	w.delivered[k] = false
	w.planted[k] = false
	w.marked[k] = false
	w.op(fmt.Sprintf("hdel %s %s", sid, p), "ok")
}

// hub compaction consumed the file: main.go's OnConsumedInputs marks the receipts, then the inputs
// are deleted (the deletion may fail: del=false).
func (w *world) hcompact(sid, p string, del bool) {
	ctx := context.Background()
	if _, _, hasReceipt := w.receipt(sid, p); !hasReceipt {
		if ex, _ := w.hubBE.Exists(ctx, finalPath(sid, p)); ex && del {
			w.orphanCompacted[key(sid, p)] = true
		}
	}
	if _, _, has := w.receipt(sid, p); has {
		w.marked[key(sid, p)] = true
	}
	must(w.index.MarkCompacted(ctx, sid, []string{p}))
	d := "0"
	if del {
		d = "1"
		must(w.hubBE.LocalBackend.Delete(ctx, finalPath(sid, p)))
	}
	w.keys[key(sid, p)] = true
	w.op(fmt.Sprintf("hcompact %s %s %s", sid, p, d), "ok")
}

// afterReceive: bookkeeping + monitors after a Receive call for (sp, p); before = final existed before.
func (w *world) afterReceive(sp *spoke, p string, before bool) {
	k := key(sp.id, p)
	after, _ := w.hubBE.Exists(context.Background(), finalPath(sp.id, p))
	if before || !after {
		return
	}
	// the receiver promoted a file into the final path
	w.prom[k]++
	if w.delivered[k] {
		class := "other"
		switch {
		case w.orphanCompacted[k]:
			class = "receive-after-compaction-of-unindexed-file"
		case w.unmarked[k]:
			class = "redelivery-between-compaction-mark-and-source-delete"
		}
		w.c.Fail("hub-stored-twice:"+class,
			"the receiver promoted "+sp.id+"/"+p+" although the hub already holds this file's content (inside a compacted output)",
			w.replay())
	}
	w.delivered[k] = true
	w.planted[k] = false
	stored, _ := os.ReadFile(filepath.Join(w.hubDir, finalPath(sp.id, p)))
	if !bytes.Equal(stored, sp.origin[p]) {
		w.c.Fail("hub-content-differs:promote", "promoted bytes differ from the spoke's file "+p, w.replay())
	}
}

// hredeliver: a delivery outside the reconcile protocol (air-gap bundle import — importer.go calls
// Receive(offset 0, whole file) — or any duplicate delivery).
func (w *world) hredeliver(sid, p string) {
	sp := w.spoke(sid)
	out := "nofile"
	if b, err := os.ReadFile(filepath.Join(sp.dir, p)); err == nil {
		w.keys[key(sid, p)] = true
		ctx := context.Background()
		before, _ := w.hubBE.Exists(ctx, finalPath(sid, p))
		res, rerr := w.recv.Receive(ctx, sid, p, shaHex(b), int64(len(b)), 0, bytes.NewReader(b))
		w.cur = fmt.Sprintf("hredeliver %s %s", sid, p)
		w.afterReceive(sp, p, before)
		w.cur = ""
		switch {
		case rerr != nil:
			out = "err"
		case res.Outcome == edgesync.OutcomeAlreadyPresent:
			out = "already"
		case res.Outcome == edgesync.OutcomePartial:
			out = "partial"
		case res.Outcome == edgesync.OutcomeChecksumMismatch:
			out = "mismatch"
		default:
			out = string(res.Outcome)
		}
	}
	w.c.Tag("redeliver:" + out)
	w.op(fmt.Sprintf("hredeliver %s %s", sid, p), out)
}

// hcdel: the deferred second step of hub compaction — the source file is deleted (a retry after a
// failed deletion); the content stays delivered (it lives in the compacted output).
func (w *world) hcdel(sid, p string) {
	ctx := context.Background()
	k := key(sid, p)
	if ex, _ := w.hubBE.Exists(ctx, finalPath(sid, p)); ex {
		_, comp, has := w.receipt(sid, p)
		switch {
		case !has:
			w.orphanCompacted[k] = true
		case !comp && w.marked[k]:
			// compaction marked this receipt, something cleared the mark before the source was deleted
			w.unmarked[k] = true
		}
	}
	if !w.marked[k] || w.planted[k] {
		// not part of a compaction job: for the monitors this is a genuine removal
		w.delivered[k], w.envTouched[k], w.planted[k] = false, true, false
	}
	must(w.hubBE.LocalBackend.Delete(ctx, finalPath(sid, p)))
	w.keys[k] = true
	w.op(fmt.Sprintf("hcdel %s %s", sid, p), "ok")
}

func (w *world) hsweep(sid, p string) {
	ctx := context.Background()
	must(w.hubBE.LocalBackend.Delete(ctx, stagingPath(sid, p)))
	must(w.hubBE.LocalBackend.Delete(ctx, stagingPath(sid, p)+".part"))
	w.keys[key(sid, p)] = true
	w.op(fmt.Sprintf("hsweep %s %s", sid, p), "ok")
}

// ---------------------------------------------------------------- loop-back transport

type errReader struct{ err error }

func (e errReader) Read([]byte) (int, error) { return 0, e.err }

type runCtl struct {
	w       *world
	sp      *spoke
	rec     *edgesync.Reconciler
	faults  []fault
	crashAt int // -1: none
	stepNo  int
	crashed bool
	cancel  context.CancelFunc
	acked   map[string]bool
	early   map[string]bool // MarkSynced entered before any acknowledgment for the path
}

var errCrashed = errors.New("verif: spoke process is gone")
var errLink = errors.New("verif: link dropped")

func (r *runCtl) step() bool {
	if r.crashed {
		return false
	}
	if r.stepNo == r.crashAt {
		r.crashed = true
		r.cancel()
		return false
	}
	r.stepNo++
	return true
}

func (r *runCtl) pop() fault {
	if len(r.faults) == 0 {
		return fault{kind: "n"}
	}
	f := r.faults[0]
	r.faults = r.faults[1:]
	return f
}

func (r *runCtl) hook(method, p string) {
	ok := r.step()
	if ok && method == "MarkSynced" && !r.acked[p] {
		r.early[p] = true
	}
}

func (r *runCtl) Reconcile(ctx context.Context, hub string, pending []*edgesync.LedgerEntry) (*edgesync.ReconcileResult, error) {
	if !r.step() {
		return nil, errCrashed
	}
	f := r.pop()
	if f.kind == "db" || f.kind == "he" {
		return nil, errLink
	}
	entries := make([]edgesync.ReconcileEntry, 0, len(pending))
	for _, e := range pending {
		entries = append(entries, edgesync.ReconcileEntry{Path: e.Path, SHA256: e.SHA256, SizeBytes: e.SizeBytes})
		r.w.keys[key(r.sp.id, e.Path)] = true
	}
	res, err := r.rec.Reconcile(context.Background(), r.sp.id, entries)
	if f.lost {
		return nil, errLink
	}
	if err != nil {
		if errors.Is(err, edgesync.ErrReconcileTooLarge) {
			return nil, &edgesync.ReconcileTooLargeError{MaxEntries: r.rec.MaxEntries()}
		}
		return nil, err
	}
	for _, p := range res.Present {
		r.acked[p] = true
	}
	return res, nil
}

func mangle(f fault, b []byte) []byte {
	flip := func(i int) {
		if i < len(b) {
			b[i] ^= 0xff
		}
	}
	switch f.kind {
	case "sh":
		if f.a < len(b) {
			b = b[:f.a]
		}
	case "co":
		flip(f.a)
	case "sc":
		flip(f.b)
		if f.a < len(b) {
			b = b[:f.a]
		}
	}
	return b
}

func (r *runCtl) PutFile(ctx context.Context, hub string, e *edgesync.LedgerEntry, body io.Reader, offset int64) (*edgesync.PutResult, error) {
	if !r.step() {
		return nil, errCrashed
	}
	f := r.pop()
	switch f.kind {
	case "db", "he":
		return nil, errLink
	case "bp":
		if f.lost {
			return nil, errLink
		}
		return edgesync.BackpressureResult(time.Second), nil
	case "fc":
		if f.lost {
			return nil, errLink
		}
		return &edgesync.PutResult{Outcome: edgesync.OutcomeConflict, TheirSHA256: strings.Repeat("f", 64)}, nil
	}
	w := r.w
	k := key(r.sp.id, e.Path)
	w.keys[k] = true
	got, rerr := io.ReadAll(body)
	var rd io.Reader
	if rerr != nil {
		rd = io.MultiReader(bytes.NewReader(got), errReader{rerr})
	} else {
		rd = bytes.NewReader(mangle(f, got))
	}
	hctx, hcancel := context.WithCancel(context.Background())
	defer hcancel()
	if f.kind == "rf" {
		w.hubBE.armPath, w.hubBE.cancel = stagingPath(r.sp.id, e.Path), hcancel
	}
	before, _ := w.hubBE.Exists(hctx, finalPath(r.sp.id, e.Path))
	res, err := w.recv.Receive(hctx, r.sp.id, e.Path, e.SHA256, e.SizeBytes, offset, rd)
	w.hubBE.armPath, w.hubBE.cancel = "", nil
	w.afterReceive(r.sp, e.Path, before)
	if f.lost {
		return nil, errLink
	}
	if err == nil && res != nil && res.Outcome.Done() {
		r.acked[e.Path] = true
	}
	return res, err
}

// ---------------------------------------------------------------- one agent run

var documented = map[string]bool{
	">pending": true, "pending>in_flight": true, "pending>synced": true, "in_flight>synced": true, "exported>synced": true,
	"pending>exported": true, "exported>pending": true, "pending>failed": true, "in_flight>failed": true,
	"in_flight>pending": true, "failed>pending": true, "skipped>pending": true, "failed>skipped": true,
	"pending>skipped": true, "in_flight>skipped": true,
}

// run performs one agent pass. same = on the SAME long-lived Agent instance as the previous pass of
// this spoke (a pass whose context was cancelled leaves the process alive); otherwise the process is
// restarted (ledger re-opened, new Agent). A reused Agent keeps its BatchSize.
func (w *world) run(sid string, same bool, batch, cap int, crashAt int, faults []fault) {
	sp := w.spoke(sid)
	if sp.agent == nil {
		same = false
	}
	db, ledger := sp.proc(!same)
	rec, err := edgesync.NewReconciler(edgesync.ReconcilerConfig{Index: w.index, Backend: w.hubBE, MaxEntries: cap})
	must(err)
	ctx, cancel := context.WithCancel(context.Background())
	defer cancel()
	rc := &runCtl{w: w, sp: sp, rec: rec, faults: faults, crashAt: crashAt, cancel: cancel, acked: map[string]bool{}, early: map[string]bool{}}
	inst := "same"
	if !same {
		inst = "new"
		sp.sw = &switchT{}
		sp.batch = batch
		sp.agent, err = edgesync.NewAgent(edgesync.AgentConfig{Ledger: ledger, Transport: sp.sw, Backend: sp.backend, HubID: hubID,
			SpokeID: sid, MaxAttempts: w.maxAtt, MaxConcurrent: 1, BatchSize: batch, Logger: zerolog.Nop()})
		must(err)
	}
	batch = sp.batch
	sp.sw.cur = rc
	agent := sp.agent
	w.c.Tag("inst:" + inst)
	cs := "-"
	if crashAt >= 0 {
		cs = strconv.Itoa(crashAt)
	}
	line := fmt.Sprintf("run %s %s %d %d %s", sid, inst, batch, cap, cs)
	for _, f := range faults {
		line += " " + f.String()
	}
	w.cur = line
	edgesync.VerifStep = rc.hook
	var res *edgesync.RunResult
	var rerr error
	pan := vh.Guard(func() string { res, rerr = agent.Run(ctx); return "" })
	edgesync.VerifStep = nil
	w.cur = ""
	out := ""
	switch {
	case pan != "":
		out = pan
	case rc.crashed:
		out = "crashed"
		w.c.Tag("run:crashed")
	case rerr != nil:
		out = "err"
		w.c.Tag("run:err")
	default:
		out = fmt.Sprintf("ok rec=%d disc=%d present=%d sent=%d partial=%d failed=%d skipped=%d conflicts=%d bytes=%d",
			res.Recovered, res.Discovered, res.AlreadyPresent, res.Sent, res.Partial, res.Failed, res.Skipped, len(res.Conflicts), res.BytesSent)
		w.c.Tag("run:ok")
		if res.Partial > 0 {
			w.c.Tag("out:partial")
		}
		if res.AlreadyPresent > 0 {
			w.c.Tag("out:present")
		}
		if res.Skipped > 0 {
			w.c.Tag("out:skipped")
		}
		if len(res.Conflicts) > 0 {
			w.c.Tag("out:conflict")
		}
	}
	w.op(line, out)

	// ---- observation + monitors
	rows := w.dumpLedger(sid, db)
	became := map[string]bool{} // rows that entered synced in this run: no environment event can excuse them
	for _, t := range w.dumpLog(sid, db) {
		if t[2] == "synced" {
			became[t[0]] = true
		}
		tr := t[1] + ">" + t[2]
		if t[1] == "synced" {
			w.c.Fail("ledger:synced-left:"+t[2], "a synced ledger row moved to "+t[2]+" ("+t[0]+")", w.replay())
		} else if !documented[tr] {
			w.c.Fail("ledger:undocumented-transition:"+tr, "ledger row "+t[0]+" changed "+tr, w.replay())
		}
		if t[2] == "synced" && (!rc.acked[t[0]] || rc.early[t[0]]) {
			w.c.Fail("ledger:synced-without-ack", "row "+t[0]+" became synced before/without a hub acknowledgment in this run", w.replay())
		}
		w.c.Tag("tr:" + tr)
	}
	w.dumpHub()
	for _, r := range rows {
		if r.state != "synced" {
			continue
		}
		k := key(sid, r.path)
		if w.planted[k] || (w.envTouched[k] && !became[r.path]) {
			continue // a foreign writer's bytes sit at the path (excluded, as in the theorems), or a genuine removal happened after the sync
		}
		if !w.hubHolds(sid, r.path, sp.origin[r.path]) {
			w.c.Fail("synced-unsound", "ledger says synced for "+r.path+" but the hub holds neither identical content nor a compacted receipt for it", w.replay())
		}
	}
}

type lrow struct {
	path, state    string
	attempts, sent int64
}

func (w *world) dumpLedger(sid string, db *sql.DB) []lrow {
	q, err := db.Query(`SELECT path, state, attempts, bytes_sent FROM sync_ledger WHERE hub_id = ? ORDER BY path`, hubID)
	must(err)
	var rows []lrow
	var parts []string
	for q.Next() {
		var r lrow
		must(q.Scan(&r.path, &r.state, &r.attempts, &r.sent))
		rows = append(rows, r)
		parts = append(parts, fmt.Sprintf("%s:%s:%d:%d", r.path, r.state, r.attempts, r.sent))
	}
	q.Close()
	out := "-"
	if len(parts) > 0 {
		out = strings.Join(parts, " ")
	}
	w.op("ledger "+sid, out)
	return rows
}

func (w *world) dumpLog(sid string, db *sql.DB) [][3]string {
	q, err := db.Query(`SELECT path, old, new FROM verif_log ORDER BY id`)
	must(err)
	var ts [][3]string
	var parts []string
	for q.Next() {
		var t [3]string
		must(q.Scan(&t[0], &t[1], &t[2]))
		ts = append(ts, t)
		parts = append(parts, t[0]+":"+t[1]+">"+t[2])
	}
	q.Close()
	_, err = db.Exec(`DELETE FROM verif_log`)
	must(err)
	out := "-"
	if len(parts) > 0 {
		out = strings.Join(parts, " ")
	}
	w.op("log "+sid, out)
	return ts
}

func readOpt(p string) (string, []byte, bool) {
	b, err := os.ReadFile(p)
	if err != nil {
		return ".", nil, false
	}
	return vh.Hex(b), b, true
}

func (w *world) receipt(sid, p string) (sha string, compacted, ok bool) {
	err := w.hubDB.QueryRow(`SELECT sha256, compacted_at IS NOT NULL FROM sync_received WHERE spoke_id = ? AND source_path = ?`, sid, p).Scan(&sha, &compacted)
	if errors.Is(err, sql.ErrNoRows) {
		return "", false, false
	}
	must(err)
	return sha, compacted, true
}

func (w *world) hubHolds(sid, p string, want []byte) bool {
	if _, b, ok := readOpt(filepath.Join(w.hubDir, finalPath(sid, p))); ok && bytes.Equal(b, want) {
		return true
	}
	sha, comp, ok := w.receipt(sid, p)
	return ok && comp && sha == shaHex(want)
}

func (w *world) dumpHub() {
	var ks []string
	for k := range w.keys {
		ks = append(ks, k)
	}
	sort.Strings(ks)
	var parts []string
	for _, k := range ks {
		i := strings.IndexByte(k, 0)
		sid, p := k[:i], k[i+1:]
		fh, fb, fok := readOpt(filepath.Join(w.hubDir, finalPath(sid, p)))
		sh, _, sok := readOpt(filepath.Join(w.hubDir, stagingPath(sid, p)))
		ph, _, pok := readOpt(filepath.Join(w.hubDir, stagingPath(sid, p)+".part"))
		ix := "."
		sha, comp, iok := w.receipt(sid, p)
		if iok {
			if b, known := w.content[sha]; known {
				ix = vh.Hex(b)
			} else {
				ix = "?" + sha[:8]
			}
			if comp {
				ix += "c"
			}
		}
		if !fok && !sok && !pok && !iok && w.prom[k] == 0 {
			continue
		}
		parts = append(parts, fmt.Sprintf("%s/%s,F=%s,S=%s,P=%s,I=%s,N=%d", sid, p, fh, sh, ph, ix, w.prom[k]))
		// clause "never exposes a file whose bytes differ from the spoke's" (foreign plants excluded)
		if fok && !w.planted[k] {
			if sp, ok := w.spokes[sid]; !ok || !bytes.Equal(fb, sp.origin[p]) {
				w.c.Fail("hub-content-differs", "hub exposes "+sid+"/"+p+" with bytes different from the spoke's file", w.replay())
			}
		}
	}
	out := "-"
	if len(parts) > 0 {
		out = strings.Join(parts, " ")
	}
	w.op("hub", out)
}

// ---------------------------------------------------------------- generators

var faultKinds = []string{"n", "n", "n", "db", "he", "bp", "sh", "co", "sc", "rf", "fc"}

func randFault(r *vh.Rand, size int) fault {
	f := fault{kind: vh.Pick(r, faultKinds)}
	switch f.kind {
	case "sh":
		f.a = r.Intn(size + 1)
	case "co":
		f.a = r.Intn(size + 1)
	case "sc":
		f.a = r.Intn(size + 1)
		f.b = r.Intn(size + 1)
	}
	f.lost = r.Chance(20)
	return f
}

func pathFor(i int) (string, int) {
	switch i % 6 {
	case 0:
		return "d0/m0/2026/01/02/03/f0.parquet", 2026010203
	case 1:
		return "d0/m0/2026/01/02/03/f1.parquet", 2026010203
	case 2:
		return "d0/m0/2026/01/02/04/f2.parquet", 2026010204
	case 3:
		return "d1/m1/2026/01/01/23/f3.parquet", 2026010123
	case 4:
		return "r4.parquet", 0
	default:
		return "d0/m0/2026/01/03/00/f5.parquet", 2026010300
	}
}

func contentFor(r *vh.Rand, i int) []byte {
	n := r.Intn(7)
	if i == 4 && r.Chance(50) {
		n = 0
	}
	b := make([]byte, n)
	for j := range b {
		b[j] = byte(r.Intn(256))
	}
	return b
}

// finish: once faults stop every discovered file must end synced | skipped | failed. The fault-free
// passes run on the SAME Agent instance that lived through the history (sameAgent) or on a fresh
// process.
func (w *world) finish(sids []string, nontrivial bool, sameAgent bool) {
	mode := "fresh-agent"
	if sameAgent {
		mode = "same-agent"
	}
	for _, sid := range sids {
		for i := 0; i < w.maxAtt+1; i++ {
			w.run(sid, sameAgent || i > 0, 0, 0, -1, nil)
		}
		sp := w.spoke(sid)
		db, _ := sp.proc(false)
		q, err := db.Query(`SELECT path, state FROM sync_ledger`)
		must(err)
		for q.Next() {
			var p, st string
			must(q.Scan(&p, &st))
			if st != "synced" && st != "skipped" && st != "failed" {
				w.c.Fail("not-terminated:"+st+":"+mode, fmt.Sprintf("after %d fault-free passes (%s) %s is still %s", w.maxAtt+1, mode, p, st), w.replay())
			}
			w.c.Tag("final:" + st)
		}
		q.Close()
	}
	w.c.Tag("finish:" + mode)
	w.c.Case(strings.Join(w.ops, "\n"), nontrivial)
}

// edge grid: one file, one faulted (and possibly crashed) run, then recovery.
func gridCase(c *vh.Ctx, root string, n *int, f fault, crashAt int, content []byte, pre string, sameAgent bool) {
	*n++
	w := newWorld(c, filepath.Join(root, fmt.Sprintf("g%d", *n)), 3)
	defer w.close()
	p, pt := pathFor(0)
	w.sput("s1", p, pt, content)
	switch pre {
	case "partial": // leave a resume checkpoint first
		w.run("s1", false, 0, 0, -1, []fault{{kind: "n"}, {kind: "sh", a: 2}})
	case "plant":
		w.hplant("s1", p, []byte{9, 9}, true)
	case "plant-unindexed":
		w.hplant("s1", p, []byte{9, 9}, false)
	}
	w.run("s1", sameAgent, 0, 0, crashAt, []fault{{kind: "n"}, f})
	w.finish([]string{"s1"}, f.kind != "n" || crashAt >= 0, sameAgent)
}

// mixed reconcile batch: three pending files, newest first, each with no receipt (N), a fresh receipt
// whose ack was lost (F), a stale receipt — delivered, ack lost, hub copy vanished — (S) or a
// compacted receipt (C); then one fault-free pass reconciles all three in one batch.
func mixCase(c *vh.Ctx, root string, n *int, kinds [3]byte, sameAgent bool) {
	*n++
	w := newWorld(c, filepath.Join(root, fmt.Sprintf("m%d", *n)), 3)
	defer w.close()
	idx := []int{5, 2, 0} // partition hours descending = page order
	var paths [3]string
	for i, fi := range idx {
		p, pt := pathFor(fi)
		paths[i] = p
		w.sput("s1", p, pt, []byte{byte(0x10 + i), 2, 3})
	}
	fs := []fault{{kind: "n"}}
	for _, k := range kinds {
		if k == 'N' {
			fs = append(fs, fault{kind: "db"})
		} else {
			fs = append(fs, fault{kind: "n", lost: true})
		}
	}
	w.run("s1", false, 0, 0, -1, fs)
	for i, k := range kinds {
		switch k {
		case 'S':
			w.hdel("s1", paths[i])
		case 'C':
			w.hcompact("s1", paths[i], true)
		}
	}
	w.run("s1", sameAgent, 0, 0, -1, nil)
	w.c.Tag("mix:" + string(kinds[:]))
	w.finish([]string{"s1"}, true, sameAgent)
}

// compaction window: delivered file; hub compaction marks the receipt; between the mark and the
// deferred source deletion: a redelivery / a reconcile pass / nothing; after the deletion: redelivery,
// passes. `lostAck` leaves the spoke row pending so its own passes take part.
func windowCase(c *vh.Ctx, root string, n *int, lostAck bool, during, after string, sameAgent bool) {
	*n++
	w := newWorld(c, filepath.Join(root, fmt.Sprintf("w%d", *n)), 3)
	defer w.close()
	p, pt := pathFor(0)
	w.sput("s1", p, pt, []byte{1, 2, 3, 4})
	w.run("s1", false, 0, 0, -1, []fault{{kind: "n"}, {kind: "n", lost: lostAck}})
	w.hcompact("s1", p, false) // step 1: receipts stamped, source deletion has not happened yet
	step := func(what string) {
		for _, ch := range what {
			switch ch {
			case 'd':
				w.hredeliver("s1", p)
			case 'r':
				w.run("s1", sameAgent, 0, 0, -1, nil)
			case 'm':
				w.hcompact("s1", p, false) // recovery re-fires the mark
			}
		}
	}
	step(during)
	w.hcdel("s1", p) // step 2
	step(after)
	w.c.Tag("window:" + during + "/" + after)
	w.finish([]string{"s1"}, true, sameAgent)
}

func randomCase(c *vh.Ctx, root string, n int, r *vh.Rand) {
	w := newWorld(c, filepath.Join(root, fmt.Sprintf("r%d", n)), r.Range(1, 5))
	defer w.close()
	sids := []string{"s1"}
	if r.Chance(30) {
		sids = append(sids, "s2")
	}
	nfiles := r.Range(1, 4)
	next := map[string]int{}
	addFile := func(sid string) {
		i := next[sid]
		if i >= 6 {
			return
		}
		next[sid] = i + 1
		p, pt := pathFor(i)
		w.sput(sid, p, pt, contentFor(r, i))
	}
	for _, sid := range sids {
		for i := 0; i < nfiles; i++ {
			addFile(sid)
		}
	}
	pickPath := func(sid string) string {
		p, _ := pathFor(r.Intn(max(next[sid], 1)))
		return p
	}
	runs := r.Range(1, 6)
	for i := 0; i < runs; i++ {
		sid := vh.Pick(r, sids)
		// environment between runs
		for r.Chance(35) {
			p := pickPath(sid)
			switch r.Intn(7) {
			case 0:
				w.srm(sid, p)
			case 1:
				w.hcompact(sid, p, r.Chance(80))
			case 2:
				w.hdel(sid, p)
			case 3:
				switch r.Intn(3) {
				case 0:
					w.hsweep(sid, p)
				case 1:
					if k := key(sid, p); w.marked[k] && !w.planted[k] {
						w.hcdel(sid, p)
					} else {
						w.hsweep(sid, p)
					}
				default:
					w.hredeliver(sid, p)
				}
			case 4:
				w.hplant(sid, p, []byte{0xee, byte(r.Intn(4))}, r.Bool())
			default:
				addFile(sid)
			}
		}
		nf := r.Intn(8)
		fs := make([]fault, nf)
		for j := range fs {
			fs[j] = randFault(r, 6)
		}
		crashAt := -1
		if r.Chance(35) {
			crashAt = r.Intn(14)
		}
		w.run(sid, r.Chance(50), vh.Pick(r, []int{0, 0, 1, 2, 3}), vh.Pick(r, []int{0, 0, 0, 1, 2}), crashAt, fs)
	}
	w.finish(sids, true, r.Bool())
}

// ---------------------------------------------------------------- replay of an ops file

func replayFile(c *vh.Ctx, root, file string) {
	data, err := os.ReadFile(file)
	must(err)
	var w *world
	n := 0
	for _, line := range strings.Split(string(data), "\n") {
		if i := strings.Index(line, "  => "); i >= 0 {
			line = line[:i]
		}
		f := strings.Fields(line)
		if len(f) == 0 {
			continue
		}
		atoi := func(s string) int { v, _ := strconv.Atoi(s); return v }
		unhex := func(s string) []byte {
			if s == "-" {
				return []byte{}
			}
			b, _ := hex.DecodeString(s)
			return b
		}
		switch f[0] {
		case "init":
			if w != nil {
				w.close()
			}
			n++
			w = newWorld(c, filepath.Join(root, fmt.Sprintf("p%d", n)), atoi(f[1]))
		case "sput":
			w.sput(f[1], f[2], atoi(f[3]), unhex(f[4]))
		case "srm":
			w.srm(f[1], f[2])
		case "hplant":
			w.hplant(f[1], f[2], unhex(f[3]), f[4] == "1")
		case "hdel":
			w.hdel(f[1], f[2])
		case "hcompact":
			w.hcompact(f[1], f[2], f[3] == "1")
		case "hcdel":
			w.hcdel(f[1], f[2])
		case "hredeliver":
			w.hredeliver(f[1], f[2])
		case "hsweep":
			w.hsweep(f[1], f[2])
		case "run":
			crash := -1
			if f[5] != "-" {
				crash = atoi(f[5])
			}
			var fs []fault
			for _, t := range f[6:] {
				ft, err := parseFault(t)
				must(err)
				fs = append(fs, ft)
			}
			w.run(f[1], f[2] == "same", atoi(f[3]), atoi(f[4]), crash, fs)
		case "ledger", "log", "hub":
			// emitted by run
		}
	}
	if w != nil {
		w.c.Case(strings.Join(w.ops, "\n"), true)
		w.close()
	}
}

func main() {
	c := vh.Start()
	root := filepath.Join("/var/tmp", fmt.Sprintf("c27-%d-%d", os.Getpid(), c.Seed))
	os.RemoveAll(root)
	defer os.RemoveAll(root)
	r := vh.NewRand(c.Seed)

	if c.Replay != "" {
		replayFile(c, root, c.Replay)
		c.Finish("replay")
		return
	}

	// malformed ops: the model driver must reject what it does not know
	c.Op("frobnicate s1 x", "bad-op")
	c.Op("run s1 new zero 0 -", "bad-op")
	c.Op("run s1 old 0 0 -", "bad-op")
	c.Op("run s1 same 0 0 - sh:x", "bad-op")

	// corpus first
	if ents, err := os.ReadDir("/verif/corpus/C27"); err == nil {
		for _, e := range ents {
			if strings.HasSuffix(e.Name(), ".ops") {
				replayFile(c, root, filepath.Join("/verif/corpus/C27", e.Name()))
			}
		}
	}

	// edge grid
	n := 0
	content := []byte{1, 2, 3, 4, 5}
	grid := []fault{{kind: "n"}, {kind: "db"}, {kind: "he"}, {kind: "bp"}, {kind: "sh", a: 0}, {kind: "sh", a: 3}, {kind: "co", a: 1},
		{kind: "sc", a: 3, b: 1}, {kind: "rf"}, {kind: "fc"}}
	crashes := []int{-1, 0, 1, 2, 3, 4, 5, 6}
	if !c.Thorough() {
		crashes = []int{-1, 2, 3, 4, 5}
	}
	for _, pre := range []string{"", "partial", "plant", "plant-unindexed"} {
		for _, f := range grid {
			for _, lost := range []bool{false, true} {
				for _, cr := range crashes {
					if pre != "" && pre != "partial" && (cr >= 0 || lost) {
						continue
					}
					f2 := f
					f2.lost = lost
					if cr >= 0 {
						// a cancelled pass: continue on the same long-lived Agent AND as a restarted process
						gridCase(c, root, &n, f2, cr, content, pre, true)
						gridCase(c, root, &n, f2, cr, content, pre, false)
					} else {
						gridCase(c, root, &n, f2, cr, content, pre, n%2 == 0)
					}
				}
			}
		}
	}
	gridCase(c, root, &n, fault{kind: "n"}, -1, []byte{}, "", false) // empty file

	// mixed reconcile batches: every assignment of {no receipt, fresh, stale, compacted} to 3 entries
	for _, a := range []byte("NFSC") {
		for _, b := range []byte("NFSC") {
			for _, d := range []byte("NFSC") {
				mixCase(c, root, &n, [3]byte{a, b, d}, n%2 == 0)
			}
		}
	}

	// compaction window: mark … source delete, with redeliveries / passes in between and after
	for _, lost := range []bool{false, true} {
		for _, during := range []string{"", "d", "r", "dr", "rd", "dd", "dm"} {
			for _, after := range []string{"d", "r", "dr", "rd", "dd"} {
				windowCase(c, root, &n, lost, during, after, n%2 == 0)
			}
		}
	}

	// random histories
	cases := 250
	if c.Thorough() {
		cases = 3000
	}
	if c.N > 0 {
		cases = c.N
	}
	for i := 0; i < cases; i++ {
		randomCase(c, root, i, r.Fork())
	}
	c.Finish("distinct = different canonical op sequence (sha256); non-trivial = at least one fault, crash or environment event in the history")
}
