//go:build verif

// C06 correspondence harness: real wal.Writer (Append / AppendRaw / AppendRawWithMeta, forced
// rotation) → files → real wal.Reader.ReadAll / wal.Recovery, on the clean file, on EVERY truncation
// offset and on single-byte corruptions of EVERY position (all 255 other values in thorough; a fixed
// set of values plus every value of the low length byte in quick). The compiled Lean model replays
// the same ops. Property monitors run on the real reader's output.
package main

import (
	"bytes"
	"context"
	"crypto/sha256"
	"encoding/binary"
	"encoding/hex"
	"fmt"
	"hash/crc32"
	"math"
	"os"
	"path/filepath"
	"sort"
	"strings"
	"sync/atomic"
	"time"

	"github.com/Basekick-Labs/msgpack/v6"
	"github.com/basekick-labs/arc/internal/verif/vh"
	"github.com/basekick-labs/arc/internal/verifclock"
	"github.com/basekick-labs/arc/internal/wal"
	"github.com/rs/zerolog"
)

// ---------------------------------------------------------------- canonical rendering of decoded values

func render(b *strings.Builder, v interface{}) {
	switch x := v.(type) {
	case nil:
		b.WriteString("nil")
	case map[string]interface{}:
		ks := make([]string, 0, len(x))
		for k := range x {
			ks = append(ks, k)
		}
		sort.Strings(ks)
		b.WriteString("{")
		for _, k := range ks {
			fmt.Fprintf(b, "%q=", k)
			render(b, x[k])
			b.WriteString(";")
		}
		b.WriteString("}")
	case []interface{}:
		b.WriteString("[")
		for _, e := range x {
			render(b, e)
			b.WriteString(";")
		}
		b.WriteString("]")
	case []byte:
		fmt.Fprintf(b, "bin:%x", x)
	case string:
		fmt.Fprintf(b, "str:%x", x)
	case float64:
		fmt.Fprintf(b, "f64:%016x", math.Float64bits(x))
	case float32:
		fmt.Fprintf(b, "f32:%08x", math.Float32bits(x))
	default:
		fmt.Fprintf(b, "%T:%v", v, v)
	}
}

func tokenOf(s string) string {
	h := sha256.Sum256([]byte(s))
	return hex.EncodeToString(h[:6])
}

func tokRows(recs []map[string]interface{}) string {
	var b strings.Builder
	if recs == nil {
		b.WriteString("rows:nil")
	} else {
		b.WriteString("rows:")
		for _, r := range recs {
			if r == nil {
				b.WriteString("nilmap;")
				continue
			}
			render(&b, r)
			b.WriteString(";")
		}
	}
	return tokenOf(b.String())
}

func tokCol(m string, cols map[string][]interface{}) string {
	var b strings.Builder
	fmt.Fprintf(&b, "col:%x:", m)
	ks := make([]string, 0, len(cols))
	for k := range cols {
		ks = append(ks, k)
	}
	sort.Strings(ks)
	for _, k := range ks {
		fmt.Fprintf(&b, "%q=", k)
		render(&b, cols[k])
		b.WriteString(";")
	}
	return tokenOf(b.String())
}

// one observed entry: format, database (columnar only), token of the decoded value
type obs struct {
	ts   uint64
	rows bool
	db   string
	tok  string
}

func (o obs) key() string {
	if o.rows {
		return "r:-:" + o.tok
	}
	return "c:" + vh.Hex([]byte(o.db)) + ":" + o.tok
}

func obsOfEntry(e wal.Entry) obs {
	if e.ColumnarData != nil {
		return obs{e.TimestampUS, false, e.ColumnarData.Database, tokCol(e.ColumnarData.Measurement, e.ColumnarData.Columns)}
	}
	return obs{e.TimestampUS, true, "", tokRows(e.Records)}
}

// ---------------------------------------------------------------- real reader on a byte string

var scratch string // directory on tmpfs
var nop = zerolog.Nop()

type readRes struct {
	line string
	ok   bool
	obs  []obs
}

func realRead(file []byte) readRes {
	p := filepath.Join(scratch, "one.wal")
	if err := os.WriteFile(p, file, 0o600); err != nil {
		panic(err)
	}
	var res readRes
	res.line = vh.Guard(func() string {
		r := wal.NewReader(p, nop)
		es, err := r.ReadAll()
		if err != nil {
			if strings.Contains(err.Error(), "invalid WAL magic") {
				return "badmagic"
			}
			return "err:" + strings.ReplaceAll(err.Error(), " ", "_")
		}
		var b strings.Builder
		fmt.Fprintf(&b, "ok c=%d", r.CorruptedEntries)
		for _, e := range es {
			o := obsOfEntry(e)
			res.obs = append(res.obs, o)
			fmt.Fprintf(&b, " %d:%s", o.ts, o.key())
		}
		if int64(len(es)) != r.TotalEntries {
			return fmt.Sprintf("err:TotalEntries=%d_len=%d", r.TotalEntries, len(es))
		}
		res.ok = true
		return b.String()
	})
	if strings.HasPrefix(res.line, "panic:") {
		res.line = "panic"
		res.obs = nil
	}
	return res
}

// frame builds a one-entry WAL file by hand (used only as the oracle for the decoder parameter).
func handFile(payloads ...[]byte) []byte {
	f := []byte{'A', 'R', 'C', 'W', 0, 1, 1}
	for _, p := range payloads {
		var h [16]byte
		binary.BigEndian.PutUint32(h[0:4], uint32(len(p)))
		binary.BigEndian.PutUint64(h[4:12], 7)
		binary.BigEndian.PutUint32(h[12:16], crc32.ChecksumIEEE(p))
		f = append(f, h[:]...)
		f = append(f, p...)
	}
	return f
}

type decRes struct {
	kind string // r | c | n
	tok  string
}

// oracle: what does the real readEntry tail (msgpack + parseColumnarEntry) do with inner payload q?
func oracle(q []byte) decRes {
	var p []byte
	if len(q) > 0 {
		p = append([]byte{1, 0, 0}, q...)
	}
	rr := realRead(handFile(p))
	if !rr.ok || len(rr.obs) == 0 {
		return decRes{"n", ""}
	}
	o := rr.obs[0]
	if o.rows {
		return decRes{"r", o.tok}
	}
	return decRes{"c", o.tok}
}

// ---------------------------------------------------------------- log cases

type app struct {
	kind    string // raw | meta | rows
	db      string
	payload []byte // raw/meta: bytes handed to the writer; rows: msgpack.Marshal(records)
	records []map[string]interface{}
}

func (a app) full() []byte { // logical payload as framed
	if a.kind == "meta" {
		b := []byte{1, 0, 0}
		binary.BigEndian.PutUint16(b[1:3], uint16(len(a.db)))
		b = append(b, a.db...)
		return append(b, a.payload...)
	}
	return a.payload
}

func mp(v interface{}) []byte {
	// sorted map keys: Go map iteration order must not leak into the generated cases
	var buf bytes.Buffer
	enc := msgpack.NewEncoder(&buf)
	enc.SetSortMapKeys(true)
	if err := enc.Encode(v); err != nil {
		panic(err)
	}
	return buf.Bytes()
}

func colPayload(m string, cols map[string]interface{}) []byte {
	return mp(map[string]interface{}{"m": m, "columns": cols})
}

func frameOf(ts uint64, p []byte) []byte {
	return handFile(p)[7:]
}

const clockBase = int64(0x00065c0780000000) * 1000 // ns; 2026-09, high timestamp bytes 00 06 5c 07 80

type logCase struct {
	name    string
	maxSize int64
	apps    []app
	doRec   bool
	light   bool // quick tier: 3 values per position, no full sweep of the low length byte
	first   *[2]int // (pos, val): a corruption of file 0 to read before the sweeps (the Lean witness)
}

type placed struct {
	a        app
	file     int
	off, end int // within the file
	ts       uint64
	exp      *obs // clean view (nil = not yielded: undecodable)
}

type harness struct {
	c     *vh.Ctx
	r     *vh.Rand
	dict  map[string]decRes
	reads int
	fab   *[3]int // first (file, pos, val) of the current log on which ReadAll fabricated an entry
	want  []string // when non-nil: exactly what the next recovery run must replay (torn-tail stage)
}

func (h *harness) declare(inner []byte) decRes {
	k := string(inner)
	if d, ok := h.dict[k]; ok {
		return d
	}
	d := oracle(inner)
	h.dict[k] = d
	h.c.Op(fmt.Sprintf("dict %s %s %s", vh.Hex(inner), d.kind, hexOrDash(d.tok)), "ok")
	return d
}

func hexOrDash(s string) string {
	if s == "" {
		return "-"
	}
	return s
}

// declareCandidates: every CRC-valid frame at ANY offset of the file is a payload the reader might
// decode; make sure the decoder parameter is declared for it before the model sees the read.
func (h *harness) declareCandidates(file []byte) {
	n := len(file)
	for o := 7; o+16 <= n; o++ {
		L := int(binary.BigEndian.Uint32(file[o:]))
		if L > n-o-16 {
			continue
		}
		p := file[o+16 : o+16+L]
		if crc32.ChecksumIEEE(p) != binary.BigEndian.Uint32(file[o+12:]) {
			continue
		}
		var inner []byte
		pan := vh.Guard(func() string { _, inner = wal.ParseEnvelope(p, ""); return "" })
		if pan != "" {
			continue
		}
		h.declare(inner)
	}
}

func isSubseq(y []string, a []string) bool {
	i := 0
	for _, x := range a {
		if i < len(y) && y[i] == x {
			i++
		}
	}
	return i == len(y)
}

func (h *harness) monitor(lc *logCase, pl []placed, fileIdx int, variant string, file []byte, rr readRes, truncAt int) {
	h.monitorAt(lc, pl, fileIdx, variant, file, rr, truncAt, -1, -1)
}

func (h *harness) monitorAt(lc *logCase, pl []placed, fileIdx int, variant string, file []byte, rr readRes, truncAt int, pos, val int) {
	c := h.c
	var appended []string
	inSet := map[string]bool{}
	for _, p := range pl {
		if p.exp != nil {
			appended = append(appended, p.exp.key())
			inSet[p.exp.key()] = true
		}
	}
	replay := func() string {
		var b strings.Builder
		fmt.Fprintf(&b, "log %q: appends in order:", lc.name)
		for _, p := range pl {
			fmt.Fprintf(&b, " [%s db=%q payload=%s]", p.a.kind, p.a.db, vh.Hex(p.a.payload))
		}
		fmt.Fprintf(&b, "; file #%d as written = %s; variant %s; real Reader.ReadAll -> %s; appended (format:db:valuetoken) = %v",
			fileIdx, vh.Hex(fileBytesClean(pl, fileIdx, file, variant)), variant, rr.line, appended)
		return b.String()
	}
	if rr.line == "panic" {
		c.Fail("reader-panic:ReadAll", "Reader.ReadAll panics instead of returning entries or an error", replay())
		return
	}
	if !rr.ok {
		return
	}
	var y []string
	for _, o := range rr.obs {
		y = append(y, o.key())
	}
	for _, k := range y {
		if !inSet[k] {
			if h.fab == nil && pos >= 0 {
				h.fab = &[3]int{fileIdx, pos, val}
			}
			c.Fail("fabricated-entry:ReadAll", "Reader.ReadAll returned an entry (format:db:value "+k+") that was never appended", replay())
			return
		}
	}
	if !isSubseq(y, appended) {
		c.Fail("order-violated:ReadAll", "Reader.ReadAll returned appended entries duplicated or out of append order", replay())
		return
	}
	if truncAt >= 0 {
		var want []string
		for _, p := range pl {
			if p.file == fileIdx && p.end <= truncAt && p.exp != nil {
				want = append(want, p.exp.key())
			}
		}
		if strings.Join(want, ",") != strings.Join(y, ",") {
			c.Fail("truncation-hides-entry:ReadAll", fmt.Sprintf("file truncated to %d bytes: completely written entries %v, ReadAll returned %v", truncAt, want, y), replay())
		}
	}
}

// fileBytesClean returns the clean bytes of the file for the replay text (variant reads pass the
// clean file already).
func fileBytesClean(pl []placed, fileIdx int, file []byte, variant string) []byte { return file }

func (h *harness) runLog(lc *logCase) {
	c := h.c
	if os.Getenv("VERIF_C06_TIMING") != "" {
		t0, r0 := time.Now(), h.reads
		defer func() { fmt.Fprintf(os.Stderr, "log %s: %v reads=%d\n", lc.name, time.Since(t0), h.reads-r0) }()
	}
	h.dict = map[string]decRes{}
	h.fab = nil
	dir, err := os.MkdirTemp(scratch, "log")
	if err != nil {
		panic(err)
	}
	defer os.RemoveAll(dir)
	// virtual clock (wal.go is clockified): entry timestamps and rotated file names are a function of
	// the case, not of the wall clock. One second per append; the writer goroutine is waited for
	// before the clock moves, so every rotation gets a distinct file name.
	verifclock.Set(clockBase)
	defer verifclock.Real()
	w, err := wal.NewWriter(&wal.WriterConfig{WALDir: dir, SyncMode: wal.SyncModeAsync, MaxSizeBytes: lc.maxSize, Logger: nop})
	if err != nil {
		panic(err)
	}
	type res struct {
		a   app
		out string
	}
	var results []res
	accepted := int64(0)
	var appAt []int64
	for i, a := range lc.apps {
		a := a
		verifclock.Set(clockBase + int64(i+1)*int64(time.Second))
		appAt = append(appAt, clockBase+int64(i+1)*int64(time.Second))
		out := vh.Guard(func() string {
			var err error
			switch a.kind {
			case "raw":
				err = w.AppendRaw(a.payload)
			case "meta":
				err = w.AppendRawWithMeta(a.db, a.payload)
			case "rows":
				err = w.Append(a.records)
			}
			if err != nil {
				if strings.Contains(err.Error(), "exceeds maximum") {
					return "toolarge"
				}
				return "err:" + err.Error()
			}
			return "ok"
		})
		if strings.HasPrefix(out, "panic:") {
			out = "panic"
		}
		results = append(results, res{a, out})
		if out == "ok" {
			accepted++
			for atomic.LoadInt64(&w.TotalEntries) < accepted {
				time.Sleep(20 * time.Microsecond)
			}
			_ = w.CurrentFile() // takes w.mu: returns after writeEntry (incl. a rotation) has finished
		}
	}
	if err := w.Close(); err != nil {
		panic(err)
	}
	names, _ := filepath.Glob(filepath.Join(dir, "*.wal"))
	sort.Strings(names)
	var files [][]byte
	for _, n := range names {
		b, err := os.ReadFile(n)
		if err != nil {
			panic(err)
		}
		files = append(files, b)
	}
	// locate every accepted append in the files (lengths are known from what was appended)
	var pl []placed
	fi, off := 0, 7
	effMax := lc.maxSize
	if effMax == 0 {
		effMax = 100 * 1024 * 1024 // NewWriter's default
	}
	c.Op(fmt.Sprintf("new %d %d", effMax, clockBase), "ok")
	var canon strings.Builder
	fmt.Fprintf(&canon, "%s max=%d;", lc.name, lc.maxSize)
	for ri, rs := range results {
		c.Op(fmt.Sprintf("at %d", appAt[ri]), "ok")
		fmt.Fprintf(&canon, "%s:%x:%x;", rs.a.kind, rs.a.db, rs.a.payload)
		opk := "raw"
		if rs.a.kind == "meta" {
			opk = "meta"
		}
		if rs.out != "ok" {
			tsArg := "0"
			if opk == "meta" {
				c.Op(fmt.Sprintf("w meta %s %s %s", tsArg, vh.Hex([]byte(rs.a.db)), vh.Hex(rs.a.payload)), rs.out)
			} else {
				c.Op(fmt.Sprintf("w raw %s %s", tsArg, vh.Hex(rs.a.payload)), rs.out)
			}
			c.Tag("append:" + rs.out)
			continue
		}
		full := rs.a.full()
		for fi < len(files) && off >= len(files[fi]) {
			fi++
			off = 7
		}
		var got []byte
		var ts uint64
		if fi < len(files) && off+16+len(full) <= len(files[fi]) {
			got = files[fi][off : off+16+len(full)]
			ts = binary.BigEndian.Uint64(got[4:12])
		}
		if opk == "meta" {
			c.Op(fmt.Sprintf("w meta %d %s %s", ts, vh.Hex([]byte(rs.a.db)), vh.Hex(rs.a.payload)), vh.Hex(got))
		} else {
			c.Op(fmt.Sprintf("w raw %d %s", ts, vh.Hex(rs.a.payload)), vh.Hex(got))
		}
		c.Tag("append:" + rs.a.kind)
		p := placed{a: rs.a, file: fi, off: off, end: off + 16 + len(full), ts: ts}
		off = p.end
		pl = append(pl, p)
	}
	var fh []string
	for _, f := range files {
		fh = append(fh, vh.Hex(f))
	}
	c.Op("files", strings.Join(fh, "|"))
	if len(files) > 1 {
		c.Tag("rotated")
	}
	// the envelope parser and the decoder parameter for every appended payload
	for i := range pl {
		full := pl[i].a.full()
		var db string
		var inner []byte
		out := vh.Guard(func() string {
			db, inner = wal.ParseEnvelope(full, "")
			return vh.Hex([]byte(db)) + " " + vh.Hex(inner)
		})
		if strings.HasPrefix(out, "panic:") {
			c.Op("env "+vh.Hex(full), "panic")
			c.Tag("env:panic")
			continue
		}
		c.Op("env "+vh.Hex(full), out)
		d := h.declare(inner)
		if d.kind == "n" {
			continue
		}
		o := obs{ts: pl[i].ts, rows: d.kind == "r", tok: d.tok}
		if !o.rows {
			o.db = db
		}
		pl[i].exp = &o
	}
	nontriv := len(files) > 1
	// per file: clean read, every truncation offset, single-byte corruptions
	for fidx, f := range files {
		h.declareCandidates(f)
		c.Op("base "+vh.Hex(f), fmt.Sprintf("ok len=%d", len(f)))
		rr := realRead(f)
		c.Op("r", rr.line)
		h.reads++
		h.monitor(lc, pl, fidx, "clean", f, rr, len(f))
		if fidx == 0 && lc.first != nil && lc.first[0] < len(f) {
			b := append([]byte(nil), f...)
			b[lc.first[0]] = byte(lc.first[1])
			h.declareCandidates(b)
			rr := realRead(b)
			c.Op(fmt.Sprintf("c %d %d", lc.first[0], lc.first[1]), rr.line)
			h.reads++
			h.monitorAt(lc, pl, fidx, fmt.Sprintf("byte %d set to 0x%02x (Lean theorem C06_subsequence_full_witness)", lc.first[0], lc.first[1]), f, rr, -1, lc.first[0], lc.first[1])
		}
		if fidx > 0 && !c.Thorough() {
			continue // quick: enumerate damage on the first file of a rotated log only
		}
		for n := 0; n < len(f); n++ {
			rr := realRead(f[:n])
			c.Op(fmt.Sprintf("t %d", n), rr.line)
			h.reads++
			c.Tag("trunc")
			h.monitor(lc, pl, fidx, fmt.Sprintf("truncated to %d bytes", n), f, rr, n)
		}
		buf := make([]byte, len(f))
		for pos := 0; pos < len(f); pos++ {
			lowLen := false
			region := "hdr"
			for _, p := range pl {
				if p.file == fidx && pos >= p.off && pos < p.end {
					switch j := pos - p.off; {
					case j < 4:
						region = "len"
						lowLen = j == 3
					case j < 12:
						region = "ts"
					case j < 16:
						region = "crc"
					default:
						region = "payload"
					}
				}
			}
			var vals []int
			if c.Thorough() || (lowLen && !lc.light) {
				for v := 0; v < 256; v++ {
					vals = append(vals, v)
				}
			} else {
				o := int(f[pos])
				vals = []int{o ^ 1, o ^ 0x80, 0x00, 0xff, 0x01, h.r.Intn(256)}
				if lc.light {
					vals = []int{o ^ 1, 0xff, h.r.Intn(256)}
				}
			}
			seen := map[int]bool{int(f[pos]): true}
			for _, v := range vals {
				if seen[v] {
					continue
				}
				seen[v] = true
				copy(buf, f)
				buf[pos] = byte(v)
				h.declareCandidates(buf)
				rr := realRead(buf)
				c.Op(fmt.Sprintf("c %d %d", pos, v), rr.line)
				h.reads++
				c.Tag("corrupt:" + region)
				if rr.line != "ok c=0" {
					nontriv = true
				}
				h.monitorAt(lc, pl, fidx, fmt.Sprintf("byte %d (%s field) set to 0x%02x", pos, region, v), f, rr, -1, pos, v)
			}
		}
	}
	if lc.doRec && h.fab != nil {
		// the damage on which ReadAll fabricated an entry, through the full recovery path
		fs := make([][]byte, len(files))
		for i := range files {
			fs[i] = append([]byte(nil), files[i]...)
		}
		fs[h.fab[0]][h.fab[1]] = byte(h.fab[2])
		h.recovery(lc, pl, fs, fmt.Sprintf("file %d byte %d set to 0x%02x", h.fab[0], h.fab[1], h.fab[2]))
	}
	if lc.doRec {
		// Reader→Recovery composition on a torn tail: cut the LAST file that holds entries at every
		// offset class of each of its entries (inside the header, exactly/just past the 16 header
		// bytes, inside the payload, last byte missing); every complete entry before the tear — in
		// this and in all earlier files — must reach the callbacks.
		last := -1
		for _, p := range pl {
			if p.file > last {
				last = p.file
			}
		}
		if last >= 0 && last == len(files)-1 {
			for _, p := range pl {
				if p.file != last {
					continue
				}
				cuts := []int{p.off + 8, p.off + 15, p.off + 16, p.off + 17, p.off + 16 + (p.end-p.off-16)/2, p.end - 1}
				seenCut := map[int]bool{}
				for _, cut := range cuts {
					if cut <= p.off || cut >= p.end || seenCut[cut] {
						continue
					}
					seenCut[cut] = true
					fs := make([][]byte, len(files))
					copy(fs, files)
					fs[last] = files[last][:cut]
					h.want = []string{}
					for _, q := range pl {
						if q.exp != nil && (q.file < last || (q.file == last && q.end <= cut)) {
							h.want = append(h.want, q.exp.key())
						}
					}
					h.recovery(lc, pl, fs, fmt.Sprintf("torn tail: file %d cut at byte %d (%d bytes into the entry at %d)", last, cut, cut-p.off, p.off))
					c.Tag("recovery:torn-tail")
				}
			}
		}
		h.recovery(lc, pl, files, "clean")
		if len(files) > 0 {
			// a few damaged variants through the full recovery path
			for k := 0; k < 6; k++ {
				fs := make([][]byte, len(files))
				for i := range files {
					fs[i] = append([]byte(nil), files[i]...)
				}
				i := h.r.Intn(len(fs))
				what := ""
				switch h.r.Intn(3) {
				case 0:
					n := h.r.Intn(len(fs[i]) + 1)
					fs[i] = fs[i][:n]
					what = fmt.Sprintf("file %d truncated to %d", i, n)
				default:
					pos := h.r.Intn(len(fs[i]))
					v := byte(h.r.Intn(256))
					if v == fs[i][pos] {
						v ^= 0x40
					}
					fs[i][pos] = v
					what = fmt.Sprintf("file %d byte %d set to 0x%02x", i, pos, v)
				}
				h.recovery(lc, pl, fs, what)
			}
		}
	}
	c.Case(canon.String(), nontriv)
}

// runBurst: forced rotation while the virtual clock advances by stepNs between appends. The framed
// bytes are observed only through the directory listing (`files`), because a rotation that re-opens
// an existing file puts a second header in the middle of it.
// Monitors (stepNs > 0, i.e. distinct rotation instants — the hypothesis of C06_rotation_named):
// number of files = rotations + 1, and recovery of the cleanly closed log replays every appended
// entry exactly once, in order.
func (h *harness) runBurst(name string, maxSize int64, stepNs int64, apps []app) {
	c := h.c
	lc := &logCase{name: name, maxSize: maxSize, apps: apps}
	h.dict = map[string]decRes{}
	h.fab = nil
	dir, err := os.MkdirTemp(scratch, "burst")
	if err != nil {
		panic(err)
	}
	defer os.RemoveAll(dir)
	verifclock.Set(clockBase)
	defer verifclock.Real()
	w, err := wal.NewWriter(&wal.WriterConfig{WALDir: dir, SyncMode: wal.SyncModeAsync, MaxSizeBytes: maxSize, Logger: nop})
	if err != nil {
		panic(err)
	}
	c.Op(fmt.Sprintf("new %d %d", maxSize, clockBase), "ok")
	var pl []placed
	var canon strings.Builder
	fmt.Fprintf(&canon, "%s max=%d step=%d;", name, maxSize, stepNs)
	sz, rotations := int64(7), 0
	for i, a := range apps {
		t := clockBase + int64(i+1)*stepNs
		verifclock.Set(t)
		var err error
		if a.kind == "meta" {
			err = w.AppendRawWithMeta(a.db, a.payload)
		} else {
			err = w.AppendRaw(a.payload)
		}
		out := "ok"
		if err != nil {
			out = "err:" + err.Error()
		}
		for atomic.LoadInt64(&w.TotalEntries) < int64(i+1) && err == nil {
			time.Sleep(20 * time.Microsecond)
		}
		_ = w.CurrentFile()
		c.Op(fmt.Sprintf("at %d", t), "ok")
		c.Op(fmt.Sprintf("wq %d %s", t/1000, vh.Hex(a.full())), out)
		fmt.Fprintf(&canon, "%s:%x:%x;", a.kind, a.db, a.payload)
		if sz += int64(16 + len(a.full())); sz >= maxSize {
			rotations++
			sz = 7
		}
		p := placed{a: a}
		db, inner := wal.ParseEnvelope(a.full(), "")
		if d := h.declare(inner); d.kind != "n" {
			o := obs{rows: d.kind == "r", tok: d.tok}
			if !o.rows {
				o.db = db
			}
			p.exp = &o
		}
		pl = append(pl, p)
	}
	if err := w.Close(); err != nil {
		panic(err)
	}
	names, _ := filepath.Glob(filepath.Join(dir, "*.wal"))
	sort.Strings(names)
	var files [][]byte
	var fh []string
	for _, n := range names {
		b, _ := os.ReadFile(n)
		files = append(files, b)
		fh = append(fh, vh.Hex(b))
	}
	c.Op("files", strings.Join(fh, "|"))
	c.Tag(fmt.Sprintf("burst:step=%dns", stepNs))
	for _, f := range files {
		h.declareCandidates(f)
		c.Op("base "+vh.Hex(f), fmt.Sprintf("ok len=%d", len(f)))
		rr := realRead(f)
		c.Op("r", rr.line)
		h.reads++
	}
	what := "clean"
	if stepNs == 0 {
		what = "same-instant rotations (outside the strictly-increasing-clock hypothesis: model diff only)"
	}
	if stepNs > 0 && len(files) != rotations+1 {
		var bn []string
		for _, n := range names {
			bn = append(bn, filepath.Base(n))
		}
		c.Fail("rotation-reuses-file:Writer.rotate",
			fmt.Sprintf("%d size-triggered rotations %dns apart produced %d files instead of %d: a rotation re-opened an existing file (O_APPEND) and wrote a second header into it", rotations, stepNs, len(files), rotations+1),
			fmt.Sprintf("NewWriter(MaxSizeBytes=%d) at virtual t0=%dns; appends %dns apart: %s; files on disk after Close: %v = %s", maxSize, clockBase, stepNs, canon.String(), bn, strings.Join(fh, "|")))
	}
	h.recovery(lc, pl, files, what)
	if stepNs > 0 && len(files) >= 2 {
		// several rotated files sharing one modification time (coarse kernel tick / burst rotation):
		// mtimes never decrease in name order, so recovery must still replay in append order.
		n := len(files)
		all := make([]int, n)
		pairs := make([]int, n)
		tail := make([]int, n)
		for i := 0; i < n; i++ {
			all[i] = 5
			pairs[i] = i / 2
			if i > 0 {
				tail[i] = 3
			}
		}
		for _, mt := range [][]int{all, pairs, tail} {
			h.recoveryM(lc, pl, files, "clean", mt)
		}
	}
	c.Case(canon.String(), true)
}

// runAlias: the caller re-uses its payload buffer right after Append* returns while the writer
// goroutine is held back (hook VerifC06Hold: w.mu held, as in the seeded demo). The WAL must own
// its bytes at return: every recovered payload equals the bytes passed at append time.
func (h *harness) runAlias(name string, apps []app, recycled [][]byte) {
	c := h.c
	lc := &logCase{name: name, apps: apps}
	h.dict = map[string]decRes{}
	h.fab = nil
	dir, err := os.MkdirTemp(scratch, "alias")
	if err != nil {
		panic(err)
	}
	defer os.RemoveAll(dir)
	verifclock.Set(clockBase)
	defer verifclock.Real()
	w, err := wal.NewWriter(&wal.WriterConfig{WALDir: dir, SyncMode: wal.SyncModeAsync, Logger: nop})
	if err != nil {
		panic(err)
	}
	c.Op(fmt.Sprintf("new %d %d", 100*1024*1024, clockBase), "ok")
	release := w.VerifC06Hold()
	// a sacrificial first entry: the writer goroutine may dequeue it and block on the mutex
	first := mp([]map[string]interface{}{{"first": 0}})
	all := append([]app{{kind: "raw", payload: first}}, apps...)
	var pl []placed
	var canon strings.Builder
	fmt.Fprintf(&canon, "%s;", name)
	for i, a := range all {
		t := clockBase + int64(i+1)*int64(time.Second)
		verifclock.Set(t)
		buf := append([]byte(nil), a.payload...) // the caller's buffer
		var err error
		if a.kind == "meta" {
			err = w.AppendRawWithMeta(a.db, buf)
		} else {
			err = w.AppendRaw(buf)
		}
		if i > 0 { // the caller recycles its buffer after the call returned
			copy(buf, recycled[i-1])
		}
		out := "ok"
		if err != nil {
			out = "err:" + err.Error()
		}
		c.Op(fmt.Sprintf("at %d", t), "ok")
		c.Op(fmt.Sprintf("wq %d %s", t/1000, vh.Hex(a.full())), out)
		fmt.Fprintf(&canon, "%s:%x:%x;", a.kind, a.db, a.payload)
		p := placed{a: a}
		db, inner := wal.ParseEnvelope(a.full(), "")
		if d := h.declare(inner); d.kind != "n" {
			o := obs{rows: d.kind == "r", tok: d.tok}
			if !o.rows {
				o.db = db
			}
			p.exp = &o
		}
		pl = append(pl, p)
		if i > 0 {
			h.declare(recycled[i-1])
		}
	}
	release()
	if err := w.Close(); err != nil {
		panic(err)
	}
	names, _ := filepath.Glob(filepath.Join(dir, "*.wal"))
	sort.Strings(names)
	var files [][]byte
	var fh []string
	for _, n := range names {
		b, _ := os.ReadFile(n)
		files = append(files, b)
		fh = append(fh, vh.Hex(b))
	}
	c.Op("files", strings.Join(fh, "|"))
	c.Tag("alias")
	for _, f := range files {
		h.declareCandidates(f)
		c.Op("base "+vh.Hex(f), fmt.Sprintf("ok len=%d", len(f)))
		rr := realRead(f)
		c.Op("r", rr.line)
		h.reads++
		// monitor: entry i of the file must be append i, byte for byte (observed through the decoder)
		if rr.ok {
			var want, got []string
			for _, p := range pl {
				if p.exp != nil {
					want = append(want, p.exp.key())
				}
			}
			for _, o := range rr.obs {
				got = append(got, o.key())
			}
			for i := range want {
				if i >= len(got) || got[i] != want[i] {
					api := "AppendRaw"
					k := 0
					for _, p := range pl {
						if p.exp == nil {
							continue
						}
						if k == i && p.a.kind == "meta" {
							api = "AppendRawWithMeta"
						}
						k++
					}
					g := "<missing>"
					if i < len(got) {
						g = got[i]
					}
					c.Fail("altered-entry:append-buffer-aliased:"+api,
						fmt.Sprintf("%s returned, then the caller overwrote its payload buffer while the entry was still queued; recovery yields %s instead of the appended %s", api, g, want[i]),
						fmt.Sprintf("writer goroutine held (w.mu); appends (kind:db:payload at call time) %s; each buffer overwritten after its call returned with %x; release, Close; file = %s; Reader.ReadAll -> %s; appended = %v",
							canon.String(), recycled, vh.Hex(f), rr.line, want))
					break
				}
			}
		}
	}
	h.recovery(lc, pl, files, "clean")
	c.Case(canon.String(), true)
}

func (h *harness) recovery(lc *logCase, pl []placed, files [][]byte, what string) {
	h.recoveryM(lc, pl, files, what, nil)
}

// recoveryM: mt[i] (seconds) is the modification time given to file i (files are in name order);
// nil = strictly increasing. Equal mtimes model a coarse kernel timestamp tick / burst rotation.
func (h *harness) recoveryM(lc *logCase, pl []placed, files [][]byte, what string, mt []int) {
	c := h.c
	dir, err := os.MkdirTemp(scratch, "rec")
	if err != nil {
		panic(err)
	}
	defer os.RemoveAll(dir)
	var fh []string
	base := time.Unix(1_700_000_000, 0)
	var paths []string
	for i, f := range files {
		h.declareCandidates(f)
		p := filepath.Join(dir, fmt.Sprintf("arc-%04d.wal", i))
		os.WriteFile(p, f, 0o600)
		m := i
		if mt != nil {
			m = mt[i]
		}
		os.Chtimes(p, base.Add(time.Duration(m)*time.Second), base.Add(time.Duration(m)*time.Second))
		paths = append(paths, p)
		fh = append(fh, vh.Hex(f))
	}
	var got []obs
	line := vh.Guard(func() string {
		rec := wal.NewRecovery(dir, nop)
		_, err := rec.RecoverWithOptions(context.Background(),
			func(ctx context.Context, records []map[string]interface{}) error {
				got = append(got, obs{rows: true, tok: tokRows(records)})
				return nil
			},
			&wal.RecoveryOptions{ColumnarCallback: func(ctx context.Context, database, measurement string, columns map[string][]interface{}) error {
				got = append(got, obs{rows: false, db: database, tok: tokCol(measurement, columns)})
				return nil
			}})
		if err != nil {
			return "err:" + err.Error()
		}
		var b strings.Builder
		b.WriteString("del=")
		for _, p := range paths {
			if _, err := os.Stat(p); err != nil {
				b.WriteString("1")
			} else {
				b.WriteString("0")
			}
		}
		for _, o := range got {
			b.WriteString(" " + o.key())
		}
		return b.String()
	})
	if strings.HasPrefix(line, "panic:") {
		line = "panic"
	}
	if mt == nil {
		c.Op("rec "+strings.Join(fh, "|"), line)
		c.Tag("recovery")
	} else {
		var ms []string
		for _, m := range mt {
			ms = append(ms, fmt.Sprint(m))
		}
		c.Op("recm "+strings.Join(ms, ",")+" "+strings.Join(fh, "|"), line)
		c.Tag("recovery:mtimes")
		what += fmt.Sprintf(" (file mtimes in name order, seconds: %v)", mt)
	}
	// monitor on the replayed callbacks
	var appended []string
	inSet := map[string]bool{}
	for _, p := range pl {
		if p.exp != nil {
			appended = append(appended, p.exp.key())
			inSet[p.exp.key()] = true
		}
	}
	replay := fmt.Sprintf("log %q, %s: files %s; RecoverWithOptions -> %s; appended = %v", lc.name, what, strings.Join(fh, "|"), line, appended)
	if line == "panic" {
		c.Fail("reader-panic:Recover", "RecoverWithOptions panics while reading a WAL file", replay)
		return
	}
	var y []string
	for _, o := range got {
		y = append(y, o.key())
		if !inSet[o.key()] {
			c.Fail("fabricated-entry:Recover", "recovery replayed an entry that was never appended: "+o.key(), replay)
			return
		}
	}
	if !isSubseq(y, appended) {
		c.Fail("order-violated:Recover", "recovery replayed entries duplicated or out of append order", replay)
	}
	if h.want != nil {
		if strings.Join(y, ",") != strings.Join(h.want, ",") {
			c.Fail("complete-entry-not-replayed:torn-tail",
				fmt.Sprintf("a crash tore the tail of the last WAL file; recovery replayed %v but the completely written entries before the tear are %v", y, h.want), replay)
		}
		h.want = nil
	}
	if strings.HasPrefix(what, "clean") && !strings.Contains(what, "same-instant") && strings.Join(y, ",") != strings.Join(appended, ",") {
		c.Fail("clean-recovery-incomplete:Recover", "recovery of undamaged files did not replay exactly the appended entries", replay)
	}
}

// ---------------------------------------------------------------- generators

var dbs = []string{"", "d", "prod", "metrics_eu_west_1"}

func (h *harness) genPayload(uniq int) app {
	r := h.r
	switch r.Intn(9) {
	case 0, 1: // columnar, enveloped
		return app{kind: "meta", db: vh.Pick(r, dbs), payload: colPayload(vh.Pick(r, []string{"cpu", "m"}), map[string]interface{}{"v": []interface{}{int64(uniq), r.Intn(300)}})}
	case 2: // columnar, raw (pre-envelope format)
		return app{kind: "raw", payload: colPayload("x", map[string]interface{}{"t": []interface{}{uniq}, "s": []interface{}{"a"}})}
	case 3: // row format through Append
		recs := []map[string]interface{}{{"k": uniq}, {"f": 1.5}}
		if r.Chance(30) {
			recs = append(recs, map[string]interface{}{"z": "y"})
		}
		return app{kind: "rows", payload: mp(recs), records: recs}
	case 4: // arbitrary bytes (mostly undecodable), includes payloads starting with the marker byte
		n := r.Intn(12)
		b := make([]byte, n)
		for i := range b {
			b[i] = byte(r.Intn(256))
		}
		if n > 0 && r.Chance(40) {
			b[0] = 1
		}
		if n > 2 && r.Chance(30) {
			b[1], b[2] = 0, byte(r.Intn(n))
		}
		if n > 0 && b[0] == 1 && n > 2 && b[1] == 0xff && b[2] >= 0xfd {
			b[1] = 0x7f // the ParseEnvelope panic has its own dedicated case
		}
		return app{kind: "raw", payload: b}
	case 5: // row-format payload inside an envelope (the reader drops the database)
		return app{kind: "meta", db: vh.Pick(r, dbs), payload: mp([]map[string]interface{}{{"q": uniq}})}
	case 6: // a payload that embeds a well-formed entry (never appended) as a msgpack bin/str value
		g := mp([]map[string]interface{}{{"evil": uniq}})
		if r.Bool() {
			g = append([]byte{1, 0, 2, 'h', 'x'}, colPayload("e", map[string]interface{}{})...)
		}
		G := frameOf(0, g)
		if r.Bool() {
			return app{kind: "meta", db: vh.Pick(r, dbs), payload: colPayload("x", map[string]interface{}{"c": []interface{}{G}})}
		}
		return app{kind: "raw", payload: mp([]map[string]interface{}{{"k": G}})}
	case 7: // entry-like pattern at the very start / zero-length frames / length bytes
		switch r.Intn(3) {
		case 0:
			return app{kind: "raw", payload: frameOf(0, mp([]map[string]interface{}{{"e": uniq}}))}
		case 1:
			return app{kind: "raw", payload: append(make([]byte, 16), byte(uniq))} // len=0, crc=0 frame
		default:
			return app{kind: "meta", db: "d", payload: append(frameOf(0, nil), colPayload("p", map[string]interface{}{"u": []interface{}{uniq}})...)}
		}
	default: // tiny payloads: empty, nil, empty array, empty map
		return app{kind: "raw", payload: vh.Pick(r, [][]byte{{}, {0xc0}, {0x90}, {0x80}, {0x91, 0x80}})}
	}
}

func main() {
	c := vh.Start()
	scratch = "/dev/shm"
	if st, err := os.Stat(scratch); err != nil || !st.IsDir() {
		scratch = os.TempDir()
	}
	var err error
	scratch, err = os.MkdirTemp(scratch, "verif-c06-")
	if err != nil {
		panic(err)
	}
	defer os.RemoveAll(scratch)
	h := &harness{c: c, r: vh.NewRand(c.Seed)}

	// ---- (1) fixed corpus
	evilInner := colPayload("cpu", map[string]interface{}{"v": []interface{}{666}})
	evilFull := append([]byte{1, 0, 4, 'p', 'r', 'o', 'd'}, evilInner...)
	G := frameOf(0, evilFull)
	// the witness of Lean theorem C06_subsequence_full_witness, byte for byte (wPrefix ++ encodeEntry ⟨7, wEvil⟩)
	unhex := func(x string) []byte { b, _ := hex.DecodeString(x); return b }
	leanEvil := append([]byte{1, 0, 4, 'p', 'r', 'o', 'd'}, unhex("82a16da3637075a7636f6c756d6e7381a17691cd029a")...)
	leanPayload := append(unhex("82a16da3637075a7636f6c756d6e7381a46e6f746591d92d"), frameOf(7, leanEvil)...)
	corpus := []*logCase{
		{name: "lean-witness", apps: []app{{kind: "meta", db: "prod", payload: leanPayload}}, doRec: true, first: &[2]int{10, 31}},
		{name: "witness-embedded-entry", apps: []app{
			{kind: "meta", db: "prod", payload: colPayload("cpu", map[string]interface{}{"note": []interface{}{string(G)}})}}, doRec: true},
		{name: "witness-embedded-then-more", apps: []app{
			{kind: "meta", db: "prod", payload: colPayload("cpu", map[string]interface{}{"v": []interface{}{1}})},
			{kind: "raw", payload: mp([]map[string]interface{}{{"k": frameOf(0, mp([]map[string]interface{}{{"evil": 1}}))}})},
			{kind: "meta", db: "d", payload: colPayload("m", map[string]interface{}{"v": []interface{}{2}})}}, doRec: true},
		{name: "plain-3", apps: []app{
			{kind: "meta", db: "prod", payload: colPayload("cpu", map[string]interface{}{"v": []interface{}{1, 2}})},
			{kind: "rows", records: []map[string]interface{}{{"a": 1}}, payload: mp([]map[string]interface{}{{"a": 1}})},
			{kind: "raw", payload: colPayload("mem", map[string]interface{}{"v": []interface{}{3}})}}, doRec: true},
		{name: "empty-log", apps: nil, doRec: true},
		{name: "edge-payloads", light: true, apps: []app{
			{kind: "raw", payload: []byte{}},
			{kind: "meta", db: "", payload: []byte{}},
			{kind: "raw", payload: []byte{0xc0}},
			{kind: "raw", payload: []byte{1, 0, 1, 'q', 0x91, 0x80}}, // raw payload that looks enveloped
			{kind: "raw", payload: []byte{1, 0, 9, 'q'}},             // marker with a database length past the end
			{kind: "meta", db: "d", payload: []byte{0x91, 0x80}}}},
		{name: "rotation-each-entry", maxSize: 30, apps: []app{
			{kind: "meta", db: "a", payload: colPayload("m", map[string]interface{}{"v": []interface{}{1}})},
			{kind: "meta", db: "b", payload: colPayload("m", map[string]interface{}{"v": []interface{}{2}})},
			{kind: "rows", records: []map[string]interface{}{{"r": 3}}, payload: mp([]map[string]interface{}{{"r": 3}})}}, doRec: true},
		{name: "rotation-pairs", maxSize: 90, apps: []app{
			{kind: "meta", db: "a", payload: colPayload("m", map[string]interface{}{"v": []interface{}{1}})},
			{kind: "meta", db: "b", payload: colPayload("m", map[string]interface{}{"v": []interface{}{2}})},
			{kind: "meta", db: "c", payload: colPayload("m", map[string]interface{}{"v": []interface{}{3}})},
			{kind: "meta", db: "d", payload: colPayload("m", map[string]interface{}{"v": []interface{}{4}})},
			{kind: "meta", db: "e", payload: colPayload("m", map[string]interface{}{"v": []interface{}{5}})}}, doRec: true},
		{name: "db-name-256", apps: []app{
			{kind: "meta", db: strings.Repeat("x", 255), payload: []byte{0x91, 0x80}},
			{kind: "meta", db: strings.Repeat("x", 256), payload: []byte{0x91, 0x80}}}},
		{name: "envelope-uint16-wrap", apps: []app{
			{kind: "meta", db: "d", payload: colPayload("m", map[string]interface{}{"v": []interface{}{1}})},
			{kind: "raw", payload: []byte{1, 0xff, 0xff, 0x80}},
			{kind: "meta", db: "d", payload: colPayload("m", map[string]interface{}{"v": []interface{}{2}})}}},
	}
	for _, lc := range corpus {
		h.runLog(lc)
	}
	// ---- (1b) burst rotation: every append (or every second one) rotates, clock steps of 0 ns .. 1 ms
	burstApps := func(n int) []app {
		var as []app
		for i := 0; i < n; i++ {
			if i%2 == 0 {
				as = append(as, app{kind: "meta", db: "b", payload: colPayload("m", map[string]interface{}{"v": []interface{}{i}})})
			} else {
				as = append(as, app{kind: "raw", payload: mp([]map[string]interface{}{{"r": i}})})
			}
		}
		return as
	}
	// ---- (1c) ownership of appended bytes: buffers recycled right after Append* returns
	{
		a1 := colPayload("cpu", map[string]interface{}{"v": []interface{}{11}})
		r1 := colPayload("gpu", map[string]interface{}{"v": []interface{}{99}})
		a2 := mp([]map[string]interface{}{{"k": 1}})
		r2 := mp([]map[string]interface{}{{"z": 7}})
		a3 := colPayload("mem", map[string]interface{}{"v": []interface{}{3}})
		r3 := make([]byte, len(a3)) // zeroed buffer
		h.runAlias("alias-recycled-buffers", []app{
			{kind: "meta", db: "tenant_a", payload: a1},
			{kind: "raw", payload: a2},
			{kind: "meta", db: "d", payload: a3},
			{kind: "raw", payload: a1},
		}, [][]byte{r1, r2, r3, r1})
	}
	// 15 rotated files (> 12: sort.Slice leaves insertion sort for pdqsort), with shared mtimes
	h.runBurst("burst-15-files", 20, 1000, burstApps(14))
	for _, step := range []int64{0, 1, 1000, 999_000, 1_000_000, 1_000_000_000} {
		h.runBurst(fmt.Sprintf("burst-each-step-%dns", step), 20, step, burstApps(5))
		h.runBurst(fmt.Sprintf("burst-pairs-step-%dns", step), 60, step, burstApps(6))
	}
	// ---- (2) random logs
	nLogs := c.N
	if nLogs == 0 {
		nLogs = 12
		if c.Thorough() {
			nLogs = 8
		}
	}
	for i := 0; i < nLogs; i++ {
		k := h.r.Range(1, 6)
		lc := &logCase{name: fmt.Sprintf("rand-%d", i), doRec: h.r.Chance(50), light: i%2 == 1}
		if h.r.Chance(35) {
			lc.maxSize = int64(vh.Pick(h.r, []int{40, 70, 120, 200}))
		}
		for j := 0; j < k; j++ {
			a := h.genPayload(i*10 + j)
			if lc.doRec && (bytes.Equal(a.payload, []byte{0xc0})) {
				a.payload = []byte{0x80} // msgpack nil decodes to an Entry with neither Records nor ColumnarData: no callback
			}
			lc.apps = append(lc.apps, a)
		}
		h.runLog(lc)
	}
	c.Extra["reads"] = h.reads
	c.Finish("cases = WAL logs (≤ 6 appends of raw / enveloped / row-format payloads ≤ ~56 bytes, optional forced rotation): a fixed corpus (embedded-entry witnesses, edge payloads, rotation, envelope edge cases) then PRNG-generated logs; for every file of a log: clean read, EVERY truncation offset, and single-byte corruption of EVERY position (thorough: all 255 other values; quick: 6 values per position and all 255 for the low byte of each length field), plus full-recovery runs on clean and damaged file sets; non-trivial = rotated or at least one damaged read differing from a clean empty result; distinct = distinct append list")
}
