//go:build verif

// C31 correspondence harness: "file imports store every data row of the uploaded file".
//
// (1) function level: the unexported conversion functions of internal/api/import_inprocess.go
//
//	(intTimeToMicros, autoIntEpochToMicros, arrowTimestampToMicros, inferAndConvertColumn,
//	isBoolLiteral, stringsToTimeMicros, validateImportHeader, strconv.ParseInt / float64(int64) /
//	ParseFloat-on-integer-literals as the model assumes them) on edge grids and random inputs;
//
// (2) end to end: random CSV and Parquet files uploaded through the REAL endpoints
//
//	POST /api/v1/import/{csv,parquet} (fiber app.Test, multipart) into a real ArrowBuffer over a
//	real LocalBackend in a temp dir under /var/tmp; after the handler the stored Parquet files of
//	the target measurement are read back (arrow-go) and compared (a) with the compiled Lean model
//	(op/impl lines) and (b) by property monitors with the generator's ground truth.
package main

import (
	"bytes"
	"context"
	"fmt"
	"io"
	"math"
	"math/big"
	"mime/multipart"
	"net/http"
	"net/http/httptest"
	"net/url"
	"os"
	"path/filepath"
	"sort"
	"strconv"
	"strings"
	"sync"
	"time"
	"unicode/utf8"

	"github.com/apache/arrow-go/v18/arrow"
	"github.com/apache/arrow-go/v18/arrow/array"
	"github.com/apache/arrow-go/v18/arrow/memory"
	"github.com/apache/arrow-go/v18/parquet/file"
	"github.com/apache/arrow-go/v18/parquet/pqarrow"
	"github.com/basekick-labs/arc/internal/api"
	"github.com/basekick-labs/arc/internal/config"
	"github.com/basekick-labs/arc/internal/ingest"
	"github.com/basekick-labs/arc/internal/storage"
	"github.com/basekick-labs/arc/internal/verif/vh"
	"github.com/gofiber/fiber/v2"
	"github.com/rs/zerolog"
)

// ---------------------------------------------------------------- storage wrapper with write faults

type faultBackend struct {
	storage.Backend
	mu     sync.Mutex
	writes int // Write calls since arm()
	failAt int // -1 = never
}

func (f *faultBackend) arm(k int) {
	f.mu.Lock()
	f.writes, f.failAt = 0, k
	f.mu.Unlock()
}
func (f *faultBackend) Write(ctx context.Context, p string, d []byte) error {
	f.mu.Lock()
	k := f.writes
	f.writes++
	fail := f.failAt >= 0 && k == f.failAt
	f.mu.Unlock()
	if fail {
		return fmt.Errorf("verif: injected storage write fault (write #%d)", k)
	}
	return f.Backend.Write(ctx, p, d)
}

// ---------------------------------------------------------------- environment

type env struct {
	c     *vh.Ctx
	r     *vh.Rand
	root  string
	store *faultBackend
	buf   *ingest.ArrowBuffer
	app   *fiber.App
	seq   int
}

func newEnv(c *vh.Ctx, r *vh.Rand, maxBuf int) *env {
	e := &env{c: c, r: r}
	root, err := os.MkdirTemp("/var/tmp", "verif-c31-")
	if err != nil {
		panic(err)
	}
	e.root = root
	lg := zerolog.Nop()
	lb, err := storage.NewLocalBackend(filepath.Join(root, "data"), lg)
	if err != nil {
		panic(err)
	}
	e.store = &faultBackend{Backend: lb, failAt: -1}
	cfg := &config.IngestConfig{MaxBufferSize: maxBuf, MaxBufferAgeMS: 3600000, FlushWorkers: 2, FlushQueueSize: 16, ShardCount: 4}
	e.buf = ingest.NewArrowBuffer(cfg, e.store, lg)
	app := fiber.New(fiber.Config{DisableStartupMessage: true, BodyLimit: 64 << 20})
	ih := api.NewImportHandler(lg)
	ih.SetArrowBuffer(e.buf)
	ih.RegisterRoutes(app)
	e.app = app
	return e
}

func (e *env) close() {
	e.buf.Close()
	os.RemoveAll(e.root)
}

func (e *env) dataDir() string { return filepath.Join(e.root, "data") }

// upload posts one file to /api/v1/import/<format>; returns HTTP status and body.
func (e *env) upload(format, db, meas string, q url.Values, data []byte, dbInHeader bool) (int, string) {
	var body bytes.Buffer
	mw := multipart.NewWriter(&body)
	fw, _ := mw.CreateFormFile("file", "upload."+format)
	fw.Write(data)
	mw.Close()
	qq := url.Values{}
	for k, v := range q {
		qq[k] = v
	}
	qq.Set("measurement", meas)
	if !dbInHeader {
		qq.Set("db", db)
	}
	req := httptest.NewRequest(http.MethodPost, "/api/v1/import/"+format+"?"+qq.Encode(), &body)
	req.Header.Set("Content-Type", mw.FormDataContentType())
	if dbInHeader {
		req.Header.Set("x-arc-database", db)
	}
	resp, err := e.app.Test(req, -1)
	if err != nil {
		return 599, "test-error: " + err.Error()
	}
	b, _ := io.ReadAll(resp.Body)
	resp.Body.Close()
	return resp.StatusCode, string(b)
}

// ---------------------------------------------------------------- stored rows

type sval struct {
	null bool
	kind byte // i f b s
	i    int64
	f    uint64
	b    bool
	s    string
}

func (v sval) String() string {
	if v.null {
		return "~"
	}
	switch v.kind {
	case 'i':
		return "i" + strconv.FormatInt(v.i, 10)
	case 'f':
		return fmt.Sprintf("f%016x", v.f)
	case 'b':
		if v.b {
			return "b1"
		}
		return "b0"
	case 's':
		return "s" + vh.Hex([]byte(v.s))
	}
	return "?"
}

type srow struct {
	time int64
	vals map[string]sval
}

func (r srow) canon() string {
	parts := make([]string, 0, len(r.vals))
	for n, v := range r.vals {
		parts = append(parts, vh.Hex([]byte(n))+"="+v.String())
	}
	sort.Strings(parts)
	return strings.Join(append([]string{strconv.FormatInt(r.time, 10)}, parts...), ";")
}

func canonRows(rows []srow) string {
	if len(rows) == 0 {
		return "ok n=0 E"
	}
	ss := make([]string, len(rows))
	for i, r := range rows {
		ss[i] = r.canon()
	}
	sort.Strings(ss)
	return fmt.Sprintf("ok n=%d %s", len(rows), strings.Join(ss, "|"))
}

func decodeStored(data []byte) ([]srow, error) {
	pf, err := file.NewParquetReader(bytes.NewReader(data))
	if err != nil {
		return nil, err
	}
	defer pf.Close()
	rd, err := pqarrow.NewFileReader(pf, pqarrow.ArrowReadProperties{}, memory.DefaultAllocator)
	if err != nil {
		return nil, err
	}
	tbl, err := rd.ReadTable(context.Background())
	if err != nil {
		return nil, err
	}
	defer tbl.Release()
	n := int(tbl.NumRows())
	rows := make([]srow, n)
	for i := range rows {
		rows[i].vals = map[string]sval{}
	}
	hasTime := false
	for ci := 0; ci < int(tbl.NumCols()); ci++ {
		col := tbl.Column(ci)
		name := col.Name()
		idx := 0
		for _, ch := range col.Data().Chunks() {
			for i := 0; i < ch.Len(); i++ {
				var v sval
				if ch.IsNull(i) {
					v.null = true
				} else {
					switch a := ch.(type) {
					case *array.Int64:
						v.kind, v.i = 'i', a.Value(i)
					case *array.Timestamp:
						if tt, ok := a.DataType().(*arrow.TimestampType); !ok || tt.Unit != arrow.Microsecond {
							return nil, fmt.Errorf("stored timestamp column %q is not microseconds", name)
						}
						v.kind, v.i = 'i', int64(a.Value(i))
					case *array.Float64:
						v.kind, v.f = 'f', math.Float64bits(a.Value(i))
					case *array.String:
						v.kind, v.s = 's', a.Value(i)
					case *array.Boolean:
						v.kind, v.b = 'b', a.Value(i)
					default:
						return nil, fmt.Errorf("stored column %q has unexpected arrow type %s", name, ch.DataType())
					}
				}
				if name == "time" {
					if v.null {
						return nil, fmt.Errorf("stored null time")
					}
					rows[idx].time = v.i
					hasTime = true
				} else {
					rows[idx].vals[name] = v
				}
				idx++
			}
		}
	}
	if !hasTime && n > 0 {
		return nil, fmt.Errorf("stored file without time column")
	}
	return rows, nil
}

// readStored returns the rows stored under <db>/<meas>/, the number of files there, and every stored
// file path that is NOT under that prefix (wrong target).
func (e *env) readStored(db, meas string) (rows []srow, nfiles int, elsewhere []string, err error) {
	prefix := db + "/" + meas + "/"
	werr := filepath.WalkDir(e.dataDir(), func(p string, d os.DirEntry, werr error) error {
		if werr != nil || d.IsDir() {
			return nil
		}
		rel, _ := filepath.Rel(e.dataDir(), p)
		rel = filepath.ToSlash(rel)
		if !strings.HasPrefix(rel, prefix) {
			elsewhere = append(elsewhere, rel)
			return nil
		}
		if !strings.HasSuffix(rel, ".parquet") {
			elsewhere = append(elsewhere, rel)
			return nil
		}
		b, rerr := os.ReadFile(p)
		if rerr != nil {
			err = rerr
			return nil
		}
		rs, derr := decodeStored(b)
		if derr != nil {
			err = fmt.Errorf("%s: %w", rel, derr)
			return nil
		}
		// every row of a file must belong to the file's hour directory
		nfiles++
		rows = append(rows, rs...)
		return nil
	})
	if werr != nil && err == nil {
		err = werr
	}
	return
}

func (e *env) wipe() {
	ents, _ := os.ReadDir(e.dataDir())
	for _, en := range ents {
		os.RemoveAll(filepath.Join(e.dataDir(), en.Name()))
	}
}

// ---------------------------------------------------------------- shared helpers

func hx(s string) string { return vh.Hex([]byte(s)) }

func fmtLabel(f string) string {
	if f == "" {
		return "-"
	}
	return f
}

func pfOracle(s string) string {
	f, err := strconv.ParseFloat(s, 64)
	if err != nil {
		return "-"
	}
	return fmt.Sprintf("%016x", math.Float64bits(f))
}

var explicitFmt = map[string]bool{"epoch_s": true, "epoch_ms": true, "epoch_us": true, "epoch_ns": true}

// fbOracle: micros produced by the float / textual fallback of oneTimeValueToMicros for the trimmed
// cell (library code: strconv.ParseFloat, float arithmetic, time.Parse) — a PARAMETER of the model.
func fbOracle(cell, f string) string {
	s := strings.TrimSpace(cell)
	switch {
	case explicitFmt[f]:
		v, err := strconv.ParseFloat(s, 64)
		if err != nil || math.IsNaN(v) || math.IsInf(v, 0) {
			return "-"
		}
		return strconv.FormatInt(api.VerifC31EpochToMicros(v, f), 10)
	case f == "":
		if v, err := strconv.ParseFloat(s, 64); err == nil && !math.IsNaN(v) && !math.IsInf(v, 0) {
			return strconv.FormatInt(api.VerifC31AutoEpochToMicros(v), 10)
		}
		if m, _, err := api.VerifC31ParseTimestampString(s); err == nil {
			return strconv.FormatInt(m, 10)
		}
	}
	return "-"
}

func ocell(s, f string) string { return hx(s) + "~" + pfOracle(s) + "~" + fbOracle(s, f) }

func showTyped(v interface{}, valid []bool) string {
	var body string
	switch a := v.(type) {
	case []int64:
		ss := make([]string, len(a))
		for i, x := range a {
			ss[i] = strconv.FormatInt(x, 10)
		}
		body = "int " + strings.Join(ss, ",")
	case []float64:
		ss := make([]string, len(a))
		for i, x := range a {
			ss[i] = fmt.Sprintf("%016x", math.Float64bits(x))
		}
		body = "float " + strings.Join(ss, ",")
	case []bool:
		ss := make([]string, len(a))
		for i, x := range a {
			ss[i] = "0"
			if x {
				ss[i] = "1"
			}
		}
		body = "bool " + strings.Join(ss, ",")
	case []string:
		ss := make([]string, len(a))
		for i, x := range a {
			ss[i] = hx(x)
		}
		body = "str " + strings.Join(ss, ",")
	default:
		body = fmt.Sprintf("unknown %T", v)
	}
	vs := "-"
	if valid != nil {
		b := make([]byte, len(valid))
		for i, x := range valid {
			b[i] = '0'
			if x {
				b[i] = '1'
			}
		}
		vs = string(b)
	}
	return body + " v=" + vs
}

var unitMult = map[string]int64{"epoch_s": 1000000, "epoch_ms": 1000, "epoch_us": 1}
var arrowUnits = []struct {
	name string
	u    arrow.TimeUnit
}{{"Second", arrow.Second}, {"Millisecond", arrow.Millisecond}, {"Microsecond", arrow.Microsecond}, {"Nanosecond", arrow.Nanosecond}, {"Other", arrow.TimeUnit(9)}}

// ---------------------------------------------------------------- function-level grids

func intGrid(r *vh.Rand, n int) []int64 {
	g := []int64{0, 1, -1, 999, 1000, 1001, 1499, 1500, 1999, -999, -1000, -1001, -1500, -1999,
		math.MaxInt64, math.MinInt64, math.MaxInt64 - 1, math.MinInt64 + 1,
		1 << 53, 1<<53 + 1, 1<<53 - 1, -(1 << 53), -(1<<53 + 1), 1<<53 + 2, 1<<53 + 3, 1<<62 + 1, 1<<62 + 255, 1<<62 + 256, 1<<62 + 257,
		9223372036854, 9223372036855, -9223372036854, -9223372036855, 9223372036854775, 9223372036854776, -9223372036854775, -9223372036854776,
		1609459200, 1609459200000, 1609459200000000, 1609459200000000000}
	for _, t := range []int64{1e10, 1e13, 1e16} {
		for d := int64(-2); d <= 2; d++ {
			g = append(g, t+d, -(t + d))
		}
	}
	for i := 0; i < n; i++ {
		bits := uint(r.Range(1, 63))
		v := int64(r.U64() >> (64 - bits))
		if r.Bool() {
			v = -v
		}
		g = append(g, v)
		if r.Chance(10) {
			g = append(g, int64(r.U64()))
		}
	}
	return g
}

func (e *env) fnTime(n int) {
	c := e.c
	for _, v := range intGrid(e.r, n) {
		for _, f := range []string{"epoch_s", "epoch_ms", "epoch_us", "epoch_ns", "", "bogus"} {
			got := api.VerifC31IntTimeToMicros(v, f)
			c.Op(fmt.Sprintf("i2m %s %d", fmtLabel(f), v), strconv.FormatInt(got, 10))
			c.Case(fmt.Sprintf("i2m %s %d", f, v), true)
			// function-level exactness (the import-level monitors flag the property violation)
			if m, ok := unitMult[f]; ok {
				ex := new(big.Int).Mul(big.NewInt(v), big.NewInt(m))
				if ex.IsInt64() {
					if ex.Int64() != got {
						c.Fail("time-converted-wrong:"+f, fmt.Sprintf("intTimeToMicros(%d,%q)=%d, exact %s", v, f, got, ex), fmt.Sprintf("i2m %s %d", f, v))
					}
					c.Tag("i2m:exact")
				} else {
					c.Tag("i2m:overflow-wrapped:" + f)
				}
			}
		}
		c.Op(fmt.Sprintf("auto %d", v), strconv.FormatInt(api.VerifC31AutoIntEpochToMicros(v), 10))
		for _, u := range arrowUnits {
			c.Op(fmt.Sprintf("arrow %s %d", u.name, v), strconv.FormatInt(api.VerifC31ArrowTimestampToMicros(v, u.u), 10))
		}
		c.Op(fmt.Sprintf("i2f %d", v), fmt.Sprintf("%016x", math.Float64bits(float64(v))))
	}
}

var cellPool = []string{"", "0", "1", "-1", "+5", "007", "-0", "+0", "00", "42", "-42", "1.5", "-2.25", "1e3", "1E3", "1e-3", ".5", "5.", "0x10", "0x1p-2",
	"1_000", "inf", "-Inf", "Infinity", "nan", "NaN", "true", "TRUE", "True", "tRuE", "false", "FALSE", "falſe", "FALſE", "t", "f", "yes", "no", "T", "y",
	" 5", "5 ", " ", "\t7", "abc", "a,b", "a\"b", "line\nbreak", "9223372036854775807", "9223372036854775808", "-9223372036854775808", "-9223372036854775809",
	"9007199254740993", "9007199254740992", "18446744073709551615", "123456789012345678901234567890", "0.1", "0.30000000000000004", "1e400", "1e-400", "-1e400",
	"٣", "１", "1 ", "K", "+", "-", ".", "e", "1e", "--1", "+-1", "1.2.3", "0b1", "0o7", "1,5", "$5", "5%", "été", "\U0001F600", "NULL", "null", "N/A", "-", "0.0", "-0.0", "1.0", "10", "100000000000000000000"}

func (e *env) randCell() string {
	r := e.r
	switch r.Intn(10) {
	case 0, 1, 2:
		return vh.Pick(r, cellPool)
	case 3:
		return strconv.FormatInt(int64(r.Intn(2001))-1000, 10)
	case 4:
		return strconv.FormatInt(int64(r.U64()), 10)
	case 5:
		return strconv.FormatFloat(float64(r.Intn(200000)-100000)/float64([]int{1, 10, 100, 1000, 8}[r.Intn(5)]), 'f', -1, 64)
	case 6:
		return vh.Pick(r, []string{"true", "false", "1", "0", "TRUE", "False"})
	case 7:
		// digit soup
		n := r.Range(1, 24)
		b := make([]byte, n)
		for i := range b {
			b[i] = "0123456789+-._eE x"[r.Intn(18)]
		}
		return string(b)
	case 8:
		return ""
	default:
		n := r.Range(1, 6)
		b := make([]rune, n)
		for i := range b {
			rs := []rune("abcXYZ09 _-é\u017fK\u212a")
			b[i] = rs[r.Intn(len(rs))]
		}
		return string(b)
	}
}

func (e *env) inferOp(raw []string) {
	v, valid := api.VerifC31InferAndConvertColumn(raw)
	arg := "E"
	if len(raw) > 0 {
		ss := make([]string, len(raw))
		for i, s := range raw {
			ss[i] = ocell(s, "")
		}
		arg = strings.Join(ss, ",")
	}
	out := showTyped(v, valid)
	e.c.Op("infer "+arg, out)
	e.c.Case("infer "+arg, len(raw) > 1)
	e.c.Tag("infer:" + strings.SplitN(out, " ", 2)[0])
}

func (e *env) fnInfer(n int) {
	c := e.c
	for _, s := range cellPool {
		if !utf8.ValidString(s) {
			continue
		}
		if v, err := strconv.ParseInt(s, 10, 64); err == nil {
			c.Op("pint "+hx(s), strconv.FormatInt(v, 10))
		} else {
			c.Op("pint "+hx(s), "err")
		}
		lit, val := "0", "0"
		if api.VerifC31IsBoolLiteral(s) {
			lit = "1"
		}
		if strings.EqualFold(s, "true") || s == "1" {
			val = "1"
		}
		c.Op("blit "+hx(s), lit+val)
		c.Op("trim "+hx(s), hx(strings.TrimSpace(s)))
		e.inferOp([]string{s})
		e.inferOp([]string{s, ""})
		e.inferOp([]string{"", s})
		e.inferOp([]string{"1", s})
		e.inferOp([]string{"9007199254740993", s})
		e.inferOp([]string{"1.5", s})
		e.inferOp([]string{"true", s})
		e.inferOp([]string{s, "1", "2.5"})
	}
	for _, s := range []string{" \t\n\v\f\r x \u0085 ", "   x    \u3000", "\u200bx\u200b", "\ufeffx", "x", "", "   ", "\u180ex"} {
		c.Op("trim "+hx(s), hx(strings.TrimSpace(s)))
	}
	e.inferOp(nil)
	e.inferOp([]string{"", "", ""})
	e.inferOp([]string{"1", "2", "3"})
	e.inferOp([]string{"1", "", "3"})
	e.inferOp([]string{"1", "0", "1"})
	e.inferOp([]string{"1", "0", "true"})
	e.inferOp([]string{"1", "2", "x", "", "3"})
	e.inferOp([]string{"", "x", ""})
	e.inferOp([]string{"9007199254740993", "9007199254740992", "0.5"})
	e.inferOp([]string{"0.5", "9007199254740993"})
	e.inferOp([]string{"", "9223372036854775807", "", "1e0"})
	for i := 0; i < n; i++ {
		k := e.r.Range(1, 7)
		raw := make([]string, k)
		for j := range raw {
			raw[j] = e.randCell()
		}
		// bias towards homogeneous columns
		if e.r.Chance(50) {
			kind := e.r.Intn(4)
			for j := range raw {
				switch kind {
				case 0:
					raw[j] = vh.Pick(e.r, []string{"1", "-7", "+3", "007", "", "9007199254740993", "9223372036854775807", strconv.FormatInt(int64(e.r.U64()), 10)})
				case 1:
					raw[j] = vh.Pick(e.r, []string{"1.5", "2", "", "1e3", "9007199254740993", "-0.0", "nan", "0x1p3", "18446744073709551615"})
				case 2:
					raw[j] = vh.Pick(e.r, []string{"true", "FALSE", "1", "0", "", "falſe", "True"})
				default:
					raw[j] = vh.Pick(e.r, []string{"a", "", " 1", "1 ", "x1", "1x"})
				}
			}
			if e.r.Chance(20) {
				raw[e.r.Intn(k)] = e.randCell()
			}
		}
		e.inferOp(raw)
		s := raw[0]
		if v, err := strconv.ParseInt(s, 10, 64); err == nil {
			c.Op("pint "+hx(s), strconv.FormatInt(v, 10))
		} else {
			c.Op("pint "+hx(s), "err")
		}
	}
	// ParseFloat on integer literals == exact round-to-nearest-even (model assumption `roundNat53`)
	digs := []string{"0", "1", "9007199254740992", "9007199254740993", "9007199254740994", "9007199254740995", "18446744073709551615", "18446744073709551616",
		"9223372036854775807", "9223372036854775808", "9223372036854775809", "9223372036854776832", "9223372036854776833", "00012", "1" + strings.Repeat("0", 308),
		"17976931348623157" + strings.Repeat("0", 292), "17976931348623158" + strings.Repeat("9", 292), "17976931348623159" + strings.Repeat("0", 292), "2" + strings.Repeat("0", 308), strings.Repeat("9", 400)}
	for i := 0; i < n/2; i++ {
		k := e.r.Range(1, 45)
		b := make([]byte, k)
		for j := range b {
			b[j] = byte('0' + e.r.Intn(10))
		}
		digs = append(digs, string(b))
		// halfway neighbourhoods above 2^53
		sh := uint(e.r.Range(1, 10))
		base := new(big.Int).Lsh(big.NewInt(int64(1<<52+e.r.Intn(1<<20))), sh+1)
		half := new(big.Int).Lsh(big.NewInt(1), sh-1)
		base.Add(base, half)
		base.Add(base, big.NewInt(int64(e.r.Intn(3)-1)))
		digs = append(digs, base.String())
	}
	for _, d := range digs {
		out := "err"
		if f, err := strconv.ParseFloat(d, 64); err == nil {
			out = fmt.Sprintf("%016x", math.Float64bits(f))
		}
		c.Op("pfint "+hx(d), out)
	}
}

var timeCellPool = []string{"", " ", "0", "1", "-1", "1609459200", " 1609459200 ", "1609459200.5", "1609459200.123", "1609459200123", "1609459200123456", "1609459200123456789",
	"9999999999", "10000000000", "-9999999999", "-10000000000", "9999999999999", "10000000000000", "9999999999999999", "10000000000000000", "9223372036854775807", "-9223372036854775808",
	"9223372036854775808", "9223372036855", "1e9", "1.6e9", "1e18", "1e300", "nan", "inf", "+5", "007", "2021-01-01T00:00:00Z", "2021-01-01T00:00:00.123456789+02:00", "2021-01-01 00:00:00",
	"2021-01-01 00:00:00.5", "2021-01-01T00:00:00", "2021-01-01", "1969-12-31 23:59:59.999999", "0001-01-01", "9999-12-31T23:59:59Z", "2021-13-01", "01/02/2021", "yesterday", "12:00", "1_000", "0x10", " 1609459200 ", "1609459200\u200b"}

func (e *env) tcolOp(raw []string, f string) {
	arg := "E"
	if len(raw) > 0 {
		ss := make([]string, len(raw))
		for i, s := range raw {
			ss[i] = ocell(s, f)
		}
		arg = strings.Join(ss, ",")
	}
	out := "err"
	if ts, err := api.VerifC31StringsToTimeMicros(raw, f); err == nil {
		ss := make([]string, len(ts))
		for i, t := range ts {
			ss[i] = strconv.FormatInt(t, 10)
		}
		out = "ok " + strings.Join(ss, ",")
	}
	op := "tcol " + fmtLabel(f) + " " + arg
	e.c.Op(op, out)
	e.c.Case(op, true)
	e.c.Tag("tcol:" + out[:2])
}

func (e *env) fnTimeCol(n int) {
	fmts := []string{"", "epoch_s", "epoch_ms", "epoch_us", "epoch_ns", "rfc3339", "EPOCH_S"}
	for _, s := range timeCellPool {
		for _, f := range fmts {
			e.tcolOp([]string{s}, f)
		}
		e.tcolOp([]string{"1609459200", s}, "")
		e.tcolOp([]string{"2021-01-01", s, "2021-01-02 00:00:00"}, "")
	}
	e.tcolOp(nil, "")
	for i := 0; i < n; i++ {
		k := e.r.Range(1, 5)
		raw := make([]string, k)
		for j := range raw {
			switch e.r.Intn(6) {
			case 0:
				raw[j] = vh.Pick(e.r, timeCellPool)
			case 1:
				raw[j] = strconv.FormatInt(intGrid(e.r, 1)[e.r.Intn(60)], 10)
			case 2:
				raw[j] = e.randCell()
			default:
				raw[j] = strconv.FormatInt(1500000000+int64(e.r.Intn(400000000)), 10)
			}
		}
		e.tcolOp(raw, vh.Pick(e.r, fmts))
	}
	// header validation
	names := []string{"time", "ts", "a", "b", "", "_x", "Time", "a"}
	for i := 0; i < 40+n/4; i++ {
		k := e.r.Range(1, 5)
		h := make([]string, k)
		for j := range h {
			h[j] = vh.Pick(e.r, names)
		}
		tc := vh.Pick(e.r, []string{"time", "ts", "a", "zz", ""})
		out := "rej"
		if idx, ok := api.VerifC31ValidateImportHeader(h, tc); ok {
			out = strconv.Itoa(idx)
		}
		hs := make([]string, k)
		for j := range h {
			hs[j] = hx(h[j])
		}
		e.c.Op("hdr "+hx(tc)+" "+strings.Join(hs, ","), out)
	}
}

func main() {
	c := vh.Start()
	r := vh.NewRand(c.Seed)
	if v, ok := c.Facts["bom_stripped_before_tokenising"].(bool); ok {
		bomFirst = v
	}
	e := newEnv(c, r, 1000000)
	defer e.close()
	scale := 1
	if c.Thorough() {
		scale = 12
	}
	if c.N > 0 {
		scale = c.N
	}
	t0 := time.Now()
	e.fnTime(400 * scale)
	e.fnInfer(600 * scale)
	e.fnTimeCol(300 * scale)
	e.csvCorpus()
	for i := 0; i < 450*scale; i++ {
		e.csvCase()
	}
	e.pqCorpus()
	for i := 0; i < 220*scale; i++ {
		e.pqCase()
	}
	e.faultCases(25 * scale)
	e.asyncCases(c, r, 12*scale)
	// appended last so that the random stream of everything above is unchanged
	e.pqFaultCases(10 * scale)
	sizes := []int{1025, 1500, 3000, 5000}
	e.bigCSVCases(sizes)
	e.bigPQCases([]int{1025, 3000})
	if c.Thorough() {
		for i := 0; i < 3; i++ {
			e.bigCSVCases([]int{1025 + e.r.Intn(200), 2000 + e.r.Intn(3000), 8000})
		}
		e.bigPQCases([]int{1500, 5000})
	}
	c.Extra["harness_seconds"] = int(time.Since(t0).Seconds())
	c.Finish("non-trivial = multi-cell column / any time-column conversion / any end-to-end import (CSV: option or quoting or inference edge; Parquet: every column kind)")
}
