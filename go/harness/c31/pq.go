//go:build verif

package main

import (
	"bytes"
	"context"
	"encoding/hex"
	"fmt"
	"math"
	"math/big"
	"net/url"
	"strconv"
	"strings"
	"time"
	"unicode/utf8"

	"github.com/apache/arrow-go/v18/arrow"
	"github.com/apache/arrow-go/v18/arrow/array"
	"github.com/apache/arrow-go/v18/arrow/decimal128"
	"github.com/apache/arrow-go/v18/arrow/memory"
	"github.com/apache/arrow-go/v18/parquet"
	"github.com/apache/arrow-go/v18/parquet/file"
	"github.com/apache/arrow-go/v18/parquet/pqarrow"
	"github.com/basekick-labs/arc/internal/api"
	"github.com/basekick-labs/arc/internal/verif/vh"
)

func floorDiv(a, b int64) int64 {
	q := a / b
	if (a%b != 0) && ((a < 0) != (b < 0)) {
		q--
	}
	return q
}

// ground-truth cell of a generated Parquet column
type gcell struct {
	null bool
	i    *big.Int // integer kinds, timestamps (raw unit value), decimal unscaled
	f    float64  // f32 (already widened exactly) / f64
	s    string   // str/bin/fsb
	b    bool
}

type gcol struct {
	name  string
	kind  string // i8 … u64 f32 f64 str bin fsb bool dec ts:<unit> date32 lstr time32
	scale int32
	cells []gcell
}

type pqCase struct {
	db, meas string
	tcOpt    *string
	tfmt     *string
	cols     []gcol
	timeIdx  int
	ridIdx   int
	unit     string
	timeT    []int64
	timeAlt  []int64
	timeOK   []bool
	timeOvf  []bool
	timeChk  bool // the generator knows the intended micros
	store    bool // WithStoreSchema
	note     string
	failAt   int  // storage outage during the first attempt: fail Write #failAt (-1 = none); the upload is then retried
	big      bool // size class > 1024 rows: monitors only
	nrows    int  // 0 = random small
}

func (p *pqCase) tcEff() string {
	if p.tcOpt != nil && *p.tcOpt != "" {
		return *p.tcOpt
	}
	return "time"
}
func (p *pqCase) fmtEff() string {
	if p.tfmt != nil {
		return *p.tfmt
	}
	return ""
}
func (p *pqCase) query() url.Values {
	q := url.Values{}
	if p.tcOpt != nil {
		q.Set("time_column", *p.tcOpt)
	}
	if p.tfmt != nil {
		q.Set("time_format", *p.tfmt)
	}
	return q
}
func (p *pqCase) replay(data []byte, status int) string {
	return fmt.Sprintf("POST /api/v1/import/parquet?%s&measurement=%s db=%s file(hex)=%s -> HTTP %d (%s)", p.query().Encode(), p.meas, p.db, hex.EncodeToString(data), status, p.note)
}

func tsUnit(name string) arrow.TimeUnit {
	switch name {
	case "s":
		return arrow.Second
	case "ms":
		return arrow.Millisecond
	case "us":
		return arrow.Microsecond
	}
	return arrow.Nanosecond
}

func buildColumn(g gcol) (arrow.Field, arrow.Array) {
	mem := memory.DefaultAllocator
	f := arrow.Field{Name: g.name, Nullable: true}
	var arr arrow.Array
	switch {
	case g.kind == "i8":
		b := array.NewInt8Builder(mem)
		for _, c := range g.cells {
			if c.null {
				b.AppendNull()
			} else {
				b.Append(int8(c.i.Int64()))
			}
		}
		f.Type, arr = arrow.PrimitiveTypes.Int8, b.NewArray()
	case g.kind == "i16":
		b := array.NewInt16Builder(mem)
		for _, c := range g.cells {
			if c.null {
				b.AppendNull()
			} else {
				b.Append(int16(c.i.Int64()))
			}
		}
		f.Type, arr = arrow.PrimitiveTypes.Int16, b.NewArray()
	case g.kind == "i32":
		b := array.NewInt32Builder(mem)
		for _, c := range g.cells {
			if c.null {
				b.AppendNull()
			} else {
				b.Append(int32(c.i.Int64()))
			}
		}
		f.Type, arr = arrow.PrimitiveTypes.Int32, b.NewArray()
	case g.kind == "i64":
		b := array.NewInt64Builder(mem)
		for _, c := range g.cells {
			if c.null {
				b.AppendNull()
			} else {
				b.Append(c.i.Int64())
			}
		}
		f.Type, arr = arrow.PrimitiveTypes.Int64, b.NewArray()
	case g.kind == "u8":
		b := array.NewUint8Builder(mem)
		for _, c := range g.cells {
			if c.null {
				b.AppendNull()
			} else {
				b.Append(uint8(c.i.Uint64()))
			}
		}
		f.Type, arr = arrow.PrimitiveTypes.Uint8, b.NewArray()
	case g.kind == "u16":
		b := array.NewUint16Builder(mem)
		for _, c := range g.cells {
			if c.null {
				b.AppendNull()
			} else {
				b.Append(uint16(c.i.Uint64()))
			}
		}
		f.Type, arr = arrow.PrimitiveTypes.Uint16, b.NewArray()
	case g.kind == "u32":
		b := array.NewUint32Builder(mem)
		for _, c := range g.cells {
			if c.null {
				b.AppendNull()
			} else {
				b.Append(uint32(c.i.Uint64()))
			}
		}
		f.Type, arr = arrow.PrimitiveTypes.Uint32, b.NewArray()
	case g.kind == "u64":
		b := array.NewUint64Builder(mem)
		for _, c := range g.cells {
			if c.null {
				b.AppendNull()
			} else {
				b.Append(c.i.Uint64())
			}
		}
		f.Type, arr = arrow.PrimitiveTypes.Uint64, b.NewArray()
	case g.kind == "f32":
		b := array.NewFloat32Builder(mem)
		for _, c := range g.cells {
			if c.null {
				b.AppendNull()
			} else {
				b.Append(float32(c.f))
			}
		}
		f.Type, arr = arrow.PrimitiveTypes.Float32, b.NewArray()
	case g.kind == "f64":
		b := array.NewFloat64Builder(mem)
		for _, c := range g.cells {
			if c.null {
				b.AppendNull()
			} else {
				b.Append(c.f)
			}
		}
		f.Type, arr = arrow.PrimitiveTypes.Float64, b.NewArray()
	case g.kind == "str":
		b := array.NewStringBuilder(mem)
		for _, c := range g.cells {
			if c.null {
				b.AppendNull()
			} else {
				b.Append(c.s)
			}
		}
		f.Type, arr = arrow.BinaryTypes.String, b.NewArray()
	case g.kind == "lstr":
		b := array.NewLargeStringBuilder(mem)
		for _, c := range g.cells {
			if c.null {
				b.AppendNull()
			} else {
				b.Append(c.s)
			}
		}
		f.Type, arr = arrow.BinaryTypes.LargeString, b.NewArray()
	case g.kind == "bin":
		b := array.NewBinaryBuilder(mem, arrow.BinaryTypes.Binary)
		for _, c := range g.cells {
			if c.null {
				b.AppendNull()
			} else {
				b.Append([]byte(c.s))
			}
		}
		f.Type, arr = arrow.BinaryTypes.Binary, b.NewArray()
	case g.kind == "fsb":
		dt := &arrow.FixedSizeBinaryType{ByteWidth: 4}
		b := array.NewFixedSizeBinaryBuilder(mem, dt)
		for _, c := range g.cells {
			if c.null {
				b.AppendNull()
			} else {
				b.Append([]byte(c.s))
			}
		}
		f.Type, arr = dt, b.NewArray()
	case g.kind == "bool":
		b := array.NewBooleanBuilder(mem)
		for _, c := range g.cells {
			if c.null {
				b.AppendNull()
			} else {
				b.Append(c.b)
			}
		}
		f.Type, arr = arrow.FixedWidthTypes.Boolean, b.NewArray()
	case g.kind == "dec":
		dt := &arrow.Decimal128Type{Precision: 38, Scale: g.scale}
		b := array.NewDecimal128Builder(mem, dt)
		for _, c := range g.cells {
			if c.null {
				b.AppendNull()
			} else {
				b.Append(decimal128.FromBigInt(c.i))
			}
		}
		f.Type, arr = dt, b.NewArray()
	case strings.HasPrefix(g.kind, "ts:"):
		dt := &arrow.TimestampType{Unit: tsUnit(g.kind[3:])}
		if g.scale == 1 {
			dt.TimeZone = "UTC"
		}
		b := array.NewTimestampBuilder(mem, dt)
		for _, c := range g.cells {
			if c.null {
				b.AppendNull()
			} else {
				b.Append(arrow.Timestamp(c.i.Int64()))
			}
		}
		f.Type, arr = dt, b.NewArray()
	case g.kind == "date32":
		b := array.NewDate32Builder(mem)
		for _, c := range g.cells {
			if c.null {
				b.AppendNull()
			} else {
				b.Append(arrow.Date32(c.i.Int64()))
			}
		}
		f.Type, arr = arrow.FixedWidthTypes.Date32, b.NewArray()
	case g.kind == "time32":
		dt := &arrow.Time32Type{Unit: arrow.Millisecond}
		b := array.NewTime32Builder(mem, dt)
		for _, c := range g.cells {
			if c.null {
				b.AppendNull()
			} else {
				b.Append(arrow.Time32(c.i.Int64()))
			}
		}
		f.Type, arr = dt, b.NewArray()
	default:
		panic("unknown kind " + g.kind)
	}
	return f, arr
}

func (p *pqCase) fileBytes() ([]byte, error) {
	var fields []arrow.Field
	var arrs []arrow.Array
	n := 0
	for _, g := range p.cols {
		f, a := buildColumn(g)
		fields = append(fields, f)
		arrs = append(arrs, a)
		n = len(g.cells)
	}
	defer func() {
		for _, a := range arrs {
			a.Release()
		}
	}()
	schema := arrow.NewSchema(fields, nil)
	rec := array.NewRecord(schema, arrs, int64(n))
	defer rec.Release()
	tbl := array.NewTableFromRecords(schema, []arrow.Record{rec})
	defer tbl.Release()
	var buf bytes.Buffer
	opts := []pqarrow.WriterOption{}
	if p.store {
		opts = append(opts, pqarrow.WithStoreSchema())
	}
	chunk := int64(n)
	if chunk > 3 && p.store {
		chunk = 3 // several row groups -> chunked columns
	}
	if chunk < 1 {
		chunk = 1
	}
	err := pqarrow.WriteTable(tbl, &buf, chunk, parquet.NewWriterProperties(), pqarrow.NewArrowWriterProperties(opts...))
	return buf.Bytes(), err
}

// decodedView: what the importer's arrow-go read yields (the model's parameter), as the op argument.
func decodedView(data []byte, timeCol, tfmt string) (string, bool) {
	pf, err := file.NewParquetReader(bytes.NewReader(data))
	if err != nil {
		return "", false
	}
	defer pf.Close()
	rd, err := pqarrow.NewFileReader(pf, pqarrow.ArrowReadProperties{}, nil)
	if err != nil {
		return "", false
	}
	tbl, err := rd.ReadTable(context.Background())
	if err != nil {
		return "", false
	}
	defer tbl.Release()
	var cols []string
	for ci := 0; ci < int(tbl.NumCols()); ci++ {
		col := tbl.Column(ci)
		name := col.Name()
		if !utf8.ValidString(name) || strings.ContainsAny(name, ",;/ ") {
			return "", false
		}
		isTime := name == timeCol
		kind := ""
		var cells []string
		for _, ch := range col.Data().Chunks() {
			k := "other"
			for i := 0; i < ch.Len(); i++ {
				cell := "~"
				null := ch.IsNull(i)
				switch a := ch.(type) {
				case *array.Int8:
					k = "i8"
					if !null {
						cell = "i" + strconv.FormatInt(int64(a.Value(i)), 10)
					}
				case *array.Int16:
					k = "i16"
					if !null {
						cell = "i" + strconv.FormatInt(int64(a.Value(i)), 10)
					}
				case *array.Int32:
					k = "i32"
					if !null {
						cell = "i" + strconv.FormatInt(int64(a.Value(i)), 10)
					}
				case *array.Int64:
					k = "i64"
					if !null {
						cell = "i" + strconv.FormatInt(a.Value(i), 10)
					}
				case *array.Uint8:
					k = "u8"
					if !null {
						cell = "i" + strconv.FormatUint(uint64(a.Value(i)), 10)
					}
				case *array.Uint16:
					k = "u16"
					if !null {
						cell = "i" + strconv.FormatUint(uint64(a.Value(i)), 10)
					}
				case *array.Uint32:
					k = "u32"
					if !null {
						cell = "i" + strconv.FormatUint(uint64(a.Value(i)), 10)
					}
				case *array.Uint64:
					k = "u64"
					if !null {
						cell = "i" + strconv.FormatUint(a.Value(i), 10)
					}
				case *array.Float32:
					k = "f32"
					if !null {
						v := float64(a.Value(i))
						cell = fmt.Sprintf("f%016x", math.Float64bits(v))
						if isTime && !math.IsNaN(v) && !math.IsInf(v, 0) {
							cell += "@" + strconv.FormatInt(api.VerifC31FloatTimeToMicros(v, tfmt), 10)
						}
					}
				case *array.Float64:
					k = "f64"
					if !null {
						v := a.Value(i)
						cell = fmt.Sprintf("f%016x", math.Float64bits(v))
						if isTime && !math.IsNaN(v) && !math.IsInf(v, 0) {
							cell += "@" + strconv.FormatInt(api.VerifC31FloatTimeToMicros(v, tfmt), 10)
						}
					}
				case *array.String:
					k = "str"
					if !null {
						s := a.Value(i)
						if !utf8.ValidString(s) {
							return "", false
						}
						cell = "s" + hx(s)
						if o := fbOracle(s, tfmt); isTime && o != "-" {
							cell += "@" + o
						}
					}
				case *array.Binary:
					k = "bin"
					if !null {
						s := string(a.Value(i))
						if !utf8.ValidString(s) {
							return "", false
						}
						cell = "s" + hx(s)
						if o := fbOracle(s, tfmt); isTime && o != "-" {
							cell += "@" + o
						}
					}
				case *array.FixedSizeBinary:
					k = "fsb"
					if !null {
						s := string(a.Value(i))
						if !utf8.ValidString(s) {
							return "", false
						}
						cell = "s" + hx(s)
						if o := fbOracle(s, tfmt); isTime && o != "-" {
							cell += "@" + o
						}
					}
				case *array.Boolean:
					k = "bool"
					if !null {
						cell = "b0"
						if a.Value(i) {
							cell = "b1"
						}
					}
				case *array.Decimal128:
					k = "dec"
					if !null {
						sc := a.DataType().(*arrow.Decimal128Type).Scale
						cell = fmt.Sprintf("f%016x", math.Float64bits(a.Value(i).ToFloat64(sc)))
					}
				case *array.Timestamp:
					u := a.DataType().(*arrow.TimestampType).Unit
					k = "ts:" + map[arrow.TimeUnit]string{arrow.Second: "Second", arrow.Millisecond: "Millisecond", arrow.Microsecond: "Microsecond", arrow.Nanosecond: "Nanosecond"}[u]
					if !null {
						cell = "i" + strconv.FormatInt(int64(a.Value(i)), 10)
					}
				}
				cells = append(cells, cell)
			}
			if ch.Len() > 0 || kind == "" {
				if kind != "" && kind != k {
					return "", false
				}
				kind = k
			}
		}
		if kind == "" {
			kind = "other"
		}
		cs := "E"
		if len(cells) > 0 {
			cs = strings.Join(cells, "/")
		}
		cols = append(cols, hx(name)+","+kind+","+cs)
	}
	if len(cols) == 0 {
		return "E", true
	}
	return strings.Join(cols, ";"), true
}

var valueKinds = []string{"i8", "i16", "i32", "i64", "u8", "u16", "u32", "u64", "f32", "f64", "str", "bin", "fsb", "bool", "dec", "ts:s", "ts:ms", "ts:us", "ts:ns", "i64", "f64", "str", "u64"}
var unsupportedKinds = []string{"date32", "lstr", "time32"}

func (e *env) genPQValues(kind string, n int) gcol {
	r := e.r
	g := gcol{kind: kind}
	if kind == "dec" {
		g.scale = int32(vh.Pick(r, []int{0, 2, 4, 10}))
	}
	if strings.HasPrefix(kind, "ts:") && r.Bool() {
		g.scale = 1
	}
	nullable := r.Chance(45)
	for i := 0; i < n; i++ {
		var c gcell
		if nullable && r.Chance(25) {
			c.null = true
			g.cells = append(g.cells, c)
			continue
		}
		edge := r.Chance(20)
		switch kind {
		case "i8":
			c.i = big.NewInt(int64(int8(r.U64())))
		case "i16":
			c.i = big.NewInt(int64(int16(r.U64())))
		case "i32":
			c.i = big.NewInt(int64(int32(r.U64())))
		case "i64":
			c.i = big.NewInt(int64(r.Intn(2000001) - 1000000))
			if edge {
				c.i = big.NewInt(vh.Pick(r, []int64{math.MaxInt64, math.MinInt64, 1<<53 + 1, int64(r.U64())}))
			}
		case "u8":
			c.i = big.NewInt(int64(uint8(r.U64())))
		case "u16":
			c.i = big.NewInt(int64(uint16(r.U64())))
		case "u32":
			c.i = big.NewInt(int64(uint32(r.U64())))
		case "u64":
			c.i = new(big.Int).SetUint64(uint64(r.Intn(1000000)))
			if edge {
				c.i = new(big.Int).SetUint64(vh.Pick(r, []uint64{math.MaxUint64, 1 << 63, 1<<63 - 1, r.U64()}))
			}
		case "f32":
			c.f = float64(float32(float64(r.Intn(200001)-100000) / 8))
			if edge {
				c.f = float64(vh.Pick(r, []float32{float32(math.Inf(1)), math.MaxFloat32, math.SmallestNonzeroFloat32, 0.1, -0.0}))
			}
		case "f64":
			c.f = float64(r.Intn(2000001)-1000000) / 16
			if edge {
				c.f = vh.Pick(r, []float64{math.Inf(-1), math.MaxFloat64, 5e-324, 0.1, math.Copysign(0, -1), float64(1<<53 + 2)})
			}
		case "str", "lstr":
			c.s = vh.Pick(r, wordPool)
			if edge {
				c.s = vh.Pick(r, []string{"", "a\r\nb", "007", "true", "\x00nul"})
			}
		case "bin":
			c.s = vh.Pick(r, []string{"bytes", "", "x\ty", "12", "été"})
		case "fsb":
			c.s = vh.Pick(r, []string{"abcd", "1234", "    ", "a\nb!"})
		case "bool":
			c.b = r.Bool()
		case "dec":
			c.i = big.NewInt(int64(r.Intn(2000001) - 1000000))
			if edge {
				z, _ := new(big.Int).SetString(vh.Pick(r, []string{"12345678901234567890123", "-99999999999999999999999999999999999999", "9007199254740993", "100000000000000000001"}), 10)
				c.i = z
			}
		case "ts:s":
			c.i = big.NewInt(1_000_000_000 + int64(r.Intn(1_000_000_000)))
		case "ts:ms":
			c.i = big.NewInt(1_000_000_000_000 + int64(r.Intn(1_000_000_000))*997)
		case "ts:us":
			c.i = big.NewInt(1_000_000_000_000_000 + int64(r.U64()%1_000_000_000_000_000))
		case "ts:ns":
			c.i = big.NewInt(1_000_000_000_000_000_000 + int64(r.U64()%1_000_000_000_000_000_000))
			if edge {
				c.i = big.NewInt(-int64(r.U64() % 1_000_000_000_000))
			}
		case "date32":
			c.i = big.NewInt(int64(18000 + r.Intn(2000)))
		case "time32":
			c.i = big.NewInt(int64(r.Intn(86400000)))
		}
		g.cells = append(g.cells, c)
	}
	return g
}

var pqTimeKinds = []string{"ts:ms", "ts:us", "ts:ns", "ts:s", "i64", "i64", "i64", "i32", "u64", "u32", "f64", "f32", "str", "str", "bin", "i16", "i8", "u8", "u16", "bool", "date32"}

// genPQTime: the time column in a (kind, format) combination with known intended micros.
func (e *env) genPQTime(p *pqCase, n int) gcol {
	r := e.r
	kind := vh.Pick(r, pqTimeKinds)
	g := gcol{kind: kind}
	p.timeT = make([]int64, n)
	p.timeAlt = make([]int64, n)
	p.timeOK = make([]bool, n)
	p.timeOvf = make([]bool, n)
	p.timeChk = true
	base := int64(1_000_000_000+r.Intn(3_000_000_000)) * 1_000_000
	step := []int64{0, 1, 1000, 1_000_000, 3_600_000_000}[r.Intn(5)]
	fmts := []string{"epoch_s", "epoch_ms", "epoch_us", "epoch_ns", ""}
	f := vh.Pick(r, fmts)
	unitOf := func() (string, int64) { // (label, micros per unit; 0 = ns)
		switch f {
		case "epoch_s":
			return "epoch_s", 1_000_000
		case "epoch_ms":
			return "epoch_ms", 1000
		case "epoch_us":
			return "epoch_us", 1
		case "epoch_ns":
			return "epoch_ns", 0
		}
		u := vh.Pick(r, []string{"auto-s", "auto-ms", "auto-us", "auto-ns"})
		return u, map[string]int64{"auto-s": 1_000_000, "auto-ms": 1000, "auto-us": 1, "auto-ns": 0}[u]
	}
	label, mult := "", int64(1)
	switch {
	case strings.HasPrefix(kind, "ts:"):
		label = "arrow_" + kind[3:]
		mult = map[string]int64{"s": 1_000_000, "ms": 1000, "us": 1, "ns": 0}[kind[3:]]
		if r.Chance(60) {
			p.tfmt = sp(vh.Pick(r, fmts)) // ignored for TIMESTAMP columns
		}
	case kind == "i64" || kind == "u64" || kind == "str" || kind == "bin":
		label, mult = unitOf()
		p.tfmt = sp(f)
		if f == "" && r.Bool() {
			p.tfmt = nil
		}
	case kind == "i32" || kind == "u32" || kind == "f64" || kind == "f32" || kind == "i16":
		f = vh.Pick(r, []string{"epoch_s", ""})
		label, mult = "epoch_s", 1_000_000
		if f == "" {
			label = "auto-s"
		}
		p.tfmt = sp(f)
	default:
		// unsupported time column types: must be rejected
		p.timeChk = false
		label = "unsupported-" + kind
		if r.Bool() {
			p.tfmt = sp(vh.Pick(r, fmts))
		}
	}
	p.unit = label
	if kind == "str" && r.Chance(30) {
		// textual timestamps in a string column (auto only)
		p.tfmt, p.unit, label = nil, "text", "text"
	}
	for i := 0; i < n; i++ {
		t := base + int64(i)*step
		var c gcell
		p.timeOK[i] = true
		switch {
		case label == "text":
			t -= mod(t, 1_000_000)
			c.s = time.UnixMicro(t).UTC().Format(vh.Pick(r, []string{time.RFC3339, "2006-01-02 15:04:05", "2006-01-02T15:04:05"}))
		case !p.timeChk:
			switch kind {
			case "bool":
				c.b = true
			default:
				c.i = big.NewInt(int64(r.Intn(100)))
			}
		default:
			var unitVal *big.Int
			if mult == 0 { // ns
				t += int64(r.Intn(1000))
				unitVal = new(big.Int).Mul(big.NewInt(t), big.NewInt(1000))
				unitVal.Add(unitVal, big.NewInt(int64(r.Intn(1000))))
			} else {
				t -= mod(t, mult)
				unitVal = big.NewInt(t / mult)
			}
			switch kind {
			case "f64", "f32":
				if kind == "f32" {
					// float32 cannot hold a 2001+ epoch exactly: use what it holds
					f32 := float32(t / 1_000_000)
					c.f = float64(f32)
					t = int64(f32) * 1_000_000
				} else {
					k8 := int64(r.Intn(8))
					c.f = float64(t/1_000_000) + float64(k8)/8
					t += k8 * 125000
				}
			case "str", "bin":
				c.s = unitVal.String()
			case "i16":
				unitVal = big.NewInt(int64(r.Intn(30000)))
				t = unitVal.Int64() * 1_000_000
				c.i = unitVal
			case "i32", "u32":
				if !unitVal.IsInt64() || unitVal.Int64() > math.MaxInt32 {
					unitVal = big.NewInt(int64(1_000_000_000 + r.Intn(1_000_000_000)))
					t = unitVal.Int64() * 1_000_000
				}
				c.i = unitVal
			default:
				c.i = unitVal
			}
		}
		p.timeT[i], p.timeAlt[i] = t, t
		g.cells = append(g.cells, c)
	}
	// damage
	if p.timeChk && r.Chance(6) {
		j := r.Intn(n)
		g.cells[j] = gcell{null: true}
		p.timeOK[j] = false
		p.note += "null-time "
	}
	if p.timeChk && r.Chance(8) && (kind == "i64" || kind == "ts:ms") && (label == "epoch_s" || label == "epoch_ms" || label == "arrow_ms") {
		j := r.Intn(n)
		m := int64(1000)
		if label == "epoch_s" {
			m = 1_000_000
		}
		g.cells[j] = gcell{i: big.NewInt(vh.Pick(r, []int64{math.MaxInt64/m + 1, math.MaxInt64, math.MinInt64, 1609459200000000000}))}
		p.timeOvf[j], p.timeOK[j] = true, true
		p.note += "time-overflow "
	}
	return g
}

func (e *env) newPQCase() *pqCase {
	e.seq++
	return e.newPQCaseN(0)
}

func (e *env) newPQCaseN(nrows int) *pqCase {
	r := e.r
	p := &pqCase{db: vh.Pick(r, []string{"imp", "pq_db"}), meas: fmt.Sprintf("p%d", e.seq), store: r.Bool(), failAt: -1, nrows: nrows, big: nrows > 1024}
	n := r.Range(1, 8)
	if nrows > 0 {
		n = nrows
	}
	tcName := "time"
	if r.Chance(35) {
		tcName = vh.Pick(r, []string{"ts", "event_time", "T"})
		p.tcOpt = sp(tcName)
	}
	tc := e.genPQTime(p, n)
	tc.name = tcName
	rid := gcol{name: "rid", kind: "i64"}
	for i := 0; i < n; i++ {
		rid.cells = append(rid.cells, gcell{i: big.NewInt(int64(i + 1))})
	}
	p.cols = []gcol{tc, rid}
	k := r.Intn(6)
	for i := 0; i < k; i++ {
		kind := vh.Pick(r, valueKinds)
		if r.Chance(4) {
			kind = vh.Pick(r, unsupportedKinds)
			p.note += "unsupported-column "
		}
		g := e.genPQValues(kind, n)
		g.name = fmt.Sprintf("c%d_%s", i, strings.ReplaceAll(kind, ":", "_"))
		if r.Chance(4) {
			g.name = "_c" + strconv.Itoa(i)
		}
		p.cols = append(p.cols, g)
	}
	for i := len(p.cols) - 1; i > 0; i-- {
		j := r.Intn(i + 1)
		p.cols[i], p.cols[j] = p.cols[j], p.cols[i]
	}
	for i, g := range p.cols {
		if g.name == tcName {
			p.timeIdx = i
		}
		if g.name == "rid" {
			p.ridIdx = i
		}
	}
	return p
}

// judgePQ: is the stored value a lossless image of the generated Parquet cell?
func judgePQ(g gcol, c gcell, v sval, present bool) string {
	if !present {
		if strings.HasPrefix(g.name, "_") {
			return "underscore-column-dropped"
		}
		return "column-dropped"
	}
	if c.null {
		if v.null {
			return ""
		}
		return "null-became-value"
	}
	if v.null {
		return "value-nulled"
	}
	switch {
	case g.kind == "u64" || (len(g.kind) <= 3 && (g.kind[0] == 'i' || g.kind[0] == 'u')):
		if v.kind != 'i' || big.NewInt(v.i).Cmp(c.i) != 0 {
			if g.kind == "u64" {
				return "uint64-wrapped"
			}
			return "int-value-changed"
		}
	case g.kind == "f32" || g.kind == "f64":
		if v.kind != 'f' || (math.Float64frombits(v.f) != c.f && !(math.IsNaN(c.f) && math.IsNaN(math.Float64frombits(v.f)))) {
			return "float-value-changed"
		}
	case g.kind == "str" || g.kind == "bin" || g.kind == "fsb":
		if v.kind != 's' || v.s != c.s {
			return "string-altered"
		}
	case g.kind == "bool":
		if v.kind != 'b' || v.b != c.b {
			return "bool-value-changed"
		}
	case g.kind == "dec":
		if v.kind != 'f' {
			return "decimal-type-changed"
		}
		exact := new(big.Rat).SetFrac(c.i, new(big.Int).Exp(big.NewInt(10), big.NewInt(int64(g.scale)), nil))
		got := new(big.Rat)
		x := math.Float64frombits(v.f)
		if math.IsInf(x, 0) || math.IsNaN(x) || got.SetFloat64(x).Cmp(exact) != 0 {
			digits := len(strings.TrimLeft(new(big.Int).Abs(c.i).String(), "0"))
			if digits > 15 {
				return "decimal128-as-float"
			}
		}
	case strings.HasPrefix(g.kind, "ts:"):
		m := map[string]int64{"s": 1_000_000, "ms": 1000, "us": 1, "ns": 0}[g.kind[3:]]
		var want, alt int64
		if m == 0 {
			want = c.i.Int64() / 1000
			alt = floorDiv(c.i.Int64(), 1000)
		} else {
			z := new(big.Int).Mul(c.i, big.NewInt(m))
			if !z.IsInt64() {
				return "timestamp-column-wrapped"
			}
			want, alt = z.Int64(), z.Int64()
		}
		if v.kind != 'i' || (v.i != want && v.i != alt) {
			return "timestamp-column-changed"
		}
	}
	return ""
}

func (e *env) runPQ(p *pqCase) {
	c := e.c
	data, err := p.fileBytes()
	if err != nil {
		c.Tag("pq:generator-write-error")
		return
	}
	hdr := e.r.Bool()
	e.store.arm(p.failAt)
	status, body := e.upload("parquet", p.db, p.meas, p.query(), data, hdr)
	e.store.arm(-1)
	rows, nfiles, elsewhere, rerr := e.readStored(p.db, p.meas)
	_ = nfiles
	defer e.wipe()
	if p.failAt >= 0 && rerr == nil {
		// fault history: the storage refused writes during the request, works again, the client retries
		c.Tag(fmt.Sprintf("pq:fault-first-attempt-http-%d", status))
		if status == 200 {
			if n, ok := rowsImported(body); ok && int(n) != len(rows) {
				c.Fail("import-acked-but-not-stored:flush-error-swallowed", fmt.Sprintf("parquet import answered HTTP 200 with rows_imported=%d but %d rows are in storage (storage write fault at write #%d during the request)", n, len(rows), p.failAt), p.replay(data, status))
			}
		} else if len(rows) > 0 {
			c.Fail("partial-import-after-error:parquet:storage-write-fault", fmt.Sprintf("import answered HTTP %d but %d rows are stored", status, len(rows)), p.replay(data, status))
		}
		if status >= 500 {
			status, body = e.upload("parquet", p.db, p.meas, p.query(), data, hdr)
			rows, nfiles, elsewhere, rerr = e.readStored(p.db, p.meas)
			p.note += "retried-after-storage-fault "
		}
	}
	accepted := status == 200
	c.Tag(fmt.Sprintf("pq:http-%d", status))
	c.Tag("pq:unit:" + p.unit)
	for _, g := range p.cols {
		c.Tag("pq:kind:" + g.kind)
	}
	for _, t := range strings.Fields(p.note) {
		c.Tag("pq:note:" + t)
	}
	rep := func() string { return p.replay(data, status) }
	if rerr != nil {
		c.Fail("stored-file-unreadable:parquet", rerr.Error(), rep())
		return
	}
	if p.failAt < 0 && !p.big {
		if arg, ok := decodedView(data, p.tcEff(), p.fmtEff()); ok {
			out := "rej"
			if accepted {
				out = canonRows(rows)
			}
			c.Op(fmt.Sprintf("pq %s %s %s", hx(p.tcEff()), fmtLabel(p.fmtEff()), arg), out)
		}
	}
	if p.big {
		c.Case(fmt.Sprintf("pq-big rows=%d cols=%d len=%d %v", p.nrows, len(p.cols), len(data), p.query()), true)
		c.Tag(fmt.Sprintf("pq:big:%d", p.nrows))
	} else {
		c.Case(fmt.Sprintf("pq %x %v fault=%d", data, p.query(), p.failAt), true)
	}
	if len(elsewhere) > 0 {
		c.Fail("wrong-target:parquet", fmt.Sprintf("files stored outside %s/%s/: %v", p.db, p.meas, elsewhere), rep())
	}
	if !accepted {
		if len(rows) > 0 {
			c.Fail("partial-import-after-error:parquet", fmt.Sprintf("import answered HTTP %d (%s) but %d rows are stored", status, trunc(body, 120), len(rows)), rep())
		}
		return
	}
	n := len(p.cols[0].cells)
	byRid := map[int64][]srow{}
	for _, r := range rows {
		v, ok := r.vals["rid"]
		if !ok || v.null || v.kind != 'i' {
			c.Fail("row-missing:parquet", "a stored row has no integer rid column", rep())
			return
		}
		byRid[v.i] = append(byRid[v.i], r)
	}
	if len(rows) > n {
		c.Fail("row-duplicated:parquet", fmt.Sprintf("%d rows stored for %d data rows", len(rows), n), rep())
	}
	for j := 0; j < n; j++ {
		got := byRid[int64(j+1)]
		if len(got) == 0 {
			c.Fail("row-missing:parquet", fmt.Sprintf("data row %d of %d is not stored", j+1, n), rep())
			continue
		}
		if len(got) > 1 {
			c.Fail("row-duplicated:parquet", fmt.Sprintf("data row %d stored %d times", j+1, len(got)), rep())
		}
		s := got[0]
		switch {
		case !p.timeChk:
			c.Fail("time-converted-wrong:"+p.unit, fmt.Sprintf("time column of unsupported type %s accepted (stored %d)", p.cols[p.timeIdx].kind, s.time), rep())
		case !p.timeOK[j]:
			c.Fail("time-converted-wrong:"+p.unit, fmt.Sprintf("row %d has a null time but the file was accepted", j+1), rep())
		case p.timeOvf[j]:
			c.Fail("time-overflow-wrapped:"+p.unit, fmt.Sprintf("row %d: time value %s × unit does not fit int64 microseconds, yet the file was accepted and time %d was stored", j+1, p.cols[p.timeIdx].cells[j].i, s.time), rep())
		case s.time != p.timeT[j] && s.time != p.timeAlt[j]:
			c.Fail("time-converted-wrong:"+p.unit, fmt.Sprintf("row %d: expected %d µs, stored %d (column kind %s, time_format %q)", j+1, p.timeT[j], s.time, p.cols[p.timeIdx].kind, p.fmtEff()), rep())
		}
		for i, g := range p.cols {
			if i == p.timeIdx || i == p.ridIdx {
				continue
			}
			v, present := s.vals[g.name]
			if cls := judgePQ(g, g.cells[j], v, present); cls != "" {
				c.Fail("value-lossy:"+cls, fmt.Sprintf("row %d column %q (%s): generated %s stored as %s", j+1, g.name, g.kind, showG(g, g.cells[j]), v), rep())
			}
		}
	}
}

func showG(g gcol, c gcell) string {
	switch {
	case c.null:
		return "null"
	case c.i != nil:
		if g.kind == "dec" {
			return fmt.Sprintf("%s·10^-%d", c.i, g.scale)
		}
		return c.i.String()
	case g.kind == "f32" || g.kind == "f64":
		return strconv.FormatFloat(c.f, 'g', -1, 64)
	case g.kind == "bool":
		return strconv.FormatBool(c.b)
	}
	return strconv.Quote(c.s)
}

func (e *env) pqCase() { e.runPQ(e.newPQCase()) }

// pqFaultCases: total storage outage during the request (the first Write fails), then a retry.
func (e *env) pqFaultCases(n int) {
	for i := 0; i < n; i++ {
		p := e.newPQCase()
		p.failAt = 0
		e.runPQ(p)
	}
}

// bigPQCases: Parquet files above 1024 rows; every stored cell is compared with the input.
func (e *env) bigPQCases(sizes []int) {
	for _, n := range sizes {
		e.seq++
		e.runPQ(e.newPQCaseN(n))
	}
}

func (e *env) pqCorpus() {
	one := func(note string, tk string, tv int64, tfmt *string, unit string, T int64, ovf bool, extra ...gcol) {
		e.seq++
		p := &pqCase{db: "imp", meas: fmt.Sprintf("p%d", e.seq), tfmt: tfmt, unit: unit, note: note, timeChk: true, failAt: -1,
			timeT: []int64{T}, timeAlt: []int64{T}, timeOK: []bool{true}, timeOvf: []bool{ovf}}
		p.cols = []gcol{{name: "time", kind: tk, cells: []gcell{{i: big.NewInt(tv)}}}, {name: "rid", kind: "i64", cells: []gcell{{i: big.NewInt(1)}}}}
		p.cols = append(p.cols, extra...)
		p.timeIdx, p.ridIdx = 0, 1
		e.runPQ(p)
	}
	one("corpus:ts-us", "ts:us", 1609459200000000, nil, "arrow_us", 1609459200000000, false)
	one("corpus:ts-ms-overflow", "ts:ms", math.MaxInt64/1000+1, nil, "arrow_ms", 0, true)
	one("corpus:i64-epoch_s-overflow", "i64", 9223372036855, sp("epoch_s"), "epoch_s", 0, true)
	one("corpus:u64-wrap", "ts:us", 1609459200000000, nil, "arrow_us", 1609459200000000, false, gcol{name: "u", kind: "u64", cells: []gcell{{i: new(big.Int).SetUint64(math.MaxUint64)}}})
	z, _ := new(big.Int).SetString("12345678901234567890123", 10)
	one("corpus:dec", "ts:us", 1609459200000000, nil, "arrow_us", 1609459200000000, false, gcol{name: "d", kind: "dec", scale: 0, cells: []gcell{{i: z}}})
	one("corpus:underscore", "ts:us", 1609459200000000, nil, "arrow_us", 1609459200000000, false, gcol{name: "_u", kind: "i64", cells: []gcell{{i: big.NewInt(5)}}})
}
