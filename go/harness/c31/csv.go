//go:build verif

package main

import (
	"bytes"
	"encoding/csv"
	"encoding/hex"
	"encoding/json"
	"fmt"
	"io"
	"math"
	"math/big"
	"net/url"
	"regexp"
	"strconv"
	"strings"
	"time"
	"unicode/utf8"

	"github.com/basekick-labs/arc/internal/verif/vh"
)

// ---------------------------------------------------------------- judge: is a stored value a lossless image of the cell text?

var intLit = regexp.MustCompile(`^[+-]?[0-9]+$`)
var decLit = regexp.MustCompile(`^[+-]?([0-9]+\.?[0-9]*|\.[0-9]+)([eE][+-]?[0-9]+)?$`)

// judge returns "" when `v` is a faithful image of cell `c` up to the documented normal forms
// (integer spelling: sign/leading zeros; decimal literal -> nearest float64; bool spellings -> bool;
// empty -> null or ""), otherwise the loss class.
func judge(c string, v sval, present bool) string {
	if !present {
		return "column-dropped"
	}
	if c == "" {
		if v.null || (v.kind == 's' && v.s == "") {
			return ""
		}
		return "empty-cell-became-value"
	}
	if v.null {
		return "value-nulled"
	}
	switch v.kind {
	case 'i':
		if !intLit.MatchString(c) {
			return "non-integer-stored-as-int"
		}
		z, _ := new(big.Int).SetString(c, 10)
		if !z.IsInt64() || z.Int64() != v.i {
			return "int-value-changed"
		}
	case 'f':
		x := math.Float64frombits(v.f)
		if intLit.MatchString(c) {
			z, _ := new(big.Int).SetString(c, 10)
			ok := false
			if !math.IsNaN(x) && !math.IsInf(x, 0) {
				bf := new(big.Float).SetFloat64(x)
				if bf.IsInt() {
					zi, _ := bf.Int(nil)
					ok = zi.Cmp(z) == 0
				}
			}
			if !ok {
				if z.IsInt64() {
					return "int-demoted-to-float"
				}
				return "int-beyond-int64-as-float"
			}
			return ""
		}
		if decLit.MatchString(c) {
			rt, ok := new(big.Rat).SetString(c)
			if !ok {
				return ""
			}
			want, _ := rt.Float64()
			if want != x && !(math.IsInf(want, 0) && math.IsInf(x, 0)) {
				return "float-not-nearest"
			}
			return ""
		}
		// inf / nan / hex-float spellings: accepted by strconv, nothing to compare exactly
	case 'b':
		l := strings.ToLower(strings.ReplaceAll(c, "ſ", "s"))
		var want bool
		switch l {
		case "true", "1":
			want = true
		case "false", "0":
			want = false
		default:
			return "non-bool-stored-as-bool"
		}
		if want != v.b {
			return "bool-value-changed"
		}
	case 's':
		if v.s != c {
			if strings.ReplaceAll(c, "\r\n", "\n") == v.s {
				return "quoted-crlf-normalized"
			}
			return "string-altered"
		}
	}
	return ""
}

// ---------------------------------------------------------------- CSV case

type csvCase struct {
	db, meas    string
	dbInHeader  bool
	delimOpt    *string // nil = not sent
	delim       rune    // rune actually used to write the file
	delimOK     bool
	skipOpt     *int
	junk        [][]string
	blankJunk   bool
	tcOpt       *string // time_column option; nil = default "time"
	tfmt        *string
	unit        string // monitor class of the time column
	header      []string
	timeIdx     int
	ridIdx      int
	rows        [][]string // ground-truth data records (may be ragged)
	timeT       []int64
	timeOK      []bool // false: the row's time text is invalid -> file must be rejected
	timeOvf     []bool // true: exact conversion does not fit int64
	timeNeg     bool
	bom, crlf   bool
	finalNL     bool
	quoteAll    bool
	failAt      int // storage fault: fail the k-th Write; -1 none
	note        string
	expectFloor []int64 // alt accepted time (floor) for negative ns
	big         bool    // size class > 1024 rows: monitors only (no model op)
}

func (cs *csvCase) tcEff() string {
	if cs.tcOpt != nil && *cs.tcOpt != "" {
		return *cs.tcOpt
	}
	return "time"
}
func (cs *csvCase) fmtEff() string {
	if cs.tfmt != nil {
		return *cs.tfmt
	}
	return ""
}
func (cs *csvCase) skipEff() int {
	if cs.skipOpt != nil {
		return *cs.skipOpt
	}
	return 0
}

func needsQuote(f string, delim rune) bool {
	return strings.ContainsRune(f, delim) || strings.ContainsAny(f, "\"\r\n")
}

func writeCSV(r *vh.Rand, recs [][]string, delim rune, crlf, finalNL, quoteAll bool, noQuoteFirst bool) []byte {
	var b bytes.Buffer
	nl := "\n"
	if crlf {
		nl = "\r\n"
	}
	for ri, rec := range recs {
		for fi, f := range rec {
			if fi > 0 {
				b.WriteRune(delim)
			}
			q := needsQuote(f, delim) || (len(rec) == 1 && f == "") || ((quoteAll || r.Chance(6)) && !(noQuoteFirst && ri == 0 && fi == 0))
			if q {
				b.WriteByte('"')
				b.WriteString(strings.ReplaceAll(f, "\"", "\"\""))
				b.WriteByte('"')
			} else {
				b.WriteString(f)
			}
		}
		if ri < len(recs)-1 || finalNL {
			b.WriteString(nl)
		}
	}
	return b.Bytes()
}

func (cs *csvCase) fileBytes(r *vh.Rand) []byte {
	var out []byte
	if cs.bom {
		out = append(out, 0xEF, 0xBB, 0xBF)
	}
	if len(cs.junk) > 0 {
		out = append(out, writeCSV(r, cs.junk, cs.delim, cs.crlf, true, false, cs.bom)...)
	}
	if cs.blankJunk {
		out = append(out, '\n')
	}
	recs := append([][]string{cs.header}, cs.rows...)
	out = append(out, writeCSV(r, recs, cs.delim, cs.crlf, cs.finalNL, cs.quoteAll, cs.bom && len(cs.junk) == 0)...)
	return out
}

func (cs *csvCase) query() url.Values {
	q := url.Values{}
	if cs.delimOpt != nil {
		q.Set("delimiter", *cs.delimOpt)
	}
	if cs.skipOpt != nil {
		q.Set("skip_rows", strconv.Itoa(*cs.skipOpt))
	}
	if cs.tcOpt != nil {
		q.Set("time_column", *cs.tcOpt)
	}
	if cs.tfmt != nil {
		q.Set("time_format", *cs.tfmt)
	}
	return q
}

func (cs *csvCase) replay(data []byte, status int) string {
	return fmt.Sprintf("POST /api/v1/import/csv?%s&measurement=%s db=%s file(hex)=%s -> HTTP %d (%s)", cs.query().Encode(), cs.meas, cs.db, hex.EncodeToString(data), status, cs.note)
}

func sp(s string) *string { return &s }
func ip(i int) *int       { return &i }

var wordPool = []string{"alpha", "beta", "x y", "a,b", "semi;colon", "tab\there", "pipe|d", "say \"hi\"", "multi\nline", "été", "日本", "00123", "1e", " lead", "trail ", "N/A", "null", "-", "0x1F", "#hash", "'q'", "a b c"}

func (e *env) genValueColumn(class string, n int) []string {
	r := e.r
	out := make([]string, n)
	for i := range out {
		switch class {
		case "int":
			out[i] = strconv.Itoa(r.Intn(20001) - 10000)
		case "int-spell":
			out[i] = vh.Pick(r, []string{"+5", "007", "-0", "+0", "12", "-3", "000", "0010"})
		case "int-big":
			out[i] = vh.Pick(r, []string{"9007199254740993", "9223372036854775807", "-9223372036854775808", "9007199254740992", "1", "-4611686018427387905", strconv.FormatInt(int64(r.U64()), 10)})
		case "int-demote":
			out[i] = vh.Pick(r, []string{"9007199254740993", "7", "-9007199254740995", "1152921504606846977", "3"})
			if i == n-1 || r.Chance(25) {
				out[i] = vh.Pick(r, []string{"0.5", "1.25", "2e0"})
			}
		case "u64":
			out[i] = vh.Pick(r, []string{"18446744073709551615", "9223372036854775808", "9223372036854775809", "12345678901234567890", "5"})
		case "float":
			out[i] = strconv.FormatFloat(float64(r.Intn(2000001)-1000000)/float64([]int{10, 100, 1000, 4, 8}[r.Intn(5)]), 'f', -1, 64)
		case "float-spell":
			out[i] = vh.Pick(r, []string{"1e3", "1E-3", ".5", "5.", "-0.0", "0.1", "0.30000000000000004", "1.7976931348623157e308", "5e-324", "1e-400", "3.14159", "2.50"})
		case "float-special":
			out[i] = vh.Pick(r, []string{"nan", "inf", "-Inf", "Infinity", "0x1p-2", "1.5"})
		case "bool":
			out[i] = vh.Pick(r, []string{"true", "false", "TRUE", "False", "1", "0", "tRuE"})
		case "bool-strict":
			out[i] = vh.Pick(r, []string{"true", "false"})
		case "boolish":
			out[i] = vh.Pick(r, []string{"t", "f", "yes", "no", "Y", "N", "true"})
		case "str":
			out[i] = vh.Pick(r, wordPool)
		case "str-crlf":
			out[i] = vh.Pick(r, []string{"a\r\nb", "x", "line1\r\nline2\r\n", "y\rz"})
		case "numstr":
			out[i] = vh.Pick(r, []string{" 5", "5 ", "00123x", "1,5", "12abc", "١٢", "1 000"})
		case "mixed":
			out[i] = e.randCell()
		default:
			out[i] = ""
		}
		if r.Chance(12) && class != "int-demote" {
			out[i] = ""
		}
	}
	return out
}

var valueClasses = []string{"int", "int", "float", "float", "bool", "str", "str", "int-spell", "int-big", "int-demote", "u64", "float-spell", "float-special", "bool-strict", "boolish", "str-crlf", "numstr", "mixed", "empty"}

var timeUnits = []string{"epoch_s", "epoch_ms", "epoch_us", "epoch_ns", "auto-s", "auto-ms", "auto-us", "auto-ns", "text", "text", "epoch_s-frac", "epoch_ms-frac"}

var textLayouts = []struct {
	layout string
	gran   int64 // micros granularity representable
}{
	{time.RFC3339, 1000000}, {time.RFC3339Nano, 1}, {"2006-01-02T15:04:05.000000Z07:00", 1}, {"2006-01-02 15:04:05", 1000000},
	{"2006-01-02 15:04:05.000", 1000}, {"2006-01-02 15:04:05.000000", 1}, {"2006-01-02T15:04:05", 1000000}, {"2006-01-02", 86400000000},
}

// genTimes fills cs.unit-dependent texts; returns the time cell texts.
func (e *env) genTimes(cs *csvCase, n int) []string {
	r := e.r
	unit := cs.unit
	base := int64(1_000_000_000+r.Intn(3_000_000_000)) * 1_000_000 // 2001 .. 2096
	if cs.timeNeg {
		base = -int64(r.Intn(2_000_000_000)) * 1_000_000
	}
	step := []int64{0, 1, 1000, 1_000_000, 60_000_000, 3_600_000_000, 86_400_000_000}[r.Intn(7)]
	texts := make([]string, n)
	cs.timeT = make([]int64, n)
	cs.timeOK = make([]bool, n)
	cs.timeOvf = make([]bool, n)
	cs.expectFloor = make([]int64, n)
	layoutIdx := r.Intn(len(textLayouts))
	loc := time.UTC
	if r.Chance(30) {
		loc = time.FixedZone("x", (r.Intn(27)-12)*1800)
	}
	for i := 0; i < n; i++ {
		t := base + int64(i)*step + int64(r.Intn(3))*step
		cs.timeOK[i] = true
		switch unit {
		case "epoch_s", "auto-s":
			t -= mod(t, 1_000_000)
			texts[i] = strconv.FormatInt(t/1_000_000, 10)
		case "epoch_s-frac":
			t -= mod(t, 1000)
			t += int64(r.Intn(1000)) * 1000
			texts[i] = decText(t, 6)
			if r.Bool() {
				texts[i] = strings.TrimRight(texts[i], "0")
				if strings.HasSuffix(texts[i], ".") {
					texts[i] += "0"
				}
			}
		case "epoch_ms", "auto-ms":
			t -= mod(t, 1000)
			texts[i] = strconv.FormatInt(t/1000, 10)
		case "epoch_ms-frac":
			t += int64(r.Intn(1000))
			texts[i] = decText(t, 3)
		case "epoch_us", "auto-us":
			t += int64(r.Intn(1000))
			texts[i] = strconv.FormatInt(t, 10)
		case "epoch_ns", "auto-ns":
			t += int64(r.Intn(1000))
			extra := int64(r.Intn(1000))
			ns := new(big.Int).Mul(big.NewInt(t), big.NewInt(1000))
			cs.expectFloor[i] = t
			if t < 0 {
				// exact value t*1000-extra ns: Go truncates toward zero -> t; floor -> t-1 when extra>0
				ns.Sub(ns, big.NewInt(extra))
				if extra > 0 {
					cs.expectFloor[i] = t - 1
				}
			} else {
				ns.Add(ns, big.NewInt(extra))
			}
			texts[i] = ns.String()
		case "text":
			li := layoutIdx
			if r.Chance(15) {
				li = r.Intn(len(textLayouts)) // mixed layouts in one column (layout cache)
			}
			l := textLayouts[li]
			t -= mod(t, l.gran)
			tm := time.UnixMicro(t).In(loc)
			if !strings.Contains(l.layout, "Z07") {
				tm = time.UnixMicro(t).UTC()
			}
			texts[i] = tm.Format(l.layout)
		}
		if !strings.HasSuffix(unit, "ns") {
			cs.expectFloor[i] = t
		}
		cs.timeT[i] = t
		if r.Chance(4) {
			texts[i] = vh.Pick(r, []string{" ", "\t", "  "}) + texts[i] + vh.Pick(r, []string{"", " ", " "})
		}
	}
	return texts
}

// decText renders v·10^-scale as a plain decimal ("-1.500" for -1500, scale 3).
func decText(v int64, scale int) string {
	neg := v < 0
	z := new(big.Int).Abs(big.NewInt(v))
	p := new(big.Int).Exp(big.NewInt(10), big.NewInt(int64(scale)), nil)
	q, m := new(big.Int).QuoRem(z, p, new(big.Int))
	s := fmt.Sprintf("%s.%0*s", q, scale, m)
	if neg {
		s = "-" + s
	}
	return s
}

func mod(a, b int64) int64 {
	m := a % b
	if m < 0 {
		m += b
	}
	return m
}

func (e *env) newCSVCase() *csvCase {
	r := e.r
	e.seq++
	cs := &csvCase{db: vh.Pick(r, []string{"imp", "imp", "other_db", "Db-2"}), meas: fmt.Sprintf("m%d", e.seq), failAt: -1, delim: ',', delimOK: true, finalNL: true}
	cs.dbInHeader = r.Bool()
	// options
	switch r.Intn(12) {
	case 0:
		cs.delimOpt, cs.delim = sp(";"), ';'
	case 1:
		cs.delimOpt, cs.delim = sp("\t"), '\t'
	case 2:
		cs.delimOpt, cs.delim = sp("|"), '|'
	case 3:
		cs.delimOpt, cs.delim = sp(" "), ' '
	case 4:
		cs.delimOpt, cs.delim = sp("§"), '§'
	case 5:
		cs.delimOpt = sp("") // empty -> default ","
	case 6:
		cs.delimOpt = sp(",")
	case 7:
		if r.Chance(30) {
			cs.delimOpt, cs.delimOK = sp(vh.Pick(r, []string{",,", "ab", "\"", "\n", "\r"})), false
			cs.note += "bad-delimiter "
		}
	}
	if r.Chance(30) {
		k := r.Range(1, 3)
		cs.skipOpt = ip(k)
		for i := 0; i < k; i++ {
			cs.junk = append(cs.junk, vh.Pick(r, [][]string{{"# exported by tool"}, {"a", "b", "c", "d", "e", "f", "g"}, {"multi\nline junk", "x"}, {"time", "rid", "v"}, {"report", ""}, {"1", "2"}}))
		}
		if r.Chance(8) {
			cs.blankJunk = true
			cs.note += "blank-junk-line "
		}
	} else if r.Chance(10) {
		cs.skipOpt = ip(vh.Pick(r, []int{0, -1, 0}))
	}
	cs.bom = r.Chance(12)
	cs.crlf = r.Chance(30)
	cs.finalNL = !r.Chance(25)
	cs.quoteAll = r.Chance(12)
	return cs
}

// build header/rows for a generated case
func (e *env) fillCSV(cs *csvCase) {
	r := e.r
	n := r.Range(1, 9)
	if r.Chance(5) {
		n = r.Range(10, 40)
	}
	cs.unit = vh.Pick(r, timeUnits)
	cs.timeNeg = r.Chance(6) && strings.HasPrefix(cs.unit, "epoch")
	switch {
	case strings.HasPrefix(cs.unit, "epoch_"):
		cs.tfmt = sp(strings.TrimSuffix(cs.unit, "-frac"))
	case r.Chance(30):
		cs.tfmt = sp("")
	}
	tcName := "time"
	if r.Chance(35) {
		tcName = vh.Pick(r, []string{"ts", "timestamp", "Time", "when", "t s"})
		cs.tcOpt = sp(tcName)
	} else if r.Chance(20) {
		cs.tcOpt = sp("time")
	}
	names := []string{tcName, "rid"}
	classes := []string{"", ""}
	pool := []string{"v", "temp", "host", "flag", "note", "x y", "été", "a,b", "V", "value2", "_hidden", "_", "n0"}
	k := r.Intn(5)
	for i := 0; i < k; i++ {
		nm := vh.Pick(r, pool)
		dup := false
		for _, x := range names {
			if x == nm {
				dup = true
			}
		}
		if dup && !r.Chance(4) {
			continue
		}
		if (nm == "_hidden" || nm == "_") && !r.Chance(35) {
			continue
		}
		names = append(names, nm)
		classes = append(classes, vh.Pick(r, valueClasses))
	}
	if r.Chance(2) {
		names = append(names, "")
		classes = append(classes, "str")
		cs.note += "empty-column-name "
	}
	if tcName != "time" && r.Chance(3) {
		names = append(names, "time")
		classes = append(classes, "int")
		cs.note += "literal-time-collision "
	}
	// shuffle column order
	for i := len(names) - 1; i > 0; i-- {
		j := r.Intn(i + 1)
		names[i], names[j] = names[j], names[i]
		classes[i], classes[j] = classes[j], classes[i]
	}
	cs.header = names
	cs.timeIdx, cs.ridIdx = -1, -1
	for i, nm := range names {
		if nm == tcName && cs.timeIdx < 0 {
			cs.timeIdx = i
		}
		if nm == "rid" && cs.ridIdx < 0 {
			cs.ridIdx = i
		}
	}
	cols := make([][]string, len(names))
	for i := range names {
		switch i {
		case cs.timeIdx:
			cols[i] = e.genTimes(cs, n)
		case cs.ridIdx:
			cols[i] = make([]string, n)
			for j := range cols[i] {
				cols[i][j] = strconv.Itoa(j + 1)
			}
		default:
			cols[i] = e.genValueColumn(classes[i], n)
		}
	}
	// damage: invalid time row / overflowing time
	if r.Chance(7) {
		j := r.Intn(n)
		cols[cs.timeIdx][j] = vh.Pick(r, []string{"", "garbage", "12:00", "2021-13-45", "1e999", "nan", "--5"})
		cs.timeOK[j] = false
		cs.note += "bad-time-row "
	}
	if r.Chance(6) && (cs.unit == "epoch_s" || cs.unit == "epoch_ms") {
		j := r.Intn(n)
		mult := unitMult[cs.unit]
		v := vh.Pick(r, []int64{math.MaxInt64/mult + 1, math.MaxInt64/mult + int64(r.Intn(1000000)) + 1, 1609459200000000000, math.MaxInt64, math.MinInt64, -(math.MaxInt64/mult + 2)})
		cols[cs.timeIdx][j] = strconv.FormatInt(v, 10)
		cs.timeOvf[j], cs.timeOK[j] = true, true
		cs.note += "time-overflow "
	}
	cs.rows = make([][]string, n)
	for j := 0; j < n; j++ {
		row := make([]string, len(names))
		for i := range names {
			row[i] = cols[i][j]
		}
		// ragged rows
		if r.Chance(4) && len(row) > 1 {
			cut := r.Range(1, len(row)-1)
			// cutting is only "missing trailing fields -> empty" when time and rid survive
			if cut > cs.timeIdx && cut > cs.ridIdx {
				row = row[:cut]
			}
		} else if r.Chance(3) {
			row = append(row, vh.Pick(r, []string{"extra", "99", ""}))
		}
		cs.rows[j] = row
	}
	if r.Chance(2) {
		cs.rows = nil
		cs.note += "no-data-rows "
	}
}

// readerView: the record list encoding/csv produces for the file (the model's parameter).
// bomFirst: the current source strips a UTF-8 BOM before tokenising (fact regenerated by factgen).
var bomFirst bool

func readerView(data []byte, delim rune) ([][]string, error) {
	if bomFirst && len(data) >= 3 && data[0] == 0xEF && data[1] == 0xBB && data[2] == 0xBF {
		data = data[3:]
	}
	rd := csv.NewReader(bytes.NewReader(data))
	rd.FieldsPerRecord = -1
	rd.LazyQuotes = true
	rd.Comma = delim
	var out [][]string
	for {
		rec, err := rd.Read()
		if err == io.EOF {
			return out, nil
		}
		if err != nil {
			return nil, err
		}
		out = append(out, rec)
	}
}

func recsArg(recs [][]string, f string) (string, bool) {
	if len(recs) == 0 {
		return "E", true
	}
	rs := make([]string, len(recs))
	for i, rec := range recs {
		cs := make([]string, len(rec))
		for j, c := range rec {
			if !utf8.ValidString(c) {
				return "", false
			}
			cs[j] = ocell(c, f)
		}
		rs[i] = strings.Join(cs, ",")
	}
	return strings.Join(rs, ";"), true
}

func (e *env) runCSV(cs *csvCase) {
	c := e.c
	data := cs.fileBytes(e.r)
	e.store.arm(cs.failAt)
	status, body := e.upload("csv", cs.db, cs.meas, cs.query(), data, cs.dbInHeader)
	e.store.arm(-1)
	rows, nfiles, elsewhere, rerr := e.readStored(cs.db, cs.meas)
	defer e.wipe()
	accepted := status == 200
	c.Tag(fmt.Sprintf("csv:http-%d", status))
	c.Tag("csv:unit:" + cs.unit)
	if cs.note != "" {
		for _, t := range strings.Fields(cs.note) {
			c.Tag("csv:note:" + t)
		}
	}
	if rerr != nil {
		c.Fail("stored-file-unreadable:csv", rerr.Error(), cs.replay(data, status))
	}

	// ---- model op (records as encoding/csv tokenises them: the model's parameter)
	if cs.failAt < 0 && rerr == nil && !cs.big {
		delim := cs.delim
		view, verr := readerView(data, delim)
		if verr == nil || !cs.delimOK {
			d := "ok"
			if !cs.delimOK {
				d, view = "bad", nil
			}
			if arg, ok := recsArg(view, cs.fmtEff()); ok && utf8.ValidString(cs.tcEff()) {
				out := "rej"
				if accepted {
					out = canonRows(rows)
				}
				c.Op(fmt.Sprintf("csv %s %d %s %s %s", d, cs.skipEff(), hx(cs.tcEff()), fmtLabel(cs.fmtEff()), arg), out)
			}
		}
	} else if cs.failAt >= 0 && rerr == nil && !cs.big {
		view, verr := readerView(data, cs.delim)
		if verr == nil {
			if arg, ok := recsArg(view, cs.fmtEff()); ok {
				out := fmt.Sprintf("fail files=%d", nfiles)
				if accepted {
					out = fmt.Sprintf("ok files=%d", nfiles)
				} else if status < 500 {
					out = "rej"
				}
				c.Op(fmt.Sprintf("csvf %d ok %d %s %s %s", cs.failAt, cs.skipEff(), hx(cs.tcEff()), fmtLabel(cs.fmtEff()), arg), out)
			}
		}
	}
	if cs.big {
		c.Case(fmt.Sprintf("csv-big rows=%d cols=%d len=%d %v", len(cs.rows), len(cs.header), len(data), cs.query()), true)
		c.Tag(fmt.Sprintf("csv:big:%d", len(cs.rows)))
	} else {
		c.Case(fmt.Sprintf("csv %x %v", data, cs.query()), true)
	}

	// ---- property monitors (ground truth = the generator's rows)
	if len(elsewhere) > 0 {
		c.Fail("wrong-target:csv", fmt.Sprintf("files stored outside %s/%s/: %v", cs.db, cs.meas, elsewhere), cs.replay(data, status))
	}
	if !accepted && cs.failAt >= 0 && status >= 500 {
		defer e.retryAfterFault(cs, data, len(rows))
	}
	if !accepted {
		if len(rows) > 0 {
			key := "partial-import-after-error:csv"
			if cs.failAt >= 0 {
				key += ":storage-write-fault"
			}
			c.Fail(key, fmt.Sprintf("import answered HTTP %d (%s) but %d of %d rows are stored in %d file(s)", status, trunc(body, 120), len(rows), len(cs.rows), nfiles), cs.replay(data, status))
		}
		return
	}
	// an acknowledged import must be in storage when the response is sent (the handler flushes
	// synchronously): rows_imported = N  =>  N rows stored
	if n, ok := rowsImported(body); ok && int(n) != len(rows) {
		c.Fail("import-acked-but-not-stored:flush-error-swallowed", fmt.Sprintf("import answered HTTP 200 with rows_imported=%d but %d rows are in storage (storage write fault at write #%d during the request)", n, len(rows), cs.failAt), cs.replay(data, status))
	}
	if cs.failAt >= 0 {
		return
	}
	e.monitorCSV(cs, rows, data, status)
}

func rowsImported(body string) (int64, bool) {
	var r struct {
		Result struct {
			Rows *int64 `json:"rows_imported"`
		} `json:"result"`
	}
	if json.Unmarshal([]byte(body), &r) != nil || r.Result.Rows == nil {
		return 0, false
	}
	return *r.Result.Rows, true
}

// retryAfterFault: the storage refused writes during the request, works again, and the client
// uploads the same file once more.  Afterwards every data row must be stored exactly once.
func (e *env) retryAfterFault(cs *csvCase, data []byte, left int) {
	c := e.c
	status, _ := e.upload("csv", cs.db, cs.meas, cs.query(), data, cs.dbInHeader)
	rows, _, _, rerr := e.readStored(cs.db, cs.meas)
	c.Tag(fmt.Sprintf("csv:retry-http-%d", status))
	if status != 200 || rerr != nil || cs.blankJunk || !cs.delimOK || cs.ridIdx < 0 || cs.timeIdx < 0 {
		return
	}
	rep := cs.replay(data, status) + fmt.Sprintf(" [history: same upload first made while storage write #%d failed, then retried]", cs.failAt)
	cnt := map[int64]int{}
	for _, r := range rows {
		if v, ok := r.vals["rid"]; ok && !v.null && v.kind == 'i' {
			cnt[v.i]++
		}
	}
	for j := range cs.rows {
		switch k := cnt[int64(j+1)]; {
		case k == 0:
			c.Fail("row-missing:csv:retry-after-storage-fault", fmt.Sprintf("after the retry data row %d is not stored", j+1), rep)
		case k > 1 && left > 0:
			// consequence of the partial import the failed attempt left behind (same root cause)
			c.Fail("partial-import-after-error:csv:storage-write-fault", fmt.Sprintf("after the retry data row %d is stored %d times (the failed attempt left %d rows)", j+1, k, left), rep)
		case k > 1:
			c.Fail("row-duplicated:csv:retry-after-storage-fault", fmt.Sprintf("after the retry data row %d is stored %d times although the failed attempt left nothing", j+1, k), rep)
		}
	}
}

func trunc(s string, n int) string {
	if len(s) > n {
		return s[:n] + "…"
	}
	return s
}

func (e *env) monitorCSV(cs *csvCase, rows []srow, data []byte, status int) {
	rep := func() string { return cs.replay(data, status) }
	// the BOM is stripped AFTER tokenisation: a quoted first header field behind a BOM is not
	// recognised as quoted, so a delimiter inside it splits the header and every column shifts;
	// whatever the monitors see in such a file is reported under one key
	// (only while the source still tokenises with the BOM in place; once it strips the BOM first the
	// file is an ordinary one and every finding keeps its own key)
	bomQuoted := !bomFirst && cs.bom && len(cs.junk) == 0 && !cs.blankJunk && len(cs.header) > 0 && needsQuote(cs.header[0], cs.delim)
	c := &failer{c: e.c, override: ""}
	if bomQuoted {
		c.override = "value-lossy:bom-before-quoted-header"
		c.prefix = fmt.Sprintf("file starts with a UTF-8 BOM followed by the quoted header field %q; accepted, but the header was tokenised differently from the data rows (columns misaligned): ", cs.header[0])
	}
	if cs.blankJunk || !cs.delimOK || cs.ridIdx < 0 || cs.timeIdx < 0 {
		// accepted although the generator expected a rejection: compare counts only
		if len(rows) != len(cs.rows) {
			c.Tag("csv:accepted-with-unexpected-shape")
		}
		return
	}
	byRid := map[int64][]srow{}
	for _, r := range rows {
		v, ok := r.vals["rid"]
		if !ok || v.null || v.kind != 'i' {
			c.Fail("row-missing:csv", "a stored row has no integer rid column (row identity lost)", rep())
			return
		}
		byRid[v.i] = append(byRid[v.i], r)
	}
	for j, gt := range cs.rows {
		got := byRid[int64(j+1)]
		if len(got) == 0 {
			c.Fail("row-missing:csv", fmt.Sprintf("data row %d of %d is not stored (stored %d rows)", j+1, len(cs.rows), len(rows)), rep())
			continue
		}
		if len(got) > 1 {
			c.Fail("row-duplicated:csv", fmt.Sprintf("data row %d is stored %d times", j+1, len(got)), rep())
		}
		s := got[0]
		// time
		unit := strings.Replace(cs.unit, "-frac", ":fractional", 1)
		switch {
		case !cs.timeOK[j]:
			c.Fail("time-converted-wrong:"+unit, fmt.Sprintf("row %d has an invalid time cell %q but the file was accepted (stored time %d)", j+1, gt[cs.timeIdx], s.time), rep())
		case cs.timeOvf[j]:
			c.Fail("time-overflow-wrapped:"+unit, fmt.Sprintf("row %d: %s × unit does not fit int64 microseconds, yet the file was accepted and time %d was stored", j+1, gt[cs.timeIdx], s.time), rep())
		case s.time != cs.timeT[j] && s.time != cs.expectFloor[j]:
			c.Fail("time-converted-wrong:"+unit, fmt.Sprintf("row %d: time cell %q (%s) should be %d µs, stored %d", j+1, gt[cs.timeIdx], cs.unit, cs.timeT[j], s.time), rep())
		}
		// values
		for i, name := range cs.header {
			if i == cs.timeIdx || i == cs.ridIdx {
				continue
			}
			cell := ""
			if i < len(gt) {
				cell = gt[i]
			}
			v, present := s.vals[name]
			if name == "time" {
				continue
			}
			if cls := judge(cell, v, present); cls != "" {
				if cls == "column-dropped" && strings.HasPrefix(name, "_") {
					cls = "underscore-column-dropped"
				}
				c.Fail("value-lossy:"+cls, fmt.Sprintf("row %d column %q: cell %q stored as %s", j+1, name, cell, v), rep())
			} else {
				c.Tag("csv:value-ok:" + string(kindOf(v)))
				if v.kind == 'i' && !v.null && cell != strconv.FormatInt(v.i, 10) {
					c.Tag("csv:normal-form:int-spelling")
				}
			}
		}
		if len(gt) > len(cs.header) {
			c.Fail("value-lossy:extra-fields-dropped", fmt.Sprintf("row %d has %d fields, the header %d: the extra cell(s) %q are silently discarded", j+1, len(gt), len(cs.header), gt[len(cs.header):]), rep())
		}
	}
	if len(rows) > len(cs.rows) {
		c.Fail("row-duplicated:csv", fmt.Sprintf("%d rows stored for %d data rows", len(rows), len(cs.rows)), rep())
	}
}

// failer forwards to vh.Ctx, optionally re-keying every failure (one root cause, one key).
type failer struct {
	c        *vh.Ctx
	override string
	prefix   string
}

func (f *failer) Fail(key, what, replay string) {
	if f.override != "" {
		key, what = f.override, f.prefix+what
	}
	f.c.Fail(key, what, replay)
}
func (f *failer) Tag(t string) { f.c.Tag(t) }

func kindOf(v sval) byte {
	if v.null {
		return '~'
	}
	return v.kind
}

func (e *env) csvCase() {
	cs := e.newCSVCase()
	e.fillCSV(cs)
	e.runCSV(cs)
}

// hand-written corpus: one case per documented edge
func (e *env) csvCorpus() {
	mk := func(note string, header []string, rows [][]string, unit string, tfmt *string, T []int64) *csvCase {
		e.seq++
		cs := &csvCase{db: "imp", meas: fmt.Sprintf("m%d", e.seq), failAt: -1, delim: ',', delimOK: true, finalNL: true, header: header, rows: rows, unit: unit, tfmt: tfmt, note: note}
		cs.timeIdx, cs.ridIdx = -1, -1
		for i, h := range header {
			if h == "time" {
				cs.timeIdx = i
			}
			if h == "rid" {
				cs.ridIdx = i
			}
		}
		cs.timeT, cs.expectFloor = T, T
		cs.timeOK = make([]bool, len(rows))
		cs.timeOvf = make([]bool, len(rows))
		for i := range cs.timeOK {
			cs.timeOK[i] = true
		}
		return cs
	}
	h := []string{"time", "rid", "v"}
	t2 := []int64{1609459200000000, 1609459201000000}
	e.runCSV(mk("corpus:plain", h, [][]string{{"1609459200", "1", "5"}, {"1609459201", "2", "6"}}, "epoch_s", sp("epoch_s"), t2))
	e.runCSV(mk("corpus:int-demoted", h, [][]string{{"1609459200", "1", "9007199254740993"}, {"1609459201", "2", "0.5"}}, "epoch_s", sp("epoch_s"), t2))
	e.runCSV(mk("corpus:u64", h, [][]string{{"1609459200", "1", "18446744073709551615"}, {"1609459201", "2", "18446744073709551614"}}, "epoch_s", sp("epoch_s"), t2))
	e.runCSV(mk("corpus:leading-zeros", h, [][]string{{"1609459200", "1", "007"}, {"1609459201", "2", "+5"}}, "epoch_s", sp("epoch_s"), t2))
	e.runCSV(mk("corpus:extra-field", h, [][]string{{"1609459200", "1", "5", "dropped"}, {"1609459201", "2", "6"}}, "epoch_s", sp("epoch_s"), t2))
	e.runCSV(mk("corpus:underscore", []string{"time", "rid", "_v"}, [][]string{{"1609459200", "1", "5"}, {"1609459201", "2", "6"}}, "epoch_s", sp("epoch_s"), t2))
	e.runCSV(mk("corpus:crlf", h, [][]string{{"1609459200", "1", "a\r\nb"}, {"1609459201", "2", "c"}}, "epoch_s", sp("epoch_s"), t2))
	ov := mk("corpus:overflow-s", h, [][]string{{"9223372036855", "1", "5"}, {"1609459201", "2", "6"}}, "epoch_s", sp("epoch_s"), t2)
	ov.timeOvf[0] = true
	e.runCSV(ov)
	ov2 := mk("corpus:ns-as-s", h, [][]string{{"1609459200000000000", "1", "5"}}, "epoch_s", sp("epoch_s"), t2[:1])
	ov2.timeOvf[0] = true
	e.runCSV(ov2)
	bad := mk("corpus:bad-time-last-row", h, [][]string{{"1609459200", "1", "5"}, {"oops", "2", "6"}}, "epoch_s", sp("epoch_s"), t2)
	bad.timeOK[1] = false
	e.runCSV(bad)
	e.runCSV(mk("corpus:multi-hour", h, [][]string{{"1609459200", "1", "5"}, {"1609466400", "2", "6"}}, "epoch_s", sp("epoch_s"), []int64{1609459200000000, 1609466400000000}))
	e.runCSV(mk("corpus:dup-times", h, [][]string{{"1609459200", "1", "5"}, {"1609459200", "2", "5"}}, "epoch_s", sp("epoch_s"), []int64{1609459200000000, 1609459200000000}))
	bq := mk("corpus:bom-quoted-header", []string{"a,b", "time", "rid"}, [][]string{{"x", "1609459200", "1"}, {"y", "1609459201", "2"}}, "epoch_s", sp("epoch_s"), t2)
	bq.bom = true
	e.runCSV(bq)
	ovm := mk("corpus:overflow-ms", h, [][]string{{"9223372036854776", "1", "5"}}, "epoch_ms", sp("epoch_ms"), t2[:1])
	ovm.timeOvf[0] = true
	e.runCSV(ovm)
	e.runCSV(mk("corpus:frac-s-truncated", h, [][]string{{"1116774034.465000", "1", "5"}}, "epoch_s-frac", sp("epoch_s"), []int64{1116774034465000}))
	e.runCSV(mk("corpus:frac-ms-truncated", h, [][]string{{"2227044859000.361", "1", "5"}}, "epoch_ms-frac", sp("epoch_ms"), []int64{2227044859000361}))
	flt := mk("corpus:fault-second-hour", h, [][]string{{"1609459200", "1", "5"}, {"1609466400", "2", "6"}}, "epoch_s", sp("epoch_s"), []int64{1609459200000000, 1609466400000000})
	flt.failAt = 1
	e.runCSV(flt)
	out0 := mk("corpus:outage-single-hour", h, [][]string{{"1609459200", "1", "5"}, {"1609459201", "2", "6"}}, "epoch_s", sp("epoch_s"), t2)
	out0.failAt = 0
	e.runCSV(out0)
	e.runCSV(mk("corpus:frac", h, [][]string{{"1609459200.123", "1", "5"}, {"1609459201.29", "2", "6"}}, "epoch_s-frac", sp("epoch_s"), []int64{1609459200123000, 1609459201290000}))
}

// bigCSVCases: the size class above the importer's row pre-size estimate max(1024, size/(8*cols)):
// more than 1024 rows of SHORT cells (and mixed widths); every stored cell is compared with the input.
func (e *env) bigCSVCases(sizes []int) {
	r := e.r
	for _, n := range sizes {
		e.seq++
		cs := &csvCase{db: "imp", meas: fmt.Sprintf("m%d", e.seq), failAt: -1, delim: ',', delimOK: true, finalNL: r.Bool(), crlf: r.Chance(25), big: true}
		k := r.Range(0, 4) // 2..6 columns
		names := []string{"time", "rid"}
		classes := []string{"", ""}
		for i := 0; i < k; i++ {
			names = append(names, fmt.Sprintf("c%d", i))
			classes = append(classes, vh.Pick(r, []string{"d1", "d3", "s2", "b", "mixw", "e"}))
		}
		for i := len(names) - 1; i > 0; i-- {
			j := r.Intn(i + 1)
			names[i], names[j] = names[j], names[i]
			classes[i], classes[j] = classes[j], classes[i]
		}
		cs.header = names
		shortTime := r.Chance(60)
		cs.unit, cs.tfmt = "epoch_s", sp("epoch_s")
		cs.timeT, cs.expectFloor = make([]int64, n), make([]int64, n)
		cs.timeOK, cs.timeOvf = make([]bool, n), make([]bool, n)
		cs.rows = make([][]string, n)
		for i, nm := range names {
			if nm == "time" {
				cs.timeIdx = i
			}
			if nm == "rid" {
				cs.ridIdx = i
			}
		}
		base := int64(1600000000 + r.Intn(100000000))
		for j := 0; j < n; j++ {
			sec := base + int64(j)
			if shortTime {
				sec = int64(1 + (j*7)%977) // 1..3 digit epochs, all inside one hour
			}
			cs.timeT[j], cs.expectFloor[j], cs.timeOK[j] = sec*1000000, sec*1000000, true
			row := make([]string, len(names))
			for i := range names {
				switch {
				case i == cs.timeIdx:
					row[i] = strconv.FormatInt(sec, 10)
				case i == cs.ridIdx:
					row[i] = strconv.Itoa(j + 1)
				default:
					switch classes[i] {
					case "d1":
						row[i] = strconv.Itoa(r.Intn(10))
					case "d3":
						row[i] = strconv.Itoa(r.Intn(1000))
					case "s2":
						row[i] = vh.Pick(r, []string{"a", "ab", "xy", "q", "zz9"})
					case "b":
						row[i] = vh.Pick(r, []string{"1", "0"})
					case "mixw":
						row[i] = vh.Pick(r, []string{"7", "x", "", "a-much-longer-cell-value-here", "12345678901", "ok"})
					default:
						row[i] = ""
					}
				}
			}
			cs.rows[j] = row
		}
		e.runCSV(cs)
	}
}

func (e *env) faultCases(n int) {
	for i := 0; i < n; i++ {
		cs := e.newCSVCase()
		cs.delimOpt, cs.delim, cs.delimOK = nil, ',', true
		e.fillCSV(cs)
		cs.failAt = e.r.Intn(3)
		e.runCSV(cs)
	}
}

// asyncCases: imports at least MaxBufferSize rows long take the fire-and-forget flush path; the
// handler's FlushAll finds the buffer already extracted.  The rows must still end up stored.
func (e *env) asyncCases(c *vh.Ctx, r *vh.Rand, n int) {
	a := newEnv(c, r, 4)
	defer a.close()
	for i := 0; i < n; i++ {
		cs := a.newCSVCase()
		cs.delimOpt, cs.delim, cs.delimOK = nil, ',', true
		a.fillCSV(cs)
		if len(cs.rows) < 4 {
			continue
		}
		data := cs.fileBytes(a.r)
		status, _ := a.upload("csv", cs.db, cs.meas, cs.query(), data, cs.dbInHeader)
		var rows []srow
		deadline := time.Now().Add(3 * time.Second)
		for {
			rows, _, _, _ = a.readStored(cs.db, cs.meas)
			if status != 200 || len(rows) >= len(cs.rows) || time.Now().After(deadline) {
				break
			}
			time.Sleep(5 * time.Millisecond)
		}
		c.Tag(fmt.Sprintf("csv-async:http-%d", status))
		if status == 200 {
			if cs.blankJunk || cs.ridIdx < 0 {
				a.wipe()
				continue
			}
			if len(rows) < len(cs.rows) {
				c.Fail("row-missing:csv:async-flush", fmt.Sprintf("import of %d rows (>= max_buffer_size 4) answered 200 but only %d rows are stored after 3 s", len(cs.rows), len(rows)), cs.replay(data, status))
			} else {
				a.monitorCSV(cs, rows, data, status)
			}
		} else if len(rows) > 0 {
			c.Fail("partial-import-after-error:csv", fmt.Sprintf("HTTP %d but %d rows stored", status, len(rows)), cs.replay(data, status))
		}
		c.Case(fmt.Sprintf("csv-async %x", data), true)
		a.wipe()
	}
}
