//go:build verif

package pruning

import "time"

// Verification-only exports for C18 (compiled only with `-tags verif` through the build overlay;
// nothing is written under /repo).

func VerifParseDateTime(s string) (time.Time, error) { return parseDateTime(s) }

func VerifEvaluateRelativeTime(amount, unit string, isAddition bool) (time.Time, error) {
	return evaluateRelativeTime(amount, unit, isAddition)
}

// VerifSetEnabled switches pruning off/on (the field has no production setter).
func (p *PartitionPruner) VerifSetEnabled(on bool) { p.enabled = on }
