//go:build verif

// Verification hooks for C25 (injected by the build overlay as zz_verif_c25.go; never part of a
// normal build).  VerifDial lets the harness hand FetchClient.Fetch an in-memory connection to a
// scripted peer (the call `security.Dial("tcp", …)` in fetch_client.go is redirected to verifDial by
// props/C25.py's rewrite — everything else in Fetch runs unmodified).
package filereplication

import (
	"context"
	"crypto/tls"
	"net"
	"time"

	"github.com/basekick-labs/arc/internal/cluster/raft"
	"github.com/basekick-labs/arc/internal/cluster/security"
)

// VerifDial, when non-nil, replaces the TCP dial of FetchClient.Fetch.
var VerifDial func(addr string, timeout time.Duration) (net.Conn, error)

func verifDial(network, addr string, timeout time.Duration, tlsCfg *tls.Config) (net.Conn, error) {
	if VerifDial != nil {
		return VerifDial(addr, timeout)
	}
	return security.Dial(network, addr, timeout, tlsCfg)
}

// VerifProcessEntry runs one processEntry call synchronously on the caller's goroutine (the body a
// worker executes for a dequeued entry).
func (p *Puller) VerifProcessEntry(entry *raft.FileEntry) {
	if p.ctx == nil {
		p.ctx, p.cancel = context.WithCancel(context.Background())
	}
	e := *entry
	p.processEntry(p.logger, &e)
}
