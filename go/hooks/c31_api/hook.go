//go:build verif

package api

import (
	"github.com/apache/arrow-go/v18/arrow"
)

// C31 hooks: export the unexported import conversion functions for the correspondence harness.

func VerifC31IntTimeToMicros(n int64, f string) int64 { return intTimeToMicros(n, f) }
func VerifC31AutoIntEpochToMicros(n int64) int64      { return autoIntEpochToMicros(n) }
func VerifC31ArrowTimestampToMicros(v int64, u arrow.TimeUnit) int64 {
	return arrowTimestampToMicros(v, u)
}
func VerifC31EpochToMicros(f float64, format string) int64 { return epochToMicros(f, format) }
func VerifC31AutoEpochToMicros(f float64) int64            { return autoEpochToMicros(f) }
func VerifC31FloatTimeToMicros(f float64, format string) int64 {
	return floatTimeToMicros(f, format)
}
func VerifC31InferAndConvertColumn(raw []string) (interface{}, []bool) {
	return inferAndConvertColumn(raw)
}
func VerifC31IsBoolLiteral(s string) bool { return isBoolLiteral(s) }
func VerifC31StringsToTimeMicros(raw []string, f string) ([]int64, error) {
	return stringsToTimeMicros(raw, f)
}
func VerifC31OneTimeValueToMicros(s, f string) (int64, error) { return oneTimeValueToMicros(s, f) }
func VerifC31ParseTimestampString(s string) (int64, string, error) {
	return parseTimestampString(s)
}
func VerifC31ValidateImportHeader(header []string, tc string) (int, bool) {
	i, e := validateImportHeader(header, tc)
	return i, e == nil
}
