//go:build verif

package api

import (
	"context"

	"github.com/basekick-labs/arc/internal/pruning"
)

// Verification-only exports for C18 (compiled only with `-tags verif` through the build overlay).

func C18Pruner(h *QueryHandler) *pruning.PartitionPruner { return h.pruner }

// C18Transform is the SQL-to-storage-path transformation every query goes through
// (transform cache -> convertSQLToStoragePaths[WithHeaderDB] -> buildReadParquetExpr -> pruner).
func C18Transform(h *QueryHandler, ctx context.Context, sql, headerDB string) (string, bool) {
	return h.getTransformedSQL(ctx, sql, headerDB)
}

// C18ResetCaches is the harness's own "fresh start" between unrelated statements: it clears the transform cache
// and the pruner caches directly, independent of what the production hook InvalidateCaches does.
func C18ResetCaches(h *QueryHandler) {
	h.queryCache.Invalidate()
	h.pruner.InvalidateAllCaches()
}
