//go:build verif

package api

import (
	"context"

	"github.com/basekick-labs/arc/internal/pruning"
)

// Verification-only exports for C18 (compiled only with `-tags verif` through the build overlay).

func C18Pruner(h *QueryHandler) *pruning.PartitionPruner { return h.pruner }

// C18Transform is the SQL-to-storage-path transformation every query goes through
// (transform cache -> convertSQLToStoragePaths[WithHeaderDB] -> buildReadParquetExpr -> pruner).
func C18Transform(h *QueryHandler, ctx context.Context, sql, headerDB string) (string, bool) {
	return h.getTransformedSQL(ctx, sql, headerDB)
}
