//go:build verif

package api

// VerifC32Extract decodes a msgpack payload with the handler's own decoder and returns what the
// handler's extractMeasurements yields for it (order unspecified), or the decode error.
func (h *MsgPackHandler) VerifC32Extract(payload []byte) ([]string, error) {
	recs, err := h.decoder.Decode(payload)
	if err != nil {
		return nil, err
	}
	return h.extractMeasurements(recs), nil
}

func VerifC32ValidMeasurement(s string) bool { return isValidMeasurementName(s) }
func VerifC32ValidDatabase(s string) bool    { return isValidDatabaseName(s) }
