//go:build verif

package edgesync

// C08 verification hooks: export the unexported edge-sync validators (no behaviour change).

func VerifC08ValidateSyncPath(p string) error { return validateSyncPath(p) }

func VerifC08ValidateSpokeID(s string) error { return validateSpokeID(s) }

func VerifC08StagingPathFor(spokeID, sourcePath string) string {
	return stagingPathFor(spokeID, sourcePath)
}
