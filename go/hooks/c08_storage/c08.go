//go:build verif

package storage

// C08 verification hooks: export the unexported pure path functions (no behaviour change).

// VerifC08ValidatePath runs LocalBackend.validatePath for a backend whose basePath is `base`
// (NewLocalBackend stores filepath.Abs(basePath), i.e. an absolute, cleaned path).
func VerifC08ValidatePath(base, key string) (string, error) {
	b := &LocalBackend{basePath: base, dirCache: map[string]bool{}}
	return b.validatePath(key)
}

// VerifC08ValidateFilePath: the validator of Write / WriteReader / AppendReader.
func VerifC08ValidateFilePath(base, key string) (string, error) {
	b := &LocalBackend{basePath: base, dirCache: map[string]bool{}}
	return b.validateFilePath(key)
}

func VerifC08SanitizePath(p string) string { return sanitizePath(p) }

func VerifC08PartPath(p string) string { return partPath(p) }
