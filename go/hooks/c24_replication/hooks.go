//go:build verif

package replication

import (
	"context"
	"net"
)

// VerifServe runs the REAL receiveLoop on an already established connection with the session key
// both ends derived from the handshake nonce — i.e. everything connectionLoop does around
// receiveLoop except dialing and the protocol-level handshake. It returns when receiveLoop returns
// (connection dropped), after the same cleanup connectionLoop performs.
func (r *Receiver) VerifServe(ctx context.Context, conn net.Conn, sessionKey []byte) {
	r.ctx, r.cancelFunc = context.WithCancel(ctx)
	r.running.Store(true)
	r.mu.Lock()
	r.conn = conn
	r.sessionKey = sessionKey
	r.mu.Unlock()
	r.connected.Store(true)

	r.receiveLoop()

	r.connected.Store(false)
	r.mu.Lock()
	if r.conn != nil {
		r.conn.Close()
		r.conn = nil
	}
	r.sessionKey = nil
	r.mu.Unlock()
	r.cancelFunc()
	r.wg.Wait() // ackLoop
}

func (s *Sender) VerifQueueLen() int   { return len(s.entryChan) }
func (s *Sender) VerifDropped() int64  { return s.totalEntriesDropped.Load() }
func (s *Sender) VerifReceived() int64 { return s.totalEntriesReceived.Load() }
