//go:build verif

package replication

import "context"

// VerifC32ApplyEntry runs the receiver's real applyEntry on one replicated entry (no network).
func (r *Receiver) VerifC32ApplyEntry(seq uint64, payload []byte) error {
	if r.ctx == nil {
		r.ctx = context.Background()
	}
	return r.applyEntry(&ReplicateEntry{Sequence: seq, Payload: payload})
}
