//go:build verif && duckdb_arrow

package api

import (
	"bufio"
	"context"
	"time"

	"github.com/apache/arrow-go/v18/arrow"
	"github.com/apache/arrow-go/v18/arrow/array"
)

// Verification-only exports of the unexported response encoders (C19). Compiled only with
// `-tags "verif duckdb_arrow"` through the build overlay; nothing is written under /repo.

// C19WriteJSONString is query_json_writer.go:writeJSONString.
func C19WriteJSONString(w *bufio.Writer, s string) { writeJSONString(w, nil, s) }

// C19WriteJSONStringArray is query_json_writer.go:writeJSONStringArray.
func C19WriteJSONStringArray(w *bufio.Writer, ss []string) { writeJSONStringArray(w, ss) }

// C19WriteArrowValue is query_arrow_json.go:writeArrowValue (one cell).
func C19WriteArrowValue(w *bufio.Writer, col arrow.Array, row int) {
	writeArrowValue(w, make([]byte, 0, 128), col, row)
}

// C19WriteFloat64 is query_json_writer.go:writeFloat64.
func C19WriteFloat64(w *bufio.Writer, v float64) { writeFloat64(w, make([]byte, 0, 64), v) }

// C19StreamArrowJSON is query_arrow_json.go:streamArrowJSON (the whole JSON response body).
func C19StreamArrowJSON(ctx context.Context, w *bufio.Writer, reader array.RecordReader, maxRows int, start time.Time, timestamp string) (int, error) {
	return streamArrowJSON(ctx, w, reader, maxRows, nil, start, timestamp)
}

// C19MsgPack runs the production msgpack pipeline after the reader has been obtained, exactly as
// executeArrowMsgPackQuery does: normalizeDecimalSchema -> drainArrowBatches (row limit, decimal cast)
// -> streamMsgPackFromBatches. drainErr != nil corresponds to the 5xx error response.
func C19MsgPack(ctx context.Context, w *bufio.Writer, reader array.RecordReader, maxRows int, start time.Time, timestamp string) (rows int, drainErr, streamErr error) {
	schema := reader.Schema()
	castInfo := normalizeDecimalSchema(schema)
	if castInfo != nil {
		schema = castInfo.schema
	}
	batches, rowCount, derr := drainArrowBatches(ctx, reader, maxRows, castInfo)
	defer func() {
		for _, b := range batches {
			b.Release()
		}
	}()
	if derr != nil {
		return rowCount, derr, nil
	}
	rc, serr := streamMsgPackFromBatches(ctx, w, schema, batches, rowCount, nil, start, timestamp)
	return rc, nil, serr
}

// C19ArrowTypeName is query_msgpack_types.go:arrowTypeName.
func C19ArrowTypeName(dt arrow.DataType) string { return arrowTypeName(dt) }

// C19DecimalTargets exposes normalizeDecimalSchema's decision (nil = no decimal column).
func C19DecimalTargets(schema *arrow.Schema) (*arrow.Schema, []arrow.DataType) {
	ci := normalizeDecimalSchema(schema)
	if ci == nil {
		return nil, nil
	}
	return ci.schema, ci.targets
}

// C19CastDecimalBatch is query_arrow.go:castDecimalBatch with the cast info of the batch's schema.
func C19CastDecimalBatch(batch arrow.Record) (arrow.Record, error) {
	ci := normalizeDecimalSchema(batch.Schema())
	if ci == nil {
		batch.Retain()
		return batch, nil
	}
	return castDecimalBatch(batch, ci)
}
