//go:build verif

package license

// VerifTieringClient returns an offline client holding an active license with the tiered-storage
// feature, so that the real tiering.NewManager / RunMigrationCycle license gates pass (C12).
func VerifTieringClient() *Client {
	return &Client{
		offline: true,
		license: &License{Tier: TierEnterprise, Status: "active", Features: []string{FeatureTieredStorage}},
		stopCh:  make(chan struct{}),
	}
}
