//go:build verif

package ingest

// VerifC01ConvertColumnsToTyped exposes the unexported typing chokepoint every columnar write goes
// through (no decimal configuration, as on the line-protocol path of a default deployment).
func VerifC01ConvertColumnsToTyped(measurement string, columns map[string][]interface{}) (*TypedColumnBatch, int, error) {
	b := &ArrowBuffer{}
	return b.convertColumnsToTyped(measurement, columns)
}

// VerifC01SplitOnDelimiter exposes splitOnDelimiter.
func VerifC01SplitOnDelimiter(data []byte, delim byte) [][]byte { return splitOnDelimiter(data, delim) }
