//go:build verif

package ingest

// VerifC02ConvertColumnsToTyped exposes the unexported typing chokepoint every generic columnar
// write goes through (ArrowBuffer without decimal configuration = the only configuration in which
// the handler enables the typed fast path).
func VerifC02ConvertColumnsToTyped(measurement string, columns map[string][]interface{}) (*TypedColumnBatch, int, error) {
	b := &ArrowBuffer{}
	return b.convertColumnsToTyped(measurement, columns)
}

// VerifC02TryTyped exposes the typed fast path alone (hit / miss).
func VerifC02TryTyped(d *MessagePackDecoder, data []byte) (*TypedColumnarRecord, bool) {
	return d.tryDecodeColumnarTyped(data)
}

// VerifC02MaxTypedPreallocElems exposes the constant for the harness' edge grid.
const VerifC02MaxTypedPreallocElems = maxTypedPreallocElems
