//go:build verif

package wal

// C07 harness hooks (injected by the build overlay; never present in /repo).

import (
	"os"
	"sync/atomic"
	"time"
)

// VerifC07Lock / Unlock hold the writer mutex: writeEntry blocks, i.e. the disk stalls and the async
// channel fills up (WAL backpressure).
func (w *Writer) VerifC07Lock()   { w.mu.Lock() }
func (w *Writer) VerifC07Unlock() { w.mu.Unlock() }

func (w *Writer) VerifC07ChanLen() int { return len(w.entryChan) }

// VerifC07PathNoLock: current file path; caller holds the mutex or the writer is quiescent.
func (w *Writer) VerifC07PathNoLock() string { return w.currentPath }

func (w *Writer) VerifC07Counts() (total, dropped int64) {
	return atomic.LoadInt64(&w.TotalEntries), atomic.LoadInt64(&w.DroppedEntries)
}

// VerifC07Kill simulates the process dying: whatever is still queued must never reach the disk.
// Caller holds the mutex. The file handle is swapped for /dev/null and rotation is disabled, so a
// later Close() (only there to stop the goroutine) cannot touch the WAL directory.
func (w *Writer) VerifC07Kill() {
	if w.currentFile != nil {
		w.currentFile.Close()
	}
	f, err := os.OpenFile(os.DevNull, os.O_WRONLY, 0)
	if err != nil {
		panic(err)
	}
	w.currentFile = f
	w.config.MaxAge = 1000000 * time.Hour
	w.config.MaxSizeBytes = 1 << 62
	w.config.SyncMode = SyncModeAsync
}
