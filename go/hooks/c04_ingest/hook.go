//go:build verif

package ingest

import (
	"context"
	"fmt"
	"math"
	"runtime/debug"
	"sort"
	"strings"
	"sync"
	"sync/atomic"

	"github.com/basekick-labs/arc/pkg/models"
)

// Verification-only tracing for C04 (injected through the build overlay; the call sites are added by
// the textual rewrite in /verif/props/C04.py). Nothing here changes behaviour, with one exception
// that is OFF unless the harness switches it on: VerifC04RecoverFlush makes the two flush goroutines
// survive a panic (so the in-process parent can observe it); the child process that confirms a crash
// runs with it off, i.e. with the unmodified behaviour.

type VerifC04Col struct {
	Name  string
	Ty    string // i f s b d ?
	Len   int
	VLen  int
	Cells string // generic only: one kind char per cell (n i u f g s b x)
}

type VerifC04Rec struct {
	Kind       string // "G" generic (entry of writeColumnarInternal), "C" converted (after convertColumnsToTyped), "T" typed write
	Database   string
	Meas       string
	Cols       []VerifC04Col
	Times      []int64
	HasTime    bool
	NumRecords int
}

var (
	verifC04Mu      sync.Mutex
	verifC04Trace   []VerifC04Rec
	verifC04Uneven  int
	verifC04Panics  []string
	verifC04Enq     atomic.Int64
	verifC04Done    atomic.Int64
	// VerifC04RecoverFlush: recover panics of flushWorker / periodicFlush (parent process only).
	VerifC04RecoverFlush atomic.Bool
	VerifC04TraceOn      atomic.Bool
)

func verifC04Kind(v interface{}) byte {
	switch x := v.(type) {
	case nil:
		return 'n'
	case int, int8, int16, int32, int64, uint8, uint16, uint32:
		return 'i'
	case uint:
		if uint64(x) > math.MaxInt64 {
			return 'u'
		}
		return 'i'
	case uint64:
		if x > math.MaxInt64 {
			return 'u'
		}
		return 'i'
	case float32:
		if x > float32(math.MaxInt64) || x < float32(math.MinInt64) {
			return 'g'
		}
		return 'f'
	case float64:
		if x > float64(math.MaxInt64) || x < float64(math.MinInt64) {
			return 'g'
		}
		return 'f'
	case string:
		return 's'
	case bool:
		return 'b'
	default:
		return 'x'
	}
}

func verifC04TyOf(v interface{}) (string, int) {
	switch a := v.(type) {
	case []int64:
		return "i", len(a)
	case []float64:
		return "f", len(a)
	case []string:
		return "s", len(a)
	case []bool:
		return "b", len(a)
	default:
		return "?", 0
	}
}

func verifC04TypedCols(data map[string]interface{}, validity map[string][]bool) []VerifC04Col {
	out := make([]VerifC04Col, 0, len(data))
	for name, v := range data {
		ty, n := verifC04TyOf(v)
		out = append(out, VerifC04Col{Name: name, Ty: ty, Len: n, VLen: len(validity[name])})
	}
	sort.Slice(out, func(i, j int) bool { return out[i].Name < out[j].Name })
	return out
}

func verifC04TraceGeneric(database string, record *models.ColumnarRecord) {
	if !VerifC04TraceOn.Load() {
		return
	}
	r := VerifC04Rec{Kind: "G", Database: database, Meas: record.Measurement}
	for name, col := range record.Columns {
		cells := make([]byte, len(col))
		for i, v := range col {
			cells[i] = verifC04Kind(v)
		}
		r.Cols = append(r.Cols, VerifC04Col{Name: name, Len: len(col), Cells: string(cells)})
	}
	sort.Slice(r.Cols, func(i, j int) bool { return r.Cols[i].Name < r.Cols[j].Name })
	verifC04Mu.Lock()
	verifC04Trace = append(verifC04Trace, r)
	verifC04Mu.Unlock()
}

func verifC04TraceTyped(database, measurement string, batch *TypedColumnBatch, numRecords int, converted bool) {
	if !VerifC04TraceOn.Load() {
		return
	}
	r := VerifC04Rec{Kind: "T", Database: database, Meas: measurement, NumRecords: numRecords}
	if converted {
		r.Kind = "C"
	}
	if batch != nil {
		r.Cols = verifC04TypedCols(batch.Data, batch.Validity)
		if t, ok := batch.Data["time"].([]int64); ok {
			r.Times = append([]int64(nil), t...)
			r.HasTime = true
		}
	}
	verifC04Mu.Lock()
	verifC04Trace = append(verifC04Trace, r)
	verifC04Mu.Unlock()
}

// called at the entry of WriteParquetColumnar: are the columns that go into the schema of one length?
func verifC04TraceParquet(columns map[string]interface{}, validity map[string][]bool) {
	if !VerifC04TraceOn.Load() {
		return
	}
	n := -1
	uneven := false
	for name, v := range columns {
		if len(name) > 0 && name[0] == '_' {
			continue
		}
		_, l := verifC04TyOf(v)
		if n == -1 {
			n = l
		} else if l != n {
			uneven = true
		}
	}
	if uneven {
		verifC04Mu.Lock()
		verifC04Uneven++
		verifC04Mu.Unlock()
	}
}

func verifC04Enqueued() { verifC04Enq.Add(1) }

// verifC04GuardFlush wraps the body of a flush goroutine's unit of work.
func verifC04GuardFlush(who string, counted bool, f func()) {
	defer func() {
		if counted {
			verifC04Done.Add(1)
		}
	}()
	if !VerifC04RecoverFlush.Load() {
		f()
		return
	}
	defer func() {
		if r := recover(); r != nil {
			st := string(debug.Stack())
			verifC04Mu.Lock()
			verifC04Panics = append(verifC04Panics, who+"|"+strings.ReplaceAll(fmt.Sprint(r), "\n", " ")+"|"+st)
			verifC04Mu.Unlock()
		}
	}()
	f()
}

// ---- accessors for the harness

func VerifC04TakeTrace() []VerifC04Rec {
	verifC04Mu.Lock()
	defer verifC04Mu.Unlock()
	t := verifC04Trace
	verifC04Trace = nil
	return t
}

func VerifC04TakeUneven() int {
	verifC04Mu.Lock()
	defer verifC04Mu.Unlock()
	n := verifC04Uneven
	verifC04Uneven = 0
	return n
}

func VerifC04TakeFlushPanics() []string {
	verifC04Mu.Lock()
	defer verifC04Mu.Unlock()
	p := verifC04Panics
	verifC04Panics = nil
	return p
}

// VerifC04FlushIdle: every enqueued flush task has been completely processed by a worker.
func VerifC04FlushIdle() bool { return verifC04Enq.Load() == verifC04Done.Load() }

// VerifC04Buffered: rows currently held in buffers (Σ bufferRecordCounts) and number of buffers.
func (b *ArrowBuffer) VerifC04Buffered() (rows int, bufs int) {
	for _, sh := range b.shards {
		sh.mu.RLock()
		for k, v := range sh.buffers {
			if len(v) > 0 {
				bufs++
			}
			rows += sh.bufferRecordCounts[k]
		}
		sh.mu.RUnlock()
	}
	return
}

// VerifC04SigEntry: what getColumnSignature makes of ONE column ("" = skipped).
func VerifC04SigEntry(name string, col interface{}) string {
	return getColumnSignature(map[string]interface{}{name: col})
}

func VerifC04Signature(cols map[string]interface{}) string { return getColumnSignature(cols) }

// VerifC04RowsToColumnar exposes rowsToColumnar; the result is reduced to cell kinds.
func (b *ArrowBuffer) VerifC04RowsToColumnar(measurement string, rows []*models.Record) []VerifC04Col {
	rec := b.rowsToColumnar(measurement, rows)
	var out []VerifC04Col
	for name, col := range rec.Columns {
		cells := make([]byte, len(col))
		for i, v := range col {
			cells[i] = verifC04Kind(v)
		}
		out = append(out, VerifC04Col{Name: name, Len: len(col), Cells: string(cells)})
	}
	sort.Slice(out, func(i, j int) bool { return out[i].Name < out[j].Name })
	return out
}

// VerifC04Convert exposes convertColumnsToTyped.
func (b *ArrowBuffer) VerifC04Convert(measurement string, columns map[string][]interface{}) ([]VerifC04Col, int, error) {
	batch, n, err := b.convertColumnsToTyped(measurement, columns)
	if err != nil {
		return nil, 0, err
	}
	return verifC04TypedCols(batch.Data, batch.Validity), n, nil
}

// VerifC04FlushAllGuarded is FlushAll for the harness' own end-of-sequence flush.
func (b *ArrowBuffer) VerifC04FlushAll() error { return b.FlushAll(context.Background()) }
