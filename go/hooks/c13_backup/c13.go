//go:build verif

package backup

import "github.com/basekick-labs/arc/internal/storage"

// VerifC13WrapBackupStorage lets the C13 harness interpose a fault-injecting wrapper around the
// Manager's (always local) backup destination. Test-only: compiled with the `verif` tag through the
// build overlay, never present in /repo.
func VerifC13WrapBackupStorage(m *Manager, wrap func(storage.Backend) storage.Backend) {
	m.backupStorage = wrap(m.backupStorage)
}
