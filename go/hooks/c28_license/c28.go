//go:build verif

package license

// VerifC28GovernanceClient returns an offline client whose current license carries the
// query_governance feature, so that the governance gate of QueryHandler.executeQuery is open in the
// C28 handler-level harness.
func VerifC28GovernanceClient() *Client {
	return &Client{
		offline: true,
		license: &License{Tier: TierEnterprise, Status: "active", Features: []string{FeatureQueryGovernance}},
		stopCh:  make(chan struct{}),
	}
}
