//go:build verif

package scheduler

import (
	"sync"
	"time"
)

// C29 verification hooks. props/C29.py rewrites `time.NewTicker(interval)` in startJob into
// `verifNewTicker(cqID, interval)` and appends `verifTickDone(job)` after `s.executeJob(job)` in
// runJob, so that the harness fires the ticks of the REAL runJob loop at virtual-clock instants.

type verifTick struct {
	ch       chan time.Time
	interval time.Duration
}

var (
	verifMu    sync.Mutex
	verifTicks = map[int64]*verifTick{}
	verifDone  = make(chan int64, 64)
)

func verifNewTicker(cqID int64, interval time.Duration) *time.Ticker {
	t := time.NewTicker(1000 * time.Hour) // never fires on its own during a run
	ch := make(chan time.Time)
	t.C = ch
	verifMu.Lock()
	verifTicks[cqID] = &verifTick{ch: ch, interval: interval}
	verifMu.Unlock()
	return t
}

func verifTickDone(job *cqJob) { verifDone <- job.cqID }

// VerifFire delivers one tick to the job goroutine of cqID (if the scheduler has one) and waits for
// the execution to finish. Returns "nojob", "done" or "timeout".
func (s *CQScheduler) VerifFire(cqID int64, at time.Time) string {
	s.mu.RLock()
	job, ok := s.jobs[cqID]
	s.mu.RUnlock()
	if !ok {
		return "nojob"
	}
	for len(verifDone) > 0 {
		<-verifDone
	}
	ch := job.ticker.C
	verifMu.Lock()
	var send chan time.Time
	for _, vt := range verifTicks {
		if (<-chan time.Time)(vt.ch) == ch {
			send = vt.ch
		}
	}
	verifMu.Unlock()
	if send == nil {
		return "nojob"
	}
	select {
	case send <- at:
	case <-time.After(20 * time.Second):
		return "timeout"
	}
	select {
	case <-verifDone:
		return "done"
	case <-time.After(120 * time.Second):
		return "timeout"
	}
}

// VerifJobInterval returns the effective interval of the running job for cqID (0 = no job).
func (s *CQScheduler) VerifJobInterval(cqID int64) time.Duration {
	s.mu.RLock()
	defer s.mu.RUnlock()
	if job, ok := s.jobs[cqID]; ok {
		return job.interval
	}
	return 0
}
