//go:build verif

package api

import (
	"context"

	"github.com/basekick-labs/arc/internal/query"
)

// Verification-only exports for C16 (compiled only with `-tags verif` through the build overlay;
// nothing is written under /repo).

// C16Gate runs the request gates of executeQuery that decide whether a query is ACCEPTED, in the
// handler's order: ValidateSQLRequest, validateHeaderDatabase, hasCrossDatabaseSyntax (header set).
// "" = accepted.
func C16Gate(sql, headerDB string) string {
	if err := ValidateSQLRequest(sql); err != nil {
		return "validate"
	}
	if err := validateHeaderDatabase(headerDB); err != nil {
		return "header"
	}
	if headerDB != "" && hasCrossDatabaseSyntax(sql) {
		return "crossdb"
	}
	n := normalizeSQLForShow(sql)
	if showDatabasesPattern.MatchString(n) || showTablesPattern.MatchString(n) {
		return "show"
	}
	return ""
}

// C16Transform is the transformation POST /api/v1/query executes (getTransformedSQLForParallel):
// the SQL text and, when the parallel executor would be used, the partition paths/template/options.
func C16Transform(h *QueryHandler, ctx context.Context, sql, headerDB string) (string, []string, string, string, bool) {
	out, info, cached := h.getTransformedSQLForParallel(ctx, sql, headerDB)
	if info == nil {
		return out, nil, "", "", cached
	}
	return out, info.Paths, info.QueryTemplate, info.ReadParquetOptions, cached
}

// C16TransformCached is getTransformedSQL (the arrow / estimate endpoints; transform cache in front).
func C16TransformCached(h *QueryHandler, ctx context.Context, sql, headerDB string) (string, bool) {
	return h.getTransformedSQL(ctx, sql, headerDB)
}

func C16Executor(h *QueryHandler) *query.ParallelExecutor { return h.parallelExecutor }

func C16IsNoFiles(err error) bool { return isNoFilesFoundError(err) }
