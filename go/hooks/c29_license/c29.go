//go:build verif

package license

// VerifActiveClient returns an offline client holding an active license, so that the real
// CQScheduler.Start / runJob license gates pass in the C29 harness.
func VerifActiveClient() *Client {
	return &Client{
		offline: true,
		license: &License{Tier: TierEnterprise, Status: "active", Features: []string{FeatureCQScheduler}},
		stopCh:  make(chan struct{}),
	}
}
