//go:build verif

package api

import (
	"github.com/basekick-labs/arc/internal/governance"
	"github.com/basekick-labs/arc/internal/license"
	"github.com/gofiber/fiber/v2"
	"github.com/rs/zerolog"
)

// VerifC28QueryHandler returns the REAL (*QueryHandler).executeQuery of a handler that has only the
// governance manager and license client set: a request that passes the governance block is turned
// away by request validation (empty SQL -> 400) before any query engine is needed.
func VerifC28QueryHandler(m *governance.Manager, lc *license.Client) fiber.Handler {
	h := &QueryHandler{logger: zerolog.Nop()}
	h.SetGovernance(m, lc)
	return h.executeQuery
}
