//go:build verif

package api

import (
	"context"

	"github.com/basekick-labs/arc/internal/storage"
	"github.com/basekick-labs/arc/internal/tiering"
	"github.com/rs/zerolog"
)

// VerifTieredFromExpr (C12) returns the `FROM read_parquet(...)` expression the real query handler
// builds for database/measurement when tiering is configured: buildReadParquetExprForMeasurement ->
// Router.GetGlobPathsForQuery -> buildMultiTierReadParquet (metadata-driven tier selection).
func VerifTieredFromExpr(primary storage.Backend, tm *tiering.Manager, database, measurement string) string {
	h := &QueryHandler{storage: primary, tieringManager: tm, logger: zerolog.Nop()}
	return h.buildReadParquetExprForMeasurement(context.Background(), database, measurement, "", "FROM")
}
