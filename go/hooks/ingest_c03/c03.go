//go:build verif

package ingest

// C03 verification shims (injected by /verif's build overlay, never present in /repo): export the
// unexported pure functions of the flush pipeline and provide the trace sink used by the trace
// points that props/C03.py's source rewriter adds to the critical sections of ArrowBuffer.

import (
	"context"
	"runtime"
	"strings"
	"sync"
	"time"
)

func (b *ArrowBuffer) VerifC03MergeBatches(batches []interface{}) (*TypedColumnBatch, error) {
	return b.mergeBatches(batches)
}

type VerifC03Bucket struct {
	HourID  int64
	Indices []int
	Min     int64
	Max     int64
}

func VerifC03GroupByHour(times []int64) ([]VerifC03Bucket, int64, int64, error) {
	m, mn, mx, err := groupByHour(times)
	if err != nil {
		return nil, 0, 0, err
	}
	out := make([]VerifC03Bucket, 0, len(m))
	for id, bk := range m {
		out = append(out, VerifC03Bucket{HourID: id, Indices: bk.indices, Min: bk.minTime, Max: bk.maxTime})
		if bk.hourID != id {
			out[len(out)-1].HourID = bk.hourID ^ 0x5a5a // make the inconsistency visible
		}
	}
	return out, mn, mx, nil
}

func VerifC03PermuteByTime(times []int64) []int      { return permuteByTime(times) }
func VerifC03RadixPermuteByTime(times []int64) []int { return radixPermuteByTime(times) }
func VerifC03RadixSortBias(t int64) uint64           { return radixSortBias(t) }
func VerifC03HourIDToTime(h int64) time.Time         { return hourIDToTime(h) }
func VerifC03RadixSkipThreshold() int                { return radixSkipThreshold }
func VerifC03MicroPerHour() int64                    { return microPerHour }
func VerifC03ColumnSignature(cols map[string]interface{}) string {
	return getColumnSignature(cols)
}

func VerifC03SortBatch(batch *TypedColumnBatch, keys []string) *TypedColumnBatch {
	return sortTypedColumnBatchByKeys(batch, keys)
}

func VerifC03SliceBatch(batch *TypedColumnBatch, indices []int) *TypedColumnBatch {
	return sliceTypedColumnBatchByIndices(batch, indices)
}

func (b *ArrowBuffer) VerifC03SortKeys(measurement string) []string { return b.getSortKeys(measurement) }

func (b *ArrowBuffer) VerifC03StoragePath(database, measurement string, t time.Time) string {
	return b.generateStoragePath(database, measurement, t)
}

// VerifC03Flush runs the real flushPartitionedData (merge is done by the caller).
func (b *ArrowBuffer) VerifC03Flush(ctx context.Context, database, measurement string, merged *TypedColumnBatch, n int) error {
	return b.flushPartitionedData(ctx, database+"/"+measurement, database, measurement, merged, n, flushTypeSync, time.Now())
}

func (b *ArrowBuffer) VerifC03QueueCap() int { return cap(b.flushQueue) }

// ---- trace sink

// VerifC03Trace, when set, receives one call per trace point. It is called while the lock that
// protects the traced state is held (shard.mu for append/extract/syncextract; the trace mutex for
// the enqueue outcome), so the order of calls is a linearisation of the critical sections.
var VerifC03Trace func(b *ArrowBuffer, ev, key, why string, recs []interface{})

var verifC03Mu sync.Mutex

func verifC03Why() string {
	pcs := make([]uintptr, 16)
	n := runtime.Callers(3, pcs)
	frames := runtime.CallersFrames(pcs[:n])
	for {
		f, more := frames.Next()
		switch {
		case strings.HasSuffix(f.Function, ".flushOnSchemaChangeLocked"):
			return "schema"
		case strings.HasSuffix(f.Function, ".flushAgedBuffers"):
			return "age"
		case strings.HasSuffix(f.Function, ".FlushAll"):
			return "flushall"
		case strings.HasSuffix(f.Function, ".Close"):
			return "close"
		}
		if !more {
			return "other"
		}
	}
}

func (b *ArrowBuffer) verifC03Emit(ev, key string, recs []interface{}) {
	f := VerifC03Trace
	if f == nil {
		return
	}
	why := ""
	if ev == "syncextract" {
		why = verifC03Why()
	}
	verifC03Mu.Lock()
	f(b, ev, key, why, recs)
	verifC03Mu.Unlock()
}

// verifC03Pre / verifC03Post bracket tryEnqueueFlush's non-blocking select: the trace mutex is taken
// before the select and released in whichever arm fires, so the recorded outcome is atomic with the
// channel operation (a worker that receives the task logs its "take" only after the "enq").
// The records are copied first: the worker nils the task's slice after merging.
func (b *ArrowBuffer) verifC03Pre(recs []interface{}) []interface{} {
	cp := append([]interface{}(nil), recs...)
	verifC03Mu.Lock()
	return cp
}

func (b *ArrowBuffer) verifC03Post(ev, key, why string, recs []interface{}) {
	if f := VerifC03Trace; f != nil {
		f(b, ev, key, why, recs)
	}
	verifC03Mu.Unlock()
}

func (b *ArrowBuffer) verifC03EmitWhy(ev, key, why string, recs []interface{}) {
	f := VerifC03Trace
	if f == nil {
		return
	}
	verifC03Mu.Lock()
	f(b, ev, key, why, recs)
	verifC03Mu.Unlock()
}
