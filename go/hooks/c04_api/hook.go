//go:build verif

package api

// Verification-only exports for C04 (build tag verif, injected through the overlay).

// VerifC04ExtractMeasurements exposes MsgPackHandler.extractMeasurements.
func (h *MsgPackHandler) VerifC04ExtractMeasurements(records interface{}) []string {
	return h.extractMeasurements(records)
}

// VerifC04Decompress exposes decompressRequest (gzip / zstd / plain dispatch with the size cap).
func VerifC04Decompress(raw []byte, max int) ([]byte, string, error) {
	return decompressRequest(raw, max)
}

func VerifC04ValidDB(s string) bool   { return isValidDatabaseName(s) }
func VerifC04ValidMeas(s string) bool { return isValidMeasurementName(s) }
