//go:build verif

package api

import (
	"github.com/basekick-labs/arc/internal/cluster"
	"github.com/gofiber/fiber/v2"
)

// Verification-only exports for C30 (compiled only with `-tags verif` through the build overlay;
// nothing is written under /repo).

// C30DecideForward exposes the unexported three-way routing decision.
// 0 = ForwardLocal, 1 = ForwardToPeer, 2 = ForwardAlreadyForwarded.
func C30DecideForward(router *cluster.Router, c *fiber.Ctx, isWrite bool) int {
	switch decideForward(router, c, isWrite) {
	case ForwardLocal:
		return 0
	case ForwardToPeer:
		return 1
	case ForwardAlreadyForwarded:
		return 2
	}
	return -1
}

func C30IsHopByHop(k string) bool               { return isHopByHop(k) }
func C30IsClientForwardingHeader(k string) bool { return isClientForwardingHeader(k) }
