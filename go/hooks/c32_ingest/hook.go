//go:build verif

package ingest

import "sort"

// VerifC32BufferKeys returns the keys ("database/measurement") of every buffer currently held by the
// ArrowBuffer, sorted. Verification-only (`-tags verif`, injected through the build overlay).
func (b *ArrowBuffer) VerifC32BufferKeys() []string {
	var out []string
	for _, sh := range b.shards {
		sh.mu.Lock()
		for k, v := range sh.buffers {
			if len(v) > 0 {
				out = append(out, k)
			}
		}
		sh.mu.Unlock()
	}
	sort.Strings(out)
	return out
}

// VerifC32SplitBufferKey exposes splitBufferKey (flush-time inverse of the key concatenation).
func VerifC32SplitBufferKey(k string) []string { return splitBufferKey(k) }
