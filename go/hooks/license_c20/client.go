//go:build verif

package license

// VerifNewClient (verification harness only): a license client holding the given, already
// "verified" license — no network, no signature check, no background validation. Used by the C20
// harness to switch the RBAC feature on (IsRBACEnabled) so that the cached permission path runs.
func VerifNewClient(l *License) *Client {
	return &Client{license: l, offline: true, stopCh: make(chan struct{})}
}
