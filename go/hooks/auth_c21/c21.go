//go:build verif

package auth

// Exports for the C21 harness (injected by the /verif overlay as zz_verif_c21.go; never in /repo).

// VerifCleanupExpiredCache runs the cache janitor's body once.
func (am *AuthManager) VerifCleanupExpiredCache() { am.cleanupExpiredCache() }

// VerifCacheLen is len(am.cache).
func (am *AuthManager) VerifCacheLen() int {
	am.cacheMu.RLock()
	defer am.cacheMu.RUnlock()
	return len(am.cache)
}

// VerifCacheHas reports whether the cache holds an entry for this token value (expired or not).
func (am *AuthManager) VerifCacheHas(token string) bool {
	am.cacheMu.RLock()
	defer am.cacheMu.RUnlock()
	_, ok := am.cache[cacheKey(token)]
	return ok
}

// VerifTokenPrefix is tokenPrefix.
func VerifTokenPrefix(token string) string { return tokenPrefix(token) }
