//go:build verif

package api

import "context"

// Verification-only exports for C14 (compiled only with `-tags verif` through the build overlay;
// nothing is written under /repo).

// VerifC14Transformed is the rewrite the arrow / estimate / measurement endpoints execute
// (getTransformedSQL, cached).
func (h *QueryHandler) VerifC14Transformed(sql, headerDB string) string {
	out, _ := h.getTransformedSQL(context.Background(), sql, headerDB)
	return out
}

// VerifC14TransformedParallel is the rewrite POST /api/v1/query executes
// (getTransformedSQLForParallel): the SQL text, and the partition paths + template when the
// parallel executor would be used.
func (h *QueryHandler) VerifC14TransformedParallel(sql, headerDB string) (string, []string, string) {
	out, info, _ := h.getTransformedSQLForParallel(context.Background(), sql, headerDB)
	if info == nil {
		return out, nil, ""
	}
	return out, info.Paths, info.QueryTemplate
}

// VerifC14HasCross exposes hasCrossDatabaseSyntax.
func VerifC14HasCross(sql string) bool { return hasCrossDatabaseSyntax(sql) }

// VerifC14HeaderOK exposes validateHeaderDatabase.
func VerifC14HeaderOK(h string) bool { return validateHeaderDatabase(h) == nil }

// VerifC14ShowKind: 0 = not a SHOW, 1 = SHOW DATABASES, 2 = SHOW TABLES (db = explicit database or "").
func VerifC14ShowKind(sql string) (int, string) {
	n := normalizeSQLForShow(sql)
	if showDatabasesPattern.MatchString(n) {
		return 1, ""
	}
	if m := showTablesPattern.FindStringSubmatch(n); m != nil {
		if len(m) > 1 {
			return 2, m[1]
		}
		return 2, ""
	}
	return 0, ""
}
