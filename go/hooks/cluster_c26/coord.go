//go:build verif

package cluster

import (
	"net"
	"time"

	"github.com/basekick-labs/arc/internal/cluster/protocol"
	"github.com/basekick-labs/arc/internal/cluster/security"
	"github.com/basekick-labs/arc/internal/config"
	"github.com/rs/zerolog"
)

// VerifC26Coordinator builds the minimal Coordinator the nonce-protected handlers need. The nonce
// cache retention is passed in by the harness from the value factgen read at the real construction
// site (`c.nonceCache = security.NewNonceCache(…)` in Start()).
func VerifC26Coordinator(secret, clusterName, localID string, ttl time.Duration) *Coordinator {
	return &Coordinator{
		cfg:        &config.ClusterConfig{SharedSecret: secret, ClusterName: clusterName},
		logger:     zerolog.Nop(),
		localNode:  &Node{ID: localID},
		nonceCache: security.NewNonceCache(ttl),
	}
}

func (c *Coordinator) VerifForwardApply(conn net.Conn, req *protocol.ForwardApplyRequest) {
	c.handleForwardApply(conn, req)
}

func (c *Coordinator) VerifReplicateSync(conn net.Conn, req *protocol.ReplicateSync) {
	c.handleReplicateSync(conn, req)
}

func (c *Coordinator) VerifNonceLen() int { return c.nonceCache.Len() }
