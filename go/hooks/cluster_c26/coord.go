//go:build verif

package cluster

import (
	"fmt"
	"net"
	"reflect"
	"time"
	"unsafe"

	"github.com/basekick-labs/arc/internal/license"

	"github.com/basekick-labs/arc/internal/cluster/protocol"
	"github.com/basekick-labs/arc/internal/cluster/security"
	"github.com/basekick-labs/arc/internal/config"
	"github.com/rs/zerolog"
)

// VerifC26Coordinator builds the minimal Coordinator the nonce-protected handlers need. The nonce
// cache retention is passed in by the harness from the value factgen read at the real construction
// site (`c.nonceCache = security.NewNonceCache(…)` in Start()).
func VerifC26Coordinator(secret, clusterName, localID string, ttl time.Duration) *Coordinator {
	return &Coordinator{
		cfg:        &config.ClusterConfig{SharedSecret: secret, ClusterName: clusterName},
		logger:     zerolog.Nop(),
		localNode:  &Node{ID: localID},
		nonceCache: security.NewNonceCache(ttl),
	}
}

func (c *Coordinator) VerifForwardApply(conn net.Conn, req *protocol.ForwardApplyRequest) {
	c.handleForwardApply(conn, req)
}

func (c *Coordinator) VerifReplicateSync(conn net.Conn, req *protocol.ReplicateSync) {
	c.handleReplicateSync(conn, req)
}

func (c *Coordinator) VerifNonceLen() int { return c.nonceCache.Len() }

// VerifC26Lifecycle goes through the REAL lifecycle — NewCoordinator, Start, StartReplication, the
// TCP accept loop — so that the nonce cache is the one Start() really constructs (or fails to).
// license.Client has no constructor usable offline, so an in-memory enterprise licence is planted
// into its unexported field. raftDir == "" gives a writer without Raft.
func VerifC26Lifecycle(secret, clusterName, raftDir string) (c *Coordinator, addr string, err error) {
	lc := &license.Client{}
	f := reflect.ValueOf(lc).Elem().FieldByName("license")
	if !f.IsValid() {
		return nil, "", fmt.Errorf("license.Client has no field named license")
	}
	lic := &license.License{Tier: license.TierEnterprise, Status: "active", Features: []string{license.FeatureClustering}}
	reflect.NewAt(f.Type(), unsafe.Pointer(f.UnsafeAddr())).Elem().Set(reflect.ValueOf(lic))
	c, err = NewCoordinator(&CoordinatorConfig{
		Config: &config.ClusterConfig{
			Enabled: true, NodeID: "writer-1", Role: "writer", ClusterName: clusterName, SharedSecret: secret,
			CoordinatorAddr: "127.0.0.1:0", RaftDataDir: raftDir, RaftBindAddr: "127.0.0.1:0", RaftBootstrap: raftDir != "",
			RaftElectionTimeout: 1000, RaftHeartbeatTimeout: 1000, RaftSnapshotInterval: 300, RaftSnapshotThreshold: 8192,
			ReplicationEnabled: true, ReplicationBufferSize: 64, HealthCheckInterval: 60, HealthCheckTimeout: 5,
			UnhealthyThreshold: 3, HeartbeatInterval: 60,
		},
		LicenseClient: lc, Version: "verif", Logger: zerolog.Nop(),
	})
	if err != nil {
		return nil, "", err
	}
	if err = c.Start(); err != nil {
		return nil, "", err
	}
	if err = c.StartReplication(); err != nil {
		c.Stop()
		return nil, "", err
	}
	return c, c.listener.Addr().String(), nil
}

// VerifNonceLenOrMinus1 is -1 when Start() left the cache nil.
func (c *Coordinator) VerifNonceLenOrMinus1() int {
	if c.nonceCache == nil {
		return -1
	}
	return c.nonceCache.Len()
}
