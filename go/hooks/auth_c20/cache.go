//go:build verif

package auth

import (
	"fmt"
	"sort"
)

// Verification-harness hooks for C20 (never compiled into arc: tag `verif` + build overlay).
//
// VerifEvictChoose lets the harness pick — and thereby KNOW — which entry a capacity eviction removes.
// The production code deletes "the first key Go's map iteration yields", i.e. an arbitrary entry; any
// choice made here is one of its legal behaviours. kind is "P" (permission-result cache) or "T"
// (token-data cache); keys are the canonical names of the current entries, sorted; the return value
// indexes into keys. The overlay rewrites the two eviction loops to consult verifPickPerm / verifPickTok.
var VerifEvictChoose func(kind string, keys []string) int

func verifPermKeyName(k permissionCacheKey) string {
	m := k.measurement
	if m == "" {
		m = "~"
	}
	return fmt.Sprintf("P:%d:%s:%s:%s", k.tokenID, k.database, m, k.permission)
}

func verifPickPerm(m map[permissionCacheKey]*permissionCacheEntry, dflt permissionCacheKey) permissionCacheKey {
	if VerifEvictChoose == nil || len(m) == 0 {
		return dflt
	}
	names := make([]string, 0, len(m))
	by := map[string]permissionCacheKey{}
	for k := range m {
		n := verifPermKeyName(k)
		names = append(names, n)
		by[n] = k
	}
	sort.Strings(names)
	i := VerifEvictChoose("P", names)
	if i < 0 || i >= len(names) {
		return dflt
	}
	return by[names[i]]
}

func verifPickTok(m map[int64]*tokenRBACData, dflt int64) int64 {
	if VerifEvictChoose == nil || len(m) == 0 {
		return dflt
	}
	ids := make([]int64, 0, len(m))
	for k := range m {
		ids = append(ids, k)
	}
	sort.Slice(ids, func(a, b int) bool { return ids[a] < ids[b] })
	names := make([]string, len(ids))
	for i, id := range ids {
		names[i] = fmt.Sprintf("T:%d", id)
	}
	i := VerifEvictChoose("T", names)
	if i < 0 || i >= len(ids) {
		return dflt
	}
	return ids[i]
}

// VerifCleanup runs the per-minute sweep now (under the virtual clock).
func (rm *RBACManager) VerifCleanup() { rm.cleanupExpiredCache() }

// VerifCacheSizes: number of entries in the permission-result cache and in the token-data cache.
func (rm *RBACManager) VerifCacheSizes() (perm, tok int) {
	rm.permCacheMu.RLock()
	perm = len(rm.permCache)
	rm.permCacheMu.RUnlock()
	rm.tokenCacheMu.RLock()
	tok = len(rm.tokenCache)
	rm.tokenCacheMu.RUnlock()
	return
}
