//go:build verif

package cluster

import "net/http"

// C30SetRoundTripper replaces the transport of the router's HTTP client so the harness can observe
// (and answer) the outbound forward without sockets. Verification-only (`-tags verif`, overlay).
func (r *Router) C30SetRoundTripper(rt http.RoundTripper) { r.httpClient.Transport = rt }
