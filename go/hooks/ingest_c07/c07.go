//go:build verif

package ingest

// C07 harness hooks (injected by the build overlay as zz_verif_c07.go; never present in /repo).
// verifC07Taken / verifC07Done are called from flushWorker through two trace points added by
// props/C07.py (after `b.queueDepth.Add(-1)` and after `task.cancel()`); they only count and let the
// harness park the worker before it starts a task (queue saturation).

import (
	"sync/atomic"
	"time"
)

var (
	verifC07TakenN atomic.Int64
	verifC07DoneN  atomic.Int64
	// VerifC07Gate, when set, is called by the flush worker right after it took a task off the queue.
	VerifC07Gate func()
)

// verifC07Taking runs BEFORE queueDepth is decremented (so "depth == 0 and taken == done" really means idle),
// verifC07Taken after it (the gate).
func (b *ArrowBuffer) verifC07Taking() { verifC07TakenN.Add(1) }

func (b *ArrowBuffer) verifC07Taken() {
	if g := VerifC07Gate; g != nil {
		g()
	}
}

// VerifC07OnDone, when set, is called when the worker finished a task, with the flush-failure flag as it is
// at that moment (lets the harness tell "failed and flagged" from "failed and not flagged").
var VerifC07OnDone func(flag bool)

func (b *ArrowBuffer) verifC07Done() {
	if h := VerifC07OnDone; h != nil {
		h(b.hasFlushFailure.Load())
	}
	verifC07DoneN.Add(1)
}

// VerifC07SetFlushTimeout overrides ingest.flush_timeout_seconds (whole seconds in the config) with a
// finer value, so that a stalled storage write reaches its deadline in milliseconds.
func (b *ArrowBuffer) VerifC07SetFlushTimeout(d time.Duration) { b.flushTimeout = d }

// VerifC07Counters: tasks taken / finished by flush workers since process start.
func VerifC07Counters() (taken, done int64) { return verifC07TakenN.Load(), verifC07DoneN.Load() }

// VerifC07Bufs: the int64 column `gid` of every buffered batch, per buffer key.
func (b *ArrowBuffer) VerifC07Bufs() map[string][]int64 {
	out := map[string][]int64{}
	for _, sh := range b.shards {
		sh.mu.RLock()
		for k, batches := range sh.buffers {
			for _, x := range batches {
				if tcb, ok := x.(*TypedColumnBatch); ok {
					if g, ok := tcb.Data["gid"].([]int64); ok {
						out[k] = append(out[k], g...)
					} else {
						out[k] = append(out[k], -1)
					}
				}
			}
		}
		sh.mu.RUnlock()
	}
	return out
}

// VerifC07FlushAged runs the body of the age timer (periodicFlush's flushTimer arm) once.
func (b *ArrowBuffer) VerifC07FlushAged() { b.flushAgedBuffers() }

func (b *ArrowBuffer) VerifC07Closing() bool    { return b.closing.Load() }
func (b *ArrowBuffer) VerifC07QueueDepth() int64 { return b.queueDepth.Load() }

var verifC07FullN atomic.Int64

// verifC07Full is called from tryEnqueueFlush's queue-full arm (trace point added by props/C07.py).
func (b *ArrowBuffer) verifC07Full() { verifC07FullN.Add(1) }

// VerifC07FullCount: queue-full drops since process start.
func VerifC07FullCount() int64 { return verifC07FullN.Load() }
