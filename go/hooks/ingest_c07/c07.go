//go:build verif

package ingest

// C07 harness hooks (injected by the build overlay as zz_verif_c07.go; never present in /repo).
// verifC07Taken / verifC07Done are called from flushWorker through two trace points added by
// props/C07.py (after `b.queueDepth.Add(-1)` and after `task.cancel()`); they only count and let the
// harness park the worker before it starts a task (queue saturation).

import "sync/atomic"

var (
	verifC07TakenN atomic.Int64
	verifC07DoneN  atomic.Int64
	// VerifC07Gate, when set, is called by the flush worker right after it took a task off the queue.
	VerifC07Gate func()
)

// verifC07Taking runs BEFORE queueDepth is decremented (so "depth == 0 and taken == done" really means idle),
// verifC07Taken after it (the gate).
func (b *ArrowBuffer) verifC07Taking() { verifC07TakenN.Add(1) }

func (b *ArrowBuffer) verifC07Taken() {
	if g := VerifC07Gate; g != nil {
		g()
	}
}

func (b *ArrowBuffer) verifC07Done() { verifC07DoneN.Add(1) }

// VerifC07Counters: tasks taken / finished by flush workers since process start.
func VerifC07Counters() (taken, done int64) { return verifC07TakenN.Load(), verifC07DoneN.Load() }

// VerifC07Bufs: the int64 column `gid` of every buffered batch, per buffer key.
func (b *ArrowBuffer) VerifC07Bufs() map[string][]int64 {
	out := map[string][]int64{}
	for _, sh := range b.shards {
		sh.mu.RLock()
		for k, batches := range sh.buffers {
			for _, x := range batches {
				if tcb, ok := x.(*TypedColumnBatch); ok {
					if g, ok := tcb.Data["gid"].([]int64); ok {
						out[k] = append(out[k], g...)
					} else {
						out[k] = append(out[k], -1)
					}
				}
			}
		}
		sh.mu.RUnlock()
	}
	return out
}

// VerifC07FlushAged runs the body of the age timer (periodicFlush's flushTimer arm) once.
func (b *ArrowBuffer) VerifC07FlushAged() { b.flushAgedBuffers() }

func (b *ArrowBuffer) VerifC07Closing() bool    { return b.closing.Load() }
func (b *ArrowBuffer) VerifC07QueueDepth() int64 { return b.queueDepth.Load() }

var verifC07FullN atomic.Int64

// verifC07Full is called from tryEnqueueFlush's queue-full arm (trace point added by props/C07.py).
func (b *ArrowBuffer) verifC07Full() { verifC07FullN.Add(1) }

// VerifC07FullCount: queue-full drops since process start.
func VerifC07FullCount() int64 { return verifC07FullN.Load() }
