//go:build verif

package compaction

// C09 verification hooks (injected by /verif's build overlay as zz_verif_hook.go; never in /repo).
//
// The overlay's SPEC.rewrite replaces, in CompactPartition, the call
//     RunJobInSubprocess(ctx, config, m.logger, extraEnv...)
// by verifRunJob(...), and in RunSubprocessJob inserts `backend = verifWrapBackend(backend)` after
// the backend is created. With both hook variables nil the behaviour is byte-identical.

import (
	"context"
	"database/sql"

	"github.com/basekick-labs/arc/internal/storage"
	"github.com/rs/zerolog"
)

// VerifRunJob, when set, replaces the fork/exec of `arc compact --job-stdin` (the harness runs the
// very same RunSubprocessJob in-process and converts an injected kill into the error a killed child
// produces).
var VerifRunJob func(ctx context.Context, config *SubprocessJobConfig, logger zerolog.Logger, extraEnv ...string) (*SubprocessJobResult, error)

// VerifWrapBackend, when set, wraps the storage backend the job (child side) works on.
var VerifWrapBackend func(b storage.Backend) storage.Backend

func verifRunJob(ctx context.Context, config *SubprocessJobConfig, logger zerolog.Logger, extraEnv ...string) (*SubprocessJobResult, error) {
	if VerifRunJob != nil {
		return VerifRunJob(ctx, config, logger, extraEnv...)
	}
	return RunJobInSubprocess(ctx, config, logger, extraEnv...)
}

// VerifSharedDuck, when set, is used by the in-process child instead of opening (and closing) a new
// in-memory DuckDB per job — instance start-up/tear-down dominated the harness run time. The job
// still pins its own connection (db.Conn) and runs the same statements.
var VerifSharedDuck *sql.DB

func verifOpenDuck() (*sql.DB, error) {
	if VerifSharedDuck != nil {
		return VerifSharedDuck, nil
	}
	return sql.Open("duckdb", "")
}

func verifCloseDuck(db *sql.DB) {
	if db != VerifSharedDuck {
		db.Close()
	}
}

func verifWrapBackend(b storage.Backend) storage.Backend {
	if VerifWrapBackend != nil {
		return VerifWrapBackend(b)
	}
	return b
}
