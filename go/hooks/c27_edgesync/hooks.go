//go:build verif

package edgesync

// VerifStep is called (through the overlay rewrite of ledger.go, see props/C27.py) at the top of every
// state-changing Ledger method the agent uses. The C27 harness uses it as a step/crash point and to
// observe the order "acknowledgment, then MarkSynced".
var VerifStep func(method, path string)

func verifStep(method, path string) {
	if VerifStep != nil {
		VerifStep(method, path)
	}
}
