//go:build verif

// Verification hook (injected by the build overlay as internal/cluster/raft/zz_verif_dump.go):
// exports a deep copy of every replicated field of ClusterFSM — primary maps, scalars AND all
// secondary indexes — so the C22/C23 harnesses can dump and monitor the real state.
package raft

type VerifState struct {
	Nodes     map[string]NodeInfo
	PW, AC    string
	Files     map[string]FileEntry
	FilesByDB map[string][]string

	Tokens   map[int64]TokenEntry
	ByPrefix map[string][]int64
	ByName   map[string]int64

	Orgs         map[int64]OrganizationEntry
	OrgsByName   map[string]int64
	Teams        map[int64]TeamEntry
	TeamsByOrg   map[int64]map[string]int64
	Roles        map[int64]RoleEntry
	RolesByTeam  map[int64][]int64
	MPerms       map[int64]MeasurementPermissionEntry
	MPermsByRole map[int64][]int64
	Members      map[int64]TokenMembershipEntry
	MemByPair    map[int64]map[int64]int64
	MemByToken   map[int64][]int64
	MemByTeam    map[int64][]int64
	NilEntries   int // nil pointers found in primary maps (never produced by apply)
}

func verifSet[K comparable](m map[K]map[int64]struct{}) map[K][]int64 {
	out := make(map[K][]int64, len(m))
	for k, inner := range m {
		ids := make([]int64, 0, len(inner))
		for id := range inner {
			ids = append(ids, id)
		}
		out[k] = ids
	}
	return out
}

// VerifState returns a deep copy of the replicated state.
func (f *ClusterFSM) VerifState() VerifState {
	f.mu.RLock()
	defer f.mu.RUnlock()
	s := VerifState{PW: f.primaryWriterID, AC: f.activeCompactorID}
	s.Nodes = make(map[string]NodeInfo, len(f.nodes))
	for k, v := range f.nodes {
		if v == nil {
			s.NilEntries++
			continue
		}
		s.Nodes[k] = *v
	}
	s.Files = make(map[string]FileEntry, len(f.files))
	for k, v := range f.files {
		if v == nil {
			s.NilEntries++
			continue
		}
		s.Files[k] = *v
	}
	s.FilesByDB = make(map[string][]string, len(f.filesByDB))
	for db, inner := range f.filesByDB {
		ps := make([]string, 0, len(inner))
		for p := range inner {
			ps = append(ps, p)
		}
		s.FilesByDB[db] = ps
	}
	s.Tokens = make(map[int64]TokenEntry, len(f.tokens))
	for k, v := range f.tokens {
		if v == nil {
			s.NilEntries++
			continue
		}
		s.Tokens[k] = *v
	}
	s.ByPrefix = make(map[string][]int64, len(f.tokensByPrefix))
	for k, v := range f.tokensByPrefix {
		s.ByPrefix[k] = append([]int64(nil), v...)
	}
	s.ByName = make(map[string]int64, len(f.tokensByName))
	for k, v := range f.tokensByName {
		s.ByName[k] = v
	}
	s.Orgs = make(map[int64]OrganizationEntry, len(f.organizations))
	for k, v := range f.organizations {
		if v == nil {
			s.NilEntries++
			continue
		}
		s.Orgs[k] = *v
	}
	s.OrgsByName = make(map[string]int64, len(f.organizationsByName))
	for k, v := range f.organizationsByName {
		s.OrgsByName[k] = v
	}
	s.Teams = make(map[int64]TeamEntry, len(f.teams))
	for k, v := range f.teams {
		if v == nil {
			s.NilEntries++
			continue
		}
		s.Teams[k] = *v
	}
	s.TeamsByOrg = make(map[int64]map[string]int64, len(f.teamsByOrg))
	for k, inner := range f.teamsByOrg {
		m := make(map[string]int64, len(inner))
		for n, id := range inner {
			m[n] = id
		}
		s.TeamsByOrg[k] = m
	}
	s.Roles = make(map[int64]RoleEntry, len(f.roles))
	for k, v := range f.roles {
		if v == nil {
			s.NilEntries++
			continue
		}
		s.Roles[k] = *v
	}
	s.RolesByTeam = verifSet(f.rolesByTeam)
	s.MPerms = make(map[int64]MeasurementPermissionEntry, len(f.measurementPermissions))
	for k, v := range f.measurementPermissions {
		if v == nil {
			s.NilEntries++
			continue
		}
		s.MPerms[k] = *v
	}
	s.MPermsByRole = verifSet(f.measurementPermsByRole)
	s.Members = make(map[int64]TokenMembershipEntry, len(f.tokenMemberships))
	for k, v := range f.tokenMemberships {
		if v == nil {
			s.NilEntries++
			continue
		}
		s.Members[k] = *v
	}
	s.MemByPair = make(map[int64]map[int64]int64, len(f.tokenMembershipsByPair))
	for k, inner := range f.tokenMembershipsByPair {
		m := make(map[int64]int64, len(inner))
		for t, id := range inner {
			m[t] = id
		}
		s.MemByPair[k] = m
	}
	s.MemByToken = verifSet(f.tokenMembershipsByToken)
	s.MemByTeam = verifSet(f.tokenMembershipsByTeam)
	return s
}
