//go:build verif

package wal

// C05 verification shim (injected by /verif's build overlay, never present in /repo): lets the harness hold
// the writer goroutine at the entry of writeEntry (it takes w.mu there), i.e. emulate a WAL writer that lags
// behind the acknowledgements — "holds w.mu during write+fsync, or the channel has a backlog".
// No Append* path takes w.mu unless a replication hook is set.

func (w *Writer) VerifC05Pause()  { w.mu.Lock() }
func (w *Writer) VerifC05Resume() { w.mu.Unlock() }
