//go:build verif

package wal

// VerifC06Hold holds the writer goroutine back (it cannot complete any write while w.mu is held;
// entries are written strictly in queue order) and returns the release function. Append*/tryEnqueue
// do not take w.mu when no replication hook is set, so appends still return immediately.
func (w *Writer) VerifC06Hold() (release func()) {
	w.mu.Lock()
	return w.mu.Unlock
}
