//go:build verif && c06small

package wal

// Boundary-size stage (harness c06s): the size limit is lowered so that the limit-8..limit+8 grid
// is cheap. The source's value stays referenced so the rewritten constant is not unused-checked.
const MaxWALPayloadSize = 4096

const _ = maxWALPayloadSizeSrc
