//go:build verif && !c06small

package wal

// The overlay rewrite of wal.go (props/C06.py) renames the source's constant to
// maxWALPayloadSizeSrc; this build keeps the source's value.
const MaxWALPayloadSize = maxWALPayloadSizeSrc
