//go:build verif

package api

import (
	"context"
	"database/sql"

	"github.com/basekick-labs/arc/internal/ingest"
	"github.com/basekick-labs/arc/pkg/models"
)

// C29 verification hooks (injected by /verif's build overlay; never part of /repo).

// VerifAggFault, when non-nil, is consulted at the top of executeAggregation (fault point inserted by
// props/C29.py's SPEC.rewrite). A non-nil error makes the aggregation fail before it touches DuckDB.
var VerifAggFault func(cqName string) error

// VerifWriteFault, when non-nil and returning an error, makes the destination write of
// executeAggregation reject the rows (the call `h.arrowBuffer.WriteColumnarRecord(ctx, cq.Database,
// record)` is rewritten into verifWrite(h.arrowBuffer, …) by props/C29.py).
var VerifWriteFault func() error

// Ground truth for the monitors: how many destination writes of executeAggregation were accepted /
// rejected (by the fault or by the real ArrowBuffer) since the harness last reset the counters.
var VerifWriteOK, VerifWriteRejected int

func verifWrite(ab *ingest.ArrowBuffer, ctx context.Context, database string, record *models.ColumnarRecord) error {
	if VerifWriteFault != nil {
		if err := VerifWriteFault(); err != nil {
			VerifWriteRejected++
			return err
		}
	}
	err := ab.WriteColumnarRecord(ctx, database, record)
	if err != nil {
		VerifWriteRejected++
	} else {
		VerifWriteOK++
	}
	return err
}

// VerifSQLite exposes the handler's SQLite handle (read-only use by the harness).
func (h *ContinuousQueryHandler) VerifSQLite() *sql.DB { return h.sqliteDB }
