//go:build verif

package api

import "database/sql"

// C29 verification hooks (injected by /verif's build overlay; never part of /repo).

// VerifAggFault, when non-nil, is consulted at the top of executeAggregation (fault point inserted by
// props/C29.py's SPEC.rewrite). A non-nil error makes the aggregation fail before it touches DuckDB.
var VerifAggFault func(cqName string) error

// VerifSQLite exposes the handler's SQLite handle (read-only use by the harness).
func (h *ContinuousQueryHandler) VerifSQLite() *sql.DB { return h.sqliteDB }
