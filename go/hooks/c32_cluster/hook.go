//go:build verif

package cluster

import (
	"github.com/basekick-labs/arc/internal/cluster/replication"
	"github.com/basekick-labs/arc/internal/ingest"
	"github.com/rs/zerolog"
)

// VerifC32ReplicationIngestHandler builds the coordinator's real replication ingest handler
// (buildReplicationIngestHandler) over the given ArrowBuffer.
func VerifC32ReplicationIngestHandler(buf *ingest.ArrowBuffer) replication.IngestHandler {
	c := &Coordinator{ingestBuffer: buf, logger: zerolog.Nop()}
	return c.buildReplicationIngestHandler()
}
