//go:build verif

package tiering

import "github.com/basekick-labs/arc/internal/storage"

// Verification-only accessor (C12): the real Migrator owned by a real Manager. Compiled only with
// `-tags verif` through the build overlay; nothing is written under /repo.
func (m *Manager) VerifMigrator() *Migrator { return m.migrator }

// VerifQueryView returns a Manager that shares this Manager's MetadataStore (and therefore its
// per-measurement tier cache), policies and config but uses the given backends. The C12 harness
// passes the plain *storage.LocalBackend values underneath its fault-injecting wrappers, because
// storage.GetStoragePath type-switches on the concrete backend type — in production there is one
// Manager whose backends are the plain ones.
func (m *Manager) VerifQueryView(hot, cold storage.Backend) *Manager {
	q := &Manager{hotBackend: hot, coldBackend: cold, metadata: m.metadata, policies: m.policies,
		config: m.config, licenseClient: m.licenseClient, stopCh: make(chan struct{}), logger: m.logger}
	q.router = NewRouter(q, m.logger)
	return q
}
