//go:build verif

package tiering

// Verification-only accessor (C12): the real Migrator owned by a real Manager. Compiled only with
// `-tags verif` through the build overlay; nothing is written under /repo.
func (m *Manager) VerifMigrator() *Migrator { return m.migrator }
