//go:build verif

package api

import "time"

// Verification-only exports of the unexported performance rewrites (C17). Compiled only with
// `-tags verif` through the build overlay; nothing is written under /repo.

func VerifRewriteTimeBucket(sql string) string { return rewriteTimeBucket(sql) }
func VerifRewriteDateTrunc(sql string) string  { return rewriteDateTrunc(sql) }
func VerifIntervalToSeconds(amount, unit string) int {
	return intervalToSeconds(amount, unit)
}
func VerifParseTimeBucketOrigin(s string) (time.Time, error) { return parseTimeBucketOrigin(s) }
