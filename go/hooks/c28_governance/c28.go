//go:build verif

// C28 hooks: export the unexported limiter/tracker constructors and read-only views of their state
// (injected by the overlay as internal/governance/zz_verif_c28.go; never present in /repo).
package governance

import "time"

type VerifSW = slidingWindowCounter
type VerifQT = quotaTracker

func VerifNewSW(window time.Duration, slots, limit int) *VerifSW {
	return newSlidingWindowCounter(window, slots, limit)
}

func VerifNewQT(maxPerHour, maxPerDay int) *VerifQT { return newQuotaTracker(maxPerHour, maxPerDay) }

type VerifSWState struct {
	Total, Cur, Limit, N int
	D, Last             int64
	Slots               []int
}

func (s *slidingWindowCounter) VerifState() VerifSWState {
	s.mu.Lock()
	defer s.mu.Unlock()
	return VerifSWState{Total: s.total, Cur: s.currentSlot, Limit: s.limit, N: s.slotCount,
		D: int64(s.slotDuration), Last: s.lastSlotTime.UnixNano(), Slots: append([]int(nil), s.slots...)}
}

type VerifQTState struct {
	H, D, MaxH, MaxD   int
	HourReset, DayReset int64
}

func (q *quotaTracker) VerifState() VerifQTState {
	q.mu.Lock()
	defer q.mu.Unlock()
	return VerifQTState{H: q.queriesThisHour, D: q.queriesThisDay, MaxH: q.maxPerHour, MaxD: q.maxPerDay,
		HourReset: q.hourResetAt.UnixNano(), DayReset: q.dayResetAt.UnixNano()}
}

// VerifTok returns the in-memory limiters/tracker of a token (nil when absent).
func (m *Manager) VerifTok(tok int64) (minute, hour *VerifSW, qt *VerifQT) {
	m.minuteLimitersMu.RLock()
	minute = m.minuteLimiters[tok]
	m.minuteLimitersMu.RUnlock()
	m.hourLimitersMu.RLock()
	hour = m.hourLimiters[tok]
	m.hourLimitersMu.RUnlock()
	m.quotaTrackersMu.RLock()
	qt = m.quotaTrackers[tok]
	m.quotaTrackersMu.RUnlock()
	return
}
