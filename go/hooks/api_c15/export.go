//go:build verif

package api

// Verification-only exports for C15 (SQL normalisation). Compiled only with `-tags verif` through
// the build overlay; nothing is written under /repo.

func VerifC15StripSQLComments(sql string, hasComments bool) string {
	return stripSQLComments(sql, hasComments)
}

// VerifC15Features returns (hasQuotes, hasDashComment || hasBlockComment) of scanSQLFeatures.
func VerifC15Features(sql string) (bool, bool) {
	f := scanSQLFeatures(sql)
	return f.hasQuotes, f.hasDashComment || f.hasBlockComment
}

// VerifC15NormalizeSQLForShow is the one call site that masks, strips and unmasks again.
func VerifC15NormalizeSQLForShow(sql string) string { return normalizeSQLForShow(sql) }
