//go:build verif

// Package verifclock is injected by /verif's build overlay (never present in /repo). Files that
// the overlay "clockifies" call verifclock.Now() instead of time.Now(); until Set is called it is
// the real clock.
package verifclock

import (
	"sync/atomic"
	"time"
)

var (
	on   atomic.Bool
	virt atomic.Int64
)

// Set switches to the virtual clock and sets it to ns (unix nanoseconds).
func Set(ns int64) { virt.Store(ns); on.Store(true) }

// Advance moves the virtual clock forward.
func Advance(d time.Duration) { virt.Add(int64(d)) }

// Real switches back to the wall clock.
func Real() { on.Store(false) }

func Now() time.Time {
	if on.Load() {
		return time.Unix(0, virt.Load())
	}
	return time.Now()
}

func Since(t time.Time) time.Duration { return Now().Sub(t) }
func Until(t time.Time) time.Duration { return t.Sub(Now()) }
