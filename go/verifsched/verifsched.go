//go:build verif

// Package verifsched is injected by /verif's build overlay (never present in /repo).
//
// The C21 overlay rewrites copies of internal/auth/auth.go and cluster_apply.go so that they call
// verifsched.Point("<name>") at the schedule points of VerifyToken and of the token mutators.
// A goroutine started with Spawn is a *controlled thread*: it parks at "start", at every Point it
// reaches, and the harness decides which thread runs next (Release) and observes where it stops
// (Await).  Goroutines that were not started with Spawn (the harness main goroutine, the
// AuthManager's own background loops) pass through every Point without stopping.
package verifsched

import (
	"runtime"
	"sync"
	"sync/atomic"
	"time"
)

// Thread is one controlled goroutine.
type Thread struct {
	Name    string
	At      string // last point the harness saw it arrive at ("start", a point name, or "done")
	arrive  chan string
	release chan struct{}
	wantsDB atomic.Bool // set by the thread itself (Mark) right before it asks the pool for a connection
}

var (
	active  atomic.Int32
	mu      sync.Mutex
	threads = map[int64]*Thread{}
)

// goid parses the current goroutine's id out of its stack header ("goroutine 123 [running]:").
func goid() int64 {
	var buf [64]byte
	n := runtime.Stack(buf[:], false)
	var id int64
	for i := len("goroutine "); i < n; i++ {
		c := buf[i]
		if c < '0' || c > '9' {
			break
		}
		id = id*10 + int64(c-'0')
	}
	return id
}

// Point parks the calling goroutine if (and only if) it is a controlled thread.
func Point(name string) {
	if active.Load() == 0 {
		return
	}
	mu.Lock()
	t := threads[goid()]
	mu.Unlock()
	if t == nil {
		return
	}
	t.arrive <- name
	<-t.release
}

// Mark records (without parking) that the calling controlled thread is about to acquire a pooled
// database connection. The overlay inserts it immediately before db.Query / db.Exec. The harness uses it
// to tell "waiting for the connection" from "merely slow": a thread that has not marked cannot be blocked
// on the pool, however long it takes to reach its next point.
func Mark() {
	if active.Load() == 0 {
		return
	}
	mu.Lock()
	t := threads[goid()]
	mu.Unlock()
	if t != nil {
		t.wantsDB.Store(true)
	}
}

// WantsDB reports whether the thread has passed a Mark since it was last released.
func (t *Thread) WantsDB() bool { return t.wantsDB.Load() }

// Spawn starts f on a new controlled goroutine and returns once it is parked at "start".
func Spawn(name string, f func()) *Thread {
	t := &Thread{Name: name, arrive: make(chan string, 1), release: make(chan struct{})}
	active.Add(1)
	go func() {
		id := goid()
		mu.Lock()
		threads[id] = t
		mu.Unlock()
		t.arrive <- "start"
		<-t.release
		defer func() {
			mu.Lock()
			delete(threads, id)
			mu.Unlock()
			active.Add(-1)
			t.arrive <- "done"
		}()
		f()
	}()
	t.At = <-t.arrive
	return t
}

// Done reports whether the thread's function has returned (as seen by the harness).
func (t *Thread) Done() bool { return t.At == "done" }

// Release lets a parked thread run; it does not wait for it to stop again.
func (t *Thread) Release() {
	t.wantsDB.Store(false)
	select {
	case t.release <- struct{}{}:
	case <-time.After(60 * time.Second):
		panic("verifsched: Release on thread " + t.Name + " which is not parked (last seen at " + t.At + ")")
	}
}

// Await waits up to d for the thread to reach its next point (or finish).
func (t *Thread) Await(d time.Duration) (string, bool) {
	select {
	case p := <-t.arrive:
		t.At = p
		return p, true
	default:
	}
	if d <= 0 {
		return "", false
	}
	tm := time.NewTimer(d)
	defer tm.Stop()
	select {
	case p := <-t.arrive:
		t.At = p
		return p, true
	case <-tm.C:
		return "", false
	}
}
