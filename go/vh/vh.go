//go:build verif

// Package vh: shared helpers for the correspondence harnesses (PRNG, op/impl writers, stats).
// Injected at github.com/basekick-labs/arc/internal/verif/vh by the build overlay.
package vh

import (
	"bufio"
	"crypto/sha256"
	"encoding/hex"
	"encoding/json"
	"flag"
	"fmt"
	"os"
	"path/filepath"
	"sort"
	"strings"
)

// ---- PRNG: one splitmix64 state; every random choice of a run derives from VERIF_SEED.
type Rand struct{ s uint64 }

// NewRand mixes the seed first: consecutive seeds must give unrelated streams (an additive seed
// would make seed s+1 the same splitmix stream shifted by one draw).
func NewRand(seed uint64) *Rand {
	z := seed + 0x9E3779B97F4A7C15
	z = (z ^ (z >> 30)) * 0xBF58476D1CE4E5B9
	z = (z ^ (z >> 27)) * 0x94D049BB133111EB
	z ^= z >> 31
	return &Rand{s: z ^ 0x1234567}
}
func (r *Rand) U64() uint64 {
	r.s += 0x9E3779B97F4A7C15
	z := r.s
	z = (z ^ (z >> 30)) * 0xBF58476D1CE4E5B9
	z = (z ^ (z >> 27)) * 0x94D049BB133111EB
	return z ^ (z >> 31)
}
func (r *Rand) Intn(n int) int {
	if n <= 0 {
		return 0
	}
	return int(r.U64() % uint64(n))
}
func (r *Rand) Int63() int64         { return int64(r.U64() >> 1) }
func (r *Rand) Bool() bool           { return r.U64()&1 == 1 }
func (r *Rand) Chance(p int) bool    { return r.Intn(100) < p } // p percent
func (r *Rand) Range(lo, hi int) int { return lo + r.Intn(hi-lo+1) }
func (r *Rand) Fork() *Rand          { return NewRand(r.U64()) }
func Pick[T any](r *Rand, xs []T) T  { return xs[r.Intn(len(xs))] }

// ---- run context
type Ctx struct {
	Seed      uint64
	Tier      string
	OutDir    string
	Facts     map[string]any
	N         int // generic size knob (cases), tier-dependent default set by harness
	Replay    string
	ops       *bufio.Writer
	impl      *bufio.Writer
	opsF      *os.File
	implF     *os.File
	nOps      int
	Hist      map[string]int
	distinct  map[[32]byte]bool
	nontriv   int
	cases     int
	samples   []any
	PropFails []PropFail
	Extra     map[string]any
}

type PropFail struct {
	Key    string `json:"key"`    // stable finding class key (matched against known_findings.jsonl)
	What   string `json:"what"`   // human description of what failed
	Replay string `json:"replay"` // the concrete input / op sequence that fails (self-contained text)
}

func Start() *Ctx {
	seed := flag.Uint64("seed", 1, "PRNG seed")
	tier := flag.String("tier", "quick", "quick|thorough")
	out := flag.String("out", "", "output directory")
	facts := flag.String("facts", "", "facts json")
	n := flag.Int("n", 0, "size knob")
	replay := flag.String("replay", "", "replay ops file instead of generating")
	flag.Parse()
	c := &Ctx{Seed: *seed, Tier: *tier, OutDir: *out, N: *n, Replay: *replay,
		Hist: map[string]int{}, distinct: map[[32]byte]bool{}, Extra: map[string]any{}}
	if c.OutDir == "" {
		fmt.Fprintln(os.Stderr, "-out required")
		os.Exit(64)
	}
	os.MkdirAll(c.OutDir, 0o755)
	if *facts != "" {
		b, err := os.ReadFile(*facts)
		if err != nil {
			fmt.Fprintln(os.Stderr, err)
			os.Exit(64)
		}
		if err := json.Unmarshal(b, &c.Facts); err != nil {
			fmt.Fprintln(os.Stderr, err)
			os.Exit(64)
		}
	}
	var err error
	c.opsF, err = os.Create(filepath.Join(c.OutDir, "ops.txt"))
	if err != nil {
		panic(err)
	}
	c.implF, err = os.Create(filepath.Join(c.OutDir, "impl.txt"))
	if err != nil {
		panic(err)
	}
	c.ops = bufio.NewWriterSize(c.opsF, 1<<20)
	c.impl = bufio.NewWriterSize(c.implF, 1<<20)
	return c
}

func (c *Ctx) Thorough() bool { return c.Tier == "thorough" }

// Op records one op line and the implementation's canonical output line for it.
func (c *Ctx) Op(op string, implOut string) {
	if strings.ContainsAny(op, "\n\r") || strings.ContainsAny(implOut, "\n\r") {
		panic("newline in op/impl line: " + op)
	}
	c.ops.WriteString(op)
	c.ops.WriteByte('\n')
	c.impl.WriteString(implOut)
	c.impl.WriteByte('\n')
	c.nOps++
}

// Case registers one generated case (for the distinct / non-trivial counts). canon is any canonical
// text of the case; nontrivial says whether it exercises a non-default branch by the harness's rule.
func (c *Ctx) Case(canon string, nontrivial bool) {
	c.cases++
	h := sha256.Sum256([]byte(canon))
	if !c.distinct[h] {
		c.distinct[h] = true
		if nontrivial {
			c.nontriv++
		}
		if len(c.samples) < 5 {
			s := canon
			if len(s) > 400 {
				s = s[:400] + "…"
			}
			c.samples = append(c.samples, s)
		}
	}
}

func (c *Ctx) Tag(t string) { c.Hist[t]++ }

// Fail records a violation of the *property itself* observed on the real implementation.
func (c *Ctx) Fail(key, what, replay string) {
	for _, p := range c.PropFails {
		if p.Key == key { // keep the first (usually smallest) replay per class
			return
		}
	}
	c.PropFails = append(c.PropFails, PropFail{key, what, replay})
}

func Hex(b []byte) string {
	if len(b) == 0 {
		return "-"
	}
	return hex.EncodeToString(b)
}

func (c *Ctx) Finish(rule string) {
	c.ops.Flush()
	c.impl.Flush()
	c.opsF.Close()
	c.implF.Close()
	keys := make([]string, 0, len(c.Hist))
	for k := range c.Hist {
		keys = append(keys, k)
	}
	sort.Strings(keys)
	st := map[string]any{
		"seed": c.Seed, "tier": c.Tier, "ops": c.nOps, "evaluations": c.cases,
		"distinct": len(c.distinct), "distinct_nontrivial": c.nontriv, "rule": rule,
		"samples": c.samples, "histogram": c.Hist, "propfails": c.PropFails, "extra": c.Extra,
	}
	if c.PropFails == nil {
		st["propfails"] = []PropFail{}
	}
	b, _ := json.MarshalIndent(st, "", " ")
	os.WriteFile(filepath.Join(c.OutDir, "stats.json"), append(b, '\n'), 0o644)
}

// Guard runs f, converting a panic into the returned string "panic:<msg>".
func Guard(f func() string) (out string) {
	defer func() {
		if r := recover(); r != nil {
			out = "panic:" + strings.ReplaceAll(fmt.Sprint(r), "\n", " ")
		}
	}()
	return f()
}
