-- Root of the `Arc` library. Property modules are built by name (`lake build Arc.Props.Cxx`).
import Arc.Base.Proto
