import Arc.Proofs.C20.Checks
/-!
# C20 — permission decisions always reflect the current RBAC state

Model: `Arc/Model/C20.lean` (policy = cache-free evaluator; state = tables + permission cache +
per-token data cache + clock; ops = all 18 mutating entry points in direct-database and
cluster-apply mode, clock advance, single and batched checks). The invalidation each mutation
performs is `Arc.Generated.C20.invalidation`, regenerated from the source on every run.

Proof idea: the invariant `SInv` ("every entry of either cache that belongs to a token which still
authenticates equals what the policy / loader computes from the CURRENT tables", `Proofs/C20/Basic`)
holds initially, is preserved by checks and clock advances unconditionally, and is preserved by a
mutation `m` provided `covers (classOf m) (invOf mode m)`: the finite, decidable obligation
"the generated invalidation of `m` covers everything `m` can affect", lifted to all states by
`CInv_mutation` + `exec_effect` (which proves, for all tables and arguments, that the success path of
each op stays within the class `classOf` declares).

```
theorem C20_full  (the property at full strength, for the CURRENT source):
    ∀ mode ttl now₀ (ops : List Op) k ks,  Correct mode ttl now₀ ops
```
is NOT provable for the current tree: `insufficient` (computed from the generated table) is non-empty.
What is proved instead, all of it re-checked against the regenerated table on every run:
* `C20_full`     — the full statement under the single hypothesis `insufficient = []`;
* `C20_current`  — a theorem whose *statement is computed from the generated table*: it IS the full
                   unconditional statement as soon as the table is sufficient, and otherwise it is
                   "every insufficient mutation has a concrete stale-decision history";
* `C20_partial`  — the full statement for every history that avoids the insufficient mutations;
* `C20_witness_*`— the concrete counterexamples (short op sequences) for the mutations that are
                   insufficient in the current source (vacuous once they are repaired).
-/
namespace Arc.C20

/-- The property for one history: after `ops`, EVERY permission check — single or batched, whether it
hits or misses either cache — returns what the policy gives on the tables as they are now. -/
def Correct (mode : Mode) (ttl now0 : Int) (ops : List Op) : Prop :=
  ∀ (k : Key) (ks : List Key),
    (checkSingle (run (init mode ttl now0) ops) k).2.1 = policy (run (init mode ttl now0) ops).tb k ∧
    (checkBatch (run (init mode ttl now0) ops) ks).2.map (·.1) = ks.map (policy (run (init mode ttl now0) ops).tb)

/-- **C20_partial.** Carve-out: the history uses only mutations whose generated invalidation is
sufficient (`opOk`, a decidable predicate; checks, batches and clock advances are unrestricted).
For ALL such histories, all ids / names / patterns / permissions / times, both modes. -/
theorem C20_partial (mode : Mode) (ttl now0 : Int) (ops : List Op)
    (hcarve : ∀ op ∈ ops, opOk mode op = true) : Correct mode ttl now0 ops := by
  intro k ks
  have hI : SInv (run (init mode ttl now0) ops) := run_inv ops _ (init_inv mode ttl now0) hcarve
  exact ⟨(checkSingle_spec _ hI k).1, (checkBatch_spec ks _ hI).1⟩

theorem allPairs_complete (mode : Mode) (m : Method) : (mode, m) ∈ allPairs := by
  cases mode <;> cases m <;> decide

theorem sufficient_of_nil (h : insufficient = []) (mode : Mode) (m : Method) : sufficient mode m = true := by
  unfold insufficient at h
  have := (List.filter_eq_nil_iff.1 h) (mode, m) (allPairs_complete mode m)
  simpa using this

/-- **C20_full.** The property at full strength — every history, every request — follows from the
one finite fact `insufficient = []` about the regenerated invalidation table. -/
theorem C20_full (hgen : insufficient = []) (mode : Mode) (ttl now0 : Int) (ops : List Op) :
    Correct mode ttl now0 ops := by
  apply C20_partial
  intro op _
  unfold opOk
  cases op.method? with
  | none => rfl
  | some m => exact sufficient_of_nil hgen mode m

/-! ## witnesses -/

def kDb : Str := ['d', 'b']
def pRead : Str := ['r', 'e', 'a', 'd']
def pWrite : Str := ['w', 'r', 'i', 't', 'e']
def kRead : Key := ⟨1, kDb, [], pRead⟩
def kMeas : Key := ⟨1, kDb, ['m'], pRead⟩

/-- token 1 in team 1 of org 1 holding role 1 (`*`: read). No check yet: both caches are empty, so
the witnesses below do not depend on the invalidation of their own set-up steps. -/
def grantSetup : List Op :=
  [.createToken ['k'] [] 1, .createOrg ['o'] 1, .createTeam 1 ['t'] 1, .createRole 1 ['*'] [pRead] 1,
   .addMem 1 1 1]

/-- … and the decision for `kRead` (allow, via RBAC) is cached -/
def grantBase : List Op := grantSetup ++ [.check kRead]

/-- a short history ending in mutation `m`, and a request whose cached decision `m` must invalidate -/
def witness : Method → List Op × Key
  | .deleteOrg => (grantBase ++ [.deleteOrg 1], kRead)
  | .updateTeam => (grantBase ++ [.updateTeam 1 none (some false)], kRead)
  | .deleteTeam => (grantBase ++ [.deleteTeam 1], kRead)
  | .createRole => ([.createToken ['k'] [] 1, .createOrg ['o'] 1, .createTeam 1 ['t'] 1, .addMem 1 1 1,
                     .check kRead, .createRole 1 ['*'] [pRead] 1], kRead)
  | .updateRole => (grantBase ++ [.updateRole 1 none [pWrite]], kRead)
  | .deleteRole => (grantBase ++ [.deleteRole 1], kRead)
  | .createMP => (grantSetup ++ [.check kMeas, .createMP 1 ['z'] [pRead] 1], kMeas)
  | .deleteMP => (grantSetup ++ [.createMP 1 ['z'] [pRead] 1, .check kMeas, .deleteMP 1], kMeas)
  | .addMem => ([.createToken ['k'] [] 1, .createOrg ['o'] 1, .createTeam 1 ['t'] 1, .createRole 1 ['*'] [pRead] 1,
                 .check kRead, .addMem 1 1 1], kRead)
  | .removeMem => (grantBase ++ [.removeMem 1 1], kRead)
  | .updateToken => ([.createToken ['k'] [pRead] 1, .check kRead, .updateToken 1 []], kRead)
  | _ => ([], kRead)   -- neutral / token-gone mutations need no invalidation at all

/-- after the witness history the very next check returns a decision the policy does not give -/
def staleAfter (mode : Mode) (m : Method) : Bool :=
  let s := run (init mode 30 0) (witness m).1
  decide ((checkSingle s (witness m).2).2.1 ≠ policy s.tb (witness m).2)

/-- The statement that is checked on every run, computed from the regenerated table. -/
def CurrentStatement : Prop :=
  if insufficient = [] then ∀ mode ttl now0 ops, Correct mode ttl now0 ops
  else ∀ p ∈ insufficient, staleAfter p.1 p.2 = true

/-- **C20_current.** With a sufficient table this *is* the unconditional full theorem; with the
current table it says that each insufficient (mode, mutation) pair really produces a stale decision
in the model (which the harness reproduces on the real code). -/
theorem C20_current : CurrentStatement := by
  unfold CurrentStatement
  split
  · rename_i h; exact fun mode ttl now0 ops => C20_full h mode ttl now0 ops
  · decide

/-- `covers` asks for nothing superfluous: whenever a mutation that is NOT neutral/token-gone lacks the
invalidation its class demands, the witness history is stale. (Checked for the gaps of the current
table; `C20_current` re-checks it for whatever the table lacks on a later run.) -/
theorem C20_witness_deleteOrg :
    (Mode.direct, Method.deleteOrg) ∈ insufficient → staleAfter .direct .deleteOrg = true := by decide

theorem C20_witness_updateToken_direct :
    (Mode.direct, Method.updateToken) ∈ insufficient → staleAfter .direct .updateToken = true := by decide

theorem C20_witness_updateToken_cluster :
    (Mode.cluster, Method.updateToken) ∈ insufficient → staleAfter .cluster .updateToken = true := by decide

/-- the stale decisions, spelled out (guarded so that they stay true after a repair) -/
theorem C20_witness_deleteOrg_values :
    invOf .direct .deleteOrg = .none →
      let s := run (init .direct 30 0) (grantBase ++ [.deleteOrg 1])
      (checkSingle s kRead).2.1 = ⟨true, .rbac⟩ ∧ policy s.tb kRead = ⟨false, .denied⟩ := by decide

theorem C20_witness_updateToken_values :
    invOf .direct .updateToken = .none →
      let s := run (init .direct 30 0) [.createToken ['k'] [pRead] 1, .check kRead, .updateToken 1 []]
      (checkSingle s kRead).2.1 = ⟨true, .token⟩ ∧ policy s.tb kRead = ⟨false, .denied⟩ := by decide

/-! ## ties to the regenerated table -/

/-- every (mode, method) pair has a well-formed row in the regenerated table (so `invOf` never falls
back to its default) -/
theorem C20_table_complete :
    ∀ p ∈ allPairs, (invRow Arc.Generated.C20.invalidation p.1 p.2).isSome = true := by decide

/-- the table has no rows the model does not know (a new mutating method must be modelled) -/
theorem C20_table_no_extra : Arc.Generated.C20.invalidation.length = allPairs.length := by decide

/-- cluster-apply mode: every RBAC materialiser (`Apply*` of cluster_rbac_apply.go) is sufficient -/
theorem C20_cluster_rbac_sufficient :
    ∀ m ∈ [Method.createOrg, .updateOrg, .deleteOrg, .createTeam, .updateTeam, .deleteTeam, .createRole,
           .updateRole, .deleteRole, .createMP, .deleteMP, .addMem, .removeMem],
      sufficient .cluster m = true := by decide

/-! ## non-vacuity -/

/-- `C20_partial`'s carve-out is satisfiable by a non-trivial history: a grant through team/role, a
cached RBAC allow, a team disable (sufficient: invalidates all), clock across the TTL, batch. -/
example :
    let ops : List Op := grantBase ++ [.check kRead, .updateTeam 1 none (some false), .advance 31, .batch [kRead, kMeas]]
    (∀ op ∈ ops, opOk .cluster op = true) ∧ (∀ op ∈ ops, opOk .direct op = true) ∧
    (checkSingle (run (init .direct 30 0) grantBase) kRead).2 = (⟨true, .rbac⟩, true) ∧
    (checkSingle (run (init .direct 30 0) ops) kRead).2.1 = ⟨false, .denied⟩ := by decide

/-- … and unconditionally (these ops need no invalidation whatever the table says): a token with own
permissions, a cached allow, revocation ⇒ the next check is `unauth`; the caches still hold the entry. -/
example :
    let ops : List Op := [.createToken ['k'] [pRead] 1, .createOrg ['o'] 1, .createTeam 1 ['t'] 1, .check kRead,
                          .rotateToken 1, .check kRead, .revokeToken 1]
    (∀ mode, ∀ op ∈ ops, opOk mode op = true) ∧
    (checkSingle (run (init .direct 30 0) (ops.take 5)) kRead).2 = (⟨true, .token⟩, true) ∧
    (checkSingle (run (init .direct 30 0) ops) kRead).2.1 = ⟨false, .unauth⟩ ∧
    (run (init .direct 30 0) ops).permCache.length = 1 := by
  refine ⟨fun mode op h => ?_, by decide, by decide, by decide⟩
  simp only [List.mem_cons, List.mem_nil_iff, or_false] at h
  rcases h with h | h | h | h | h | h | h <;> subst h <;> rfl

/-- the invariant is not trivially true: the state after `grantBase` has entries in both caches -/
example : (run (init .direct 30 0) grantBase).permCache.length = 1 ∧
    (run (init .direct 30 0) grantBase).tokCache.length = 1 := by decide

end Arc.C20
