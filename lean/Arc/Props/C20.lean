import Arc.Proofs.C20.Checks
/-!
# C20 — permission decisions always reflect the current RBAC state

Model: `Arc/Model/C20.lean` (policy = cache-free evaluator; state = tables + permission cache +
per-token data cache + clock; ops = all 18 mutating entry points in direct-database and
cluster-apply mode, clock advance, single and batched checks). The invalidation each mutation
performs is `Arc.Generated.C20.invalidation`, regenerated from the source on every run.

Proof idea: the invariant `SInv` ("every entry of either cache that belongs to a token which still
authenticates equals what the policy / loader computes from the CURRENT tables", `Proofs/C20/Basic`)
holds initially, is preserved by checks and clock advances unconditionally, and is preserved by a
mutation `m` provided `covers (classOf m) (invOf mode m)`: the finite, decidable obligation
"the generated invalidation of `m` covers everything `m` can affect", lifted to all states by
`CInv_mutation` + `exec_effect` (which proves, for all tables and arguments, that the success path of
each op stays within the class `classOf` declares).

```
theorem C20_full  (the property at full strength, for the CURRENT source):
    ∀ mode ttl now₀ (ops : List Op) k ks,  Correct mode ttl now₀ ops
```
is NOT provable for the current tree: `insufficient` (computed from the generated table) is non-empty.
What is proved instead, all of it re-checked against the regenerated table on every run:
* `C20_full`     — the full statement under the single hypothesis `insufficient = []`;
* `C20_current`  — a theorem whose *statement is computed from the generated table*: it IS the full
                   unconditional statement as soon as the table is sufficient, and otherwise it is
                   "every insufficient mutation has a concrete stale-decision history";
* `C20_partial`  — the full statement for every history that avoids the insufficient mutations;
* `C20_witness_*`— the concrete counterexamples (short op sequences) for the mutations that are
                   insufficient in the current source (vacuous once they are repaired).
-/
namespace Arc.C20

/-- The property for one history: after `ops`, EVERY permission check — single or batched, whether it
hits or misses either cache, whatever a capacity eviction throws out (`orc`) — returns what the policy
gives on the tables as they are now. `cap` is `MaxCacheSize` (each cache is bounded separately). -/
def Correct (mode : Mode) (ttl now0 : Int) (cap : Nat) (ops : List Op) : Prop :=
  ∀ (k : Key) (ks : List Key) (orc : List Victim),
    (checkSingle (withOracle (run (init mode ttl now0 cap) ops) orc) k).2.1
        = policy (run (init mode ttl now0 cap) ops).tb k ∧
    (checkBatch (withOracle (run (init mode ttl now0 cap) ops) orc) ks).2.map (·.1)
        = ks.map (policy (run (init mode ttl now0 cap) ops).tb)

/-- **C20_partial.** Carve-out: the history uses only mutations whose generated invalidation is
sufficient (`okRun`, a decidable predicate that follows the mode across a direct→cluster switch;
checks, batches, clock advances, cache sweeps and capacity evictions are unrestricted).
For ALL such histories, all ids / names / patterns / permissions / times / cache sizes, both modes. -/
theorem C20_partial (mode : Mode) (ttl now0 : Int) (cap : Nat) (ops : List Op)
    (hcarve : okRun mode ops = true) : Correct mode ttl now0 cap ops := by
  intro k ks orc
  have hI : SInv (run (init mode ttl now0 cap) ops) := run_inv ops _ (init_inv mode ttl now0 cap) hcarve
  have hI' := withOracle_inv _ orc hI
  exact ⟨(checkSingle_spec _ hI' k).1, (checkBatch_spec ks _ hI').1⟩

theorem allPairs_complete (mode : Mode) (m : Method) (hm : m ∈ Method.all) : (mode, m) ∈ allPairs := by
  cases mode <;> simp [allPairs, hm]

theorem sufficient_of_nil (h : insufficient = []) (p : Mode × Method) (hp : p ∈ allPairs) :
    sufficient p.1 p.2 = true := by
  unfold insufficient at h
  have := (List.filter_eq_nil_iff.1 h) p hp
  simpa using this

theorem opOk_of_nil (h : insufficient = []) (mode : Mode) (op : Op) : opOk mode op = true := by
  have base : ∀ m, m ∈ Method.all → sufficient mode m = true :=
    fun m hm => sufficient_of_nil h (mode, m) (allPairs_complete mode m hm)
  cases op
  case applyCreateOrg =>
    cases mode
    · rfl
    · simp only [opOk, Bool.and_eq_true]
      exact ⟨⟨sufficient_of_nil h (.cluster, .createOrg) (by decide),
              sufficient_of_nil h (.cluster, .applyOrgReplay) (by decide)⟩,
             sufficient_of_nil h (.cluster, .applyOrgRealign) (by decide)⟩
  all_goals first
    | rfl
    | exact base _ (by decide)

theorem okRun_of_nil (h : insufficient = []) (ops : List Op) : ∀ mode, okRun mode ops = true := by
  induction ops with
  | nil => intro _; rfl
  | cons op ops ih => intro mode; simp [okRun, opOk_of_nil h mode op, ih]

/-- **C20_full.** The property at full strength — every history, every request, every cache size and
eviction choice — follows from the one finite fact `insufficient = []` about the regenerated facts
(invalidation table + per-cache structure of the two invalidators). -/
theorem C20_full (hgen : insufficient = []) (mode : Mode) (ttl now0 : Int) (cap : Nat) (ops : List Op) :
    Correct mode ttl now0 cap ops :=
  C20_partial mode ttl now0 cap ops (okRun_of_nil hgen ops mode)

/-! ## witnesses -/

def kDb : Str := ['d', 'b']
def pRead : Str := ['r', 'e', 'a', 'd']
def pWrite : Str := ['w', 'r', 'i', 't', 'e']
def kRead : Key := ⟨1, kDb, [], pRead⟩
def kMeas : Key := ⟨1, kDb, ['m'], pRead⟩
def kMeas2 : Key := ⟨1, kDb, ['n'], pRead⟩

/-- token 1 in team 1 of org 1 holding role 1 (`*`: read). No check yet: both caches are empty, so
the witnesses below do not depend on the invalidation of their own set-up steps. -/
def grantSetup : List Op :=
  [.createToken ['k'] [] 1, .createOrg ['o'] 1, .createTeam 1 ['t'] 1, .createRole 1 ['*'] [pRead] 1,
   .addMem 1 1 1]

/-- … and the decision for `kRead` (allow, via RBAC) is cached -/
def grantBase : List Op := grantSetup ++ [.check kRead []]

/-- the caches are swept independently: token data loaded at t=0, a second decision computed from it
at t=10; at t=31 the sweep drops the data (age 31 > 30) but keeps that decision (expires at 40) -/
def dataGoneDecisionStays : List Op :=
  [.check kRead [], .advance 10, .check kMeas [], .advance 21, .cleanup]

def noGrantSetup : List Op :=
  [.createToken ['k'] [] 1, .createOrg ['o'] 1, .createTeam 1 ['t'] 1, .createRole 1 ['*'] [pRead] 1]

/-- candidate counterexamples for mutation `m`: (start mode, history ending in `m`, request).
Several per method, because WHAT is missing may be the call (`none`), the permission-cache scan
(guarded by "token data cached"), or the data-cache half of an invalidator. -/
def witnesses (mode : Mode) : Method → List (Mode × List Op × Key)
  | .deleteOrg => [(mode, grantBase ++ [.deleteOrg 1], kRead), (mode, grantBase ++ [.deleteOrg 1], kMeas)]
  | .updateTeam => [(mode, grantBase ++ [.updateTeam 1 none (some false)], kRead),
                    (mode, grantBase ++ [.updateTeam 1 none (some false)], kMeas)]
  | .deleteTeam => [(mode, grantBase ++ [.deleteTeam 1], kRead), (mode, grantBase ++ [.deleteTeam 1], kMeas)]
  | .createRole => [(mode, [.createToken ['k'] [] 1, .createOrg ['o'] 1, .createTeam 1 ['t'] 1, .addMem 1 1 1,
                            .check kRead [], .createRole 1 ['*'] [pRead] 1], kRead),
                    (mode, [.createToken ['k'] [] 1, .createOrg ['o'] 1, .createTeam 1 ['t'] 1, .addMem 1 1 1,
                            .check kRead [], .createRole 1 ['*'] [pRead] 1], kMeas)]
  | .updateRole => [(mode, grantBase ++ [.updateRole 1 none [pWrite]], kRead),
                    (mode, grantBase ++ [.updateRole 1 none [pWrite]], kMeas)]
  | .deleteRole => [(mode, grantBase ++ [.deleteRole 1], kRead), (mode, grantBase ++ [.deleteRole 1], kMeas)]
  | .createMP => [(mode, grantSetup ++ [.check kMeas [], .createMP 1 ['z'] [pRead] 1], kMeas),
                  (mode, grantSetup ++ [.check kMeas [], .createMP 1 ['z'] [pRead] 1], kMeas2)]
  | .deleteMP => [(mode, grantSetup ++ [.createMP 1 ['z'] [pRead] 1, .check kMeas [], .deleteMP 1], kMeas),
                  (mode, grantSetup ++ [.createMP 1 ['z'] [pRead] 1, .check kMeas [], .deleteMP 1], kMeas2)]
  | .addMem => [(mode, noGrantSetup ++ [.check kRead [], .addMem 1 1 1], kRead),
                (mode, noGrantSetup ++ dataGoneDecisionStays ++ [.addMem 1 1 1], kMeas),
                (mode, noGrantSetup ++ [.check kRead [], .addMem 1 1 1], kMeas)]
  | .removeMem => [(mode, grantBase ++ [.removeMem 1 1], kRead),
                   (mode, grantSetup ++ dataGoneDecisionStays ++ [.removeMem 1 1], kMeas),
                   (mode, grantBase ++ [.removeMem 1 1], kMeas)]
  | .updateToken => [(mode, [.createToken ['k'] [pRead] 1, .check kRead [], .updateToken 1 []], kRead),
                     (mode, [.createToken ['k'] [pRead] 1] ++ dataGoneDecisionStays ++ [.updateToken 1 []], kMeas)]
  -- a standalone node with a granting chain joins the cluster; the CreateOrganization apply for its own
  -- organization collides by name, the local row is deleted (cascade) and re-inserted under id 1000
  | .applyOrgRealign => [(.direct, grantBase ++ [.toCluster, .applyCreateOrg ['o'] 1000], kRead),
                         (.direct, grantBase ++ [.toCluster, .applyCreateOrg ['o'] 1000], kMeas)]
  | _ => []   -- neutral / token-gone mutations need no invalidation at all

/-- after the witness history the very next check returns a decision the policy does not give -/
def staleRun (w : Mode × List Op × Key) : Bool :=
  let s := run (init w.1 30 0) w.2.1
  decide ((checkSingle s w.2.2).2.1 ≠ policy s.tb w.2.2)

def staleAfter (mode : Mode) (m : Method) : Bool := (witnesses mode m).any staleRun

/-- The statement that is checked on every run, computed from the regenerated facts. -/
def CurrentStatement : Prop :=
  if insufficient = [] then ∀ mode ttl now0 cap ops, Correct mode ttl now0 cap ops
  else ∀ p ∈ insufficient, staleAfter p.1 p.2 = true

/-- **C20_current.** With sufficient facts this *is* the unconditional full theorem; otherwise it says
that each insufficient (mode, mutation) pair really produces a stale decision in the model (which the
harness reproduces on the real code). -/
theorem C20_current : CurrentStatement := by
  unfold CurrentStatement
  split
  · rename_i h; exact fun mode ttl now0 cap ops => C20_full h mode ttl now0 cap ops
  · decide

/-- the findings of round 1 (repaired in d428cab / 62ca961), kept as guarded witnesses: should the
invalidation disappear again, these are the counterexamples -/
theorem C20_witness_deleteOrg :
    (Mode.direct, Method.deleteOrg) ∈ insufficient → staleAfter .direct .deleteOrg = true := by decide

theorem C20_witness_updateToken_direct :
    (Mode.direct, Method.updateToken) ∈ insufficient → staleAfter .direct .updateToken = true := by decide

theorem C20_witness_updateToken_cluster :
    (Mode.cluster, Method.updateToken) ∈ insufficient → staleAfter .cluster .updateToken = true := by decide

/-- the two caches really are independent in the model: after `dataGoneDecisionStays` the token's data
is gone while one of its decisions is still cached (so an invalidator that skips the permission cache
"because the token has no loaded data" is wrong) -/
theorem C20_caches_independent :
    let s := run (init .direct 30 0) (grantSetup ++ dataGoneDecisionStays)
    s.tokCache = [] ∧ s.permCache.map (·.1) = [kMeas] := by decide

/-- the re-align path cascades: after it nothing grants access any more -/
theorem C20_realign_cascades :
    let s := run (init .direct 30 0) (grantBase ++ [.toCluster, .applyCreateOrg ['o'] 1000])
    s.tb.orgs.map (·.id) = [1000] ∧ s.tb.teams = [] ∧ s.tb.roles = [] ∧ s.tb.mems = [] ∧
    policy s.tb kRead = ⟨false, .denied⟩ := by decide

/-! ## ties to the regenerated table -/

/-- every (mode, method) pair has a well-formed row in the regenerated table (so `invOf` never falls
back to its default) -/
theorem C20_table_complete :
    ∀ p ∈ allPairs, (invRow Arc.Generated.C20.invalidation p.1 p.2).isSome = true := by decide

/-- the table has no rows the model does not know (a new mutating method must be modelled) -/
theorem C20_table_no_extra : Arc.Generated.C20.invalidation.length = allPairs.length := by decide

/-- cluster-apply mode: every RBAC materialiser (`Apply*` of cluster_rbac_apply.go) is sufficient,
including the log-replay and the re-align (name collision, cascading) paths of ApplyCreateOrganization -/
theorem C20_cluster_rbac_sufficient :
    ∀ m ∈ [Method.createOrg, .updateOrg, .deleteOrg, .createTeam, .updateTeam, .deleteTeam, .createRole,
           .updateRole, .deleteRole, .createMP, .deleteMP, .addMem, .removeMem, .applyOrgReplay, .applyOrgRealign],
      sufficient .cluster m = true := by decide

/-- both invalidators of the current source clear BOTH caches unconditionally (generated structure
facts: InvalidateTokenCache drops the data entry and always scans the permission cache;
InvalidateAllCache replaces both maps) -/
theorem C20_invalidators_strong : strong .token = true ∧ strong .all = true := by decide

/-! ## non-vacuity -/

/-- `C20_partial`'s carve-out is satisfiable by a non-trivial history: a grant through team/role, a
cached RBAC allow, a team disable (sufficient: invalidates all), clock across the TTL, batch. -/
example :
    let ops : List Op := grantBase ++ [.check kRead [], .updateTeam 1 none (some false), .advance 31, .cleanup,
                                     .batch [kRead, kMeas] [], .toCluster, .applyCreateOrg ['o'] 1000]
    okRun .cluster ops = true ∧ okRun .direct ops = true ∧
    (checkSingle (run (init .direct 30 0) grantBase) kRead).2 = (⟨true, .rbac⟩, true) ∧
    (checkSingle (run (init .direct 30 0) ops) kRead).2.1 = ⟨false, .denied⟩ := by decide

/-- capacity eviction in action: 1-entry caches, the second token's check throws the first token's data
and decision out (named by the oracle), and the oracle is consumed -/
example :
    let ops : List Op := [.createToken ['k'] [pRead] 1, .createToken ['j'] [pRead] 2, .check kRead []]
    let s := run (init .direct 30 0 1) ops
    let r := checkSingle (withOracle s [.tok 1, .perm kRead]) ⟨2, kDb, [], pRead⟩
    oracleUsedUp r.1 = true ∧ r.1.tokCache.map (·.1) = [2] ∧ r.1.permCache.length = 1 ∧
    r.2.1 = ⟨true, .token⟩ := by decide

/-- … and unconditionally (these ops need no invalidation whatever the table says): a token with own
permissions, a cached allow, revocation ⇒ the next check is `unauth`; the caches still hold the entry. -/
example :
    let ops : List Op := [.createToken ['k'] [pRead] 1, .createOrg ['o'] 1, .createTeam 1 ['t'] 1, .check kRead [],
                          .rotateToken 1, .check kRead [], .revokeToken 1]
    (∀ mode, ∀ op ∈ ops, opOk mode op = true) ∧
    (checkSingle (run (init .direct 30 0) (ops.take 5)) kRead).2 = (⟨true, .token⟩, true) ∧
    (checkSingle (run (init .direct 30 0) ops) kRead).2.1 = ⟨false, .unauth⟩ ∧
    (run (init .direct 30 0) ops).permCache.length = 1 := by
  refine ⟨fun mode op h => ?_, by decide, by decide, by decide⟩
  simp only [List.mem_cons, List.mem_nil_iff, or_false] at h
  rcases h with h | h | h | h | h | h | h <;> subst h <;> rfl

/-- the invariant is not trivially true: the state after `grantBase` has entries in both caches -/
example : (run (init .direct 30 0) grantBase).permCache.length = 1 ∧
    (run (init .direct 30 0) grantBase).tokCache.length = 1 := by decide

end Arc.C20
