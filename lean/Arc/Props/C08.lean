import Arc.Model.C08
import Arc.Generated.C08
import Arc.Proofs.C08.Path
import Arc.Proofs.C08.FS
/-!
# C08 — storage keys stay inside the root and files appear atomically

Property theorems `C08_*`; the helper lemmas live in `Arc/Proofs/C08/{Path,FS}.lean` (and a few local
ones below, not named `C08_*`).

* confinement: `C08_confined` (element level, strongest), `C08_confined_str` (byte-prefix form),
  `C08_cleanAbs_of_clean`, `C08_nul_quirk_witness`, `C08_manifest_*`, `C08_edgesync_*`;
* atomicity: `C08_atomic_write`, `C08_atomic_write_reader`, `C08_atomic_append` (+ `_complete`
  lemmas and `C08_part_ne_final`, `C08_staging_ops_spare_final`, `C08_error_paths_spare_final`);
* ties to the regenerated facts: `C08_*_tied`;
* staging file inside the root (finding fixed by commit 0cc3d06): `C08_staging_confined` (full),
  `C08_file_key_below_root`, `C08_root_guard_tied`, `C08_root_key_witness`.
-/
namespace Arc.C08

/-! ## helper lemmas (local) -/

theorem checkRel_ok_eq (base a p : Bytes) (h : checkRel base a = .ok p) : p = a := by
  unfold checkRel at h
  split at h
  · simp at h
  · split at h
    · simp at h
    · simp at h; exact h.symm

theorem renderAbs_inj (as bs : List Bytes) (ha : ∀ s ∈ as, GoodSeg s) (hb : ∀ s ∈ bs, GoodSeg s)
    (h : renderAbs as = renderAbs bs) : as = bs := by
  rw [← segsOf_renderAbs as ha, ← segsOf_renderAbs bs hb, h]

/-- The heart of the confinement argument: if `Rel(base, p)` succeeds with an answer that does not
start with `..`, the elements of `base` are a prefix of the elements of `p`. -/
theorem checkRel_ok_prefix (base p p' : Bytes) (bs ps : List Bytes)
    (hb : CleanAbs base bs) (hp : CleanAbs p ps) (h : checkRel base p = .ok p') :
    ∃ extra, ps = bs ++ extra := by
  obtain ⟨hbeq, hbg⟩ := hb
  obtain ⟨hpeq, hpg⟩ := hp
  unfold checkRel at h
  cases hr : rel base p with
  | err => simp [hr] at h
  | ok r =>
    simp only [hr] at h
    have hnd : hasDotDotPrefix r = false := by
      cases hd : hasDotDotPrefix r with
      | false => rfl
      | true => simp [hd] at h
    unfold rel at hr
    have hcb : clean base = base := by rw [hbeq]; exact clean_renderAbs bs hbg
    have hcp : clean p = p := by rw [hpeq]; exact clean_renderAbs ps hpg
    simp only [hcb, hcp] at hr
    by_cases hsame : p = base
    · refine ⟨[], ?_⟩
      have : ps = bs := renderAbs_inj ps bs hpg hbg (by rw [← hpeq, ← hbeq, hsame])
      simp [this]
    · have hbd : base ≠ dot := by rw [hbeq]; simp [renderAbs, dot]
      have hrb : isRooted base = true := by rw [hbeq]; exact isRooted_renderAbs bs
      have hrp : isRooted p = true := by rw [hpeq]; exact isRooted_renderAbs ps
      simp only [hsame, if_false, hbd, hrb, hrp, ne_eq, not_true_eq_false] at hr
      have hsb : segsOf base = bs := by rw [hbeq]; exact segsOf_renderAbs bs hbg
      have hsp : segsOf p = ps := by rw [hpeq]; exact segsOf_renderAbs ps hpg
      rw [hsb, hsp] at hr
      obtain ⟨common, h1, h2⟩ := stripCommon_spec bs ps
      unfold relCore at hr
      simp only at hr
      by_cases hrb1 : (stripCommon bs ps).1 = []
      · refine ⟨(stripCommon bs ps).2, ?_⟩
        have hbc : common = bs := by
          have h1' := h1
          rw [hrb1] at h1'
          simpa using h1'.symm
        rw [hbc] at h2
        exact h2
      · simp only [hrb1, if_false] at hr
        split at hr
        · simp at hr
        · exfalso
          cases hx : (stripCommon bs ps).1 with
          | nil => exact hrb1 hx
          | cons x xs =>
            rw [hx] at hr
            simp only [List.map_cons, List.cons_append] at hr
            have hL : ∀ s ∈ (xs.map (fun _ => dotdot) ++ (stripCommon bs ps).2), (47 : UInt8) ∉ s := by
              intro s hs
              simp at hs
              rcases hs with ⟨_, _, rfl⟩ | hs
              · simp [dotdot]
              · exact (hpg s (by rw [h2]; simp [hs])).2.2.2
            have := clean_up_has_dotdot_prefix _ hL
            simp at hr
            rw [hr] at this
            rw [this] at hnd
            exact Bool.noConfusion hnd

theorem joinSlash_append (a b : List Bytes) (ha : a ≠ []) (hb : b ≠ []) :
    joinSlash (a ++ b) = joinSlash a ++ 47 :: joinSlash b := by
  induction a with
  | nil => exact absurd rfl ha
  | cons x rest ih =>
    cases rest with
    | nil =>
      cases b with
      | nil => exact absurd rfl hb
      | cons y ys => simp [joinSlash]
    | cons z zs =>
      have := ih (by simp)
      simp only [List.cons_append] at this ⊢
      simp [joinSlash, this]

/-! ## confinement -/

/-- **C08_confined.** For *every* key (any byte string: `..`, NUL, backslashes, invalid UTF-8, any
length) and every absolute cleaned base `/b₁/…/bₙ`: a key that `validatePath` accepts resolves to
`/b₁/…/bₙ/e₁/…/eₖ` (k ≥ 0) where every `eᵢ` is a real element — not empty, not `.`, not `..`,
without a separator. This holds whatever `sanitizePath` does (in particular although deleting NUL
*after* replacing `..` can re-create `..`): it is the `Rel` check that confines. -/
theorem C08_confined (base key p : Bytes) (bs : List Bytes) (hb : CleanAbs base bs)
    (h : validatePath base key = .ok p) :
    ∃ extra, p = renderAbs (bs ++ extra) ∧ ∀ s ∈ extra, GoodSeg s := by
  unfold validatePath at h
  simp only at h
  split at h
  · rename_i hroot
    have hpe := checkRel_ok_eq _ _ _ h
    have hcl := clean_rooted _ hroot
    have hgood := cleanStack_rooted_good (fpJoin base (sanitize key))
    rw [hcl] at h hpe
    obtain ⟨extra, hex⟩ := checkRel_ok_prefix base _ p bs _ hb ⟨rfl, hgood⟩ h
    refine ⟨extra, ?_, ?_⟩
    · rw [hpe, hex]
    · intro s hs
      exact hgood s (by rw [hex]; simp [hs])
  · simp at h

/-- `Clean(base) = base` and a leading `/` (what `filepath.Abs` in `NewLocalBackend` guarantees) is
the hypothesis `CleanAbs` of `C08_confined`. -/
theorem C08_cleanAbs_of_clean (base : Bytes) (hc : clean base = base) (hr : isRooted base = true) :
    ∃ bs, CleanAbs base bs :=
  ⟨cleanStack true (splitSlash base), by rw [← clean_rooted base hr, hc], cleanStack_rooted_good base⟩

/-- **C08_confined_str.** Byte-string form: the accepted path is the base itself or starts with
`base ++ "/"` (for the root directory `/` as base every absolute path qualifies, hence `base ≠ "/"`). -/
theorem C08_confined_str (base key p : Bytes) (hc : clean base = base) (hr : isRooted base = true)
    (hnr : base ≠ [47]) (h : validatePath base key = .ok p) :
    p = base ∨ (base ++ [47]) <+: p := by
  obtain ⟨bs, hb⟩ := C08_cleanAbs_of_clean base hc hr
  obtain ⟨extra, hp, _⟩ := C08_confined base key p bs hb h
  have hbs : bs ≠ [] := by
    intro e; apply hnr; rw [hb.1, e]; simp [renderAbs, joinSlash]
  cases extra with
  | nil => left; rw [hp, hb.1]; simp
  | cons e es =>
    right
    rw [hp, hb.1]
    unfold renderAbs
    rw [joinSlash_append bs (e :: es) hbs (by simp)]
    exact ⟨joinSlash (e :: es), by simp⟩

def wBase : Bytes := [47, 100, 97, 116, 97, 47, 97, 114, 99]            -- "/data/arc"
def wKeyNul : Bytes := [46, 0, 46, 47, 46, 0, 46, 47, 120]               -- ".\0./.\0./x"

/-- **C08_nul_quirk_witness.** The ordering quirk is real: `sanitizePath` deletes NUL *after*
replacing `..`, so `.\0./.\0./x` leaves it as `../../x`; `validatePath` nevertheless rejects the key
(second check), exactly as `C08_confined` demands. -/
theorem C08_nul_quirk_witness :
    sanitize wKeyNul = [46, 46, 47, 46, 46, 47, 120] ∧ validatePath wBase wKeyNul = .escapes := by
  decide

/-- non-vacuity of `C08_confined`: an accepted adversarial key, and its resolution -/
example : validatePath wBase [47, 47, 97, 47, 46, 46, 46, 47, 0, 98, 47] =
    .ok (wBase ++ [47, 47, 97, 47, 95, 46, 47, 98].drop 1) ∧ CleanAbs wBase [[100, 97, 116, 97], [97, 114, 99]] := by
  refine ⟨by decide, by decide, ?_⟩
  intro s hs
  simp at hs
  rcases hs with rfl | rfl <;> refine ⟨by decide, by decide, by decide, by decide⟩

/-! ### manifest entries and edge-sync uploads -/

theorem indexOfByte_none (b : UInt8) (p : Bytes) (h : indexOfByte b p = none) : b ∉ p := by
  induction p with
  | nil => simp
  | cons c r ih =>
    unfold indexOfByte at h
    split at h
    · simp at h
    · rename_i hc
      simp at h
      simp
      exact ⟨fun e => hc e.symm, ih h⟩

/-- **C08_manifest_shape.** A manifest path accepted by `ValidateManifestPath` is non-empty, at most
`MaxManifestPathLen` bytes, contains neither NUL nor `:`, and does not start with `/` or `\`. -/
theorem C08_manifest_shape (k : Bytes) (h : validateManifestPath k = .ok) :
    k ≠ [] ∧ k.length ≤ Arc.Generated.C08.maxManifestPathLen ∧ (0 : UInt8) ∉ k ∧ (58 : UInt8) ∉ k ∧
    isAbsolutePath k = false ∧ hasParentTraversalSegment k = false := by
  unfold validateManifestPath at h
  split at h; · simp at h
  rename_i h1
  split at h; · simp at h
  rename_i h2
  split at h; · simp at h
  rename_i h3
  split at h; · simp at h
  rename_i h4
  split at h; · simp at h
  rename_i h5
  split at h; · simp at h
  rename_i h6
  refine ⟨h1, by omega, by simpa using h3, ?_, by simpa using h5, by simpa using h6⟩
  simp at h4
  unfold colonCheck at h4
  split at h4
  · rename_i hidx; exact indexOfByte_none 58 k hidx
  · simp at h4; simp [h4.2] at h5

/-- **C08_manifest_confined.** Any manifest path the FSM accepts, when handed to the local backend,
is rejected or resolves inside the root. -/
theorem C08_manifest_confined (base k p : Bytes) (bs : List Bytes) (hb : CleanAbs base bs)
    (_hm : validateManifestPath k = .ok) (h : validatePath base k = .ok p) :
    ∃ extra, p = renderAbs (bs ++ extra) ∧ ∀ s ∈ extra, GoodSeg s :=
  C08_confined base k p bs hb h

/-- **C08_edgesync_confined.** The hub-side key `NamespacedPath(spoke, path)` and the staging key
of an edge-sync upload, when handed to the local backend, are rejected or resolve inside the root. -/
theorem C08_edgesync_confined (base spoke sp p : Bytes) (bs : List Bytes) (hb : CleanAbs base bs)
    (_h1 : validateSpokeID spoke = .ok) (_h2 : validateSyncPath sp = .ok)
    (h : validatePath base (namespacedPath spoke sp) = .ok p ∨
         validatePath base (stagingPathFor spoke sp) = .ok p) :
    ∃ extra, p = renderAbs (bs ++ extra) ∧ ∀ s ∈ extra, GoodSeg s := by
  rcases h with h | h
  · exact C08_confined base _ p bs hb h
  · exact C08_confined base _ p bs hb h

/-- **C08_edgesync_shape.** What the two edge-sync validators guarantee about their inputs. -/
theorem C08_edgesync_shape (spoke sp : Bytes) (h1 : validateSpokeID spoke = .ok)
    (h2 : validateSyncPath sp = .ok) :
    (spoke ≠ [] ∧ (47 : UInt8) ∉ spoke ∧ (92 : UInt8) ∉ spoke ∧ (0 : UInt8) ∉ spoke ∧ spoke.head? ≠ some 46) ∧
    (sp ≠ [] ∧ (0 : UInt8) ∉ sp ∧ (92 : UInt8) ∉ sp ∧ sp.head? ≠ some 47 ∧ sp.head? ≠ some 46 ∧
      containsDotDot sp = false ∧ ∀ s ∈ splitSlash sp, s ≠ []) := by
  constructor
  · unfold validateSpokeID at h1
    split at h1; · simp at h1
    rename_i a1
    split at h1; · simp at h1
    rename_i a2
    split at h1; · simp at h1
    rename_i a3
    split at h1; · simp at h1
    rename_i a4
    simp at a2 a4
    exact ⟨a1, a2.1, a2.2, a4, a3⟩
  · unfold validateSyncPath at h2
    split at h2; · simp at h2
    rename_i b1
    split at h2; · simp at h2
    rename_i b2
    split at h2; · simp at h2
    rename_i b3
    split at h2; · simp at h2
    rename_i b4
    split at h2; · simp at h2
    rename_i b5
    split at h2; · simp at h2
    rename_i b6
    split at h2; · simp at h2
    rename_i b7
    simp at b2 b4 b5 b6
    exact ⟨b1, b2, b4, b3, b7, b5, fun s hs e => b6 (e ▸ hs)⟩

example : validateManifestPath [100, 98, 47, 109, 47, 102] = .ok := by decide
example : validateSpokeID [101, 49] = .ok ∧
    validateSyncPath [100, 47, 102, 46, 112, 97, 114, 113, 117, 101, 116] = .ok := by decide

/-! ## atomicity -/

theorem writeOps_eq (f t : Bytes) (chunks : List Bytes) :
    writeOps f t chunks =
      ([Op.mkdirAll [], Op.createExcl t] ++ chunks.map (fun ch => Op.write t ch) ++ [Op.close t])
        ++ [Op.rename t f] := by
  simp [writeOps, proc, Arc.Generated.C08.writeSuccess, inst, Params.path]

theorem writeReaderOps_eq (f : Bytes) (chunks : List Bytes) :
    writeReaderOps f chunks =
      ([Op.mkdirAll [], Op.openTrunc (partPath f)] ++ chunks.map (fun ch => Op.write (partPath f) ch)
        ++ [Op.close (partPath f)]) ++ [Op.rename (partPath f) f] := by
  simp [writeReaderOps, proc, Arc.Generated.C08.writeReaderSuccess, inst, Params.path]

theorem appendOps_promote_eq (f : Bytes) (chunks : List Bytes) (asz : Int)
    (h : (totalLen chunks : Int) = asz) :
    appendReaderOps f chunks asz =
      ([Op.openAppend (partPath f)] ++ chunks.map (fun ch => Op.write (partPath f) ch)
        ++ [Op.close (partPath f)]) ++ ([Op.rename (partPath f) f] ++ [Op.close (partPath f)]) := by
  simp [appendReaderOps, h, proc, Arc.Generated.C08.appendSuccess, Arc.Generated.C08.appendPromote,
    Arc.Generated.C08.appendDeferred, inst, Params.path]

theorem appendOps_nopromote_eq (f : Bytes) (chunks : List Bytes) (asz : Int)
    (h : (totalLen chunks : Int) ≠ asz) :
    appendReaderOps f chunks asz =
      [Op.openAppend (partPath f)] ++ chunks.map (fun ch => Op.write (partPath f) ch)
        ++ [Op.close (partPath f)] := by
  simp [appendReaderOps, h, proc, Arc.Generated.C08.appendSuccess,
    Arc.Generated.C08.appendDeferred, inst, Params.path]

theorem writes_untouched (t f : Bytes) (htf : t ≠ f) (chunks : List Bytes) :
    ∀ o ∈ chunks.map (fun ch => Op.write t ch), o.touches f = false := by
  intro o ho
  simp at ho
  obtain ⟨ch, _, rfl⟩ := ho
  simp [Op.touches, htf]

/-- **C08_part_ne_final.** The staging name `<final>.part` is never the final name. -/
theorem C08_part_ne_final (f : Bytes) : partPath f ≠ f := by
  unfold partPath
  intro h
  have : Arc.Generated.C08.partSuffix = [] := List.append_right_eq_self.mp h
  revert this
  decide

/-- **C08_write_complete.** `Write` run to the end leaves exactly the data at the final path and no
temp file (the temp name is fresh — `O_EXCL` — and differs from the final name). -/
theorem C08_write_complete (fs0 : FS) (f t : Bytes) (chunks : List Bytes) (htf : t ≠ f)
    (hfresh : fs0 t = none) :
    run fs0 (writeOps f t chunks) f = some chunks.flatten ∧ run fs0 (writeOps f t chunks) t = none := by
  rw [writeOps_eq]
  have h1 : (fs0.set t []) t = some [] := by simp [FS.set]
  obtain ⟨fs', hr, ht, _⟩ := writes_run t chunks (fs0.set t []) [] h1
  have hall : runAll fs0 ([Op.mkdirAll [], Op.createExcl t] ++ chunks.map (fun ch => Op.write t ch)) = some fs' := by
    simp [runAll, step, hfresh]; exact hr
  have hsplit : ([Op.mkdirAll [], Op.createExcl t] ++ chunks.map (fun ch => Op.write t ch) ++ [Op.close t])
      ++ [Op.rename t f] =
      ([Op.mkdirAll [], Op.createExcl t] ++ chunks.map (fun ch => Op.write t ch)) ++ [Op.close t, Op.rename t f] := by
    simp
  rw [hsplit, run_append_of_runAll _ _ fs0 fs' hall]
  simp at ht
  constructor
  · simp [run, step, ht, FS.set]
  · simp [run, step, ht, FS.set, FS.del, htf]

/-- **C08_atomic_write.** Crash at any point of `Write` (= any prefix of its op sequence, for any
way the kernel cuts the data into `write(2)` pieces): the final path holds what it held before
(absent or the previous content) or the complete data. -/
theorem C08_atomic_write (fs0 : FS) (f t : Bytes) (chunks : List Bytes) (htf : t ≠ f)
    (hfresh : fs0 t = none) :
    ∀ st ∈ crashStates fs0 (writeOps f t chunks), st f = fs0 f ∨ st f = some chunks.flatten := by
  intro st hst
  obtain ⟨k, rfl⟩ := mem_crashStates _ _ _ hst
  have hfull := (C08_write_complete fs0 f t chunks htf hfresh).1
  rw [writeOps_eq] at hfull ⊢
  have hA : ∀ o ∈ ([Op.mkdirAll [], Op.createExcl t] ++ chunks.map (fun ch => Op.write t ch) ++ [Op.close t]),
      o.touches f = false := by
    intro o ho
    simp only [List.mem_append] at ho
    rcases ho with (ho | ho) | ho
    · simp at ho; rcases ho with rfl | rfl <;> simp [Op.touches, htf]
    · exact writes_untouched t f htf chunks o ho
    · simp at ho; subst ho; simp [Op.touches]
  rcases staged_atomic fs0 _ (Op.rename t f) f hA k with h | h
  · left; exact h
  · right; rw [h]; exact hfull

theorem C08_write_reader_complete (fs0 : FS) (f : Bytes) (chunks : List Bytes) :
    run fs0 (writeReaderOps f chunks) f = some chunks.flatten ∧
    run fs0 (writeReaderOps f chunks) (partPath f) = none := by
  rw [writeReaderOps_eq]
  have htf := C08_part_ne_final f
  have h1 : (fs0.set (partPath f) []) (partPath f) = some [] := by simp [FS.set]
  obtain ⟨fs', hr, ht, _⟩ := writes_run (partPath f) chunks (fs0.set (partPath f) []) [] h1
  have hall : runAll fs0 ([Op.mkdirAll [], Op.openTrunc (partPath f)] ++
      chunks.map (fun ch => Op.write (partPath f) ch)) = some fs' := by
    simp [runAll, step]; exact hr
  have hsplit : ([Op.mkdirAll [], Op.openTrunc (partPath f)] ++ chunks.map (fun ch => Op.write (partPath f) ch)
      ++ [Op.close (partPath f)]) ++ [Op.rename (partPath f) f] =
      ([Op.mkdirAll [], Op.openTrunc (partPath f)] ++ chunks.map (fun ch => Op.write (partPath f) ch))
        ++ [Op.close (partPath f), Op.rename (partPath f) f] := by
    simp
  rw [hsplit, run_append_of_runAll _ _ fs0 fs' hall]
  simp at ht
  constructor
  · simp [run, step, ht, FS.set]
  · simp [run, step, ht, FS.set, FS.del, htf]

/-- **C08_atomic_write_reader.** Crash at any point of `WriteReader` — whatever was at the final
path and at `<final>.part` before: the final path is unchanged or holds the complete stream. The
`.part` file may hold any prefix, but (C08_part_ne_final) it is never the final name. -/
theorem C08_atomic_write_reader (fs0 : FS) (f : Bytes) (chunks : List Bytes) :
    ∀ st ∈ crashStates fs0 (writeReaderOps f chunks), st f = fs0 f ∨ st f = some chunks.flatten := by
  intro st hst
  obtain ⟨k, rfl⟩ := mem_crashStates _ _ _ hst
  have hfull := (C08_write_reader_complete fs0 f chunks).1
  have htf := C08_part_ne_final f
  rw [writeReaderOps_eq] at hfull ⊢
  have hA : ∀ o ∈ ([Op.mkdirAll [], Op.openTrunc (partPath f)] ++
      chunks.map (fun ch => Op.write (partPath f) ch) ++ [Op.close (partPath f)]), o.touches f = false := by
    intro o ho
    simp only [List.mem_append] at ho
    rcases ho with (ho | ho) | ho
    · simp at ho; rcases ho with rfl | rfl <;> simp [Op.touches, htf]
    · exact writes_untouched _ f htf chunks o ho
    · simp at ho; subst ho; simp [Op.touches]
  rcases staged_atomic fs0 _ (Op.rename (partPath f) f) f hA k with h | h
  · left; exact h
  · right; rw [h]; exact hfull

/-- **C08_atomic_append.** Crash at any point of `AppendReader` (resumed append): the final path is
unchanged, or — only when the call delivered exactly `appendSize` bytes — holds the previously staged
bytes followed by all appended bytes. If the byte count differs the final path is never touched. -/
theorem C08_atomic_append (fs0 : FS) (f p0 : Bytes) (chunks : List Bytes) (asz : Int)
    (hpart : fs0 (partPath f) = some p0) :
    ∀ st ∈ crashStates fs0 (appendReaderOps f chunks asz),
      st f = fs0 f ∨ ((totalLen chunks : Int) = asz ∧ st f = some (p0 ++ chunks.flatten)) := by
  intro st hst
  obtain ⟨k, rfl⟩ := mem_crashStates _ _ _ hst
  have htf := C08_part_ne_final f
  have hA : ∀ o ∈ ([Op.openAppend (partPath f)] ++ chunks.map (fun ch => Op.write (partPath f) ch)
      ++ [Op.close (partPath f)]), o.touches f = false := by
    intro o ho
    simp only [List.mem_append] at ho
    rcases ho with (ho | ho) | ho
    · simp at ho; subst ho; simp [Op.touches]
    · exact writes_untouched _ f htf chunks o ho
    · simp at ho; subst ho; simp [Op.touches]
  by_cases hsz : (totalLen chunks : Int) = asz
  · rw [appendOps_promote_eq f chunks asz hsz]
    -- prefixes: inside the staging part, or staging part ++ prefix of [rename, close]
    obtain ⟨fs', hr, ht, _⟩ := writes_run (partPath f) chunks fs0 p0 hpart
    have hall : runAll fs0 ([Op.openAppend (partPath f)] ++ chunks.map (fun ch => Op.write (partPath f) ch)
        ++ [Op.close (partPath f)]) = some fs' := by
      have : runAll fs0 ([Op.openAppend (partPath f)] ++ chunks.map (fun ch => Op.write (partPath f) ch)) = some fs' := by
        simp [runAll, step, hpart]; exact hr
      rw [runAll_append _ _ fs0 fs' this]
      simp [runAll, step]
    by_cases hk : k ≤ ([Op.openAppend (partPath f)] ++ chunks.map (fun ch => Op.write (partPath f) ch)
        ++ [Op.close (partPath f)]).length
    · left
      rw [List.take_append_of_le_length hk]
      exact run_untouched _ _ _ (fun o ho => hA o (List.mem_of_mem_take ho))
    · rw [List.take_append]
      have hk' : List.take k ([Op.openAppend (partPath f)] ++ chunks.map (fun ch => Op.write (partPath f) ch)
          ++ [Op.close (partPath f)]) = _ := List.take_of_length_le (by omega)
      rw [hk', run_append_of_runAll _ _ fs0 fs' hall]
      generalize k - _ = j
      have hf' : fs' f = fs0 f := by
        have := run_untouched _ fs0 f hA
        rw [← List.append_nil (_ ++ [Op.close (partPath f)]), run_append_of_runAll _ [] fs0 fs' hall] at this
        simpa [run] using this
      match j with
      | 0 => left; simp [run]; exact hf'
      | 1 => right; refine ⟨hsz, ?_⟩; simp [run, step, ht, FS.set]
      | (n + 2) => right; refine ⟨hsz, ?_⟩; simp [run, step, ht, FS.set]
  · left
    rw [appendOps_nopromote_eq f chunks asz hsz]
    exact run_untouched _ _ _ (fun o ho => hA o (List.mem_of_mem_take ho))


/-- non-vacuity of the atomicity theorems: a previous file, a stale `.part`, three write pieces -/
example :
    let f : Bytes := [47, 114, 47, 102]
    let fs0 : FS := (FS.empty.set f [1, 2, 3]).set (partPath f) [9]
    (crashStates fs0 (writeReaderOps f [[7], [8, 8], [9]])).map (fun st => (st f, st (partPath f))) =
      [(some [1,2,3], some [9]), (some [1,2,3], some [9]), (some [1,2,3], some []), (some [1,2,3], some [7]),
       (some [1,2,3], some [7,8,8]), (some [1,2,3], some [7,8,8,9]), (some [1,2,3], some [7,8,8,9]),
       (some [7,8,8,9], none)] ∧
    (crashStates fs0 (appendReaderOps f [[7], [8]] 2)).map (fun st => (st f, st (partPath f))) =
      [(some [1,2,3], some [9]), (some [1,2,3], some [9]), (some [1,2,3], some [9,7]), (some [1,2,3], some [9,7,8]),
       (some [1,2,3], some [9,7,8]), (some [9,7,8], none), (some [9,7,8], none)] := by
  decide

/-- **C08_staging_ops_spare_final.** Every operation of the three procedures except the last
`rename` leaves the final path alone: the partial content only ever lives under the temp / `.part`
name. (`dropLast` of the append sequence with promotion drops the deferred `close`; the `rename`
is then the last element.) -/
theorem C08_staging_ops_spare_final (f t : Bytes) (chunks : List Bytes) (htf : t ≠ f) :
    (∀ o ∈ (writeOps f t chunks).dropLast, o.touches f = false) ∧
    (∀ o ∈ (writeReaderOps f chunks).dropLast, o.touches f = false) := by
  have hp := C08_part_ne_final f
  constructor
  · rw [writeOps_eq, List.dropLast_concat]
    intro o ho
    simp only [List.mem_append] at ho
    rcases ho with (ho | ho) | ho
    · simp at ho; rcases ho with rfl | rfl <;> simp [Op.touches, htf]
    · exact writes_untouched t f htf chunks o ho
    · simp at ho; subst ho; simp [Op.touches]
  · rw [writeReaderOps_eq, List.dropLast_concat]
    intro o ho
    simp only [List.mem_append] at ho
    rcases ho with (ho | ho) | ho
    · simp at ho; rcases ho with rfl | rfl <;> simp [Op.touches, hp]
    · exact writes_untouched _ f hp chunks o ho
    · simp at ho; subst ho; simp [Op.touches]

/-! ### the "directory was deleted externally" retry branch -/

theorem crashStates_mem_take (fs0 : FS) (ops : List Op) (k : Nat) :
    run fs0 (ops.take k) ∈ crashStates fs0 ops := by
  unfold crashStates
  simp only [List.mem_map, List.mem_range]
  by_cases hk : k ≤ ops.length
  · exact ⟨k, by omega, rfl⟩
  · refine ⟨ops.length, by omega, ?_⟩
    rw [List.take_of_length_le (Nat.le_refl _), List.take_of_length_le (by omega)]

/-- prefixing an op sequence with an `mkdirAll` adds no new crash state -/
theorem crashStates_mkdir_cons (fs0 : FS) (d : Bytes) (ops : List Op) (st : FS)
    (h : st ∈ crashStates fs0 (Op.mkdirAll d :: ops)) : st ∈ crashStates fs0 ops := by
  obtain ⟨k, rfl⟩ := mem_crashStates _ _ _ h
  cases k with
  | zero => simpa [run] using crashStates_mem_take fs0 ops 0
  | succ k =>
    simp only [List.take_succ_cons, run, step]
    exact crashStates_mem_take fs0 ops k

theorem writeRetryOps_eq (f t : Bytes) (chunks : List Bytes) :
    writeRetryOps f t chunks = Op.mkdirAll [] :: writeOps f t chunks := by
  rw [writeOps_eq]
  simp [writeRetryOps, proc, Arc.Generated.C08.writeSuccess, Arc.Generated.C08.writeOnError, inst,
    Params.path]

theorem writeReaderRetryOps_eq (f : Bytes) (chunks : List Bytes) :
    writeReaderRetryOps f chunks = Op.mkdirAll [] :: writeReaderOps f chunks := by
  rw [writeReaderOps_eq]
  simp [writeReaderRetryOps, proc, Arc.Generated.C08.writeReaderSuccess,
    Arc.Generated.C08.writeReaderOnError, inst, Params.path]

/-- **C08_atomic_write_retry.** The retry branch of `Write` (partition directory cached but deleted
behind the backend's back: failed `CreateTemp`, then — regenerated error-block steps — mkdir and a new
`CreateTemp`, then write/close/rename) is atomic as well: it still creates the final name only by
`rename`. -/
theorem C08_atomic_write_retry (fs0 : FS) (f t : Bytes) (chunks : List Bytes) (htf : t ≠ f)
    (hfresh : fs0 t = none) :
    ∀ st ∈ crashStates fs0 (writeRetryOps f t chunks), st f = fs0 f ∨ st f = some chunks.flatten := by
  intro st hst
  rw [writeRetryOps_eq] at hst
  exact C08_atomic_write fs0 f t chunks htf hfresh st (crashStates_mkdir_cons fs0 [] _ st hst)

/-- **C08_atomic_write_reader_retry.** Same for the retry branch of `WriteReader`. -/
theorem C08_atomic_write_reader_retry (fs0 : FS) (f : Bytes) (chunks : List Bytes) :
    ∀ st ∈ crashStates fs0 (writeReaderRetryOps f chunks), st f = fs0 f ∨ st f = some chunks.flatten := by
  intro st hst
  rw [writeReaderRetryOps_eq] at hst
  exact C08_atomic_write_reader fs0 f chunks st (crashStates_mkdir_cons fs0 [] _ st hst)

/-! ### error paths -/

open Arc.Generated.C08 in
/-- all skeleton steps found inside error-handling blocks and `defer`s of the three procedures -/
def errorSteps : List Step :=
  writeOnError ++ writeDeferred ++ writeReaderOnError ++ writeReaderDeferred ++ appendOnError ++ appendDeferred

/-- **C08_error_paths_spare_final.** (regenerated fact, by evaluation) No call in an error block or
a `defer` of `Write`/`WriteReader`/`AppendReader` names the final path: cleanup only removes the
temp file, retries only re-create the staging file. -/
theorem C08_error_paths_spare_final :
    ∀ s ∈ errorSteps, s.a ≠ .final ∧ s.b ≠ .final ∧ s.call ≠ .rename := by decide

theorem inst_spares_final (w : Params) (s : Arc.Generated.C08.Step)
    (hs : s.a ≠ .final ∧ s.b ≠ .final ∧ s.call ≠ .rename)
    (h1 : w.staging ≠ w.final) (h2 : w.dir ≠ w.final) (h3 : w.final ≠ []) :
    ∀ o ∈ inst w s, o.touches w.final = false := by
  obtain ⟨ha, hb, hc⟩ := hs
  have hpa : w.path s.a ≠ w.final := by
    cases hsa : s.a <;> simp_all [Params.path]
  intro o ho
  unfold inst at ho
  cases hcall : s.call <;> simp [hcall] at ho
  all_goals first
    | exact absurd hcall hc
    | (subst ho; simp [Op.touches, hpa, h1]; done)
    | (obtain ⟨ch, _, rfl⟩ := ho; simp [Op.touches, hpa])

/-- **C08_error_cleanup_inert.** Whatever subsequence of error-path / deferred calls runs — from
whatever state a failure or a crash prefix left — the final path is not modified. -/
theorem C08_error_cleanup_inert (w : Params) (steps : List Arc.Generated.C08.Step)
    (hsub : ∀ s ∈ steps, s ∈ errorSteps)
    (h1 : w.staging ≠ w.final) (h2 : w.dir ≠ w.final) (h3 : w.final ≠ []) (fs : FS) :
    run fs (proc steps w) w.final = fs w.final := by
  apply run_untouched
  intro o ho
  unfold proc at ho
  simp only [List.mem_flatMap] at ho
  obtain ⟨s, hs, ho⟩ := ho
  exact inst_spares_final w s (C08_error_paths_spare_final s (hsub s hs)) h1 h2 h3 o ho

/-! ### ties to the regenerated facts -/

open Arc.Generated.C08 in
/-- **C08_order_tied.** The success-path call order (and path roles) the theorems above were proved
for is the one extracted from the current source. -/
theorem C08_order_tied :
    writeSuccess = [⟨.ensureDir, .dir, .none⟩, ⟨.createTemp, .dir, .none⟩, ⟨.write, .staging, .none⟩,
      ⟨.close, .staging, .none⟩, ⟨.rename, .staging, .final⟩] ∧
    writeReaderSuccess = [⟨.ensureDir, .dir, .none⟩, ⟨.openTrunc, .staging, .none⟩, ⟨.write, .staging, .none⟩,
      ⟨.close, .staging, .none⟩, ⟨.rename, .staging, .final⟩] ∧
    appendSuccess = [⟨.openAppend, .staging, .none⟩, ⟨.write, .staging, .none⟩] ∧
    appendPromote = [⟨.close, .staging, .none⟩, ⟨.rename, .staging, .final⟩] ∧
    appendDeferred = [⟨.close, .staging, .none⟩] := by decide

/-- **C08_validate_chain_tied.** `validatePath` is still sanitize → Join(base,·) → Abs → Rel(base,·) →
reject on a `..` prefix → return the absolute path; `sanitizePath` still has its three statements in
the modelled order. -/
theorem C08_validate_chain_tied :
    Arc.Generated.C08.validateChain =
      ["sanitizePath(path)", "filepath.Join(b.basePath,sanitized)", "filepath.Abs(fullPath)",
       "filepath.Rel(b.basePath,absPath)", "strings.HasPrefix(relPath,\"..\")", "return absPath"] ∧
    Arc.Generated.C08.sanitizeSteps = [.trimLeadingSlash, .replaceDotDot, .removeNul] := by decide

/-! ## the staging file is inside the root too (FIXED finding, commit 0cc3d06)

Before the fix the three write procedures obtained their final path from `validatePath`, which
accepts keys resolving to the root itself (`""`, `"/"`, `"."`, `"a/.\0."` …, `p = base`); the staging
name `partPath p = base ++ ".part"` (and `Write`'s temp file in `Dir(base)`) is then a *sibling* of
the root. `C08_root_key_witness` records that fact about `validatePath` (still true: reads, lists and
deletes legitimately address the root) and that `validateFilePath` now refuses the key. -/

/-- **C08_root_key_witness.** `validatePath` accepts the empty key as the root; its staging name
`/data/arc.part` would be neither the root nor below it; `validateFilePath` rejects the key. -/
theorem C08_root_key_witness :
    validatePath wBase [] = .ok wBase ∧
    partPath wBase = [47, 100, 97, 116, 97, 47, 97, 114, 99, 46, 112, 97, 114, 116] ∧
    partPath wBase ≠ wBase ∧ (wBase ++ [47]).isPrefixOf (partPath wBase) = false ∧
    validateFilePath wBase [] = .rootKey := by decide

/-- **C08_root_guard_tied.** (regenerated facts) `Write`, `WriteReader`, `AppendReader` all obtain
their final path from `validateFilePath`, which is `validatePath` followed by the rejection of
`fullPath == b.basePath`. -/
theorem C08_root_guard_tied :
    Arc.Generated.C08.writersRejectRootKey = true ∧
    Arc.Generated.C08.writeValidators = ["validateFilePath", "validateFilePath", "validateFilePath"] ∧
    Arc.Generated.C08.validateFileChain =
      ["fullPath,err:=b.validatePath(path)", "if err != nil return \"\",err",
       "if fullPath == b.basePath return \"\",error", "return fullPath,nil"] := by decide

theorem validateFilePath_ok (base key p : Bytes) (h : validateFilePath base key = .ok p) :
    validatePath base key = .ok p ∧ p ≠ base := by
  unfold validateFilePath at h
  cases hv : validatePath base key with
  | ok q =>
    simp only [hv] at h
    by_cases hq : q = base
    · simp [hq, Arc.Generated.C08.writersRejectRootKey] at h
    · simp [hq] at h
      subst h
      exact ⟨rfl, hq⟩
  | needsCwd => simp [hv] at h
  | relFailed => simp [hv] at h
  | escapes => simp [hv] at h
  | rootKey => simp [hv] at h

theorem joinSlash_snoc_append (l : List Bytes) (x suf : Bytes) :
    joinSlash (l ++ [x]) ++ suf = joinSlash (l ++ [x ++ suf]) := by
  induction l with
  | nil => simp [joinSlash]
  | cons a rest ih =>
    cases rest with
    | nil => simp [joinSlash]
    | cons b rest' =>
      simp only [List.cons_append] at ih ⊢
      simp only [joinSlash]
      rw [← ih]
      simp

/-- If the key does not resolve to the root itself (`p ≠ base`), the staging file is strictly inside
the root as well, its last element being the final file name with `.part` appended. -/
theorem staging_confined_of_ne (base key p : Bytes) (bs : List Bytes) (hb : CleanAbs base bs)
    (h : validatePath base key = .ok p) (hne : p ≠ base) :
    ∃ extra, extra ≠ [] ∧ partPath p = renderAbs (bs ++ extra) ∧ ∀ s ∈ extra, GoodSeg s := by
  obtain ⟨extra, hp, hg⟩ := C08_confined base key p bs hb h
  have hex : extra ≠ [] := by
    intro e; apply hne; rw [hp, e, hb.1]; simp
  obtain ⟨init, last, hil⟩ : ∃ init last, extra = init ++ [last] :=
    ⟨extra.dropLast, extra.getLast hex, (List.dropLast_concat_getLast hex).symm⟩
  subst hil
  refine ⟨init ++ [last ++ Arc.Generated.C08.partSuffix], by simp, ?_, ?_⟩
  · unfold partPath
    rw [hp]
    unfold renderAbs
    rw [← List.append_assoc, List.cons_append, joinSlash_snoc_append]
    simp
  · intro s hs
    simp only [List.mem_append, List.mem_singleton] at hs
    rcases hs with hs | rfl
    · exact hg s (by simp [hs])
    · have hl := hg last (by simp)
      refine ⟨by simp [Arc.Generated.C08.partSuffix], ?_, ?_, ?_⟩
      · intro e
        have := congrArg List.length e
        simp [Arc.Generated.C08.partSuffix, dot] at this
      · intro e
        have := congrArg List.length e
        simp [Arc.Generated.C08.partSuffix, dotdot] at this
      · simp [Arc.Generated.C08.partSuffix]
        exact hl.2.2.2

/-- **C08_file_key_below_root.** Every key the write procedures accept resolves *strictly* below the
root: `/b₁/…/bₙ/e₁/…/eₖ` with k ≥ 1 real elements (so `Dir(p)`, where `Write` creates its temp file,
is the root or below it). -/
theorem C08_file_key_below_root (base key p : Bytes) (bs : List Bytes) (hb : CleanAbs base bs)
    (h : validateFilePath base key = .ok p) :
    ∃ extra, extra ≠ [] ∧ p = renderAbs (bs ++ extra) ∧ ∀ s ∈ extra, GoodSeg s := by
  obtain ⟨hv, hne⟩ := validateFilePath_ok base key p h
  obtain ⟨extra, hp, hg⟩ := C08_confined base key p bs hb hv
  refine ⟨extra, ?_, hp, hg⟩
  intro e; apply hne; rw [hp, e, hb.1]; simp

/-- **C08_staging_confined.** (full statement, no carve-out) For every key `Write`/`WriteReader`/
`AppendReader` accept, the `.part` staging file is strictly inside the root as well. -/
theorem C08_staging_confined (base key p : Bytes) (bs : List Bytes) (hb : CleanAbs base bs)
    (h : validateFilePath base key = .ok p) :
    ∃ extra, extra ≠ [] ∧ partPath p = renderAbs (bs ++ extra) ∧ ∀ s ∈ extra, GoodSeg s := by
  obtain ⟨hv, hne⟩ := validateFilePath_ok base key p h
  exact staging_confined_of_ne base key p bs hb hv hne

example : validateFilePath wBase [100, 47, 102] = .ok (wBase ++ [47, 100, 47, 102]) := by decide

end Arc.C08
