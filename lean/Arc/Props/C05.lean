import Arc.Model.C05
import Arc.Proofs.C05.Data
import Arc.Proofs.C05.LTS
/-!
# C05 — WAL crash recovery restores exactly the acknowledged rows

Property (properties.jsonl): if the process dies after a write was acknowledged and its WAL entry reached the
file, the next startup makes every such row queryable in the same database and measurement with the same
column names, values and timestamps; recovery never re-routes, rescales or drops columns, and a crash during
or just after recovery does not lose the rows being recovered.

FULL STATEMENTS (false of the current source — see the witnesses):

    theorem C05_replay_eq_live (san nowL nowR req rows) :
        liveRows san nowL req = .ok rows → replayRows san nowR (walEntry req) = .ok rows
    theorem C05_db_preserved (…) : … → ∀ r ∈ replayed rows, r.db = database of the request
    theorem C05_full (evs st) : run deleteNeedsAllReplayed flushBeforeRemove {} evs = some st → quiescent st →
        ∀ r ∈ st.rows, r.pers → r.s + r.sr = 1

What is proved: the same statements under explicit decidable carve-outs (`carve`, `evSafe`), kernel-evaluated
witnesses that each carve-out clause is necessary (each is a defect confirmed on the real code by the harness),
and the ties to the regenerated facts.
-/
namespace Arc.C05
open Arc.Generated.C05

/-! ## ties to the current source (regenerated on every run) -/

/-- The shape of the recovery callbacks / WAL row builders the model and the proofs rely on: the row callback
looks first at exactly the two keys `columnarToWALRecords` writes (and writes LAST, so they win over same-named
columns), both are among the removed keys, every removed key is one the live path does not store either ('_'
prefix), `parseColumnarEntry` accepts integer measurements, the entry queued by AppendRaw* owns a copy of the
payload (so `walEntry req` — the bytes at acknowledgement time — is what reaches the file even when the request
buffer is re-used before the asynchronous writer drains it), the
columnar callback and the row callback use the same default database, the threshold table is the 1e10 / 1e13 /
1e16 ladder, and `os.Remove(walFile)` follows the callbacks (guarded by allEntriesSucceeded) with no flush
in between. -/
theorem C05_facts_tied :
    measKeys.head? = some walMeasKey ∧ dbKeys.head? = some walDbKey ∧
    removedKeys.contains walDbKey = true ∧ removedKeys.contains walMeasKey = true ∧
    colDbDefault = dbDefault ∧ walKeysLast = true ∧ replayAcceptsIntMeas = true ∧ queuedEntryOwnsCopy = true ∧
    removedKeys.all (fun k => !visible k && k != kTime) = true ∧
    thresholds = [(10000000000, 1000000), (10000000000000, 1000), (10000000000000000, 1)] ∧ elseMult = -1000 ∧
    removeAfterCallbacks = true ∧ removeGuardedByAllSucceeded = true ∧ callbackErrorsClearAllOk = true ∧
    walDirUsedVerbatim = true ∧ flushBeforeRemove = false := by
  decide

/-- `normalizeTimestampColumns` is the identity exactly on microsecond values in [1e13, 1e16): everything
earlier than 1970-04-26T17:46:40Z (all pre-1970 instants included) and everything from 2286-11-20 on is
rescaled when an already-normalised value passes through it again. -/
theorem C05_stable_range (t : Int) :
    usStable t = true ↔ (10000000000000 ≤ t ∧ t < 10000000000000000) := by
  simp only [usStable, multOf, thresholds, elseMult, pickMult, Bool.and_eq_true, beq_iff_eq, decide_eq_true_eq]
  constructor
  · rintro ⟨⟨h, _⟩, _⟩
    split at h
    · omega
    · split at h
      · omega
      · split at h <;> omega
  · rintro ⟨h1, h2⟩
    refine ⟨⟨?_, by omega⟩, by omega⟩
    rw [if_neg (by omega), if_neg (by omega), if_pos (by omega)]

/-! ## data part -/

/-- C05_replay_eq_live inside the carve-out `carve`:
* raw entries (top-level MessagePack columnar): database header present (always, the handlers default it) and
  the body carries a time column (else the generated time differs, C05_generated_time_witness);
* row entries (line protocol, MessagePack rows, nested columnar): unique names and equal lengths (what a Go
  map of validated columns gives), every timestamp in the stable range (C05_rescale_witness), strings already
  sanitised.  No restriction on column NAMES any more: since c684d79 / 25d831b columns called `_database`,
  `_measurement`, `database`, `measurement`, `m` neither re-route nor disappear.
Then the rows startup recovery re-buffers for the persisted entry are exactly the rows the live path stored:
same database, measurement, column names, values, timestamps. -/
theorem C05_replay_eq_live_partial (san : Str → Str) (nowL nowR : Int) (req : Req) (rows : List Row)
    (hc : carve san req = true) (h : liveRows san nowL req = .ok rows) :
    replayRows san nowR (walEntry req) = .ok rows := by
  cases req with
  | raw db m cols =>
    simp only [carve, carveRaw, Bool.and_eq_true] at hc
    obtain ⟨hdb, ht⟩ := hc
    have hdb' : db ≠ [] := by simpa using hdb
    cases m with
    | str meas =>
      simp only [liveRows, measOf] at h
      simp only [walEntry, replayRows, replayRawG, hdb', if_false]
      rw [ingestCols_now_irrel san nowR nowL db meas cols ht]
      exact h
    | int n =>
      simp only [liveRows, measOf] at h
      simp only [walEntry, replayRows, replayRawG, replay_int, hdb', if_false, if_true]
      rw [ingestCols_now_irrel san nowR nowL db _ cols ht]
      exact h
    | other => simp [liveRows, measOf] at h
  | pcol db meas cols =>
    exact rows_replay_eq_live san nowR db meas cols rows hc h
  | rgrp db meas pts =>
    exact rows_replay_eq_live san nowR db meas (rowsToColumnar pts) rows hc h

example : carve id (.pcol [112] [99] [(kTime, [.int 1700000000000000, .int 1700000000000001]),
    ([118], [.flt 5, .null]), ([109], [.str [97], .str [98]]), (walDbKey, [.str [113], .null])]) = true ∧
    (liveRows id 0 (.pcol [112] [99] [(kTime, [.int 1700000000000000, .int 1700000000000001]),
      ([118], [.flt 5, .null]), ([109], [.str [97], .str [98]]), (walDbKey, [.str [113], .null])])).toOption.map
        List.length = some 2 := by
  decide

example : carve id (.raw [112] (.int 5) [(kTime, [.int 1700000000]), ([118], [.int 1])]) = true := by decide

def reqDb : Req → Str
  | .raw db _ _ => db
  | .pcol db _ _ => db
  | .rgrp db _ _ => db

theorem liveRows_db (san : Str → Str) (now : Int) (req : Req) (rows : List Row)
    (h : liveRows san now req = .ok rows) : ∀ r ∈ rows, r.db = reqDb req := by
  cases req with
  | raw db m cols =>
    simp only [liveRows] at h
    cases hm : measOf m with
    | none => simp [hm] at h
    | some meas =>
      simp only [hm] at h
      unfold ingestCols at h
      cases cols with
      | nil => simp at h
      | cons p rest =>
        simp only at h
        split at h
        · cases h
        · split at h
          · cases h
          · split at h
            · cases h
            · exact fun r hr => (toRows_db_meas _ _ _ _ h r hr).1
  | pcol db meas cols => exact fun r hr => (toRows_db_meas _ _ _ _ h r hr).1
  | rgrp db meas pts => exact fun r hr => (toRows_db_meas _ _ _ _ h r hr).1

/-- C05_db_preserved inside the carve-out: recovery never routes a row to another database. -/
theorem C05_db_preserved_partial (san : Str → Str) (nowL nowR : Int) (req : Req) (rows : List Row)
    (hc : carve san req = true) (h : liveRows san nowL req = .ok rows) :
    ∃ rows', replayRows san nowR (walEntry req) = .ok rows' ∧ ∀ r ∈ rows', r.db = reqDb req :=
  ⟨rows, C05_replay_eq_live_partial san nowL nowR req rows hc h, liveRows_db san nowL req rows h⟩

/-! ### witnesses: every clause of the carve-out is necessary (each confirmed on the real code) -/

/-- (a) a line-protocol / row-format row at 1970-01-01T00:00:05Z (5 000 000 µs) is restored at 5·10¹² µs
(1970-02-27): replay re-detects "seconds" from an already-microsecond value. -/
theorem C05_rescale_witness :
    (liveRows id 0 (.pcol [112] [99] [(kTime, [.int 5000000]), ([118], [.int 1])])).toOption =
      some [{ db := [112], meas := [99], time := 5000000, cells := [([118], .i 1)] }] ∧
    (replayRows id 0 (walEntry (.pcol [112] [99] [(kTime, [.int 5000000]), ([118], [.int 1])]))).toOption =
      some [{ db := [112], meas := [99], time := 5000000000000, cells := [([118], .i 1)] }] := by
  decide

/-- (a') pre-1970 rows (negative µs) are multiplied by 10⁶. -/
theorem C05_rescale_pre1970_witness :
    (replayRows id 0 (walEntry (.pcol [112] [99] [(kTime, [.int (-8253000000)]), ([118], [.int 1])]))).toOption =
      some [{ db := [112], meas := [99], time := -8253000000000000, cells := [([118], .i 1)] }] := by
  decide

/-! Fixed in /repo (c684d79 routing keys written last, 25d831b callback consumes only those two keys, c631216
integer measurements replay): the former witnesses are kept only about the explicitly pre-fix definitions
`mkRecG false` / `replayRawG false`; the main theorem now covers those inputs. -/

/-- pre-c684d79 (`mkRecG false`): a column named `_database` overwrote the routing key and re-routed the row;
with the keys written last (`mkRecG true`) the request's database wins. -/
theorem C05_prefix_reroute_witness :
    (rowCb id 0 (mkRecG false [112] [99] [(kTime, [.int 1700000000000000]), (walDbKey, [.str [113]]),
        ([118], [.int 1])] 0)).toOption.map (List.map (·.db)) = some [[113]] ∧
    (rowCb id 0 (mkRecG true [112] [99] [(kTime, [.int 1700000000000000]), (walDbKey, [.str [113]]),
        ([118], [.int 1])] 0)).toOption.map (List.map (·.db)) = some [[112]] := by
  decide

/-- pre-c684d79: a NULL in a column named `_measurement` made the row callback skip the row. -/
theorem C05_prefix_null_measurement_column_witness :
    (rowCb id 0 (mkRecG false [112] [99] [(kTime, [.int 1700000000000000]), (walMeasKey, [.null]),
        ([118], [.int 1])] 0)).toOption = some [] ∧
    (rowCb id 0 (mkRecG true [112] [99] [(kTime, [.int 1700000000000000]), (walMeasKey, [.null]),
        ([118], [.int 1])] 0)).toOption.map List.length = some 1 := by
  decide

/-- pre-c631216 (`replayRawG false`): a raw entry whose measurement was sent as an integer was dropped. -/
theorem C05_prefix_int_measurement_witness :
    (replayRawG false id 0 [112] (.int 5) [(kTime, [.int 1700000000000000]), ([118], [.int 1])]).toOption = some [] ∧
    (replayRawG true id 0 [112] (.int 5) [(kTime, [.int 1700000000000000]), ([118], [.int 1])]).toOption.map
        List.length = some 1 := by
  decide

/-- (g) a raw entry without a time column gets a NEW generated timestamp at replay time. -/
theorem C05_generated_time_witness :
    (liveRows id 1000 (.raw [112] (.str [99]) [([118], [.int 1])])).toOption.map (List.map (·.time)) =
      some [1000000000] ∧
    (replayRows id 2000 (walEntry (.raw [112] (.str [99]) [([118], [.int 1])]))).toOption.map (List.map (·.time)) =
      some [2000000000] := by
  decide

/-! ## crash part -/

/-- C05_full inside the carve-out `evSafe` (no crash while an unflushed row has lost its WAL file or while a
flushed row's WAL entry still exists; no entry skipped by the reader), for the LTS of the CURRENT source
(order fact `removeAfterCallbacks` regenerated): at every quiescent state (process up, recovery complete,
everything flushed) every row that was acknowledged and whose WAL entry reached a file is stored exactly once.
Any trace, any number of crashes at any event boundary. -/
theorem C05_full_partial (evs : List Ev) (st : St)
    (hrun : runSafe deleteNeedsAllReplayed flushBeforeRemove {} evs = some st)
    (hq : quiescent st = true) :
    ∀ r ∈ st.rows, r.pers = true → r.s + r.sr = 1 := by
  have hord : deleteNeedsAllReplayed = true := by decide
  rw [hord] at hrun
  exact quiescent_once st (runSafe_inv _ evs {} st inv_init hrun) hq

/-- content of the stored copies of a row: live copies carry the live content, replayed copies the replayed
content -/
def storedContent {α : Type} (live rep : Nat → α) (r : RowSt) : List α :=
  List.replicate r.s (live r.rid) ++ List.replicate r.sr (rep r.rid)

/-- … with identical content, whenever the data part applies to the row (`rep rid = live rid`,
C05_replay_eq_live_partial). -/
theorem C05_full_content {α : Type} (live rep : Nat → α) (evs : List Ev) (st : St)
    (hrun : runSafe deleteNeedsAllReplayed flushBeforeRemove {} evs = some st)
    (hq : quiescent st = true) :
    ∀ r ∈ st.rows, r.pers = true → rep r.rid = live r.rid → storedContent live rep r = [live r.rid] := by
  intro r hr hp heq
  have h1 := C05_full_partial evs st hrun hq r hr hp
  unfold storedContent
  rw [heq]
  have : (r.s = 1 ∧ r.sr = 0) ∨ (r.s = 0 ∧ r.sr = 1) := by omega
  rcases this with ⟨a, b⟩ | ⟨a, b⟩ <;> simp [a, b]

/-- non-vacuity: ack, persist, crash, restart, replay, flush, delete — safe, quiescent, stored once. -/
example : ∃ st, runSafe deleteNeedsAllReplayed flushBeforeRemove {}
      [.ack 0 [1, 2], .persist 0, .crash, .restart, .replay 0, .flush [1, 2], .delete 0] = some st ∧
    quiescent st = true ∧ st.rows.map (fun r => (r.pers, r.s + r.sr)) = [(true, 1), (true, 1)] := by
  refine ⟨_, rfl, ?_, ?_⟩ <;> decide

/-- (c) the unrestricted statement fails: RecoverWithOptions removes the WAL file right after re-buffering;
a crash before the next flush loses the recovered rows (acknowledged, persisted, stored 0 times). -/
theorem C05_full_loss_witness :
    (run deleteNeedsAllReplayed flushBeforeRemove {}
        [.ack 0 [1], .persist 0, .crash, .restart, .replay 0, .delete 0, .crash, .restart]).map
      (fun st => (quiescent st, st.rows.map fun r => (r.pers, r.s + r.sr))) = some (true, [(true, 0)]) := by
  decide

/-- (dup) … and rows flushed before a crash are replayed again from a WAL file that still exists. -/
theorem C05_full_dup_witness :
    (run deleteNeedsAllReplayed flushBeforeRemove {}
        [.ack 0 [1], .persist 0, .flush [1], .crash, .restart, .replay 0, .delete 0, .flush [1]]).map
      (fun st => (quiescent st, st.rows.map fun r => (r.pers, r.s + r.sr))) = some (true, [(true, 2)]) := by
  decide

/-- a WAL entry the reader cannot parse is skipped, its file deleted: the row is lost (no such entry is produced
by the current source for accepted requests; the carve-out keeps `skip` out). -/
theorem C05_full_skip_witness :
    (run deleteNeedsAllReplayed flushBeforeRemove {}
        [.ack 0 [1], .persist 0, .crash, .restart, .skip 0, .delete 0]).map
      (fun st => (quiescent st, st.rows.map fun r => (r.pers, r.s + r.sr))) = some (true, [(true, 0)]) := by
  decide

/-- A WAL file is deleted only when EVERY entry in it was replayed by a callback that succeeded: a failed
callback (`fail e`, which leaves the entry un-replayed) keeps the file for the next recovery pass. Holds for the
LTS of the current source because the three regenerated facts in `deleteNeedsAllReplayed` are true. -/
theorem C05_delete_only_after_all_callbacks_succeeded (st st' : St) (f : Nat)
    (h : stepCur st (.delete f) = some st') : ∀ r ∈ st.rows, r.w = some f → r.rp = true := by
  have hord : deleteNeedsAllReplayed = true := by decide
  simp only [stepCur, step, hord] at h
  split at h
  · rename_i hg
    intro r hr hw
    simp only [deleteGuard, Bool.and_eq_true, List.all_eq_true] at hg
    have := hg.2 r hr
    simp [hw] at this
    exact this.1
  · cases h

/-- … and the failed entry's rows come back at the next start: fail, crash, restart, replay, flush, delete. -/
example : (run deleteNeedsAllReplayed flushBeforeRemove {}
      [.ack 0 [1], .persist 0, .crash, .restart, .fail 0, .delete 0]) = none ∧
    (runSafe deleteNeedsAllReplayed flushBeforeRemove {}
      [.ack 0 [1], .persist 0, .crash, .restart, .fail 0, .crash, .restart, .replay 0, .flush [1], .delete 0]).map
      (fun st => (quiescent st, st.rows.map fun r => (r.pers, r.s + r.sr))) = some (true, [(true, 1)]) := by
  decide

/-- The order fact is what the proof stands on: were `os.Remove` allowed before the callbacks, a SAFE trace
loses the row. -/
theorem C05_order_needed_witness :
    (runSafe false false {} [.ack 0 [1], .persist 0, .crash, .restart, .delete 0]).map
      (fun st => (quiescent st, st.rows.map fun r => (r.pers, r.s + r.sr))) = some (true, [(true, 0)]) := by
  decide

/-- Proposed repair (flush the re-buffered rows before `os.Remove(walFile)`; `flushBeforeRemove = true`):
a WAL file can then only be deleted when none of its rows is still in memory, so the state in which witness
(c) crashes is unreachable. -/
theorem C05_flush_first_guard (orderOk : Bool) (st : St) (f : Nat)
    (h : deleteGuard orderOk true st f = true) :
    ∀ r ∈ st.rows, r.w = some f → r.b + r.br = 0 := by
  intro r hr hw
  simp only [deleteGuard, Bool.and_eq_true, List.all_eq_true] at h
  have := h.2 r hr
  simp [hw] at this
  omega

end Arc.C05
