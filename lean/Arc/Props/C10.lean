import Arc.Model.C10
import Arc.Generated.C10
/-!
# C10 — row-level delete removes exactly the rows the predicate selects

`notTrue p r` is the property's "the predicate is not true" (FALSE or NULL). The statement proved
about one confirmed delete of predicate `p` on dataset `ds` is `Statement kc kr p ds`:

* per file and for the whole measurement, the rows afterwards are exactly the previous rows with
  `notTrue` (as lists in stored order — a fortiori as multisets),
* the reported count is `|before| − |after|`,
* the dry-run count equals the reported count (and a dry run changes nothing: `C10_dry_inert`).

`kc`/`kr` are the keep filters of the count query and of the rewrite; they are *generated* from the
SQL templates in `delete.go`. `C10_claim` proves, for every combination, the FULL statement when
both are `(p) IS NOT TRUE`, and otherwise the `_partial` statement (carve-out: no row with a NULL
predicate in an affected file) together with a refutation of the full one. `C10_current*`
instantiate it with what the source says now.
-/
namespace Arc.C10
open Arc.Generated.C10 (Keep)

def notTrue (p : Pred) (r : Row) : Bool := !isTrue (eval p r)

/-! ## helper lemmas -/

theorem keepFn_sound (k : Keep) (v : Option Bool) (h : k = .isNotTrue ∨ v ≠ none) :
    keepFn k v = !isTrue v := by
  cases k with
  | isNotTrue => rfl
  | notP =>
    cases v with
    | none => cases h with
      | inl h => cases h
      | inr h => exact absurd rfl h
    | some b => cases b <;> rfl

/-- per-file side condition: the templates are the two-valued ones, or no row of the file makes the
predicate NULL -/
def FileOk (kc kr : Keep) (p : Pred) (f : File) : Prop :=
  (kc = .isNotTrue ∧ kr = .isNotTrue) ∨ ∀ r ∈ f.rows, eval p r ≠ none

theorem filter_keep_eq (k : Keep) (p : Pred) (rows : List Row)
    (h : k = .isNotTrue ∨ ∀ r ∈ rows, eval p r ≠ none) :
    rows.filter (fun r => keepFn k (eval p r)) = rows.filter (notTrue p) := by
  apply List.filter_congr
  intro r hr
  unfold notTrue
  apply keepFn_sound
  cases h with
  | inl h => exact Or.inl h
  | inr h => exact Or.inr (h r hr)

theorem length_filter_split (p : Pred) (rows : List Row) :
    (rows.filter (fun r => isTrue (eval p r))).length + (rows.filter (notTrue p)).length = rows.length := by
  induction rows with
  | nil => rfl
  | cons r rs ih =>
    unfold notTrue at ih ⊢
    cases h : isTrue (eval p r) <;> simp [List.filter, h] <;> omega

theorem unaffected_filter (p : Pred) (f : File) (h : affected p f = false) :
    f.rows.filter (notTrue p) = f.rows := by
  unfold affected matchCount at h
  have h0 : (f.rows.filter (fun r => isTrue (eval p r))).length = 0 := by
    simpa using h
  have := length_filter_split p f.rows
  rw [h0] at this
  exact List.filter_eq_self.mpr (by
    intro r hr
    have hl : (f.rows.filter (notTrue p)).length = f.rows.length := by omega
    have := List.filter_eq_self.mp ((List.filter_sublist).eq_of_length hl)
    exact this r hr)

theorem remaining_eq (kc kr : Keep) (p : Pred) (f : File) (h : FileOk kc kr p f) :
    remaining kc p f = (f.rows.filter (notTrue p)).length := by
  unfold remaining
  rw [filter_keep_eq kc p f.rows]
  cases h with
  | inl h => exact Or.inl h.1
  | inr h => exact Or.inr h

theorem stepFile_rows (kc kr : Keep) (p : Pred) (f : File)
    (h : affected p f = true → FileOk kc kr p f) :
    rowsAfter (stepFile kc kr p f) = f.rows.filter (notTrue p) := by
  unfold stepFile
  cases ha : affected p f with
  | false => simp [rowsAfter, unaffected_filter p f ha]
  | true =>
    have hok := h ha
    simp only [if_true]
    unfold rewriteFile
    rw [remaining_eq kc kr p f hok]
    by_cases h0 : (f.rows.filter (notTrue p)).length = 0
    · simp only [h0, if_true, rowsAfter]
      exact (List.length_eq_zero_iff.mp h0).symm
    · simp only [h0, if_false, rowsAfter]
      apply filter_keep_eq
      cases hok with
      | inl h => exact Or.inl h.2
      | inr h => exact Or.inr h

/-- rows deleted by the handler in one listed file -/
def gone (kc kr : Keep) (p : Pred) (f : File) : Nat :=
  if affected p f then (rewriteFile kc kr p f).1 else 0

theorem gone_eq_match (kc kr : Keep) (p : Pred) (f : File)
    (h : affected p f = true → FileOk kc kr p f) : gone kc kr p f = matchCount p f := by
  unfold gone
  cases ha : affected p f with
  | false =>
    unfold affected at ha
    simp at ha
    simp [ha]
  | true =>
    have hok := h ha
    have hs := length_filter_split p f.rows
    have hr := remaining_eq kc kr p f hok
    simp only [if_true]
    unfold rewriteFile matchCount
    split <;> simp only <;> omega

theorem sum_filter_map {α : Type} (a : α → Bool) (g : α → Nat) (l : List α) :
    ((l.filter a).map g).sum = (l.map (fun x => if a x then g x else 0)).sum := by
  induction l with
  | nil => rfl
  | cons x xs ih => cases h : a x <;> simp [List.filter, h, ih]

theorem realCount_eq (kc kr : Keep) (p : Pred) (ds : Dataset) :
    realCount kc kr p ds = (ds.map (gone kc kr p)).sum := by
  unfold realCount affectedFiles
  rw [sum_filter_map]
  rfl

theorem dryCount_eq (p : Pred) (ds : Dataset) : dryCount p ds = (ds.map (matchCount p)).sum := by
  unfold dryCount affectedFiles
  rw [sum_filter_map]
  congr 1
  apply List.map_congr_left
  intro f _
  cases ha : affected p f with
  | true => simp
  | false =>
    unfold affected at ha
    simp at ha
    simp [ha]

theorem rowsOf_deleteFiles (kc kr : Keep) (p : Pred) (ds : Dataset) :
    rowsOf (deleteFiles kc kr p ds) = ds.flatMap (fun f => rowsAfter (stepFile kc kr p f)) := by
  unfold rowsOf deleteFiles
  induction ds with
  | nil => rfl
  | cons f fs ih =>
    cases h : stepFile kc kr p f with
    | none => simp [h, rowsAfter, ih]
    | some g => simp [h, rowsAfter, ih]

theorem filter_rowsOf (q : Row → Bool) (ds : Dataset) :
    (rowsOf ds).filter q = ds.flatMap (fun f => f.rows.filter q) := by
  unfold rowsOf
  induction ds with
  | nil => rfl
  | cons f fs ih => simp [List.flatMap_cons, List.filter_append, ih]

/-- dataset-level side condition -/
def Good (kc kr : Keep) (p : Pred) (ds : Dataset) : Prop :=
  (kc = .isNotTrue ∧ kr = .isNotTrue) ∨ carve p ds = true

theorem good_file (kc kr : Keep) (p : Pred) (ds : Dataset) (h : Good kc kr p ds) :
    ∀ f ∈ ds, affected p f = true → FileOk kc kr p f := by
  intro f hf ha
  cases h with
  | inl h => exact Or.inl h
  | inr h =>
    right
    unfold carve at h
    rw [List.all_eq_true] at h
    have := h f hf
    simp [ha] at this
    intro r hr hnone
    have := this r hr
    simp [hnone] at this

theorem flatMap_congr' {α β : Type} (l : List α) (f g : α → List β) (h : ∀ x ∈ l, f x = g x) :
    l.flatMap f = l.flatMap g := by
  induction l with
  | nil => rfl
  | cons x xs ih =>
    simp only [List.flatMap_cons]
    rw [h x (by simp), ih (fun y hy => h y (by simp [hy]))]

theorem length_flatMap_split (p : Pred) (ds : Dataset) :
    (ds.map (matchCount p)).sum + (ds.flatMap (fun f => f.rows.filter (notTrue p))).length
      = (rowsOf ds).length := by
  unfold rowsOf
  induction ds with
  | nil => rfl
  | cons f fs ih =>
    have := length_filter_split p f.rows
    simp only [List.map_cons, List.sum_cons, List.flatMap_cons, List.length_append]
    unfold matchCount at ih ⊢
    omega

/-- The four clauses of the property for one confirmed delete. -/
structure Statement (kc kr : Keep) (p : Pred) (ds : Dataset) : Prop where
  perFile : ∀ f ∈ ds, rowsAfter (stepFile kc kr p f) = f.rows.filter (notTrue p)
  overall : rowsOf (deleteFiles kc kr p ds) = (rowsOf ds).filter (notTrue p)
  count : realCount kc kr p ds = (rowsOf ds).length - (rowsOf (deleteFiles kc kr p ds)).length
  dry : dryCount p ds = realCount kc kr p ds

theorem statement_of_good (kc kr : Keep) (p : Pred) (ds : Dataset) (h : Good kc kr p ds) :
    Statement kc kr p ds := by
  have hf := good_file kc kr p ds h
  have h1 : ∀ f ∈ ds, rowsAfter (stepFile kc kr p f) = f.rows.filter (notTrue p) :=
    fun f hfm => stepFile_rows kc kr p f (hf f hfm)
  have h2 : rowsOf (deleteFiles kc kr p ds) = (rowsOf ds).filter (notTrue p) := by
    rw [rowsOf_deleteFiles, filter_rowsOf]
    exact flatMap_congr' ds _ _ h1
  have h4 : realCount kc kr p ds = (ds.map (matchCount p)).sum := by
    rw [realCount_eq]
    congr 1
    apply List.map_congr_left
    intro f hfm
    exact gone_eq_match kc kr p f (hf f hfm)
  refine ⟨h1, h2, ?_, ?_⟩
  · rw [h2, filter_rowsOf, h4]
    have := length_flatMap_split p ds
    omega
  · rw [dryCount_eq, h4]

/-! ## property theorems -/

/-- **C10_rows / C10_count / C10_dryrun (full).** With the two-valued keep filter
`(p) IS NOT TRUE` in both the count and the rewrite template, for EVERY dataset and predicate:
the rows afterwards are exactly the previous rows whose predicate is not TRUE (per file and
overall), the reported count is the number of rows that disappeared, and the dry-run count equals it. -/
theorem C10_delete_full (p : Pred) (ds : Dataset) : Statement .isNotTrue .isNotTrue p ds :=
  statement_of_good _ _ p ds (Or.inl ⟨rfl, rfl⟩)

/-- **C10_delete_partial.** Whatever the templates are (in particular the current `NOT (p)`), the same
statement holds on every dataset/predicate pair in which no row of an affected file makes the
predicate NULL (`carve`, decidable). -/
theorem C10_delete_partial (kc kr : Keep) (p : Pred) (ds : Dataset) (h : carve p ds = true) :
    Statement kc kr p ds :=
  statement_of_good kc kr p ds (Or.inr h)

/-- The finding's minimal input: one file, rows `i = 5` and `i = NULL`, predicate `i > 1`. -/
def witnessDs : Dataset := [{ path := "a.parquet", rows := [[.int 1, .int 5], [.int 2, .null]] }]
def witnessP : Pred := .cmp .gt 1 (.int 1)

/-- **C10_delete_witness.** With `NOT (p)` in the count template OR in the rewrite template the full
statement fails on `witnessDs`: the row whose predicate is NULL disappears. (Evaluated in the kernel.) -/
theorem C10_delete_witness (kc kr : Keep) (h : ¬ (kc = .isNotTrue ∧ kr = .isNotTrue)) :
    rowsOf (deleteFiles kc kr witnessP witnessDs) = [] ∧
    (rowsOf witnessDs).filter (notTrue witnessP) = [[.int 2, .null]] := by
  cases kc <;> cases kr <;> first | (exact absurd ⟨rfl, rfl⟩ h) | decide

theorem C10_dryrun_witness :
    dryCount witnessP witnessDs = 1 ∧ realCount .notP .notP witnessP witnessDs = 2 := by decide

/-- What is claimed for a given pair of generated templates. -/
def Claim (kc kr : Keep) : Prop :=
  if kc = .isNotTrue ∧ kr = .isNotTrue then
    ∀ p ds, Statement kc kr p ds
  else
    (∀ p ds, carve p ds = true → Statement kc kr p ds) ∧ ¬ (∀ p ds, Statement kc kr p ds)

/-- **C10_claim.** For every combination of templates: the full statement when both are the
two-valued filter; otherwise the partial statement AND a refutation of the full one. -/
theorem C10_claim (kc kr : Keep) : Claim kc kr := by
  unfold Claim
  by_cases h : kc = .isNotTrue ∧ kr = .isNotTrue
  · rw [if_pos h]
    obtain ⟨h1, h2⟩ := h
    subst h1; subst h2
    exact C10_delete_full
  · rw [if_neg h]
    refine ⟨C10_delete_partial kc kr, fun hall => ?_⟩
    have hs := (hall witnessP witnessDs).overall
    have hw := C10_delete_witness kc kr h
    rw [hw.1, hw.2] at hs
    cases hs

/-- **C10_current_local / C10_current_remote.** `C10_claim` at the templates found in the CURRENT
`delete.go` (count query + local rewrite; count query + S3/Azure rewrite). Regenerated on every run:
today both are `NOT (%s)`, so this is the partial statement plus the refutation; after the repair
(`(%s) IS NOT TRUE` in both) the very same theorem is the full statement. -/
theorem C10_current_local :
    Claim Arc.Generated.C10.countKeep Arc.Generated.C10.rewriteKeepLocal := C10_claim _ _

theorem C10_current_remote :
    Claim Arc.Generated.C10.countKeep Arc.Generated.C10.rewriteKeepRemote := C10_claim _ _

/-- **C10_count_agreeing_templates.** Independently of three-valued logic: whenever the count and
the rewrite use the SAME filter (true of the current source, checked by `decide` below) the reported
count is exactly the number of rows that disappeared. -/
theorem C10_count_agreeing_templates (k : Keep) (p : Pred) (ds : Dataset) :
    realCount k k p ds = (rowsOf ds).length - (rowsOf (deleteFiles k k p ds)).length := by
  rw [realCount_eq, rowsOf_deleteFiles]
  have key : ∀ f : File, gone k k p f + (rowsAfter (stepFile k k p f)).length = f.rows.length := by
    intro f
    unfold gone stepFile
    cases ha : affected p f with
    | false => simp [rowsAfter]
    | true =>
      simp only [if_true]
      unfold rewriteFile remaining
      have hle := List.length_filter_le (fun r => keepFn k (eval p r)) f.rows
      split
      · rename_i h0; simp only [rowsAfter, List.length_nil]; omega
      · simp only [rowsAfter]; omega
  have : (ds.map (gone k k p)).sum + (ds.flatMap (fun f => rowsAfter (stepFile k k p f))).length
      = (rowsOf ds).length := by
    unfold rowsOf
    induction ds with
    | nil => rfl
    | cons f fs ih =>
      have := key f
      simp only [List.map_cons, List.sum_cons, List.flatMap_cons, List.length_append]
      omega
  omega

theorem C10_templates_agree_now :
    Arc.Generated.C10.countKeep = Arc.Generated.C10.rewriteKeepLocal ∧
    Arc.Generated.C10.countKeep = Arc.Generated.C10.rewriteKeepRemote := by decide

/-- **C10_scan_facts.** Two facts of the current source the model relies on (`affectedFiles` filters
the WHOLE dataset; `handle` is a function of the stored data and the request only): the
affected-file scan covers every listed parquet file (no chunk result is dropped), and a confirmed
delete recomputes the affected set from storage — no state is carried over from a dry run. -/
theorem C10_scan_facts :
    Arc.Generated.C10.affectedScanCoversAllFiles = true ∧
    Arc.Generated.C10.confirmRescansStorage = true := by decide

/-- **C10_where_verbatim.** The predicate the model evaluates is the predicate the client sent: in the
current source the WHERE text reaches the scan, the count and the rewrite exactly as parsed from the
request body (no string transformation between parse and use). -/
theorem C10_where_verbatim : Arc.Generated.C10.whereTextVerbatim = true := by decide

/-- **C10_dry_inert.** A dry run never changes the stored rows (any templates, any gates). -/
theorem C10_dry_inert (kc kr : Keep) (ds : Dataset) (q : Req) (h : q.dry = true) :
    (handle kc kr ds q).1 = ds := by
  unfold handle
  simp only [h]
  repeat' split
  all_goals first | rfl | simp_all

/-- **C10_rejected_inert.** A rejected request (missing confirmation, row limit, threshold)
changes nothing. -/
theorem C10_rejected_inert (kc kr : Keep) (ds : Dataset) (q : Req) (w : Reject)
    (h : (handle kc kr ds q).2 = .rejected w) : (handle kc kr ds q).1 = ds := by
  unfold handle at h ⊢
  repeat' split
  all_goals first | rfl | simp_all

theorem deleteFiles_none_affected (kc kr : Keep) (p : Pred) (ds : Dataset)
    (h : (affectedFiles p ds).isEmpty = true) : deleteFiles kc kr p ds = ds := by
  unfold deleteFiles
  unfold affectedFiles at h
  induction ds with
  | nil => rfl
  | cons f fs ih =>
    cases ha : affected p f with
    | true => simp [List.filter, ha] at h
    | false =>
      simp only [List.filter, ha] at h
      simp [stepFile, ha, ih h]

/-- **C10_handle_real.** Request level: a confirmed, non-dry request that the handler answers with
success leaves exactly the previous rows whose predicate is not TRUE and reports the number of rows
that disappeared — under `Good` (repaired templates, or the carve-out). -/
theorem C10_handle_real (kc kr : Keep) (ds : Dataset) (q : Req) (r : Resp)
    (hg : Good kc kr q.p ds) (hd : q.dry = false)
    (hok : (handle kc kr ds q).2 = .ok r) :
    rowsOf (handle kc kr ds q).1 = (rowsOf ds).filter (notTrue q.p) ∧
    r.deleted = (rowsOf ds).length - (rowsOf (handle kc kr ds q).1).length := by
  have st := statement_of_good kc kr q.p ds hg
  unfold handle at hok ⊢
  split at hok
  · cases hok
  · split at hok
    · cases hok
    · split at hok
      · rename_i he
        have hdf := deleteFiles_none_affected kc kr q.p ds he
        have ho := st.overall
        rw [hdf] at ho
        injection hok with hr
        subst hr
        rw [if_neg (by assumption), if_neg (by assumption)]
        simp only [he, if_true]
        rw [← ho]
        simp
      · split at hok
        · cases hok
        · split at hok
          · cases hok
          · simp only [hd] at hok
            injection hok with hr
            subst hr
            rw [if_neg (by assumption), if_neg (by assumption), if_neg (by assumption),
              if_neg (by assumption), if_neg (by assumption)]
            simp only [hd]
            exact ⟨st.overall, st.count⟩

/-- **C10_handle_dry_same.** Request level: with `confirm = true` the dry run and the real run of
the same request on the same data pass the same gates, and report the same count and the same
affected files — under `Good`. (Without it: `C10_dryrun_witness`, 1 vs 2.) -/
theorem C10_handle_dry_same (kc kr : Keep) (ds : Dataset) (q : Req)
    (hg : Good kc kr q.p ds) (hc : q.confirm = true) :
    match (handle kc kr ds { q with dry := true }).2, (handle kc kr ds { q with dry := false }).2 with
    | .ok d, .ok r => d.deleted = r.deleted ∧ d.affected = r.affected ∧ d.files = r.files
    | .rejected a, .rejected b => a = b
    | _, _ => False := by
  have st := statement_of_good kc kr q.p ds hg
  unfold handle
  simp only [hc]
  by_cases h1 : isFullTable q.p = true <;> by_cases h3 : (affectedFiles q.p ds).isEmpty = true <;>
    by_cases h4 : (dryCount q.p ds : Int) > q.maxRows <;>
    simp [h1, h3, h4] <;> exact st.dry

/-! ## non-vacuity -/

/-- `carve` holds on a non-trivial dataset (two files, one affected and rewritten, rows of every
outcome TRUE/FALSE) and fails exactly on the finding's input. -/
example :
    let ds : Dataset := [{ path := "a", rows := [[.int 1, .int 5], [.int 2, .int 0]] },
                         { path := "b", rows := [[.int 3, .null]] }]
    carve witnessP ds = true ∧ carve witnessP witnessDs = false ∧
    rowsOf (deleteFiles .notP .notP witnessP ds) = [[.int 2, .int 0], [.int 3, .null]] ∧
    realCount .notP .notP witnessP ds = 1 := by decide

/-- The repaired templates keep the NULL row of the witness. -/
example : rowsOf (deleteFiles .isNotTrue .isNotTrue witnessP witnessDs) = [[.int 2, .null]] ∧
    realCount .isNotTrue .isNotTrue witnessP witnessDs = 1 := by decide

/-- `C10_handle_real` / `C10_handle_dry_same` hypotheses are satisfiable: a confirmed request
passing every gate. -/
example :
    let q : Req := { dry := false, confirm := true, maxRows := 10, threshold := 10, p := witnessP }
    (match (handle .isNotTrue .isNotTrue witnessDs q).2 with
     | .ok r => r.deleted == 1 && r.affected == 1
     | _ => false) = true := by decide

end Arc.C10
