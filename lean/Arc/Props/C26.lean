import Arc.Model.C26
import Arc.Generated.C26
/-!
# C26 — nonce-protected cluster requests cannot be replayed

Property theorems only (helper lemmas are `private`/local to this file and marked as such).
-/
namespace Arc.C26

/-! ## helper lemmas -/

theorem lookup_filter_ne (es : List (String × Int)) (k k' : String) (h : k' ≠ k) :
    (es.filter (fun p => !(p.1 == k))).lookup k' = es.lookup k' := by
  induction es with
  | nil => rfl
  | cons a rest ih =>
    obtain ⟨a1, a2⟩ := a
    by_cases hak : a1 = k
    · subst hak
      have : (k' == a1) = false := by simpa using h
      simp [List.filter, List.lookup, this, ih]
    · have h1 : (a1 == k) = false := by simpa using hak
      simp only [List.filter, h1, Bool.not_false]
      by_cases hk' : k' = a1
      · subst hk'; simp [List.lookup]
      · have : (k' == a1) = false := by simpa using hk'
        simp [List.lookup, this, ih]

theorem lookup_setKey_self (es : List (String × Int)) (k : String) (v : Int) :
    (setKey es k v).lookup k = some v := by
  simp [setKey, List.lookup]

theorem lookup_setKey_other (es : List (String × Int)) (k k' : String) (v : Int) (h : k' ≠ k) :
    (setKey es k v).lookup k' = es.lookup k' := by
  have : (k' == k) = false := by simpa using h
  simp [setKey, List.lookup, this, lookup_filter_ne es k k' h]

theorem lookup_evict (es : List (String × Int)) (k : String) (e now : Int)
    (h : es.lookup k = some e) (hlt : now < e) : (evict es now).lookup k = some e := by
  induction es with
  | nil => simp [List.lookup] at h
  | cons a rest ih =>
    obtain ⟨a1, a2⟩ := a
    by_cases hk : k = a1
    · subst hk
      simp [List.lookup] at h
      subst h
      have : ¬ (now ≥ a2) := by omega
      simp [evict, List.filter, this, List.lookup]
    · have hb : (k == a1) = false := by simpa using hk
      simp [List.lookup, hb] at h
      have ih' := ih h
      unfold evict at ih' ⊢
      simp only [List.filter]
      split
      · simp [List.lookup, hb]; exact ih'
      · exact ih'

/-- "the cache remembers `k` until at least `E`". -/
def Remembers (k : String) (E : Int) (c : Cache) : Prop :=
  ∃ e, c.get k = some e ∧ E ≤ e

theorem inserted_get_self (ttl : Int) (httl : 0 < ttl) (c : Cache) (now : Int) (k : String) :
    (inserted ttl c now k).get k = some (now + ttl) := by
  unfold inserted Cache.get
  simp only
  split
  · exact lookup_evict _ _ _ _ (lookup_setKey_self _ _ _) (by omega)
  · exact lookup_setKey_self _ _ _

theorem inserted_get_other (ttl : Int) (c : Cache) (now : Int) (k k' : String) (e : Int)
    (hne : k ≠ k') (he : c.get k = some e) (hlt : now < e) :
    (inserted ttl c now k').get k = some e := by
  have h1 : (setKey c.entries k' (now + ttl)).lookup k = some e := by
    rw [lookup_setKey_other _ _ _ _ hne]; exact he
  unfold inserted Cache.get
  simp only
  split
  · exact lookup_evict _ _ _ _ h1 hlt
  · exact h1

theorem track_accept_remembers (ttl : Int) (httl : 0 < ttl) (c : Cache) (now : Int) (k : String)
    (h : (track ttl c now k).2 = true) : Remembers k (now + ttl) (track ttl c now k).1 := by
  unfold track at h ⊢
  by_cases hd : isDup c now k = true
  · simp [hd] at h
  · simp only [hd]
    exact ⟨now + ttl, inserted_get_self ttl httl c now k, Int.le_refl _⟩

theorem track_preserves (ttl : Int) (c : Cache) (now : Int) (k k' : String) (E : Int)
    (hR : Remembers k E c) (hnow : now < E) :
    Remembers k E (track ttl c now k').1 ∧ (k' = k → (track ttl c now k').2 = false) := by
  obtain ⟨e, he, hE⟩ := hR
  by_cases hk : k' = k
  · subst hk
    have hd : isDup c now k' = true := by
      unfold isDup; simp only [he]; simpa using (by omega : now < e)
    have : (track ttl c now k') = (c, false) := by simp [track, hd]
    rw [this]; exact ⟨⟨e, he, hE⟩, fun _ => rfl⟩
  · refine ⟨?_, fun h => absurd h hk⟩
    unfold track
    by_cases hd : isDup c now k' = true
    · simp only [hd]; exact ⟨e, he, hE⟩
    · simp only [hd]
      exact ⟨e, inserted_get_other ttl c now k k' e (fun h => hk h.symm) he (by omega), hE⟩

theorem handle_preserves (cfg : Cfg) (c : Cache) (ev : Ev) (k : String) (E : Int)
    (hR : Remembers k E c) (hnow : ev.now < E) :
    Remembers k E (handle cfg c ev).1 ∧ (ev.msg.key = k → (handle cfg c ev).2 ≠ .accepted) := by
  unfold handle
  split
  · exact ⟨hR, fun _ => by simp⟩
  · split
    · exact ⟨hR, fun _ => by simp⟩
    · have := track_preserves cfg.ttlNs c ev.now k ev.msg.key E hR hnow
      refine ⟨this.1, fun hk => ?_⟩
      simp [this.2 hk]

theorem fresh_iff (tol now ts : Int) :
    fresh tol now ts = true ↔ (now / 1000000000 - ts ≤ tol ∧ ts - now / 1000000000 ≤ tol) := by
  unfold fresh unixSec nsPerSec
  simp only
  split <;> simp <;> omega

theorem runState_remembers (cfg : Cfg) (k : String) (E : Int) (mid : List Ev) (c : Cache)
    (hR : Remembers k E c) (hmid : ∀ m ∈ mid, m.now < E) : Remembers k E (runState cfg c mid) := by
  induction mid generalizing c with
  | nil => exact hR
  | cons m ms ih =>
    simp only [runState]
    apply ih
    · exact (handle_preserves cfg c m k E hR (hmid m (by simp))).1
    · intro m' hm'; exact hmid m' (by simp [hm'])

/-! ## property theorems -/

/-- **C26_no_replay.** If the retention covers twice the tolerance plus the one second lost to the
second-granularity of signed timestamps, then a message accepted once is never accepted again —
for *every* starting cache (i.e. after any earlier traffic), every signed timestamp, every pair of
receipt times and any traffic in between that is handled no later than the replay. -/
theorem C26_no_replay (cfg : Cfg) (htol : 0 ≤ cfg.tolSec)
    (hsite : (2 * cfg.tolSec + 1) * nsPerSec ≤ cfg.ttlNs)
    (c : Cache) (e1 e2 : Ev) (mid : List Ev)
    (hsame : e2.msg.key = e1.msg.key ∧ e2.msg.ts = e1.msg.ts)
    (hmid : ∀ m ∈ mid, m.now ≤ e2.now)
    (hacc : (handle cfg c e1).2 = .accepted) :
    (handle cfg (runState cfg (handle cfg c e1).1 mid) e2).2 ≠ .accepted := by
  -- e1 was fresh and tracked
  have hf1 : fresh cfg.tolSec e1.now e1.msg.ts = true := by
    unfold handle at hacc
    split at hacc
    · simp at hacc
    · rename_i h; simpa using h
  have htr : (track cfg.ttlNs c e1.now e1.msg.key).2 = true := by
    unfold handle at hacc
    split at hacc
    · simp at hacc
    · split at hacc
      · simp at hacc
      · simp only at hacc
        split at hacc
        · assumption
        · simp at hacc
  have hst : (handle cfg c e1).1 = (track cfg.ttlNs c e1.now e1.msg.key).1 := by
    unfold handle
    split
    · rename_i h; simp [hf1] at h
    · split
      · rename_i h
        unfold handle at hacc
        simp [hf1, h] at hacc
      · rfl
  unfold nsPerSec at hsite
  have httl : 0 < cfg.ttlNs := by omega
  have hR := track_accept_remembers cfg.ttlNs httl c e1.now e1.msg.key htr
  rw [← hst] at hR
  by_cases hf2 : fresh cfg.tolSec e2.now e2.msg.ts = true
  · -- both fresh for the same signed timestamp ⇒ the replay arrives before the nonce expires
    rw [hsame.2] at hf2
    rw [fresh_iff] at hf1 hf2
    have hlt : e2.now < e1.now + cfg.ttlNs := by omega
    have hR' := runState_remembers cfg e1.msg.key (e1.now + cfg.ttlNs) mid _ hR
      (fun m hm => by have := hmid m hm; omega)
    exact (handle_preserves cfg _ e2 e1.msg.key _ hR' hlt).2 hsame.1
  · unfold handle
    simp [hf2]

/-- **C26_window.** A message whose signed timestamp is outside the tolerance is rejected and
leaves the cache untouched (it cannot burn a nonce slot). -/
theorem C26_window (cfg : Cfg) (c : Cache) (e : Ev)
    (h : cfg.tolSec < e.now / 1000000000 - e.msg.ts ∨ cfg.tolSec < e.msg.ts - e.now / 1000000000) :
    handle cfg c e = (c, .expired) := by
  have : fresh cfg.tolSec e.now e.msg.ts = false := by
    cases hf : fresh cfg.tolSec e.now e.msg.ts with
    | false => rfl
    | true => rw [fresh_iff] at hf; omega
  simp [handle, this]

/-- **C26_badmac_inert.** A forged message never consumes a nonce slot. -/
theorem C26_badmac_inert (cfg : Cfg) (c : Cache) (e : Ev) (h : e.msg.macOk = false) :
    (handle cfg c e).1 = c := by
  unfold handle; split
  · rfl
  · simp [h]

/-- **C26_sites.** Every (tolerance, retention) pair found in the *current source* satisfies the
side condition of `C26_no_replay`. `Arc.Generated.C26.sites` is regenerated from `/repo` on every
run, so this `decide` is re-checked against what the code says now. -/
theorem C26_sites : ∀ s ∈ Arc.Generated.C26.sites, SiteOk s.2.1 s.2.2 = true := by decide

/-- The model's lazy-sweep interval is the source's `nonceCacheEvictInterval` (regenerated fact). -/
theorem C26_evict_interval_tied : Arc.Generated.C26.evictIntervalNs = evictIntervalNs := by decide

/-- `SiteOk` is exactly the hypothesis of `C26_no_replay` for the configuration a site induces. -/
theorem C26_site_cfg (tolNs ttlNs : Int) (h : SiteOk tolNs ttlNs = true) (h0 : 0 ≤ tolNs) :
    let cfg : Cfg := { tolSec := tolNs / nsPerSec, ttlNs := ttlNs }
    0 ≤ cfg.tolSec ∧ (2 * cfg.tolSec + 1) * nsPerSec ≤ cfg.ttlNs := by
  unfold SiteOk at h
  unfold nsPerSec at *
  simp only [decide_eq_true_eq] at h
  refine ⟨?_, h⟩
  show 0 ≤ tolNs / 1000000000
  omega

/-- **C26_tight.** The side condition cannot be weakened: with retention equal to the tolerance
(what the code used before the fix) a future-dated message is accepted twice. -/
theorem C26_tight_witness :
    let cfg : Cfg := { tolSec := 300, ttlNs := 300 * nsPerSec }
    let m : Msg := { key := "n\x00abc", ts := 1300, macOk := true }
    let c0 : Cache := { entries := [], lastEvict := 0 }
    runOut cfg c0 [⟨1000 * nsPerSec, m⟩, ⟨1300 * nsPerSec, m⟩] = [.accepted, .accepted] := by
  decide

/-- … and even `2·tolerance` is one second short, because signed timestamps are whole seconds. -/
theorem C26_tight_witness_2tol :
    let cfg : Cfg := { tolSec := 300, ttlNs := 600 * nsPerSec }
    let m : Msg := { key := "n\x00abc", ts := 1300, macOk := true }
    let c0 : Cache := { entries := [], lastEvict := 0 }
    runOut cfg c0 [⟨1000 * nsPerSec, m⟩, ⟨1600 * nsPerSec + 999999999, m⟩] = [.accepted, .accepted] := by
  decide

/-! ## non-vacuity -/

/-- The hypotheses of `C26_no_replay` are satisfiable with a non-trivial history. -/
example :
    let cfg : Cfg := { tolSec := 300, ttlNs := 601 * nsPerSec }
    let m : Msg := { key := "n\x00abc", ts := 1300, macOk := true }
    let c0 : Cache := { entries := [("x", 5)], lastEvict := 0 }
    (handle cfg c0 ⟨1000 * nsPerSec, m⟩).2 = .accepted ∧
    (handle cfg (runState cfg (handle cfg c0 ⟨1000 * nsPerSec, m⟩).1
        [⟨1100 * nsPerSec, { key := "other", ts := 1100, macOk := true }⟩])
      ⟨1600 * nsPerSec + 999999999, m⟩).2 = .replay := by decide

end Arc.C26
