import Arc.Model.C14
import Arc.Model.C14.Str
/-!
# C14 — A query can only read data the caller is authorized to read

Property (fixed text, properties.jsonl): for any SQL text accepted by the query / estimate /
measurement-listing / SHOW endpoints, every stored file the executed statement reads belongs to a
(database, measurement) whose read permission was checked for the caller (after applying the database
header); no accepted statement reads another database's files through table functions, replacement
scans, quoting, backslashes, dollar quotes, comments or placeholder-like text.

THE FULL STATEMENT IS FALSE OF THE CURRENT SOURCE (the harness reads canary rows of an unauthorised
database through the real handlers + the real sandboxed DuckDB in 11 lexical / structural classes, see
props/C14.py).  Kept visible:

    theorem C14_full (s hdr) : accepted s hdr → filesRead (execute s hdr) ⊆ dirs (refsChecked s hdr)

What is proved instead, compositionally:

(B) `C14_validated`        — over DuckDB's token list: an accepted statement is a single statement, has no
                             denylisted file-reading function name (bare or quoted) followed by `(`, and no
                             string literal / non-name quoted identifier in table position.
(C) `C14_rewrite_subset_checked` (+ `_hdr`) — for an ABSTRACT regex matcher, normaliser, splice and case
                             folding: every (database, measurement) the rewrite turns into a read_parquet
                             path is a permission-checked pair (same database, same measurement up to the
                             letter case the de-duplication key folds) or carries the inert sentinel —
                             under the explicit side conditions the abstract argument needs, each of which
                             is either a fact about the regex literals (captures contain no '.') or one of
                             the places where the real code breaks the inclusion; for each such place a
                             witness theorem exhibits the break (`*_witness`).
(D) DuckDB's read set is a HYPOTHESIS (`hD`) of `C14_partial`, never an axiom; so is the lexical
    agreement (A) of validator and DuckDB on the class `inK` (C15's subject).
-/
namespace Arc.C14

/-! ## helper lemmas (not property theorems) -/

theorem key_inj {a b c d : Str} (ha : dot ∉ a) (hb : dot ∉ b) (h : a ++ dot :: b = c ++ dot :: d) :
    a = c ∧ b = d := by
  induction a generalizing c with
  | nil =>
    cases c with
    | nil => simp at h; exact ⟨rfl, h⟩
    | cons x c' =>
      simp at h
      obtain ⟨hx, hb'⟩ := h
      exact absurd (by rw [hb']; simp) hb
  | cons y a' ih =>
    cases c with
    | nil =>
      simp at h
      exact absurd (by rw [h.1]; simp) ha
    | cons x c' =>
      simp at h
      obtain ⟨hyx, ht⟩ := h
      have := ih (by intro hm; exact ha (List.mem_cons_of_mem _ hm)) ht
      exact ⟨by rw [hyx, this.1], this.2⟩

theorem dedup_complete (cs : List Cand) (seen : List Str) (c : Cand) (hc : c ∈ cs) :
    c.key ∈ seen ∨ ∃ k ∈ cs, k.key = c.key ∧ k.ref ∈ dedup cs seen := by
  induction cs generalizing seen with
  | nil => cases hc
  | cons x xs ih =>
    unfold dedup
    by_cases hx : seen.contains x.key = true
    · simp only [hx, if_true]
      rcases List.mem_cons.mp hc with rfl | hm
      · left; exact List.contains_iff_mem.mp hx
      · rcases ih seen hm with h | ⟨k, hk, hkk, hkr⟩
        · left; exact h
        · right; exact ⟨k, List.mem_cons_of_mem _ hk, hkk, hkr⟩
    · simp only [hx]
      rcases List.mem_cons.mp hc with rfl | hm
      · right; exact ⟨c, List.mem_cons_self, rfl, List.mem_cons_self⟩
      · rcases ih (x.key :: seen) hm with h | ⟨k, hk, hkk, hkr⟩
        · rcases List.mem_cons.mp h with h1 | h2
          · right; exact ⟨x, List.mem_cons_self, h1.symm, List.mem_cons_self⟩
          · left; exact h2
        · right; exact ⟨k, List.mem_cons_of_mem _ hk, hkk, List.mem_cons_of_mem _ hkr⟩

/-- every surviving key class has a representative among the extracted references -/
theorem extracted_of_cand (W : World) (n : Norm) (c : Cand) (hc : c ∈ candidates W n) :
    ∃ k ∈ candidates W n, k.key = c.key ∧ k.ref ∈ refsExtracted W n := by
  rcases dedup_complete (candidates W n) [] c hc with h | h
  · cases h
  · exact h

/-- the two shapes of a candidate -/
theorem cand_shape (W : World) (n : Norm) (k : Cand) (hk : k ∈ candidates W n) :
    k.key = k.ref.db ++ dot :: k.ref.m ∨ (k.ref.db = defaultDB ∧ k.key = defaultDB ++ dot :: W.lower k.ref.m) := by
  unfold candidates at hk
  simp only [List.mem_append, List.mem_map, List.mem_filter] at hk
  rcases hk with ((⟨m, _, rfl⟩ | ⟨m, _, rfl⟩) | ⟨m, _, rfl⟩) | ⟨m, _, rfl⟩
  · left; rfl
  · left; rfl
  · right; exact ⟨rfl, rfl⟩
  · right; exact ⟨rfl, rfl⟩

theorem validName_nodot (o : Str) (h : validName o = true) : dot ∉ o := by
  cases o with
  | nil => simp [validName] at h
  | cons c cs =>
    simp only [validName, Bool.and_eq_true] at h
    obtain ⟨⟨h1, h2⟩, _⟩ := h
    intro hm
    rcases List.mem_cons.mp hm with h0 | h0
    · rw [← h0] at h1; revert h1; decide
    · have := List.all_eq_true.mp h2 dot h0
      revert this; decide

theorem defaultDB_nodot : dot ∉ defaultDB := by decide

/-- a resolved name is the sentinel, or the raw resolution and free of dots -/
theorem resolveV_cases (I : Idents) (g : Str) (hg : dot ∉ g) :
    resolveV I g = sentinel ∨ (resolveV I g = resolveRaw I g ∧ dot ∉ resolveV I g) := by
  unfold resolveV resolveRaw
  cases hI : I.lookup g with
  | none => right; exact ⟨rfl, hg⟩
  | some o =>
    by_cases hv : validName o = true
    · right; simp only [hv, if_true]; exact ⟨trivial, validName_nodot o hv⟩
    · left; simp [hv]

structure LowerLaws (W : World) : Prop where
  idem : ∀ s, W.lower (W.lower s) = W.lower s
  nodot : ∀ s, dot ∉ s → dot ∉ W.lower s

/-- the regex capture classes (`[a-zA-Z0-9_]+`, `[a-zA-Z_][a-zA-Z0-9_]*`, `\w+`) contain no '.' -/
def CapNoDot (W : World) : Prop := ∀ p t m, m ∈ W.findAll p t → dot ∉ m.g1 ∧ dot ∉ m.g2

/-- a reference matched by a dotted pattern on the permission-side text is covered -/
theorem dotted_covered (W : World) (L : LowerLaws W) (n : Norm) (m : Match)
    (hm : m ∈ W.findAll .dbTable n.text ∨ m ∈ W.findAll .joinDbTable n.text)
    (h1 : resolveV n.idents m.g1 = resolveRaw n.idents m.g1) (d1 : dot ∉ resolveV n.idents m.g1)
    (h2 : resolveV n.idents m.g2 = resolveRaw n.idents m.g2) (d2 : dot ∉ resolveV n.idents m.g2) :
    ∃ k ∈ refsExtracted W n, k.db = resolveV n.idents m.g1 ∧ W.lower k.m = W.lower (resolveV n.idents m.g2) := by
  have hc : dottedCand n.idents m ∈ candidates W n := by
    unfold candidates
    simp only [List.mem_append, List.mem_map]
    rcases hm with h | h
    · left; left; left; exact ⟨m, h, rfl⟩
    · left; left; right; exact ⟨m, h, rfl⟩
  obtain ⟨k, hk, hkey, hkr⟩ := extracted_of_cand W n _ hc
  have hkey' : k.key = resolveV n.idents m.g1 ++ dot :: resolveV n.idents m.g2 := by
    rw [hkey, h1, h2]; rfl
  refine ⟨k.ref, hkr, ?_⟩
  rcases cand_shape W n k hk with hs | ⟨hdb, hs⟩
  · rw [hs] at hkey'
    obtain ⟨e1, e2⟩ := key_inj d1 d2 hkey'.symm
    exact ⟨e1.symm, by rw [e2]⟩
  · rw [hs] at hkey'
    obtain ⟨e1, e2⟩ := key_inj d1 d2 hkey'.symm
    refine ⟨by rw [hdb, e1], ?_⟩
    rw [e2, L.idem]

/-- a reference matched by a simple pattern on the permission-side text and not skipped there is covered -/
theorem simple_covered (W : World) (L : LowerLaws W) (n : Norm) (m : Match)
    (hm : m ∈ W.findAll .simple n.text ∨ m ∈ W.findAll .joinSimple n.text)
    (hns : extractSkips W (cteNames W n.text) n.idents m = false)
    (h1 : resolveV n.idents m.g1 = resolveRaw n.idents m.g1) (d1 : dot ∉ resolveV n.idents m.g1) :
    ∃ k ∈ refsExtracted W n, k.db = defaultDB ∧ W.lower k.m = W.lower (resolveV n.idents m.g1) := by
  have hc : simpleCand W n.idents m ∈ candidates W n := by
    unfold candidates
    simp only [List.mem_append, List.mem_map, List.mem_filter]
    rcases hm with h | h
    · left; right; exact ⟨m, ⟨h, by simp [hns]⟩, rfl⟩
    · right; exact ⟨m, ⟨h, by simp [hns]⟩, rfl⟩
  obtain ⟨k, hk, hkey, hkr⟩ := extracted_of_cand W n _ hc
  have hkey' : k.key = defaultDB ++ dot :: W.lower (resolveV n.idents m.g1) := by
    rw [hkey, h1]; rfl
  have dl : dot ∉ W.lower (resolveV n.idents m.g1) := L.nodot _ d1
  refine ⟨k.ref, hkr, ?_⟩
  rcases cand_shape W n k hk with hs | ⟨hdb, hs⟩
  · rw [hs] at hkey'
    obtain ⟨e1, e2⟩ := key_inj defaultDB_nodot dl hkey'.symm
    exact ⟨e1.symm, by rw [← e2, L.idem]⟩
  · rw [hs] at hkey'
    obtain ⟨_, e2⟩ := key_inj defaultDB_nodot dl hkey'.symm
    exact ⟨hdb, e2.symm⟩

theorem dotAt_imp (rest : Str) (h : dotAt rest = true) : dotOrCallAtR rest = true := by
  cases rest with
  | nil => simp [dotAt, headIs] at h
  | cons c cs =>
    have hc : c = dot := by simpa [dotAt, headIs] using h
    subst hc
    have hb : rewriteBlanks.contains dot = false := by decide
    simp only [dotOrCallAtR, List.dropWhile_cons, hb, Bool.false_eq_true, if_false, headIs, List.head?_cons]
    simp

/-- what the rewrite keeps, the permission side does not skip — provided the look-aheads agree -/
theorem keeps_not_skipped (W : World) (ctes : List Str) (I : Idents) (m m0 : Match)
    (hg : m0.g1 = m.g1) (hres : resolveV I m.g1 = resolveRaw I m.g1)
    (hlook : callAtX m0.rest = true → dotOrCallAtR m.rest = true)
    (hdot : dotAt m0.rest = true → dotOrCallAtR m.rest = true)
    (hk : rewriteKeeps W ctes I m = true) : extractSkips W ctes I m0 = false := by
  simp only [rewriteKeeps, Bool.and_eq_true, Bool.not_eq_true'] at hk
  obtain ⟨⟨⟨k1, k2⟩, k3⟩, k4⟩ := hk
  simp only [extractSkips, hg, ← hres, Bool.or_eq_false_iff]
  refine ⟨⟨⟨⟨k3, k2⟩, k1⟩, ?_⟩, ?_⟩
  · cases hd : dotAt m0.rest with
    | false => rfl
    | true => rw [hdot hd] at k4; cases k4
  · cases hd : callAtX m0.rest with
    | false => rfl
    | true => rw [hlook hd] at k4; cases k4

/-- side conditions of the no-header path the abstract argument needs (every later pass finds only
references the same pattern finds in the original normalised text, with an agreeing look-ahead) -/
structure StableNoHdr (W : World) (n : Norm) : Prop where
  joinDb : ∀ m ∈ W.findAll .joinDbTable (textsNoHdr W n).t1,
    ∃ m0 ∈ W.findAll .joinDbTable n.text, m0.g1 = m.g1 ∧ m0.g2 = m.g2
  simple : ∀ m ∈ W.findAll .simple (textsNoHdr W n).t2,
    ∃ m0 ∈ W.findAll .simple n.text, m0.g1 = m.g1 ∧
      (callAtX m0.rest = true → dotOrCallAtR m.rest = true) ∧ (dotAt m0.rest = true → dotOrCallAtR m.rest = true)
  joinSimple : ∀ m ∈ W.findAll .joinSimple (textsNoHdr W n).t3,
    ∃ m0 ∈ W.findAll .joinSimple n.text, m0.g1 = m.g1 ∧
      (callAtX m0.rest = true → dotOrCallAtR m.rest = true) ∧ (dotAt m0.rest = true → dotOrCallAtR m.rest = true)

/-- side conditions of the header (slow) path -/
structure StableHdr (W : World) (n : Norm) : Prop where
  gate : cteNamesHdr W n.text = cteNames W n.text
  simple : ∀ m ∈ W.findAll .simple n.text, callAtX m.rest = true → dotOrCallAtR m.rest = true
  joinSimple : ∀ m ∈ W.findAll .joinSimple (textsHdr W n).t3,
    ∃ m0 ∈ W.findAll .joinSimple n.text, m0.g1 = m.g1 ∧
      (callAtX m0.rest = true → dotOrCallAtR m.rest = true) ∧ (dotAt m0.rest = true → dotOrCallAtR m.rest = true)

/-- "r is covered by the checked set": same database, same measurement up to the case folding of the
de-duplication key — or r names the inert sentinel directory -/
def Covered (W : World) (checked : List Ref) (r : Ref) : Prop :=
  r.db = sentinel ∨ r.m = sentinel ∨ ∃ c ∈ checked, c.db = r.db ∧ W.lower c.m = W.lower r.m

theorem rewNoHdr_covered (W : World) (L : LowerLaws W) (hcap : CapNoDot W) (n : Norm) (hst : StableNoHdr W n) :
    ∀ r ∈ rewNoHdr W n, Covered W (refsExtracted W n) r := by
  intro r hr
  unfold rewNoHdr at hr
  simp only [List.mem_append, List.mem_map, List.mem_filter] at hr
  have dotted : ∀ m0 : Match, (m0 ∈ W.findAll .dbTable n.text ∨ m0 ∈ W.findAll .joinDbTable n.text) →
      Covered W (refsExtracted W n) (dottedRef n.idents m0) := by
    intro m0 hm0
    have hc := hm0.elim (hcap _ _ _) (hcap _ _ _)
    rcases resolveV_cases n.idents m0.g1 hc.1 with s1 | ⟨e1, d1⟩
    · left; exact s1
    rcases resolveV_cases n.idents m0.g2 hc.2 with s2 | ⟨e2, d2⟩
    · right; left; exact s2
    right; right
    obtain ⟨k, hk, h1, h2⟩ := dotted_covered W L n m0 hm0 e1 d1 e2 d2
    exact ⟨k, hk, h1, h2⟩
  have simple : ∀ m m0 : Match, (m0 ∈ W.findAll .simple n.text ∨ m0 ∈ W.findAll .joinSimple n.text) →
      m0.g1 = m.g1 → (callAtX m0.rest = true → dotOrCallAtR m.rest = true) →
      (dotAt m0.rest = true → dotOrCallAtR m.rest = true) →
      rewriteKeeps W (cteNames W n.text) n.idents m = true →
      Covered W (refsExtracted W n) ⟨defaultDB, resolveV n.idents m.g1⟩ := by
    intro m m0 hm0 hg hl hd hk
    have hc := hm0.elim (hcap _ _ _) (hcap _ _ _)
    rw [hg] at hc
    rcases resolveV_cases n.idents m.g1 hc.1 with s1 | ⟨e1, d1⟩
    · right; left; exact s1
    right; right
    have hns := keeps_not_skipped W _ n.idents m m0 hg e1 hl hd hk
    obtain ⟨k, hk', h1, h2⟩ := simple_covered W L n m0 hm0 hns (by rw [hg]; exact e1) (by rw [hg]; exact d1)
    exact ⟨k, hk', h1, by rw [h2, hg]⟩
  rcases hr with ((⟨m, hm, rfl⟩ | ⟨m, hm, rfl⟩) | ⟨m, ⟨hm, hk⟩, rfl⟩) | ⟨m, ⟨hm, hk⟩, rfl⟩
  · exact dotted m (Or.inl hm)
  · obtain ⟨m0, hm0, g1, g2⟩ := hst.joinDb m hm
    have := dotted m0 (Or.inr hm0)
    simpa [dottedRef, g1, g2] using this
  · obtain ⟨m0, hm0, g1, hl, hd⟩ := hst.simple m hm
    exact simple m m0 (Or.inl hm0) g1 hl hd hk
  · obtain ⟨m0, hm0, g1, hl, hd⟩ := hst.joinSimple m hm
    exact simple m m0 (Or.inr hm0) g1 hl hd hk

theorem applyHeader_mem (hdr : Str) (hh : hdr ≠ []) (rs : List Ref) (k : Ref) (hk : k ∈ rs) (hd : k.db = defaultDB) :
    (⟨hdr, k.m⟩ : Ref) ∈ applyHeader hdr rs := by
  unfold applyHeader
  simp only [hh, if_false, List.mem_map]
  exact ⟨k, hk, by simp [hd]⟩

theorem rewHdrSlow_covered (W : World) (L : LowerLaws W) (hcap : CapNoDot W) (n : Norm) (hdr : Str) (hh : hdr ≠ [])
    (hst : StableHdr W n) : ∀ r ∈ rewHdrSlow W n hdr, Covered W (applyHeader hdr (refsExtracted W n)) r := by
  intro r hr
  unfold rewHdrSlow at hr
  simp only [List.mem_append, List.mem_map, List.mem_filter, hst.gate] at hr
  have simple : ∀ m m0 : Match, (m0 ∈ W.findAll .simple n.text ∨ m0 ∈ W.findAll .joinSimple n.text) →
      m0.g1 = m.g1 → (callAtX m0.rest = true → dotOrCallAtR m.rest = true) →
      (dotAt m0.rest = true → dotOrCallAtR m.rest = true) →
      rewriteKeeps W (cteNames W n.text) n.idents m = true →
      Covered W (applyHeader hdr (refsExtracted W n)) ⟨hdr, resolveV n.idents m.g1⟩ := by
    intro m m0 hm0 hg hl hd hk
    have hc := hm0.elim (hcap _ _ _) (hcap _ _ _)
    rw [hg] at hc
    rcases resolveV_cases n.idents m.g1 hc.1 with s1 | ⟨e1, d1⟩
    · right; left; exact s1
    right; right
    have hns := keeps_not_skipped W _ n.idents m m0 hg e1 hl hd hk
    obtain ⟨k, hk', h1, h2⟩ := simple_covered W L n m0 hm0 hns (by rw [hg]; exact e1) (by rw [hg]; exact d1)
    exact ⟨⟨hdr, k.m⟩, applyHeader_mem hdr hh _ k hk' h1, rfl, by rw [h2, hg]⟩
  rcases hr with ⟨m, ⟨hm, hk⟩, rfl⟩ | ⟨m, ⟨hm, hk⟩, rfl⟩
  · have hm' : m ∈ W.findAll .simple n.text := hm
    exact simple m m (Or.inl hm') rfl (hst.simple m hm') (fun h => dotAt_imp _ h) hk
  · obtain ⟨m0, hm0, g1, hl, hd⟩ := hst.joinSimple m hm
    exact simple m m0 (Or.inr hm0) g1 hl hd hk

/-! ## (C) extraction must match execution -/

/-- **(C), no database header.** For every regex semantics (`findAll`), normaliser, splice and case
folding: every pair the rewrite turns into a read_parquet path is covered by the permission-checked
pairs, provided (1) the pre-passes leave the statement alone, (2) captures contain no '.', (3) a later
pass only finds references the same pattern finds in the original normalised text and the two
look-aheads agree on them (`StableNoHdr`). The `read_parquet` short-circuit makes the left side empty. -/
theorem C14_rewrite_subset_checked (W : World) (L : LowerLaws W) (hcap : CapNoDot W) (s : Str)
    (hpre : W.prepass s = s) (hst : StableNoHdr W (W.normP s)) :
    ∀ r ∈ refsRewritten W s [], Covered W (refsChecked W s []) r := by
  intro r hr
  unfold refsRewritten at hr
  by_cases hsc : shortCircuit W s = true
  · simp [hsc] at hr
  · simp only [hsc, Bool.false_eq_true, if_false, if_true, hpre] at hr
    have := rewNoHdr_covered W L hcap (W.normP s) hst r hr
    simpa [refsChecked, applyHeader] using this

/-- **(C), with database header** (slow path): the same inclusion after header substitution, under the
additional conditions that the single-table fast path is not taken and that the `with ` gate around
`extractCTENames` agrees with the ungated permission side. -/
theorem C14_rewrite_subset_checked_hdr (W : World) (L : LowerLaws W) (hcap : CapNoDot W) (s hdr : Str)
    (hh : hdr ≠ []) (hpre : W.prepass s = s) (hfast : fastPathTaken W s = false)
    (hst : StableHdr W (W.normP s)) :
    ∀ r ∈ refsRewritten W s hdr, Covered W (refsChecked W s hdr) r := by
  intro r hr
  unfold refsRewritten at hr
  by_cases hsc : shortCircuit W s = true
  · simp [hsc] at hr
  · simp only [hsc, Bool.false_eq_true, if_false, hh, rewHdr, hfast, hpre] at hr
    exact rewHdrSlow_covered W L hcap (W.normP s) hdr hh hst r hr

/-- the short-circuit itself: text that mentions `read_parquet` is never rewritten -/
theorem C14_short_circuit (W : World) (s hdr : Str) (h : containsSub shortCircuitLit (W.lower s) = true) :
    refsRewritten W s hdr = [] := by
  simp [refsRewritten, shortCircuit, h]

example : ∃ (W : World) (s : Str), refsRewritten W s [] ≠ [] ∧ W.prepass s = s :=
  ⟨{ findAll := fun p _ => if p = .simple then [⟨"cpu".toList, [], []⟩] else [], splice := fun _ t _ => t,
     normP := fun t => ⟨t, []⟩, prepass := id, lower := id }, "from cpu".toList, by decide, rfl⟩

/-! ### where the inclusion breaks (each is an observed bypass or near-miss of the real code) -/

def wOf (fa : Pat → Str → List Match) : World :=
  { findAll := fa, splice := fun _ t _ => t, normP := fun t => ⟨t, []⟩, prepass := id, lower := lowerAscii }

/-- look-ahead disagreement: `isFunctionCallAt` skips line breaks, `isDotOrCallAt` only blanks and tabs
(regenerated blank sets): `FROM cpu<LF>(x)` is a function call for the permission side, a table for the
rewrite. (Real code: DuckDB's parser rejects every such text the harness tried — near-miss.) -/
theorem C14_lookahead_witness :
    let W := wOf (fun p _ => if p = .simple then [⟨"cpu".toList, [], "\n(x)".toList⟩] else [])
    refsRewritten W "select canary from cpu\n(x)".toList "secret".toList = [⟨"secret".toList, "cpu".toList⟩]
    ∧ refsChecked W "select canary from cpu\n(x)".toList "secret".toList = [] := by
  decide

/-- the `with ` gate (regenerated: `headerCteGated`, literal `with `): with `WITH<LF>cpu AS (…)` the
permission side excludes the CTE name `cpu`, the header-path rewrite does not even look for CTE names. -/
theorem C14_header_cte_gate_witness :
    Arc.Generated.C14.headerCteGated = true ∧
    let s := "with\ncpu as (select 1 as one) select canary from cpu x".toList
    let W := wOf (fun p _ => if p = .simple then [⟨"cpu".toList, [], " x".toList⟩]
                              else if p = .cte then [⟨"cpu".toList, [], []⟩] else [])
    refsRewritten W s "secret".toList = [⟨"secret".toList, "cpu".toList⟩] ∧ refsChecked W s "secret".toList = [] := by
  decide

/-- the same on the REAL regex semantics and the real normaliser (string level): a named WINDOW is read
as a CTE name by the permission side (second alternative of patternCTENames), nothing is checked. -/
theorem C14_window_alias_witness :
    let s := "SELECT canary, sum(v) OVER cpu FROM cpu WINDOW w AS (ORDER BY v), cpu AS (ORDER BY v)".toList
    validate s = .ok ∧ refsChecked strWorld s "secret".toList = [] ∧
    cteNamesHdr strWorld (strNorm s).text = [] ∧ cteNames strWorld (strNorm s).text = ["cpu".toList] := by
  decide +kernel

/-- the single-table fast path uses the substring `from ` (no word boundary): `1from cpu` is a FROM
clause for DuckDB and for the fast path, not for `\bFROM` — nothing is checked, secret.cpu is read. -/
theorem C14_fastpath_witness :
    Arc.Generated.C14.headerFastPath = true ∧
    let s := "SELECT canary,1from cpu".toList
    validate s = .ok ∧ fastPathTaken strWorld s = true ∧
    refsRewritten strWorld s "secret".toList = [⟨"secret".toList, "cpu".toList⟩] ∧
    refsChecked strWorld s "secret".toList = [] := by
  decide +kernel

/-- exact equality of measurements fails: the `seen` key folds the letter case of bare references -/
theorem C14_casefold_witness :
    let s := "SELECT 1 FROM CPU a JOIN cpu b ON true".toList
    refsChecked strWorld s "allowed".toList = [⟨"allowed".toList, "CPU".toList⟩] ∧
    (strFindAll .joinSimple (strNorm s).text).map (·.g1) = ["cpu".toList] := by
  decide +kernel

/-! ## (B) what acceptance guarantees over DuckDB's token list -/

/-- **(B)** an accepted token list is a single statement without a denylisted file-reading function name
(bare or quoted) followed by `(`, and without a string literal / non-name quoted identifier in table
position. -/
theorem C14_validated (ts : List Tok) (h : acceptedTok ts = true) :
    singleStatement ts = true ∧ hasDeniedCall ts = false ∧ badInTablePos {} ts = false := by
  simp only [acceptedTok, Bool.and_eq_true, Bool.not_eq_true'] at h
  exact ⟨h.1.1, h.1.2, h.2⟩

example : acceptedTok [.word "select".toList, .word "canary".toList, .word "from".toList, .word "cpu".toList, .semi] = true := by
  decide

/-- a denied name directly followed by `(` anywhere in the token list is seen by `hasDeniedCall` -/
theorem hasDeniedCall_of_call (pre post : List Tok) (w : Str) (hw : denylist.contains (lowerAscii w) = true) :
    hasDeniedCall (pre ++ .word w :: .lparen :: post) = true ∧
    hasDeniedCall (pre ++ .qident w :: .lparen :: post) = true := by
  induction pre with
  | nil => simp [hasDeniedCall, List.contains_iff_mem.mp hw]
  | cons t pre ih =>
    constructor
    · cases t <;> cases pre <;> simp_all [hasDeniedCall]
      all_goals (rename_i t2 r; cases t2 <;> simp_all [hasDeniedCall])
    · cases t <;> cases pre <;> simp_all [hasDeniedCall]
      all_goals (rename_i t2 r; cases t2 <;> simp_all [hasDeniedCall])

/-- every denylisted name of the CURRENT source (regenerated list), in any letter case, bare or quoted,
in any position, is rejected when followed by `(` -/
theorem C14_denylist_complete (pre post : List Tok) (w : Str) (hw : lowerAscii w ∈ denylist) :
    acceptedTok (pre ++ .word w :: .lparen :: post) = false ∧
    acceptedTok (pre ++ .qident w :: .lparen :: post) = false := by
  have h := hasDeniedCall_of_call pre post w (List.contains_iff_mem.mpr hw)
  simp [acceptedTok, h.1, h.2]

/-- the regenerated denylist contains the reader the rewrite itself emits and its documented alias, and
the frame of the regex is the one the token-level reading assumes -/
theorem C14_denylist_tied :
    "read_parquet".toList ∈ denylist ∧ "parquet_scan".toList ∈ denylist ∧ "glob".toList ∈ denylist ∧
    Arc.Generated.C14.denylistPrefix = "(?i)\\b(" ∧ Arc.Generated.C14.denylistSep = "|" ∧
    Arc.Generated.C14.denylistSuffix = ")\\s*\\(" := by
  decide

/-- strings / non-name quoted identifiers directly after FROM, JOIN or a cross-join comma are rejected -/
theorem C14_table_position_examples :
    acceptedTok [.word "select".toList, .other '*', .word "from".toList, .str "/r/secret/cpu/*.parquet".toList] = false ∧
    acceptedTok [.word "select".toList, .other '*', .word "from".toList, .word "cpu".toList, .comma, .str "/p".toList] = false ∧
    acceptedTok [.word "select".toList, .other '*', .word "from".toList, .lparen, .word "select".toList, .word "v".toList,
                 .word "from".toList, .word "cpu".toList, .rparen, .word "a".toList, .comma, .qident "db2/**/*.parquet".toList] = false ∧
    acceptedTok [.word "select".toList, .str "x".toList, .word "from".toList, .qident "my-db".toList, .word "where".toList,
                 .word "a".toList, .comma, .str "v".toList] = true := by
  decide

/-! ## ties to the regenerated source facts -/

/-- the regex literals the hand-compiled matchers of `Arc/Model/C14/Str.lean` were written for -/
theorem C14_regex_tied :
    Arc.Generated.C14.patternDBTable = "(?i)\\bFROM\\s+([a-zA-Z0-9_]+)\\.([a-zA-Z0-9_]+)\\b" ∧
    Arc.Generated.C14.patternSimpleTable = "(?i)\\bFROM\\s+([a-zA-Z_][a-zA-Z0-9_]*)\\b" ∧
    Arc.Generated.C14.patternJoinDBTable = "(?i)\\b((?:(?:LEFT|RIGHT|FULL|INNER|OUTER|CROSS|NATURAL|SEMI|ANTI|ASOF|POSITIONAL)\\s+)*(?:LATERAL\\s+)?JOIN\\s+(?:LATERAL\\s+)?)([a-zA-Z0-9_]+)\\.([a-zA-Z0-9_]+)\\b" ∧
    Arc.Generated.C14.patternJoinSimpleTable = "(?i)\\b((?:(?:LEFT|RIGHT|FULL|INNER|OUTER|CROSS|NATURAL|SEMI|ANTI|ASOF|POSITIONAL)\\s+)*(?:LATERAL\\s+)?JOIN\\s+(?:LATERAL\\s+)?)([a-zA-Z_][a-zA-Z0-9_]*)\\b" ∧
    Arc.Generated.C14.patternCTENames = "(?i)\\bWITH\\s+(?:RECURSIVE\\s+)?(\\w+)(?:\\s*\\([^)]*\\))?\\s+AS\\s*\\(|,\\s*(\\w+)(?:\\s*\\([^)]*\\))?\\s+AS\\s*\\(" ∧
    Arc.Generated.C14.tablePosPlaceholder = "__(?:STR|IDENT)_\\d+__" ∧
    Arc.Generated.C14.tablePosTokenPattern = "__(?:STR|IDENT)_\\d+__|[A-Za-z_][A-Za-z0-9_]*|[(),]" ∧
    Arc.Generated.C14.validIdentifierPattern = "^[a-zA-Z_][a-zA-Z0-9_-]*$" :=
  ⟨rfl, rfl, rfl, rfl, rfl, rfl, rfl, rfl⟩

/-- order of the validation steps and of the gates at each endpoint (regenerated call order) -/
def before (a b : String) (l : List String) : Bool :=
  match l.idxOf? a, l.idxOf? b with
  | some i, some j => i < j
  | _, _ => false

theorem C14_step_order :
    Arc.Generated.C14.validateSteps = ["TrimSpace", "backticksToDoubleQuotes", "scanSQLFeatures", "MaskStringLiterals",
      "stripSQLComments", "TrimRight", "MatchString", "ioDenylistNormalise", "FindStringSubmatch",
      "stringLiteralInTablePosition", "invalidQuotedIdentifierInTablePosition"] ∧
    Arc.Generated.C14.permissionSteps = ["scanSQLFeatures", "MaskStringLiterals", "MaskFromKeywordsInFunctionBodies",
      "stripSQLComments", "extractTableReferences", "Get", "CheckPermissionsBatch"] ∧
    (∀ l ∈ [Arc.Generated.C14.steps_executeQuery, Arc.Generated.C14.steps_executeQueryArrow, Arc.Generated.C14.steps_estimateQuery],
      (before "ValidateSQLRequest" "checkQueryPermissions" l &&
       (before "checkQueryPermissions" "getTransformedSQL" l || before "checkQueryPermissions" "getTransformedSQLForParallel" l) &&
       before "normalizeSQLForShow" "checkQueryPermissions" l) = true) := by
  decide

/-- GET /api/v1/query/:measurement composes `SELECT * FROM db.m WHERE <where> …` from the caller's
`where` text and rewrites + executes it WITHOUT `checkQueryPermissions` (regenerated call list): a
subquery in `where` reads any database (harness: canary-read:measurement-where-subquery). -/
theorem C14_measurement_endpoint_witness :
    "checkQueryPermissions" ∉ Arc.Generated.C14.steps_queryMeasurement ∧
    "getTransformedSQL" ∈ Arc.Generated.C14.steps_queryMeasurement ∧
    "checkMeasurementPermission" ∈ Arc.Generated.C14.steps_queryMeasurement := by
  decide

/-! ## lexical witnesses outside K (string level: what the REAL validator / extractor compute) -/

/-- backslash before the closing quote of a plain literal: the masker continues the literal (regenerated
fact `maskBackslashEscapes`), DuckDB ends it. The validator sees no call, the extractor no reference;
DuckDB's tokens (second component, as DuckDB lexes the same bytes) contain `read_parquet (`. -/
theorem C14_backslash_quote_witness :
    Arc.Generated.C14.maskBackslashEscapes = true ∧
    let s := "SELECT 'a\\', canary FROM read_parquet('/r/secret/cpu/x.parquet') --'".toList
    inK s [] = false ∧ validate s = .ok ∧ refsChecked strWorld s [] = [] ∧ shortCircuit strWorld s = true ∧
    acceptedTok [.word "SELECT".toList, .str "a\\".toList, .comma, .word "canary".toList, .word "FROM".toList,
                 .word "read_parquet".toList, .lparen, .str "/r/secret/cpu/x.parquet".toList, .rparen] = false := by
  decide +kernel

/-- a quote inside a comment: masking runs before comment stripping -/
theorem C14_quote_in_comment_witness :
    let s := "SELECT 1 -- '\n, canary FROM read_parquet('/r/secret/cpu/x.parquet') -- '".toList
    let b := "SELECT 1 /* ' */, canary FROM read_parquet('/r/secret/cpu/x.parquet') /* ' */".toList
    inK s [] = false ∧ validate s = .ok ∧ refsChecked strWorld s [] = [] ∧
    inK b [] = false ∧ validate b = .ok ∧ refsChecked strWorld b [] = [] := by
  decide +kernel

/-- an escaped backslash before the closing quote of an E'' literal -/
theorem C14_estring_witness :
    let s := "SELECT E'a\\\\', canary FROM read_parquet('/r/secret/cpu/x.parquet') --'".toList
    inK s [] = false ∧ validate s = .ok ∧ refsChecked strWorld s [] = [] := by
  decide +kernel

/-- a comment marker inside a quoted identifier: `ioDenylistNormalise` strips the identifier quotes, the
marker turns live and the comment stripper removes the call the denylist should have seen -/
theorem C14_marker_in_ident_witness :
    let s := "SELECT 1 AS \"/*\", canary FROM read_parquet('/r/secret/cpu/x.parquet') -- */".toList
    inK s [] = false ∧ validate s = .ok ∧ refsChecked strWorld s [] = [] := by
  decide +kernel

/-- placeholder look-alike: the validator / extractor see two inert literals; `UnmaskStringLiterals`
(first-occurrence replace, not modelled) then splices literal #1 into the TEXT of literal #0 -/
theorem C14_placeholder_witness :
    let s := "SELECT '__STR_1__' , ' , * FROM parquet_scan($$/r/secret/cpu/x.parquet$$) --'".toList
    inK s [] = false ∧ validate s = .ok ∧ refsChecked strWorld s [] = [] ∧ shortCircuit strWorld s = false ∧
    (strNorm s).text = "SELECT __STR_0__ , __STR_1__".toList := by
  decide +kernel

/-- and K is not empty: ordinary statements are in K, accepted, and their references are checked -/
example :
    let s := "SELECT canary FROM secret.cpu a JOIN mem b ON true".toList
    inK s [] = true ∧ validate s = .ok ∧
    refsChecked strWorld s [] = [⟨"secret".toList, "cpu".toList⟩, ⟨"default".toList, "mem".toList⟩] := by
  decide +kernel

/-- gaps of the regenerated denylist (breaks by design once the names are added): DuckDB's `query('<sql>')`
runs SQL handed over inside a string literal, `parquet_full_metadata` reads parquet footers + statistics -/
theorem C14_denylist_gap_witness :
    "query".toList ∉ denylist ∧ "query_table".toList ∉ denylist ∧ "parquet_full_metadata".toList ∉ denylist ∧
    acceptedTok [.word "select".toList, .other '*', .word "from".toList, .word "query".toList, .lparen,
                 .str "SELECT canary FROM parquet_scan('/r/secret/cpu/x.parquet')".toList, .rparen] = true ∧
    acceptedTok [.word "select".toList, .other '*', .word "from".toList, .word "parquet_full_metadata".toList, .lparen,
                 .str "/r/secret/cpu/x.parquet".toList, .rparen] = true := by
  decide

/-- a blank DuckDB accepts but RE2's `\\s` does not (U+00A0) between the reader name and `(` -/
theorem C14_nbsp_witness :
    let s := "SELECT canary FROM read_parquet\u00a0('/r/secret/cpu/x.parquet')".toList
    inK s [] = false ∧ validate s = .ok ∧ refsChecked strWorld s [] = [] := by
  decide +kernel

/-- a dollar-quote tag with a non-ASCII letter: a dollar-quoted string for DuckDB, not for `dollarQuoteTag`
(ASCII letters only) - the replacement scan stays unmasked and no scanner recognises it -/
theorem C14_dollar_nonascii_tag_witness :
    let s := "SELECT canary FROM $é$/r/secret/cpu/2024/01/01/00/part0.parquet$é$".toList
    inK s [] = false ∧ validate s = .ok ∧ refsChecked strWorld s [] = [] ∧
    (maskLits s).2.length = 0 := by
  decide +kernel

/-- while every ASCII tag (letters, digits after the first byte, underscore) IS masked as one string -/
theorem C14_dollar_tag_masked :
    ["", "t", "t1", "_9", "T0", "a2b", "a_1"].all (fun tg =>
      validate ("SELECT canary FROM $".toList ++ tg.toList ++ "$/r/secret/cpu/f.parquet$".toList ++ tg.toList ++ "$".toList)
        == .strtab) = true := by
  decide +kernel

/-- PRE-FIX definition (before /repo commit 12df811), kept only to state what was wrong: the key was
`sql` without a header and `headerDB + ":" + sql` with one -/
def cacheKeyPreFix (hdr sql : Str) : Str := if hdr = [] then sql else hdr ++ ':' :: sql

/-- historical witness (fixed): under the pre-fix key the header-less text "secret:<q>" addressed the entry
primed by (header secret, q), while the permission side extracts `default.cpu` from the text -/
theorem C14_cache_key_prefix_collision_witness :
    let q := "SELECT canary FROM cpu LIMIT 7".toList
    cacheKeyPreFix [] ("secret:".toList ++ q) = cacheKeyPreFix "secret".toList q ∧
    validate ("secret:".toList ++ q) = .ok ∧
    refsChecked strWorld ("secret:".toList ++ q) [] = [⟨"default".toList, "cpu".toList⟩] ∧
    refsChecked strWorld q "secret".toList = [⟨"secret".toList, "cpu".toList⟩] := by
  decide +kernel

/-- CURRENT key (regenerated shape: one unconditional assignment `headerDB + <sep byte> + sql`) -/
def cacheSep : Char := Char.ofNat Arc.Generated.C14.cacheKeySepByte
def cacheKey (hdr sql : Str) : Str := hdr ++ cacheSep :: sql

theorem sep_inj (c : Char) {a b x y : Str} (ha : c ∉ a) (hx : c ∉ x) (h : a ++ c :: b = x ++ c :: y) :
    a = x ∧ b = y := by
  induction a generalizing x with
  | nil =>
    cases x with
    | nil => simp at h; exact ⟨rfl, h⟩
    | cons z x' =>
      simp at h
      exact absurd (by rw [← h.1]; simp) hx
  | cons z a' ih =>
    cases x with
    | nil =>
      simp at h
      exact absurd (by rw [h.1]; simp) ha
    | cons w x' =>
      simp at h
      obtain ⟨hzw, ht⟩ := h
      have := ih (by intro hm; exact ha (List.mem_cons_of_mem _ hm)) (by intro hm; exact hx (List.mem_cons_of_mem _ hm)) ht
      exact ⟨by rw [hzw, this.1], this.2⟩

/-- a valid header (`validateHeaderDatabase`: empty or `validName`) never contains the separator byte -/
theorem headerOK_nosep (h : Str) (hh : headerOK h = true) : cacheSep ∉ h := by
  unfold headerOK at hh
  cases h with
  | nil => simp
  | cons c cs =>
    simp only [List.isEmpty_cons, Bool.false_or, validName, Bool.and_eq_true] at hh
    obtain ⟨⟨h1, h2⟩, _⟩ := hh
    intro hm
    rcases List.mem_cons.mp hm with h0 | h0
    · rw [← h0] at h1; revert h1; decide
    · have := List.all_eq_true.mp h2 cacheSep h0
      revert this; decide

/-- **the repaired cache key cannot collide**: two requests with validated headers share a transform-cache
entry only if they have the same header AND the same text (so the permission check of the request that is
served the entry was made on exactly that (header, text) pair) -/
theorem C14_cache_key_injective (h1 h2 s1 s2 : Str) (v1 : headerOK h1 = true) (v2 : headerOK h2 = true)
    (h : cacheKey h1 s1 = cacheKey h2 s2) : h1 = h2 ∧ s1 = s2 :=
  sep_inj cacheSep (headerOK_nosep h1 v1) (headerOK_nosep h2 v2) h

example : cacheKey [] ("secret:SELECT 1".toList) ≠ cacheKey "secret".toList "SELECT 1".toList := by decide

/-- in all four simple-table rewrite handlers and both extractor loops the skip-prefix test
(`shouldSkipTableConversion`) runs on the RESOLVED name, after the quoted-identifier placeholder was
resolved (regenerated call order + argument). This is what `rewriteKeeps` / `extractSkips` model; testing the
raw `__IDENT_n__` token on one side only makes the rewriter splice `"pg_x"` that the extractor skipped. -/
theorem C14_skip_prefix_on_resolved_name :
    Arc.Generated.C14.skipTestOnResolvedName = [true, true, true, true, true, true] := by
  decide

/-- user text shaped like the FROM-mask placeholder next to an EXTRACT call: the validator (which never
runs `MaskFromKeywordsInFunctionBodies`) sees an alias and an inert literal; the transform's
`UnmaskFromKeywordsInFunctionBodies` (strings.NewReplacer over EVERY occurrence, not modelled) then turns the
user's `__FROM_MASK_0__` into `FROM` in front of the string: a replacement scan -/
theorem C14_from_mask_lookalike_witness :
    let s := "SELECT EXTRACT(year FROM DATE '2024-01-01') AS y, canary __FROM_MASK_0__ '/r/secret/cpu/f.parquet'".toList
    inK s [] = false ∧ validate s = .ok ∧ hasPlaceholderLookalike (s.length + 1) s = true ∧ shortCircuit strWorld s = false := by
  decide +kernel

/-! ## composition -/

/-- **C14_partial** (the property on the decidable lexical class `inK`, compositional).
`ts` = DuckDB's token list of the user's text; `named` = the (database, measurement) directories named
by read_parquet calls in the EXECUTED text; `filesRead` = directories of the stored files DuckDB reads.
 * `hD` — DuckDB read-set ASSUMPTION: a single accepted statement (no file-reading table function, no
          string in table position) reads only files named by read_parquet calls in its text;
 * `hA` — lexical agreement ASSUMPTION on K (C15's subject): a read_parquet call in the executed text was
          spliced by the rewrite or is a call in the user's own token list;
 * `hC` — the conclusion of (C) (`C14_rewrite_subset_checked[_hdr]`, whose side conditions hold on K).
Then every file read lies in a checked (database, measurement) directory (up to `Covered`). -/
theorem C14_partial (W : World) (s hdr : Str) (ts : List Tok) (named filesRead : List Ref)
    (hK : inK s hdr = true) (hacc : acceptedTok ts = true)
    (hD : acceptedTok ts = true → ∀ f ∈ filesRead, f ∈ named)
    (hA : inK s hdr = true → ∀ f ∈ named, f ∈ refsRewritten W s hdr ∨ hasDeniedCall ts = true)
    (hC : ∀ r ∈ refsRewritten W s hdr, Covered W (refsChecked W s hdr) r) :
    ∀ f ∈ filesRead, Covered W (refsChecked W s hdr) f := by
  intro f hf
  have hden := (C14_validated ts hacc).2.1
  rcases hA hK f (hD hacc f hf) with h | h
  · exact hC f h
  · rw [hden] at h; cases h

example : ∃ s : Str, inK s [] = true ∧ acceptedTok [.word "select".toList, .word "from".toList, .word "cpu".toList] = true :=
  ⟨"select 1 from cpu".toList, by decide +kernel, by decide⟩

end Arc.C14
