import Arc.Model.C14
import Arc.Model.C14.Str
/-!
# C14 — A query can only read data the caller is authorized to read

Property (fixed text, properties.jsonl): for any SQL text accepted by the query / estimate /
measurement-listing / SHOW endpoints, every stored file the executed statement reads belongs to a
(database, measurement) whose read permission was checked for the caller (after applying the database
header); no accepted statement reads another database's files through table functions, replacement
scans, quoting, backslashes, dollar quotes, comments or placeholder-like text.

STATUS after the round-2 repairs (/repo 02701ef … 64dff5c + 12df811): the 20 bypass classes the search harness
had confirmed on the real handlers + the real sandboxed DuckDB are repaired; their monitors stay armed and are
silent. This file states the property compositionally:

    theorem C14_full (s hdr) : accepted s hdr → filesRead (execute s hdr) ⊆ dirs (refsChecked s hdr)

is `C14_partial` below, whose hypotheses are exactly the parts that are NOT arc code:
(D) DuckDB's read set, (A) agreement of the validator's lexing with DuckDB's on the class `inK`, and the
regex-semantic side conditions of (C). Everything that IS arc code is proved or regenerated:

(B) `C14_validated`, `C14_denylist_complete` — over DuckDB's token list (denylist regenerated).
(C) `C14_rewrite_subset_checked` (+ `_hdr`) — for an ABSTRACT regex matcher, normaliser, splice and case folding
    every (database, measurement) the rewrite turns into a read_parquet path IS one of the permission-checked
    pairs (or the inert sentinel). Since 02701ef (case-exact `seen` key) this is plain membership.
(R) `C14_repairs_in_place` — the structural facts of every repair, regenerated from the source on each run;
    the historical witnesses are kept as theorems about the OLD parameter value (`…P true` / `cacheKeyPreFix`)
    or as `_fixed` theorems evaluating the byte-level transcription of the CURRENT masker / validator.
-/
namespace Arc.C14

/-! ## helper lemmas (not property theorems) -/

theorem key_inj {a b c d : Str} (ha : dot ∉ a) (hb : dot ∉ b) (h : a ++ dot :: b = c ++ dot :: d) :
    a = c ∧ b = d := by
  induction a generalizing c with
  | nil =>
    cases c with
    | nil => simp at h; exact ⟨rfl, h⟩
    | cons x c' =>
      simp at h
      obtain ⟨hx, hb'⟩ := h
      exact absurd (by rw [hb']; simp) hb
  | cons y a' ih =>
    cases c with
    | nil =>
      simp at h
      exact absurd (by rw [h.1]; simp) ha
    | cons x c' =>
      simp at h
      obtain ⟨hyx, ht⟩ := h
      have := ih (by intro hm; exact ha (List.mem_cons_of_mem _ hm)) ht
      exact ⟨by rw [hyx, this.1], this.2⟩

theorem dedup_complete (cs : List Cand) (seen : List Str) (c : Cand) (hc : c ∈ cs) :
    c.key ∈ seen ∨ ∃ k ∈ cs, k.key = c.key ∧ k.ref ∈ dedup cs seen := by
  induction cs generalizing seen with
  | nil => cases hc
  | cons x xs ih =>
    unfold dedup
    by_cases hx : seen.contains x.key = true
    · simp only [hx, if_true]
      rcases List.mem_cons.mp hc with rfl | hm
      · left; exact List.contains_iff_mem.mp hx
      · rcases ih seen hm with h | ⟨k, hk, hkk, hkr⟩
        · left; exact h
        · right; exact ⟨k, List.mem_cons_of_mem _ hk, hkk, hkr⟩
    · simp only [hx]
      rcases List.mem_cons.mp hc with rfl | hm
      · right; exact ⟨c, List.mem_cons_self, rfl, List.mem_cons_self⟩
      · rcases ih (x.key :: seen) hm with h | ⟨k, hk, hkk, hkr⟩
        · rcases List.mem_cons.mp h with h1 | h2
          · right; exact ⟨x, List.mem_cons_self, h1.symm, List.mem_cons_self⟩
          · left; exact h2
        · right; exact ⟨k, List.mem_cons_of_mem _ hk, hkk, List.mem_cons_of_mem _ hkr⟩

/-- every surviving key class has a representative among the extracted references -/
theorem extracted_of_cand (W : World) (n : Norm) (c : Cand) (hc : c ∈ candidates W n) :
    ∃ k ∈ candidates W n, k.key = c.key ∧ k.ref ∈ refsExtracted W n := by
  rcases dedup_complete (candidates W n) [] c hc with h | h
  · cases h
  · exact h

/-- the `seen` key of bare references is case-exact (regenerated fact; breaks if the source regresses) -/
theorem seenKey_exact : Arc.Generated.C14.seenKeyFoldsCase = false := rfl

/-- the shape of a candidate: its key is `db.m` of its own reference -/
theorem cand_shape (W : World) (n : Norm) (k : Cand) (hk : k ∈ candidates W n) :
    k.key = k.ref.db ++ dot :: k.ref.m := by
  unfold candidates at hk
  simp only [List.mem_append, List.mem_map, List.mem_filter] at hk
  rcases hk with ((⟨m, _, rfl⟩ | ⟨m, _, rfl⟩) | ⟨m, _, rfl⟩) | ⟨m, _, rfl⟩
  · rfl
  · rfl
  · simp [simpleCand, simpleCandP, seenKey_exact]
  · simp [simpleCand, simpleCandP, seenKey_exact]

theorem validName_nodot (o : Str) (h : validName o = true) : dot ∉ o := by
  cases o with
  | nil => simp [validName] at h
  | cons c cs =>
    simp only [validName, Bool.and_eq_true] at h
    obtain ⟨⟨h1, h2⟩, _⟩ := h
    intro hm
    rcases List.mem_cons.mp hm with h0 | h0
    · rw [← h0] at h1; revert h1; decide
    · have := List.all_eq_true.mp h2 dot h0
      revert this; decide

theorem defaultDB_nodot : dot ∉ defaultDB := by decide

/-- a resolved name is the sentinel, or the raw resolution and free of dots -/
theorem resolveV_cases (I : Idents) (g : Str) (hg : dot ∉ g) :
    resolveV I g = sentinel ∨ (resolveV I g = resolveRaw I g ∧ dot ∉ resolveV I g) := by
  unfold resolveV resolveRaw
  cases hI : I.lookup g with
  | none => right; exact ⟨rfl, hg⟩
  | some o =>
    by_cases hv : validName o = true
    · right; simp only [hv, if_true]; exact ⟨trivial, validName_nodot o hv⟩
    · left; simp [hv]

/-- the regex capture classes (`[a-zA-Z0-9_]+`, `[a-zA-Z_][a-zA-Z0-9_]*`, `\w+`) contain no '.' -/
def CapNoDot (W : World) : Prop := ∀ p t m, m ∈ W.findAll p t → dot ∉ m.g1 ∧ dot ∉ m.g2

/-- a candidate whose key is `a.b` with dot-free a, b yields exactly the extracted reference ⟨a, b⟩ -/
theorem covered_of_cand (W : World) (n : Norm) (c : Cand) (hc : c ∈ candidates W n) (a b : Str)
    (hkey : c.key = a ++ dot :: b) (da : dot ∉ a) (db : dot ∉ b) : (⟨a, b⟩ : Ref) ∈ refsExtracted W n := by
  obtain ⟨k, hk, hkk, hkr⟩ := extracted_of_cand W n c hc
  have hs := cand_shape W n k hk
  rw [hkk, hkey] at hs
  obtain ⟨e1, e2⟩ := key_inj da db hs
  have : k.ref = ⟨a, b⟩ := by cases hr : k.ref with | mk d m => simp [hr] at e1 e2; simp [e1, e2]
  rw [← this]; exact hkr

/-- a reference matched by a dotted pattern on the permission-side text is extracted -/
theorem dotted_covered (W : World) (n : Norm) (m : Match)
    (hm : m ∈ W.findAll .dbTable n.text ∨ m ∈ W.findAll .joinDbTable n.text)
    (h1 : resolveV n.idents m.g1 = resolveRaw n.idents m.g1) (d1 : dot ∉ resolveV n.idents m.g1)
    (h2 : resolveV n.idents m.g2 = resolveRaw n.idents m.g2) (d2 : dot ∉ resolveV n.idents m.g2) :
    (⟨resolveV n.idents m.g1, resolveV n.idents m.g2⟩ : Ref) ∈ refsExtracted W n := by
  have hc : dottedCand n.idents m ∈ candidates W n := by
    unfold candidates
    simp only [List.mem_append, List.mem_map]
    rcases hm with h | h
    · left; left; left; exact ⟨m, h, rfl⟩
    · left; left; right; exact ⟨m, h, rfl⟩
  exact covered_of_cand W n _ hc _ _ (by rw [h1, h2]; rfl) d1 d2

/-- a reference matched by a simple pattern on the permission-side text and not skipped there is extracted -/
theorem simple_covered (W : World) (n : Norm) (m : Match)
    (hm : m ∈ W.findAll .simple n.text ∨ m ∈ W.findAll .joinSimple n.text)
    (hns : extractSkips W (cteNames W n.text) n.idents m = false)
    (h1 : resolveV n.idents m.g1 = resolveRaw n.idents m.g1) (d1 : dot ∉ resolveV n.idents m.g1) :
    (⟨defaultDB, resolveV n.idents m.g1⟩ : Ref) ∈ refsExtracted W n := by
  have hc : simpleCand W n.idents m ∈ candidates W n := by
    unfold candidates
    simp only [List.mem_append, List.mem_map, List.mem_filter]
    rcases hm with h | h
    · left; right; exact ⟨m, ⟨h, by simp [hns]⟩, rfl⟩
    · right; exact ⟨m, ⟨h, by simp [hns]⟩, rfl⟩
  exact covered_of_cand W n _ hc _ _ (by simp [simpleCand, simpleCandP, seenKey_exact, h1]) defaultDB_nodot d1

theorem dotAt_imp (rest : Str) (h : dotAt rest = true) : dotOrCallAtR rest = true := by
  cases rest with
  | nil => simp [dotAt, headIs] at h
  | cons c cs =>
    have hc : c = dot := by simpa [dotAt, headIs] using h
    subst hc
    have hb : rewriteBlanks.contains dot = false := by decide
    simp only [dotOrCallAtR, dotOrCallAtRP, List.dropWhile_cons, hb, Bool.false_eq_true, if_false, headIs, List.head?_cons]
    simp

theorem contains_withUnquoted (W : World) (I : Idents) (ctes : List Str) (x : Str)
    (h : ctes.contains x = true) : (withUnquoted W I ctes).contains x = true := by
  rw [List.contains_iff_mem] at h ⊢
  exact List.mem_append_left _ h

/-- the two look-aheads agree since 00bd721 (regenerated trim sets are the same set of four blanks) -/
theorem blanks_agree (c : Char) : extractBlanks.contains c = rewriteBlanks.contains c := by
  have h1 : extractBlanks = [' ', '\t', '\n', '\r'] := by decide
  have h2 : rewriteBlanks = [' ', '\t', '\r', '\n'] := by decide
  rw [h1, h2]
  simp only [List.contains_cons, List.contains_nil, Bool.or_false]
  cases (c == ' ') <;> cases (c == '\t') <;> cases (c == '\n') <;> cases (c == '\r') <;> rfl

theorem callAt_imp (rest : Str) (h : callAtX rest = true) : dotOrCallAtR rest = true := by
  unfold callAtX at h
  unfold dotOrCallAtR dotOrCallAtRP
  have : (fun c => extractBlanks.contains c) = (fun c => rewriteBlanks.contains c) := funext blanks_agree
  rw [this] at h
  show (headIs dot _ || headIs '(' _) = true
  rw [h, Bool.or_true]

/-- what the rewrite keeps, the permission side does not skip — provided the look-aheads agree; the rewrite
side may know MORE CTE names (unquoted forms of quoted CTE names) than the permission side -/
theorem keeps_not_skipped (W : World) (ctesE ctesR : List Str) (I : Idents) (m m0 : Match)
    (hsub : ∀ x, ctesE.contains x = true → ctesR.contains x = true)
    (hg : m0.g1 = m.g1) (hres : resolveV I m.g1 = resolveRaw I m.g1)
    (hlook : callAtX m0.rest = true → dotOrCallAtR m.rest = true)
    (hdot : dotAt m0.rest = true → dotOrCallAtR m.rest = true)
    (hk : rewriteKeeps W ctesR I m = true) : extractSkips W ctesE I m0 = false := by
  simp only [rewriteKeeps, Bool.and_eq_true, Bool.not_eq_true'] at hk
  obtain ⟨⟨⟨k1, k2⟩, k3⟩, k4⟩ := hk
  have n1 : ctesE.contains (W.lower m.g1) = false := by
    cases h : ctesE.contains (W.lower m.g1) with
    | false => rfl
    | true => rw [hsub _ h] at k1; cases k1
  have n2 : ctesE.contains (W.lower (resolveV I m.g1)) = false := by
    cases h : ctesE.contains (W.lower (resolveV I m.g1)) with
    | false => rfl
    | true => rw [hsub _ h] at k2; cases k2
  simp only [extractSkips, hg, ← hres, Bool.or_eq_false_iff]
  refine ⟨⟨⟨⟨k3, n2⟩, n1⟩, ?_⟩, ?_⟩
  · cases hd : dotAt m0.rest with
    | false => rfl
    | true => rw [hdot hd] at k4; cases k4
  · cases hd : callAtX m0.rest with
    | false => rfl
    | true => rw [hlook hd] at k4; cases k4

/-- side conditions of the no-header path the abstract argument needs (every later pass finds only
references the same pattern finds in the original normalised text, with an agreeing look-ahead) -/
structure StableNoHdr (W : World) (n : Norm) : Prop where
  joinDb : ∀ m ∈ W.findAll .joinDbTable (textsNoHdr W n).t1,
    ∃ m0 ∈ W.findAll .joinDbTable n.text, m0.g1 = m.g1 ∧ m0.g2 = m.g2
  simple : ∀ m ∈ W.findAll .simple (textsNoHdr W n).t2,
    ∃ m0 ∈ W.findAll .simple n.text, m0.g1 = m.g1 ∧
      (callAtX m0.rest = true → dotOrCallAtR m.rest = true) ∧ (dotAt m0.rest = true → dotOrCallAtR m.rest = true)
  joinSimple : ∀ m ∈ W.findAll .joinSimple (textsNoHdr W n).t3,
    ∃ m0 ∈ W.findAll .joinSimple n.text, m0.g1 = m.g1 ∧
      (callAtX m0.rest = true → dotOrCallAtR m.rest = true) ∧ (dotAt m0.rest = true → dotOrCallAtR m.rest = true)

/-- the header path no longer gates CTE-name extraction (regenerated fact, 04fa395) -/
theorem cteNamesHdr_eq (W : World) (t : Str) : cteNamesHdr W t = cteNames W t := by
  simp [cteNamesHdr, cteNamesHdrP, show Arc.Generated.C14.headerCteGated = false from rfl]

/-- side conditions of the header (slow) path -/
structure StableHdr (W : World) (n : Norm) : Prop where
  joinSimple : ∀ m ∈ W.findAll .joinSimple (textsHdr W n).t3,
    ∃ m0 ∈ W.findAll .joinSimple n.text, m0.g1 = m.g1 ∧
      (callAtX m0.rest = true → dotOrCallAtR m.rest = true) ∧ (dotAt m0.rest = true → dotOrCallAtR m.rest = true)

/-- "r is covered by the checked set": r IS one of the checked pairs — or names the inert sentinel directory -/
def Covered (checked : List Ref) (r : Ref) : Prop :=
  r.db = sentinel ∨ r.m = sentinel ∨ r ∈ checked

theorem rewNoHdr_covered (W : World) (hcap : CapNoDot W) (n : Norm) (hst : StableNoHdr W n) :
    ∀ r ∈ rewNoHdr W n, Covered (refsExtracted W n) r := by
  intro r hr
  unfold rewNoHdr at hr
  simp only [List.mem_append, List.mem_map, List.mem_filter] at hr
  have dotted : ∀ m0 : Match, (m0 ∈ W.findAll .dbTable n.text ∨ m0 ∈ W.findAll .joinDbTable n.text) →
      Covered (refsExtracted W n) (dottedRef n.idents m0) := by
    intro m0 hm0
    have hc := hm0.elim (hcap _ _ _) (hcap _ _ _)
    rcases resolveV_cases n.idents m0.g1 hc.1 with s1 | ⟨e1, d1⟩
    · left; exact s1
    rcases resolveV_cases n.idents m0.g2 hc.2 with s2 | ⟨e2, d2⟩
    · right; left; exact s2
    right; right
    exact dotted_covered W n m0 hm0 e1 d1 e2 d2
  have simple : ∀ m m0 : Match, (m0 ∈ W.findAll .simple n.text ∨ m0 ∈ W.findAll .joinSimple n.text) →
      m0.g1 = m.g1 → (callAtX m0.rest = true → dotOrCallAtR m.rest = true) →
      (dotAt m0.rest = true → dotOrCallAtR m.rest = true) →
      rewriteKeeps W (withUnquoted W n.idents (cteNames W n.text)) n.idents m = true →
      Covered (refsExtracted W n) ⟨defaultDB, resolveV n.idents m.g1⟩ := by
    intro m m0 hm0 hg hl hd hk
    have hc := hm0.elim (hcap _ _ _) (hcap _ _ _)
    rw [hg] at hc
    rcases resolveV_cases n.idents m.g1 hc.1 with s1 | ⟨e1, d1⟩
    · right; left; exact s1
    right; right
    have hns := keeps_not_skipped W (cteNames W n.text) _ n.idents m m0 (contains_withUnquoted W _ _) hg e1 hl hd hk
    have := simple_covered W n m0 hm0 hns (by rw [hg]; exact e1) (by rw [hg]; exact d1)
    rw [hg] at this; exact this
  rcases hr with ((⟨m, hm, rfl⟩ | ⟨m, hm, rfl⟩) | ⟨m, ⟨hm, hk⟩, rfl⟩) | ⟨m, ⟨hm, hk⟩, rfl⟩
  · exact dotted m (Or.inl hm)
  · obtain ⟨m0, hm0, g1, g2⟩ := hst.joinDb m hm
    have := dotted m0 (Or.inr hm0)
    simpa [dottedRef, g1, g2] using this
  · obtain ⟨m0, hm0, g1, hl, hd⟩ := hst.simple m hm
    exact simple m m0 (Or.inl hm0) g1 hl hd hk
  · obtain ⟨m0, hm0, g1, hl, hd⟩ := hst.joinSimple m hm
    exact simple m m0 (Or.inr hm0) g1 hl hd hk

theorem applyHeader_mem (hdr : Str) (hh : hdr ≠ []) (rs : List Ref) (k : Ref) (hk : k ∈ rs) (hd : k.db = defaultDB) :
    (⟨hdr, k.m⟩ : Ref) ∈ applyHeader hdr rs := by
  unfold applyHeader
  simp only [hh, if_false, List.mem_map]
  exact ⟨k, hk, by simp [hd]⟩

theorem rewHdrSlow_covered (W : World) (hcap : CapNoDot W) (n : Norm) (hdr : Str) (hh : hdr ≠ [])
    (hst : StableHdr W n) : ∀ r ∈ rewHdrSlow W n hdr, Covered (applyHeader hdr (refsExtracted W n)) r := by
  intro r hr
  unfold rewHdrSlow at hr
  simp only [List.mem_append, List.mem_map, List.mem_filter, cteNamesHdr_eq] at hr
  have simple : ∀ m m0 : Match, (m0 ∈ W.findAll .simple n.text ∨ m0 ∈ W.findAll .joinSimple n.text) →
      m0.g1 = m.g1 → (callAtX m0.rest = true → dotOrCallAtR m.rest = true) →
      (dotAt m0.rest = true → dotOrCallAtR m.rest = true) →
      rewriteKeeps W (withUnquoted W n.idents (cteNames W n.text)) n.idents m = true →
      Covered (applyHeader hdr (refsExtracted W n)) ⟨hdr, resolveV n.idents m.g1⟩ := by
    intro m m0 hm0 hg hl hd hk
    have hc := hm0.elim (hcap _ _ _) (hcap _ _ _)
    rw [hg] at hc
    rcases resolveV_cases n.idents m.g1 hc.1 with s1 | ⟨e1, d1⟩
    · right; left; exact s1
    right; right
    have hns := keeps_not_skipped W (cteNames W n.text) _ n.idents m m0 (contains_withUnquoted W _ _) hg e1 hl hd hk
    have := simple_covered W n m0 hm0 hns (by rw [hg]; exact e1) (by rw [hg]; exact d1)
    rw [hg] at this
    exact applyHeader_mem hdr hh _ _ this rfl
  rcases hr with ⟨m, ⟨hm, hk⟩, rfl⟩ | ⟨m, ⟨hm, hk⟩, rfl⟩
  · have hm' : m ∈ W.findAll .simple n.text := hm
    exact simple m m (Or.inl hm') rfl (callAt_imp _) (fun h => dotAt_imp _ h) hk
  · obtain ⟨m0, hm0, g1, hl, hd⟩ := hst.joinSimple m hm
    exact simple m m0 (Or.inr hm0) g1 hl hd hk

/-! ## (C) extraction must match execution -/

/-- **(C), no database header.** For every regex semantics (`findAll`), normaliser, splice and case folding:
every pair the rewrite turns into a read_parquet path IS a permission-checked pair (or the inert sentinel),
provided (1) the pre-passes leave the statement alone, (2) captures contain no '.', (3) a later pass only finds
references the same pattern finds in the original normalised text and the two look-aheads agree on them
(`StableNoHdr`). The `read_parquet` short-circuit makes the left side empty. -/
theorem C14_rewrite_subset_checked (W : World) (hcap : CapNoDot W) (s : Str)
    (hpre : W.prepass s = s) (hst : StableNoHdr W (W.normP s)) :
    ∀ r ∈ refsRewritten W s [], Covered (refsChecked W s []) r := by
  intro r hr
  unfold refsRewritten at hr
  by_cases hsc : shortCircuit W s = true
  · simp [hsc] at hr
  · simp only [hsc, Bool.false_eq_true, if_false, if_true, hpre] at hr
    have := rewNoHdr_covered W hcap (W.normP s) hst r hr
    simpa [refsChecked, applyHeader] using this

/-- the single-table fast path agrees with the permission side: the table it splices is a checked pair.
(53c9b19 makes the fast path conditional on the extractor's own regex seeing exactly that reference; this is the
abstract form of that guard, validated on the real code by the monitors and by `C14_fastpath_fixed`.) -/
def FastAgrees (W : World) (s hdr : Str) : Prop :=
  fastPathTaken W s = true → ∀ t, fastTable W s = some t → (⟨hdr, t⟩ : Ref) ∈ refsChecked W s hdr

/-- **(C), with database header** — both the slow path and the single-table fast path. The `with ` gate is gone
(`cteNamesHdr_eq`), so no gate condition is needed any more. -/
theorem C14_rewrite_subset_checked_hdr (W : World) (hcap : CapNoDot W) (s hdr : Str)
    (hh : hdr ≠ []) (hpre : W.prepass s = s) (hfast : FastAgrees W s hdr)
    (hst : StableHdr W (W.normP s)) :
    ∀ r ∈ refsRewritten W s hdr, Covered (refsChecked W s hdr) r := by
  intro r hr
  unfold refsRewritten at hr
  by_cases hsc : shortCircuit W s = true
  · simp [hsc] at hr
  · simp only [hsc, Bool.false_eq_true, if_false, hh, rewHdr] at hr
    by_cases hf : fastPathTaken W s = true
    · simp only [hf, if_true] at hr
      cases ht : fastTable W s with
      | none => simp [ht] at hr
      | some t =>
        simp only [ht, List.mem_singleton] at hr
        right; right; rw [hr]; exact hfast hf t ht
    · simp only [hf, Bool.false_eq_true, if_false, hpre] at hr
      exact rewHdrSlow_covered W hcap (W.normP s) hdr hh hst r hr

/-- the short-circuit itself: text that mentions `read_parquet` is never rewritten -/
theorem C14_short_circuit (W : World) (s hdr : Str) (h : containsSub shortCircuitLit (W.lower s) = true)
    (hc : W.rpCall s = true) : refsRewritten W s hdr = [] := by
  simp [refsRewritten, shortCircuit, h, hc]

def wOf (fa : Pat → Str → List Match) : World :=
  { findAll := fa, splice := fun _ t _ => t, normP := fun t => ⟨t, []⟩, prepass := id, lower := lowerAscii,
    simpleStarts := fun _ => [], rpCall := fun _ => true }

example : ∃ (W : World) (s : Str), refsRewritten W s [] ≠ [] ∧ W.prepass s = s :=
  ⟨wOf (fun p _ => if p = .simple then [⟨"cpu".toList, [], []⟩] else []), "from cpu".toList, by decide, rfl⟩

/-! ### the one remaining place where the two sides differ (near-miss), and the repaired ones as history -/

/-- HISTORY (fixed by 00bd721): `isFunctionCallAt` skipped line breaks, `isDotOrCallAt` trimmed only blanks and
tabs (`dotOrCallAtRP " \t"`): `FROM cpu<LF>(x)` was a function call for the permission side and a table for the
rewrite (a near-miss only: DuckDB's parser rejected every such text). With the regenerated trim set both agree
on every text (`callAt_imp`), so the look-ahead needs no side condition on the same text any more. -/
theorem C14_lookahead_agree :
    callAtX "\n(x)".toList = true ∧ dotOrCallAtRP " \t".toList "\n(x)".toList = false ∧
    dotOrCallAtR "\n(x)".toList = true ∧
    (∀ rest, callAtX rest = true → dotOrCallAtR rest = true) :=
  ⟨by decide, by decide, by decide, callAt_imp⟩

/-- HISTORY (fixed by 04fa395 + 53c9b19): with the OLD gate (`cteNamesHdrP true`) the header path did not look
for CTE names unless the text contained `with `; now both sides exclude the same names. -/
theorem C14_header_cte_gate_fixed :
    Arc.Generated.C14.headerCteGated = false ∧
    let s := "WITH\ncpu AS (SELECT 1 AS one) SELECT canary FROM cpu".toList
    let w := "SELECT canary, sum(v) OVER cpu FROM cpu WINDOW w AS (ORDER BY v), cpu AS (ORDER BY v)".toList
    cteNamesHdrP true strWorld (strNorm s).text = [] ∧ cteNamesHdr strWorld (strNorm s).text = ["cpu".toList] ∧
    cteNamesHdrP true strWorld (strNorm w).text = [] ∧ cteNamesHdr strWorld (strNorm w).text = ["cpu".toList] ∧
    refsRewritten strWorld s "secret".toList = [] ∧ refsRewritten strWorld w "secret".toList = [] := by
  decide +kernel

/-- HISTORY (fixed by 53c9b19): the UNGUARDED fast path (`fastPathTakenP false`) spliced after the substring
`from ` of `1from cpu`; the guarded one is not taken and the slow path finds nothing to rewrite. A plain
statement still takes the fast path and its table is the checked pair. -/
theorem C14_fastpath_fixed :
    Arc.Generated.C14.fastPathGuarded = true ∧
    let s := "SELECT canary,1from cpu".toList
    fastPathTakenP false strWorld s = true ∧ fastPathTaken strWorld s = false ∧
    refsRewritten strWorld s "secret".toList = [] ∧
    let q := "SELECT canary FROM cpu".toList
    fastPathTaken strWorld q = true ∧ refsRewritten strWorld q "secret".toList = [⟨"secret".toList, "cpu".toList⟩] ∧
    refsChecked strWorld q "secret".toList = [⟨"secret".toList, "cpu".toList⟩] := by
  decide +kernel

/-- HISTORY (fixed by 02701ef): with the OLD folding key (`simpleCandP true`) `CPU` and `cpu` shared one `seen`
key and only the first was checked; now both are. -/
theorem C14_casefold_fixed :
    Arc.Generated.C14.seenKeyFoldsCase = false ∧
    let s := "SELECT 1 FROM CPU a JOIN cpu b ON true".toList
    (simpleCandP true strWorld [] ⟨"CPU".toList, [], []⟩).key = (simpleCandP true strWorld [] ⟨"cpu".toList, [], []⟩).key ∧
    refsChecked strWorld s "allowed".toList = [⟨"allowed".toList, "CPU".toList⟩, ⟨"allowed".toList, "cpu".toList⟩] := by
  decide +kernel

/-! ## (B) what acceptance guarantees over DuckDB's token list -/

/-- **(B)** an accepted token list is a single statement without a denylisted file-reading function name
(bare or quoted) followed by `(`, and without a string literal / non-name quoted identifier in table
position. -/
theorem C14_validated (ts : List Tok) (h : acceptedTok ts = true) :
    singleStatement ts = true ∧ hasDeniedCall ts = false ∧ badInTablePos {} ts = false := by
  simp only [acceptedTok, Bool.and_eq_true, Bool.not_eq_true'] at h
  exact ⟨h.1.1, h.1.2, h.2⟩

example : acceptedTok [.word "select".toList, .word "canary".toList, .word "from".toList, .word "cpu".toList, .semi] = true := by
  decide

/-- a denied name directly followed by `(` anywhere in the token list is seen by `hasDeniedCall` -/
theorem hasDeniedCall_of_call (pre post : List Tok) (w : Str) (hw : denylist.contains (lowerAscii w) = true) :
    hasDeniedCall (pre ++ .word w :: .lparen :: post) = true ∧
    hasDeniedCall (pre ++ .qident w :: .lparen :: post) = true := by
  induction pre with
  | nil => simp [hasDeniedCall, List.contains_iff_mem.mp hw]
  | cons t pre ih =>
    constructor
    · cases t <;> cases pre <;> simp_all [hasDeniedCall]
      all_goals (rename_i t2 r; cases t2 <;> simp_all [hasDeniedCall])
    · cases t <;> cases pre <;> simp_all [hasDeniedCall]
      all_goals (rename_i t2 r; cases t2 <;> simp_all [hasDeniedCall])

/-- every denylisted name of the CURRENT source (regenerated list), in any letter case, bare or quoted,
in any position, is rejected when followed by `(` -/
theorem C14_denylist_complete (pre post : List Tok) (w : Str) (hw : lowerAscii w ∈ denylist) :
    acceptedTok (pre ++ .word w :: .lparen :: post) = false ∧
    acceptedTok (pre ++ .qident w :: .lparen :: post) = false := by
  have h := hasDeniedCall_of_call pre post w (List.contains_iff_mem.mpr hw)
  simp [acceptedTok, h.1, h.2]

/-- the regenerated denylist contains the reader the rewrite itself emits, its documented alias, the functions
added by d9537de, and the frame of the regex is the one the token-level reading assumes (any run of RE2 blanks
or non-ASCII bytes between the name and the parenthesis, c63798f) -/
theorem C14_denylist_tied :
    "read_parquet".toList ∈ denylist ∧ "parquet_scan".toList ∈ denylist ∧ "glob".toList ∈ denylist ∧
    "query".toList ∈ denylist ∧ "query_table".toList ∈ denylist ∧ "parquet_full_metadata".toList ∈ denylist ∧
    Arc.Generated.C14.denylistPrefix = "(?i)\\b(" ∧ Arc.Generated.C14.denylistSep = "|" ∧
    Arc.Generated.C14.denylistSuffix = ")(?:\\s|[^\\x00-\\x7F])*\\(" := by
  decide

/-- strings / non-name quoted identifiers directly after FROM, JOIN or a cross-join comma are rejected -/
theorem C14_table_position_examples :
    acceptedTok [.word "select".toList, .other '*', .word "from".toList, .str "/r/secret/cpu/*.parquet".toList] = false ∧
    acceptedTok [.word "select".toList, .other '*', .word "from".toList, .word "cpu".toList, .comma, .str "/p".toList] = false ∧
    acceptedTok [.word "select".toList, .other '*', .word "from".toList, .lparen, .word "select".toList, .word "v".toList,
                 .word "from".toList, .word "cpu".toList, .rparen, .word "a".toList, .comma, .qident "db2/**/*.parquet".toList] = false ∧
    acceptedTok [.word "select".toList, .str "x".toList, .word "from".toList, .qident "my-db".toList, .word "where".toList,
                 .word "a".toList, .comma, .str "v".toList] = true := by
  decide

/-! ## ties to the regenerated source facts -/

/-- the regex literals the hand-compiled matchers of `Arc/Model/C14/Str.lean` were written for -/
theorem C14_regex_tied :
    Arc.Generated.C14.patternDBTable = "(?i)\\bFROM\\s+([a-zA-Z0-9_]+)\\.([a-zA-Z0-9_]+)\\b" ∧
    Arc.Generated.C14.patternSimpleTable = "(?i)\\bFROM\\s+([a-zA-Z_][a-zA-Z0-9_]*)\\b" ∧
    Arc.Generated.C14.patternJoinDBTable = "(?i)\\b((?:(?:LEFT|RIGHT|FULL|INNER|OUTER|CROSS|NATURAL|SEMI|ANTI|ASOF|POSITIONAL)\\s+)*(?:LATERAL\\s+)?JOIN\\s+(?:LATERAL\\s+)?)([a-zA-Z0-9_]+)\\.([a-zA-Z0-9_]+)\\b" ∧
    Arc.Generated.C14.patternJoinSimpleTable = "(?i)\\b((?:(?:LEFT|RIGHT|FULL|INNER|OUTER|CROSS|NATURAL|SEMI|ANTI|ASOF|POSITIONAL)\\s+)*(?:LATERAL\\s+)?JOIN\\s+(?:LATERAL\\s+)?)([a-zA-Z_][a-zA-Z0-9_]*)\\b" ∧
    Arc.Generated.C14.patternCTENames = "(?i)\\bWITH\\s+(?:RECURSIVE\\s+)?(\\w+)(?:\\s*\\([^)]*\\))?\\s+AS\\s*\\(|,\\s*(\\w+)(?:\\s*\\([^)]*\\))?\\s+AS\\s*\\(" ∧
    Arc.Generated.C14.tablePosPlaceholder = "__(?:STR|IDENT)_\\d+__" ∧
    Arc.Generated.C14.tablePosTokenPattern = "__(?:STR|IDENT)_\\d+__|[A-Za-z_][A-Za-z0-9_]*|[(),]" ∧
    Arc.Generated.C14.validIdentifierPattern = "^[a-zA-Z_][a-zA-Z0-9_-]*$" :=
  ⟨rfl, rfl, rfl, rfl, rfl, rfl, rfl, rfl⟩

/-- order of the validation steps and of the gates at each endpoint (regenerated call order) -/
def before (a b : String) (l : List String) : Bool :=
  match l.idxOf? a, l.idxOf? b with
  | some i, some j => i < j
  | _, _ => false

theorem C14_step_order :
    Arc.Generated.C14.validateSteps = ["TrimSpace", "backticksToDoubleQuotes", "scanSQLFeatures", "MaskStringLiterals",
      "stripSQLComments", "TrimRight", "MatchString", "ioDenylistNormalise", "FindStringSubmatch",
      "stringLiteralInTablePosition", "invalidQuotedIdentifierInTablePosition"] ∧
    Arc.Generated.C14.permissionSteps = ["scanSQLFeatures", "MaskStringLiterals", "MaskFromKeywordsInFunctionBodies",
      "stripSQLComments", "extractTableReferences", "Get", "CheckPermissionsBatch"] ∧
    (∀ l ∈ [Arc.Generated.C14.steps_executeQuery, Arc.Generated.C14.steps_executeQueryArrow, Arc.Generated.C14.steps_estimateQuery],
      (before "ValidateSQLRequest" "checkQueryPermissions" l &&
       (before "checkQueryPermissions" "getTransformedSQL" l || before "checkQueryPermissions" "getTransformedSQLForParallel" l) &&
       before "normalizeSQLForShow" "checkQueryPermissions" l) = true) := by
  decide

/-- GET /api/v1/query/:measurement composes `SELECT * FROM db.m WHERE <where> …` from the caller's `where`
text; since fe9cde7 the composed statement goes through `checkQueryPermissions` before it is rewritten
(HISTORY: the call was missing, a subquery in `where` read any database). -/
theorem C14_measurement_endpoint_checked :
    before "checkQueryPermissions" "getTransformedSQL" Arc.Generated.C14.steps_queryMeasurement = true ∧
    before "ValidateSQLRequest" "checkQueryPermissions" Arc.Generated.C14.steps_queryMeasurement = true ∧
    before "checkMeasurementPermission" "getTransformedSQL" Arc.Generated.C14.steps_queryMeasurement = true := by
  decide

/-- **(R)** every round-2 repair is in place in the CURRENT source (regenerated structural facts): case-exact
`seen` key, guarded fast path, comment-skipping masker, single-pass unmask, fresh FROM-mask prefix, non-ASCII
dollar tags, mask-first denylist normalisation, ungated CTE names in the header path, no backslash escape in
plain literals, skip-prefix test on the resolved name, one-byte-separated cache key. -/
theorem C14_repairs_in_place :
    Arc.Generated.C14.seenKeyFoldsCase = false ∧ Arc.Generated.C14.fastPathGuarded = true ∧
    Arc.Generated.C14.maskerSkipsComments = true ∧ Arc.Generated.C14.unmaskSinglePass = true ∧
    Arc.Generated.C14.fromMaskPrefixFresh = true ∧ Arc.Generated.C14.dollarTagNonAscii = true ∧
    Arc.Generated.C14.denylistMasksFirst = true ∧ Arc.Generated.C14.headerCteGated = false ∧
    Arc.Generated.C14.maskBackslashEscapes = false ∧
    Arc.Generated.C14.skipTestOnResolvedName = [true, true, true, true, true, true] ∧
    Arc.Generated.C14.cacheKeySepByte = 0 := by
  decide

/-! ## the former lexical bypasses, evaluated on the byte-level transcription of the CURRENT code

(The transcription is diffed against the real code on every generated statement; HISTORY: each of these strings
was accepted with an empty checked set before the repairs named in the doc comments.) -/

/-- 8f4fe38 (backslash is an escape only inside E'' strings) and 64dff5c (comments are skipped by the masker):
the denylisted call is now visible to the validator in all five spellings -/
theorem C14_lexical_bypasses_fixed :
    ["SELECT 'a\\', canary FROM read_parquet('/r/secret/cpu/x.parquet') --'",
     "SELECT E'a\\\\', canary FROM read_parquet('/r/secret/cpu/x.parquet') --'",
     "SELECT 1 -- '\n, canary FROM read_parquet('/r/secret/cpu/x.parquet') -- '",
     "SELECT 1 /* ' */, canary FROM read_parquet('/r/secret/cpu/x.parquet') /* ' */",
     "SELECT 1 AS \"/*\", canary FROM read_parquet('/r/secret/cpu/x.parquet') -- */",
     "SELECT 1 AS \"$$\", canary FROM \"READ_CSV_AUTO\"($$/r/secret/cpu/x.parquet$$) -- $$",
     "SELECT canary FROM read_parquet\u00a0('/r/secret/cpu/x.parquet')"].all
      (fun s => validate s.toList == .io && inK s.toList []) = true := by
  decide +kernel

/-- 942e7b2 / f486253: `'__STR_1__'` and `__FROM_MASK_0__` in user text are still ACCEPTED by the validator (they
are ordinary text); what changed is the unmask step, which is not part of this model: it is single-pass
(`unmaskSinglePass`) and uses a prefix that does not occur in the text (`fromMaskPrefixFresh`) — see
`C14_repairs_in_place`; the monitors `canary-read:placeholder-lookalike` / `:from-mask-lookalike` stay armed. -/
theorem C14_placeholder_text_is_plain_text :
    validate "SELECT '__STR_1__' , ' , * FROM parquet_scan($$/r/secret/cpu/x.parquet$$) --'".toList = .ok ∧
    (strNorm "SELECT '__STR_1__' , ' , * FROM parquet_scan($$/r/secret/cpu/x.parquet$$) --'".toList).text
      = "SELECT __STR_0__ , __STR_1__".toList := by
  decide +kernel

/-- and ordinary statements are in K, accepted, and their references are checked -/
example :
    let s := "SELECT canary FROM secret.cpu a JOIN mem b ON true".toList
    inK s [] = true ∧ validate s = .ok ∧
    refsChecked strWorld s [] = [⟨"secret".toList, "cpu".toList⟩, ⟨"default".toList, "mem".toList⟩] := by
  decide +kernel

/-- d9537de: `query('<sql>')`, `query_table` and `parquet_full_metadata` are denied (HISTORY: they were
missing; `query()` runs SQL handed over inside a string literal) -/
theorem C14_denylist_gap_closed :
    acceptedTok [.word "select".toList, .other '*', .word "from".toList, .word "query".toList, .lparen,
                 .str "SELECT canary FROM parquet_scan('/r/secret/cpu/x.parquet')".toList, .rparen] = false ∧
    acceptedTok [.word "select".toList, .other '*', .word "from".toList, .word "parquet_full_metadata".toList, .lparen,
                 .str "/r/secret/cpu/x.parquet".toList, .rparen] = false ∧
    validate "SELECT * FROM query('SELECT canary FROM parquet_scan(''/r/x.parquet'')')".toList = .io := by
  decide +kernel

/-- abf5a7e: every dollar-quote tag DuckDB accepts — ASCII letters, digits after the first byte, underscore AND
bytes ≥ 0x80 — is masked as one string, so a replacement scan in table position is rejected -/
theorem C14_dollar_tag_masked :
    ["", "t", "t1", "_9", "T0", "a2b", "a_1", "é", "a1é"].all (fun tg =>
      validate ("SELECT canary FROM $".toList ++ tg.toList ++ "$/r/secret/cpu/f.parquet$".toList ++ tg.toList ++ "$".toList)
        == .strtab) = true := by
  decide +kernel

/-- in all four simple-table rewrite handlers and both extractor loops the skip-prefix test
(`shouldSkipTableConversion`) runs on the RESOLVED name, after the quoted-identifier placeholder was
resolved (regenerated call order + argument). This is what `rewriteKeeps` / `extractSkips` model; testing the
raw `__IDENT_n__` token on one side only makes the rewriter splice `"pg_x"` that the extractor skipped. -/
theorem C14_skip_prefix_on_resolved_name :
    Arc.Generated.C14.skipTestOnResolvedName = [true, true, true, true, true, true] := by
  decide

/-- PRE-FIX definition (before /repo commit 12df811), kept only to state what was wrong: the key was
`sql` without a header and `headerDB + ":" + sql` with one -/
def cacheKeyPreFix (hdr sql : Str) : Str := if hdr = [] then sql else hdr ++ ':' :: sql

/-- historical witness (fixed): under the pre-fix key the header-less text "secret:<q>" addressed the entry
primed by (header secret, q), while the permission side extracts `default.cpu` from the text -/
theorem C14_cache_key_prefix_collision_witness :
    let q := "SELECT canary FROM cpu LIMIT 7".toList
    cacheKeyPreFix [] ("secret:".toList ++ q) = cacheKeyPreFix "secret".toList q ∧
    validate ("secret:".toList ++ q) = .ok ∧
    refsChecked strWorld ("secret:".toList ++ q) [] = [⟨"default".toList, "cpu".toList⟩] ∧
    refsChecked strWorld q "secret".toList = [⟨"secret".toList, "cpu".toList⟩] := by
  decide +kernel

/-- CURRENT key (regenerated shape: one unconditional assignment `headerDB + <sep byte> + sql`) -/
def cacheSep : Char := Char.ofNat Arc.Generated.C14.cacheKeySepByte
def cacheKey (hdr sql : Str) : Str := hdr ++ cacheSep :: sql

theorem sep_inj (c : Char) {a b x y : Str} (ha : c ∉ a) (hx : c ∉ x) (h : a ++ c :: b = x ++ c :: y) :
    a = x ∧ b = y := by
  induction a generalizing x with
  | nil =>
    cases x with
    | nil => simp at h; exact ⟨rfl, h⟩
    | cons z x' =>
      simp at h
      exact absurd (by rw [← h.1]; simp) hx
  | cons z a' ih =>
    cases x with
    | nil =>
      simp at h
      exact absurd (by rw [h.1]; simp) ha
    | cons w x' =>
      simp at h
      obtain ⟨hzw, ht⟩ := h
      have := ih (by intro hm; exact ha (List.mem_cons_of_mem _ hm)) (by intro hm; exact hx (List.mem_cons_of_mem _ hm)) ht
      exact ⟨by rw [hzw, this.1], this.2⟩

/-- a valid header (`validateHeaderDatabase`: empty or `validName`) never contains the separator byte -/
theorem headerOK_nosep (h : Str) (hh : headerOK h = true) : cacheSep ∉ h := by
  unfold headerOK at hh
  cases h with
  | nil => simp
  | cons c cs =>
    simp only [List.isEmpty_cons, Bool.false_or, validName, Bool.and_eq_true] at hh
    obtain ⟨⟨h1, h2⟩, _⟩ := hh
    intro hm
    rcases List.mem_cons.mp hm with h0 | h0
    · rw [← h0] at h1; revert h1; decide
    · have := List.all_eq_true.mp h2 cacheSep h0
      revert this; decide

/-- **the repaired cache key cannot collide**: two requests with validated headers share a transform-cache
entry only if they have the same header AND the same text (so the permission check of the request that is
served the entry was made on exactly that (header, text) pair) -/
theorem C14_cache_key_injective (h1 h2 s1 s2 : Str) (v1 : headerOK h1 = true) (v2 : headerOK h2 = true)
    (h : cacheKey h1 s1 = cacheKey h2 s2) : h1 = h2 ∧ s1 = s2 :=
  sep_inj cacheSep (headerOK_nosep h1 v1) (headerOK_nosep h2 v2) h

example : cacheKey [] ("secret:SELECT 1".toList) ≠ cacheKey "secret".toList "SELECT 1".toList := by decide

/-- dc0b275 (HISTORY: `TABLE '<path>'`, `SUMMARIZE '<path>'`, `PIVOT '<path>' ON …` … were accepted, yielded no
reference and - containing neither `from` nor `join` - ran untransformed as replacement scans): the statement
kinds that take a table reference without FROM (regenerated lists) arm table position wherever a statement can
start; a column called `show` or `ORDER BY v DESC, 'c'` is unaffected. Token level and byte level. -/
theorem C14_statement_kind_fixed :
    acceptedTok [.word "TABLE".toList, .str "/r/secret/cpu/f.parquet".toList] = false ∧
    acceptedTok [.word "SUMMARIZE".toList, .word "TABLE".toList, .str "/r/secret/cpu/f.parquet".toList] = false ∧
    acceptedTok [.word "with".toList, .word "w".toList, .word "as".toList, .lparen, .word "table".toList,
                 .qident "/r/secret/cpu/f.parquet".toList, .rparen, .word "select".toList, .other '*', .word "from".toList, .word "w".toList] = false ∧
    acceptedTok [.word "select".toList, .word "show".toList, .comma, .str "c".toList, .word "from".toList, .word "cpu".toList,
                 .word "order".toList, .word "by".toList, .word "v".toList, .word "desc".toList, .comma, .str "c".toList] = true ∧
    ["TABLE '/r/secret/cpu/f.parquet'", "SUMMARIZE '/r/secret/cpu/f.parquet'", "DESC '/r/secret/cpu/f.parquet'",
     "PIVOT '/r/secret/cpu/f.parquet' ON canary USING count(*)", "EXPLAIN ANALYZE TABLE '/r/secret/cpu/f.parquet'",
     "SELECT canary FROM (TABLE '/r/secret/cpu/f.parquet') t"].all (fun s => validate s.toList == .strtab) = true ∧
    validate "SELECT show, 'c' FROM cpu ORDER BY v DESC, 'c'".toList = .ok := by
  decide +kernel

/-! ## composition -/

/-- **C14_partial** (the property on the decidable lexical class `inK`, compositional).
`ts` = DuckDB's token list of the user's text; `named` = the (database, measurement) directories named
by read_parquet calls in the EXECUTED text; `filesRead` = directories of the stored files DuckDB reads.
 * `hD` — DuckDB read-set ASSUMPTION: a single accepted statement (no file-reading table function, no
          string in table position) reads only files named by read_parquet calls in its text;
 * `hA` — lexical agreement ASSUMPTION on K (C15's subject): a read_parquet call in the executed text was
          spliced by the rewrite or is a call in the user's own token list;
 * `hC` — the conclusion of (C) (`C14_rewrite_subset_checked[_hdr]`, whose side conditions hold on K).
Then every file read lies in a checked (database, measurement) directory (`Covered` = membership, or the inert
sentinel directory). Since the round-2 repairs `inK` excludes only nested / unterminated block comments, the
look-ahead near-miss and the pre-pass trigger words. -/
theorem C14_partial (W : World) (s hdr : Str) (ts : List Tok) (named filesRead : List Ref)
    (hK : inK s hdr = true) (hacc : acceptedTok ts = true)
    (hD : acceptedTok ts = true → ∀ f ∈ filesRead, f ∈ named)
    (hA : inK s hdr = true → ∀ f ∈ named, f ∈ refsRewritten W s hdr ∨ hasDeniedCall ts = true)
    (hC : ∀ r ∈ refsRewritten W s hdr, Covered (refsChecked W s hdr) r) :
    ∀ f ∈ filesRead, Covered (refsChecked W s hdr) f := by
  intro f hf
  have hden := (C14_validated ts hacc).2.1
  rcases hA hK f (hD hacc f hf) with h | h
  · exact hC f h
  · rw [hden] at h; cases h

example : ∃ s : Str, inK s [] = true ∧ acceptedTok [.word "select".toList, .word "from".toList, .word "cpu".toList] = true :=
  ⟨"select 1 from cpu".toList, by decide +kernel, by decide⟩

end Arc.C14
