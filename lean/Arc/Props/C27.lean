import Arc.Model.C27
import Arc.Generated.C27
/-!
# C27 — edge sync delivers each file exactly once with verified content

Layout: (1) facts regenerated from the source (`decide`), (2) the ledger: every change of a row is
an edge of the documented graph, `synced` is entered only by `MarkSynced` and never left — for every
agent run under every fault script and crash point, (3) the hub object of one (spoke, path) under
ALL histories of receive calls (any offset, any body — i.e. every transport fault and every spoke
behaviour), reconciles, compaction and staging sweeps: content, exactly-once, soundness of
acknowledgments, (4) termination of the per-file retry loop once faults stop.
Helper lemmas do not start with `C27_`.
-/
namespace Arc.C27

/-! ## 1. regenerated facts -/

/-- **C27_table_tied.** The transition table the model's ledger operations implement is exactly the
one factgen read from the SQL literals (`SET state = …`, `WHERE … state IN (…)`) of the current
`ledger.go`. Editing a guard or a target state in the source breaks this `decide`. -/
theorem C27_table_tied : Arc.Generated.C27.ledgerTransitions = specTable := by decide

/-- the documented transition graph (ledger.go: comments of the `State*` constants and of each
`Mark*`/`Recover*`/`Requeue*`/`Revert*`/`Dismiss*` method). -/
def documentedEdges : List (String × String) :=
  [("pending", "in_flight"), ("pending", "synced"), ("in_flight", "synced"), ("exported", "synced"),
   ("pending", "exported"), ("exported", "pending"), ("pending", "failed"), ("in_flight", "failed"),
   ("in_flight", "pending"), ("failed", "pending"), ("skipped", "pending"), ("failed", "skipped"),
   ("pending", "skipped"), ("in_flight", "skipped")]

/-- **C27_transitions_table.** Over the table generated from the current source: every (source,
target) pair of every guarded UPDATE is a documented edge, no UPDATE can leave `synced`, and the only
method that can write `synced` is `MarkSynced`. -/
theorem C27_transitions_table :
    ∀ t ∈ Arc.Generated.C27.ledgerTransitions, ∀ a ∈ t.2.1, ∀ b ∈ t.2.2,
      (a, b) ∈ documentedEdges ∧ a ≠ "synced" ∧ (b = "synced" → t.1 = "MarkSynced") := by decide

/-- **C27_ack_sites.** In the current `agent.go`, `MarkSynced` is called at exactly two places: for
the paths the hub's reconcile answer lists as present, and in the `Done()` (committed /
already-present) arm of the transfer outcome. -/
theorem C27_ack_sites : Arc.Generated.C27.markSyncedSites =
    ["reconcileAndSend:range reconciled.Present", "sendOne:case res.Outcome.Done()"] := by decide

/-- **C27_receive_order.** `Receiver.Receive` still performs: receipt pre-check, existence check,
resolveExisting, stage, hash check, promote, register, record — in this order (verify before promote
before record), as the model's `receive` does. -/
theorem C27_receive_order : Arc.Generated.C27.receiveSkeleton =
    ["index.Lookup", "backend.Exists", "resolveExisting", "stage", "hash-check", "promote", "register",
     "recordReceived"] := by decide

/-- **C27_receipt_before_exists.** In the current `Receive` the compacted-receipt pre-check
(`index.Lookup`) comes BEFORE the storage-existence branch (`backend.Exists` → `resolveExisting`), as
in the model's `receive` (`compactedSha` is matched first). Otherwise a redelivery that arrives between
hub compaction's mark and its source deletion goes through `resolveExisting`, whose re-record clears
`compacted_at` — and the file is later accepted a second time. -/
theorem C27_receipt_before_exists :
    Arc.Generated.C27.receiveSkeleton.idxOf "index.Lookup" <
      Arc.Generated.C27.receiveSkeleton.idxOf "backend.Exists" ∧
    Arc.Generated.C27.receiveSkeleton.idxOf "backend.Exists" <
      Arc.Generated.C27.receiveSkeleton.idxOf "resolveExisting" := by decide

theorem C27_initial_state_tied : Arc.Generated.C27.initialState = St.pending.name := by decide

/-- **C27_recover_every_pass.** In the current `agent.go`, `Agent.Run` itself calls
`a.ledger.RecoverInFlight` — unconditionally, as a top-level statement, before any other call — so
EVERY pass (not only the first pass of an Agent/process) starts by reverting `in_flight` rows, exactly
as the model's `runAgent` starts with `recover`. This is what makes a row stranded in `in_flight` by a
pass whose context died (contact window / run timeout closing mid-transfer on a long-lived agent)
eligible again on the next pass; the model therefore does not distinguish a fresh Agent from a
reused one. A once-per-process recovery breaks this `decide`. -/
theorem C27_recover_every_pass :
    Arc.Generated.C27.runFirstCall = "a.ledger.RecoverInFlight" ∧
    (Arc.Generated.C27.runLedgerCalls.filter (fun c => c.2 = "RecoverInFlight")).length = 1 := by decide

/-- **C27_stale_from_candidates.** In `Reconciler.confirmPresent` every path appended to `stale` (the
receipts `ForgetBatch` then deletes) is drawn from `candidates` — the entries that HAVE a
non-compacted receipt and whose existence was checked — never from a differently indexed collection
such as `entries`. The model's `reconcile` forgets exactly the checked entry's own receipt
(`forgetStale` on that key). -/
theorem C27_stale_from_candidates :
    Arc.Generated.C27.staleRoots ≠ [] ∧ ∀ r ∈ Arc.Generated.C27.staleRoots, r = "candidates" := by decide

/-! ## 2. ledger transitions under every run -/

/-- a log entry is an edge of the table of the method that wrote it (or the INSERT of a pending row). -/
def LogE.ok (e : LogE) : Bool :=
  match e.old, e.via with
  | none, none => e.new == .pending
  | some a, some m => decide (a ∈ m.src) && decide (e.new ∈ m.dst) && (a != .synced) &&
      (e.new != .synced || m == .markSynced)
  | _, _ => false

/-- the model-level edge relation agrees with the documented graph (names as in the source). -/
theorem C27_model_edges_documented :
    ∀ m ∈ Method.all, ∀ a ∈ m.src, ∀ b ∈ m.dst, (a.name, b.name) ∈ documentedEdges := by decide

/-- `f` only writes target states of `m`. -/
def Writes (m : Method) (f : Row → Row) : Prop :=
  ∀ r, r.state ∈ m.src → ((f r).state ∈ m.dst ∨ (f r).state = r.state)

theorem src_not_synced (m : Method) : St.synced ∉ m.src := by cases m <;> decide
theorem dst_synced (m : Method) (h : St.synced ∈ m.dst) : m = .markSynced := by
  cases m <;> first | rfl | (exfalso; revert h; decide)

theorem logOf_ok (m : Method) (f : Row → Row) (hw : Writes m f) (r : Row) :
    ∀ e ∈ logOf m r (r.apply m f), e.ok = true := by
  intro e he
  unfold logOf at he
  split at he
  · simp at he
  · rename_i hne
    simp only [List.mem_singleton] at he
    subst he
    unfold Row.apply at hne ⊢
    by_cases hs : r.state ∈ m.src
    · simp only [hs, if_true] at hne ⊢
      rcases hw r hs with hd | hsame
      · have h1 : r.state ≠ .synced := fun h => src_not_synced m (h ▸ hs)
        have h2 : (f r).state = .synced → m = .markSynced := fun h => dst_synced m (h ▸ hd)
        simp only [LogE.ok, hs, hd, decide_true, Bool.true_and, Bool.and_eq_true, bne_iff_ne, ne_eq,
          Bool.or_eq_true, beq_iff_eq]
        refine ⟨h1, ?_⟩
        by_cases h3 : (f r).state = .synced
        · right; exact h2 h3
        · left; exact h3
      · exact absurd hsame.symm hne
    · simp [hs] at hne

theorem updPath_log_ok (m : Method) (p : String) (f : Row → Row) (hw : Writes m f) (l : List Row) :
    ∀ e ∈ (updPath m p f l).2.1, e.ok = true := by
  intro e he
  simp only [updPath, List.mem_flatMap] at he
  obtain ⟨r, _, hr⟩ := he
  split at hr
  · exact logOf_ok m f hw r e hr
  · simp at hr

theorem updAll_log_ok (m : Method) (f : Row → Row) (hw : Writes m f) (l : List Row) :
    ∀ e ∈ (updAll m f l).2, e.ok = true := by
  intro e he
  simp only [updAll, List.mem_flatMap] at he
  obtain ⟨r, _, hr⟩ := he
  exact logOf_ok m f hw r e hr

/-- the run state's transition log only contains table edges. -/
def LogInv (s : RunSt) : Prop := ∀ e ∈ s.sp.log, e.ok = true

theorem tick_log (s : RunSt) : (tick s).1.sp = s.sp := by
  unfold tick; split
  · rfl
  · split <;> rfl

theorem ledgerStep_inv (m : Method) (p : String) (f : Row → Row) (hw : Writes m f) (s : RunSt)
    (h : LogInv s) : LogInv (ledgerStep m p f s).1 := by
  unfold ledgerStep
  have ht := tick_log s
  generalize tick s = t at ht
  obtain ⟨s1, ok⟩ := t
  simp only at ht ⊢
  cases ok
  · simp only [Bool.not_false, if_true]; intro e he; exact h e (ht ▸ he)
  · simp only [Bool.not_true, Bool.false_eq_true, if_false]
    intro e he
    simp only [List.mem_append] at he
    rcases he with he | he
    · exact h e (ht ▸ he)
    · exact updPath_log_ok m p f hw _ e he

theorem w_inFlight : Writes .markInFlight rfInFlight := by
  intro r _; left; simp [Method.dst, rfInFlight]
theorem w_synced : Writes .markSynced rfSynced := by
  intro r _; left; simp [Method.dst, rfSynced]
theorem w_failed (cap : Nat) : Writes .markFailed (rfFailed cap) := by
  intro r _; left; simp only [Method.dst, rfFailed]; split <;> simp
theorem w_conflicted : Writes .markConflicted rfConflicted := by
  intro r _; left; simp [Method.dst, rfConflicted]
theorem w_skipped : Writes .markSkipped rfSkipped := by
  intro r _; left; simp [Method.dst, rfSkipped]
theorem w_progress (n : Nat) : Writes .recordProgress (rfProgress n) := by
  intro r _; right; rfl
theorem w_recover : Writes .recoverInFlight rfRecover := by
  intro r _; left; simp [Method.dst, rfRecover]

theorem markInFlight_inv (p : String) (s : RunSt) (h : LogInv s) : LogInv (markInFlight p s).1 :=
  ledgerStep_inv _ p _ w_inFlight s h
theorem markSynced_inv (p : String) (s : RunSt) (h : LogInv s) : LogInv (markSynced p s).1 :=
  ledgerStep_inv _ p _ w_synced s h
theorem markFailed_inv (cap : Nat) (p : String) (s : RunSt) (h : LogInv s) : LogInv (markFailed cap p s).1 :=
  ledgerStep_inv _ p _ (w_failed cap) s h
theorem markConflicted_inv (p : String) (s : RunSt) (h : LogInv s) : LogInv (markConflicted p s).1 :=
  ledgerStep_inv _ p _ w_conflicted s h
theorem markSkipped_inv (p : String) (s : RunSt) (h : LogInv s) : LogInv (markSkipped p s).1 :=
  ledgerStep_inv _ p _ w_skipped s h
theorem recordProgress_inv (n : Nat) (p : String) (s : RunSt) (h : LogInv s) : LogInv (recordProgress n p s).1 :=
  ledgerStep_inv _ p _ (w_progress n) s h

theorem bump_inv (s : RunSt) (f : Cnt → Cnt) (h : LogInv s) : LogInv (bump s f) := h

theorem putFile_sp (H : Bytes → Bytes) (sid : String) (r : Row) (off : Nat) (s : RunSt) :
    (putFile H sid r off s).1.sp = s.sp := by
  unfold putFile
  have ht := tick_log s
  generalize tick s = t at ht
  obtain ⟨s1, ok⟩ := t
  simp only at ht ⊢
  cases ok
  · simpa using ht
  · simp only [Bool.not_true, Bool.false_eq_true, if_false]
    unfold popFault
    cases s1.faults with
    | nil => simp only; split <;> (try split) <;> simp_all
    | cons f fs => simp only; split <;> (try split) <;> simp_all

theorem putFile_inv (H : Bytes → Bytes) (sid : String) (r : Row) (off : Nat) (s : RunSt) (h : LogInv s) :
    LogInv (putFile H sid r off s).1 := by
  unfold LogInv; rw [putFile_sp]; exact h

theorem sendOne_inv (H : Bytes → Bytes) (cfg : Cfg) (sid : String) (r : Row) (s : RunSt) (h : LogInv s) :
    LogInv (sendOne H cfg sid r s) := by
  unfold sendOne
  have h1 := markInFlight_inv r.path s h
  generalize markInFlight r.path s = a at h1
  obtain ⟨s1, ok⟩ := a
  simp only at h1 ⊢
  cases ok
  · exact h1
  · simp only [Bool.not_true, Bool.false_eq_true, if_false]
    have h2 := putFile_inv H sid r r.sent s1 h1
    generalize putFile H sid r r.sent s1 = b at h2
    obtain ⟨s2, res⟩ := b
    simp only at h2 ⊢
    cases res with
    | err =>
      simp only
      split
      · have h3 := markSkipped_inv r.path s2 h2
        generalize markSkipped r.path s2 = c at h3
        obtain ⟨s3, ok3⟩ := c
        simp only at h3 ⊢
        cases ok3
        · exact markFailed_inv _ _ _ h3
        · exact h3
      · exact markFailed_inv _ _ _ h2
    | committed n =>
      simp only
      have h3 := markSynced_inv r.path { s2 with acks := r.path :: s2.acks } h2
      generalize markSynced r.path { s2 with acks := r.path :: s2.acks } = c at h3
      obtain ⟨s3, ok3⟩ := c
      cases ok3 <;> exact h3
    | already n =>
      simp only
      have h3 := markSynced_inv r.path { s2 with acks := r.path :: s2.acks } h2
      generalize markSynced r.path { s2 with acks := r.path :: s2.acks } = c at h3
      obtain ⟨s3, ok3⟩ := c
      cases ok3 <;> exact h3
    | part n =>
      simp only
      exact markFailed_inv _ _ _ (recordProgress_inv _ _ _ h2)
    | conflict => exact markFailed_inv _ _ _ h2
    | mismatch => exact markFailed_inv _ _ _ h2
    | backpressure => exact markFailed_inv _ _ _ h2

theorem foldl_inv {α : Type} (P : RunSt → Prop) (g : RunSt → α → RunSt) (hg : ∀ s x, P s → P (g s x))
    (xs : List α) (s : RunSt) (h : P s) : P (xs.foldl g s) := by
  induction xs generalizing s with
  | nil => exact h
  | cons x xs ih => exact ih _ (hg s x h)

theorem doReconcile_sp (cfg : Cfg) (sid : String) (page : List Row) (s : RunSt) :
    (doReconcile cfg sid page s).1.sp = s.sp := by
  unfold doReconcile
  have ht := tick_log s
  generalize tick s = t at ht
  obtain ⟨s1, ok⟩ := t
  simp only at ht ⊢
  cases ok
  · simpa using ht
  · simp only [Bool.not_true, Bool.false_eq_true, if_false]
    unfold popFault
    cases s1.faults with
    | nil => simp only; split <;> (try split) <;> (try split) <;> simp_all
    | cons f fs => simp only; split <;> (try split) <;> (try split) <;> simp_all

theorem reconcileAndSend_inv (H : Bytes → Bytes) (cfg : Cfg) (sid : String) (page : List Row) (s : RunSt)
    (h : LogInv s) : LogInv (reconcileAndSend H cfg sid page s).1 := by
  unfold reconcileAndSend
  have h1 : LogInv (doReconcile cfg sid page s).1 := by
    unfold LogInv; rw [doReconcile_sp]; exact h
  generalize doReconcile cfg sid page s = a at h1
  obtain ⟨s1, rr⟩ := a
  simp only at h1 ⊢
  cases rr with
  | ok cls =>
    simp only
    apply foldl_inv LogInv
    · intro s r hs; exact sendOne_inv H cfg sid r s hs
    apply foldl_inv LogInv
    · intro s p hs; exact markConflicted_inv p _ hs
    apply foldl_inv LogInv
    · intro s p hs
      have h3 := markSynced_inv p s hs
      generalize markSynced p s = c at h3
      obtain ⟨s3, ok3⟩ := c
      cases ok3 <;> exact h3
    · exact h1
  | tooLarge m => exact h1
  | error => exact h1

theorem runBatch_inv (H : Bytes → Bytes) (cfg : Cfg) (sid : String) (fuel : Nat) (q : List (List Row))
    (s : RunSt) (h : LogInv s) : LogInv (runBatch H cfg sid fuel q s) := by
  induction fuel generalizing q s with
  | zero => unfold runBatch; exact h
  | succ n ih =>
    cases q with
    | nil => unfold runBatch; exact h
    | cons page rest =>
      unfold runBatch
      have h1 := reconcileAndSend_inv H cfg sid page s h
      generalize reconcileAndSend H cfg sid page s = a at h1
      obtain ⟨s1, rr⟩ := a
      simp only at h1 ⊢
      cases rr with
      | ok cls => exact ih _ _ h1
      | error => exact h1
      | tooLarge m =>
        simp only
        split
        · exact h1
        · exact ih _ _ h1

theorem pagesLoop_inv (H : Bytes → Bytes) (cfg : Cfg) (sid : String) (fuel : Nat) (c : Option (Nat × Nat))
    (s : RunSt) (h : LogInv s) : LogInv (pagesLoop H cfg sid fuel c s) := by
  induction fuel generalizing c s with
  | zero => unfold pagesLoop; exact h
  | succ n ih =>
    unfold pagesLoop
    split
    · exact h
    · simp only
      split
      · exact h
      · have h1 := runBatch_inv H cfg sid (2 * (pendingPage s.sp.ledger cfg.batch c).length + 2)
          [pendingPage s.sp.ledger cfg.batch c] s h
        split
        · exact h1
        · split
          · exact h1
          · exact ih _ _ h1

theorem recover_inv (s : RunSt) (h : LogInv s) : LogInv (recover s) := by
  unfold recover
  have ht := tick_log s
  generalize tick s = t at ht
  obtain ⟨s1, ok⟩ := t
  simp only at ht ⊢
  cases ok
  · simp only [Bool.not_false, if_true]; intro e he; exact h e (ht ▸ he)
  · simp only [Bool.not_true, Bool.false_eq_true, if_false]
    intro e he
    simp only [List.mem_append] at he
    rcases he with he | he
    · exact h e (ht ▸ he)
    · exact updAll_log_ok _ _ w_recover _ e he

theorem discover_inv (H : Bytes → Bytes) (s : RunSt) (h : LogInv s) : LogInv (discover H s) := by
  unfold discover
  split
  · exact h
  · simp only
    split
    · exact h
    · have ht := tick_log s
      generalize tick s = t at ht
      obtain ⟨s1, ok⟩ := t
      simp only at ht ⊢
      cases ok
      · simp only [Bool.not_false, if_true]; intro e he; exact h e (ht ▸ he)
      · simp only [Bool.not_true, Bool.false_eq_true, if_false]
        intro e he
        simp only [List.mem_append, List.mem_map] at he
        rcases he with he | ⟨r, _, hr⟩
        · exact h e (ht ▸ he)
        · subst hr; rfl

/-- **C27_transitions.** For every spoke state whose log is clean, every hub state, every agent
configuration, every crash point and every per-call fault script: every entry the run appends to the
ledger's transition log is an edge of the (source-generated, `C27_table_tied`) table of the method
that wrote it — in particular a documented edge (`C27_model_edges_documented`), never out of
`synced`, and into `synced` only through `MarkSynced` (which the agent calls only on an
acknowledgment: `C27_ack_sites`). -/
theorem C27_transitions (H : Bytes → Bytes) (cfg : Cfg) (sid : String) (sp : Spoke) (hub : Hub)
    (crashAt : Option Nat) (faults : List Fault) (h : ∀ e ∈ sp.log, e.ok = true) :
    ∀ e ∈ (runAgent H cfg sid sp hub crashAt faults).sp.log, e.ok = true := by
  unfold runAgent
  have h0 : LogInv { sp := sp, hub := hub, crashIn := crashAt, faults := faults } := h
  have h1 := recover_inv _ h0
  simp only
  split
  · exact h1
  · have h2 := discover_inv H _ h1
    split
    · exact h2
    · exact pagesLoop_inv H cfg sid _ none _ h2

/-- what `LogE.ok` says, spelled out. -/
theorem C27_log_ok_meaning (e : LogE) (h : e.ok = true) :
    (e.old = none → e.new = .pending) ∧
    (∀ a, e.old = some a → a ≠ .synced ∧ ∃ m, e.via = some m ∧ a ∈ m.src ∧ e.new ∈ m.dst ∧
      (e.new = .synced → m = .markSynced)) := by
  unfold LogE.ok at h
  constructor
  · intro ho
    cases hv : e.via with
    | none => simp [ho, hv] at h; exact h
    | some m => simp [ho, hv] at h
  · intro a ha
    cases hv : e.via with
    | none => simp [ha, hv] at h
    | some m =>
      simp only [ha, hv, Bool.and_eq_true, decide_eq_true_eq, bne_iff_ne, ne_eq, Bool.or_eq_true,
        beq_iff_eq] at h
      obtain ⟨⟨⟨h1, h2⟩, h3⟩, h4⟩ := h
      refine ⟨h3, m, rfl, h1, h2, fun hs => ?_⟩
      rcases h4 with h4 | h4
      · exact absurd hs h4
      · exact h4

/-! ## 3. the hub object of one (spoke, path) under all histories -/

/-- Everything that can happen to the hub object of one (spoke, path). `recv q` is a `Receive` call
with ANY offset and ANY body bytes (so it covers every transport fault — truncation, corruption,
duplication, replays after a lost acknowledgment — and every state of the spoke, crashed or not). -/
inductive HEv
  | recv (q : Req)
  | recon                       -- a reconcile batch naming this path (confirmPresent + ForgetBatch)
  | compact (del : Bool)        -- hub compaction consumed the file (MarkCompacted, then delete)
  | cdel                        -- hub compaction's deferred source deletion (retry after a failed delete)
  | sweep                       -- SweepStaging
  | delete                      -- genuine hub-side removal (retention / rm); the index is not told
  | plant (b : Bytes) (indexed : Bool)   -- foreign content at the path (spoke-ID collision)

def hstep (H : Bytes → Bytes) (o : HObj) : HEv → HObj
  | .recv q => (receive H o q).1
  | .recon => forgetStale o
  | .compact del => hubCompact o del
  | .cdel => hubCompactDelete o
  | .sweep => hubSweep o
  | .delete => hubDelete o
  | .plant b i => hubPlant H o b i

def hrun (H : Bytes → Bytes) (o : HObj) (evs : List HEv) : HObj := evs.foldl (hstep H) o

def CollisionFree (H : Bytes → Bytes) : Prop := ∀ a b, H a = H b → a = b

def isPlant : HEv → Bool
  | .plant _ _ => true
  | _ => false
def isDelete : HEv → Bool
  | .delete => true
  | _ => false

def isAck : PutRes → Bool
  | .committed _ => true
  | .already _ => true
  | _ => false

/-- the call changed neither the final file, nor the receipt, nor acknowledged anything. -/
def Quiet (o : HObj) (r : HObj × PutRes) : Prop :=
  r.1.final = o.final ∧ r.1.idx = o.idx ∧ r.1.promotes = o.promotes ∧ isAck r.2 = false

/-- the call promoted verified content (and recorded it unless the index write failed). -/
def Promoted (H : Bytes → Bytes) (o : HObj) (q : Req) (r : HObj × PutRes) : Prop :=
  ∃ c, H c = q.sha ∧ r.1.final = some c ∧ r.1.promotes = o.promotes + 1 ∧
    ((r.1.idx = o.idx ∧ r.2 = .err) ∨ (r.1.idx = some (q.sha, false) ∧ r.2 = .committed q.size))

theorem commitStaged_spec (H : Bytes → Bytes) (o : HObj) (q : Req) :
    Quiet o (commitStaged H o q) ∨ Promoted H o q (commitStaged H o q) := by
  unfold commitStaged
  by_cases h : H (contentOf o q) = q.sha
  · right
    by_cases hf : q.failRec = true
    · exact ⟨contentOf o q, h, by simp [h, hf], by simp [h, hf], Or.inl (by simp [h, hf])⟩
    · exact ⟨contentOf o q, h, by simp [h, hf], by simp [h, hf], Or.inr (by simp [h, hf])⟩
  · left; simp [h, Quiet, isAck]

theorem stageBody_spec (H : Bytes → Bytes) (o : HObj) (q : Req) :
    Quiet o (stageBody H o q) ∨ Promoted H o q (stageBody H o q) := by
  unfold stageBody
  by_cases h : (takenOf q).length < q.size - q.off
  · left
    simp only [h, if_true, Quiet, true_and]
    cases q.bodyErr <;> simp [isAck]
  · simp only [h, if_false]; exact commitStaged_spec H o q

theorem receiveAbsent_spec (H : Bytes → Bytes) (o : HObj) (q : Req) :
    Quiet o (receiveAbsent H o q) ∨ Promoted H o q (receiveAbsent H o q) := by
  unfold receiveAbsent
  by_cases h1 : q.off > 0 ∧ stagedLen o ≠ some q.off
  · left
    rw [if_pos h1]
    by_cases h2 : (stagedLen o).getD 0 ≥ q.size
    · rw [if_pos h2]; simp [Quiet, isAck]
    · rw [if_neg h2]; simp [Quiet, isAck]
  · rw [if_neg h1]
    by_cases h2 : q.off > 0 ∧ o.spart = none
    · left; rw [if_pos h2]; simp [Quiet, isAck]
    · rw [if_neg h2]; exact stageBody_spec H o q

/-- the receiver writes `final` only in the promote step, with content whose digest is the declared one. -/
theorem receive_final (H : Bytes → Bytes) (o : HObj) (q : Req) :
    (receive H o q).1.final = o.final ∨
    (o.final = none ∧ ∃ c, (receive H o q).1.final = some c ∧ H c = q.sha) := by
  unfold receive
  split
  · left; unfold receiveCompacted; split <;> rfl
  · split
    · left; unfold receiveExisting; split <;> rfl
    · rename_i hf
      rcases receiveAbsent_spec H o q with h | ⟨c, hc, hfin, _⟩
      · left; exact h.1
      · right; exact ⟨hf, c, hfin, hc⟩

/-- content invariant of one object for the spoke file `orig`. -/
def ContentOK (orig : Bytes) (o : HObj) : Prop := o.final = none ∨ o.final = some orig

theorem hstep_content (H : Bytes → Bytes) (hcf : CollisionFree H) (orig : Bytes) (o : HObj) (e : HEv)
    (hdecl : ∀ q, e = .recv q → q.sha = H orig) (hnp : isPlant e = false) (h : ContentOK orig o) :
    ContentOK orig (hstep H o e) := by
  cases e with
  | recv q =>
    simp only [hstep]
    rcases receive_final H o q with heq | ⟨_, c, hc, hh⟩
    · unfold ContentOK; rw [heq]; exact h
    · right
      rw [hc, hcf c orig (by rw [hh, hdecl q rfl])]
  | recon =>
    simp only [hstep, forgetStale]
    split <;> exact h
  | compact del =>
    simp only [hstep, hubCompact, ContentOK]
    cases del
    · simpa [ContentOK] using h
    · simp
  | cdel => simp [hstep, hubCompactDelete, ContentOK]
  | sweep => simpa [hstep, hubSweep, ContentOK] using h
  | delete => simp [hstep, hubDelete, ContentOK]
  | plant b i => simp [isPlant] at hnp

theorem hrun_content (H : Bytes → Bytes) (hcf : CollisionFree H) (orig : Bytes) (evs : List HEv) (o : HObj)
    (hdecl : ∀ q, HEv.recv q ∈ evs → q.sha = H orig) (hnp : ∀ e ∈ evs, isPlant e = false)
    (h : ContentOK orig o) : ContentOK orig (hrun H o evs) := by
  induction evs generalizing o with
  | nil => exact h
  | cons e es ih =>
    simp only [hrun, List.foldl]
    apply ih
    · intro q hq; exact hdecl q (by simp [hq])
    · intro e' he'; exact hnp e' (by simp [he'])
    · exact hstep_content H hcf orig o e (fun q hq => hdecl q (by simp [hq])) (hnp e (by simp)) h

/-- **C27_hub_content.** HYPOTHESIS: the digest is collision free. For one (spoke, path) whose spoke
file is `orig` (paths are immutable; every request declares `H orig` — that is what discovery stores
in the ledger row), under EVERY history of receive calls with arbitrary offsets and bodies,
reconciles, hub compactions, staging sweeps and hub-side deletions, starting from the empty object:
whatever the hub exposes at the final path is byte-for-byte the spoke's file. (Foreign writers —
`plant` — are excluded: they are not the receiver.) -/
theorem C27_hub_content (H : Bytes → Bytes) (hcf : CollisionFree H) (orig : Bytes) (evs : List HEv)
    (hdecl : ∀ q, HEv.recv q ∈ evs → q.sha = H orig) (hnp : ∀ e ∈ evs, isPlant e = false) :
    ∀ b, (hrun H {} evs).final = some b → b = orig := by
  intro b hb
  rcases hrun_content H hcf orig evs {} hdecl hnp (Or.inl rfl) with h | h
  · rw [h] at hb; cases hb
  · rw [h] at hb; cases hb; rfl

/-- non-vacuity: a truncated upload, a corrupted resume, a clean resend — the hub ends with `orig`. -/
example :
    let orig : Bytes := [1, 2, 3, 4]
    let q (off : Nat) (body : Bytes) : Req := { sha := orig, size := 4, off := off, body := body, bodyErr := false, failRec := false }
    (hrun id {} [.recv (q 0 [1, 2]), .recv (q 2 [9, 4]), .recv (q 2 [3, 4]), .recv (q 0 [1, 2, 3, 4])]).final = some orig ∧
    (hrun id {} [.recv (q 0 [1, 2]), .recv (q 2 [9, 4])]).final = none := by decide

/-! ### compaction jobs: mark, then (possibly much later) delete the source -/

/-- ghost: a compaction job has stamped this object's receipt while its file existed, and no genuine
removal / foreign writer has intervened since. -/
def mAfter (o : HObj) (m : Bool) : HEv → Bool
  | .compact _ => o.final.isSome || m
  | .delete => false
  | .plant _ _ => false
  | _ => m

/-- environment well-formedness: a deferred source deletion belongs to a job that stamped the object. -/
def wfJobs (H : Bytes → Bytes) : HObj → Bool → List HEv → Bool
  | _, _, [] => true
  | o, m, e :: es =>
    (match e with
     | .cdel => m
     | _ => true) && wfJobs H (hstep H o e) (mAfter o m e) es

theorem compacted_idx (o : HObj) (h : (compactedSha o).isSome = true) : ∃ s, o.idx = some (s, true) := by
  unfold compactedSha at h
  split at h
  · rename_i s hi; exact ⟨s, hi⟩
  · simp at h

theorem receive_keeps_compacted (H : Bytes → Bytes) (o : HObj) (q : Req)
    (h : (compactedSha o).isSome = true) : (receive H o q).1 = o := by
  unfold receive
  cases hc : compactedSha o with
  | none => rw [hc] at h; simp at h
  | some s => simp only; unfold receiveCompacted; split <;> rfl

/-- **the stamp survives**: once a job has stamped the receipt, no upload (any offset/body),
reconcile, sweep, re-mark or source deletion clears it — this is where "compacted receipt is checked
before file existence" (`C27_receipt_before_exists`) is used. -/
theorem stamp_step (H : Bytes → Bytes) (o : HObj) (m : Bool) (e : HEv)
    (hm : m = true → (compactedSha o).isSome = true)
    (hidx : ∀ d, e = .compact d → o.final.isSome = true → o.idx.isSome = true)
    (h : mAfter o m e = true) : (compactedSha (hstep H o e)).isSome = true := by
  cases e with
  | recv q => simp only [hstep]; rw [receive_keeps_compacted H o q (hm h)]; exact hm h
  | recon =>
    obtain ⟨s, hi⟩ := compacted_idx o (hm h)
    simp only [hstep, forgetStale, hi]; exact hm h
  | compact d =>
    have hsome : o.idx.isSome = true := by
      simp only [mAfter, Bool.or_eq_true] at h
      rcases h with h | h
      · exact hidx d rfl h
      · obtain ⟨s, hi⟩ := compacted_idx o (hm h); simp [hi]
    obtain ⟨⟨s, c⟩, hi⟩ := Option.isSome_iff_exists.mp hsome
    simp [hstep, hubCompact, compactedSha, hi]
  | cdel => simpa [hstep, hubCompactDelete, compactedSha] using hm h
  | sweep => simpa [hstep, hubSweep, compactedSha] using hm h
  | delete => simp [mAfter] at h
  | plant b i => simp [mAfter] at h

/-! ### exactly once -/

/-- the object is untouched, holds an unindexed promoted file, or holds the content with a receipt. -/
inductive OnceSt (o : HObj) : Prop
  | fresh (h1 : o.promotes = 0) (h2 : o.final = none) (h3 : o.idx = none)
  | orphan (h1 : o.promotes = 1) (h2 : o.final.isSome) (h3 : o.idx = none)
  | held (h1 : o.promotes = 1) (h2 : o.idx.isSome) (h3 : o.final.isSome ∨ (compactedSha o).isSome)

/-- the carve-out of the finding: no hub compaction consumes a promoted file that has no receipt. -/
def noOrphanCompact (H : Bytes → Bytes) : HObj → List HEv → Bool
  | _, [] => true
  | o, e :: es =>
    (match e with
     | .compact _ => !(o.final.isSome && o.idx.isNone)
     | _ => true) && noOrphanCompact H (hstep H o e) es

theorem compactedSha_none_of_idx (o : HObj) (h : o.idx = none) : compactedSha o = none := by
  simp [compactedSha, h]

theorem receive_once (H : Bytes → Bytes) (o : HObj) (q : Req) (h : OnceSt o) : OnceSt (receive H o q).1 := by
  unfold receive
  cases hc : compactedSha o with
  | some s =>
    simp only
    have : (receiveCompacted o q s).1 = o := by unfold receiveCompacted; split <;> rfl
    rw [this]; exact h
  | none =>
    simp only
    cases hf : o.final with
    | some b =>
      simp only
      unfold receiveExisting
      by_cases hb : H b = q.sha
      · simp only [hb, if_true]
        cases h with
        | fresh h1 h2 h3 => rw [hf] at h2; cases h2
        | orphan h1 h2 h3 => exact .held h1 (by simp) (Or.inl (by simp [hf]))
        | held h1 h2 h3 => exact .held h1 (by simp) (Or.inl (by simp [hf]))
      · simp only [hb, if_false]; exact h
    | none =>
      simp only
      rcases receiveAbsent_spec H o q with ⟨q1, q2, q3, _⟩ | ⟨c, _, p1, p2, p3⟩
      · cases h with
        | fresh h1 h2 h3 => exact .fresh (by rw [q3, h1]) (by rw [q1, h2]) (by rw [q2, h3])
        | orphan h1 h2 h3 => rw [hf] at h2; cases h2
        | held h1 h2 h3 =>
          rcases h3 with h3 | h3
          · rw [hf] at h3; cases h3
          · rw [hc] at h3; cases h3
      · cases h with
        | fresh h1 h2 h3 =>
          rcases p3 with ⟨p3, _⟩ | ⟨p3, _⟩
          · exact .orphan (by rw [p2, h1]) (by rw [p1]; rfl) (by rw [p3, h3])
          · exact .held (by rw [p2, h1]) (by rw [p3]; rfl) (Or.inl (by rw [p1]; rfl))
        | orphan h1 h2 h3 => rw [hf] at h2; cases h2
        | held h1 h2 h3 =>
          rcases h3 with h3 | h3
          · rw [hf] at h3; cases h3
          · rw [hc] at h3; cases h3

theorem hstep_once (H : Bytes → Bytes) (o : HObj) (e : HEv) (h : OnceSt o)
    (hc : ∀ d, e = .compact d → ¬ (o.final.isSome ∧ o.idx = none))
    (hcd : e = .cdel → (compactedSha o).isSome = true)
    (hnd : isDelete e = false) (hnp : isPlant e = false) : OnceSt (hstep H o e) := by
  cases e with
  | recv q => exact receive_once H o q h
  | recon =>
    simp only [hstep]
    cases h with
    | fresh h1 h2 h3 => simp only [forgetStale, h3]; exact .fresh h1 h2 h3
    | orphan h1 h2 h3 => simp only [forgetStale, h3]; exact .orphan h1 h2 h3
    | held h1 h2 h3 =>
      obtain ⟨⟨s, c⟩, hi⟩ := Option.isSome_iff_exists.mp h2
      cases c
      · rcases h3 with h3 | h3
        · obtain ⟨b, hb⟩ := Option.isSome_iff_exists.mp h3
          simp only [forgetStale, hi, hb]
          exact .held h1 h2 (Or.inl h3)
        · simp [compactedSha, hi] at h3
      · simp only [forgetStale, hi]
        exact .held h1 h2 h3
  | compact del =>
    simp only [hstep, hubCompact]
    cases h with
    | fresh h1 h2 h3 => exact .fresh h1 (by cases del <;> simp [h2]) (by simp [h3])
    | orphan h1 h2 h3 => exact absurd ⟨h2, h3⟩ (hc del rfl)
    | held h1 h2 h3 =>
      obtain ⟨⟨s, c⟩, hi⟩ := Option.isSome_iff_exists.mp h2
      exact .held h1 (by simp [hi]) (Or.inr (by simp [compactedSha, hi]))
  | cdel =>
    obtain ⟨s, hi⟩ := compacted_idx o (hcd rfl)
    simp only [hstep, hubCompactDelete]
    cases h with
    | fresh h1 h2 h3 => rw [hi] at h3; cases h3
    | orphan h1 h2 h3 => rw [hi] at h3; cases h3
    | held h1 h2 h3 => exact .held h1 h2 (Or.inr (by simpa [compactedSha] using hcd rfl))
  | sweep =>
    simp only [hstep, hubSweep]
    cases h with
    | fresh h1 h2 h3 => exact .fresh h1 h2 h3
    | orphan h1 h2 h3 => exact .orphan h1 h2 h3
    | held h1 h2 h3 => exact .held h1 h2 (by simpa [compactedSha] using h3)
  | delete => simp [isDelete] at hnd
  | plant b i => simp [isPlant] at hnp

theorem hrun_once (H : Bytes → Bytes) (evs : List HEv) (o : HObj) (m : Bool) (h : OnceSt o)
    (hm : m = true → (compactedSha o).isSome = true)
    (hc : noOrphanCompact H o evs = true) (hw : wfJobs H o m evs = true)
    (hnd : ∀ e ∈ evs, isDelete e = false)
    (hnp : ∀ e ∈ evs, isPlant e = false) : OnceSt (hrun H o evs) := by
  induction evs generalizing o m with
  | nil => exact h
  | cons e es ih =>
    simp only [hrun, List.foldl]
    simp only [noOrphanCompact, Bool.and_eq_true] at hc
    simp only [wfJobs, Bool.and_eq_true] at hw
    have hcarve : ∀ d, e = .compact d → ¬ (o.final.isSome ∧ o.idx = none) := by
      intro d hd
      subst hd
      have := hc.1
      simp only [Bool.not_eq_true', Bool.and_eq_false_iff] at this
      intro ⟨h1, h2⟩
      rcases this with t | t
      · simp [h1] at t
      · simp [h2] at t
    apply ih _ (mAfter o m e)
    · apply hstep_once H o e h hcarve
      · intro hd; subst hd; exact hm (by simpa using hw.1)
      · exact hnd e (by simp)
      · exact hnp e (by simp)
    · apply stamp_step H o m e hm
      intro d hd hf
      cases hi : o.idx with
      | none => exact absurd ⟨hf, hi⟩ (hcarve d hd)
      | some p => rfl
    · exact hc.2
    · exact hw.2
    · intro e' he'; exact hnd e' (by simp [he'])
    · intro e' he'; exact hnp e' (by simp [he'])

/-
FULL STATEMENT (false of the current code — see `C27_hub_once_witness`):
  theorem C27_hub_once_full (H) (evs) (hnd : no delete) (hnp : no plant) : (hrun H {} evs).promotes ≤ 1
-/

/-- **C27_hub_once_witness.** FINDING. The index write after promote fails (hub-side error; the
spoke gets an error and will retry), hub compaction consumes the — unreceipted — file
(`MarkCompacted` is an UPDATE and marks nothing), the spoke's retry is accepted and promoted again:
the same spoke file has been stored twice (its rows now live in the compacted output and in the raw
file) although nothing was ever genuinely removed. -/
theorem C27_hub_once_witness :
    let orig : Bytes := [1, 2, 3]
    let q (failRec : Bool) : Req := { sha := orig, size := 3, off := 0, body := orig, bodyErr := false, failRec := failRec }
    (hrun id {} [.recv (q true), .compact true, .recv (q false)]).promotes = 2 := by decide

/-- **C27_hub_once_partial.** Carve-out: no hub compaction consumes a promoted file that still lacks
its receipt (`noOrphanCompact`, decidable on the history). Then under EVERY history of receive calls
(any offsets/bodies, including failing index writes — so also redeliveries between a compaction job's
mark and its deferred source deletion), reconciles, compaction marks, source deletions (`wfJobs`) and
sweeps — without a genuine removal or a foreign writer — the receiver promotes the file of one (spoke, path) at most
once: a second upload is answered from the stored file or from the (compacted) receipt. -/
theorem C27_hub_once_partial (H : Bytes → Bytes) (evs : List HEv)
    (hc : noOrphanCompact H {} evs = true) (hw : wfJobs H {} false evs = true)
    (hnd : ∀ e ∈ evs, isDelete e = false)
    (hnp : ∀ e ∈ evs, isPlant e = false) : (hrun H {} evs).promotes ≤ 1 := by
  have := hrun_once H evs {} false (.fresh rfl rfl rfl) (by simp) hc hw hnd hnp
  cases this with
  | fresh h1 _ _ => omega
  | orphan h1 _ _ => omega
  | held h1 _ _ => omega

/-- non-vacuity: commit, lost ack + resend, compaction, another resend — one promote. -/
example :
    let orig : Bytes := [1, 2, 3]
    let q : Req := { sha := orig, size := 3, off := 0, body := orig, bodyErr := false, failRec := false }
    let evs : List HEv := [.recv q, .recv q, .recon, .compact false, .recv q, .recon, .cdel, .recon, .recv q]
    noOrphanCompact id {} evs = true ∧ wfJobs id {} false evs = true ∧
      (hrun id {} evs).promotes = 1 ∧ (hrun id {} evs).final = none := by decide

/-! ### acknowledgments are sound and stay sound -/

/-- the hub holds the spoke file `orig`: a receipt with its digest, and the file itself or the mark
that hub compaction folded it into a compacted output. -/
def Holds (H : Bytes → Bytes) (orig : Bytes) (o : HObj) : Prop :=
  ∃ c, o.idx = some (H orig, c) ∧ (c = true ∨ o.final = some orig)

/-- a transfer acknowledged as committed / already-present implies the hub holds the file. -/
theorem ack_put_holds (H : Bytes → Bytes) (hcf : CollisionFree H) (orig : Bytes) (o : HObj) (q : Req)
    (hq : q.sha = H orig) (hack : isAck (receive H o q).2 = true) :
    Holds H orig (receive H o q).1 := by
  unfold receive at hack ⊢
  cases hc : compactedSha o with
  | some s =>
    simp only [hc] at hack ⊢
    unfold receiveCompacted at hack ⊢
    by_cases hs : s = q.sha
    · simp only [hs, if_true]
      unfold compactedSha at hc
      split at hc
      · rename_i s' hi
        cases hc
        exact ⟨true, by rw [hi, hs, hq], Or.inl rfl⟩
      · cases hc
    · simp [hs, isAck] at hack
  | none =>
    simp only [hc] at hack ⊢
    cases hf : o.final with
    | some b =>
      simp only [hf] at hack ⊢
      unfold receiveExisting at hack ⊢
      by_cases hb : H b = q.sha
      · simp only [hb, if_true]
        refine ⟨false, by simp [hq], Or.inr ?_⟩
        simp only [hf]
        rw [hcf b orig (by rw [hb, hq])]
      · simp [hb, isAck] at hack
    | none =>
      simp only [hf] at hack ⊢
      rcases receiveAbsent_spec H o q with ⟨_, _, _, q4⟩ | ⟨c, hcsha, p1, _, p3⟩
      · rw [q4] at hack; cases hack
      · rcases p3 with ⟨_, p4⟩ | ⟨p3, _⟩
        · rw [p4] at hack; simp [isAck] at hack
        · exact ⟨false, by rw [p3, hq], Or.inr (by rw [p1, hcf c orig (by rw [hcsha, hq])])⟩

/-- a path reconcile reports as present implies the hub holds the file (`ContentOK`: no foreign writer). -/
theorem ack_recon_holds (H : Bytes → Bytes) (orig : Bytes) (o : HObj) (hco : ContentOK orig o)
    (hp : classify (forgetStale o) (H orig) = .present) : Holds H orig (forgetStale o) := by
  unfold classify at hp
  cases hi : (forgetStale o).idx with
  | none => simp [hi] at hp
  | some p =>
    obtain ⟨s, c⟩ := p
    simp only [hi] at hp
    split at hp
    · rename_i hs
      subst hs
      refine ⟨c, hi, ?_⟩
      cases c
      · right
        -- not compacted: the receipt survived `forgetStale`, so the file exists
        unfold forgetStale at hi ⊢
        cases hidx : o.idx with
        | none => simp [hidx] at hi
        | some p' =>
          obtain ⟨s', c'⟩ := p'
          cases hf : o.final with
          | none =>
            cases c'
            · simp [hidx, hf] at hi
            · simp [hidx, hf] at hi
          | some b =>
            simp only [hf]
            rcases hco with h | h
            · rw [hf] at h; cases h
            · rw [hf] at h; exact h
      · left; rfl
    · cases hp

theorem hstep_holds (H : Bytes → Bytes) (orig : Bytes) (o : HObj) (e : HEv) (h : Holds H orig o)
    (hcd : e = .cdel → (compactedSha o).isSome = true)
    (hnd : isDelete e = false) (hnp : isPlant e = false) : Holds H orig (hstep H o e) := by
  obtain ⟨c, hi, hc⟩ := h
  cases e with
  | recv q =>
    simp only [hstep]
    unfold receive
    cases c
    · -- file present, receipt not compacted
      have hf : o.final = some orig := by rcases hc with h | h; cases h; exact h
      have hcs : compactedSha o = none := by simp [compactedSha, hi]
      simp only [hcs, hf]
      unfold receiveExisting
      by_cases hs : H orig = q.sha
      · simp only [hs, if_true]
        exact ⟨false, by simp [hs], Or.inr (by simp [hf])⟩
      · simp only [hs, if_false]
        exact ⟨false, hi, Or.inr hf⟩
    · have hcs : compactedSha o = some (H orig) := by simp [compactedSha, hi]
      simp only [hcs]
      unfold receiveCompacted
      split <;> exact ⟨true, hi, Or.inl rfl⟩
  | recon =>
    simp only [hstep]
    cases c
    · have hf : o.final = some orig := by rcases hc with h | h; cases h; exact h
      simp only [forgetStale, hi, hf]
      exact ⟨false, hi, Or.inr hf⟩
    · simp only [forgetStale, hi]
      exact ⟨true, hi, Or.inl rfl⟩
  | compact del => exact ⟨true, by simp [hstep, hubCompact, hi], Or.inl rfl⟩
  | cdel =>
    obtain ⟨s, hi'⟩ := compacted_idx o (hcd rfl)
    rw [hi] at hi'
    cases hi'
    exact ⟨true, by simp [hstep, hubCompactDelete, hi], Or.inl rfl⟩
  | sweep => exact ⟨c, by simp [hstep, hubSweep, hi], by simpa [hstep, hubSweep] using hc⟩
  | delete => simp [isDelete] at hnd
  | plant b i => simp [isPlant] at hnp

theorem hrun_holds (H : Bytes → Bytes) (orig : Bytes) (evs : List HEv) (o : HObj) (m : Bool)
    (h : Holds H orig o) (hm : m = true → (compactedSha o).isSome = true)
    (hw : wfJobs H o m evs = true)
    (hnd : ∀ e ∈ evs, isDelete e = false) (hnp : ∀ e ∈ evs, isPlant e = false) :
    Holds H orig (hrun H o evs) := by
  induction evs generalizing o m with
  | nil => exact h
  | cons e es ih =>
    simp only [hrun, List.foldl]
    simp only [wfJobs, Bool.and_eq_true] at hw
    refine ih _ (mAfter o m e)
      (hstep_holds H orig o e h (fun hd => by subst hd; exact hm (by simpa using hw.1))
        (hnd e (by simp)) (hnp e (by simp))) ?_ hw.2
      (fun e' he' => hnd e' (by simp [he'])) (fun e' he' => hnp e' (by simp [he']))
    apply stamp_step H o m e hm
    intro d _ _
    obtain ⟨c, hi, _⟩ := h
    simp [hi]

/-- **C27_synced_sound.** HYPOTHESIS: collision-free digest. The only two events on which the agent
marks a row synced (`C27_ack_sites`, and `C27_transitions`: `synced` is entered only by `MarkSynced`
and never left) are a transfer answered committed/already-present and a reconcile answering present.
After ANY earlier history (any uploads, faults, compactions, sweeps, deletions), at either
acknowledgment the hub holds the spoke's file with identical content — or the compacted receipt for
it — and keeps holding it through EVERY later history of uploads (any offset/body), reconciles,
compactions (mark and deferred source deletion as separate events, `wfJobs`: a source deletion
belongs to a job that stamped the receipt; `m` = such a job is already in progress at the
acknowledgment) and sweeps; only a genuine hub-side removal or a foreign writer can end that. -/
theorem C27_synced_sound (H : Bytes → Bytes) (hcf : CollisionFree H) (orig : Bytes)
    (before after : List HEv)
    (hdecl : ∀ q, HEv.recv q ∈ before → q.sha = H orig) (hnp : ∀ e ∈ before, isPlant e = false)
    (hnd' : ∀ e ∈ after, isDelete e = false) (hnp' : ∀ e ∈ after, isPlant e = false) :
    (∀ q m, q.sha = H orig → isAck (receive H (hrun H {} before) q).2 = true →
      (m = true → (compactedSha (receive H (hrun H {} before) q).1).isSome = true) →
      wfJobs H (receive H (hrun H {} before) q).1 m after = true →
      Holds H orig (hrun H (receive H (hrun H {} before) q).1 after)) ∧
    (∀ m, classify (forgetStale (hrun H {} before)) (H orig) = .present →
      (m = true → (compactedSha (forgetStale (hrun H {} before))).isSome = true) →
      wfJobs H (forgetStale (hrun H {} before)) m after = true →
      Holds H orig (hrun H (forgetStale (hrun H {} before)) after)) := by
  constructor
  · intro q m hq hack hm hw
    exact hrun_holds H orig after _ m (ack_put_holds H hcf orig _ q hq hack) hm hw hnd' hnp'
  · intro m hp hm hw
    exact hrun_holds H orig after _ m
      (ack_recon_holds H orig _ (hrun_content H hcf orig before {} hdecl hnp (Or.inl rfl)) hp) hm hw hnd' hnp'

/-- non-vacuity: lost ack, then reconcile says present; the file is compacted away; still held. -/
example :
    let orig : Bytes := [7, 8]
    let q : Req := { sha := orig, size := 2, off := 0, body := orig, bodyErr := false, failRec := false }
    classify (forgetStale (hrun id {} [.recv q])) orig = .present ∧
    wfJobs id (forgetStale (hrun id {} [.recv q])) false [.compact false, .recv q, .cdel, .recv q, .recon] = true ∧
    (hrun id (forgetStale (hrun id {} [.recv q])) [.compact false, .recv q, .cdel, .recv q, .recon]).idx = some (orig, true) := by
  decide

/-! ## 4. termination of the per-file retry loop -/

/-- how the transfer of one pass ended, as far as the ledger is concerned: acknowledged, source file
vanished, content conflict, or any retryable failure (error, lost ack, partial with a new checkpoint,
checksum mismatch, backpressure). -/
inductive Outcome
  | done | vanished | conflict | retry (checkpoint : Option Nat)

/-- what one pass that attempts the file does to its ledger row — the row rewrites and guards are
the model's own (`Row.apply` with the table's source sets; `sendOne` applies exactly these). -/
def passRow (cfg : Cfg) (out : Outcome) (r : Row) : Row :=
  let r1 := r.apply .markInFlight rfInFlight
  match out with
  | .done => r1.apply .markSynced rfSynced
  | .vanished => r1.apply .markSkipped rfSkipped
  | .conflict => r1.apply .markFailed (rfFailed 1)
  | .retry none => r1.apply .markFailed (rfFailed cfg.maxAttempts)
  | .retry (some n) => (r1.apply .recordProgress (rfProgress n)).apply .markFailed (rfFailed cfg.maxAttempts)

def terminal (s : St) : Bool := s == .synced || s == .skipped || s == .failed

theorem passRow_terminal (cfg : Cfg) (out : Outcome) (r : Row) (h : terminal r.state = true) :
    passRow cfg out r = r := by
  have hs : r.state = .synced ∨ r.state = .skipped ∨ r.state = .failed := by
    revert h; cases r.state <;> simp [terminal]
  unfold passRow
  rcases hs with h | h | h <;> cases out <;> (try rename_i c; cases c) <;>
    simp [Row.apply, Method.src, h]

theorem passRow_pending (cfg : Cfg) (out : Outcome) (r : Row) (h : r.state = .pending) :
    terminal (passRow cfg out r).state = true ∨
    ((passRow cfg out r).state = .pending ∧ (passRow cfg out r).attempts = r.attempts + 1 ∧
      r.attempts + 1 < cfg.maxAttempts) := by
  unfold passRow
  cases out with
  | done => left; simp [Row.apply, Method.src, h, rfInFlight, rfSynced, terminal]
  | vanished => left; simp [Row.apply, Method.src, h, rfInFlight, rfSkipped, terminal]
  | conflict => left; simp [Row.apply, Method.src, h, rfInFlight, rfFailed, terminal]
  | retry c =>
    cases c with
    | none =>
      by_cases ha : r.attempts + 1 ≥ cfg.maxAttempts
      · left; simp [Row.apply, Method.src, h, rfInFlight, rfFailed, terminal, ha]
      · right; simp [Row.apply, Method.src, h, rfInFlight, rfFailed, ha]; omega
    | some n =>
      by_cases ha : r.attempts + 1 ≥ cfg.maxAttempts
      · left; simp [Row.apply, Method.src, h, rfInFlight, rfFailed, rfProgress, terminal, ha]
      · right; simp [Row.apply, Method.src, h, rfInFlight, rfFailed, rfProgress, ha]; omega

theorem passes_inv (cfg : Cfg) (outs : List Outcome) (r : Row) (k : Nat)
    (h : terminal r.state = true ∨ (r.state = .pending ∧ k ≤ r.attempts)) :
    terminal (outs.foldl (fun r o => passRow cfg o r) r).state = true ∨
    ((outs.foldl (fun r o => passRow cfg o r) r).state = .pending ∧
      k + outs.length ≤ (outs.foldl (fun r o => passRow cfg o r) r).attempts ∧
      (outs ≠ [] → (outs.foldl (fun r o => passRow cfg o r) r).attempts < cfg.maxAttempts)) := by
  induction outs generalizing r k with
  | nil =>
    rcases h with h | ⟨h1, h2⟩
    · left; exact h
    · right; exact ⟨h1, by simpa using h2, fun hn => absurd rfl hn⟩
  | cons o os ih =>
    simp only [List.foldl]
    rcases h with h | ⟨h1, h2⟩
    · rw [passRow_terminal cfg o r h]
      rcases ih r k (Or.inl h) with t | ⟨t1, _, _⟩
      · left; exact t
      · -- a terminal row stays terminal
        left
        have : ∀ (os : List Outcome) (r : Row), terminal r.state = true →
            (os.foldl (fun r o => passRow cfg o r) r) = r := by
          intro os
          induction os with
          | nil => intro r _; rfl
          | cons o os ih2 => intro r hr; simp only [List.foldl]; rw [passRow_terminal cfg o r hr]; exact ih2 r hr
        rw [this os r h]; exact h
    · rcases passRow_pending cfg o r h1 with t | ⟨p1, p2, p3⟩
      · rcases ih (passRow cfg o r) 0 (Or.inl t) with t' | ⟨t1, _, _⟩
        · left; exact t'
        · left
          have : ∀ (os : List Outcome) (r : Row), terminal r.state = true →
              (os.foldl (fun r o => passRow cfg o r) r) = r := by
            intro os
            induction os with
            | nil => intro r _; rfl
            | cons o os ih2 => intro r hr; simp only [List.foldl]; rw [passRow_terminal cfg o r hr]; exact ih2 r hr
          rw [this os _ t]; exact t
      · rcases ih (passRow cfg o r) (k + 1) (Or.inr ⟨p1, by omega⟩) with t' | ⟨t1, t2, t3⟩
        · left; exact t'
        · right
          refine ⟨t1, by simp only [List.length_cons]; omega, fun _ => ?_⟩
          cases os with
          | nil => simp only [List.foldl]; omega
          | cons o' os' => exact t3 (by simp)

/-- **C27_terminates.** Whatever the hub answers (acknowledgment, conflict, any retryable failure
with or without a new checkpoint) and whether or not the source file still exists: a pending file
that is attempted in `maxAttempts` passes ends `synced`, `skipped` or `failed` — it cannot stay
pending, because every attempt increments `attempts` (MarkInFlight) and a failure at
`attempts ≥ maxAttempts` is terminal (MarkFailed's CASE), and the three end states are absorbing.
(That every pending row is attempted in every fault-free pass — paging, splitting — is what the
harness checks on the real code: monitor `not-terminated`.) -/
theorem C27_terminates (cfg : Cfg) (hmax : 1 ≤ cfg.maxAttempts) (r : Row) (hr : r.state = .pending)
    (outs : List Outcome) (hlen : cfg.maxAttempts ≤ outs.length) :
    terminal (outs.foldl (fun r o => passRow cfg o r) r).state = true := by
  rcases passes_inv cfg outs r 0 (Or.inr ⟨hr, Nat.zero_le _⟩) with t | ⟨_, t2, t3⟩
  · exact t
  · have hne : outs ≠ [] := by intro h; subst h; simp at hlen; omega
    have := t3 hne
    omega

/-- non-vacuity: three retryable failures with `maxAttempts = 3` end in `failed`; a success in `synced`. -/
example :
    let cfg : Cfg := { maxAttempts := 3 }
    let r : Row := { id := 1, path := "p", sha := [], size := 4, pt := 0, state := .pending, attempts := 0, sent := 0 }
    ([Outcome.retry (some 2), .retry none, .retry none].foldl (fun r o => passRow cfg o r) r).state = .failed ∧
    ([Outcome.retry (some 2), .done, .retry none].foldl (fun r o => passRow cfg o r) r).state = .synced := by decide

end Arc.C27
