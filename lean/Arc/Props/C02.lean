import Arc.Proofs.C02.Glue
import Arc.Proofs.C02.RoundTrip
/-
C02 — Typed MessagePack decoding is indistinguishable from generic decoding.

FULL STATEMENT (kept visible; FALSE of the current tree — one known finding class, witness below):

    theorem C02_full (F : FloatSem) (hF : FloatLaws F) (san : Bytes → Bytes) :
        ∀ (b : Bytes) (now : Int),
          observe (decodeWith F san true now b) = observe (decodeWith F san false now b)

`decodeWith typed` = `MessagePackDecoder.Decode` with the fast path on/off followed by the typing
chokepoint `convertColumnsToTyped` that `ArrowBuffer.Write` applies to every generic columnar record;
`observe` keeps accepted?/error class, measurement, per column (type, values, null positions), row
count, and replaces a generated time column by a marker.

PROVED, for ALL byte strings and ANY float semantics satisfying `FloatLaws`:

* `C02_full_partial`        `Carve b → observe (decode on b) = observe (decode off b)`
* `C02_hit_agrees_partial`  `Carve b → typedPath b = some r → genericPath b = ok [col r'] ∧ r ≈ r'`
                            (no restriction on the key set: extra/ignored keys, duplicate keys, any key
                            order, non-array column values, generated or supplied time are all covered)
* `C02_fallback_sound`      a typed miss IS the generic path
* per class: `C02_*Elem_agrees`, `C02_valueColumn_agrees`, `C02_timeColumn_agrees`, `C02_measurement_agrees`
* `C02_full_witness_skip`   the finding: a body OUTSIDE `Carve` on which on ≠ off
* `C02_dup_nonarray_falls_back`  regression of the fixed finding (commit d7052e6)
* `C02_roundtrip_leaf`, and the `decide` theorems over the tables regenerated from the sources.

`Carve b` (decidable, `Arc/Proofs/C02/Glue.lean`) excludes EXACTLY this input class: the body decodes to
a map in which some value that the typed path merely `Skip()`s — the value of a top-level str key
other than "m" / "columns" / "batch", or a non-array value inside a map under a "columns" key — is an
ARRAY, a MAP or an EXT value. (Scalars, strings and bin under ignored keys are inside the theorem.)
For such values the generic path must box what the typed path skips and can fail (unknown ext id,
non-string-keyed map with nil / uncomparable / undecodable keys); that is the known finding
`accept-differs:typed-Skip-vs-generic-Unmarshal:{error,panic}`. Over-approximation: containers/ext
that WOULD box are excluded too (the existing repo test requires a hit for `"tags": {…}`).

Validated by the harness only: `goBox` = the library, the tree-level `typedPath` = the streaming
decoder, and the executable IEEE instance.
-/
namespace Arc.C02
open Arc.Generated.C02

/-! ## observation -/

def maskItem : Item → Item
  | .col r => .col (maskRec r)
  | it => it

/-- accepted? / error class, measurement, columns (type, values, null positions), row count; a
generated time column is replaced by the marker `genTime` (see `maskRec`). -/
def observe : Outcome → Outcome
  | .ok its => .ok (its.map maskItem)
  | .error e => .error e

/-! ## fallback -/

/-- A typed miss runs exactly the generic path (trivial by construction of `Decode`). -/
theorem C02_fallback_sound (F : FloatSem) (san : Bytes → Bytes) (now : Int) (b : Bytes)
    (h : typedPath F san now b = none) :
    decodeWith F san true now b = decodeWith F san false now b := by
  simp [decodeWith, h]

/-- hence the flag can only matter on a typed hit -/
theorem C02_differs_only_on_hit (F : FloatSem) (san : Bytes → Bytes) (now : Int) (b : Bytes)
    (h : decodeWith F san true now b ≠ decodeWith F san false now b) :
    ∃ r, typedPath F san now b = some r := by
  cases hp : typedPath F san now b with
  | none => exact absurd (C02_fallback_sound F san now b hp) h
  | some r => exact ⟨r, rfl⟩

example : typedPath ⟨fun _ => 0, fun _ => 0, id, fun _ => false, fun _ => false, fun _ => 0,
    fun _ => false, fun _ => false, fun _ => true, fun _ => true, fun _ => true⟩ id 0 [0x90] = none := by
  decide

/-! ## witnesses: the full statement is false of the current tree -/

/-- `{"m":"x","columns":{"a":[1]},"z":fixext1(type 5)}` -/
def wSkip : Bytes :=
  [0x83, 0xa1, 0x6d, 0xa1, 0x78, 0xa7, 0x63, 0x6f, 0x6c, 0x75, 0x6d, 0x6e, 0x73, 0x81, 0xa1, 0x61,
   0x91, 0x01, 0xa1, 0x7a, 0xd4, 0x05, 0x00]

/-- `{"m":"x","columns":{"a":[1],"b":[2],"a":5}}` (fixed finding, commit d7052e6) -/
def wDup : Bytes :=
  [0x82, 0xa1, 0x6d, 0xa1, 0x78, 0xa7, 0x63, 0x6f, 0x6c, 0x75, 0x6d, 0x6e, 0x73, 0x83, 0xa1, 0x61,
   0x91, 0x01, 0xa1, 0x62, 0x91, 0x02, 0xa1, 0x61, 0x05]

/-- Finding 1: flag ON accepts (the unknown key's value is `Skip()`ped), flag OFF rejects
(`msgpack: unknown ext id=5`). Holds for every float semantics, sanitiser and clock. -/
theorem C02_full_witness_skip (F : FloatSem) (san : Bytes → Bytes) (now : Int) :
    decodeWith F san true now wSkip
        = .ok [.col ⟨[0x78], [⟨[0x61], .i64 [1], none⟩, ⟨timeName, .i64 [now], none⟩], 1, true⟩] ∧
    decodeWith F san false now wSkip = .error .unmarshal := by
  constructor <;> rfl

/-- the source still carries the fix (flag regenerated by factgen from `decodeTypedColumns`) -/
theorem C02_nonarray_dup_fallback : nonArrayDupFallsBack = true := by decide

/-- Regression of the fixed finding: a non-array value after an array under the same column key
makes the typed path fall back, so both settings run the generic path (column `a` dropped in both). -/
theorem C02_dup_nonarray_falls_back (F : FloatSem) (san : Bytes → Bytes) (now : Int) :
    typedPath F san now wDup = none ∧
    decodeWith F san true now wDup = decodeWith F san false now wDup := by
  have h : typedPath F san now wDup = none := by rfl
  exact ⟨h, by simp [decodeWith, h]⟩

/-- the witness is outside the carve-out; ordinary bodies (here the fixed one, which has a scalar as
non-array column value) are inside -/
theorem C02_witnesses_carved : Carve wSkip = false ∧ Carve wDup = true := by
  constructor <;> rfl

/-! ## the property under the carve-out -/

/-- **hit_agrees.** Whenever the typed fast path accepts a body inside `Carve`, the generic path
accepts it too and yields one columnar record with the same measurement, the same columns (type,
values, null positions), the same row count — equal up to the value of a generated time column. -/
theorem C02_hit_agrees_partial (F : FloatSem) (hF : FloatLaws F) (san : Bytes → Bytes) (now : Int)
    (b : Bytes) (r : TypedRec) (hc : Carve b = true) (h : typedPath F san now b = some r) :
    ∃ r', genericPath F san now b = .ok [.col r'] ∧ maskRec r' = maskRec r :=
  hit_agrees F san hF C02_nonarray_dup_fallback now b r hc h

/-- **C02 under the carve-out**: for every byte string inside `Carve`, switching the typed fast path
on or off does not change the observation. -/
theorem C02_full_partial (F : FloatSem) (hF : FloatLaws F) (san : Bytes → Bytes) (now : Int)
    (b : Bytes) (hc : Carve b = true) :
    observe (decodeWith F san true now b) = observe (decodeWith F san false now b) := by
  cases hp : typedPath F san now b with
  | none => rw [C02_fallback_sound F san now b hp]
  | some r =>
    obtain ⟨r', hg, hm⟩ := C02_hit_agrees_partial F hF san now b r hc hp
    simp [decodeWith, hp, hg, observe, maskItem, hm]

/-- acceptance is unchanged inside the carve-out -/
theorem C02_accept_iff_partial (F : FloatSem) (hF : FloatLaws F) (san : Bytes → Bytes) (now : Int)
    (b : Bytes) (hc : Carve b = true) :
    (∃ its, decodeWith F san true now b = .ok its) ↔ (∃ its, decodeWith F san false now b = .ok its) := by
  have h := C02_full_partial F hF san now b hc
  constructor <;> rintro ⟨its, hi⟩ <;> rw [hi] at h
  · cases hg : decodeWith F san false now b with
    | ok x => exact ⟨x, rfl⟩
    | error e => rw [hg] at h; simp [observe] at h
  · cases hg : decodeWith F san true now b with
    | ok x => exact ⟨x, rfl⟩
    | error e => rw [hg] at h; simp [observe] at h

/-- non-vacuity: a body with an ignored scalar key, a duplicate non-array-then-array column key and
no time column is inside `Carve` and is a typed hit -/
example : Carve [0x83, 0xa1, 0x6d, 0xa1, 0x78, 0xa1, 0x7a, 0x05, 0xa7, 0x63, 0x6f, 0x6c, 0x75, 0x6d,
    0x6e, 0x73, 0x82, 0xa1, 0x61, 0xc0, 0xa1, 0x61, 0x91, 0x01] = true := by rfl

example (F : FloatSem) (san : Bytes → Bytes) (now : Int) :
    (typedPath F san now [0x83, 0xa1, 0x6d, 0xa1, 0x78, 0xa1, 0x7a, 0x05, 0xa7, 0x63, 0x6f, 0x6c, 0x75,
      0x6d, 0x6e, 0x73, 0x82, 0xa1, 0x61, 0xc0, 0xa1, 0x61, 0x91, 0x01]).isSome = true := by rfl

/-! ## the WAL record (what the rows are rebuilt from after a crash) -/

/-- `Write` hands both record kinds to functions that log the raw client bytes (regenerated facts:
`typedWriteFn`, `genericWriteFn`, whether `r.RawPayload` is passed on and logged by
`AppendRawWithMeta`, and that both decoders put the request body into `RawPayload`). -/
theorem C02_write_dispatch :
    typedWriteFn = "writeTypedColumnarRaw" ∧ genericWriteFn = "writeColumnar" ∧
    typedWriteLogsRaw = true ∧ genericWriteLogsRaw = true := by decide

/-- **Same WAL record.** On a typed hit the fast path logs exactly the bytes the generic path logs:
the request body. Recovery is a function of the WAL bytes alone, so the rows (and null positions)
rebuilt after a crash are the same with the fast path on or off. -/
theorem C02_wal_entry_same (F : FloatSem) (san : Bytes → Bytes) (now : Int) (b : Bytes) (r : TypedRec)
    (_h : typedPath F san now b = some r) :
    walTyped b = walGeneric b ∧ (b ≠ [] → walTyped b = .raw b) := by
  have h := C02_write_dispatch
  refine ⟨by simp [walTyped, walGeneric, h.2.2.1, h.2.2.2], ?_⟩
  intro hb
  cases b with
  | nil => exact absurd rfl hb
  | cons x xs => simp [walTyped, h.2.2.1]

example : walTyped wDup = .raw wDup := by decide

/-! ## per-class agreement (the content of `C02_hit_agrees`) -/

section
variable (F : FloatSem) (san : Bytes → Bytes)

/-- int class: `decodeIntElemAsInt64` = `toInt64 ∘ box` (uint64 > MaxInt64 and out-of-range floats
reject on both sides; float32 through float64 by `FloatLaws`). -/
theorem C02_intElem_agrees (hF : FloatLaws F) {x : MV} {v : Int} (h : typedIntElem F x = some v) :
    goBox F x = .ok (boxS x) ∧ toInt64 F (sanVal san (boxS x)) = some v :=
  let ⟨hs, hv⟩ := intElem_agrees F san hF h
  ⟨goBox_scalar F hs, hv⟩

/-- float class: `decodeElemAsFloat64` = `toFloat64 ∘ box` -/
theorem C02_floatElem_agrees {x : MV} {v : Nat} (h : typedFloatElem F x = some v) :
    goBox F x = .ok (boxS x) ∧ toFloat64 F (sanVal san (boxS x)) = some v :=
  let ⟨hs, hv⟩ := floatElem_agrees F san h
  ⟨goBox_scalar F hs, hv⟩

/-- string class: str codes only, sanitised by the same function -/
theorem C02_strElem_agrees {x : MV} {v : Bytes} (h : typedStrElem san x = some v) :
    goBox F x = .ok (boxS x) ∧ gStr (sanVal san (boxS x)) = some v :=
  let ⟨hs, hv⟩ := strElem_agrees san h
  ⟨goBox_scalar F hs, hv⟩

theorem C02_boolElem_agrees {x : MV} {v : Bool} (h : typedBoolElem x = some v) :
    goBox F x = .ok (boxS x) ∧ gBool (sanVal san (boxS x)) = some v :=
  let ⟨hs, hv⟩ := boolElem_agrees san h
  ⟨goBox_scalar F hs, hv⟩

/-- time class: `int64(v)` of every numeric code = `toInt64Timestamp ∘ box` (uint64 wraps on both) -/
theorem C02_timeElem_agrees (hF : FloatLaws F) {x : MV} {t : Int} (h : typedTs F x = some t) :
    goBox F x = .ok (boxS x) ∧ toInt64Ts F (boxS x) = some t :=
  let ⟨hs, hv⟩ := timeElem_agrees F hF h
  ⟨goBox_scalar F hs, hv⟩

/-- **Value columns.** For every element list on which `decodeValueColumnTyped` succeeds — any mix
of encoding widths, nils anywhere, numeric cross-coercions, all-nil columns — the library boxes the
array to the element-wise boxing, and `sanitizeColumnarStrings` + `convertColumnsToTyped` produce
the same column type, the same values and the same null positions (validity present iff a nil). -/
theorem C02_valueColumn_agrees (hF : FloatLaws F) (name : Bytes) (hname : (name == timeName) = false)
    (xs : List MV) (d : Col) (vl : Option (List Bool))
    (h : typedValueCol F san xs = some (d, vl)) :
    goBoxL F xs = .ok (xs.map boxS) ∧
    convertCol F name ((xs.map boxS).map (sanVal san)) = some ⟨name, d, vl⟩ := by
  have := valueCol_agrees F san hF name hname xs d vl h
  refine ⟨goBoxL_scalars F this.1, ?_⟩
  have h2 := this.2
  have e : (xs.map boxS).map (sanVal san) = xs.map (bx san) := by
    simp [List.map_map, Function.comp_def, bx]
  rw [e]; exact h2

example : typedValueCol ⟨fun _ => 0, fun v => v.toNat, id, fun _ => false, fun _ => false, fun _ => 0,
    fun _ => false, fun _ => false, fun _ => true, fun _ => true, fun _ => true⟩ id
    [.nil, .f64 7, .int .fix 3, .uint .u64 5] = some (.f64 [0, 7, 3, 5], some [false, true, true, true]) := by
  decide

/-- **Time column.** Whenever `decodeTimeColumnTyped` succeeds, `normalizeTimestampColumns` on the
boxed column succeeds with the unit detected from element 0 (same table: `C02_units_same`), and the
typing chokepoint returns the same int64 microseconds, no validity. -/
theorem C02_timeColumn_agrees (hF : FloatLaws F) (xs : List MV) (ts : List Int) (hne : xs ≠ [])
    (h : typedTime F xs = some ts) :
    goBoxL F xs = .ok (xs.map boxS) ∧
    ∃ gts, normalizeTime F (xs.map boxS) = some gts ∧
      convertCol F timeName (gts.map (sanVal san)) = some ⟨timeName, .i64 ts, none⟩ := by
  have := timeCol_agrees F san hF xs ts hne h
  exact ⟨goBoxL_scalars F this.1, this.2⟩

example : typedTime ⟨fun _ => 0, fun _ => 0, id, fun _ => false, fun _ => false, fun _ => 0,
    fun _ => false, fun _ => false, fun _ => true, fun _ => true, fun _ => true⟩
    [.uint .u32 1700000000, .int .fix 5] = some [1700000000000000, 5000000] := by
  decide

/-- **Measurement.** `decodeMeasurementTyped` = `extractMeasurement ∘ box`. -/
theorem C02_measurement_agrees {x : MV} {m : Bytes} (h : typedMeas x = some m) :
    goBox F x = .ok (boxS x) ∧ extractMeas (some (boxS x)) = some m := by
  cases x <;> simp_all [typedMeas, goBox, boxS, extractMeas]

end

/-! ## wire format -/

/-- **Round trip** of the byte-level decoder against the encoder for every non-container value at
every encoding width (fixint ±, int8–64, uint8–64, float32/64, fixstr/str8–32, bin8–32,
fixext1–16, ext8–32, nil, bool), with arbitrary trailing bytes. -/
theorem C02_roundtrip_leaf (v : MV) (h : wfLeaf v) (rest : Bytes) :
    decode (encode v ++ rest) = some (v, rest) := decode_encode_leaf v h rest

example : wfLeaf (.int .i16 (-300)) := by simp [wfLeaf]

/-- container arms on a concrete nested value (array16 inside fixmap inside fixarray, trailing byte) -/
theorem C02_roundtrip_nested_example :
    decode (encode (.arr .fix [.map .fix [.str .fix [0x61], .arr .l16 [.nil, .uint .u8 200]], .f32 7]) ++ [0xc1])
      = some (.arr .fix [.map .fix [.str .fix [0x61], .arr .l16 [.nil, .uint .u8 200]], .f32 7], [0xc1]) := by
  rfl

/-! ## regenerated facts (re-checked on every run) -/

/-- both files use the same thresholds (1e10 / 1e13 / 1e16) and multipliers -/
theorem C02_units_same : typedUnits = normUnits ∧ typedUnitDefault = normUnitDefault := units_same

/-- both files truncate a float epoch to int64 BEFORE the unit scaling and scale with plain integer
`ts * multiplier` / `ts / divisor` (the statements of `decodeTimeColumnTyped` and
`normalizeTimestampColumns`, as source text) — what `typedTs`/`applyMult` and `toInt64Ts`/`normAll`
model, and what `C02_timeElem_agrees` / `C02_timeColumn_agrees` (typed = generic on every element)
stand on. A change that carries a fractional part through the scaling breaks this. -/
theorem C02_time_scaling :
    typedTimeElem = ["int64(v)", "v", "int64(f)"] ∧
    typedTimeScale = ["ts / -multiplier", "ts * multiplier"] ∧
    normTimeScale = ["ts / divisor", "ts / divisor", "ts * multiplier", "ts * multiplier"] := by decide

/-- … and they are the documented ones -/
theorem C02_units_table :
    normUnits = [(10000000000, 1000000), (10000000000000, 1000), (10000000000000000, 1)] ∧
    normUnitDefault = -1000 := by decide

/-- every dynamic numeric type `DecodeInterface` can produce is accepted by all three converters -/
def boxedNumericKinds : List String :=
  ["int8", "int16", "int32", "int64", "uint8", "uint16", "uint32", "uint64", "float32", "float64"]

theorem C02_accepted_kinds :
    boxedNumericKinds.all (fun k => toInt64Accepts.contains k && toFloat64Accepts.contains k &&
      toInt64TimestampAccepts.contains k) = true := by decide

/-- range guards: `toInt64` guards exactly uint/uint64/float32/float64, the other two none
(this is what `typedIntElem` / `typedTs` / `typedFloatElem` mirror) -/
theorem C02_guards :
    toInt64Guarded = ["uint", "uint64", "float32", "float64"] ∧ toFloat64Guarded = [] ∧
    toInt64TimestampGuarded = [] := by decide

/-- wire-code classes of the typed path: strings exclude bin, ints include every int/uint width -/
theorem C02_code_classes :
    isStrCodeCodes = ["IsFixedString", "Str8", "Str16", "Str32"] ∧
    isIntCodeCodes = ["IsFixedNum", "Int8", "Int16", "Int32", "Int64", "Uint8", "Uint16", "Uint32", "Uint64"] ∧
    isFloatCodeCodes = ["Float", "Double"] ∧ isBoolCodeCodes = ["True", "False"] ∧
    isArrayCodeCodes = ["IsFixedArray", "Array16", "Array32"] ∧
    isMapCodeCodes = ["IsFixedMap", "Map16", "Map32"] := by decide

/-- the typed pre-allocation cap is the one the model uses (2^20 ≥ the library's 10^6 slice cap) -/
theorem C02_prealloc : maxTypedPreallocElems = 2 ^ 20 ∧ 1000000 ≤ maxTypedPreallocElems := by decide

end Arc.C02
