import Arc.Model.C21
import Arc.Model.C21Current
import Arc.Generated.C21
import Arc.Proofs.C21.Full
import Arc.Proofs.C21.Auth
import Arc.Proofs.C21.After
import Arc.Model.C21Replay
/-!
# C21 — revoked, deleted or rotated token values stop authenticating immediately

Property theorems over the interleaving LTS of `Arc/Model/C21.lean` (any number of verifier threads,
one mutator, all interleavings, clock ticks and janitor runs anywhere).  Helper lemmas live in
`Arc/Proofs/C21/*`.

Outcome on the current tree (facts regenerated into `Arc.Generated.C21`):
* `C21_full` **holds** — but only because `NewAuthManager` pins the pool to one connection and
  `VerifyToken` keeps its `rows` open until it returns, so the mutator's SQL statement cannot run
  between a verifier's database read and its cache insert (`serialDB`; the generation guard is NOT in
  the source).  `C21_full_applies` re-checks exactly that fact on every run; without it the
  stale-insert schedule of DESIGN.md is a counterexample: `C21_full_witness`.  `C21_partial` needs
  neither protection.  All three additionally need `hitTouch = false`: the cache-hit path does not write
  the cache after its RUnlock (regenerated fact `hitPathWritesCache`; `C21_full_touch_witness` otherwise).
* `C21_authn_iff` **holds** since /repo b9131b8 (the cache-hit path re-checks the token's own
  `expires_at`): `C21_authn_applies` ties it to the source, `C21_authn_iff_current` is the checked full
  statement.  `C21_authn_expiry_witness` documents what happened before that commit (an expired token
  authenticated from the cache for up to one cache TTL); `C21_authn_iff_partial` holds regardless.
-/
namespace Arc.C21

/-! ## small helpers local to this file -/

theorem inv_cold {cfg : Cfg} {s : State} (hc : s.sh.cache = [])
    (hv : ∀ (i : Nat) (v : VThread), s.vs[i]? = some v → v.pc = .start) (hm : s.m.inval = true) :
    Inv cfg s := by
  refine ⟨?_, ?_, ?_, hm⟩
  · intro k e hke; rw [hc] at hke; simp at hke
  · intro i v hi hp
    have := hv i v hi
    rcases hp with h | h <;> rw [this] at h <;> simp at h
  · intro i v hi hp; exact absurd (hv i v hi) hp

theorem connOK_cold {s : State} (hv : ∀ (i : Nat) (v : VThread), s.vs[i]? = some v → v.pc = .start) :
    ConnOK s := by
  intro i v hi hh
  have := hv i v hi
  rcases hh with h | h | h <;> rw [this] at h <;> simp at h

theorem late_run {cfg : Cfg} {k i : Nat} (hnt : cfg.hitTouch = false) :
    ∀ (evs : List Ev) (s s' : State) (v : VThread), Inv cfg s → s.m.pc = .done → PostOK s k →
      s.vs[i]? = some v → Late k v → run cfg s evs = some s' → ∃ v', s'.vs[i]? = some v' ∧ Late k v' := by
  intro evs
  induction evs with
  | nil =>
    intro s s' v _ _ _ hv hL hr
    simp only [run, Option.some.injEq] at hr
    subst hr
    exact ⟨v, hv, hL⟩
  | cons e es ih =>
    intro s s' v hI hd hP hv hL hr
    simp only [run] at hr
    split at hr
    · simp at hr
    · rename_i s1 hs1
      have hI1 : Inv cfg s1 :=
        inv_step hnt hI hs1 (Or.inr (Or.inl (fun h => by rw [hd] at h; simp at h)))
      obtain ⟨hd1, v1, hv1, hL1⟩ := late_step hI hd hP hv hL hs1
      exact ih s1 s' v1 hI1 hd1 (postOK_step hP hs1) hv1 hL1 hr

/-! ## `C21_full` -/

/-- **The property (first sentence), for one configuration of the source facts.**
From any state the invariant allows (any earlier traffic, warm cache), along ANY interleaving `pre` in
which the mutator runs to completion, and ANY continuation `post`: a verification that had not started
when the mutator returned (`pc = start`, no result) and presents a value the mutation kills (any value
for revoke/delete; any value but the new one for rotate) never authenticates. -/
def FullClaim (cfg : Cfg) : Prop :=
  ∀ (s0 s1 s2 : State) (pre post : List Ev) (i : Nat) (v v' : VThread),
    Inv cfg s0 → (cfg.serialDB = true → ConnOK s0) → s0.m.pc = .start →
    run cfg s0 pre = some s1 → s1.m.pc = .done →
    s1.vs[i]? = some v → v.pc = .start → v.res = none →
    (∀ nv, s0.m.kind = .rotate nv → v.val ≠ nv) → (∀ e, s0.m.kind ≠ .setexp e) →
    run cfg s1 post = some s2 → s2.vs[i]? = some v' → v'.res ≠ some true

/-- **C21_full.** Holds whenever the source has at least one of the two protections: the serialising
single connection (today) or the generation-guarded insert (the proposed repair). Any `n`, all
interleavings. Second hypothesis: the cache-hit path does not write the cache after releasing the read
lock (`hitTouch = false`; `C21_full_touch_witness` shows it is needed even with the single connection). -/
theorem C21_full (cfg : Cfg) (hcfg : cfg.serialDB = true ∨ cfg.genGuard = true)
    (hnt : cfg.hitTouch = false) : FullClaim cfg := by
  intro s0 s1 s2 pre post i v v' hI hC hm0 h1 hdone hv hstart hres hold hkind h2 hv'
  have hI1 := (inv_conn_run hcfg hnt pre s0 s1 hI hC h1).1
  have hP0 : PostOK s0 v.val := ⟨⟨hold, hkind⟩, fun h => absurd hm0 h⟩
  have hP1 := postOK_run pre s0 s1 hP0 h1
  have hL : Late v.val v := ⟨rfl, by rw [hres]; simp, Or.inl hstart⟩
  obtain ⟨v'', hv'', hL''⟩ := late_run hnt post s1 s2 v hI1 hdone hP1 hv hL h2
  rw [hv'] at hv''
  simp only [Option.some.injEq] at hv''
  subst hv''
  exact hL''.2.1

/-- **C21_full_applies.** The facts regenerated from the CURRENT source provide a protection
(today: `db.SetMaxOpenConns(1)` + rows held across the insert). Editing either away without adding
the generation guard makes this `decide` fail. -/
theorem C21_full_applies :
    ((serialDBNow || Arc.Generated.C21.genGuard) && !Arc.Generated.C21.hitPathWritesCache) = true := by
  decide

/-- **C21_full_current.** The property for the LTS configured from the current source, any cache TTL
and cache size. -/
theorem C21_full_current (ttl maxCache : Nat) : FullClaim (currentCfg ttl maxCache) := by
  have h := C21_full_applies
  simp only [Bool.and_eq_true, Bool.or_eq_true, Bool.not_eq_eq_eq_not, Bool.not_true] at h
  exact C21_full _ h.1 h.2

/-- **C21_invalidation_sites.** Every mutator of the current source (direct and cluster-apply) calls
`InvalidateCache` after its SQL statement — the `inval = true` component of the invariant. -/
theorem C21_invalidation_sites : ∀ m ∈ Arc.Generated.C21.mutators, m.2.2.2 = true := by decide

/-! ### the counterexample DESIGN.md predicted — real only without `serialDB` and `genGuard` -/

def cfgUnprotected : Cfg :=
  { serialDB := false, genGuard := false, hitChecksExpiry := false, hitTouch := false, ttl := 3600, maxCache := 100 }

def rowA : Row := { hashOf := 1, legacy := false, enabled := true, expiry := none }

def sA : State :=
  { sh := { db := some rowA, cache := [], gen := 0, now := 0, conn := none }
    vs := [{ val := 1 }, { val := 1 }]
    m := { kind := .revoke, cluster := false, inval := true } }

/-- V.lookup V.dbread │ M.dbupdate M.invalidate │ V.hashcheck V.insert V.return │ V'.lookup -/
def staleInsertPre : List Ev := [.v 0, .v 0, .m, .m]
def staleInsertPost : List Ev := [.v 0, .v 0, .v 0, .v 1, .v 1]

theorem two_at_start (a b : VThread) (ha : a.pc = .start) (hb : b.pc = .start) :
    ∀ (i : Nat) (v : VThread), [a, b][i]? = some v → v.pc = .start := by
  intro i v h
  match i with
  | 0 => simp at h; subst h; exact ha
  | 1 => simp at h; subst h; exact hb
  | n + 2 => simp at h

/-- **C21_full_witness.** With a pool larger than one connection (or rows closed before the insert)
and no generation guard, a verifier that read the row before the revoke inserts its cache entry after
the invalidation, and a verification that starts after `RevokeToken` returned authenticates. -/
theorem C21_full_witness : ¬ FullClaim cfgUnprotected := by
  intro h
  have hat := two_at_start { val := 1 } { val := 1 } rfl rfl
  have hI : Inv cfgUnprotected sA := inv_cold rfl hat rfl
  have h2 : ∃ s1 s2, run cfgUnprotected sA staleInsertPre = some s1 ∧
      run cfgUnprotected s1 staleInsertPost = some s2 ∧
      s1.m.pc = .done ∧ s1.vs[1]? = some { val := 1 } ∧ s2.vs[1]?.map (·.res) = some (some true) :=
    ⟨_, _, rfl, rfl, rfl, rfl, rfl⟩
  obtain ⟨s1, s2, hs1, hs2, hd, hv1, hr⟩ := h2
  cases hv' : s2.vs[1]? with
  | none => rw [hv'] at hr; simp at hr
  | some v' =>
    rw [hv'] at hr
    simp only [Option.map_some, Option.some.injEq] at hr
    exact h sA s1 s2 staleInsertPre staleInsertPost 1 { val := 1 } v' hI (fun hh => by simp [cfgUnprotected] at hh)
      rfl hs1 hd hv1 rfl rfl (fun nv hk => by simp [sA] at hk) (fun e hk => by simp [sA] at hk) hs2 hv' hr

/-! ### a cache-hit path that writes the cache defeats the single connection -/

def cfgTouch : Cfg :=
  { serialDB := true, genGuard := false, hitChecksExpiry := true, hitTouch := true, ttl := 3600, maxCache := 100 }

/-- warm cache: the entry for value 1 was inserted at t=0 (expires 3600); it is now t=2000, past half. -/
def sT : State :=
  { sh := { db := some rowA, cache := [(1, { info := rowA, cexp := 3600 })], gen := 0, now := 2000, conn := none }
    vs := [{ val := 1 }, { val := 1 }]
    m := { kind := .revoke, cluster := false, inval := true } }

/-- **C21_full_touch_witness.** With a sliding-expiration re-insert on the hit path (seeded change
C21-b2): V.lookup(hit) │ M.dbupdate M.invalidate │ V.touch+return │ V'.lookup(hit) — the revoked value
authenticates from the cache after `RevokeToken` returned, single connection notwithstanding. -/
theorem C21_full_touch_witness : ¬ FullClaim cfgTouch := by
  intro h
  have hat := two_at_start { val := 1 } { val := 1 } rfl rfl
  have hI : Inv cfgTouch sT := by
    refine ⟨?_, ?_, ?_, rfl⟩
    · intro k e hke
      simp [sT] at hke
      obtain ⟨hk, he⟩ := hke
      subst hk; subst he
      exact Or.inl ⟨⟨rfl, rfl⟩, rfl⟩
    · intro i v hi hp
      have := hat i v hi
      rcases hp with hp | hp <;> rw [this] at hp <;> simp at hp
    · intro i v hi hp; exact absurd (hat i v hi) hp
  have h2 : ∃ s1 s2, run cfgTouch sT [.v 0, .m, .m] = some s1 ∧
      run cfgTouch s1 [.v 0, .v 1, .v 1] = some s2 ∧
      s1.m.pc = .done ∧ s1.vs[1]? = some { val := 1 } ∧ s2.vs[1]?.map (·.res) = some (some true) :=
    ⟨_, _, rfl, rfl, rfl, rfl, rfl⟩
  obtain ⟨s1, s2, hs1, hs2, hd, hv1, hr⟩ := h2
  cases hv' : s2.vs[1]? with
  | none => rw [hv'] at hr; simp at hr
  | some v' =>
    rw [hv'] at hr
    simp only [Option.map_some, Option.some.injEq] at hr
    exact h sT s1 s2 _ _ 1 { val := 1 } v' hI (fun _ => connOK_cold hat)
      rfl hs1 hd hv1 rfl rfl (fun nv hk => by simp [sT] at hk) (fun e hk => by simp [sT] at hk) hs2 hv' hr

/-! ## `C21_partial` — no assumption on the source facts -/

def noReaders (s : State) : Bool := s.vs.all (fun v => v.pc != .row && v.pc != .preins)

/-- decidable carve-out: whenever the mutator's SQL statement executes, no verification sits between
its database read and its cache insert (in particular: no verification in flight across the mutation). -/
def quietAtUpdate (cfg : Cfg) : State → List Ev → Bool
  | _, [] => true
  | s, e :: es =>
    (if e = Ev.m ∧ s.m.pc = MPc.start then noReaders s else true) &&
      (match step cfg s e with
       | none => true
       | some s' => quietAtUpdate cfg s' es)

theorem noReaders_sound {s : State} (h : noReaders s = true) : NoReaders s := by
  intro i v hi
  unfold noReaders at h
  rw [List.all_eq_true] at h
  have := h v (List.mem_of_getElem? hi)
  simp at this
  exact this

theorem inv_run_quiet {cfg : Cfg} (hnt : cfg.hitTouch = false) :
    ∀ (evs : List Ev) (s s' : State), Inv cfg s → quietAtUpdate cfg s evs = true →
      run cfg s evs = some s' → Inv cfg s' := by
  intro evs
  induction evs with
  | nil =>
    intro s s' hI _ hr
    simp only [run, Option.some.injEq] at hr
    subst hr
    exact hI
  | cons e es ih =>
    intro s s' hI hq hr
    simp only [run] at hr
    split at hr
    · simp at hr
    · rename_i s1 hs1
      simp only [quietAtUpdate, hs1, Bool.and_eq_true] at hq
      have hsafe : cfg.genGuard = true ∨ ¬ (e = .m ∧ s.m.pc = .start) ∨ NoReaders s := by
        by_cases hm : e = .m ∧ s.m.pc = .start
        · right; right
          have := hq.1
          rw [if_pos hm] at this
          exact noReaders_sound this
        · exact Or.inr (Or.inl hm)
      exact ih s1 s' (inv_step hnt hI hs1 hsafe) hq.2 hr

/-- **C21_partial.** For EVERY configuration of the source facts (no single connection, no generation
guard): if no verification holds a database row at the moment the mutator's SQL statement runs, then
no verification started after the mutator returned authenticates the old value. -/
theorem C21_partial (cfg : Cfg) (hnt : cfg.hitTouch = false)
    (s0 s1 s2 : State) (pre post : List Ev) (i : Nat) (v v' : VThread)
    (hI : Inv cfg s0) (hm0 : s0.m.pc = .start)
    (hquiet : quietAtUpdate cfg s0 pre = true)
    (h1 : run cfg s0 pre = some s1) (hdone : s1.m.pc = .done)
    (hv : s1.vs[i]? = some v) (hstart : v.pc = .start) (hres : v.res = none)
    (hold : ∀ nv, s0.m.kind = .rotate nv → v.val ≠ nv) (hkind : ∀ e, s0.m.kind ≠ .setexp e)
    (h2 : run cfg s1 post = some s2) (hv' : s2.vs[i]? = some v') : v'.res ≠ some true := by
  have hI1 := inv_run_quiet hnt pre s0 s1 hI hquiet h1
  have hP0 : PostOK s0 v.val := ⟨⟨hold, hkind⟩, fun h => absurd hm0 h⟩
  have hP1 := postOK_run pre s0 s1 hP0 h1
  have hL : Late v.val v := ⟨rfl, by rw [hres]; simp, Or.inl hstart⟩
  obtain ⟨v'', hv'', hL''⟩ := late_run hnt post s1 s2 v hI1 hdone hP1 hv hL h2
  rw [hv'] at hv''
  simp only [Option.some.injEq] at hv''
  subst hv''
  exact hL''.2.1

/-! ## `C21_authn_iff` — a value authenticates only if issued, enabled and not expired -/

/-- **The property (second sentence).** Along any interleaving from a state whose cache is justified
(`Auth`, e.g. a cold start: `auth_cold`), a verification that returned a TokenInfo is justified by a row
`r` the database held (before or after the mutation) with: the stored hash verifies the presented value
(issued), `enabled`, and not expired at the verification's own clock reading. -/
def AuthnClaim (cfg : Cfg) : Prop :=
  ∀ (s0 s1 : State) (evs : List Ev) (i : Nat) (v : VThread),
    Auth cfg s0.sh.db s0 → run cfg s0 evs = some s1 → s1.vs[i]? = some v → v.res = some true →
    ∃ r, (s0.sh.db = some r ∨ s1.sh.db = some r) ∧ r.hashOf = v.val ∧ r.enabled = true ∧
      expired r.expiry v.now = false

/-- **C21_authn_iff.** Holds for every configuration in which the cache-hit path re-checks the
token's own expiry (the current source since b9131b8, see `C21_authn_applies`). Sequential and
concurrent. -/
theorem C21_authn_iff (cfg : Cfg) (hx : cfg.hitChecksExpiry = true) (hnt : cfg.hitTouch = false) :
    AuthnClaim cfg := by
  intro s0 s1 evs i v hA hr hv hres
  obtain ⟨r, hseen, hen, hh, hu⟩ := (auth_run hnt evs s0 s1 hA hr).res i v hv hres
  refine ⟨r, hseen, hh, hen, ?_⟩
  cases he : r.expiry with
  | none => simp [expired]
  | some t =>
    rcases hu t he with h | h
    · simp only [expired, decide_eq_false_iff_not]; omega
    · rw [hx] at h; simp at h

/-- **C21_authn_iff_partial.** What holds for EVERY configuration, the current source included:
issued ∧ enabled ∧ (not expired, or — via a cache hit — less than one cache TTL past the expiry).
In particular the full statement holds for tokens without an expiry and when caching is off. -/
theorem C21_authn_iff_partial (cfg : Cfg) (hnt : cfg.hitTouch = false)
    (s0 s1 : State) (evs : List Ev) (i : Nat) (v : VThread)
    (hA : Auth cfg s0.sh.db s0) (hr : run cfg s0 evs = some s1) (hv : s1.vs[i]? = some v)
    (hres : v.res = some true) :
    ∃ r, (s0.sh.db = some r ∨ s1.sh.db = some r) ∧ r.hashOf = v.val ∧ r.enabled = true ∧
      (∀ t, r.expiry = some t → v.now < t + cfg.ttl ∨ v.now ≤ t) ∧
      ((r.expiry = none ∨ cfg.ttl = 0) → expired r.expiry v.now = false) := by
  obtain ⟨r, hseen, hen, hh, hu⟩ := (auth_run hnt evs s0 s1 hA hr).res i v hv hres
  refine ⟨r, hseen, hh, hen, ?_, ?_⟩
  · intro t ht
    rcases hu t ht with h | h
    · exact Or.inr h
    · exact Or.inl h.2
  · intro hc
    cases he : r.expiry with
    | none => simp [expired]
    | some t =>
      rcases hc with hc | hc
      · rw [he] at hc; simp at hc
      · rcases hu t he with h | h
        · simp only [expired, decide_eq_false_iff_not]; omega
        · simp only [expired, decide_eq_false_iff_not]; omega

/-- **C21_authn_seq.** Sequential exactness: with no mutation in the history, a value authenticates
only if the row the database holds NOW carries a hash of that value and is enabled. -/
theorem C21_authn_seq (cfg : Cfg) (hnt : cfg.hitTouch = false) (s0 s1 : State) (evs : List Ev) (i : Nat) (v : VThread)
    (hA : Auth cfg s0.sh.db s0) (hm0 : s0.m.pc = .start) (hnom : ∀ e ∈ evs, e ≠ Ev.m)
    (hr : run cfg s0 evs = some s1) (hv : s1.vs[i]? = some v) (hres : v.res = some true) :
    ∃ r, s1.sh.db = some r ∧ r.hashOf = v.val ∧ r.enabled = true := by
  have hA1 := auth_run hnt evs s0 s1 hA hr
  obtain ⟨r, hseen, hen, hh, _⟩ := hA1.res i v hv hres
  have hm : s1.m.pc = .start := by rw [run_no_m evs s0 s1 hnom hr]; exact hm0
  have hdb := hA1.dbfix hm
  refine ⟨r, ?_, hh, hen⟩
  rcases hseen with h | h
  · rw [hdb]; exact h
  · exact h

/-! ### the expiry counterexample — real before /repo b9131b8, kept as the tightness witness -/

def cfgNoHitExpiry : Cfg :=
  { serialDB := true, genGuard := false, hitChecksExpiry := false, hitTouch := false, ttl := 3600, maxCache := 100 }

def sE : State :=
  { sh := { db := some { hashOf := 1, legacy := false, enabled := true, expiry := some 10 },
            cache := [], gen := 0, now := 0, conn := none }
    vs := [{ val := 1 }, { val := 1 }]
    m := { kind := .revoke, cluster := false, inval := true } }

/-- verify at t=0 (fills the cache), clock to t=60 (token expired at t=10), verify again: cache hit. -/
def expiryTrace : List Ev := [.v 0, .v 0, .v 0, .v 0, .v 0, .tick 60, .v 1, .v 1]

/-- **C21_authn_expiry_witness.** Without the expiry re-check on the cache-hit path an expired token
authenticates (sequentially — no concurrency needed). -/
theorem C21_authn_expiry_witness : ¬ AuthnClaim cfgNoHitExpiry := by
  intro h
  have hA : Auth cfgNoHitExpiry sE.sh.db sE := by
    apply auth_cold rfl
    intro i v hi
    match i with
    | 0 => simp [sE] at hi; subst hi; exact ⟨rfl, rfl⟩
    | 1 => simp [sE] at hi; subst hi; exact ⟨rfl, rfl⟩
    | n + 2 => simp [sE] at hi
  have h2' : ∃ s1, run cfgNoHitExpiry sE expiryTrace = some s1 ∧
      s1.vs[1]?.map (fun v => (v.res, v.now, v.val)) = some (some true, 60, 1) ∧
      s1.sh.db = some { hashOf := 1, legacy := false, enabled := true, expiry := some 10 } :=
    ⟨_, rfl, rfl, rfl⟩
  obtain ⟨s1, hs1, h2⟩ := h2'
  cases hv : s1.vs[1]? with
  | none => rw [hv] at h2; simp at h2
  | some v =>
    rw [hv] at h2
    simp only [Option.map_some, Option.some.injEq, Prod.mk.injEq] at h2
    obtain ⟨⟨hres, hnow, _⟩, hdb⟩ := h2
    obtain ⟨r, hseen, _, _, hexp⟩ := h sE s1 expiryTrace 1 v hA hs1 hv hres
    have hr : r = { hashOf := 1, legacy := false, enabled := true, expiry := some 10 } := by
      rcases hseen with hs | hs
      · simp [sE] at hs; exact hs.symm
      · rw [hdb] at hs; simp at hs; exact hs.symm
    subst hr
    rw [hnow] at hexp
    simp [expired] at hexp

/-- **C21_authn_applies.** The CURRENT source re-checks `entry.info.ExpiresAt` in the cache-hit
condition of `VerifyToken` (fixed in /repo b9131b8). Removing that conjunct makes this `decide` fail. -/
theorem C21_authn_applies :
    (Arc.Generated.C21.hitChecksExpiry && !Arc.Generated.C21.hitPathWritesCache) = true := by decide

/-- **C21_authn_iff_current.** The second sentence of the property at full strength for the LTS
configured from the current source, any cache TTL and cache size. -/
theorem C21_authn_iff_current (ttl maxCache : Nat) : AuthnClaim (currentCfg ttl maxCache) := by
  have h := C21_authn_applies
  simp only [Bool.and_eq_true, Bool.not_eq_eq_eq_not, Bool.not_true] at h
  exact C21_authn_iff _ h.1 h.2

/-- what the regenerated facts say about the expiry clause today: the full claim once the cache-hit
path re-checks `ExpiresAt`, the counterexample until then. Re-checked on every run. -/
def ExpiryClaimNow : Prop :=
  if (Arc.Generated.C21.hitChecksExpiry && !Arc.Generated.C21.hitPathWritesCache) = true then
    ∀ ttl maxCache, AuthnClaim (currentCfg ttl maxCache)
  else ¬ AuthnClaim cfgNoHitExpiry

/-- **C21_authn_current.** Proved for whichever branch the current source selects. -/
theorem C21_authn_current : ExpiryClaimNow := by
  unfold ExpiryClaimNow
  split
  · rename_i hx
    intro ttl maxCache
    simp only [Bool.and_eq_true, Bool.not_eq_eq_eq_not, Bool.not_true] at hx
    exact C21_authn_iff _ hx.1 hx.2
  · exact C21_authn_expiry_witness

/-! ## after the mutator returned: every later success is justified by the CURRENT row
(covers `UpdateToken`/`ApplyUpdateToken` changing `expires_at` — the "has not expired" clause after a
shortened expiry — as well as revoke/delete/rotate) -/

theorem lateauth_run {cfg : Cfg} {i : Nat} (hx : cfg.hitChecksExpiry = true) (hnt : cfg.hitTouch = false) :
    ∀ (evs : List Ev) (s s' : State) (v : VThread), Inv cfg s → s.m.pc = .done →
      s.vs[i]? = some v → LateAuth s.sh.db v → run cfg s evs = some s' →
      s'.sh.db = s.sh.db ∧ ∃ v', s'.vs[i]? = some v' ∧ LateAuth s'.sh.db v' := by
  intro evs
  induction evs with
  | nil =>
    intro s s' v _ _ hv hL hr
    simp only [run, Option.some.injEq] at hr
    subst hr
    exact ⟨rfl, v, hv, hL⟩
  | cons e es ih =>
    intro s s' v hI hd hv hL hr
    simp only [run] at hr
    split at hr
    · simp at hr
    · rename_i s1 hs1
      have hI1 : Inv cfg s1 :=
        inv_step hnt hI hs1 (Or.inr (Or.inl (fun h => by rw [hd] at h; simp at h)))
      obtain ⟨hd1, hdb1, v1, hv1, hL1⟩ := lateauth_step hx hI hd hv hL hs1
      obtain ⟨hdb, h⟩ := ih s1 s' v1 hI1 hd1 hv1 hL1 hr
      exact ⟨hdb.trans hdb1, h⟩

/-- **C21_authn_after_return.** From any invariant state in which the mutator (ANY kind: revoke, delete,
rotate, expiry update) has returned, along any interleaving: a verification that had not started
authenticates only if the row the database holds now — the post-mutation row — is enabled, carries a
hash of the presented value and is not expired at the verification's own clock reading. Needs the
cache-hit expiry re-check, a hit path that does not write the cache, and (inside `Inv`) that the mutator
invalidated the cache (`C21_invalidation_sites`: every mutator, `UpdateToken` included, unconditionally). -/
theorem C21_authn_after_return (cfg : Cfg) (hx : cfg.hitChecksExpiry = true) (hnt : cfg.hitTouch = false)
    (s1 s2 : State) (post : List Ev) (i : Nat) (v v' : VThread)
    (hI : Inv cfg s1) (hdone : s1.m.pc = .done)
    (hv : s1.vs[i]? = some v) (hstart : v.pc = .start) (hres : v.res = none)
    (h2 : run cfg s1 post = some s2) (hv' : s2.vs[i]? = some v') (hok : v'.res = some true) :
    ∃ r, s1.sh.db = some r ∧ r.enabled = true ∧ r.hashOf = v'.val ∧ expired r.expiry v'.now = false := by
  obtain ⟨hdb, v'', hv'', hL⟩ := lateauth_run hx hnt post s1 s2 v hI hdone hv (Or.inl ⟨hstart, hres⟩) h2
  rw [hv'] at hv''
  simp only [Option.some.injEq] at hv''
  subst hv''
  rw [hdb] at hL
  rcases hL with ⟨_, h⟩ | ⟨_, e, _, hg⟩ | ⟨_, h⟩ | ⟨_, h, _⟩ | ⟨_, r, _, hg⟩ | ⟨_, h⟩ | ⟨_, h⟩
  · rw [h] at hok; simp at hok
  · exact ⟨e.info, hg⟩
  · rw [h] at hok; simp at hok
  · rw [h] at hok; simp at hok
  · exact ⟨r, hg⟩
  · rw [h] at hok; simp at hok
  · exact h hok

/-- **C21_authn_after_return_current.** …for the LTS configured from the current source, from any state
before the mutation (invariant + connection discipline) through any interleaving `pre` completing it. -/
theorem C21_authn_after_return_current (ttl maxCache : Nat)
    (s0 s1 s2 : State) (pre post : List Ev) (i : Nat) (v v' : VThread)
    (hI : Inv (currentCfg ttl maxCache) s0) (hC : (currentCfg ttl maxCache).serialDB = true → ConnOK s0)
    (h1 : run (currentCfg ttl maxCache) s0 pre = some s1) (hdone : s1.m.pc = .done)
    (hv : s1.vs[i]? = some v) (hstart : v.pc = .start) (hres : v.res = none)
    (h2 : run (currentCfg ttl maxCache) s1 post = some s2) (hv' : s2.vs[i]? = some v')
    (hok : v'.res = some true) :
    ∃ r, s1.sh.db = some r ∧ r.enabled = true ∧ r.hashOf = v'.val ∧ expired r.expiry v'.now = false := by
  have hf := C21_full_applies
  have ha := C21_authn_applies
  simp only [Bool.and_eq_true, Bool.or_eq_true, Bool.not_eq_eq_eq_not, Bool.not_true] at hf ha
  have hI1 := (inv_conn_run hf.1 hf.2 pre s0 s1 hI hC h1).1
  exact C21_authn_after_return _ ha.1 ha.2 s1 s2 post i v v' hI1 hdone hv hstart hres h2 hv' hok

/-! ## cluster-apply LOG REPLAY (node restart re-applies the Raft log against the persistent row) -/

/-- **C21_replay_create_fact.** In the current source an identical replayed `ApplyCreateToken` returns
before any write and the INSERT is not an upsert. -/
theorem C21_replay_create_fact : Arc.Generated.C21.createReplayNoop = true := by decide

/-- **C21_replay_create_inert.** Under that fact a replayed create never changes an existing row. -/
theorem C21_replay_create_inert (db : Option Row) (r : Row) (h : db ≠ none) :
    applyEntry true db (.create r) = db := by
  cases db with
  | none => exact absurd rfl h
  | some r0 => simp only [applyEntry]; split <;> rfl

theorem replay_disabled_entry (r : Row) (hr : r.enabled = false) (x : LogEntry) (hx : x ≠ .mutate .delete) :
    ∃ r', applyEntry true (some r) x = some r' ∧ r'.enabled = false := by
  cases x with
  | create c => exact ⟨r, by simp only [applyEntry]; split <;> rfl, hr⟩
  | mutate k =>
    cases k with
    | revoke => exact ⟨_, rfl, rfl⟩
    | delete => exact absurd rfl hx
    | rotate nv => exact ⟨_, rfl, hr⟩
    | setexp e => exact ⟨_, rfl, hr⟩

/-- **C21_replay_revoked_stays.** Under that fact, re-applying ANY log without a delete entry (in
particular any prefix of the node's own log) over a revoked row never re-enables it: a revoked token is
rejected after every replayed entry, for every value and clock reading. -/
theorem C21_replay_revoked_stays (L : List LogEntry) (r : Row) (hr : r.enabled = false)
    (hnd : ∀ x ∈ L, x ≠ LogEntry.mutate .delete) (val now : Nat) :
    accepts (applyLog true (some r) L) val now = false := by
  induction L generalizing r with
  | nil => simp [applyLog, accepts, hr]
  | cons x xs ih =>
    obtain ⟨r', h1, h2⟩ := replay_disabled_entry r hr x (hnd x (by simp))
    simp only [applyLog, h1]
    exact ih r' h2 (fun y hy => hnd y (by simp [hy]))

/-- **C21_replay_witness.** With an upsert on the identical-replay branch (seeded change C21-c1):
create, revoke, restart — the replayed create re-enables the row and the revoked value authenticates. -/
theorem C21_replay_witness :
    accepts (applyLog false none [.create rowA, .mutate .revoke]) 1 0 = false ∧
    accepts (applyLog false (applyLog false none [.create rowA, .mutate .revoke]) [.create rowA]) 1 0 = true := by
  decide

/-- **C21_replay_window_witness.** What the model (and the real `Apply*Token`, see the harness tags
`replay-window:*`) does under replay even WITH the fact: a deleted row is re-inserted by the replayed
create until the replayed delete lands; the value of an intermediate rotation, and a longer earlier
expiry, come back until the later entry is re-applied. These are outside `C21_replay_revoked_stays`. -/
theorem C21_replay_window_witness :
    (accepts (applyLog true none [.create rowA, .mutate .delete]) 1 0 = false ∧
      accepts (applyLog true (applyLog true none [.create rowA, .mutate .delete]) [.create rowA]) 1 0 = true) ∧
    (accepts (applyLog true none [.create rowA, .mutate (.rotate 2), .mutate (.rotate 3)]) 2 0 = false ∧
      accepts (applyLog true (applyLog true none [.create rowA, .mutate (.rotate 2), .mutate (.rotate 3)])
        [.create rowA, .mutate (.rotate 2)]) 2 0 = true) ∧
    (accepts (applyLog true none [.create rowA, .mutate (.setexp (some 100)), .mutate (.setexp (some 10))]) 1 60 = false ∧
      accepts (applyLog true (applyLog true none [.create rowA, .mutate (.setexp (some 100)), .mutate (.setexp (some 10))])
        [.create rowA, .mutate (.setexp (some 100))]) 1 60 = true) := by
  decide

/-! ## non-vacuity -/

def cfgSerial : Cfg :=
  { serialDB := true, genGuard := false, hitChecksExpiry := false, hitTouch := false, ttl := 3600, maxCache := 100 }

/-- hypotheses of `C21_full` are satisfiable with real concurrency: v0 authenticates and is cached,
v1 holds the row (so the revoke has to wait: the `.m` step is *disabled* there), v1 inserts and
returns, the revoke runs and invalidates; v2 starts afterwards and is refused. -/
example :
    (run cfgSerial { sA with vs := [{ val := 1 }, { val := 1 }, { val := 1 }] }
        [.v 0, .v 0, .v 0, .v 0, .v 0, .tick 3600, .v 1, .v 1]).map
      (fun s => (step cfgSerial s .m).isNone) = some true ∧
    (run cfgSerial { sA with vs := [{ val := 1 }, { val := 1 }, { val := 1 }] }
        [.v 0, .v 0, .v 0, .v 0, .v 0, .tick 3600, .v 1, .v 1, .v 1, .v 1, .v 1, .m, .m, .v 2, .v 2, .v 2]).map
      (fun s => (s.m.pc, s.vs.map (·.res), s.sh.cache.length)) =
      some (.done, [some true, some true, some false], 0) := by
  constructor <;> decide

/-- hypotheses of `C21_authn_iff` / `_partial`: a cold start satisfies `Auth`, and a run with a real
success exists (v0 above). -/
example : Auth cfgSerial sE.sh.db sE ∧
    (run cfgSerial sE [.v 0, .v 0, .v 0, .v 0, .v 0]).map (fun s => s.vs.map (·.res)) =
      some [some true, none] := by
  constructor
  · apply auth_cold rfl
    intro i v hi
    match i with
    | 0 => simp [sE] at hi; subst hi; exact ⟨rfl, rfl⟩
    | 1 => simp [sE] at hi; subst hi; exact ⟨rfl, rfl⟩
    | n + 2 => simp [sE] at hi
  · decide

/-- the carve-out of `C21_partial` is satisfiable without any protection in the source. -/
example : quietAtUpdate cfgUnprotected sA [.v 0, .v 0, .v 0, .v 0, .v 0, .m, .m, .v 1, .v 1, .v 1] = true ∧
    (run cfgUnprotected sA [.v 0, .v 0, .v 0, .v 0, .v 0, .m, .m, .v 1, .v 1, .v 1]).map
      (fun s => s.vs.map (·.res)) = some [some true, some false] := by
  constructor <;> decide

end Arc.C21
