import Arc.Model.C30
import Arc.Generated.C30
/-!
# C30 — requests are served by a capable node after at most one forward

Property theorems `C30_*` over the model of `Arc/Model/C30.lean`.  The capability table, the roles the
registry getters compare against, the marker/strip lists and the headers `doForward` sets are the
REGENERATED facts of `Arc.Generated.C30`; the finite facts about them are discharged by `decide`
(so they are re-checked against the current source) and lifted by the lemmas below to registries,
header lists and clusters of any size.
-/
namespace Arc.C30
open Arc.Generated.C30

/-! ## finite facts about the regenerated tables (all by `decide`) -/

/-- Every role a registry getter selects as a forward target can serve what is forwarded to it:
writers (and the primary writer) ingest and query, readers query. -/
theorem C30_target_roles_capable :
    (caps writersRole).canIngest = true ∧ (caps writersRole).canQuery = true ∧
    (caps primaryRole).canIngest = true ∧ (caps readersRole).canQuery = true := by decide

/-- The last `Header.Set` of the marker in `doForward` takes its value from the local node id. -/
def lastSet : List (String × String) → String → Option String → Option String
  | [], _, acc => acc
  | ks :: rest, k, acc => lastSet rest k (if ks.1 == k then some ks.2 else acc)

theorem C30_marker_set_from_local_id : lastSet forwardSets forwardedByHeader none = some "localID" := by
  decide

/-- Every header `doForward` sets, and the marker itself, is on the strip list of `BuildHTTPRequest`
(so a client copy can never sit next to, or instead of, the trusted value). -/
theorem C30_set_headers_are_stripped :
    stripped forwardedByHeader = true ∧ ∀ ks ∈ forwardSets, stripped ks.1 = true := by decide

/-- Every handler that forwards pairs the write decision with `RouteWrite` and the query decision with
`RouteQuery` (factgen also checks that neither case can fall through to `localProcessing`). -/
theorem C30_handler_sites_paired : ∀ s ∈ handlerSites,
    (s.2.1 = "WriteForwardDecision" ∧ s.2.2 = "RouteWrite") ∨
    (s.2.1 = "QueryForwardDecision" ∧ s.2.2 = "RouteQuery") := by decide

/-- **C30_route_reads_registry_each_call.** `RouteWrite` / `RouteQuery` resolve the target from the
registry getters on every call and the Router has no field in which a resolved target could be
remembered across calls: its only mutable routing state is the two round-robin counters and the
active-connection map.  This is what licenses the model's *stateless* `route` (a function of the
registry content at request time); a memoised target (new field, new helper, a getter moved out of
the route functions) changes these regenerated tables and breaks this `decide`. -/
theorem C30_route_reads_registry_each_call :
    routerFields = [("cfg", "*RouterConfig"), ("httpClient", "*http.Client"), ("logger", "zerolog.Logger"),
      ("readerIndex", "atomic.Uint64"), ("writerIndex", "atomic.Uint64"),
      ("activeConns", "map[string]*atomic.Int64"), ("activeConnsMu", "sync.RWMutex")] ∧
    routeWriteGetters = ["GetPrimaryWriter", "GetWriters"] ∧
    routeQueryGetters = ["GetReaders", "GetWriters"] ∧
    routeWriteUses = ["cfg", "logger", "selectWriter", "forwardRequest"] ∧
    routeQueryUses = ["cfg", "logger", "selectNode", "forwardRequest"] := by decide

theorem role_mem_all (r : Role) : r ∈ Role.all := by cases r <;> decide

/-- The full decision table over the regenerated roles: with a router, a role that can serve the
request type decides `local` whatever the marker; one that cannot decides `alreadyForwarded` for a
marked request and `toPeer` for an unmarked one. -/
theorem C30_decision_table : ∀ r ∈ Role.all, ∀ isWrite ∈ [true, false],
    decideForward none isWrite "" = .local ∧ decideForward none isWrite "x" = .local ∧
    (canServe r isWrite = true →
      decideForward (some (some r)) isWrite "" = .local ∧ decideForward (some (some r)) isWrite "x" = .local) ∧
    (canServe r isWrite = false →
      decideForward (some (some r)) isWrite "" = .toPeer ∧
      decideForward (some (some r)) isWrite "x" = .alreadyForwarded) := by decide

/-! ## helper lemmas (not property theorems) -/

theorem decide_of_router (loc : Option Role) (isWrite : Bool) (marker : String) :
    decideForward (some loc) isWrite marker =
      if canRouteLocally loc isWrite then .local
      else if marker != "" then .alreadyForwarded else .toPeer := rfl

theorem routeWrite_shape (loc : Option Role) (reg : List Node) :
    (canRouteLocally loc true = true ∧ routeWrite loc reg = .localCanHandle) ∨
    (canRouteLocally loc true = false ∧
      ((∃ p ps, reg.filter isPrimary = p :: ps ∧ routeWrite loc reg = .forward (p :: ps)) ∨
       (reg.filter isPrimary = [] ∧ reg.filter isWriter = [] ∧ routeWrite loc reg = .noWriter) ∨
       (∃ x xs, reg.filter isPrimary = [] ∧ reg.filter isWriter = x :: xs ∧
          routeWrite loc reg = .forward (x :: xs)))) := by
  unfold routeWrite
  by_cases hc : canRouteLocally loc true = true
  · exact Or.inl ⟨hc, by simp [hc]⟩
  · have hc' : canRouteLocally loc true = false := by simpa using hc
    refine Or.inr ⟨hc', ?_⟩
    simp only [hc', Bool.false_eq_true, if_false]
    cases hp : reg.filter isPrimary with
    | cons p ps => exact Or.inl ⟨p, ps, rfl, rfl⟩
    | nil =>
      cases hw : reg.filter isWriter with
      | nil => exact Or.inr (Or.inl ⟨rfl, rfl, rfl⟩)
      | cons x xs => exact Or.inr (Or.inr ⟨x, xs, rfl, rfl, rfl⟩)

theorem routeQuery_shape (loc : Option Role) (reg : List Node) :
    (canRouteLocally loc false = true ∧ routeQuery loc reg = .localCanHandle) ∨
    (canRouteLocally loc false = false ∧
      ((∃ p ps, reg.filter isReader = p :: ps ∧ routeQuery loc reg = .forward (p :: ps)) ∨
       (reg.filter isReader = [] ∧ reg.filter isWriter = [] ∧ routeQuery loc reg = .noReader) ∨
       (∃ x xs, reg.filter isReader = [] ∧ reg.filter isWriter = x :: xs ∧
          routeQuery loc reg = .forward (x :: xs)))) := by
  unfold routeQuery
  by_cases hc : canRouteLocally loc false = true
  · exact Or.inl ⟨hc, by simp [hc]⟩
  · have hc' : canRouteLocally loc false = false := by simpa using hc
    refine Or.inr ⟨hc', ?_⟩
    simp only [hc', Bool.false_eq_true, if_false]
    cases hp : reg.filter isReader with
    | cons p ps => exact Or.inl ⟨p, ps, rfl, rfl⟩
    | nil =>
      cases hw : reg.filter isWriter with
      | nil => exact Or.inr (Or.inl ⟨rfl, rfl, rfl⟩)
      | cons x xs => exact Or.inr (Or.inr ⟨x, xs, rfl, rfl, rfl⟩)

theorem route_not_local (isWrite : Bool) (r : Role) (reg : List Node)
    (h : canServe r isWrite = false) : ∀ c, route isWrite (some r) reg ≠ .localCanHandle ∧
      (route isWrite (some r) reg = .forward c → c ≠ []) := by
  intro c
  cases isWrite
  · simp only [route, Bool.false_eq_true, if_false]
    rcases routeQuery_shape (some r) reg with h' | ⟨_, h' | h' | h'⟩
    · simp [canRouteLocally, h] at h'
    · obtain ⟨p, ps, _, e⟩ := h'; rw [e]
      exact ⟨by simp, fun he => by injection he with he; rw [← he]; simp⟩
    · rw [h'.2.2]; exact ⟨by simp, fun he => by simp at he⟩
    · obtain ⟨p, ps, _, _, e⟩ := h'; rw [e]
      exact ⟨by simp, fun he => by injection he with he; rw [← he]; simp⟩
  · simp only [route, if_true]
    rcases routeWrite_shape (some r) reg with h' | ⟨_, h' | h' | h'⟩
    · simp [canRouteLocally, h] at h'
    · obtain ⟨p, ps, _, e⟩ := h'; rw [e]
      exact ⟨by simp, fun he => by injection he with he; rw [← he]; simp⟩
    · rw [h'.2.2]; exact ⟨by simp, fun he => by simp at he⟩
    · obtain ⟨p, ps, _, _, e⟩ := h'; rw [e]
      exact ⟨by simp, fun he => by injection he with he; rw [← he]; simp⟩

theorem isWriter_capable (t : Node) (isWrite : Bool) (h : isWriter t = true) :
    t.healthy = true ∧ canServe t.role isWrite = true := by
  unfold isWriter at h
  simp only [Bool.and_eq_true, beq_iff_eq] at h
  obtain ⟨hr, hh⟩ := h
  refine ⟨hh, ?_⟩
  have := C30_target_roles_capable
  cases isWrite <;> simp [canServe, hr, this.1, this.2.1]

theorem isPrimary_capable (t : Node) (h : isPrimary t = true) :
    t.healthy = true ∧ canServe t.role true = true := by
  unfold isPrimary at h
  simp only [Bool.and_eq_true, beq_iff_eq] at h
  obtain ⟨⟨hr, _⟩, hh⟩ := h
  refine ⟨hh, ?_⟩
  have := C30_target_roles_capable
  simp [canServe, hr, this.2.2.1]

theorem isReader_capable (t : Node) (h : isReader t = true) :
    t.healthy = true ∧ canServe t.role false = true := by
  unfold isReader at h
  simp only [Bool.and_eq_true, beq_iff_eq] at h
  obtain ⟨hr, hh⟩ := h
  refine ⟨hh, ?_⟩
  have := C30_target_roles_capable
  simp [canServe, hr, this.2.2.2]

theorem route_forward_sound (isWrite : Bool) (loc : Option Role) (reg cands : List Node)
    (h : route isWrite loc reg = .forward cands) :
    ∀ t ∈ cands, t ∈ reg ∧ t.healthy = true ∧ canServe t.role isWrite = true := by
  intro t ht
  cases isWrite
  · simp only [route, Bool.false_eq_true, if_false] at h
    rcases routeQuery_shape loc reg with h' | ⟨_, h' | h' | h'⟩
    · rw [h'.2] at h; simp at h
    · obtain ⟨p, ps, hf, e⟩ := h'; rw [e] at h; injection h with h; rw [← h, ← hf] at ht
      have := List.mem_filter.mp ht
      exact ⟨this.1, isReader_capable t this.2⟩
    · rw [h'.2.2] at h; simp at h
    · obtain ⟨p, ps, _, hf, e⟩ := h'; rw [e] at h; injection h with h; rw [← h, ← hf] at ht
      have := List.mem_filter.mp ht
      exact ⟨this.1, isWriter_capable t false this.2⟩
  · simp only [route, if_true] at h
    rcases routeWrite_shape loc reg with h' | ⟨_, h' | h' | h'⟩
    · rw [h'.2] at h; simp at h
    · obtain ⟨p, ps, hf, e⟩ := h'; rw [e] at h; injection h with h; rw [← h, ← hf] at ht
      have := List.mem_filter.mp ht
      exact ⟨this.1, isPrimary_capable t this.2⟩
    · rw [h'.2.2] at h; simp at h
    · obtain ⟨p, ps, _, hf, e⟩ := h'; rw [e] at h; injection h with h; rw [← h, ← hf] at ht
      have := List.mem_filter.mp ht
      exact ⟨this.1, isWriter_capable t true this.2⟩

/-- `noWriter` / `noReader` mean there really is no targetable node in the registry. -/
theorem route_unavailable (isWrite : Bool) (loc : Option Role) (reg : List Node)
    (h : route isWrite loc reg = .noWriter ∨ route isWrite loc reg = .noReader) :
    reg.filter isWriter = [] ∧ (isWrite = false → reg.filter isReader = []) := by
  cases isWrite
  · simp only [route, Bool.false_eq_true, if_false] at h
    rcases routeQuery_shape loc reg with h' | ⟨_, h' | h' | h'⟩
    · rw [h'.2] at h; simp at h
    · obtain ⟨p, ps, _, e⟩ := h'; rw [e] at h; simp at h
    · exact ⟨h'.2.1, fun _ => h'.1⟩
    · obtain ⟨p, ps, _, _, e⟩ := h'; rw [e] at h; simp at h
  · simp only [route, if_true] at h
    rcases routeWrite_shape loc reg with h' | ⟨_, h' | h' | h'⟩
    · rw [h'.2] at h; simp at h
    · obtain ⟨p, ps, _, e⟩ := h'; rw [e] at h; simp at h
    · exact ⟨h'.2.1, fun hf => by simp at hf⟩
    · obtain ⟨p, ps, _, _, e⟩ := h'; rw [e] at h; simp at h

theorem unavailable_no_peer (isWrite : Bool) (loc : Option Role) (reg : List Node)
    (h : route isWrite loc reg = .noWriter ∨ route isWrite loc reg = .noReader) :
    ∀ t ∈ reg, isWriter t = false ∧ (isWrite = false → isReader t = false) := by
  intro t ht
  have hu := route_unavailable isWrite loc reg h
  refine ⟨?_, fun hq => ?_⟩
  · cases hw : isWriter t
    · rfl
    · have : t ∈ reg.filter isWriter := List.mem_filter.mpr ⟨ht, hw⟩
      rw [hu.1] at this; simp at this
  · cases hw : isReader t
    · rfl
    · have : t ∈ reg.filter isReader := List.mem_filter.mpr ⟨ht, hw⟩
      rw [hu.2 hq] at this; simp at this

/-- what `handle` can be, by the decision taken. -/
theorem handle_cases (n : Node) (reg : List Node) (rq : Req) :
    (decideForward (routerOf n) rq.isWrite (getHeader rq.headers forwardedByHeader) = .local ∧
        handle n reg rq = .serveLocal) ∨
    (decideForward (routerOf n) rq.isWrite (getHeader rq.headers forwardedByHeader) = .alreadyForwarded ∧
        handle n reg rq = .reject508) ∨
    (decideForward (routerOf n) rq.isWrite (getHeader rq.headers forwardedByHeader) = .toPeer ∧
      ((route rq.isWrite (some n.role) reg = .localCanHandle ∧ handle n reg rq = .serveLocal) ∨
       (route rq.isWrite (some n.role) reg = .noWriter ∧ handle n reg rq = .unavailable true) ∨
       (route rq.isWrite (some n.role) reg = .noReader ∧ handle n reg rq = .unavailable false) ∨
       (∃ c, route rq.isWrite (some n.role) reg = .forward c ∧
          handle n reg rq = .forwardTo c (outbound rq.headers rq.remoteAddr n.id rq.host)))) := by
  unfold handle
  cases hd : decideForward (routerOf n) rq.isWrite (getHeader rq.headers forwardedByHeader)
  · simp
  · cases hr : route rq.isWrite (some n.role) reg <;> simp
  · simp

theorem toPeer_incapable (n : Node) (isWrite : Bool) (m : String)
    (h : decideForward (routerOf n) isWrite m = .toPeer) :
    n.hasRouter = true ∧ canServe n.role isWrite = false ∧ m = "" := by
  unfold routerOf at h
  by_cases hr : n.hasRouter = true
  · simp only [hr, if_true, decide_of_router, canRouteLocally] at h
    by_cases hc : canServe n.role isWrite = true
    · simp [hc] at h
    · by_cases hm : (m != "") = true
      · simp [hc, hm] at h
      · refine ⟨hr, by simpa using hc, by simpa using hm⟩
  · simp [hr, decideForward] at h

/-- the handler of a marked request either serves it or answers 508; it never forwards. -/
theorem handle_marked (n : Node) (reg : List Node) (rq : Req)
    (hm : getHeader rq.headers forwardedByHeader ≠ "") :
    handle n reg rq = .serveLocal ∨ handle n reg rq = .reject508 := by
  rcases handle_cases n reg rq with h | h | h
  · exact Or.inl h.2
  · exact Or.inr h.2
  · exact absurd (toPeer_incapable n _ _ h.1).2.2 hm

theorem valuesOf_set_same (hs : Headers) (k v : String) : valuesOf (setHeader hs k v) k = [v] := by
  simp [valuesOf, setHeader, List.filter_append, List.filter_filter]

theorem valuesOf_set_other (hs : Headers) (k k' v : String) (h : (k == k') = false) :
    valuesOf (setHeader hs k v) k' = valuesOf hs k' := by
  have h' : ∀ a : String, (a == k' && !(a == k)) = (a == k') := by
    intro a
    by_cases ha : a = k'
    · subst ha
      have : (a == k) = false := by
        rw [Bool.eq_false_iff] at h ⊢
        intro hak; apply h; simp only [beq_iff_eq] at hak ⊢; exact hak.symm
      simp [this]
    · have : (a == k') = false := by simpa using ha
      simp [this]
  simp [valuesOf, setHeader, List.filter_append, List.filter_filter, h, h']

theorem fold_values (ra id host : String) (k : String) (base : List String) :
    ∀ (sets : List (String × String)) (hs : Headers) (acc : Option String),
      valuesOf hs k = (match acc with | some s => [srcValue ra id host s] | none => base) →
      valuesOf (sets.foldl (setStep ra id host) hs) k =
        (match lastSet sets k acc with | some s => [srcValue ra id host s] | none => base) := by
  intro sets
  induction sets with
  | nil => intro hs acc h; simpa [lastSet] using h
  | cons ks rest ih =>
    intro hs acc h
    obtain ⟨k1, s1⟩ := ks
    simp only [List.foldl, lastSet]
    apply ih
    by_cases hk : (k1 == k) = true
    · have : k1 = k := by simpa using hk
      subst this
      simp only [BEq.rfl, if_true, setStep]
      exact valuesOf_set_same _ _ _
    · have hk' : (k1 == k) = false := by simpa using hk
      simp only [hk', Bool.false_eq_true, if_false, setStep]
      rw [valuesOf_set_other _ _ _ _ hk']
      exact h

theorem mem_set (hs : Headers) (k v : String) (p : String × String) (h : p ∈ setHeader hs k v) :
    p ∈ hs ∨ p = (k, v) := by
  simp only [setHeader, List.mem_append, List.mem_filter, List.mem_singleton] at h
  rcases h with h | h
  · exact Or.inl h.1
  · exact Or.inr h

theorem fold_mem (ra id host : String) (p : String × String) :
    ∀ (sets : List (String × String)) (hs : Headers),
      p ∈ sets.foldl (setStep ra id host) hs →
      p ∈ hs ∨ ∃ s, (p.1, s) ∈ sets ∧ p.2 = srcValue ra id host s := by
  intro sets
  induction sets with
  | nil => intro hs h; exact Or.inl (by simpa using h)
  | cons ks rest ih =>
    intro hs h
    simp only [List.foldl] at h
    rcases ih _ h with h1 | ⟨s, hs1, hs2⟩
    · rcases mem_set _ _ _ _ h1 with h2 | h2
      · exact Or.inl h2
      · refine Or.inr ⟨ks.2, ?_, ?_⟩
        · rw [h2]; simp
        · rw [h2]
    · exact Or.inr ⟨s, by simp [hs1], hs2⟩

theorem fold_keep (ra id host : String) (p : String × String) :
    ∀ (sets : List (String × String)) (hs : Headers),
      p ∈ hs → (∀ ks ∈ sets, (p.1 == ks.1) = false) → p ∈ sets.foldl (setStep ra id host) hs := by
  intro sets
  induction sets with
  | nil => intro hs h _; simpa using h
  | cons ks rest ih =>
    intro hs h hne
    simp only [List.foldl]
    apply ih
    · simp only [setStep, setHeader, List.mem_append, List.mem_filter]
      exact Or.inl ⟨h, by simp [hne ks (by simp)]⟩
    · intro ks' hks'; exact hne ks' (by simp [hks'])

theorem getHeader_of_values (hs : Headers) (k v : String) (h : valuesOf hs k = [v]) :
    getHeader hs k = v := by
  unfold valuesOf at h
  unfold getHeader
  cases hf : hs.filter (fun p => p.1 == k) with
  | nil => simp [hf] at h
  | cons a rest => simp [hf] at h; exact h.1

theorem build_not_stripped (hs : Headers) (p : String × String) (h : p ∈ buildHeaders hs) :
    stripped p.1 = false := by
  simp only [buildHeaders, List.mem_filter] at h
  simpa using h.2

/-! ## property theorems: one node -/

/-- **C30_no_second_hop.** A request that carries the forwarded-by marker is never forwarded,
whatever the router, the local role and the request type. -/
theorem C30_no_second_hop (router : Option (Option Role)) (isWrite : Bool) (marker : String)
    (hm : marker ≠ "") : decideForward router isWrite marker ≠ .toPeer := by
  cases router with
  | none => simp [decideForward]
  | some loc =>
    rw [decide_of_router]
    have : (marker != "") = true := by simpa using hm
    by_cases hc : canRouteLocally loc isWrite = true <;> simp [hc, this]

/-- … and so the whole handler prologue of a marked request never forwards it. -/
theorem C30_marked_never_forwarded (n : Node) (reg : List Node) (rq : Req)
    (hm : getHeader rq.headers forwardedByHeader ≠ "") :
    ∀ c o, handle n reg rq ≠ .forwardTo c o := by
  intro c o h
  rcases handle_marked n reg rq hm with h' | h' <;> simp [h'] at h

/-- **C30_marker_set.** Every forwarded request carries exactly one marker value, the forwarding
node's id, whatever the client sent (including its own copies of the marker). -/
theorem C30_marker_set (hs : Headers) (ra id host : String) :
    valuesOf (outbound hs ra id host) forwardedByHeader = [id] := by
  have h := fold_values ra id host forwardedByHeader (valuesOf (buildHeaders hs) forwardedByHeader)
    forwardSets (buildHeaders hs) none rfl
  rw [C30_marker_set_from_local_id] at h
  simpa [outbound, forwardHeaders, srcValue] using h

/-- **C30_client_headers_stripped.** Any header of a stripped class (hop-by-hop, Content-Length, Host,
client forwarding/identity headers, the marker) on the outbound request was put there by `doForward`
itself from the socket peer address, the local node id or the request host — never copied from the
client's request. -/
theorem C30_client_headers_stripped (hs : Headers) (ra id host : String) (p : String × String)
    (hp : p ∈ outbound hs ra id host) (hs' : stripped p.1 = true) :
    ∃ s, (p.1, s) ∈ forwardSets ∧ p.2 = srcValue ra id host s := by
  rcases fold_mem ra id host p forwardSets (buildHeaders hs) hp with h | h
  · have := build_not_stripped hs p h
    simp [this] at hs'
  · exact h

/-- End-to-end headers survive the forward (with their canonical key, in order of appearance). -/
theorem C30_other_headers_preserved (hs : Headers) (ra id host : String) (k v : String)
    (hp : (k, v) ∈ hs) (hk : stripped (canon k) = false) :
    (canon k, v) ∈ outbound hs ra id host := by
  apply fold_keep
  · simp only [buildHeaders, List.mem_filter, List.mem_map]
    exact ⟨⟨(k, v), hp, rfl⟩, by simp [hk]⟩
  · intro ks hks
    have := C30_set_headers_are_stripped.2 ks hks
    rw [Bool.eq_false_iff]
    intro he
    simp only [beq_iff_eq] at he
    rw [he, this] at hk
    exact Bool.noConfusion hk

/-- **C30_incapable_never_local.** With a router present, a node whose role cannot serve the request
type never processes it locally — whatever registry it sees and whatever headers the client sends
(this covers the handlers' `goto localProcessing` on `ErrLocalNodeCanHandle`, which is unreachable). -/
theorem C30_incapable_never_local (n : Node) (reg : List Node) (rq : Req)
    (hr : n.hasRouter = true) (hc : canServe n.role rq.isWrite = false) :
    handle n reg rq ≠ .serveLocal := by
  intro hl
  have hdec : decideForward (routerOf n) rq.isWrite (getHeader rq.headers forwardedByHeader) ≠ .local := by
    simp only [routerOf, hr, if_true, decide_of_router, canRouteLocally, hc]
    by_cases hm : (getHeader rq.headers forwardedByHeader != "") = true <;> simp [hm]
  rcases handle_cases n reg rq with h | h | h
  · exact hdec h.1
  · simp [h.2] at hl
  · rcases h.2 with h' | h' | h' | ⟨c, h'⟩
    · exact (route_not_local rq.isWrite n.role reg hc []).1 h'.1
    · simp [h'.2] at hl
    · simp [h'.2] at hl
    · simp [h'.2] at hl

/-! ### the same clause per registered route

Full statement (FALSE for the current source, kept visible):

    theorem C30_route_incapable_never_local (routed : Bool) (n : Node) (reg : List Node) (rq : Req)
        (hr : n.hasRouter = true) (hc : canServe n.role rq.isWrite = false) :
        handleRoute routed n reg rq ≠ .serveLocal

It fails for the routes whose handler has no routing prologue: `QueryHandler` serves
`POST /api/v1/query/arrow`, `POST /api/v1/query/estimate` and `GET /api/v1/query/:measurement`, and
`ImportHandler` serves `POST /api/v1/import/{csv,parquet,lp,tle}`, without ever consulting the router, so a
compactor executes those queries and a reader ingests those imports locally (confirmed on the real
handlers by the harness, finding keys `incapable-local:unrouted-endpoint:*`). -/

/-- **C30_route_incapable_never_local_partial.** The clause holds for every route whose handler carries
the routing prologue (carve-out: `routed = true`, decidable; the routed set is regenerated). -/
theorem C30_route_incapable_never_local_partial (routed : Bool) (n : Node) (reg : List Node) (rq : Req)
    (hrouted : routed = true) (hr : n.hasRouter = true) (hc : canServe n.role rq.isWrite = false) :
    handleRoute routed n reg rq ≠ .serveLocal := by
  subst hrouted
  simpa [handleRoute] using C30_incapable_never_local n reg rq hr hc

/-- The routes the regenerated table marks as reaching the prologue / not reaching it. -/
def routedRoutes : List (String × String) :=
  (routes.filter (fun r => r.2.2.2)).map (fun r => (r.1, r.2.1))
def unroutedRoutes : List (String × String) :=
  (routes.filter (fun r => !r.2.2.2)).map (fun r => (r.1, r.2.1))

/-- **C30_unrouted_routes_pinned.** The set of routes WITHOUT the prologue in the current source is
exactly this list: the seven data endpoints of the known finding plus statistics / health / spec /
flush / measurement-listing endpoints that neither ingest nor execute queries.  A newly added
unrouted route, or a prologue removed from a routed handler, changes the regenerated table and
breaks this `decide`. -/
theorem C30_unrouted_routes_pinned : unroutedRoutes = [
    ("ImportHandler", "GET /api/v1/import/stats"),
    ("ImportHandler", "POST /api/v1/import/csv"),
    ("ImportHandler", "POST /api/v1/import/lp"),
    ("ImportHandler", "POST /api/v1/import/parquet"),
    ("ImportHandler", "POST /api/v1/import/tle"),
    ("LineProtocolHandler", "GET /api/v1/write/line-protocol/health"),
    ("LineProtocolHandler", "GET /api/v1/write/line-protocol/stats"),
    ("LineProtocolHandler", "POST /api/v1/write/line-protocol/flush"),
    ("MsgPackHandler", "GET /api/v1/write/msgpack/spec"),
    ("MsgPackHandler", "GET /api/v1/write/msgpack/stats"),
    ("QueryHandler", "GET /api/v1/measurements"),
    ("QueryHandler", "GET /api/v1/query/:measurement"),
    ("QueryHandler", "POST /api/v1/query/arrow"),
    ("QueryHandler", "POST /api/v1/query/estimate"),
    ("TLEHandler", "GET /api/v1/write/tle/stats")] := by decide

/-- **C30_routed_routes_pinned.** … and these are the routes that do start with the prologue. -/
theorem C30_routed_routes_pinned : routedRoutes = [
    ("LineProtocolHandler", "POST /api/v1/write/line-protocol"),
    ("LineProtocolHandler", "POST /api/v2/write"),
    ("LineProtocolHandler", "POST /write"),
    ("MsgPackHandler", "POST /api/v1/write/msgpack"),
    ("QueryHandler", "POST /api/v1/query"),
    ("QueryHandler", "POST /api/v1/query/msgpack"),
    ("TLEHandler", "POST /api/v1/write/tle")] := by decide

/-- **C30_capable_serves_locally.** A node that can serve the request type (or has no router at all)
handles it itself; client-supplied forwarding headers have no effect on that. -/
theorem C30_capable_serves_locally (n : Node) (reg : List Node) (rq : Req)
    (h : n.hasRouter = false ∨ canServe n.role rq.isWrite = true) :
    handle n reg rq = .serveLocal := by
  have : decideForward (routerOf n) rq.isWrite (getHeader rq.headers forwardedByHeader) = .local := by
    unfold routerOf
    by_cases hr : n.hasRouter = true
    · rcases h with h | h
      · simp [hr] at h
      · simp [hr, decide_of_router, canRouteLocally, h]
    · simp [hr, decideForward]
  rcases handle_cases n reg rq with h' | h' | h'
  · exact h'.2
  · rw [this] at h'; exact absurd h'.1 (by simp)
  · rw [this] at h'; exact absurd h'.1 (by simp)

/-- **C30_target_capable.** Every admissible forward target is a member of the forwarding node's
registry, healthy there, and of a role that can serve the request type; the set is never empty. -/
theorem C30_target_capable (n : Node) (reg : List Node) (rq : Req) (cands : List Node) (out : Headers)
    (h : handle n reg rq = .forwardTo cands out) :
    cands ≠ [] ∧ out = outbound rq.headers rq.remoteAddr n.id rq.host ∧
    ∀ t ∈ cands, t ∈ reg ∧ t.healthy = true ∧ canServe t.role rq.isWrite = true := by
  rcases handle_cases n reg rq with h' | h' | h'
  · simp [h'.2] at h
  · simp [h'.2] at h
  · have hinc := (toPeer_incapable n _ _ h'.1).2.1
    rcases h'.2 with h'' | h'' | h'' | ⟨c, h1, h2⟩
    · simp [h''.2] at h
    · simp [h''.2] at h
    · simp [h''.2] at h
    · rw [h2] at h
      injection h with hc ho
      subst hc
      exact ⟨(route_not_local rq.isWrite n.role reg hinc c).2 h1, ho.symm,
        route_forward_sound rq.isWrite (some n.role) reg c h1⟩

/-- A forward never targets a node of the forwarder's own role (in particular not itself). -/
theorem C30_target_not_self (n : Node) (reg : List Node) (rq : Req) (cands : List Node) (out : Headers)
    (h : handle n reg rq = .forwardTo cands out) : ∀ t ∈ cands, t.role ≠ n.role := by
  intro t ht heq
  have hcap := (C30_target_capable n reg rq cands out h).2.2 t ht
  rcases handle_cases n reg rq with h' | h' | h'
  · simp [h'.2] at h
  · simp [h'.2] at h
  · have := (toPeer_incapable n _ _ h'.1).2.1
    rw [← heq, hcap.2.2] at this
    exact Bool.noConfusion this

/-- **C30_forwarded_when_unmarked.** The "otherwise forwarded" clause, for requests whose inbound marker
is absent or empty (the documented behaviour: a client that *sends* the marker to an incapable node
gets 508): an incapable node with a router forwards whenever its registry holds a healthy node of a
role the router targets (writer for writes; reader or writer for queries). -/
theorem C30_forwarded_when_unmarked (n : Node) (reg : List Node) (rq : Req)
    (hr : n.hasRouter = true) (hc : canServe n.role rq.isWrite = false)
    (hm : getHeader rq.headers forwardedByHeader = "")
    (hpeer : ∃ t ∈ reg, isWriter t = true ∨ (rq.isWrite = false ∧ isReader t = true)) :
    ∃ cands, cands ≠ [] ∧
      handle n reg rq = .forwardTo cands (outbound rq.headers rq.remoteAddr n.id rq.host) := by
  have hdec : decideForward (routerOf n) rq.isWrite (getHeader rq.headers forwardedByHeader) = .toPeer := by
    simp [routerOf, hr, decide_of_router, canRouteLocally, hc, hm]
  obtain ⟨t, htreg, ht⟩ := hpeer
  rcases handle_cases n reg rq with h' | h' | h'
  · rw [hdec] at h'; exact absurd h'.1 (by simp)
  · rw [hdec] at h'; exact absurd h'.1 (by simp)
  · rcases h'.2 with h'' | h'' | h'' | ⟨c, h1, h2⟩
    · exact absurd h''.1 (route_not_local rq.isWrite n.role reg hc []).1
    · exact absurd (unavailable_no_peer rq.isWrite (some n.role) reg (Or.inl h''.1) t htreg) (by
        rcases ht with ht | ht
        · simp [ht]
        · simp [ht.1, ht.2])
    · exact absurd (unavailable_no_peer rq.isWrite (some n.role) reg (Or.inr h''.1) t htreg) (by
        rcases ht with ht | ht
        · simp [ht]
        · simp [ht.1, ht.2])
    · exact ⟨c, (route_not_local rq.isWrite n.role reg hc c).2 h1, h2⟩

/-! ## property theorems: composed over a cluster of any size

`World` places no bound on the number of nodes: `view`, `actual` and `pick` are arbitrary functions.
-/

theorem run_hops_ge (w : World) : ∀ (fuel : Nat) (n : Node) (rq : Req) (h0 : Nat),
    h0 ≤ (run w fuel n rq h0).hops := by
  intro fuel
  induction fuel with
  | zero => intro n rq h0; simp [run, Outcome.hops]
  | succ f ih =>
    intro n rq h0
    unfold run
    split
    · simp [Outcome.hops]
    · simp [Outcome.hops]
    · simp [Outcome.hops]
    · exact Nat.le_trans (Nat.le_succ h0) (ih _ _ _)

/-- **C30_hops_le_one.** In a cluster of any size, with arbitrary (even mutually inconsistent or
stale) registries, arbitrary target choice and arbitrary client headers, a request entering at a
node with a non-empty id is forwarded at most once — and the run terminates within two handler
invocations (never `outOfFuel` when given at least 2). -/
theorem C30_hops_le_one (w : World) (fuel : Nat) (n : Node) (rq : Req) (hid : n.id ≠ "") :
    (run w fuel n rq 0).hops ≤ 1 ∧ (2 ≤ fuel → ∀ h, run w fuel n rq 0 ≠ .outOfFuel h) := by
  cases fuel with
  | zero => exact ⟨by simp [run, Outcome.hops], fun h => absurd h (by omega)⟩
  | succ f =>
    unfold run
    cases hh : handle n (w.view n) rq with
    | serveLocal => exact ⟨by simp [Outcome.hops], fun _ h => by simp⟩
    | reject508 => exact ⟨by simp [Outcome.hops], fun _ h => by simp⟩
    | unavailable b => exact ⟨by simp [Outcome.hops], fun _ h => by simp⟩
    | forwardTo cands out =>
      have hout := (C30_target_capable n (w.view n) rq cands out hh).2.1
      have hmark : getHeader out forwardedByHeader = n.id := by
        rw [hout]; exact getHeader_of_values _ _ _ (C30_marker_set _ _ _ _)
      simp only
      cases f with
      | zero => exact ⟨by simp [run, Outcome.hops], fun h => absurd h (by omega)⟩
      | succ f' =>
        unfold run
        have hm := handle_marked (w.actual (w.pick n rq cands)) (w.view (w.actual (w.pick n rq cands)))
          { rq with headers := out, remoteAddr := w.peerAddr n } (by simp only; rw [hmark]; exact hid)
        rcases hm with hm | hm <;> rw [hm] <;> exact ⟨by simp [Outcome.hops], fun _ h => by simp⟩

/-- **C30_served_by_capable.** Whoever ends up serving the request — after any number of handler
invocations — is a node whose role can serve that request type (or a node with no router at all,
i.e. not clustered). -/
theorem C30_served_by_capable (w : World) : ∀ (fuel : Nat) (n : Node) (rq : Req) (h0 : Nat) (m : Node) (k : Nat),
    run w fuel n rq h0 = .served m k → m.hasRouter = false ∨ canServe m.role rq.isWrite = true := by
  intro fuel
  induction fuel with
  | zero => intro n rq h0 m k h; simp [run] at h
  | succ f ih =>
    intro n rq h0 m k h
    unfold run at h
    cases hh : handle n (w.view n) rq with
    | serveLocal =>
      rw [hh] at h; simp only at h
      injection h with h1 _; subst h1
      by_cases hr : n.hasRouter = true
      · by_cases hc : canServe n.role rq.isWrite = true
        · exact Or.inr hc
        · exact absurd hh (C30_incapable_never_local n _ rq hr (by simpa using hc))
      · exact Or.inl (by simpa using hr)
    | reject508 => rw [hh] at h; simp at h
    | unavailable b => rw [hh] at h; simp at h
    | forwardTo cands out =>
      rw [hh] at h; simp only at h
      exact ih _ { rq with headers := out, remoteAddr := w.peerAddr n } _ m k h

/-- **C30_one_forward_served.** With truthful role information (the process behind a registry record
has the role the record says) the whole path is: an incapable node that receives an unmarked request
and sees a targetable peer forwards it once, and the chosen peer — a healthy, capable member of the
forwarder's registry — serves it: exactly one hop, for every admissible choice. -/
theorem C30_one_forward_served (w : World) (fuel : Nat) (n : Node) (rq : Req)
    (hpick : ∀ a r l, l ≠ [] → w.pick a r l ∈ l)
    (htrue : ∀ m, (w.actual m).role = m.role)
    (hr : n.hasRouter = true) (hc : canServe n.role rq.isWrite = false)
    (hm : getHeader rq.headers forwardedByHeader = "")
    (hpeer : ∃ t ∈ w.view n, isWriter t = true ∨ (rq.isWrite = false ∧ isReader t = true)) :
    ∃ t ∈ w.view n, t.healthy = true ∧ canServe t.role rq.isWrite = true ∧
      run w (fuel + 2) n rq 0 = .served (w.actual t) 1 := by
  obtain ⟨cands, hne, hh⟩ := C30_forwarded_when_unmarked n (w.view n) rq hr hc hm hpeer
  have hsound := (C30_target_capable n _ rq cands _ hh).2.2
  refine ⟨w.pick n rq cands, (hsound _ (hpick n rq cands hne)).1, (hsound _ (hpick n rq cands hne)).2.1,
    (hsound _ (hpick n rq cands hne)).2.2, ?_⟩
  unfold run
  rw [hh]
  simp only
  unfold run
  have hcap : canServe (w.actual (w.pick n rq cands)).role rq.isWrite = true := by
    rw [htrue]; exact (hsound _ (hpick n rq cands hne)).2.2
  rw [C30_capable_serves_locally (w.actual (w.pick n rq cands)) (w.view (w.actual (w.pick n rq cands)))
    { rq with headers := outbound rq.headers rq.remoteAddr n.id rq.host, remoteAddr := w.peerAddr n }
    (Or.inr hcap)]

/-! ## non-vacuity: the hypotheses are satisfiable on non-trivial concrete states

The receiving node's role is found by `decide` among the regenerated roles (`∃ r ∈ Role.all, …`), so a
benign edit of the capability table (say, compactors may query) does not invalidate the examples as
long as SOME role still cannot serve the request type. -/

def nd (id : String) (r : Role) : Node := { id := id, role := r, wstate := .none, healthy := true, hasRouter := true }
def exReader : Node := nd "r1" readersRole
def exWriterP : Node := { id := "w1", role := writersRole, wstate := .primary, healthy := true, hasRouter := true }
def exWriterS : Node := { id := "w2", role := writersRole, wstate := .standby, healthy := true, hasRouter := true }
def exWriterDown : Node := { id := "w3", role := writersRole, wstate := .primary, healthy := false, hasRouter := true }
def exOther : Node := nd "c1" .other
def exReg : List Node := [exOther, exWriterDown, exWriterS, exReader, exWriterP]
def exSpoof : Headers :=
  [("X-Arc-Forwarded-By", ""), ("X-Forwarded-For", "6.6.6.6"), ("X-Real-Ip", "6.6.6.6"),
   ("Connection", "close"), ("X-Arc-Database", "db1"), ("Via", "1.1 a"), ("Via", "1.1 b")]
def exWorld : World :=
  { view := fun _ => exReg, actual := id, pick := fun _ _ l => l.getLastD exOther, peerAddr := fun n => n.id }

/-- C30_no_second_hop / C30_marked_never_forwarded: a marked write at a node that cannot ingest is answered 508. -/
example : ∃ r ∈ Role.all, canServe r true = false ∧
    handle (nd "x1" r) exReg ⟨true, [("X-Arc-Forwarded-By", "evil")], "1.2.3.4", "h"⟩ = .reject508 := by decide
/-- C30_target_capable / C30_forwarded_when_unmarked / C30_marker_set / C30_client_headers_stripped:
an unmarked write (empty client marker, spoofed identity headers) at such a node is forwarded to the
healthy primary only, with the trusted marker and without the client's copies. -/
example : ∃ r ∈ Role.all, canServe r true = false ∧
    handle (nd "x1" r) exReg ⟨true, exSpoof, "1.2.3.4", "h"⟩ =
    .forwardTo [exWriterP] [("X-Arc-Database", "db1"), ("Via", "1.1 a"), ("Via", "1.1 b"),
      ("X-Forwarded-For", "1.2.3.4"), ("X-Arc-Forwarded-By", "x1"), ("X-Arc-Original-Host", "h")] := by
  decide
/-- C30_incapable_never_local with hypotheses met: a role that cannot query + router + query. -/
example : ∃ r ∈ Role.all, (nd "x1" r).hasRouter = true ∧ canServe r false = false ∧
    handle (nd "x1" r) exReg ⟨false, [], "1.2.3.4", "h"⟩ = .forwardTo [exReader] (outbound [] "1.2.3.4" "x1" "h") := by
  decide
/-- C30_capable_serves_locally: the marker is ignored on a capable node. -/
example : handle exWriterS exReg ⟨true, [("X-Arc-Forwarded-By", "evil")], "1.2.3.4", "h"⟩ = .serveLocal := by
  decide
/-- C30_hops_le_one / C30_one_forward_served / C30_served_by_capable on a five-node world. -/
example : ∃ r ∈ Role.all, canServe r true = false ∧
    run exWorld 5 (nd "x1" r) ⟨true, exSpoof, "1.2.3.4", "h"⟩ 0 = .served exWriterP 1 := by decide
example : ∃ r ∈ Role.all, canServe r false = false ∧
    run exWorld 5 (nd "x1" r) ⟨false, [], "1.2.3.4", "h"⟩ 0 = .served exReader 1 := by decide
/-- no targetable peer: 503, not a local attempt. -/
example : ∃ r ∈ Role.all, canServe r true = false ∧
    handle (nd "x1" r) [nd "x1" r, exWriterDown, exOther] ⟨true, [], "1.2.3.4", "h"⟩ = .unavailable true := by
  decide

/-- **C30_route_incapable_never_local_witness.** Counterexample to the full per-route statement: the
regenerated table contains an unrouted query route and an unrouted ingest route, and on an unrouted
route a node with a router whose role cannot serve the request type processes it locally. -/
theorem C30_route_incapable_never_local_witness :
    ("QueryHandler", "GET /api/v1/query/:measurement", "queryMeasurement", false) ∈ routes ∧
    ("ImportHandler", "POST /api/v1/import/lp", "handleLineProtocolImport", false) ∈ routes ∧
    (∃ r ∈ Role.all, (nd "x1" r).hasRouter = true ∧ canServe r false = false ∧
      handleRoute false (nd "x1" r) exReg ⟨false, [], "1.2.3.4", "h"⟩ = .serveLocal) ∧
    (∃ r ∈ Role.all, (nd "x1" r).hasRouter = true ∧ canServe r true = false ∧
      handleRoute false (nd "x1" r) exReg ⟨true, [], "1.2.3.4", "h"⟩ = .serveLocal) := by decide

/-- Only peers of the roles the registry getters select are ever targeted, whatever their capability:
a write arriving at an incapable node whose only peer has another role is answered 503. -/
theorem C30_untargeted_role_not_forwarded : ∀ r ∈ Role.all, ∀ p ∈ Role.all,
    canServe r true = false → p ≠ writersRole → p ≠ primaryRole →
    handle (nd "x1" r) [nd "x1" r, nd "p1" p] ⟨true, [], "1.2.3.4", "h"⟩ = .unavailable true := by decide

/-- Observation (not a violation of the safety clauses): in the current table there is a role — standalone —
that can ingest but is not targeted, so a reader that sees only a healthy standalone peer answers 503
instead of forwarding. `C30_forwarded_when_unmarked` is therefore stated for the roles the router
targets, not for every capable role. -/
theorem C30_standalone_peer_not_targeted_witness :
    ∃ r ∈ Role.all, ∃ p ∈ Role.all, canServe r true = false ∧ canServe p true = true ∧
      handle (nd "x1" r) [nd "x1" r, nd "p1" p] ⟨true, [], "1.2.3.4", "h"⟩ = .unavailable true := by decide

end Arc.C30
