import Arc.Model.C22
import Arc.Generated.C22
import Arc.Proofs.C22.Files
import Arc.Proofs.C22.RestoreParents
/-!
# C22 — cluster state machine: replay determinism and snapshot fidelity

Property (full statement, kept for reference): for any sequence of committed cluster commands,
every node that applies it — from an empty state or from a snapshot taken after any prefix — ends in
the same state, and restoring a snapshot reproduces exactly the state it was taken from; batched
file operations take effect all-or-nothing; lookup indexes always agree with the primary records.

The real FSM violates three of these clauses on two input classes (confirmed on the real code by
the harness, see the `_witness` theorems):

* **empty database through UpdateFile** — `applyUpdateFileStruct` does not index a file whose
  `database` is `""` while `applyRegisterFileStruct` and `Restore` do: the index disagrees with the
  primary map, `restore (snapshot s) ≠ s`, and a node replaying from that snapshot diverges.
* **token renamed to an invalid name** — `applyUpdateToken` accepts any new name (empty, > 256 bytes)
  while `Restore` re-validates with `validateTokenEntry` and quarantines the token (and with it its
  memberships): `restore (snapshot s) ≠ s` and replay from the snapshot diverges.

  -- theorem C22_files_index_full  : ∀ evs, FileInv (runEv State.empty evs).fs                      -- FALSE
  -- theorem C22_restore_full      : ∀ evs, restore (snapshot (runEv State.empty evs)) = runEv State.empty evs   -- FALSE
  -- theorem C22_replay_full       : ∀ pre suf, runEv (restore (snapshot (runEv State.empty pre))) suf
  --                                             = runEv State.empty (pre ++ suf)                    -- FALSE

Each is proved as `_partial` under the decidable carve-outs `fileSafe` (no Update with an empty
database, single or batched) and `tokenSafe` (no rename to a name `validateTokenEntry` rejects).
-/
namespace Arc.C22
open SMap

/-! ## tie to the source: dispatch table, purity of the apply functions, validator pairing, caps -/

/-- the model's `apply` dispatch, as (type number, Go constant, Go apply function, takes log index) -/
def expectedDispatch : List (Nat × String × String × Bool) := [
  (1, "CommandAddNode", "applyAddNode", false),
  (2, "CommandRemoveNode", "applyRemoveNode", false),
  (3, "CommandUpdateNode", "applyUpdateNode", false),
  (4, "CommandUpdateNodeState", "applyUpdateNodeState", false),
  (5, "CommandPromoteWriter", "applyPromoteWriter", false),
  (6, "CommandDemoteWriter", "applyDemoteWriter", false),
  (7, "CommandRegisterFile", "applyRegisterFile", true),
  (8, "CommandDeleteFile", "applyDeleteFile", false),
  (9, "CommandAssignCompactor", "applyAssignCompactor", false),
  (10, "CommandBatchFileOps", "applyBatchFileOps", true),
  (11, "CommandUpdateFile", "applyUpdateFile", true),
  (12, "CommandCreateToken", "applyCreateToken", true),
  (13, "CommandUpdateToken", "applyUpdateToken", true),
  (14, "CommandRevokeToken", "applyRevokeToken", true),
  (15, "CommandDeleteToken", "applyDeleteToken", true),
  (16, "CommandRotateToken", "applyRotateToken", true),
  (17, "CommandCreateOrganization", "applyCreateOrganization", true),
  (18, "CommandUpdateOrganization", "applyUpdateOrganization", true),
  (19, "CommandDeleteOrganization", "applyDeleteOrganization", true),
  (20, "CommandCreateTeam", "applyCreateTeam", true),
  (21, "CommandUpdateTeam", "applyUpdateTeam", true),
  (22, "CommandDeleteTeam", "applyDeleteTeam", true),
  (23, "CommandCreateRole", "applyCreateRole", true),
  (24, "CommandUpdateRole", "applyUpdateRole", true),
  (25, "CommandDeleteRole", "applyDeleteRole", true),
  (26, "CommandCreateMeasurementPermission", "applyCreateMeasurementPermission", true),
  (27, "CommandDeleteMeasurementPermission", "applyDeleteMeasurementPermission", true),
  (28, "CommandAddTokenToTeam", "applyAddTokenToTeam", true),
  (29, "CommandRemoveTokenFromTeam", "applyRemoveTokenFromTeam", true)]

/-- **C22_dispatch_tied.** The `switch cmd.Type` of the current `ClusterFSM.Apply` (regenerated from
`/repo` on every run) is the dispatch the model implements: same 29 types, same apply function per
type, same use of the log index. -/
theorem C22_dispatch_tied :
    Arc.Generated.C22.dispatch = expectedDispatch ∧ Arc.Generated.C22.commandCount = 29 := by decide

/-- **C22_apply_pure.** No apply function, nor `Snapshot`/`Persist`/`Restore`, reaches a clock, a
random source, the OS, a goroutine or a `select` inside package raft (regenerated fact): `Apply` is a
function of (state, log index, command bytes) only — which is what lets the model be a pure function
`apply : State → Nat → Cmd → State × Res`. -/
theorem C22_apply_pure : ∀ p ∈ Arc.Generated.C22.nondet, p.2 = [] := by decide

/-- the validators the model applies per entry point (`Valid.lean`), by their Go names -/
def expectedValidators : List (String × List String) := [
  ("applyAddNode", []), ("applyRemoveNode", []), ("applyUpdateNode", []), ("applyUpdateNodeState", []),
  ("applyPromoteWriter", []), ("applyDemoteWriter", []),
  ("applyRegisterFile", ["ValidateManifestPath"]), ("applyDeleteFile", []), ("applyAssignCompactor", []),
  ("applyBatchFileOps", ["ValidateManifestPath"]), ("applyUpdateFile", ["ValidateManifestPath"]),
  ("applyCreateToken", ["validatePermissionString", "validateTokenEntry", "validateTokenHashAndPrefix"]),
  ("applyUpdateToken", ["validatePermissionString"]),
  ("applyRevokeToken", []), ("applyDeleteToken", []),
  ("applyRotateToken", ["validateTokenHashAndPrefix"]),
  ("applyCreateOrganization", ["validateOrganizationEntry"]), ("applyUpdateOrganization", []),
  ("applyDeleteOrganization", []),
  ("applyCreateTeam", ["validateTeamEntry"]), ("applyUpdateTeam", []), ("applyDeleteTeam", []),
  ("applyCreateRole", ["validatePermissionString", "validateRoleEntry"]),
  ("applyUpdateRole", ["validatePermissionString"]), ("applyDeleteRole", []),
  ("applyCreateMeasurementPermission", ["validateMeasurementPermissionEntry", "validatePermissionString"]),
  ("applyDeleteMeasurementPermission", []),
  ("applyAddTokenToTeam", ["validateTokenMembershipEntry"]), ("applyRemoveTokenFromTeam", []),
  ("Restore", ["ValidateManifestPath", "validateMeasurementPermissionEntry", "validateOrganizationEntry",
    "validatePermissionString", "validateRoleEntry", "validateTeamEntry", "validateTokenEntry",
    "validateTokenHashAndPrefix", "validateTokenMembershipEntry"]),
  ("Snapshot", []), ("Persist", [])]

/-- **C22_validators_tied.** Which validator each apply function (and `Restore`) calls in the current
source is what the model pairs them with — in particular `applyUpdateToken` validates only the
permission string (the source of the token-rename finding); a repair changes this table and
re-opens the proof. The length caps are the model's literals. -/
theorem C22_validators_tied :
    Arc.Generated.C22.validators = expectedValidators ∧
    Arc.Generated.C22.maxManifestPathLen = 4096 ∧ Arc.Generated.C22.maxTokenHashLen = 512 ∧
    Arc.Generated.C22.maxTokenPrefixLen = 256 ∧ Arc.Generated.C22.rbacNameMaxLen = 256 ∧
    Arc.Generated.C22.rbacPatternMaxLen = 256 ∧ Arc.Generated.C22.rbacDescriptionMaxLen = 1024 := by
  decide

/-! ## determinism -/

/-- **C22_deterministic.** Two nodes that start from the same state and apply the same committed
log (same indexes, same commands, snapshot installs at the same places) end in the same state. (The
model is a pure function by construction; that the real `Apply` is one is `C22_apply_pure` plus the
harness's peer-FSM monitor.) -/
theorem C22_deterministic (s₁ s₂ : State) (evs : List Ev) (h : s₁ = s₂) :
    runEv s₁ evs = runEv s₂ evs := by rw [h]

/-! ## batched file operations are all-or-nothing -/

/-- **C22_batch_atomic.** `CommandBatchFileOps` either is refused by the pre-validation pass —
then the state is unchanged — or it succeeds and its effect is exactly that of its ops applied
one by one, in order, as single Register/Update/Delete commands at the same log index. There is no
third outcome (the apply loop cannot fail midway). For every state, index and op list. -/
theorem C22_batch_atomic (s : State) (i : Nat) (ops : List BatchOp) :
    ((apply s i (.batch ops)).2 ≠ .ok ∧ (apply s i (.batch ops)).1 = s) ∨
    ((apply s i (.batch ops)).2 = .ok ∧
      (apply s i (.batch ops)).1 = (ops.map opCmd).foldl (fun st c => (apply st i c).1) s) := by
  have hA : apply s i (.batch ops) = liftF s (applyBatch s.fs i ops) := rfl
  rw [hA]
  unfold applyBatch
  by_cases hp : prevalidate ops = .ok
  · right
    rw [if_pos hp, applyOps_of_pre s.fs i ops hp, foldl_batch_eq_cmds]
    exact ⟨rfl, rfl⟩
  · left
    rw [if_neg hp]
    exact ⟨hp, rfl⟩

/-- a successful batch never stops early: every op reports success at the state it is applied to -/
theorem C22_batch_no_partial_failure (s : FileSt) (i : Nat) (ops : List BatchOp)
    (h : prevalidate ops = .ok) : (applyOps s i ops).2 = .ok := by
  rw [applyOps_of_pre s i ops h]

def fileA (path db : String) : FileEntry :=
  { path := path, sha := "s", size := 1, db := db, meas := "m", ptime := 0, origin := "n1", tier := "hot",
    ctime := 1700000000, lsn := 0 }

/-- non-vacuity: an accepted three-op batch, and a batch refused because of its LAST op -/
example :
    (apply State.empty 1 (.batch [.register (fileA "a/f1" "db"), .delete "a/f1", .update (fileA "a/f2" "db")])).2 = .ok ∧
    apply State.empty 1 (.batch [.register (fileA "a/f1" "db"), .update (fileA "s3://x" "db")])
      = (State.empty, .invalid) := by decide

/-! ## the by-database file index -/

/-- **C22_files_index_witness.** One `UpdateFile` with an empty database: the file is in `files` but
`filesByDB[""]` does not list it (real FSM: monitor `index:filesByDB-empty-db`) … -/
theorem C22_files_index_witness :
    let s := runEv State.empty [.cmd 1 (.updateFile (fileA "a/f1" ""))]
    (s.fs.files.get? "a/f1").isSome = true ∧ get2? s.fs.filesByDB "" "a/f1" = none ∧
    ¬ FileInv s.fs := by
  refine ⟨by decide, by decide, ?_⟩
  intro h
  have := h.agree "" "a/f1"
  revert this
  decide

/-- … whereas `RegisterFile` of the same entry does index it: the index is history-dependent. -/
theorem C22_files_index_witness_register :
    get2? (runEv State.empty [.cmd 1 (.registerFile (fileA "a/f1" ""))]).fs.filesByDB "" "a/f1" = some () := by
  decide

def fileSafeRun : List Ev → Bool
  | [] => true
  | .cmd _ c :: es => fileSafe c && fileSafeRun es
  | .restore :: es => fileSafeRun es

theorem fileInv_run (s : State) (evs : List Ev) (h : FileInv s.fs) (hs : fileSafeRun evs = true) :
    FileInv (runEv s evs).fs := by
  induction evs generalizing s with
  | nil => exact h
  | cons e es ih =>
    cases e with
    | cmd i c =>
      simp only [fileSafeRun, Bool.and_eq_true] at hs
      simp only [runEv, stepEv]
      apply ih _ _ hs.2
      rw [apply_fs]; exact fileInv_step h i c hs.1
    | restore =>
      simp only [fileSafeRun] at hs
      simp only [runEv, stepEv]
      apply ih _ _ hs
      show FileInv (restoreFs s.fs.files)
      rw [restoreFs_id h]; exact h

/-- **C22_files_index_partial.** For every history without an Update (single or batched) that
carries an empty database — any commands otherwise, valid or not, any log indexes, restores
anywhere — `filesByDB` agrees exactly with `files`: `filesByDB[db]` lists `p` iff `files[p]` exists
with that database; no empty inner set is left behind; all maps are in canonical form; every key is
its entry's path and passes `ValidateManifestPath`. -/
theorem C22_files_index_partial (evs : List Ev) (hs : fileSafeRun evs = true) :
    FileInv (runEv State.empty evs).fs :=
  fileInv_run State.empty evs fileInv_empty hs

example : fileSafeRun [.cmd 1 (.registerFile (fileA "a/f1" "")), .cmd 2 (.updateFile (fileA "a/f1" "db2")),
    .restore, .cmd 3 (.batch [.update (fileA "a/f1" "db1"), .delete "a/f1", .register (fileA "../x" "db")]),
    .cmd 4 (.deleteFile "")] = true := by decide

/-! ## snapshot fidelity and replay from a snapshot: manifest and node parts -/

/-- **C22_restore_files_witness.** After that same single `UpdateFile`, restoring the snapshot does
NOT reproduce the state: `Restore` rebuilds `filesByDB[""]` (monitor `restore:filesByDB-empty-db`). -/
theorem C22_restore_files_witness :
    let s := runEv State.empty [.cmd 1 (.updateFile (fileA "a/f1" ""))]
    restore (snapshot s) ≠ s ∧ (restore (snapshot s)).fs.files = s.fs.files := by decide

/-- **C22_replay_files_witness.** … and a node that installs that snapshot and applies the next
committed command ends in a different state than a node that replayed the whole log
(monitor `replay-diverges:filesByDB-empty-db`). -/
theorem C22_replay_files_witness :
    let pre : List Ev := [.cmd 1 (.updateFile (fileA "a/f1" ""))]
    let suf : List Ev := [.cmd 2 (.registerFile (fileA "a/f2" ""))]
    runEv (restore (snapshot (runEv State.empty pre))) suf ≠ runEv State.empty (pre ++ suf) := by decide

/-- **C22_restore_manifest_partial.** Inside the carve-out the node part and the manifest part
(primary map AND index) of every reachable state survive snapshot + restore unchanged. -/
theorem C22_restore_manifest_partial (evs : List Ev) (hs : fileSafeRun evs = true) :
    (restore (snapshot (runEv State.empty evs))).fs = (runEv State.empty evs).fs ∧
    (restore (snapshot (runEv State.empty evs))).cl = (runEv State.empty evs).cl :=
  ⟨restoreFs_id (C22_files_index_partial evs hs), rfl⟩

/-- the manifest part of a history evolves on its own (commands touch one part of the state) -/
def runFs (f : FileSt) : List Ev → FileSt
  | [] => f
  | .cmd i c :: es => runFs (fsStep f i c) es
  | .restore :: es => runFs (restoreFs f.files) es

theorem runEv_fs (s : State) (evs : List Ev) : (runEv s evs).fs = runFs s.fs evs := by
  induction evs generalizing s with
  | nil => rfl
  | cons e es ih =>
    cases e with
    | cmd i c => simp only [runEv, stepEv, runFs]; rw [ih, apply_fs]
    | restore => simp only [runEv, stepEv, runFs]; rw [ih]; rfl

/-- **C22_replay_manifest_partial.** Replay from a snapshot after ANY prefix equals replay from
empty, for the file manifest (primary map and `filesByDB`) and the node/role part: if the prefix stays
inside the carve-out, a node that installs the snapshot taken after it and then applies ANY suffix
(restores included) ends with the same manifest and the same nodes/primary writer/compactor as a
node that applied prefix ++ suffix from the empty state. -/
theorem C22_replay_manifest_partial (pre suf : List Ev) (hs : fileSafeRun pre = true) :
    (runEv (restore (snapshot (runEv State.empty pre))) suf).fs = (runEv State.empty (pre ++ suf)).fs ∧
    (runEv (restore (snapshot (runEv State.empty pre))) suf).cl = (runEv State.empty (pre ++ suf)).cl := by
  have h := C22_restore_manifest_partial pre hs
  refine ⟨?_, ?_⟩
  · rw [runEv_append, runEv_fs, runEv_fs (runEv State.empty pre), h.1]
  · rw [runEv_append]
    generalize runEv State.empty pre = s
    -- the node part never reads the other parts and restore leaves it untouched
    have key : ∀ (a b : State), a.cl = b.cl → (runEv a suf).cl = (runEv b suf).cl := by
      intro a b hab
      induction suf generalizing a b with
      | nil => exact hab
      | cons e es ih =>
        cases e with
        | cmd i c =>
          simp only [runEv, stepEv]
          apply ih
          cases c <;> simp [apply, liftN, liftF, liftA, hab]
        | restore =>
          simp only [runEv, stepEv]
          apply ih
          exact hab
    exact key _ _ rfl

example : fileSafeRun [.cmd 1 (.registerFile (fileA "a/f1" "")), .cmd 2 (.batch [.update (fileA "a/f1" "db1")])] = true := by
  decide

/-! ## what the proposed repair buys for the manifest (NOT tied to the source)

The patch makes `applyUpdateFileStruct` index unconditionally, i.e. behave exactly like
`applyRegisterFileStruct`. For that transition function the carve-out disappears. -/

def batchOpR (s : FileSt) (i : Nat) : BatchOp → FileSt
  | .update f => (applyRegister s i f).1
  | op => (applyBatchOp s i op).1

def fsStepR (s : FileSt) (i : Nat) : Cmd → FileSt
  | .updateFile f => (applyRegister s i f).1
  | .batch ops => if prevalidate ops = .ok then ops.foldl (fun st op => batchOpR st i op) s else s
  | c => fsStep s i c

def runFsR (f : FileSt) : List Ev → FileSt
  | [] => f
  | .cmd i c :: es => runFsR (fsStepR f i c) es
  | .restore :: es => runFsR (restoreFs f.files) es

theorem fileInv_foldR (ops : List BatchOp) (i : Nat) (g : FileSt) (hg : FileInv g) :
    FileInv (ops.foldl (fun st op => batchOpR st i op) g) := by
  induction ops generalizing g with
  | nil => exact hg
  | cons op rest ih2 =>
    simp only [List.foldl_cons]
    apply ih2
    cases op with
    | update f' => exact fileInv_register hg i f'
    | register f' => exact fileInv_register hg i f'
    | delete p => exact fileInv_delete hg p
    | malformed => exact hg
    | unsupported => exact hg

/-- **C22_repaired_files_index_full.** With the patched Update, `filesByDB` agrees with `files` and
snapshot+restore is the identity on the manifest for ALL histories. -/
theorem C22_repaired_files_index_full (evs : List Ev) :
    FileInv (runFsR {} evs) ∧ restoreFs (runFsR {} evs).files = runFsR {} evs := by
  have key : ∀ (f : FileSt), FileInv f → FileInv (runFsR f evs) := by
    induction evs with
    | nil => intro f h; exact h
    | cons e es ih =>
      intro f h
      cases e with
      | restore => simp only [runFsR]; apply ih; rw [restoreFs_id h]; exact h
      | cmd i c =>
        simp only [runFsR]
        apply ih
        cases c <;> try exact h
        · exact fileInv_register h i _
        · exact fileInv_delete h _
        · show FileInv (if prevalidate _ = .ok then _ else f)
          split
          · exact fileInv_foldR _ i f h
          · exact h
        · exact fileInv_register h i _
  have h := key {} fileInv_empty
  exact ⟨h, restoreFs_id h⟩

/-! ## tokens: restore-time validation is stricter than update-time validation -/

def tokA : TokenEntry :=
  { id := 0, name := "tA", desc := "", perms := "read", hash := "h", pfx := "p", created := 5,
    expires := 0, enabled := true, lsn := 0 }

/-- **C22_restore_token_witness.** `UpdateToken` may set the name to `""` (no validation of a
changed name); `Restore` re-validates with `validateTokenEntry` and drops the token: the snapshot
does not reproduce the state (monitor `restore:token-name-unvalidated`). -/
theorem C22_restore_token_witness :
    let s := runEv State.empty [.cmd 1 (.createToken tokA), .cmd 2 (.updateToken 1 "" "" "" 0 ["name"])]
    (apply (runEv State.empty [.cmd 1 (.createToken tokA)]) 2 (.updateToken 1 "" "" "" 0 ["name"])).2 = .ok ∧
    s.au.tokens.length = 1 ∧ (restore (snapshot s)).au.tokens = [] ∧ restore (snapshot s) ≠ s := by decide

/-- **C22_replay_token_witness.** A node that installs that snapshot accepts a later
`CreateToken` … and ends in a different state than a node that replayed the log from the start
(monitor `replay-diverges:token-name-unvalidated`). -/
theorem C22_replay_token_witness :
    let pre : List Ev := [.cmd 1 (.createToken tokA), .cmd 2 (.updateToken 1 "" "" "" 0 ["name"])]
    let suf : List Ev := [.cmd 3 (.updateToken 1 "tB" "" "" 0 ["name"])]
    runEv (restore (snapshot (runEv State.empty pre))) suf ≠ runEv State.empty (pre ++ suf) := by decide

/-! ## traversal indexes of the RBAC hierarchy are complete (full strength) -/

/-- **C22_cascade_indexes_complete.** For every history (any commands, any indexes, restores
anywhere) each team/role/measurement permission/membership in the primary maps is listed in
`teamsByOrg` / `rolesByTeam` / `measurementPermsByRole` / `tokenMembershipsByToken` /
`tokenMembershipsByTeam` under its parent — the direction of index agreement the cascades rely on. -/
theorem C22_cascade_indexes_complete (evs : List Ev) :
    let a := (runEv State.empty evs).au
    (∀ k e, a.teams.get? k = some e → get2? a.teamsByOrg e.org e.name = some k) ∧
    (∀ k e, a.roles.get? k = some e → get2? a.rolesByTeam e.team k = some ()) ∧
    (∀ k e, a.mperms.get? k = some e → get2? a.mpermsByRole e.role k = some ()) ∧
    (∀ k e, a.members.get? k = some e →
      get2? a.memByToken e.token k = some () ∧ get2? a.memByTeam e.team k = some ()) :=
  let h := pinv_runEv State.empty evs pinv_empty
  ⟨h.c1, h.c2, h.c3, h.c4⟩

end Arc.C22
