import Arc.Model.C22
import Arc.Generated.C22
import Arc.Proofs.C22.Files
import Arc.Proofs.C22.RestoreParents
import Arc.Model.C22.PreFix
import Arc.Proofs.C22.Tokens
import Arc.Proofs.C22.Members
/-!
# C22 — cluster state machine: replay determinism and snapshot fidelity

Property: for any sequence of committed cluster commands, every node that applies it — from an
empty state or from a snapshot taken after any prefix — ends in the same state, and restoring a
snapshot reproduces exactly the state it was taken from; batched file operations take effect
all-or-nothing; lookup indexes always agree with the primary records.

Stated here about the CURRENT FSM (after fixes 464463f "UpdateFile indexes an empty database" and
305f0ae "UpdateToken validates a changed name"). Full strength, every history (any commands at any
log indexes, restores anywhere): determinism, batch atomicity, `filesByDB` agreement
(`C22_files_index`), snapshot fidelity and replay-from-any-prefix for the manifest and node parts
(`C22_restore_manifest`, `C22_replay_manifest`), completeness of the RBAC traversal indexes, and —
for histories whose log indexes are strictly increasing, which is what Raft delivers — exact
agreement of `tokensByName` / `tokensByPrefix` with `tokens` and snapshot fidelity of the token part
(`C22_token_indexes`, `C22_restore_tokens`).
The two defect classes found before the fixes survive as `C22_prefix_*_witness` statements about the
explicitly named pre-fix functions (`Arc.C22.PreFix`).
-/
namespace Arc.C22
open SMap

/-! ## tie to the source: dispatch table, purity of the apply functions, validator pairing, caps -/

/-- the model's `apply` dispatch, as (type number, Go constant, Go apply function, takes log index) -/
def expectedDispatch : List (Nat × String × String × Bool) := [
  (1, "CommandAddNode", "applyAddNode", false),
  (2, "CommandRemoveNode", "applyRemoveNode", false),
  (3, "CommandUpdateNode", "applyUpdateNode", false),
  (4, "CommandUpdateNodeState", "applyUpdateNodeState", false),
  (5, "CommandPromoteWriter", "applyPromoteWriter", false),
  (6, "CommandDemoteWriter", "applyDemoteWriter", false),
  (7, "CommandRegisterFile", "applyRegisterFile", true),
  (8, "CommandDeleteFile", "applyDeleteFile", false),
  (9, "CommandAssignCompactor", "applyAssignCompactor", false),
  (10, "CommandBatchFileOps", "applyBatchFileOps", true),
  (11, "CommandUpdateFile", "applyUpdateFile", true),
  (12, "CommandCreateToken", "applyCreateToken", true),
  (13, "CommandUpdateToken", "applyUpdateToken", true),
  (14, "CommandRevokeToken", "applyRevokeToken", true),
  (15, "CommandDeleteToken", "applyDeleteToken", true),
  (16, "CommandRotateToken", "applyRotateToken", true),
  (17, "CommandCreateOrganization", "applyCreateOrganization", true),
  (18, "CommandUpdateOrganization", "applyUpdateOrganization", true),
  (19, "CommandDeleteOrganization", "applyDeleteOrganization", true),
  (20, "CommandCreateTeam", "applyCreateTeam", true),
  (21, "CommandUpdateTeam", "applyUpdateTeam", true),
  (22, "CommandDeleteTeam", "applyDeleteTeam", true),
  (23, "CommandCreateRole", "applyCreateRole", true),
  (24, "CommandUpdateRole", "applyUpdateRole", true),
  (25, "CommandDeleteRole", "applyDeleteRole", true),
  (26, "CommandCreateMeasurementPermission", "applyCreateMeasurementPermission", true),
  (27, "CommandDeleteMeasurementPermission", "applyDeleteMeasurementPermission", true),
  (28, "CommandAddTokenToTeam", "applyAddTokenToTeam", true),
  (29, "CommandRemoveTokenFromTeam", "applyRemoveTokenFromTeam", true)]

/-- **C22_dispatch_tied.** The `switch cmd.Type` of the current `ClusterFSM.Apply` (regenerated from
`/repo` on every run) is the dispatch the model implements: same 29 types, same apply function per
type, same use of the log index. -/
theorem C22_dispatch_tied :
    Arc.Generated.C22.dispatch = expectedDispatch ∧ Arc.Generated.C22.commandCount = 29 := by decide

/-- **C22_apply_pure.** No apply function, nor `Snapshot`/`Persist`/`Restore`, reaches a clock, a
random source, the OS, a goroutine or a `select` inside package raft (regenerated fact): `Apply` is a
function of (state, log index, command bytes) only — which is what lets the model be a pure function
`apply : State → Nat → Cmd → State × Res`. -/
theorem C22_apply_pure : ∀ p ∈ Arc.Generated.C22.nondet, p.2 = [] := by decide

/-- the validators the model applies per entry point (`Valid.lean`), by their Go names -/
def expectedValidators : List (String × List String) := [
  ("applyAddNode", []), ("applyRemoveNode", []), ("applyUpdateNode", []), ("applyUpdateNodeState", []),
  ("applyPromoteWriter", []), ("applyDemoteWriter", []),
  ("applyRegisterFile", ["ValidateManifestPath"]), ("applyDeleteFile", []), ("applyAssignCompactor", []),
  ("applyBatchFileOps", ["ValidateManifestPath"]), ("applyUpdateFile", ["ValidateManifestPath"]),
  ("applyCreateToken", ["validatePermissionString", "validateTokenEntry", "validateTokenHashAndPrefix"]),
  ("applyUpdateToken", ["validatePermissionString"]),
  ("applyRevokeToken", []), ("applyDeleteToken", []),
  ("applyRotateToken", ["validateTokenHashAndPrefix"]),
  ("applyCreateOrganization", ["validateOrganizationEntry"]), ("applyUpdateOrganization", []),
  ("applyDeleteOrganization", []),
  ("applyCreateTeam", ["validateTeamEntry"]), ("applyUpdateTeam", []), ("applyDeleteTeam", []),
  ("applyCreateRole", ["validatePermissionString", "validateRoleEntry"]),
  ("applyUpdateRole", ["validatePermissionString"]), ("applyDeleteRole", []),
  ("applyCreateMeasurementPermission", ["validateMeasurementPermissionEntry", "validatePermissionString"]),
  ("applyDeleteMeasurementPermission", []),
  ("applyAddTokenToTeam", ["validateTokenMembershipEntry"]), ("applyRemoveTokenFromTeam", []),
  ("Restore", ["ValidateManifestPath", "validateMeasurementPermissionEntry", "validateOrganizationEntry",
    "validatePermissionString", "validateRoleEntry", "validateTeamEntry", "validateTokenEntry",
    "validateTokenHashAndPrefix", "validateTokenMembershipEntry"]),
  ("Snapshot", []), ("Persist", [])]

/-- **C22_validators_tied.** Which validator each apply function (and `Restore`) calls in the current
source is what the model pairs them with; `applyUpdateToken` additionally applies the inline name rule
of `validateTokenEntry` to a changed name and `applyUpdateFileStruct` indexes every database, the empty
one included (the two fixes; reverting either flips a regenerated fact). The length caps are the
model's literals. -/
theorem C22_validators_tied :
    Arc.Generated.C22.validators = expectedValidators ∧
    Arc.Generated.C22.updateTokenValidatesName = true ∧
    Arc.Generated.C22.updateFileIndexesEveryDatabase = true ∧
    Arc.Generated.C22.maxManifestPathLen = 4096 ∧ Arc.Generated.C22.maxTokenHashLen = 512 ∧
    Arc.Generated.C22.maxTokenPrefixLen = 256 ∧ Arc.Generated.C22.rbacNameMaxLen = 256 ∧
    Arc.Generated.C22.rbacPatternMaxLen = 256 ∧ Arc.Generated.C22.rbacDescriptionMaxLen = 1024 := by
  decide

/-- **C22_snapshot_isolated_tied.** `Snapshot()` copies every one of the eight primary maps entry by
entry BY VALUE (`c := *v; m[k] = &c`; regenerated fact per map) — never by reusing the live pointer.
That is what makes the model's `snapshot` (a pure value) right even though several apply functions
mutate entries in place: commands applied between `Snapshot()` and `Persist()` cannot leak into the
persisted snapshot (harness: `hold k … held k`, monitor `snapshot-not-isolated:*`). -/
theorem C22_snapshot_isolated_tied :
    Arc.Generated.C22.snapshotCopies =
      [("nodes", true), ("files", true), ("tokens", true), ("organizations", true), ("teams", true),
       ("roles", true), ("measurementPermissions", true), ("tokenMemberships", true)] := by decide

/-- **C22_restore_nil_maps_tied.** The only snapshot map `Restore` installs without building a fresh
map is `Nodes`, and that field is NOT `omitempty`: an empty node map is persisted as `{}` and decodes
to an empty (non-nil) map, so a restored replica can apply AddNode/UpdateNode like any other. (All other
maps are rebuilt into fresh maps by the quarantine passes.) In the model maps are lists and
`restore (snapshot s) = s` holds with every component empty: -/
theorem C22_restore_nil_maps_tied :
    Arc.Generated.C22.restoreUnguardedMaps = [("Nodes", false)] ∧
    restore (snapshot State.empty) = State.empty ∧
    (apply (restore (snapshot State.empty)) 1
      (.addNode { id := "n1", name := "", role := "writer", cluster := "", address := "", api := "",
                  state := "", version := "", wstate := "", cores := 0 })).2 = .ok := by decide

/-- the length function and limit a (function, argument) check uses in the current source -/
def lenOf (f arg : String) : Option (String × String) :=
  (Arc.Generated.C22.lengthChecks.find? (fun c => c.1 == f && c.2.1 == arg)).map (fun c => c.2.2)

/-- every name/pattern/description check on an UPDATE path, paired with the check `Restore` (and
Create) applies to the same field through `validate*Entry` -/
def updateRestorePairs : List ((String × String) × (String × String)) := [
  (("applyUpdateToken", "p.Name"), ("validateTokenEntry", "entry.Name")),
  (("applyUpdateOrganization", "p.Name"), ("validateOrganizationEntry", "entry.Name")),
  (("applyUpdateOrganization", "p.Description"), ("validateOrganizationEntry", "entry.Description")),
  (("applyUpdateTeam", "p.Name"), ("validateTeamEntry", "entry.Name")),
  (("applyUpdateTeam", "p.Description"), ("validateTeamEntry", "entry.Description")),
  (("applyUpdateRole", "p.DatabasePattern"), ("validateRoleEntry", "entry.DatabasePattern"))]

/-- **C22_length_checks_tied.** Every length test in the validators and in the update paths measures
BYTES (`len`, what the model's `blen` is) — none uses a rune count — and each update-path test uses
exactly the length function and the limit of the `validate*Entry` test that `Restore` re-applies to
the same field: whatever an update accepts, a restore keeps. (Regenerated from `/repo`; counting runes
on one side only flips this.) -/
theorem C22_length_checks_tied :
    (∀ c ∈ Arc.Generated.C22.lengthChecks, c.2.2.1 = "len") ∧
    (∀ pr ∈ updateRestorePairs, (lenOf pr.1.1 pr.1.2).isSome = true ∧ lenOf pr.1.1 pr.1.2 = lenOf pr.2.1 pr.2.2) ∧
    Arc.Generated.C22.lengthChecks.length = 16 := by decide

/-! ## determinism -/

/-- **C22_deterministic.** Two nodes that start from the same state and apply the same committed
log (same indexes, same commands, snapshot installs at the same places) end in the same state. (The
model is a pure function by construction; that the real `Apply` is one is `C22_apply_pure` plus the
harness's peer-FSM monitor.) -/
theorem C22_deterministic (s₁ s₂ : State) (evs : List Ev) (h : s₁ = s₂) :
    runEv s₁ evs = runEv s₂ evs := by rw [h]

/-! ## batched file operations are all-or-nothing -/

/-- **C22_batch_atomic.** `CommandBatchFileOps` either is refused by the pre-validation pass —
then the state is unchanged — or it succeeds and its effect is exactly that of its ops applied
one by one, in order, as single Register/Update/Delete commands at the same log index. There is no
third outcome (the apply loop cannot fail midway). For every state, index and op list. -/
theorem C22_batch_atomic (s : State) (i : Nat) (ops : List BatchOp) :
    ((apply s i (.batch ops)).2 ≠ .ok ∧ (apply s i (.batch ops)).1 = s) ∨
    ((apply s i (.batch ops)).2 = .ok ∧
      (apply s i (.batch ops)).1 = (ops.map opCmd).foldl (fun st c => (apply st i c).1) s) := by
  have hA : apply s i (.batch ops) = liftF s (applyBatch s.fs i ops) := rfl
  rw [hA]
  unfold applyBatch
  by_cases hp : prevalidate ops = .ok
  · right
    rw [if_pos hp, applyOps_of_pre s.fs i ops hp, foldl_batch_eq_cmds]
    exact ⟨rfl, rfl⟩
  · left
    rw [if_neg hp]
    exact ⟨hp, rfl⟩

/-- a successful batch never stops early: every op reports success at the state it is applied to -/
theorem C22_batch_no_partial_failure (s : FileSt) (i : Nat) (ops : List BatchOp)
    (h : prevalidate ops = .ok) : (applyOps s i ops).2 = .ok := by
  rw [applyOps_of_pre s i ops h]

def fileA (path db : String) : FileEntry :=
  { path := path, sha := "s", size := 1, db := db, meas := "m", ptime := 0, origin := "n1", tier := "hot",
    ctime := 1700000000, lsn := 0 }

/-- non-vacuity: an accepted three-op batch, and a batch refused because of its LAST op -/
example :
    (apply State.empty 1 (.batch [.register (fileA "a/f1" "db"), .delete "a/f1", .update (fileA "a/f2" "db")])).2 = .ok ∧
    apply State.empty 1 (.batch [.register (fileA "a/f1" "db"), .update (fileA "s3://x" "db")])
      = (State.empty, .invalid) := by decide

/-! ## the by-database file index, snapshot fidelity and replay for manifest + nodes -/

theorem fileInv_run (s : State) (evs : List Ev) (h : FileInv s.fs) : FileInv (runEv s evs).fs := by
  induction evs generalizing s with
  | nil => exact h
  | cons e es ih =>
    cases e with
    | cmd i c =>
      simp only [runEv, stepEv]
      apply ih
      rw [apply_fs]; exact fileInv_step h i c
    | restore =>
      simp only [runEv, stepEv]
      apply ih
      show FileInv (restoreFs s.fs.files)
      rw [restoreFs_id h]; exact h

/-- **C22_files_index.** For EVERY history — any commands, valid or not, any log indexes, restores
anywhere — `filesByDB` agrees exactly with `files`: `filesByDB[db]` lists `p` iff `files[p]` exists
with that database (the empty database included); no empty inner set is left behind; all maps are in
canonical form; every key is its entry's path and passes `ValidateManifestPath`. -/
theorem C22_files_index (evs : List Ev) : FileInv (runEv State.empty evs).fs :=
  fileInv_run State.empty evs fileInv_empty

example :
    let s := runEv State.empty [.cmd 1 (.updateFile (fileA "a/f1" "")), .cmd 2 (.registerFile (fileA "a/f2" "")),
      .restore, .cmd 3 (.batch [.update (fileA "a/f1" "db1"), .delete "a/f2", .register (fileA "../x" "db")])]
    get2? s.fs.filesByDB "" "a/f1" = some () ∧ get2? s.fs.filesByDB "" "a/f2" = some () := by decide

/-- **C22_restore_manifest.** The node part and the manifest part (primary map AND index) of every
reachable state survive snapshot + restore unchanged. -/
theorem C22_restore_manifest (evs : List Ev) :
    (restore (snapshot (runEv State.empty evs))).fs = (runEv State.empty evs).fs ∧
    (restore (snapshot (runEv State.empty evs))).cl = (runEv State.empty evs).cl :=
  ⟨restoreFs_id (C22_files_index evs), rfl⟩

/-- the manifest part of a history evolves on its own (commands touch one part of the state) -/
def runFs (f : FileSt) : List Ev → FileSt
  | [] => f
  | .cmd i c :: es => runFs (fsStep f i c) es
  | .restore :: es => runFs (restoreFs f.files) es

theorem runEv_fs (s : State) (evs : List Ev) : (runEv s evs).fs = runFs s.fs evs := by
  induction evs generalizing s with
  | nil => rfl
  | cons e es ih =>
    cases e with
    | cmd i c => simp only [runEv, stepEv, runFs]; rw [ih, apply_fs]
    | restore => simp only [runEv, stepEv, runFs]; rw [ih]; rfl

theorem runEv_cl_congr (suf : List Ev) (a b : State) (hab : a.cl = b.cl) :
    (runEv a suf).cl = (runEv b suf).cl := by
  induction suf generalizing a b with
  | nil => exact hab
  | cons e es ih =>
    cases e with
    | cmd i c =>
      simp only [runEv, stepEv]
      apply ih
      cases c <;> simp [apply, liftN, liftF, liftA, hab]
    | restore =>
      simp only [runEv, stepEv]
      apply ih
      exact hab

/-- **C22_replay_manifest.** Replay from a snapshot taken after ANY prefix equals replay from
empty, for the file manifest (primary map and `filesByDB`) and the node/role part: a node that
installs the snapshot and then applies any suffix (restores included) ends with the same manifest
and the same nodes / primary writer / compactor as a node that applied prefix ++ suffix from the
empty state. No carve-out. -/
theorem C22_replay_manifest (pre suf : List Ev) :
    (runEv (restore (snapshot (runEv State.empty pre))) suf).fs = (runEv State.empty (pre ++ suf)).fs ∧
    (runEv (restore (snapshot (runEv State.empty pre))) suf).cl = (runEv State.empty (pre ++ suf)).cl := by
  have h := C22_restore_manifest pre
  refine ⟨?_, ?_⟩
  · rw [runEv_append, runEv_fs, runEv_fs (runEv State.empty pre), h.1]
  · rw [runEv_append]; exact runEv_cl_congr suf _ _ rfl

/-! ## the pre-fix counterexamples (statements about `Arc.C22.PreFix`, not about the current code) -/

def tokA : TokenEntry :=
  { id := 0, name := "tA", desc := "", perms := "read", hash := "h", pfx := "p", created := 5,
    expires := 0, enabled := true, lsn := 0 }

/-- pre-464463f: one `UpdateFile` with an empty database left the file out of `filesByDB[""]`;
`Restore` re-indexed it, so the snapshot did not reproduce the state and a replay from it diverged -/
theorem C22_prefix_files_witness :
    let s := PreFix.runEv State.empty [.cmd 1 (.updateFile (fileA "a/f1" ""))]
    (s.fs.files.get? "a/f1").isSome = true ∧ get2? s.fs.filesByDB "" "a/f1" = none ∧
    restore (snapshot s) ≠ s ∧
    PreFix.runEv (restore (snapshot s)) [.cmd 2 (.registerFile (fileA "a/f2" ""))] ≠
      PreFix.runEv s [.cmd 2 (.registerFile (fileA "a/f2" ""))] := by decide

/-- pre-305f0ae: `UpdateToken` could set the name to `""`; `Restore` then quarantined the token -/
theorem C22_prefix_token_witness :
    let s := PreFix.runEv State.empty [.cmd 1 (.createToken tokA), .cmd 2 (.updateToken 1 "" "" "" 0 ["name"])]
    s.au.tokens.length = 1 ∧ (restore (snapshot s)).au.tokens = [] ∧ restore (snapshot s) ≠ s := by decide

/-- the same two histories on the CURRENT functions: indexed / refused, and restore is the identity -/
theorem C22_prefix_histories_now_fine :
    let s1 := runEv State.empty [.cmd 1 (.updateFile (fileA "a/f1" ""))]
    let s2 := runEv State.empty [.cmd 1 (.createToken tokA), .cmd 2 (.updateToken 1 "" "" "" 0 ["name"])]
    get2? s1.fs.filesByDB "" "a/f1" = some () ∧ restore (snapshot s1) = s1 ∧
    (apply (runEv State.empty [.cmd 1 (.createToken tokA)]) 2 (.updateToken 1 "" "" "" 0 ["name"])).2 = .invalid ∧
    restore (snapshot s2) = s2 := by decide

/-! ## the token part: indexes by name and by prefix, snapshot fidelity -/

/-- **C22_token_indexes.** For every history with strictly increasing log indexes ≥ 1 (restores
anywhere): `tokensByName[n] = id` iff token `id` exists with name `n` (hence names are unique);
`tokensByPrefix[p]` lists exactly the ids of the tokens with prefix `p`, without duplicates, and no
empty slice is kept; every key is its token's id and is a log index already used; every stored token
passes `validateTokenEntry` (what `Restore` re-checks); all three maps are in canonical form. -/
theorem C22_token_indexes (evs : List Ev) (hinc : idxIncreasing 1 evs = true) :
    TokInv (runEv State.empty evs).au (nextIdx 1 evs : Nat) :=
  tokInv_runEv State.empty 1 evs (tokInv_empty _) hinc

/-- **C22_restore_tokens.** … and therefore snapshot + restore reproduces the token part exactly:
the primary map (nothing is quarantined) and both rebuilt indexes. -/
theorem C22_restore_tokens (evs : List Ev) (hinc : idxIncreasing 1 evs = true) :
    (restore (snapshot (runEv State.empty evs))).au.tokens = (runEv State.empty evs).au.tokens ∧
    (restore (snapshot (runEv State.empty evs))).au.byName = (runEv State.empty evs).au.byName ∧
    (restore (snapshot (runEv State.empty evs))).au.byPrefix = (runEv State.empty evs).au.byPrefix :=
  restoreAu_tok (C22_token_indexes evs hinc)

/-- non-vacuity: create, rename, rotate onto a shared prefix, restore, delete -/
example :
    let evs : List Ev :=
      [.cmd 1 (.createToken tokA), .cmd 2 (.createToken { tokA with name := "tB" }),
       .cmd 3 (.updateToken 1 "tC" "" "" 0 ["name"]), .cmd 5 (.rotateToken 2 "h2" "q"), .restore,
       .cmd 6 (.rotateToken 1 "h3" "q"), .cmd 7 (.updateToken 2 "" "" "" 0 ["name"]), .cmd 9 (.deleteToken 1)]
    idxIncreasing 1 evs = true ∧ (runEv State.empty evs).au.byName = [("tB", 2)] ∧
    (runEv State.empty evs).au.byPrefix = [("q", [2])] := by decide

/-! ## the three membership indexes agree exactly with the membership records -/

/-- **C22_membership_indexes_agree.** For every history with strictly increasing log indexes ≥ 1
(restores anywhere), through AddTokenToTeam / RemoveTokenFromTeam and the team, organization and
token cascades:
`tokenMembershipsByPair[tok][team] = id` iff membership `id` exists with that token and team (so
UNIQUE(token, team) holds and a duplicate AddTokenToTeam is refused);
`tokenMembershipsByToken[tok]` lists `id` iff membership `id` exists with token `tok`;
`tokenMembershipsByTeam[team]` lists `id` iff membership `id` exists with team `team`.
(index ⊆ records: `MemInv.s1–s3`; records ⊆ index: `MemInv.c1` and `PInv.c4`.) -/
theorem C22_membership_indexes_agree (evs : List Ev) (hinc : idxIncreasing 1 evs = true) :
    let a := (runEv State.empty evs).au
    (∀ tok tm id, get2? a.memByPair tok tm = some id ↔
        ∃ e, a.members.get? id = some e ∧ e.token = tok ∧ e.team = tm) ∧
    (∀ tok id, get2? a.memByToken tok id = some () ↔ ∃ e, a.members.get? id = some e ∧ e.token = tok) ∧
    (∀ tm id, get2? a.memByTeam tm id = some () ↔ ∃ e, a.members.get? id = some e ∧ e.team = tm) := by
  have hm := memInv_runEv State.empty 1 evs (memInv_empty _) hinc
  have hp := pinv_runEv State.empty evs pinv_empty
  refine ⟨?_, ?_, ?_⟩
  · intro tok tm id
    constructor
    · exact hm.s1 tok tm id
    · rintro ⟨e, he, h1, h2⟩; rw [← h1, ← h2]; exact hm.c1 id e he
  · intro tok id
    constructor
    · exact hm.s2 tok id
    · rintro ⟨e, he, h1⟩; rw [← h1]; exact (hp.c4 id e he).1
  · intro tm id
    constructor
    · exact hm.s3 tm id
    · rintro ⟨e, he, h1⟩; rw [← h1]; exact (hp.c4 id e he).2

/-- non-vacuity: one token in two teams, two tokens in one team, a partial removal, a team cascade, a
restore — the pair index still knows the surviving memberships -/
example :
    let mk (t tm : Int) : Cmd := .addMember { id := 0, token := t, team := tm, created := 5, lsn := 0 }
    let evs : List Ev :=
      [.cmd 1 (.createOrg { id := 0, name := "acme", desc := "", created := 5, updated := 0, enabled := false, lsn := 0 }),
       .cmd 2 (.createTeam { id := 0, org := 1, name := "core", desc := "", created := 5, updated := 0, enabled := false, lsn := 0 }),
       .cmd 3 (.createTeam { id := 0, org := 1, name := "ops", desc := "", created := 5, updated := 0, enabled := false, lsn := 0 }),
       .cmd 4 (.createToken tokA), .cmd 5 (.createToken { tokA with name := "tB" }),
       .cmd 6 (mk 4 2), .cmd 7 (mk 4 3), .cmd 8 (mk 5 2), .cmd 9 (.removeMember 5 2), .cmd 10 (.deleteTeam 2), .restore]
    idxIncreasing 1 evs = true ∧ get2? (runEv State.empty evs).au.memByPair 4 3 = some 7 ∧
    (runEv State.empty evs).au.members.length = 1 ∧
    (apply (runEv State.empty evs) 11 (mk 4 3)).2 = .exists := by decide

/-! ## traversal indexes of the RBAC hierarchy are complete (full strength) -/

/-- **C22_cascade_indexes_complete.** For every history (any commands, any indexes, restores
anywhere) each team/role/measurement permission/membership in the primary maps is listed in
`teamsByOrg` / `rolesByTeam` / `measurementPermsByRole` / `tokenMembershipsByToken` /
`tokenMembershipsByTeam` under its parent — the direction of index agreement the cascades rely on. -/
theorem C22_cascade_indexes_complete (evs : List Ev) :
    let a := (runEv State.empty evs).au
    (∀ k e, a.teams.get? k = some e → get2? a.teamsByOrg e.org e.name = some k) ∧
    (∀ k e, a.roles.get? k = some e → get2? a.rolesByTeam e.team k = some ()) ∧
    (∀ k e, a.mperms.get? k = some e → get2? a.mpermsByRole e.role k = some ()) ∧
    (∀ k e, a.members.get? k = some e →
      get2? a.memByToken e.token k = some () ∧ get2? a.memByTeam e.team k = some ()) :=
  let h := pinv_runEv State.empty evs pinv_empty
  ⟨h.c1, h.c2, h.c3, h.c4⟩

end Arc.C22
