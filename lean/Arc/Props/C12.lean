import Arc.Model.C12
import Arc.Generated.C12
import Arc.Proofs.C12.Abs
import Arc.Proofs.C12.Ops
import Arc.Proofs.C12.Repair
import Arc.Proofs.C12.Cache
/-!
# C12 — tier migration never makes data unreadable or visible twice

The migration procedure is `Arc.Generated.C12.migrateSteps` (regenerated from `MigrateFile` on every
run) interpreted by `Arc.C12.runSteps`; reconciliation, scan and the cycle order use the generated
guard / probe / delete tiers and phase list; visibility uses the generated tier-selection table of
`buildMultiTierReadParquet`. The decidable checks below (`SafeMig`, `OnceMig`, …) are evaluated over
those generated terms, so a source edit that changes a step, its error policy, the order of two
mutations or the tier selection re-checks every theorem of this file.
-/
namespace Arc.C12
open Arc.Generated.C12

/-! ## reachable states: any history of operations, each under ANY fault oracle -/

/-- States reachable from a freshly ingested file by any sequence of migration attempts, orphan
reconciliations and registration scans (hence also whole cycles), each executed under an arbitrary
oracle: any step failures in any combination, and a crash at any mutation (a crash at the k-th
mutation is the oracle `ok^(k-1) ++ [crash]`; whatever ran before it is the reachable state, and the
next operation starts from it — that is the restart). `n` is the file size in chunks. -/
inductive Reachable : FileSt → Prop
  | init : Reachable init
  | mig (n : Nat) (orc : List Outcome) {s : FileSt} : Reachable s → Reachable (migOp n s orc).1.st
  | recon (orc : List Outcome) {s : FileSt} : Reachable s → Reachable (recOp s orc).1.st
  | scan (orc : List Outcome) {s : FileSt} : Reachable s → Reachable (scanOp s orc).1.st
  | age {s : FileSt} : Reachable s → Reachable (ageOp s)   -- more than the 48 h reconcile window passes

/-! ## visibility through the abstraction -/

def visAbs (sibHot sibCold : Bool) (a : Abs) : Nat :=
  ((globbed (a.tier :: ((if sibHot then [Tier.hot] else []) ++ (if sibCold then [Tier.cold] else [])))).filter a.has).length

theorem visible_eq_visAbs (sh sc : Bool) (s : FileSt) : visibleCopies sh sc s = visAbs sh sc (absOf s) := by
  unfold visibleCopies visAbs actualTiers
  have : s.has = (absOf s).has := funext (absOf_has s)
  rw [this]
  rfl

def bools : List Bool := [false, true]

/-! ## decidable obligations on the generated procedure -/

/-- Every abstract run of the step list, from every state in which the metadata tier is complete and
the file is a migration candidate, ends (normally, with an error, or at a crash) in a state in which
the metadata tier is complete. -/
def SafeMig (steps : List Step) : Bool :=
  allAbs.all fun a => !(a.inv && decide (a.tier = srcTier)) || (absRun steps a).all fun p => p.1.inv

def SafeRec : Bool := allAbs.all fun a => !a.inv || (absRec a).all Abs.inv
def SafeScan : Bool := allAbs.all fun a => !a.inv || (absScan a).all Abs.inv

/-- If the metadata tier is complete, a query returns the file's rows at least once. -/
def VisibleInv : Bool :=
  allAbs.all fun a => !a.inv || bools.all fun sh => bools.all fun sc => decide (1 ≤ visAbs sh sc a)

/-- A fault-free migration of a candidate ends with exactly one visible copy. -/
def OnceMig (steps : List Step) : Bool :=
  allAbs.all fun a => !(a.inv && decide (a.tier = srcTier)) ||
    match absRunOk steps a with
    | some a' => bools.all fun sh => bools.all fun sc => decide (visAbs sh sc a' = 1)
    | none => false

/-- The states in which a finished reconciliation still leaves two visible copies: the metadata says
hot, a complete cold copy exists as well (cold orphan), and the measurement has other cold files. -/
def coldOrphan (sibCold : Bool) (a : Abs) : Bool :=
  decide (a.tier = Tier.hot) && a.hot && a.cold && sibCold

/-- … and the second kind: a hot orphan (metadata cold, complete copies in both tiers) whose
`migrated_at` is older than the reconcile window, in a measurement that has other hot files.
`ReconcileOrphanedFiles` never looks at it; what removes it is the next CYCLE, whose scan
re-registers the hot object as hot and gets it re-migrated (`C12_once_cycle`). -/
def staleHotOrphan (sibHot : Bool) (a : Abs) : Bool :=
  decide (a.tier = Tier.cold) && a.hot && a.cold && !a.recent && sibHot

def OnceRecPartial : Bool :=
  allAbs.all fun a => !a.inv || bools.all fun sh => bools.all fun sc =>
    coldOrphan sc (absRecOk a) || staleHotOrphan sh (absRecOk a) || decide (visAbs sh sc (absRecOk a) = 1)

/-- A fault-free cycle (generated phase order) ends with exactly one visible copy. -/
def OnceCycle : Bool :=
  allAbs.all fun a => !a.inv ||
    match absPhasesOk cycleOrder a with
    | some a' => bools.all fun sh => bools.all fun sc => decide (visAbs sh sc a' = 1)
    | none => false

/-- **C12_steps_safe.** The obligations hold for the procedure extracted from the CURRENT source. -/
theorem C12_steps_safe :
    SafeMig migrateSteps = true ∧ SafeRec = true ∧ SafeScan = true ∧ VisibleInv = true ∧
    OnceMig migrateSteps = true ∧ OnceRecPartial = true ∧ OnceCycle = true := by
  decide

/-- **C12_copy_src_error_propagates.** The model treats a source-read failure of the streaming copy
(`Outcome.srcfail`) as a failure of the whole copy step (no object under the final cold name); that
is justified by the shape factgen re-checks in `copyFileStreaming` on every run (the reader's error
closes the pipe WITH the error and is returned). -/
theorem C12_copy_src_error_propagates : copySrcErrPropagates = true := by decide

/-- … and in the model a source-read failure at any chunk never produces a cold object under the final name. -/
theorem C12_srcfail_no_final_object (k w : Nat) (x : Exec) (r : List Outcome)
    (h : x.orc = Outcome.srcfail :: r) :
    (copyChunks (k + 1) w x).2 = R.failed ∧ (copyChunks (k + 1) w x).1.st = x.st := by
  simp [copyChunks, pop, h]

/-! ## helper lemmas -/

theorem inv_of_all {l : List Abs} {a : Abs} (h : l.all Abs.inv = true) (ha : a ∈ l) : a.inv = true :=
  List.all_eq_true.mp h a ha

theorem mig_inv (n : Nat) (s : FileSt) (orc : List Outcome) (h : (absOf s).inv = true) :
    (absOf (migOp n s orc).1.st).inv = true := by
  have hs := C12_steps_safe.1
  have hm := migOp_sim n s orc
  unfold absMig at hm
  by_cases hg : (absOf s).tier = srcTier
  · rw [if_pos hg] at hm
    obtain ⟨p, hp, hpe⟩ := List.mem_map.mp hm
    have h1 := List.all_eq_true.mp hs (absOf s) (mem_allAbs _)
    simp only [h, hg, decide_true, Bool.and_self, Bool.not_true, Bool.false_or] at h1
    have := List.all_eq_true.mp h1 p hp
    rw [← hpe]; exact this
  · rw [if_neg hg] at hm
    simp only [List.mem_singleton] at hm
    rw [hm]; exact h

theorem rec_inv (s : FileSt) (orc : List Outcome) (h : (absOf s).inv = true) :
    (absOf (recOp s orc).1.st).inv = true := by
  have hs := C12_steps_safe.2.1
  have h1 := List.all_eq_true.mp hs (absOf s) (mem_allAbs _)
  simp only [h, Bool.not_true, Bool.false_or] at h1
  exact inv_of_all h1 (recOp_sim s orc)

theorem scan_inv (s : FileSt) (orc : List Outcome) (h : (absOf s).inv = true) :
    (absOf (scanOp s orc).1.st).inv = true := by
  have hs := C12_steps_safe.2.2.1
  have h1 := List.all_eq_true.mp hs (absOf s) (mem_allAbs _)
  simp only [h, Bool.not_true, Bool.false_or] at h1
  exact inv_of_all h1 (scanOp_sim s orc)

theorem reachable_inv {s : FileSt} (h : Reachable s) : (absOf s).inv = true := by
  induction h with
  | init => decide
  | mig n orc _ ih => exact mig_inv n _ orc ih
  | recon orc _ ih => exact rec_inv _ orc ih
  | scan orc _ ih => exact scan_inv _ orc ih
  | age _ ih => exact ih

theorem bools_mem (b : Bool) : b ∈ bools := by cases b <;> simp [bools]

/-- A whole `RunMigrationCycle` under any oracle stays inside `Reachable`. -/
theorem reachable_phases (n : Nat) (ps : List Phase) {s : FileSt} (orc : List Outcome) (h : Reachable s) :
    Reachable (runPhases n ps s orc).1 := by
  induction ps generalizing s orc with
  | nil => exact h
  | cons p rest ih =>
    unfold runPhases
    have hp : Reachable (phaseOp n p s orc).1 := by
      cases p with
      | scan => exact Reachable.scan orc h
      | migrate => exact Reachable.mig n orc h
      | reconcile => exact Reachable.recon orc h
    cases hph : phaseOp n p s orc with
    | mk s' r =>
      cases r with
      | mk orc' cr =>
        rw [hph] at hp
        cases cr
        · exact ih orc' hp
        · exact hp

/-! ## property theorems -/

/-- **C12_readable.** In every reachable state — after any crash point and any sequence of step
failures, retries, reconciliations and scans, for every file size — the tier the metadata points to
holds the complete file. -/
theorem C12_readable {s : FileSt} (h : Reachable s) :
    (s.tier = Tier.hot → s.hot = true) ∧ (s.tier = Tier.cold → s.cold = true) := by
  have hi := reachable_inv h
  unfold Abs.inv absOf at hi
  constructor
  · intro ht; simp only [ht, Abs.has] at hi; exact hi
  · intro ht; simp only [ht, Abs.has] at hi; exact hi

/-- **C12_readable_some_tier.** … in particular the complete contents are readable from at least one tier. -/
theorem C12_readable_some_tier {s : FileSt} (h : Reachable s) : s.hot = true ∨ s.cold = true := by
  have := C12_readable h
  cases ht : s.tier with
  | hot => exact Or.inl (this.1 ht)
  | cold => exact Or.inr (this.2 ht)

/-- **C12_visible.** … and a query over the measurement (tier selection of
`buildMultiTierReadParquet`, whatever other files the measurement has) returns the file's rows at
least once. -/
theorem C12_visible {s : FileSt} (h : Reachable s) (sibHot sibCold : Bool) :
    1 ≤ visibleCopies sibHot sibCold s := by
  have hi := reachable_inv h
  have hv := List.all_eq_true.mp C12_steps_safe.2.2.2.1 (absOf s) (mem_allAbs _)
  simp only [hi, Bool.not_true, Bool.false_or] at hv
  have := List.all_eq_true.mp (List.all_eq_true.mp hv sibHot (bools_mem _)) sibCold (bools_mem _)
  rw [visible_eq_visAbs]
  exact of_decide_eq_true this

/-- **C12_cycle_reachable.** `RunMigrationCycle` adds no new behaviour: under any oracle its result is reachable. -/
theorem C12_cycle_reachable (n : Nat) (orc : List Outcome) {s : FileSt} (h : Reachable s) :
    Reachable (cycleOp n s orc).1 :=
  reachable_phases n cycleOrder orc h

/-- **C12_once_migration.** Once a migration of the file has run to completion without a fault
(first attempt or a retry after any earlier crashes/failures), it reports success and queries see
each row exactly once, whatever other files the measurement has. -/
theorem C12_once_migration (n : Nat) (orc : List Outcome) {s : FileSt} (h : Reachable s)
    (hcand : s.tier = srcTier) (hok : AllOk orc) (sibHot sibCold : Bool) :
    (migOp n s orc).2 = some Exit.ok ∧ visibleCopies sibHot sibCold (migOp n s orc).1.st = 1 := by
  have hi := reachable_inv h
  have hc : (absOf s).tier = srcTier := hcand
  have ho := List.all_eq_true.mp C12_steps_safe.2.2.2.2.1 (absOf s) (mem_allAbs _)
  simp only [hi, hc, decide_true, Bool.and_self, Bool.not_true, Bool.false_or] at ho
  cases hr : absRunOk migrateSteps (absOf s) with
  | none => rw [hr] at ho; cases ho
  | some a' =>
    rw [hr] at ho
    simp only [] at ho
    have hm : absMigOk (absOf s) = some a' := by unfold absMigOk; rw [if_pos hc]; exact hr
    obtain ⟨_, _, h3, h4⟩ := migOp_clean n s orc a' hok hm
    refine ⟨h4 hcand, ?_⟩
    rw [visible_eq_visAbs, h3]
    exact of_decide_eq_true
      (List.all_eq_true.mp (List.all_eq_true.mp ho sibHot (bools_mem _)) sibCold (bools_mem _))

/-- "The migration or the orphan reconciliation has finished": `s'` is the state right after a
fault-free run of `MigrateTier` over the file while it was a candidate, or after a fault-free run
of `ReconcileOrphanedFiles` — from `s`, which may itself be the result of any earlier faults. -/
inductive Finished : FileSt → FileSt → Prop
  | migration (n : Nat) (orc : List Outcome) {s : FileSt} :
      s.tier = srcTier → AllOk orc → Finished s (migOp n s orc).1.st
  | reconciliation (orc : List Outcome) {s : FileSt} :
      AllOk orc → Finished s (recOp s orc).1.st

/-
**C12_once (FULL STATEMENT — FALSE for the current code, see `C12_once_witness`).**

  theorem C12_once {s s' : FileSt} (h : Reachable s) (hf : Finished s s') (sibHot sibCold : Bool) :
      visibleCopies sibHot sibCold s' = 1

i.e. "once the migration or orphan reconciliation has finished, queries see each row exactly once".
The migration half is true (`C12_once_migration`); the reconciliation half is not.
-/

/-- **C12_once_witness.** A crash after the streaming copy but before the metadata update
(`UpdateTier`) leaves a complete cold object whose metadata row still says hot. The reconciliation
only enumerates rows that say cold, so it finishes without error and without touching it; in a
measurement that has other cold files both tiers are globbed and every row is returned twice. -/
theorem C12_once_witness :
    let crashBeforeMeta : List Outcome := [.ok, .ok, .ok, .ok, .crash]   -- record, begin, chunk, done, ↯ meta
    let s1 := (migOp 1 init crashBeforeMeta).1.st
    let r := recOp s1 []
    (migOp 1 init crashBeforeMeta).2 = some Exit.crash ∧ Reachable s1 ∧ Finished s1 r.1.st ∧
    r.2 = { found := 0, deleted := 0, errors := 0, crashed := false } ∧
    r.1.st = { hot := true, cold := true, part := none, tier := .hot, pend := 1, recent := false } ∧
    visibleCopies false true r.1.st = 2 ∧ visibleCopies true true r.1.st = 2 := by
  refine ⟨by decide, Reachable.mig 1 _ Reachable.init, ?_, by decide, by decide, by decide, by decide⟩
  exact Finished.reconciliation [] allOk_nil

/-- **C12_once_reconcile_partial.** Once a reconciliation has run to completion without a fault it
reports no error, and queries see each row exactly once — EXCEPT (`hcarve`, the known finding) when
the file is left as a cold orphan (metadata hot, complete copies in both tiers) in a measurement
that has other cold files, and EXCEPT (`hwin`, the stated window assumption) when it is a hot orphan
whose `migrated_at` is older than the 48 h window in a measurement with other hot files — that one is
not reconciliation's job: the scan + re-migration of the next cycle removes it (`C12_once_cycle`). -/
theorem C12_once_reconcile_partial (orc : List Outcome) {s : FileSt} (h : Reachable s) (hok : AllOk orc)
    (sibHot sibCold : Bool)
    (hcarve : ¬ ((recOp s orc).1.st.tier = Tier.hot ∧ (recOp s orc).1.st.hot = true ∧
                 (recOp s orc).1.st.cold = true ∧ sibCold = true))
    (hwin : ¬ ((recOp s orc).1.st.tier = Tier.cold ∧ (recOp s orc).1.st.hot = true ∧
               (recOp s orc).1.st.cold = true ∧ (recOp s orc).1.st.recent = false ∧ sibHot = true)) :
    (recOp s orc).2.errors = 0 ∧ (recOp s orc).2.crashed = false ∧
    visibleCopies sibHot sibCold (recOp s orc).1.st = 1 := by
  have hi := reachable_inv h
  obtain ⟨h1, h2, _, h4⟩ := recOp_clean s orc hok
  refine ⟨h1, h2, ?_⟩
  have ho := List.all_eq_true.mp C12_steps_safe.2.2.2.2.2.1 (absOf s) (mem_allAbs _)
  simp only [hi, Bool.not_true, Bool.false_or] at ho
  have := List.all_eq_true.mp (List.all_eq_true.mp ho sibHot (bools_mem _)) sibCold (bools_mem _)
  rw [visible_eq_visAbs, h4]
  rcases Bool.or_eq_true_iff.mp this with hco | hv
  · rcases Bool.or_eq_true_iff.mp hco with hco | hst
    · exfalso
      apply hcarve
      rw [← h4] at hco
      unfold coldOrphan absOf at hco
      simp only [Bool.and_eq_true, decide_eq_true_eq] at hco
      exact ⟨hco.1.1.1, hco.1.1.2, hco.1.2, hco.2⟩
    · exfalso
      apply hwin
      rw [← h4] at hst
      unfold staleHotOrphan absOf at hst
      simp only [Bool.and_eq_true, decide_eq_true_eq, Bool.not_eq_true'] at hst
      exact ⟨hst.1.1.1.1, hst.1.1.1.2, hst.1.1.2, hst.1.2, hst.2⟩
  · exact of_decide_eq_true hv

/-- **C12_once_partial.** Once the migration or the orphan reconciliation has finished, queries see
each row exactly once, unless the finished operation leaves a cold orphan (metadata hot, complete
copies in both tiers) in a measurement that has other cold files, or a hot orphan older than the
reconcile window (see `C12_once_reconcile_partial`). By `C12_once_migration` the exceptions can only
arise on the reconciliation branch; `C12_once_cycle` has no exception at all. -/
theorem C12_once_partial {s s' : FileSt} (h : Reachable s) (hf : Finished s s') (sibHot sibCold : Bool)
    (hcarve : ¬ (s'.tier = Tier.hot ∧ s'.hot = true ∧ s'.cold = true ∧ sibCold = true))
    (hwin : ¬ (s'.tier = Tier.cold ∧ s'.hot = true ∧ s'.cold = true ∧ s'.recent = false ∧ sibHot = true)) :
    visibleCopies sibHot sibCold s' = 1 := by
  cases hf with
  | migration n orc hc hok => exact (C12_once_migration n orc h hc hok sibHot sibCold).2
  | reconciliation orc hok => exact (C12_once_reconcile_partial orc h hok sibHot sibCold hcarve hwin).2.2

/-- **C12_once_cycle.** A fault-free `RunMigrationCycle` (scan, migrate, reconcile in the source's
order) from ANY reachable state — in particular from the cold-orphan state of the witness — ends
with each row visible exactly once: the retry inside the next cycle is what removes the duplicate. -/
theorem C12_once_cycle (n : Nat) (orc : List Outcome) {s : FileSt} (h : Reachable s) (hok : AllOk orc)
    (sibHot sibCold : Bool) :
    (cycleOp n s orc).2 = false ∧ visibleCopies sibHot sibCold (cycleOp n s orc).1 = 1 := by
  have hi := reachable_inv h
  have ho := List.all_eq_true.mp C12_steps_safe.2.2.2.2.2.2 (absOf s) (mem_allAbs _)
  simp only [hi, Bool.not_true, Bool.false_or] at ho
  cases hr : absPhasesOk cycleOrder (absOf s) with
  | none => rw [hr] at ho; cases ho
  | some a' =>
    rw [hr] at ho
    simp only [] at ho
    obtain ⟨h1, h2⟩ := runPhases_clean n cycleOrder s orc a' hok hr
    refine ⟨h1, ?_⟩
    rw [visible_eq_visAbs]
    unfold cycleOp
    rw [h2]
    exact of_decide_eq_true
      (List.all_eq_true.mp (List.all_eq_true.mp ho sibHot (bools_mem _)) sibCold (bools_mem _))

/-! ## queries in the running process: the tier cache -/

/-- Histories of the long-running process: the operations above plus virtual time, queries (which
fill the 30 s tier cache), ageing and further files of the measurement being ingested and migrated;
a crash inside an operation restarts the process with an empty cache. -/
inductive ReachableW : World → Prop
  | init (sibHot sibCold : Bool) : ReachableW { f := init, sibHot := sibHot, sibCold := sibCold }
  | mig (n : Nat) (orc : List Outcome) {w : World} : ReachableW w → ReachableW (wMig n w orc)
  | recon (orc : List Outcome) {w : World} : ReachableW w → ReachableW (wRec w orc)
  | scan (orc : List Outcome) {w : World} : ReachableW w → ReachableW (wScan w orc)
  | age {w : World} : ReachableW w → ReachableW (wAge w)
  | tick (d : Nat) {w : World} : ReachableW w → ReachableW (wTick w d)
  | addMig (k : Nat) {w : World} : ReachableW w → ReachableW (wAddMig w k)
  | query {w : World} : ReachableW w → ReachableW (wQuery w).1

/-- **C12_cache_invalidators.** In the CURRENT source both `RecordFile` and `UpdateTier` (every
mutator that can change which tiers a measurement has rows in during tiering) call
`invalidateTierCache` (generated list), and the reconcile loop visits every enumerated file. -/
theorem C12_cache_invalidators :
    invBy .recordFile = true ∧ invBy .updateTier = true ∧ recLoopExhaustive = true := by decide

theorem reachableW_file {w : World} (h : ReachableW w) : Reachable w.f := by
  induction h with
  | init => exact Reachable.init
  | mig n orc _ ih => exact Reachable.mig n orc ih
  | recon orc _ ih => exact Reachable.recon orc ih
  | scan orc _ ih => exact Reachable.scan orc ih
  | age _ ih => exact Reachable.age ih
  | tick d _ ih => exact ih
  | addMig k _ ih =>
    rename_i w _
    show Reachable (wAddMig w k).f
    unfold wAddMig; split <;> exact ih
  | query _ ih => exact ih

/-- **C12_cache_coherent.** Over all histories (any faults, any timing of queries) a tier-cache
entry, whenever present — expired or not — lists exactly the tiers in which the measurement
currently has rows: cached tier set = actual tier set (in particular ⊇). -/
theorem C12_cache_coherent {w : World} (h : ReachableW w) : Coh w := by
  induction h with
  | init => intro e he; cases he
  | mig n orc _ ih => exact coh_mig C12_cache_invalidators.2.1 n _ orc ih
  | recon orc _ ih => exact coh_rec _ orc ih
  | scan orc _ ih => exact coh_scan C12_cache_invalidators.1 _ orc ih
  | age _ ih => exact ih
  | tick d _ ih => exact ih
  | addMig k _ ih => exact coh_addMig C12_cache_invalidators.1 _ k ih
  | query _ ih => exact coh_query _ ih

theorem globbed_tiers (t : Tier) (sh sc : Bool) (x : Nat) (s : FileSt) (ht : s.tier = t) :
    globbed (entTiers { hot := decide (t = Tier.hot) || sh, cold := decide (t = Tier.cold) || sc, expires := x })
      = globbed (actualTiers sh sc s) := by
  unfold actualTiers entTiers
  rw [ht]
  cases t <;> cases sh <;> cases sc <;> rfl

/-- **C12_query_warm_eq_fresh.** A query in the running process (through the tier cache, at any
time) globs exactly the tiers a freshly started process would, so it returns the file's rows the
same number of times: every theorem about `visibleCopies` transfers to queries at any moment. -/
theorem C12_query_warm_eq_fresh {w : World} (h : ReachableW w) :
    warmVisible w = visibleCopies w.sibHot w.sibCold w.f := by
  have hq := queryEnt_tiers w (C12_cache_coherent h)
  unfold warmVisible visibleCopies wQuery
  simp only []
  have he : queryEnt w = { hot := decide (w.f.tier = Tier.hot) || w.sibHot,
                           cold := decide (w.f.tier = Tier.cold) || w.sibCold, expires := (queryEnt w).expires } := by
    unfold World.tiers at hq
    cases hqe : queryEnt w with
    | mk a b c =>
      rw [hqe] at hq
      simp only [Prod.mk.injEq] at hq
      simp [hq.1, hq.2]
  rw [he, globbed_tiers w.f.tier w.sibHot w.sibCold _ w.f rfl]

/-- **C12_query_visible.** At every quiescent point of every history a query in the running
process returns the file's rows at least once (never zero times because of a stale cache). -/
theorem C12_query_visible {w : World} (h : ReachableW w) : 1 ≤ warmVisible w := by
  rw [C12_query_warm_eq_fresh h]
  exact C12_visible (reachableW_file h) _ _

/-! ## the proposed repair (model level): with it the FULL exactly-once clause is provable -/

/-- Reachability when `ReconcileOrphanedFiles` is the repaired operation `recFixOp`
(Arc/Proofs/C12/Repair.lean: additionally delete the cold copy of every migration candidate). -/
inductive ReachableFix : FileSt → Prop
  | init : ReachableFix init
  | mig (n : Nat) (orc : List Outcome) {s : FileSt} : ReachableFix s → ReachableFix (migOp n s orc).1.st
  | recon (orc : List Outcome) {s : FileSt} : ReachableFix s → ReachableFix (recFixOp s orc).1.st
  | scan (orc : List Outcome) {s : FileSt} : ReachableFix s → ReachableFix (scanOp s orc).1.st
  | age {s : FileSt} : ReachableFix s → ReachableFix (ageOp s)

def SafeRecFix : Bool := allAbs.all fun a => !a.inv || (absRecFix a).all Abs.inv
def OnceRecFix : Bool :=
  allAbs.all fun a => !a.inv || (decide (a.tier = Tier.cold) && !a.recent) ||
    bools.all fun sh => bools.all fun sc => decide (visAbs sh sc (absRecFixOk a) = 1)

theorem repair_obligations : SafeRecFix = true ∧ OnceRecFix = true := by decide

theorem reachableFix_inv {s : FileSt} (h : ReachableFix s) : (absOf s).inv = true := by
  induction h with
  | init => decide
  | mig n orc _ ih => exact mig_inv n _ orc ih
  | recon orc _ ih =>
    rename_i s _
    have h1 := List.all_eq_true.mp repair_obligations.1 (absOf s) (mem_allAbs _)
    simp only [ih, Bool.not_true, Bool.false_or] at h1
    exact inv_of_all h1 (recFixOp_sim s orc)
  | scan orc _ ih => exact scan_inv _ orc ih
  | age _ ih => exact ih

/-- **C12_repaired_readable.** The repair keeps the readable clause. -/
theorem C12_repaired_readable {s : FileSt} (h : ReachableFix s) :
    (s.tier = Tier.hot → s.hot = true) ∧ (s.tier = Tier.cold → s.cold = true) := by
  have hi := reachableFix_inv h
  unfold Abs.inv absOf at hi
  constructor
  · intro ht; simp only [ht, Abs.has] at hi; exact hi
  · intro ht; simp only [ht, Abs.has] at hi; exact hi

/-- **C12_repaired_once.** With the repair, the full clause holds: once the (repaired)
reconciliation has finished without a fault — from any state reachable through any crashes and
failures, within the reconcile window — queries see each row exactly once, with no carve-out. (The migration half is
`C12_once_migration`, whose proof only uses the invariant and applies verbatim.) -/
theorem C12_repaired_once (orc : List Outcome) {s : FileSt} (h : ReachableFix s) (hok : AllOk orc)
    (hwin : s.tier = Tier.cold → s.recent = true)   -- reconciliation runs inside the 48 h window
    (sibHot sibCold : Bool) :
    (recFixOp s orc).2.errors = 0 ∧ (recFixOp s orc).2.crashed = false ∧
    visibleCopies sibHot sibCold (recFixOp s orc).1.st = 1 := by
  have hi := reachableFix_inv h
  obtain ⟨h1, h2, h3⟩ := recFixOp_clean s orc hok
  refine ⟨h1, h2, ?_⟩
  have ho := List.all_eq_true.mp repair_obligations.2 (absOf s) (mem_allAbs _)
  simp only [hi, Bool.not_true, Bool.false_or] at ho
  rcases Bool.or_eq_true_iff.mp ho with hst | ho
  · exfalso
    unfold absOf at hst
    simp only [Bool.and_eq_true, decide_eq_true_eq, Bool.not_eq_true'] at hst
    rw [hwin hst.1] at hst
    exact absurd hst.2 (by decide)
  rw [visible_eq_visAbs, h3]
  exact of_decide_eq_true
    (List.all_eq_true.mp (List.all_eq_true.mp ho sibHot (bools_mem _)) sibCold (bools_mem _))

/-! ## non-vacuity -/

/-- `C12_readable` / `C12_visible`: a non-trivial reachable state — metadata update failed, the
roll-back delete failed too, then a retry crashed in the middle of the copy of a 3-chunk file. -/
example :
    let s1 := (migOp 3 init [.ok, .ok, .ok, .ok, .ok, .ok, .fail, .fail]).1.st
    let s2 := (migOp 3 s1 [.ok, .ok, .ok, .crash]).1.st
    Reachable s2 ∧ s2 = { hot := true, cold := true, part := some 1, tier := .hot, pend := 2, recent := false } := by
  refine ⟨Reachable.mig 3 _ (Reachable.mig 3 _ Reachable.init), by decide⟩

/-- `C12_once_migration`: hypotheses satisfiable from a state reached through a crash (retry). -/
example :
    let s1 := (migOp 2 init [.ok, .ok, .ok, .crash]).1.st
    Reachable s1 ∧ s1.tier = srcTier ∧ AllOk [Outcome.ok, Outcome.ok] ∧
    (migOp 2 s1 [.ok, .ok]).1.st = { hot := false, cold := true, part := none, tier := .cold, pend := 1, recent := true } := by
  refine ⟨Reachable.mig 2 _ Reachable.init, by decide, ?_, by decide⟩
  intro x hx; simp at hx; exact hx

/-- `C12_once_reconcile_partial` / `C12_once_partial`: the carve-out is not everything — the hot orphan left by a failed
source delete satisfies the hypotheses and is removed (2 visible copies before, 1 after). -/
example :
    let s1 := (migOp 1 init [.ok, .ok, .ok, .ok, .ok, .fail]).1.st   -- delete-hot fails (tolerated)
    let s2 := (recOp s1 []).1.st
    Reachable s1 ∧ Finished s1 s2 ∧ ¬ (s2.tier = Tier.hot ∧ s2.hot = true ∧ s2.cold = true ∧ true = true) ∧
    visibleCopies true true s1 = 2 ∧ visibleCopies true true s2 = 1 := by
  refine ⟨Reachable.mig 1 _ Reachable.init, Finished.reconciliation [] allOk_nil, by decide, by decide, by decide⟩

/-- `C12_query_*`: a warm cache across a migration — query, migrate, query 10 s later. -/
example :
    let w0 : World := { f := init, sibHot := false, sibCold := false }
    let w1 := wTick (wMig 1 (wQuery w0).1 []) 10
    ReachableW w1 ∧ (wQuery w0).1.cache = some { hot := true, cold := false, expires := 30 } ∧
    w1.cache = none ∧ warmVisible w1 = 1 := by
  refine ⟨ReachableW.tick 10 (ReachableW.mig 1 [] (ReachableW.query (ReachableW.init false false))), by decide, by decide, by decide⟩

/-- `C12_repaired_once`: on the witness's cold-orphan state the repaired reconciliation removes the duplicate. -/
example :
    let s1 := (migOp 1 init [.ok, .ok, .ok, .ok, .crash]).1.st
    ReachableFix s1 ∧ visibleCopies false true s1 = 2 ∧ visibleCopies false true (recFixOp s1 []).1.st = 1 := by
  refine ⟨ReachableFix.mig 1 _ ReachableFix.init, by decide, by decide⟩

/-- `hwin` is a real exception of the reconciliation clause and `C12_once_cycle` covers it: a crash
after the metadata update but before the hot delete, then > 48 h without a cycle. Reconciliation
alone leaves two visible copies; the next clean cycle (scan re-registers hot, re-migration) leaves one. -/
example :
    let s1 := ageOp (migOp 1 init [.ok, .ok, .ok, .ok, .ok, .crash]).1.st
    Reachable s1 ∧ visibleCopies true false (recOp s1 []).1.st = 2 ∧
    visibleCopies true false (cycleOp 1 s1 []).1 = 1 := by
  refine ⟨Reachable.age (Reachable.mig 1 _ Reachable.init), by decide, by decide⟩

/-- `C12_once_cycle`: from the witness's cold-orphan state a clean cycle restores exactly-once. -/
example :
    let s1 := (migOp 1 init [.ok, .ok, .ok, .ok, .crash]).1.st
    visibleCopies false true s1 = 2 ∧ visibleCopies false true (cycleOp 1 s1 []).1 = 1 := by decide

end Arc.C12
