import Arc.Proofs.C04.Pipeline
/-!
C04 — "No request payload can crash the server" (internal/api/{msgpack,lineprotocol,tle,import,
import_inprocess}.go, internal/ingest/arrow_writer.go).

FULL STATEMENTS (kept visible; each is FALSE of the current tree — witnesses below, reproduced on the
real server by go/harness/c04):

    theorem C04_full : ∀ cfg reqs, ∃ out, lifetime cfg reqs = .ok out ∧ ∀ resp ∈ out.1, resp.panic = none
      -- no sequence of requests makes a flush goroutine panic (process death) or a handler panic
    theorem C04_reject_stores_nothing : ∀ cfg s r resp s', step cfg s r = .ok (resp, s') →
        resp.status ≥ 400 → resp.added = 0
      -- a request answered with a status ≥ 400 appended none of its rows to a buffer
    theorem C04_names : ∀ m f, flushMerged m = .ok (some f) → ∀ c ∈ m.cols, (c.name, c.ty) ∈ f.schema
      -- every column of an accepted batch, whatever its name, is in the file that is written

What is proved instead: `_witness` theorems (concrete short request sequences on which the model — and
the real server — violates each clause) and `_partial` theorems under explicit decidable carve-outs:
`CleanReq` (the TYPED batches built by parsers outside the model — typed msgpack path, TLE, CSV, Parquet —
have columns of one length; nothing is asked of names, of generic or of row records) for the no-panic
clause, which is unconditional for requests without typed records (`C04_full_untyped`); "one record, no FlushAll" for the rejected-stores-nothing clause; "not `_`-prefixed,
not empty" for the names clause.

History. Two panics of the first round were repaired in /repo and the model follows the regenerated
facts: 1d10738 (a column named "" is rejected by both write paths, `name[0]` is guarded — the former
witness C04_full_witness_empty_name is now the theorem C04_empty_name_rejected) and d29da22
(mergeBatches returns an error instead of failing a type assertion — the former witnesses
C04_full_witness_underscore_type_change / _request_goroutine are now
C04_names_witness_underscore_conflict_rows_lost: no panic, but the acknowledged rows are lost).
3fc3856 (decodeRow rejects a tag/field called `time`; convertColumnsToTyped refuses columns of unequal
length): the former witness C04_full_witness_time_field is now C04_time_field_rejected, and the
ragged-batch carve-out of C04_partial is gone for everything the model itself converts.
-/
namespace Arc.C04
open Arc.Generated.C04

/-! ## ties to the regenerated facts -/

/-- The guards (or their absence) the model and the witnesses rest on, as extracted from the CURRENT
source. A repair flips a fact and this theorem (and the witnesses) must be restated. -/
theorem C04_facts_tied :
    sigSkipsEmpty = true ∧ sigSkipsUnderscore = true ∧ schemaGuardsEmpty = true ∧
    writeRejectsEmptyName = true ∧ schemaSkipsUnderscore = true ∧ mergeUncheckedAsserts = 0 ∧
    permBoundsChecked = false ∧ validPermBoundsChecked = false ∧ sliceBoundsChecked = true ∧
    convertChecksLengths = true ∧ decodeRowRejectsTime = true ∧
    rowTimeGuard = false ∧ flushGoroutinesRecover = false ∧ writeAtomic = false ∧
    handlerPanicsRecovered = true ∧ importRejectsEmptyName = true := by decide

/-- Every handler validates the database name (≤ 64 bytes) before anything is buffered, and the WAL
envelope header has room for 255: the `envHeader[:3+len(db)]` slice of AppendRawWithMeta cannot go out
of range for a request that passed validation. -/
theorem C04_envelope_safe (cfg : Cfg) (db : Name) (h : validDb db = true) : envPanics cfg db = false :=
  envPanics_false cfg h

theorem C04_envelope_limits_tied : 3 + dbNameMaxLen ≤ envHeaderCap ∧ dbValidatedAt.length = 6 := by decide

/-- …whereas the envelope itself is unguarded: a 256-byte name (only reachable by a caller that skips
validation) slices past the array. -/
theorem C04_envelope_witness : envPanics ⟨10, true⟩ (List.replicate 256 100) = true := by decide +kernel

/-! ## concrete requests used by the witnesses -/

def dbN : Name := [100, 98]          -- "db"
def mN : Name := [109]               -- "m"
def nN : Name := [110]               -- "n"
def vN : Name := [118]               -- "v"
def wN : Name := [119]               -- "w"
def uxN : Name := [95, 120]          -- "_x"
def t0 : Int := 1700000000000000

def tcol (n : Nat) : Col := ⟨timeName, .i64, n, 0⟩

/-- `{m:"m", columns:{time:[t], "":[1]}}` -/
def reqEmptyName : Req :=
  { ep := .msgpack, db := dbN, vmeas := [mN], recs := [.typed mN ⟨[⟨[], .i64, 1, 0⟩, tcol 1], [t0], 1⟩] }

/-- `{m:"m", columns:{time:[t], _x:[…ty…], v:[1.0]}}` -/
def reqUnderscore (ty : Ty) (t : Int) : Req :=
  { ep := .msgpack, db := dbN, vmeas := [mN],
    recs := [.typed mN ⟨[⟨uxN, ty, 1, 0⟩, tcol 1, ⟨vN, .f64, 1, 0⟩], [t], 1⟩] }

def reqPlain (meas col : Name) (ty : Ty) (t : Int) : Req :=
  { ep := .msgpack, db := dbN, vmeas := [meas], recs := [.typed meas ⟨[tcol 1, ⟨col, ty, 1, 0⟩], [t], 1⟩] }

/-- row format `{m:"m", t:1700000000, fields:{time: t0-1, v: 1}}` -/
def reqTimeField : Req :=
  { ep := .msgpack, db := dbN, vmeas := [mN],
    recs := [.rows mN [⟨[], [(timeName, .int), (vN, .int)]⟩] [t0, t0 - 1] 1] }

/-- `[{m:"m", columns:{time:[t], v:[1]}}, {m:"n", columns:{time:[t], v:[{…}]}}]` -/
def reqGoodThenBad : Req :=
  { ep := .msgpack, db := dbN, vmeas := [mN, nN],
    recs := [.generic mN [(timeName, [.int]), (vN, [.int])] [t0] 1,
             .generic nN [(timeName, [.int]), (vN, [.other])] [t0] 1] }

def big : Cfg := ⟨1000000, false⟩

/-- the site of the flush-goroutine panic that killed the process, if any -/
def crashSite {α : Type} : Except Site α → Option Site
  | .error s => some s
  | .ok _ => none

/-! ## clause 1: no panic -/

/-- an empty column name is now REJECTED: both write paths refuse the batch before the buffer is
touched (handler answers 500), whatever the state -/
theorem C04_empty_name_rejected (cfg : Cfg) (s : St) (db meas : Name) (b : Batch)
    (h : b.cols.any (fun c => c.name.isEmpty) = true) : bufferBatch cfg s db meas b = .ok (.reject, s) := by
  unfold bufferBatch
  have hf : writeRejectsEmptyName = true := by decide
  simp [hf, h]

example : (lifetime big [reqEmptyName]).toOption.map (fun o => (o.1.map (fun r => (r.status, r.added)), o.2.stored, o.2.lost))
    = some ([(500, 0)], 0, 0) := by decide

/-- a row-format field called `time` still doubles the time column in rowsToColumnar, but the typing
chokepoint now refuses the ragged columns: 500, nothing buffered, nothing crashes (on the real server
decodeRow already answers 400) -/
theorem C04_time_field_rejected :
    (lifetime big [reqTimeField]).toOption.map (fun o => (o.1.map (fun r => (r.status, r.added, r.panic)), o.2.stored, o.2.lost))
      = some ([(500, 0, none)], 0, 0) := by decide

/-- …for ANY generic or row record: what `convert` lets through has columns of one length -/
theorem C04_convert_even (cols : List (Name × List Cell)) (times : List Int) (nrec : Nat) (b : Batch)
    (h : convert cols times nrec = some b) : evenBatch b = true := convert_even h

/-- C04_full under the producer contract: a server whose typed-path parsers hand over batches with
columns of one length never panics — neither a handler nor a flush goroutine — whatever the column NAMES (empty,
`_`-prefixed, reserved), the interleaving of endpoints, measurements, signature and type changes, buffer
size and WAL setting. -/
theorem C04_partial (cfg : Cfg) (reqs : List Req) (h : ∀ r ∈ reqs, CleanReq r = true) :
    ∃ out, lifetime cfg reqs = .ok out ∧ ∀ resp ∈ out.1, resp.panic = none := by
  obtain ⟨resps, s, hp, hi, hn⟩ := pipelineFrom_ok cfg reqs (s := {}) (fun _ hh => absurd hh List.not_mem_nil) h
  obtain ⟨s', hd⟩ := drain_ok s.bufs s hi
  refine ⟨(resps, s'), ?_, hn⟩
  unfold lifetime pipeline
  rw [hp]; simp only [hd]

/-- non-vacuity: three clean requests with a type change of `v` (int → float → string) and a second
measurement; all accepted, all rows stored -/
example : (∀ r ∈ [reqPlain mN vN .i64 t0, reqPlain mN vN .f64 (t0 + 1), reqPlain nN vN .str t0, reqPlain mN vN .f64 (t0 + 2)],
      CleanReq r = true) ∧
    (lifetime big [reqPlain mN vN .i64 t0, reqPlain mN vN .f64 (t0 + 1), reqPlain nN vN .str t0, reqPlain mN vN .f64 (t0 + 2)]).toOption.map
      (fun o => (o.1.map (·.status), o.2.stored, o.2.lost)) = some ([204, 204, 204, 204], 4, 0) := by decide

/-- unusual names and the `time` field are all inside the hypothesis now; only a ragged TYPED batch is not -/
example : CleanReq reqEmptyName = true ∧ CleanReq (reqUnderscore .i64 t0) = true ∧ CleanReq reqTimeField = true ∧
    CleanReq { ep := .csv, db := dbN, recs := [.typed mN ⟨[tcol 2, ⟨vN, .i64, 1, 0⟩], [t0, t0 - 1], 2⟩] } = false := by
  decide

def Rec.isTyped : Rec → Bool
  | .typed _ _ => true
  | _ => false

/-- C04_full (no-panic clause) at FULL strength for every sequence of requests that carry no typed
record — all generic msgpack (batch / array / row format) and all line-protocol traffic: no hypothesis
on names, types, lengths, cell kinds, order, buffer size or WAL. -/
theorem C04_full_untyped (cfg : Cfg) (reqs : List Req)
    (h : ∀ r ∈ reqs, ∀ rec ∈ r.recs, rec.isTyped = false) :
    ∃ out, lifetime cfg reqs = .ok out ∧ ∀ resp ∈ out.1, resp.panic = none := by
  apply C04_partial
  intro r hr
  unfold CleanReq
  simp only [List.all_eq_true]
  intro rec hrec
  have := h r hr rec hrec
  cases rec <;> simp_all [CleanRec, Rec.isTyped]

/-- non-vacuity: ragged generic columns, a `time` field, an empty name and a `_x` type change, all
without typed records: nothing panics -/
example : (lifetime ⟨2, true⟩ [reqTimeField, reqGoodThenBad,
      { ep := .msgpack, db := dbN, vmeas := [mN], recs := [.generic mN [(timeName, [.int, .int]), (vN, [.int])] [t0, t0 - 1] 2] },
      { ep := .lp, db := dbN, vmeas := [mN], recs := [.generic mN [(timeName, [.int]), (uxN, [.int]), ([], [.str])] [t0] 1] }]).toOption.map
    (fun o => o.1.map (fun r => (r.status, r.panic))) = some [(500, none), (500, none), (500, none), (500, none)] := by decide

/-! ## clause 2: a rejected request stores no rows -/

/-- the record loop of `ArrowBuffer.Write` stops at the first failing record: the request is answered
500 and the first record's row stays buffered (and is flushed to storage later) -/
theorem C04_reject_stores_nothing_witness :
    (lifetime big [reqGoodThenBad]).toOption.map (fun o => (o.1.map (fun r => (r.status, r.added)), o.2.stored))
      = some ([(500, 1)], 1) := by decide

/-- an import is answered 500 when `FlushAll` reports an error for ANY buffer — here a zero-row batch of
an earlier request ("no time data") — although its own rows were written -/
theorem C04_reject_stores_nothing_witness_import :
    (pipeline big [{ ep := .msgpack, db := dbN, vmeas := [nN], recs := [.generic nN [(vN, [])] [] 0] },
                   { ep := .csv, db := dbN, vmeas := [mN], recs := [.typed mN ⟨[tcol 1, ⟨vN, .i64, 1, 0⟩], [t0], 1⟩] }]).toOption.map
      (fun o => (o.1.map (fun r => (r.status, r.added)), o.2.stored)) = some ([(204, 0), (500, 1)], 1) := by decide

/-- In every write/import handler of the CURRENT source all name validation is a pass of its own that
is complete before the first record is handed to the buffer (no loop both validates and writes). This
is what `step` encodes (validate, then `writeRecs`); folding the validation into a write loop flips the
fact and this theorem no longer checks. -/
theorem C04_validation_first_tied :
    namesValidatedBeforeAnyWrite = true ∧ validationFirstAt.length = 7 := by decide

/-- requests rejected by validation (library stage, database name, measurement name) leave the whole
server state untouched: a request rejected by NAME VALIDATION stores nothing -/
theorem C04_reject_by_validation_unchanged (cfg : Cfg) (s s' : St) (r : Req) (resp : Resp)
    (hv : r.pre.isSome ∨ validDb r.db = false ∨ r.vmeas.any (fun m => !validMeas m) = true)
    (h : step cfg s r = .ok (resp, s')) : s' = s ∧ resp.added = 0 := by
  unfold step at h
  cases hp : r.pre with
  | some st =>
    simp only [hp] at h
    cases h; exact ⟨rfl, rfl⟩
  | none =>
    simp only [hp] at h
    rcases hv with hv | hv | hv
    · simp [hp] at hv
    · simp only [hv, Bool.not_false, ↓reduceIte] at h
      cases h; exact ⟨rfl, rfl⟩
    · by_cases hdb : validDb r.db = true
      · simp only [hdb, Bool.not_true, Bool.false_eq_true, ↓reduceIte, hv] at h
        cases h; exact ⟨rfl, rfl⟩
      · have : validDb r.db = false := by simpa using hdb
        simp only [this, Bool.not_false, ↓reduceIte] at h
        cases h; exact ⟨rfl, rfl⟩

/-- C04_reject_stores_nothing under the carve-out "at most one record and no FlushAll": whatever the
record and the state, a status ≥ 400 means none of the request's rows was appended. -/
theorem C04_reject_stores_nothing_partial (cfg : Cfg) (s s' : St) (r : Req) (resp : Resp)
    (h1 : r.recs.length ≤ 1) (h2 : r.ep.flushesAll = false)
    (h : step cfg s r = .ok (resp, s')) (hr : resp.status ≥ 400) : resp.added = 0 := by
  unfold step at h
  cases hp : r.pre with
  | some st => simp only [hp] at h; cases h; rfl
  | none =>
    simp only [hp] at h
    split at h
    · cases h; rfl
    · split at h
      · cases h; rfl
      · match hrecs : r.recs, h1 with
        | [], _ =>
          rw [hrecs] at h
          simp only [writeRecs, h2, Bool.not_false, Bool.or_true, ↓reduceIte] at h
          cases h; rfl
        | [rec], _ =>
          rw [hrecs] at h
          simp only [writeRecs] at h
          cases hw : writeRec cfg s r.db rec with
          | error site => simp [hw] at h
          | ok p =>
            obtain ⟨o, s1⟩ := p
            cases o with
            | ok n =>
              simp only [hw, writeRecs, h2, Bool.not_false, Bool.or_true, ↓reduceIte] at h
              cases h
              simp at hr
            | reject =>
              simp only [hw, h2, Bool.not_false, Bool.or_true, ↓reduceIte] at h
              cases h; rfl
            | reqPanic site =>
              simp only [hw, h2, Bool.not_false, Bool.or_true, ↓reduceIte] at h
              cases h; rfl
        | _ :: _ :: _, hl => simp at hl

/-- non-vacuity: a single bad record is answered 500 with nothing appended -/
example : (step big {} { ep := .msgpack, db := dbN, vmeas := [nN], recs := [.generic nN [(timeName, [.int]), (vN, [.other])] [t0] 1] }).toOption.map
    (fun o => (o.1.status, o.1.added, o.2.buffered)) = some (500, 0, 0) := by decide

/-! ## clause 3: unusual names / type changes are stored correctly or rejected -/

/-- a `_`-prefixed column changes type between two requests: the signature ignores it, both batches
share a buffer, mergeBatches now returns an error — both requests were answered 204 and BOTH rows are
lost (with the 3rd request of another signature the loss happens on the request path, still 204) -/
theorem C04_names_witness_underscore_conflict_rows_lost :
    (lifetime ⟨2, false⟩ [reqUnderscore .i64 t0, reqUnderscore .str (t0 + 1)]).toOption.map
      (fun o => (o.1.map (fun r => (r.status, r.panic)), o.2.stored, o.2.lost)) = some ([(204, none), (204, none)], 0, 2) ∧
    (lifetime big [reqUnderscore .i64 t0, reqUnderscore .str (t0 + 1), reqPlain mN wN .f64 (t0 + 2)]).toOption.map
      (fun o => (o.1.map (fun r => (r.status, r.panic)), o.2.stored, o.2.lost))
      = some ([(204, none), (204, none), (204, none)], 1, 2) := by decide

/-- a `_`-prefixed column is accepted (204), never causes an error, and is NOT in the stored file -/
theorem C04_names_witness_underscore_dropped :
    (lifetime big [reqUnderscore .i64 t0]).toOption.map (fun o => (o.1.map (·.status), o.2.files.map (·.schema)))
      = some ([204], [[(timeName, .i64), (vN, .f64)]]) := by decide

theorem writeParquet_schema {cols : List Col} {rows : Nat} {f : FileOut}
    (h : writeParquet cols rows = .ok (some f)) : f.schema = (schemaFields cols).map (fun c => (c.name, c.ty)) := by
  unfold writeParquet at h
  split at h
  · cases h
  · split at h
    · cases h
    · simp only at h
      split at h
      · cases h
      · split at h
        · cases h
        · cases h; rfl

theorem mem_schemaFields {cols : List Col} {c : Col} (hc : c ∈ cols) (hu : isUnderscore c.name = false)
    (he : c.name ≠ []) : c ∈ schemaFields cols := by
  unfold schemaFields
  refine List.mem_filter.2 ⟨hc, ?_⟩
  have : c.name.isEmpty = false := by simpa using he
  simp [hu, this]

/-- C04_names under the carve-out "not `_`-prefixed, not empty": whenever a flush writes a file, every
such column of the merged batch is in the file's schema with its type (reserved-looking names such as
`measurement`, `database`, `host`, names with spaces or non-ASCII bytes are ordinary names). -/
theorem C04_names_partial (m : Batch) (f : FileOut) (h : flushMerged m = .ok (some f))
    (c : Col) (hc : c ∈ m.cols) (hu : isUnderscore c.name = false) (he : c.name ≠ []) :
    (c.name, c.ty) ∈ f.schema := by
  have key : ∀ cols rows, writeParquet cols rows = .ok (some f) → c ∈ schemaFields cols →
      (c.name, c.ty) ∈ f.schema := by
    intro cols rows hw hm
    rw [writeParquet_schema hw]
    exact List.mem_map.2 ⟨c, hm, rfl⟩
  have hev : ∀ n, (⟨c.name, c.ty, n, if c.vlen == 0 then 0 else n⟩ : Col) ∈ evened m.cols n := by
    intro n; unfold evened; exact List.mem_map.2 ⟨c, hc, rfl⟩
  have keyE : ∀ n rows, writeParquet (evened m.cols n) rows = .ok (some f) → (c.name, c.ty) ∈ f.schema := by
    intro n rows hw
    rw [writeParquet_schema hw]
    exact List.mem_map.2 ⟨_, mem_schemaFields (hev n) hu he, rfl⟩
  unfold flushMerged at h
  split at h
  · cases h
  · simp only at h
    split at h
    · split at h
      · exact key _ _ h (mem_schemaFields hc hu he)
      · split at h
        · cases h
        · split at h
          · cases h
          · exact keyE _ _ h
    · exact keyE _ _ h

/-! ### imports: no column is lost to a name collision -/

theorem storageName_inj {h : List Name} {tc : Name} (hv : validHeader h tc = true) {a b : Name}
    (ha : a ∈ h) (hb : b ∈ h) (e : storageName tc a = storageName tc b) : a = b := by
  unfold validHeader at hv
  simp only [Bool.and_eq_true, Bool.not_eq_true', Bool.or_eq_true, beq_iff_eq, List.contains_eq_mem,
    decide_eq_false_iff_not, decide_eq_true_eq] at hv
  obtain ⟨⟨⟨⟨_, _⟩, _⟩, ht⟩, _⟩ := hv
  unfold storageName at e
  by_cases h1 : a = tc <;> by_cases h2 : b = tc
  · rw [h1, h2]
  · simp only [h1, beq_self_eq_true, ↓reduceIte, beq_iff_eq, h2] at e
    rcases ht with ht | ht
    · exact absurd (e.symm.trans ht.symm) h2
    · exact absurd (e ▸ hb) ht
  · simp only [beq_iff_eq, h1, ↓reduceIte, h2, beq_self_eq_true] at e
    rcases ht with ht | ht
    · exact absurd (e.trans ht.symm) h1
    · exact absurd (e ▸ ha) ht
  · simpa [h1, h2] using e

theorem distinct_map_storage {h : List Name} {tc : Name} (hv : validHeader h tc = true) :
    ∀ (l : List Name), (∀ x ∈ l, x ∈ h) → distinctNames l = true → distinctNames (l.map (storageName tc)) = true
  | [], _, _ => rfl
  | x :: xs, hsub, hd => by
    unfold distinctNames at hd
    simp only [Bool.and_eq_true, Bool.not_eq_true', List.contains_eq_mem, decide_eq_false_iff_not] at hd
    simp only [List.map_cons, distinctNames, Bool.and_eq_true, Bool.not_eq_true', List.contains_eq_mem,
      decide_eq_false_iff_not, List.mem_map, not_exists, not_and]
    refine ⟨?_, distinct_map_storage hv xs (fun y hy => hsub y (List.mem_cons_of_mem _ hy)) hd.2⟩
    intro y hy e
    have := storageName_inj hv (hsub y (List.mem_cons_of_mem _ hy)) (hsub x (List.mem_cons_self ..)) e
    exact hd.1 (this ▸ hy)

/-- C04_names for imports: a header accepted by `validateImportHeader` is stored under pairwise
distinct map keys — no column (padded, blank, reserved-looking, …) overwrites another one or the
generated `time` column. Rests on the regenerated fact that the names used for storage ARE the names
validated (no TrimSpace / case folding after validation): `C04_import_names_tied`. -/
theorem C04_import_names_distinct (header : List Name) (timeCol : Name) (hv : validHeader header timeCol = true) :
    distinctNames (storageNames header timeCol) = true ∧ (storageNames header timeCol).length = header.length := by
  refine ⟨?_, by simp [storageNames]⟩
  unfold validHeader at hv
  have hd : distinctNames header = true := by
    simp only [Bool.and_eq_true] at hv; exact hv.1.1.1.2
  exact distinct_map_storage (by unfold validHeader; exact hv) header (fun _ hx => hx) hd

theorem C04_import_names_tied : importNamesStoredAsValidated = true ∧ importRejectsEmptyName = true ∧
    importRejectsUnderscoreName = true := by decide

/-- since 273e2e1 an import cannot lose a column to the `_` rule of the schema builders either: no
storage name of an accepted header is `_`-prefixed (such a header is rejected with 400) or empty -/
theorem C04_import_no_internal_names (header : List Name) (timeCol : Name) (hv : validHeader header timeCol = true) :
    ∀ n ∈ storageNames header timeCol, isUnderscore n = false ∧ n ≠ [] := by
  intro n hn
  unfold storageNames at hn
  obtain ⟨x, hx, rfl⟩ := List.mem_map.1 hn
  unfold validHeader at hv
  have hf : importRejectsUnderscoreName = true := by decide
  simp only [Bool.and_eq_true, Bool.not_eq_true', hf, Bool.true_and, List.any_eq_false, List.contains_eq_mem,
    decide_eq_false_iff_not] at hv
  unfold storageName
  by_cases h : x == timeCol
  · simp only [h, ↓reduceIte]; exact ⟨by decide, by decide⟩
  · simp only [h, Bool.false_eq_true, ↓reduceIte]
    refine ⟨?_, fun e => hv.1.1.1.1 (e ▸ hx)⟩
    have := hv.2 x hx
    simpa using this

/-- non-vacuity: `time, v, " v", " time", " "` is a valid header; its trimmed version is not -/
example : validHeader [timeName, [118], [32, 118], [32, 116, 105, 109, 101], [32]] timeName = true ∧
    validHeader [timeName, [118], [118]] timeName = false ∧
    validHeader [[116, 115], [32, 116, 105, 109, 101]] [116, 115] = true ∧
    validHeader [[116, 115], timeName] [116, 115] = false ∧
    validHeader [timeName, [95, 120]] timeName = false := by decide

/-- non-vacuity: reserved-looking names are stored -/
example : (lifetime big [reqPlain mN [109, 101, 97, 115, 117, 114, 101, 109, 101, 110, 116] .str t0]).toOption.map
    (fun o => o.2.files.map (·.schema)) = some [[(timeName, .i64), ([109, 101, 97, 115, 117, 114, 101, 109, 101, 110, 116], .str)]] := by
  decide

/-- a type change of an ORDINARY column between requests is a signature change: the old buffer is
flushed first, both rows are stored, in two files with the two types -/
theorem C04_names_typechange :
    (lifetime big [reqPlain mN vN .i64 t0, reqPlain mN vN .str (t0 + 1)]).toOption.map
      (fun o => (o.1.map (·.status), o.2.files.map (·.schema)))
    = some ([204, 204], [[(timeName, .i64), (vN, .i64)], [(timeName, .i64), (vN, .str)]]) ∧
    (lifetime big [reqPlain mN vN .i64 t0, reqPlain mN vN .str (t0 + 1)]).toOption.map (fun o => (o.2.stored, o.2.lost))
    = some (2, 0) := by decide

/-- the signature rule that separates the two cases, on the regenerated facts -/
theorem C04_signature_skips_tied : sigSkips [] = true ∧ sigSkips uxN = true ∧ sigSkips vN = false ∧
    sameSig ⟨[⟨uxN, .i64, 1, 0⟩, tcol 1], [t0], 1⟩ ⟨[⟨uxN, .str, 1, 0⟩, tcol 1], [t0], 1⟩ = true ∧
    sameSig ⟨[⟨vN, .i64, 1, 0⟩, tcol 1], [t0], 1⟩ ⟨[⟨vN, .str, 1, 0⟩, tcol 1], [t0], 1⟩ = false := by decide

end Arc.C04
