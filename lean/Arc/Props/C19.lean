import Arc.Model.C19
import Arc.Proofs.C19.Msgpack
import Arc.Proofs.C19.Json
import Arc.Proofs.C19.Rows
import Arc.Proofs.C19.Blob
/-!
C19 — Query responses faithfully encode DuckDB's results: the byte-level part that is PROVED.

Implementation models (`writeJSONString`, cell writers, row loops, msgpack encoders of the fork, envelopes) are
in Arc/Model/C19.lean with every constant / table taken from `Arc.Generated.C19` (regenerated from the source on
each run).  The specs they are proved against are the RFC 8259 string decoder `jsonDecode`, RFC 3629 `ValidUTF8`
and the MessagePack-spec token decoder `decTok` / `decTime`.

JSON strings.  `writeJSONString` itself passes bytes ≥ 0x80 through verbatim, so as a function of ARBITRARY bytes
it is only correct on valid UTF-8 (`C19_json_string`; `C19_json_string_raw` states what it emits otherwise and
`C19_json_string_witness` keeps the counterexample about the raw writer).  Until /repo 5813498 a BLOB cell reached it
unconverted (former finding `json-malformed:binary`).  Now every call site of the cell writer feeds it valid UTF-8:
VARCHAR cells (DuckDB guarantees UTF-8), BLOB cells through `blobText` (proved ASCII ⇒ valid UTF-8: `C19_json_blob`,
and DuckDB's text form gives the bytes back: `C19_blob_text`), Decimal128 through `decimalText` (digits, `-`, `.`).
-/
namespace Arc.C19
open Arc.Generated.C19

/-! ## regenerated facts the proofs stand on (editing the source re-checks these and every theorem below) -/

/-- the escape table of `writeJSONString` covers exactly `"`, `\` and the five short control escapes, everything
below 0x20 is escaped, and each table entry is the RFC 8259 two-character escape of its byte -/
theorem C19_escape_table :
    escBelow = 32 ∧ escAlways = [34, 92] ∧
    (∀ p ∈ escTable, decEscape (p.2.drop 1) = some ([p.1], []) ∧ p.2.head? = some 92) ∧
    (∀ c : Fin 128, needsEsc c.val = true ↔ (c.val < 32 ∨ c.val = 34 ∨ c.val = 92)) := by
  refine ⟨by decide, by decide, by decide, by decide⟩

/-- size-class thresholds of the msgpack header writers are the format's boundaries 2^5, 2^4, 2^7, 2^8, 2^16, 2^32 -/
theorem C19_msgpack_thresholds :
    uintFixLe + 1 = 2 ^ 7 ∧ uint8Le + 1 = 2 ^ 8 ∧ uint16Le + 1 = 2 ^ 16 ∧ uint32Le + 1 = 2 ^ 32 ∧
    intFixGe = -(2 ^ 5) ∧ int8Ge = -(2 ^ 7) ∧ int16Ge = -(2 ^ 15) ∧ int32Ge = -(2 ^ 31) ∧
    strFixLt = 2 ^ 5 ∧ str8Lt = 2 ^ 8 ∧ str16Le + 1 = 2 ^ 16 ∧ bin8Lt = 2 ^ 8 ∧ bin16Le + 1 = 2 ^ 16 ∧
    arrFixLt = 2 ^ 4 ∧ arr16Le + 1 = 2 ^ 16 ∧ mapFixLt = 2 ^ 4 ∧ map16Le + 1 = 2 ^ 16 ∧
    timeSecShift = 34 ∧ timeExtId = 255 ∧ mpEnvMapLen = mpEnvKeys.length ∧
    mpEnvKeys = [kSuccess, kColumns, kTypes, kData, kRowCount, kExecMs, kTimestamp] := by
  decide

/-! ## JSON strings -/

/-- **C19_json_string** (= partial under the carve-out `ValidUTF8`): the RFC 8259 decoder reads the writer's
output back as exactly the input, for every valid UTF-8 string (quotes, backslashes, all control characters,
non-ASCII of every length). -/
theorem C19_json_string (s : Bytes) (hv : ValidUTF8 s) : jsonDecode (writeJSONString s) = some s := by
  have := decStr_write_strict s hv []
  simp only [List.append_nil] at this
  simp [jsonDecode, jsonDecodeG, this]

theorem C19_json_string_partial (s : Bytes) (hv : ValidUTF8 s) : jsonDecode (writeJSONString s) = some s :=
  C19_json_string s hv

example : ValidUTF8 [34, 92, 10, 1, 0xC3, 0xA9, 0xF0, 0x9F, 0x98, 0x80] :=
  .one _ _ (by decide) (.one _ _ (by decide) (.one _ _ (by decide) (.one _ _ (by decide)
    (.two _ _ _ (by decide) (.four _ _ _ _ _ (by decide) .nil)))))

/-- the same inside a larger document: a written string followed by ANY tail is read back and the tail is left
untouched (this is what makes column-name arrays and string cells decodable in context) -/
theorem C19_json_string_in_context (s : Bytes) (hv : ValidUTF8 s) (tail : Bytes) :
    decStr true (writeJSONString s ++ tail) = some (s, tail) := decStr_write_strict s hv tail

/-- what is emitted for ALL byte strings (valid UTF-8 or not): the output is `"` … `"`, every byte below 0x80 is
either itself or its RFC 8259 escape, and every byte ≥ 0x80 is the raw input byte — i.e. the byte-transparent
reading returns exactly the input. -/
theorem C19_json_string_raw (s : Bytes) (hs : AllBytes s) : jsonDecodeRaw (writeJSONString s) = some s := by
  have := decStr_write_raw s hs []
  simp only [List.append_nil] at this
  simp [jsonDecodeRaw, jsonDecodeG, this]

example : AllBytes [0xFF, 34, 0x80] := by intro b hb; simp at hb; omega

/-- witness of the finding: a one-byte BLOB 0xFF is written as the three bytes `" 0xFF "`, which no JSON decoder
can accept as a string (it is not UTF-8); the byte-transparent reading shows the raw byte is what was sent. -/
theorem C19_json_string_witness :
    writeJSONString [0xFF] = [34, 0xFF, 34] ∧ jsonDecode (writeJSONString [0xFF]) = none ∧
    jsonDecodeRaw (writeJSONString [0xFF]) = some [0xFF] ∧ ¬ ValidUTF8 [0xFF] := by
  refine ⟨by decide, by decide, by decide, ?_⟩
  intro h
  cases h with
  | one _ _ h _ => omega

/-! ## BLOB cells (since /repo 5813498) and Decimal128 cells (since 6bd10ec) -/

/-- regenerated parameters of `blobText`: printable ASCII 32..126 except `\ ' "` is literal, the escape is `\x` +
two digits of an alphabet that `hexVal` reads back (so editing the table re-checks the theorems below) -/
theorem C19_blob_table :
    blobPrintLo = 32 ∧ blobPrintHi = 126 ∧ blobExcluded = [92, 39, 34] ∧ blobEscPrefix = [92, 120] ∧
    (∀ i : Fin 16, hexVal (blobHexDigits.getD i.val 0) = some i.val) := by
  refine ⟨by decide, by decide, by decide, by decide, by decide⟩

/-- **C19_json_blob**: for EVERY byte string (any BLOB) the JSON cell `writeJSONString (blobText s)` is read back by
the strict RFC 8259 / RFC 3629 decoder as `blobText s` — the output of `blobText` is ASCII, hence valid UTF-8, so the
carve-out of `C19_json_string` is met at this call site for all inputs. -/
theorem C19_json_blob (s : Bytes) (hs : AllBytes s) :
    (∀ b ∈ blobText s, b < 128) ∧ ValidUTF8 (blobText s) ∧
    jsonDecode (writeJSONString (blobText s)) = some (blobText s) :=
  ⟨blobText_ascii s hs, validUTF8_of_ascii _ (blobText_ascii s hs),
   C19_json_string _ (validUTF8_of_ascii _ (blobText_ascii s hs))⟩

/-- **C19_blob_text**: DuckDB's BLOB text form is lossless: decoding the JSON string and then the `\xHH` form gives
exactly the BLOB's bytes (the documented conversion for a type without a native JSON encoding). -/
theorem C19_blob_text (s : Bytes) (hs : AllBytes s) :
    (jsonDecode (writeJSONString (blobText s))).bind blobDecode = some s := by
  rw [(C19_json_blob s hs).2.2]
  exact blobDecode_blobText s hs

example : blobText [0xFF, 34, 65] = [92, 120, 70, 70, 92, 120, 50, 50, 65] ∧
    blobDecode [92, 120, 70, 70, 92, 120, 50, 50, 65] = some [0xFF, 34, 65] := by decide

/-- `decimalText` with scale 0 (HUGEINT, SUM of integers) is exactly the integer's decimal digits -/
theorem C19_decimal_text_scale0 (v : Int) : decimalText v 0 = writeInt v := by
  unfold decimalText writeInt
  by_cases h : v < 0
  · have : v.natAbs = (-v).toNat := by omega
    simp [h, this]
  · have : v.natAbs = v.toNat := by omega
    simp [h, this]

/-! ## JSON scalar cells -/

/-- **C19_nonfinite**: a float cell is the text `null` exactly when its bit pattern is NaN or ±Inf; otherwise it
is whatever strconv prints (outside the model). -/
theorem C19_nonfinite (fmt : Nat → Bytes) (bits : Nat) :
    (f64NonFinite bits = true → writeFloatCell fmt bits = nullCell) ∧
    (f64NonFinite bits = false → writeFloatCell fmt bits = fmt bits) := by
  constructor <;> intro h <;> simp [writeFloatCell, h, nullCell, jsonNonFiniteText, jsonNullText]

theorem C19_nonfinite32 (fmt : Nat → Bytes) (bits : Nat) :
    (f32NonFinite bits = true → writeFloat32Cell fmt bits = nullCell) ∧
    (f32NonFinite bits = false → writeFloat32Cell fmt bits = fmt bits) := by
  constructor <;> intro h <;> simp [writeFloat32Cell, h, nullCell, jsonNonFiniteText, jsonNullText]

/-- the classifier is the IEEE one: +Inf, -Inf, a quiet and a signalling NaN are non-finite; max double, -0 are not -/
example : f64NonFinite 0x7ff0000000000000 = true ∧ f64NonFinite 0xfff0000000000000 = true ∧
    f64NonFinite 0x7ff8000000000001 = true ∧ f64NonFinite 0x7ff0000000000001 = true ∧
    f64NonFinite 0x7fefffffffffffff = false ∧ f64NonFinite 0x8000000000000000 = false := by decide

/-- null / bool cells are the JSON literals -/
theorem C19_json_literals :
    nullCell = [110, 117, 108, 108] ∧ writeBoolCell true = [116, 114, 117, 101] ∧
    writeBoolCell false = [102, 97, 108, 115, 101] := by decide

/-! ## MessagePack: every scalar class and every length boundary -/

/-- **C19_msgpack_hdr** — integers: `EncodeInt` (compact, used for int8/16/32 columns), `EncodeInt64`,
`EncodeUint` (uint8/16/32 columns, row_count), `EncodeUint64`: all of int64 / uint64 incl. min and max. -/
theorem C19_msgpack_hdr_int (v : Int) (rest : Bytes) (h1 : -(2 ^ 63) ≤ v) (h2 : v < 2 ^ 63) :
    decTok (encInt v ++ rest) = some (.int v, rest) ∧ decTok (encInt64 v ++ rest) = some (.int v, rest) :=
  ⟨decTok_encInt v rest h1 h2, decTok_encInt64 v rest h1 h2⟩

theorem C19_msgpack_hdr_uint (n : Nat) (rest : Bytes) (h : n < 2 ^ 64) :
    decTok (encUint n ++ rest) = some (.int n, rest) ∧ decTok (encUint64 n ++ rest) = some (.int n, rest) :=
  ⟨decTok_encUint n rest h, decTok_encUint64 n rest h⟩

example : (-(2 ^ 63) : Int) ≤ -9223372036854775808 ∧ (9223372036854775807 : Int) < 2 ^ 63 := by decide

/-- floats keep their bit pattern (NaN payloads, ±Inf, -0 included); nil and bool -/
theorem C19_msgpack_hdr_scalar (rest : Bytes) :
    (∀ b, b < 2 ^ 32 → decTok (encF32 b ++ rest) = some (.f32 b, rest)) ∧
    (∀ b, b < 2 ^ 64 → decTok (encF64 b ++ rest) = some (.f64 b, rest)) ∧
    decTok (encNil ++ rest) = some (.nil, rest) ∧
    (∀ b, decTok (encBool b ++ rest) = some (.bool b, rest)) :=
  ⟨fun b h => decTok_encF32 b rest h, fun b h => decTok_encF64 b rest h, decTok_encNil rest,
   fun b => decTok_encBool b rest⟩

/-- str / bin with payload, array / map headers: every size class up to the format's limit 2^32 - 1 -/
theorem C19_msgpack_hdr_len (s rest : Bytes) (l : Nat) (hs : s.length < 2 ^ 32) (hl : l < 2 ^ 32) :
    decTok (encStr s ++ rest) = some (.str s, rest) ∧ decTok (encBin s ++ rest) = some (.bin s, rest) ∧
    decTok (encArrLen l ++ rest) = some (.arr l, rest) ∧ decTok (encMapLen l ++ rest) = some (.map l, rest) :=
  ⟨decTok_encStr s rest hs, decTok_encBin s rest hs, decTok_encArrLen l rest hl, decTok_encMapLen l rest hl⟩

/-- the bound is tight: at 2^32 the uint32 conversion of the length wraps and the header announces 0 -/
theorem C19_msgpack_hdr_len_witness : decTok (encArrLen (2 ^ 32)) = some (.arr 0, []) := by decide

/-- timestamp extension (-1): the 32-, 64- and 96-bit forms chosen by `encodeTime` carry the instant exactly,
for every int64 second (negative = before 1970 included) and every nanosecond -/
theorem C19_msgpack_hdr_time (sec : Int) (nsec : Nat) (rest : Bytes) (h1 : -(2 ^ 63) ≤ sec) (h2 : sec < 2 ^ 63)
    (hn : nsec < 1000000000) :
    decTok (encTime sec nsec ++ rest) = some (.ext 255 (timeData sec nsec), rest) ∧
    decTime (timeData sec nsec) = some (sec, nsec) :=
  ⟨decTok_encTime sec nsec rest, decTime_timeData sec nsec h1 h2 hn⟩

example : decTime (timeData 1704067201 123456000) = some (1704067201, 123456000) ∧
    (timeData 1 0).length = 4 ∧ (timeData 1704067201 123456000).length = 8 ∧ (timeData (-1) 5).length = 12 := by
  decide

/-! ## governance row limit -/

/-- **C19_rowlimit** (JSON, `streamArrowJSON`): with a limit `n > 0` the rows written are exactly the first `n`
rows of the result in order — each row is the untouched row value — across any batch structure; `n = 0` means
no limit. -/
theorem C19_rowlimit {α : Type} (n : Nat) (batches : List (List α)) :
    jsonRows n batches = if n = 0 then batches.flatten else batches.flatten.take n := by
  unfold jsonRows
  by_cases h : n = 0
  · subst h; simp [jsonOuter_zero]
  · simp [h, jsonOuter_pos n (by omega) batches [] (by simp)]

example : jsonRows 3 [[1, 2], [], [3, 4], [5]] = [1, 2, 3] := by decide

/-- MessagePack (`drainArrowBatches`): the retained batches flatten to the same prefix and the reported row
count (used for every column-array header and for `row_count`) is its length. -/
theorem C19_rowlimit_msgpack {α : Type} (n : Nat) (batches : List (List α)) :
    (drainBatches n batches).1.flatten = (if n = 0 then batches.flatten else batches.flatten.take n) ∧
    (drainBatches n batches).2 = (drainBatches n batches).1.flatten.length := by
  unfold drainBatches
  by_cases h : n = 0
  · subst h; simp [drainLoop_zero]
  · have := drainLoop_pos n (by omega) batches [] 0 (by simp) (by omega)
    simp only [List.flatten_nil, List.nil_append] at this
    simp [h, this.1, this.2]

example : drainBatches 3 [[1, 2], [], [3, 4], [5]] = ([[1, 2], [], [3]], 3) := by decide

/-! ## envelopes -/

/-- **C19_envelope** (JSON): the body is `{"success":true,"columns":` + the column-name array + `,"data":[` +
the rows selected by the row limit + `],"row_count":` + the number of those rows + …, and every column name is
read back in place by the RFC 8259 decoder. -/
theorem C19_envelope (fmt : Nat → Bytes) (tsFmt : Int → Nat → Bytes) (cols : List Bytes) (n : Nat)
    (batches : List (List (List Cell))) (ms : Nat) (ts : Bytes) :
    let rows := if n = 0 then batches.flatten else batches.flatten.take n
    jsonEnvelope fmt tsFmt cols n batches ms ts =
      jsonEnvOpen ++ writeJSONStringArray cols ++ jsonEnvData ++ joinComma (rows.map (jsonRow fmt tsFmt)) ++
        jsonEnvRowCount ++ writeInt rows.length ++ jsonEnvExec ++ natDigits ms ++ jsonEnvTimestamp ++
        writeJSONString ts ++ [125] ∧
    ∀ c ∈ cols, ValidUTF8 c → ∀ tail, decStr true (writeJSONString c ++ tail) = some (c, tail) := by
  refine ⟨?_, fun c _ hv tail => decStr_write_strict c hv tail⟩
  simp only [jsonEnvelope, C19_rowlimit]

/-- decode `k` consecutive tokens -/
def takeToks : Nat → Bytes → Option (List Tok × Bytes)
  | 0, b => some ([], b)
  | k + 1, b =>
    match decTok b with
    | none => none
    | some (t, r) => (match takeToks k r with | some (ts, r') => some (t :: ts, r') | none => none)

theorem takeToks_pairs (ps : List (Tok × Bytes)) (h : ∀ p ∈ ps, ∀ rest, decTok (p.2 ++ rest) = some (p.1, rest))
    (rest : Bytes) : takeToks ps.length (ps.flatMap (·.2) ++ rest) = some (ps.map (·.1), rest) := by
  induction ps with
  | nil => simp [takeToks]
  | cons p ps ih =>
    have hp := h p (by simp) (ps.flatMap (·.2) ++ rest)
    have ih' := ih (fun q hq => h q (by simp [hq]))
    simp only [List.flatMap_cons, List.length_cons, List.append_assoc, takeToks, hp, ih', List.map_cons]

/-- **C19_envelope_msgpack**: the MessagePack body starts with map(7) "success" true "columns" array(#columns)
followed by exactly the column names, in order, as str tokens — for any number of columns < 2^32 and any names
shorter than 2^32 bytes; what follows (`mpEnvelopeTail`) announces `rowCount` in every column-array header and
in `row_count` (the value `C19_rowlimit_msgpack` proves to be the number of retained rows). -/
theorem C19_envelope_msgpack (cols : List (Bytes × Bytes × MpTy × List Cell)) (rc ms : Nat) (ts : Bytes)
    (hn : cols.length < 2 ^ 32) (hl : ∀ c ∈ cols, c.1.length < 2 ^ 32) :
    takeToks (5 + cols.length) (mpEnvelope cols rc ms ts) =
      some ([.map 7, .str kSuccess, .bool true, .str kColumns, .arr cols.length] ++
        cols.map (fun c => .str c.1), mpEnvelopeTail cols rc ms ts) := by
  let ps : List (Tok × Bytes) :=
    [(.map 7, encMapLen mpEnvMapLen), (.str kSuccess, encStr kSuccess),
     (.bool true, encBool true), (.str kColumns, encStr kColumns),
     (.arr cols.length, encArrLen cols.length)] ++ cols.map (fun c => (Tok.str c.1, encStr c.1))
  have hgood : ∀ p ∈ ps, ∀ rest, decTok (p.2 ++ rest) = some (p.1, rest) := by
    intro p hp rest
    simp only [ps, List.mem_append, List.mem_cons, List.mem_map, List.not_mem_nil, or_false] at hp
    rcases hp with (rfl | rfl | rfl | rfl | rfl) | ⟨c, hc, rfl⟩
    · exact decTok_encMapLen 7 rest (by decide)
    · exact decTok_encStr _ rest (by decide)
    · exact decTok_encBool true rest
    · exact decTok_encStr _ rest (by decide)
    · exact decTok_encArrLen _ rest hn
    · exact decTok_encStr _ rest (hl c hc)
  have hlen : ps.length = 5 + cols.length := by simp [ps]; omega
  have hmap : ps.map (·.1) = [.map 7, .str kSuccess, .bool true, .str kColumns,
      .arr cols.length] ++ cols.map (fun c => .str c.1) := by
    simp [ps, List.map_map, Function.comp_def]
  have hflat : mpEnvelope cols rc ms ts = ps.flatMap (·.2) ++ mpEnvelopeTail cols rc ms ts := by
    simp [mpEnvelope, ps, List.flatMap_append, List.flatMap_cons, List.flatMap_map, List.append_assoc]
  rw [← hlen, ← hmap, hflat]
  exact takeToks_pairs ps hgood _

example : takeToks 6 (mpEnvelope [([97], [105], .i64, [.int 5])] 1 0 [84]) =
    some ([.map 7, .str kSuccess, .bool true, .str kColumns, .arr 1, .str [97]],
      mpEnvelopeTail [([97], [105], .i64, [.int 5])] 1 0 [84]) := by decide

end Arc.C19
