import Arc.Model.C11
import Arc.Generated.C11
/-!
# C11 — retention only deletes data older than the cutoff

All theorems are about `run srcCfg`, i.e. the model instantiated with the comparator and the
listing prefixes *generated from the current `retention.go`*; the two tie theorems
`C11_comparator_strict` / `C11_prefix_slash` are what breaks when the source changes them.
A "row with a timestamp" is a `some t ∈ f.times` (rows whose `time` is NULL have no timestamp to
compare; `MAX` ignores them, exactly like DuckDB).
-/
namespace Arc.C11
open Arc.Generated.C11 (TimeCmp)

/-! ## helper lemmas -/

theorem maxTime_some (ts : List (Option Int)) (m : Int) (h : maxTime ts = some m) :
    some m ∈ ts ∧ ∀ t, some t ∈ ts → t ≤ m := by
  induction ts generalizing m with
  | nil => simp [maxTime] at h
  | cons x xs ih =>
    cases x with
    | none =>
      simp only [maxTime] at h
      obtain ⟨h1, h2⟩ := ih m h
      refine ⟨by simp [h1], ?_⟩
      intro t ht
      simp at ht
      exact h2 t ht
    | some t0 =>
      simp only [maxTime] at h
      cases hm : maxTime xs with
      | none =>
        rw [hm] at h
        simp at h
        subst h
        refine ⟨by simp, ?_⟩
        intro t ht
        simp at ht
        cases ht with
        | inl h => omega
        | inr h =>
          exfalso
          clear ih
          induction xs with
          | nil => simp at h
          | cons y ys ih2 =>
            cases y with
            | none => simp [maxTime] at hm; simp at h; exact ih2 hm h
            | some u => simp only [maxTime] at hm; split at hm <;> simp at hm
      | some m' =>
        rw [hm] at h
        simp at h
        obtain ⟨h1, h2⟩ := ih m' hm
        by_cases hlt : t0 < m'
        · simp [hlt] at h
          subst h
          refine ⟨by simp [h1], ?_⟩
          intro t ht
          simp at ht
          cases ht with
          | inl h => omega
          | inr h => exact h2 t h
        · simp [hlt] at h
          subst h
          refine ⟨by simp, ?_⟩
          intro t ht
          simp at ht
          cases ht with
          | inl h => omega
          | inr h => have := h2 t h; omega

theorem maxTime_none (ts : List (Option Int)) (h : maxTime ts = none) : ∀ t, some t ∉ ts := by
  induction ts with
  | nil => simp
  | cons x xs ih =>
    cases x with
    | none => simp only [maxTime] at h; intro t ht; simp at ht; exact ih h t ht
    | some u => simp only [maxTime] at h; split at h <;> simp at h

/-- "consists only of rows older than the cutoff" for a file with at least one timestamped row -/
def AllOld (cutoff : Int) (f : PFile) : Prop :=
  (∃ t, some t ∈ f.times) ∧ ∀ t, some t ∈ f.times → t * 1000 < cutoff

theorem eligible_before_iff (cutoff : Int) (f : PFile) :
    eligible .before cutoff f = true ↔ AllOld cutoff f := by
  unfold eligible AllOld
  cases hm : maxTime f.times with
  | none =>
    have := maxTime_none f.times hm
    simp only [Bool.false_eq_true, false_iff]
    rintro ⟨⟨t, ht⟩, _⟩
    exact this t ht
  | some m =>
    obtain ⟨h1, h2⟩ := maxTime_some f.times m hm
    simp only [cmpFn, decide_eq_true_eq]
    constructor
    · intro hlt
      exact ⟨⟨m, h1⟩, fun t ht => by have := h2 t ht; omega⟩
    · rintro ⟨_, hall⟩
      exact hall m h1

theorem split_first (c : Char) (a b x y : Str) (ha : c ∉ a) (hb : c ∉ b)
    (h : a ++ c :: x = b ++ c :: y) : a = b ∧ x = y := by
  induction a generalizing b with
  | nil =>
    cases b with
    | nil => simp at h; exact ⟨rfl, h⟩
    | cons b0 bs =>
      simp at h
      exact absurd (by simp [h.1]) hb
  | cons a0 as ih =>
    cases b with
    | nil =>
      simp at h
      exact absurd (by simp [h.1]) ha
    | cons b0 bs =>
      simp at h
      have := ih bs (by intro hc; exact ha (by simp [hc])) (by intro hc; exact hb (by simp [hc])) h.2
      exact ⟨by rw [h.1, this.1], this.2⟩

/-! ## tie to the source -/

/-- **C11_comparator_strict.** The comparator found in the current `deleteOldFiles` is the strict
"older than" (`maxTime.Before(cutoffDate)`). -/
theorem C11_comparator_strict : srcCfg.cmp = .before := by decide

/-- **C11_prefix_slash.** Both listing prefixes found in the current source end in `/`. -/
theorem C11_prefix_slash : srcCfg.mts = true ∧ srcCfg.dts = true := by decide

/-! ## property theorems -/

theorem selected_src (store : Store) (pol : Policy) (cutoff : Int) (f : PFile) :
    selected srcCfg store pol cutoff f = true ↔
      (covered srcCfg store pol f = true ∧ isParquet f.path = true ∧ AllOld cutoff f) := by
  unfold selected
  rw [C11_comparator_strict, Bool.and_eq_true, Bool.and_eq_true, eligible_before_iff, and_assoc]

/-- **C11_safe.** A file removed by a retention run holds no row whose timestamp is at or after the
cutoff: every timestamped row of it is strictly older. -/
theorem C11_safe (store : Store) (pol : Policy) (now : Int) (f : PFile)
    (hin : f ∈ store) (hgone : f ∉ (run srcCfg false store pol now).1) :
    ∀ t, some t ∈ f.times → t * 1000 < cutoffNs now pol.ret pol.buf := by
  have hsel : selected srcCfg store pol (cutoffNs now pol.ret pol.buf) f = true := by
    unfold run at hgone
    simp only [Bool.false_eq_true, if_false] at hgone
    rw [List.mem_filter] at hgone
    cases h : selected srcCfg store pol (cutoffNs now pol.ret pol.buf) f with
    | true => rfl
    | false => exact absurd ⟨hin, by simp [h]⟩ hgone
  exact ((selected_src store pol _ f).mp hsel).2.2.2

/-- **C11_complete.** After a run, no remaining parquet file of a covered measurement consists only
of (timestamped) rows older than the cutoff. -/
theorem C11_complete (store : Store) (pol : Policy) (now : Int) (f : PFile)
    (hrem : f ∈ (run srcCfg false store pol now).1)
    (hcov : covered srcCfg store pol f = true) (hpq : isParquet f.path = true) :
    ¬ AllOld (cutoffNs now pol.ret pol.buf) f := by
  unfold run at hrem
  simp only [Bool.false_eq_true, if_false] at hrem
  rw [List.mem_filter] at hrem
  intro hold
  have := (selected_src store pol (cutoffNs now pol.ret pol.buf) f).mpr ⟨hcov, hpq, hold⟩
  simp [this] at hrem

/-- **C11_boundary.** A file whose newest row is exactly at the cutoff (or later) is kept. -/
theorem C11_boundary (store : Store) (pol : Policy) (now : Int) (f : PFile) (m : Int)
    (hin : f ∈ store) (hmax : maxTime f.times = some m)
    (hb : cutoffNs now pol.ret pol.buf ≤ m * 1000) :
    f ∈ (run srcCfg false store pol now).1 := by
  unfold run
  simp only [Bool.false_eq_true, if_false]
  rw [List.mem_filter]
  refine ⟨hin, ?_⟩
  cases h : selected srcCfg store pol (cutoffNs now pol.ret pol.buf) f with
  | false => rfl
  | true =>
    have := ((selected_src store pol _ f).mp h).2.2.2 m (maxTime_some _ _ hmax).1
    omega

/-- **C11_dryrun.** A dry run deletes nothing and reports exactly what the real run at the same
instant reports (same cutoff, rows, files, measurements). -/
theorem C11_dryrun (store : Store) (pol : Policy) (now : Int) :
    (run srcCfg true store pol now).1 = store ∧
    (run srcCfg true store pol now).2 = (run srcCfg false store pol now).2 := by
  unfold run
  simp

/-- **C11_dry_gate.** On the HTTP path the field that makes a request a dry run is the request's own
`dry_run` (generated from `handleExecute`). -/
theorem C11_dry_gate : Arc.Generated.C11.dryGate = .reqDryRun := by decide

/-- **C11_dry_flag_inert.** Any execute request that carries `dry_run = true` deletes nothing —
whatever `confirm` says — and reports what the confirmed real run at the same instant reports. -/
theorem C11_dry_flag_inert (confirm : Bool) (store : Store) (pol : Policy) (now : Int) :
    (execHttp Arc.Generated.C11.dryGate srcCfg true confirm store pol now).1 = store ∧
    (execHttp Arc.Generated.C11.dryGate srcCfg true confirm store pol now).2 =
      some (run srcCfg false store pol now).2 := by
  rw [C11_dry_gate]
  simp [execHttp, (C11_dryrun store pol now).1, (C11_dryrun store pol now).2]

/-- **C11_unconfirmed_inert.** Without `dry_run` and without `confirm` nothing happens at all. -/
theorem C11_unconfirmed_inert (store : Store) (pol : Policy) (now : Int) :
    execHttp Arc.Generated.C11.dryGate srcCfg false false store pol now = (store, none) := by
  rw [C11_dry_gate]
  simp [execHttp]

/-- **C11_max_over_whole_file.** The `MAX(time)` that decides a file's fate is one aggregate over the
whole file (all row groups) in the current source — the model's `maxTime f.times`. -/
theorem C11_max_over_whole_file : Arc.Generated.C11.maxTimeScansWholeFile = true := by decide

/-- **C11_exec_records_ignored.** The current source never consults earlier execution records when it
runs a policy … -/
theorem C11_exec_records_ignored : Arc.Generated.C11.runIgnoresExecutionRecords = true := by decide

/-- **C11_run_after_crash.** … hence a later run's outcome does not depend on leftover execution rows:
whatever rows earlier (completed, failed or KILLED) runs left behind, the run removes the same files
and reports the same; in particular after a crash (any subset of files already removed, row left
`running`) the next run still leaves no covered file with only expired rows (`C11_complete`) and
removes no unexpired row (`C11_safe`). -/
theorem C11_run_after_crash (store : Store) (e1 e2 : List (Nat × ExecStatus)) (pid : Nat)
    (pol : Policy) (now : Int) :
    ((Sys.exec srcCfg ⟨store, e1⟩ pid pol now).1.store = (Sys.exec srcCfg ⟨store, e2⟩ pid pol now).1.store ∧
     (Sys.exec srcCfg ⟨store, e1⟩ pid pol now).2 = (Sys.exec srcCfg ⟨store, e2⟩ pid pol now).2) ∧
    ∀ (s : Sys) (gone : PFile → Bool) (f : PFile),
      let s' := (Sys.exec srcCfg (s.crash pid gone) pid pol now).1
      (f ∈ s'.store → covered srcCfg (s.crash pid gone).store pol f = true → isParquet f.path = true →
          ¬ AllOld (cutoffNs now pol.ret pol.buf) f) ∧
      (f ∈ (s.crash pid gone).store → f ∉ s'.store →
          ∀ t, some t ∈ f.times → t * 1000 < cutoffNs now pol.ret pol.buf) := by
  refine ⟨⟨rfl, rfl⟩, ?_⟩
  intro s gone f
  exact ⟨fun h hc hp => C11_complete _ pol now f h hc hp, fun hin hg => C11_safe _ pol now f hin hg⟩

theorem filter_partition_length {α : Type} (p : α → Bool) (l : List α) :
    (l.filter p).length + (l.filter (fun x => !p x)).length = l.length := by
  induction l with
  | nil => rfl
  | cons x xs ih => cases h : p x <;> simp [List.filter, h] <;> omega

theorem filter_partition_rows (p : PFile → Bool) (l : Store) :
    rowCount (l.filter p) + rowCount (l.filter (fun x => !p x)) = rowCount l := by
  unfold rowCount
  induction l with
  | nil => rfl
  | cons x xs ih => cases h : p x <;> simp [List.filter, h] <;> omega

/-- **C11_report.** The reported file and row counts are exactly what disappeared. -/
theorem C11_report (store : Store) (pol : Policy) (now : Int) :
    (run srcCfg false store pol now).2.files + (run srcCfg false store pol now).1.length = store.length ∧
    (run srcCfg false store pol now).2.rows + rowCount (run srcCfg false store pol now).1 = rowCount store := by
  unfold run
  simp only [Bool.false_eq_true, if_false]
  exact ⟨filter_partition_length _ store, filter_partition_rows _ store⟩

/-- **C11_prefix.** Key-prefix lemma: with the trailing `/`, a key listed for `(db, m)` cannot also be
listed for another `(db', m')` (names without `/`): `db/m/` never matches `db/m2/…` or `db2/…`. -/
theorem C11_prefix (db m db' m' path : Str)
    (h1 : '/' ∉ db) (h2 : '/' ∉ m) (h3 : '/' ∉ db') (h4 : '/' ∉ m')
    (hp : (measPrefix srcCfg.mts db m).isPrefixOf path = true)
    (hq : (measPrefix srcCfg.mts db' m').isPrefixOf path = true) : db = db' ∧ m = m' := by
  rw [C11_prefix_slash.1] at hp hq
  rw [List.isPrefixOf_iff_prefix] at hp hq
  obtain ⟨r1, hr1⟩ := hp
  obtain ⟨r2, hr2⟩ := hq
  unfold measPrefix slash at hr1 hr2
  simp only [if_true, List.append_assoc, List.cons_append, List.nil_append] at hr1 hr2
  have e := hr1.trans hr2.symm
  obtain ⟨e1, e2⟩ := split_first '/' db db' _ _ h1 h3 e
  obtain ⟨e3, _⟩ := split_first '/' m m' _ _ h2 h4 e2
  exact ⟨e1, e3⟩

/-- **C11_other_untouched.** A policy with measurement filter `m` on database `db` never removes a
file stored under a different `db'/m'/` — including names that share a prefix (`m2`, `db2`). -/
theorem C11_other_untouched (store : Store) (db m db' m' rest : Str) (ret buf now : Int) (f : PFile)
    (h1 : '/' ∉ db) (h2 : '/' ∉ m) (h3 : '/' ∉ db') (h4 : '/' ∉ m') (hne : ¬ (db = db' ∧ m = m'))
    (hm : m ≠ [])
    (hin : f ∈ store) (hpath : f.path = measPrefix true db' m' ++ rest) :
    f ∈ (run srcCfg false store { db := db, meas := some m, ret := ret, buf := buf } now).1 := by
  unfold run
  simp only [Bool.false_eq_true, if_false]
  rw [List.mem_filter]
  refine ⟨hin, ?_⟩
  cases h : selected srcCfg store { db := db, meas := some m, ret := ret, buf := buf }
      (cutoffNs now ret buf) f with
  | false => rfl
  | true =>
    exfalso
    have hc := ((selected_src store _ _ f).mp h).1
    unfold covered measurements at hc
    have hmE : m.isEmpty = false := by cases m with
      | nil => exact absurd rfl hm
      | cons _ _ => rfl
    simp only [hmE] at hc
    simp only [Bool.false_eq_true, if_false, List.any_cons, List.any_nil, Bool.or_false] at hc
    have hq : (measPrefix srcCfg.mts db' m').isPrefixOf f.path = true := by
      rw [C11_prefix_slash.1, List.isPrefixOf_iff_prefix, hpath]
      exact List.prefix_append _ _
    exact hne (C11_prefix db m db' m' f.path h1 h2 h3 h4 hc hq)

/-- **C11_tight.** The strict comparator is necessary: with "older or equal" (`!maxTime.After`)
a file whose newest row is exactly at the cutoff would be deleted. -/
theorem C11_tight_witness :
    let c : Cfg := { cmp := .notAfter, mts := true, dts := true }
    let f : PFile := { path := "db/m/a.parquet".toList, times := [some 1000, some 2000] }
    let pol : Policy := { db := "db".toList, meas := some "m".toList, ret := 1, buf := 0 }
    -- now = 1 day + 2 ms  ⇒ cutoff = 2 000 000 ns = newest row (2000 µs)
    (run c false [f] pol (nsPerDay + 2000000)).1 = [] ∧
    (run srcCfg false [f] pol (nsPerDay + 2000000)).1 = [f] := by decide

/-! ## histories -/

/-- An event of a history: the store is changed from outside (ingest, compaction replacing hour
files by a day file, tiering …) or a retention run of some policy at some instant. -/
inductive Ev
  | ext (s : Store)
  | run (pol : Policy) (now : Int)

def stepEv (s : Store) : Ev → Store
  | .ext s' => s'
  | .run pol now => (Arc.C11.run srcCfg false s pol now).1

/-- (state before the event, event) along a history -/
def trace : Store → List Ev → List (Store × Ev)
  | _, [] => []
  | s, e :: es => (s, e) :: trace (stepEv s e) es

/-- **C11_history_safe.** Along ANY history of external store changes interleaved with retention
runs (any policies, any clock values), a file that a run removes holds only rows older than that
run's cutoff, and a file whose newest row is at/after that cutoff survives the run. -/
theorem C11_history_safe (s0 : Store) (evs : List Ev) (s : Store) (pol : Policy) (now : Int)
    (_h : (s, Ev.run pol now) ∈ trace s0 evs) (f : PFile) (hin : f ∈ s) :
    (f ∉ stepEv s (.run pol now) → ∀ t, some t ∈ f.times → t * 1000 < cutoffNs now pol.ret pol.buf) ∧
    (∀ m, maxTime f.times = some m → cutoffNs now pol.ret pol.buf ≤ m * 1000 →
        f ∈ stepEv s (.run pol now)) :=
  ⟨fun hg => C11_safe s pol now f hin hg, fun m hm hb => C11_boundary s pol now f m hin hm hb⟩

/-! ## non-vacuity -/

/-- A run that deletes one old file, keeps a boundary file, a straddling file, a NULL-only file, a
file of a prefix-sharing measurement and a non-parquet file — hypotheses of `C11_safe`,
`C11_complete`, `C11_boundary`, `C11_other_untouched` are all met by this state. -/
example :
    let old : PFile := { path := "db/m/1/old.parquet".toList, times := [some 10, none, some 20] }
    let edge : PFile := { path := "db/m/1/edge.parquet".toList, times := [some 10, some 2000] }
    let mix : PFile := { path := "db/m/1/mix.PARQUET".toList, times := [some 10, some 5000] }
    let nul : PFile := { path := "db/m/1/nul.parquet".toList, times := [none] }
    let m2 : PFile := { path := "db/m2/1/old.parquet".toList, times := [some 10] }
    let js : PFile := { path := "db/m/1/manifest.json".toList, times := [] }
    let store := [old, edge, mix, nul, m2, js]
    let pol : Policy := { db := "db".toList, meas := some "m".toList, ret := 1, buf := 0 }
    let polAll : Policy := { db := "db".toList, meas := none, ret := 1, buf := 0 }
    (run srcCfg false store pol (nsPerDay + 2000000)).1 = [edge, mix, nul, m2, js] ∧
    (run srcCfg false store pol (nsPerDay + 2000000)).2.rows = 3 ∧
    (run srcCfg false store polAll (nsPerDay + 2000000)).1 = [edge, mix, nul, js] ∧
    (run srcCfg false store polAll (nsPerDay + 2000000)).2.meas = ["m2".toList, "m".toList] := by
  decide

end Arc.C11
