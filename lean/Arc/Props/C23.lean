import Arc.Model.C23
import Arc.Proofs.C22.SMapLemmas
import Arc.Generated.C23
import Arc.Proofs.C22.RestoreParents
/-!
# C23 — cluster role assignments stay consistent

Property (full statement, kept for reference):

  In every state reachable through cluster commands,
  (1) at most one node is marked primary writer,
  (2) a node named as the primary writer exists and is marked primary,
  (3) re-registering an existing node does not silently change the role assignment recorded for it,
  (4) every team, role, measurement permission and membership refers to parents that exist.

Clauses (1)–(3) are FALSE of the real FSM (`internal/cluster/raft/fsm.go`): each has a `_witness`
theorem (a 2–4 command history from the empty state, replayed on the real code by the harness) and a
`_partial` theorem under the explicit decidable carve-out `roleSafe` (Arc.Model.C23).
Clause (4) holds at full strength (`C23_rbac_parents`).

  -- theorem C23_one_primary_full    : ∀ evs, OnePrimary    (runEv State.empty evs).cl   -- FALSE
  -- theorem C23_primary_exists_full : ∀ evs, PrimaryExists (runEv State.empty evs).cl   -- FALSE
  -- theorem C23_reregister_full : s.cl.nodes.get? n.id = some old →
  --     ∃ n', (apply s i (.addNode n)).1.cl.nodes.get? n.id = some n' ∧ n'.wstate = old.wstate   -- FALSE
-/
namespace Arc.C23
open Arc.C22 Arc.C22.SMap

/-! ## helper lemmas (node part) -/

theorem apply_cl (s : State) (i : Nat) (c : Cmd) : (apply s i c).1.cl = clStep s.cl c := by
  cases c <;> rfl

theorem restore_cl (s : State) : (restore (snapshot s)).cl = s.cl := rfl

theorem get?_setWState (nodes : SMap String NodeInfo) (id ws k : String) :
    (setWState nodes id ws).get? k =
      if k = id then (nodes.get? id).map (fun n => { n with wstate := ws }) else nodes.get? k := by
  unfold setWState
  cases h : nodes.get? id with
  | none =>
    by_cases hk : k = id
    · subst hk; simp [h]
    · simp [hk]
  | some n =>
    simp only [get?_ins]
    by_cases hk : k = id <;> simp [hk]

/-- the invariant behind clauses (1) and (2): a node is marked primary only if it is the recorded
primary writer, and the recorded primary writer (if any) exists and is marked. -/
def RoleInv (s : NodeSt) : Prop :=
  (∀ k n, s.nodes.get? k = some n → n.wstate = "primary" → k = s.pw ∧ s.pw ≠ "") ∧ PrimaryExists s

theorem roleInv_empty : RoleInv ({} : NodeSt) := by
  refine ⟨?_, ?_⟩
  · intro k n h; simp at h
  · intro h; exact absurd rfl h

theorem onePrimary_of_inv {s : NodeSt} (h : RoleInv s) : OnePrimary s := by
  intro k1 k2 n1 n2 h1 h2 m1 m2
  rw [(h.1 k1 n1 h1 m1).1, (h.1 k2 n2 h2 m2).1]

theorem roleInv_addNode {s : NodeSt} (h : RoleInv s) (n : NodeInfo)
    (hs' : n.wstate = "primary" ↔ (n.id = s.pw ∧ s.pw ≠ "")) :
    RoleInv (applyAddNode s n).1 := by
  unfold applyAddNode
  refine ⟨?_, ?_⟩
  · intro k m hk hm
    simp only [get?_ins] at hk
    by_cases hkn : k = n.id
    · simp [hkn] at hk; subst hk; rw [hkn]; exact hs'.mp hm
    · simp [hkn] at hk; exact h.1 k m hk hm
  · intro hpw
    simp only at hpw ⊢
    simp only [get?_ins]
    by_cases hkn : s.pw = n.id
    · simp only [hkn, if_true]
      exact ⟨n, rfl, hs'.mpr ⟨hkn.symm, hpw⟩⟩
    · simp only [hkn, if_false]; exact h.2 hpw

theorem roleInv_removeNode {s : NodeSt} (h : RoleInv s) (id : String)
    (hs' : ¬ (id = s.pw ∧ s.pw ≠ "")) : RoleInv (applyRemoveNode s id).1 := by
  unfold applyRemoveNode
  refine ⟨?_, ?_⟩
  · intro k m hk hm
    simp only [get?_del] at hk
    by_cases hkn : k = id
    · simp [hkn] at hk
    · simp [hkn] at hk; exact h.1 k m hk hm
  · intro hpw
    simp only at hpw ⊢
    have hne : s.pw ≠ id := fun e => hs' ⟨e.symm, hpw⟩
    simp only [get?_del, hne, if_false]; exact h.2 hpw

theorem roleInv_updateNodeState {s : NodeSt} (h : RoleInv s) (id st : String) :
    RoleInv (applyUpdateNodeState s id st).1 := by
  unfold applyUpdateNodeState
  cases hg : s.nodes.get? id with
  | none => exact h
  | some n =>
    refine ⟨?_, ?_⟩
    · intro k m hk hm
      simp only [get?_ins] at hk
      by_cases hkn : k = id
      · simp [hkn] at hk; subst hk; subst hkn; exact h.1 k n hg hm
      · simp [hkn] at hk; exact h.1 k m hk hm
    · intro hpw
      simp only at hpw ⊢
      simp only [get?_ins]
      by_cases hkn : s.pw = id
      · simp only [hkn, if_true]
        obtain ⟨n', hn', hm'⟩ := h.2 hpw
        rw [hkn, hg] at hn'
        cases hn'
        exact ⟨_, rfl, hm'⟩
      · simp only [hkn, if_false]; exact h.2 hpw

theorem get?_demoteOld (nodes : SMap String NodeInfo) (pw id k : String) :
    (demoteOld nodes pw id).get? k =
      if pw ≠ "" ∧ pw ≠ id ∧ k = pw then (nodes.get? pw).map (fun n => { n with wstate := "standby" })
      else nodes.get? k := by
  unfold demoteOld
  by_cases h : pw ≠ "" ∧ pw ≠ id
  · rw [if_pos h, get?_setWState]
    by_cases hk : k = pw
    · rw [if_pos hk, if_pos ⟨h.1, h.2, hk⟩]
    · rw [if_neg hk, if_neg (fun hh => hk hh.2.2)]
  · rw [if_neg h, if_neg (fun hh => h ⟨hh.1, hh.2.1⟩)]

theorem roleInv_promote {s : NodeSt} (h : RoleInv s) (id : String)
    (hs : id = "" ∨ s.nodes.has id = true) : RoleInv (applyPromote s id).1 := by
  unfold applyPromote
  by_cases hid : id = ""
  · simp [hid]; exact h
  · simp only [hid, if_false]
    cases hg : s.nodes.get? id with
    | none =>
      exfalso
      rcases hs with hs | hs
      · exact hid hs
      · simp [has, hg] at hs
    | some n =>
      simp only
      by_cases hr : n.role ≠ "writer"
      · simp [hr]; exact h
      · simp only [hr, if_false]
        refine ⟨?_, ?_⟩
        · intro k m hk hm
          simp only at hk ⊢
          rw [get?_setWState] at hk
          by_cases hki : k = id
          · exact ⟨hki, hid⟩
          · simp only [hki, if_false] at hk
            rw [get?_demoteOld] at hk
            by_cases hc : s.pw ≠ "" ∧ s.pw ≠ id ∧ k = s.pw
            · rw [if_pos hc] at hk
              cases hpwn : s.nodes.get? s.pw with
              | none => rw [hpwn] at hk; simp at hk
              | some q =>
                rw [hpwn] at hk
                simp only [Option.map_some, Option.some.injEq] at hk
                subst hk
                simp at hm
            · rw [if_neg hc] at hk
              have := h.1 k m hk hm
              exact absurd ⟨this.2, fun e => hki (this.1.trans e), this.1⟩ hc
        · intro _
          simp only
          rw [get?_setWState]
          simp only [if_true]
          rw [get?_demoteOld]
          have hc : ¬ (s.pw ≠ "" ∧ s.pw ≠ id ∧ id = s.pw) := fun hh => hh.2.1 hh.2.2.symm
          simp only [hc, if_false, hg]
          exact ⟨_, rfl, rfl⟩

theorem roleInv_demote {s : NodeSt} (h : RoleInv s) (id : String) : RoleInv (applyDemote s id).1 := by
  unfold applyDemote
  by_cases hid : id = ""
  · simp [hid]; exact h
  · simp only [hid, if_false]
    refine ⟨?_, ?_⟩
    · intro k m hk hm
      simp only at hk ⊢
      rw [get?_setWState] at hk
      by_cases hki : k = id
      · simp only [hki, if_true] at hk
        cases hg : s.nodes.get? id with
        | none => simp [hg] at hk
        | some q => simp [hg] at hk; subst hk; simp at hm
      · simp only [hki, if_false] at hk
        have := h.1 k m hk hm
        have hne : s.pw ≠ id := fun e => hki (this.1.trans e)
        simp only [hne, if_false]
        exact this
    · intro hpw
      simp only at hpw ⊢
      by_cases hpi : s.pw = id
      · simp [hpi] at hpw
      · simp only [hpi, if_false] at hpw ⊢
        rw [get?_setWState]
        simp only [hpi, if_false]
        exact h.2 hpw

theorem roleInv_compactor {s : NodeSt} (h : RoleInv s) (id : String) :
    RoleInv (applyAssignCompactor s id).1 := by
  unfold applyAssignCompactor
  by_cases hid : id = "" <;> simp [hid] <;> exact h

theorem roleInv_clStep {s : NodeSt} (h : RoleInv s) (c : Cmd) (hs : roleSafe s c = true) :
    RoleInv (clStep s c) := by
  cases c <;> try exact h
  · exact roleInv_addNode h _ (of_decide_eq_true hs)
  · exact roleInv_removeNode h _ (of_decide_eq_true hs)
  · exact roleInv_addNode h _ (of_decide_eq_true hs)
  · exact roleInv_updateNodeState h _ _
  · exact roleInv_promote h _ (of_decide_eq_true hs)
  · exact roleInv_demote h _
  · exact roleInv_compactor h _

theorem roleInv_run (s : State) (evs : List Ev) (h : RoleInv s.cl) (hs : roleSafeRun s evs = true) :
    RoleInv (runEv s evs).cl := by
  induction evs generalizing s with
  | nil => exact h
  | cons e es ih =>
    cases e with
    | cmd i c =>
      simp only [roleSafeRun, Bool.and_eq_true] at hs
      simp only [runEv, stepEv]
      apply ih
      · rw [apply_cl]; exact roleInv_clStep h c hs.1
      · exact hs.2
    | restore =>
      simp only [roleSafeRun] at hs
      simp only [runEv, stepEv]
      exact ih _ (by rw [restore_cl]; exact h) hs

/-! ## clause (1): at most one node is marked primary -/

def nodeW (id ws : String) : NodeInfo :=
  { id := id, name := id, role := "writer", cluster := "c", address := "a", api := "b",
    state := "healthy", version := "v", wstate := ws, cores := 4 }

/-- **C23_one_primary_witness.** Two AddNode commands whose payloads carry
`writer_state = "primary"` leave two nodes marked primary (real FSM: monitor `one-primary:node-payload`). -/
theorem C23_one_primary_witness :
    ¬ OnePrimary (runEv State.empty
        [.cmd 1 (.addNode (nodeW "n1" "primary")), .cmd 2 (.addNode (nodeW "n2" "primary"))]).cl := by
  intro h
  have := h "n1" "n2" (nodeW "n1" "primary") (nodeW "n2" "primary") (by decide) (by decide) rfl rfl
  exact absurd this (by decide)

/-- **C23_one_primary_partial.** For every history (commands at any log indexes, snapshot+restore
steps anywhere) that stays inside the carve-out `roleSafe`, at most one node is marked primary. -/
theorem C23_one_primary_partial (evs : List Ev) (hs : roleSafeRun State.empty evs = true) :
    OnePrimary (runEv State.empty evs).cl :=
  onePrimary_of_inv (roleInv_run State.empty evs roleInv_empty hs)

/-- non-vacuity: a safe history with promotion, failover and a rejoin of a standby -/
example :
    roleSafeRun State.empty
      [.cmd 1 (.addNode (nodeW "n1" "")), .cmd 2 (.addNode (nodeW "n2" "")), .cmd 3 (.promote "n1" ""),
       .restore, .cmd 5 (.promote "n2" "n1"), .cmd 6 (.addNode (nodeW "n1" "")), .cmd 7 (.demote "n2")] = true := by
  decide

/-! ## clause (2): the primary writer id names an existing node that is marked primary -/

/-- **C23_primary_exists_witness_promote_unknown.** `applyPromoteWriter` demotes the old primary and
sets `primaryWriterID` BEFORE returning "node not found" (monitor `primary-exists:promote-unknown`). -/
theorem C23_primary_exists_witness_promote_unknown :
    let s := runEv State.empty
      [.cmd 1 (.addNode (nodeW "n1" "")), .cmd 2 (.promote "n1" ""), .cmd 3 (.promote "n4" "n1")]
    (apply (runEv State.empty [.cmd 1 (.addNode (nodeW "n1" "")), .cmd 2 (.promote "n1" "")]) 3
        (.promote "n4" "n1")).2 = .notfound ∧
    s.cl.pw = "n4" ∧ s.cl.nodes.get? "n4" = none ∧
    (s.cl.nodes.get? "n1").map (·.wstate) = some "standby" ∧ ¬ PrimaryExists s.cl := by
  refine ⟨by decide, by decide, by decide, by decide, ?_⟩
  intro h
  obtain ⟨n, hn, _⟩ := h (by decide)
  have hpw : (runEv State.empty
      [.cmd 1 (.addNode (nodeW "n1" "")), .cmd 2 (.promote "n1" ""), .cmd 3 (.promote "n4" "n1")]).cl.pw = "n4" := by decide
  have e : (runEv State.empty
      [.cmd 1 (.addNode (nodeW "n1" "")), .cmd 2 (.promote "n1" ""), .cmd 3 (.promote "n4" "n1")]).cl.nodes.get? "n4" = none := by decide
  rw [hpw, e] at hn
  exact absurd hn (by simp)

/-- **C23_primary_exists_witness_remove_primary.** RemoveNode of the primary (a leave) keeps
`primaryWriterID` (monitor `primary-exists:remove-primary`). -/
theorem C23_primary_exists_witness_remove_primary :
    ¬ PrimaryExists (runEv State.empty
      [.cmd 1 (.addNode (nodeW "n1" "")), .cmd 2 (.promote "n1" ""), .cmd 3 (.removeNode "n1")]).cl := by
  intro h
  obtain ⟨n, hn, _⟩ := h (by decide)
  have hpw : (runEv State.empty
      [.cmd 1 (.addNode (nodeW "n1" "")), .cmd 2 (.promote "n1" ""), .cmd 3 (.removeNode "n1")]).cl.pw = "n1" := by decide
  have e : (runEv State.empty
      [.cmd 1 (.addNode (nodeW "n1" "")), .cmd 2 (.promote "n1" ""), .cmd 3 (.removeNode "n1")]).cl.nodes.get? "n1" = none := by decide
  rw [hpw, e] at hn
  exact absurd hn (by simp)

/-- **C23_primary_exists_witness_rejoin.** The primary rejoins: `handleJoinRequest` proposes AddNode
with an empty writer_state, the record is replaced, `primaryWriterID` still names it
(monitor `primary-exists:record-replaced`). -/
theorem C23_primary_exists_witness_rejoin :
    ¬ PrimaryExists (runEv State.empty
      [.cmd 1 (.addNode (nodeW "n1" "")), .cmd 2 (.promote "n1" ""), .cmd 3 (.addNode (nodeW "n1" ""))]).cl := by
  intro h
  obtain ⟨n, hn, hm⟩ := h (by decide)
  have : n = nodeW "n1" "" := by
    have e : (runEv State.empty
      [.cmd 1 (.addNode (nodeW "n1" "")), .cmd 2 (.promote "n1" ""), .cmd 3 (.addNode (nodeW "n1" ""))]).cl.nodes.get? "n1"
        = some (nodeW "n1" "") := by decide
    have hpw : (runEv State.empty
      [.cmd 1 (.addNode (nodeW "n1" "")), .cmd 2 (.promote "n1" ""), .cmd 3 (.addNode (nodeW "n1" ""))]).cl.pw = "n1" := by decide
    rw [hpw, e] at hn
    exact (Option.some.inj hn).symm
  subst this
  revert hm
  decide

/-- **C23_primary_exists_partial.** Inside the carve-out, a non-empty `primaryWriterID` always names
an existing node marked primary — for every history, with restores anywhere. -/
theorem C23_primary_exists_partial (evs : List Ev) (hs : roleSafeRun State.empty evs = true) :
    PrimaryExists (runEv State.empty evs).cl :=
  (roleInv_run State.empty evs roleInv_empty hs).2

/-- … and in such histories a node is marked primary only if it is the recorded primary writer. -/
theorem C23_marked_is_recorded_partial (evs : List Ev) (hs : roleSafeRun State.empty evs = true)
    (k : String) (n : NodeInfo) (h : (runEv State.empty evs).cl.nodes.get? k = some n)
    (hm : n.wstate = "primary") : k = (runEv State.empty evs).cl.pw :=
  ((roleInv_run State.empty evs roleInv_empty hs).1 k n h hm).1

example : ∃ evs, roleSafeRun State.empty evs = true ∧ (runEv State.empty evs).cl.pw = "n2" :=
  ⟨[.cmd 1 (.addNode (nodeW "n1" "")), .cmd 2 (.addNode (nodeW "n2" "")), .cmd 3 (.promote "n1" ""),
    .cmd 4 (.promote "n2" "n1")], by decide, by decide⟩

/-! ## clause (3): re-registering a node -/

/-- **C23_reregister_witness.** AddNode of an existing id replaces the whole record: the recorded
`writer_state` "primary" silently becomes "" (monitor `reregister:role-changed`). -/
theorem C23_reregister_witness :
    let s := runEv State.empty [.cmd 1 (.addNode (nodeW "n1" "")), .cmd 2 (.promote "n1" "")]
    (s.cl.nodes.get? "n1").map (·.wstate) = some "primary" ∧
    (apply s 3 (.addNode (nodeW "n1" ""))).2 = .ok ∧
    ((apply s 3 (.addNode (nodeW "n1" ""))).1.cl.nodes.get? "n1").map (·.wstate) = some "" ∧
    (apply s 3 (.addNode (nodeW "n1" ""))).1.cl.pw = "n1" := by
  decide

/-- **C23_reregister_partial.** Re-registration preserves the recorded role assignment exactly when
the payload repeats it (carve-out: `n.wstate = old.wstate`); in every case it leaves
`primaryWriterID`, the compactor lease and every other node's record untouched. -/
theorem C23_reregister_partial (s : State) (i : Nat) (n old : NodeInfo)
    (_hold : s.cl.nodes.get? n.id = some old) (hcarve : n.wstate = old.wstate) :
    (∃ n', (apply s i (.addNode n)).1.cl.nodes.get? n.id = some n' ∧ n'.wstate = old.wstate) ∧
    (apply s i (.addNode n)).1.cl.pw = s.cl.pw ∧
    (apply s i (.addNode n)).1.cl.compactor = s.cl.compactor ∧
    (∀ k, k ≠ n.id → (apply s i (.addNode n)).1.cl.nodes.get? k = s.cl.nodes.get? k) := by
  refine ⟨⟨n, ?_, hcarve⟩, rfl, rfl, ?_⟩
  · show (s.cl.nodes.ins n.id n).get? n.id = some n
    exact get?_ins_self _ _ _
  · intro k hk
    show (s.cl.nodes.ins n.id n).get? k = s.cl.nodes.get? k
    exact get?_ins_ne _ _ _ _ hk

example : ∃ (s : State) (n old : NodeInfo), s.cl.nodes.get? n.id = some old ∧ n.wstate = old.wstate ∧
    old.wstate = "primary" :=
  ⟨runEv State.empty [.cmd 1 (.addNode (nodeW "n1" "")), .cmd 2 (.promote "n1" "")],
   nodeW "n1" "primary", nodeW "n1" "primary", by decide, rfl, rfl⟩

/-! ## clause (4): RBAC children always have existing parents (full strength) -/

/-- **C23_rbac_parents.** In EVERY state reachable from the empty FSM — any commands (valid,
invalid, duplicate, out of order) at any log indexes, snapshot+restore steps anywhere — every team
refers to an existing organization, every role to an existing team, every measurement permission to
an existing role and every membership to an existing token and an existing team. (Invariant `PInv`:
parents exist and every child is listed in the traversal index that its parent's cascade walks;
preserved by the three nested cascades, re-established by `Restore` for any snapshot.) -/
theorem C23_rbac_parents (evs : List Ev) : ParentsExist (runEv State.empty evs).au :=
  (pinv_runEv State.empty evs pinv_empty).parents

/-- **C23_rbac_cascade_index_complete.** … and every team / role / measurement permission /
membership is listed in the index a cascading delete of its parent iterates, so no cascade can miss
a child. -/
theorem C23_rbac_cascade_index_complete (evs : List Ev) :
    let a := (runEv State.empty evs).au
    (∀ k e, a.teams.get? k = some e → get2? a.teamsByOrg e.org e.name = some k) ∧
    (∀ k e, a.roles.get? k = some e → get2? a.rolesByTeam e.team k = some ()) ∧
    (∀ k e, a.mperms.get? k = some e → get2? a.mpermsByRole e.role k = some ()) ∧
    (∀ k e, a.members.get? k = some e →
      get2? a.memByToken e.token k = some () ∧ get2? a.memByTeam e.team k = some ()) :=
  let h := pinv_runEv State.empty evs pinv_empty
  ⟨h.c1, h.c2, h.c3, h.c4⟩

/-- non-vacuity: a history that builds the whole hierarchy, restores, and cascades a delete -/
example :
    let evs : List Ev :=
      [.cmd 1 (.createOrg { id := 0, name := "acme", desc := "", created := 5, updated := 0, enabled := false, lsn := 0 }),
       .cmd 2 (.createTeam { id := 0, org := 1, name := "core", desc := "", created := 5, updated := 0, enabled := false, lsn := 0 }),
       .cmd 3 (.createToken { id := 0, name := "t", desc := "", perms := "read", hash := "h", pfx := "p", created := 5, expires := 0, enabled := true, lsn := 0 }),
       .cmd 4 (.createRole { id := 0, team := 2, pattern := "*", perms := "read", created := 5, lsn := 0 }),
       .restore,
       .cmd 5 (.addMember { id := 0, token := 3, team := 2, created := 5, lsn := 0 })]
    (runEv State.empty evs).au.members.length = 1 ∧ (runEv State.empty evs).au.roles.length = 1 ∧
    (runEv State.empty (evs ++ [.cmd 6 (.deleteOrg 1)])).au.members = [] ∧
    (runEv State.empty (evs ++ [.cmd 6 (.deleteOrg 1)])).au.roles = [] := by decide

/-! ## what the proposed repair buys (NOT tied to the source: a model of the patched functions)

The patch proposed in the report changes three functions: AddNode/UpdateNode keep the recorded
`writer_state` of an existing id and never introduce a "primary" mark, RemoveNode clears
`primaryWriterID` when it removes that node, PromoteWriter rejects an unknown id before mutating.
With these the carve-out disappears: the same invariant is preserved by EVERY command. -/

def addNodeR (s : NodeSt) (n : NodeInfo) : NodeSt :=
  match s.nodes.get? n.id with
  | some old => { s with nodes := s.nodes.ins n.id { n with wstate := old.wstate } }
  | none => { s with nodes := s.nodes.ins n.id { n with wstate := if n.wstate = "primary" then "" else n.wstate } }

def removeNodeR (s : NodeSt) (id : String) : NodeSt :=
  { s with nodes := s.nodes.del id, pw := if s.pw = id then "" else s.pw }

def promoteR (s : NodeSt) (id : String) : NodeSt :=
  if s.nodes.has id then (applyPromote s id).1 else s

def clStepR (s : NodeSt) : Cmd → NodeSt
  | .addNode n => addNodeR s n
  | .updateNode n => addNodeR s n
  | .removeNode id => removeNodeR s id
  | .promote id _ => promoteR s id
  | c => clStep s c

theorem roleInv_addNodeR {s : NodeSt} (h : RoleInv s) (n : NodeInfo) : RoleInv (addNodeR s n) := by
  unfold addNodeR
  cases hg : s.nodes.get? n.id with
  | some old =>
    refine ⟨?_, ?_⟩
    · intro k m hk hm
      simp only [get?_ins] at hk
      by_cases hkn : k = n.id
      · simp only [hkn, if_true, Option.some.injEq] at hk
        subst hk
        rw [hkn]; exact h.1 n.id old hg hm
      · simp only [hkn, if_false] at hk; exact h.1 k m hk hm
    · intro hpw
      simp only at hpw ⊢
      simp only [get?_ins]
      by_cases hkn : s.pw = n.id
      · simp only [hkn, if_true]
        obtain ⟨q, hq, hm⟩ := h.2 hpw
        rw [hkn, hg] at hq
        cases hq
        exact ⟨_, rfl, hm⟩
      · simp only [hkn, if_false]; exact h.2 hpw
  | none =>
    refine ⟨?_, ?_⟩
    · intro k m hk hm
      simp only [get?_ins] at hk
      by_cases hkn : k = n.id
      · simp only [hkn, if_true, Option.some.injEq] at hk
        subst hk
        exfalso
        by_cases hp : n.wstate = "primary"
        · simp [hp] at hm
        · simp [hp] at hm
      · simp only [hkn, if_false] at hk; exact h.1 k m hk hm
    · intro hpw
      simp only at hpw ⊢
      simp only [get?_ins]
      obtain ⟨q, hq, hm⟩ := h.2 hpw
      have hkn : s.pw ≠ n.id := by
        intro e; rw [e, hg] at hq; exact absurd hq (by simp)
      simp only [hkn, if_false]; exact ⟨q, hq, hm⟩

theorem roleInv_removeNodeR {s : NodeSt} (h : RoleInv s) (id : String) : RoleInv (removeNodeR s id) := by
  unfold removeNodeR
  refine ⟨?_, ?_⟩
  · intro k m hk hm
    simp only [get?_del] at hk
    by_cases hkn : k = id
    · simp [hkn] at hk
    · simp only [hkn, if_false] at hk
      have := h.1 k m hk hm
      have hne : s.pw ≠ id := fun e => hkn (this.1.trans e)
      simp only [hne, if_false]; exact this
  · intro hpw
    simp only at hpw ⊢
    by_cases hpi : s.pw = id
    · simp [hpi] at hpw
    · simp only [hpi, if_false] at hpw ⊢
      simp only [get?_del, hpi, if_false]; exact h.2 hpw

theorem roleInv_clStepR {s : NodeSt} (h : RoleInv s) (c : Cmd) : RoleInv (clStepR s c) := by
  cases c <;> try exact h
  · exact roleInv_addNodeR h _
  · exact roleInv_removeNodeR h _
  · exact roleInv_addNodeR h _
  · exact roleInv_updateNodeState h _ _
  · show RoleInv (promoteR s _)
    unfold promoteR
    split
    · rename_i hh; exact roleInv_promote h _ (Or.inr hh)
    · exact h
  · exact roleInv_demote h _
  · exact roleInv_compactor h _

def runR (s : NodeSt) : List Cmd → NodeSt
  | [] => s
  | c :: cs => runR (clStepR s c) cs

/-- **C23_repaired_roles_full.** For the patched transition functions, clauses (1) and (2) hold
for ALL command histories, with no carve-out; and re-registration preserves the recorded
writer_state unconditionally. -/
theorem C23_repaired_roles_full (cs : List Cmd) :
    OnePrimary (runR {} cs) ∧ PrimaryExists (runR {} cs) := by
  have : ∀ (s : NodeSt), RoleInv s → RoleInv (runR s cs) := by
    induction cs with
    | nil => intro s h; exact h
    | cons c t ih => intro s h; exact ih _ (roleInv_clStepR h c)
  have h := this {} roleInv_empty
  exact ⟨onePrimary_of_inv h, h.2⟩

theorem C23_repaired_reregister_full (s : NodeSt) (n old : NodeInfo) (h : s.nodes.get? n.id = some old) :
    ∃ n', (addNodeR s n).nodes.get? n.id = some n' ∧ n'.wstate = old.wstate := by
  unfold addNodeR
  rw [h]
  exact ⟨_, get?_ins_self _ _ _, rfl⟩

/-! ## tie to the source -/

/-- **C23_model_quirks_tied.** The three source shapes behind the findings are what the model
encodes (regenerated from `/repo` on every run): AddNode/UpdateNode replace the whole record,
`applyPromoteWriter` assigns `primaryWriterID` before its not-found return, `applyRemoveNode` never
touches `primaryWriterID`, and `handleJoinRequest` proposes node records without a writer_state.
A repair flips one of these facts and re-opens the corresponding witness/partial pair. -/
theorem C23_model_quirks_tied :
    Arc.Generated.C23.addNodeReplacesRecord = true ∧ Arc.Generated.C23.updateNodeReplacesRecord = true ∧
    Arc.Generated.C23.promoteSetsPrimaryBeforeNotFound = true ∧
    Arc.Generated.C23.removeNodeTouchesPrimary = false ∧
    Arc.Generated.C23.joinRequestSetsWriterState = false := by decide

end Arc.C23
