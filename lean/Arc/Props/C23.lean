import Arc.Model.C23
import Arc.Proofs.C22.SMapLemmas
import Arc.Generated.C23
import Arc.Proofs.C22.RestoreParents
import Arc.Model.C22.PreFix
import Arc.Proofs.C22.Members
/-!
# C23 — cluster role assignments stay consistent

Property: in every state reachable through cluster commands,
  (1) at most one node is marked primary writer                          — `C23_one_primary`
  (2) a node named as the primary writer exists and is marked primary    — `C23_primary_exists`
  (3) re-registering an existing node does not silently change the role assignment recorded for it
                                                                         — `C23_reregister`
  (4) every team, role, measurement permission and membership refers to parents that exist
                                                                         — `C23_rbac_parents`
All four hold at full strength for the CURRENT FSM (`internal/cluster/raft/fsm.go` after the fixes
93fb282, 4708dee, 466f761), for every history: any commands (valid, invalid, duplicate, out of order)
at any log indexes, with snapshot+restore steps anywhere.

Clauses (1)–(3) were false before those fixes; the `C23_prefix_*_witness` theorems keep the
counterexamples as statements about the explicitly named pre-fix functions (`Arc.C22.PreFix`).
-/
namespace Arc.C23
open Arc.C22 Arc.C22.SMap

/-! ## helper lemmas (node part) -/

theorem apply_cl (s : State) (i : Nat) (c : Cmd) : (apply s i c).1.cl = clStep s.cl c := by
  cases c <;> rfl

theorem restore_cl (s : State) : (restore (snapshot s)).cl = s.cl := rfl

theorem get?_setWState (nodes : SMap String NodeInfo) (id ws k : String) :
    (setWState nodes id ws).get? k =
      if k = id then (nodes.get? id).map (fun n => { n with wstate := ws }) else nodes.get? k := by
  unfold setWState
  cases h : nodes.get? id with
  | none =>
    by_cases hk : k = id
    · subst hk; simp [h]
    · simp [hk]
  | some n =>
    simp only [get?_ins]
    by_cases hk : k = id <;> simp [hk]

/-- the invariant behind clauses (1) and (2): a node is marked primary only if it is the recorded
primary writer, and the recorded primary writer (if any) exists and is marked. -/
def RoleInv (s : NodeSt) : Prop :=
  (∀ k n, s.nodes.get? k = some n → n.wstate = "primary" → k = s.pw ∧ s.pw ≠ "") ∧ PrimaryExists s

theorem roleInv_empty : RoleInv ({} : NodeSt) := by
  refine ⟨?_, ?_⟩
  · intro k n h; simp at h
  · intro h; exact absurd rfl h

theorem onePrimary_of_inv {s : NodeSt} (h : RoleInv s) : OnePrimary s := by
  intro k1 k2 n1 n2 h1 h2 m1 m2
  rw [(h.1 k1 n1 h1 m1).1, (h.1 k2 n2 h2 m2).1]

theorem roleInv_addNode {s : NodeSt} (h : RoleInv s) (n : NodeInfo) : RoleInv (applyAddNode s n).1 := by
  unfold applyAddNode
  cases hg : s.nodes.get? n.id with
  | some old =>
    refine ⟨?_, ?_⟩
    · intro k m hk hm
      simp only [get?_ins] at hk
      by_cases hkn : k = n.id
      · simp only [hkn, if_true, Option.some.injEq] at hk
        subst hk
        rw [hkn]; exact h.1 n.id old hg hm
      · simp only [hkn, if_false] at hk; exact h.1 k m hk hm
    · intro hpw
      simp only at hpw ⊢
      simp only [get?_ins]
      by_cases hkn : s.pw = n.id
      · simp only [hkn, if_true]
        obtain ⟨q, hq, hm⟩ := h.2 hpw
        rw [hkn, hg] at hq
        cases hq
        exact ⟨_, rfl, hm⟩
      · simp only [hkn, if_false]; exact h.2 hpw
  | none =>
    refine ⟨?_, ?_⟩
    · intro k m hk hm
      simp only [get?_ins] at hk
      by_cases hkn : k = n.id
      · simp only [hkn, if_true, Option.some.injEq] at hk
        subst hk
        exfalso
        by_cases hp : n.wstate = "primary"
        · simp [hp] at hm
        · simp [hp] at hm
      · simp only [hkn, if_false] at hk; exact h.1 k m hk hm
    · intro hpw
      simp only at hpw ⊢
      simp only [get?_ins]
      obtain ⟨q, hq, hm⟩ := h.2 hpw
      have hkn : s.pw ≠ n.id := by
        intro e; rw [e, hg] at hq; exact absurd hq (by simp)
      simp only [hkn, if_false]; exact ⟨q, hq, hm⟩

theorem roleInv_removeNode {s : NodeSt} (h : RoleInv s) (id : String) : RoleInv (applyRemoveNode s id).1 := by
  unfold applyRemoveNode
  refine ⟨?_, ?_⟩
  · intro k m hk hm
    simp only [get?_del] at hk
    by_cases hkn : k = id
    · simp [hkn] at hk
    · simp only [hkn, if_false] at hk
      have := h.1 k m hk hm
      have hne : s.pw ≠ id := fun e => hkn (this.1.trans e)
      simp only [hne, if_false]; exact this
  · intro hpw
    simp only at hpw ⊢
    by_cases hpi : s.pw = id
    · simp [hpi] at hpw
    · simp only [hpi, if_false] at hpw ⊢
      simp only [get?_del, hpi, if_false]; exact h.2 hpw

theorem roleInv_updateNodeState {s : NodeSt} (h : RoleInv s) (id st : String) :
    RoleInv (applyUpdateNodeState s id st).1 := by
  unfold applyUpdateNodeState
  cases hg : s.nodes.get? id with
  | none => exact h
  | some n =>
    refine ⟨?_, ?_⟩
    · intro k m hk hm
      simp only [get?_ins] at hk
      by_cases hkn : k = id
      · simp [hkn] at hk; subst hk; subst hkn; exact h.1 k n hg hm
      · simp [hkn] at hk; exact h.1 k m hk hm
    · intro hpw
      simp only at hpw ⊢
      simp only [get?_ins]
      by_cases hkn : s.pw = id
      · simp only [hkn, if_true]
        obtain ⟨n', hn', hm'⟩ := h.2 hpw
        rw [hkn, hg] at hn'
        cases hn'
        exact ⟨_, rfl, hm'⟩
      · simp only [hkn, if_false]; exact h.2 hpw

theorem get?_demoteOld (nodes : SMap String NodeInfo) (pw id k : String) :
    (demoteOld nodes pw id).get? k =
      if pw ≠ "" ∧ pw ≠ id ∧ k = pw then (nodes.get? pw).map (fun n => { n with wstate := "standby" })
      else nodes.get? k := by
  unfold demoteOld
  by_cases h : pw ≠ "" ∧ pw ≠ id
  · rw [if_pos h, get?_setWState]
    by_cases hk : k = pw
    · rw [if_pos hk, if_pos ⟨h.1, h.2, hk⟩]
    · rw [if_neg hk, if_neg (fun hh => hk hh.2.2)]
  · rw [if_neg h, if_neg (fun hh => h ⟨hh.1, hh.2.1⟩)]

theorem roleInv_promote {s : NodeSt} (h : RoleInv s) (id : String) : RoleInv (applyPromote s id).1 := by
  unfold applyPromote
  by_cases hid : id = ""
  · simp [hid]; exact h
  · simp only [hid, if_false]
    cases hg : s.nodes.get? id with
    | none => exact h
    | some n =>
      simp only
      by_cases hr : n.role ≠ "writer"
      · simp [hr]; exact h
      · simp only [hr, if_false]
        refine ⟨?_, ?_⟩
        · intro k m hk hm
          simp only at hk ⊢
          rw [get?_setWState] at hk
          by_cases hki : k = id
          · exact ⟨hki, hid⟩
          · simp only [hki, if_false] at hk
            rw [get?_demoteOld] at hk
            by_cases hc : s.pw ≠ "" ∧ s.pw ≠ id ∧ k = s.pw
            · rw [if_pos hc] at hk
              cases hpwn : s.nodes.get? s.pw with
              | none => rw [hpwn] at hk; simp at hk
              | some q =>
                rw [hpwn] at hk
                simp only [Option.map_some, Option.some.injEq] at hk
                subst hk
                simp at hm
            · rw [if_neg hc] at hk
              have := h.1 k m hk hm
              exact absurd ⟨this.2, fun e => hki (this.1.trans e), this.1⟩ hc
        · intro _
          simp only
          rw [get?_setWState]
          simp only [if_true]
          rw [get?_demoteOld]
          have hc : ¬ (s.pw ≠ "" ∧ s.pw ≠ id ∧ id = s.pw) := fun hh => hh.2.1 hh.2.2.symm
          simp only [hc, if_false, hg]
          exact ⟨_, rfl, rfl⟩

theorem roleInv_demote {s : NodeSt} (h : RoleInv s) (id : String) : RoleInv (applyDemote s id).1 := by
  unfold applyDemote
  by_cases hid : id = ""
  · simp [hid]; exact h
  · simp only [hid, if_false]
    refine ⟨?_, ?_⟩
    · intro k m hk hm
      simp only at hk ⊢
      rw [get?_setWState] at hk
      by_cases hki : k = id
      · simp only [hki, if_true] at hk
        cases hg : s.nodes.get? id with
        | none => simp [hg] at hk
        | some q => simp [hg] at hk; subst hk; simp at hm
      · simp only [hki, if_false] at hk
        have := h.1 k m hk hm
        have hne : s.pw ≠ id := fun e => hki (this.1.trans e)
        simp only [hne, if_false]
        exact this
    · intro hpw
      simp only at hpw ⊢
      by_cases hpi : s.pw = id
      · simp [hpi] at hpw
      · simp only [hpi, if_false] at hpw ⊢
        rw [get?_setWState]
        simp only [hpi, if_false]
        exact h.2 hpw

theorem roleInv_compactor {s : NodeSt} (h : RoleInv s) (id : String) :
    RoleInv (applyAssignCompactor s id).1 := by
  unfold applyAssignCompactor
  by_cases hid : id = "" <;> simp [hid] <;> exact h

theorem roleInv_clStep {s : NodeSt} (h : RoleInv s) (c : Cmd) : RoleInv (clStep s c) := by
  cases c <;> try exact h
  · exact roleInv_addNode h _
  · exact roleInv_removeNode h _
  · exact roleInv_addNode h _
  · exact roleInv_updateNodeState h _ _
  · exact roleInv_promote h _
  · exact roleInv_demote h _
  · exact roleInv_compactor h _

theorem roleInv_run (s : State) (evs : List Ev) (h : RoleInv s.cl) : RoleInv (runEv s evs).cl := by
  induction evs generalizing s with
  | nil => exact h
  | cons e es ih =>
    cases e with
    | cmd i c =>
      simp only [runEv, stepEv]
      apply ih
      rw [apply_cl]; exact roleInv_clStep h c
    | restore =>
      simp only [runEv, stepEv]
      exact ih _ (by rw [restore_cl]; exact h)

def nodeW (id ws : String) : NodeInfo :=
  { id := id, name := id, role := "writer", cluster := "c", address := "a", api := "b",
    state := "healthy", version := "v", wstate := ws, cores := 4 }

/-! ## clause (1): at most one node is marked primary -/

/-- **C23_one_primary.** In every reachable state at most one node is marked primary. -/
theorem C23_one_primary (evs : List Ev) : OnePrimary (runEv State.empty evs).cl :=
  onePrimary_of_inv (roleInv_run State.empty evs roleInv_empty)

/-! ## clause (2): the primary writer id names an existing node that is marked primary -/

/-- **C23_primary_exists.** In every reachable state a non-empty `primaryWriterID` names a node
that exists and is marked primary. -/
theorem C23_primary_exists (evs : List Ev) : PrimaryExists (runEv State.empty evs).cl :=
  (roleInv_run State.empty evs roleInv_empty).2

/-- … and a node is marked primary only if it is the recorded primary writer. -/
theorem C23_marked_is_recorded (evs : List Ev) (k : String) (n : NodeInfo)
    (h : (runEv State.empty evs).cl.nodes.get? k = some n) (hm : n.wstate = "primary") :
    k = (runEv State.empty evs).cl.pw :=
  ((roleInv_run State.empty evs roleInv_empty).1 k n h hm).1

/-- non-vacuity: promotion, failover, the primary rejoins (join proposes writer_state ""), a leave of
the primary, payloads that claim "primary", a promotion of an unknown id — the state stays sane -/
example :
    let s := runEv State.empty
      [.cmd 1 (.addNode (nodeW "n1" "primary")), .cmd 2 (.addNode (nodeW "n2" "primary")), .cmd 3 (.promote "n1" ""),
       .restore, .cmd 5 (.addNode (nodeW "n1" "")), .cmd 6 (.promote "n4" "n1"), .cmd 7 (.updateNode (nodeW "n2" "primary"))]
    s.cl.pw = "n1" ∧ (s.cl.nodes.get? "n1").map (·.wstate) = some "primary" ∧
    (s.cl.nodes.get? "n2").map (·.wstate) = some "" ∧
    (runEv s [.cmd 8 (.removeNode "n1")]).cl.pw = "" := by decide

/-! ## clause (3): re-registering a node -/

/-- **C23_reregister.** AddNode (and UpdateNode) of an existing id keeps the recorded
`writer_state`, whatever the payload says, and leaves `primaryWriterID`, the compactor lease and
every other node's record untouched — for every state. -/
theorem C23_reregister (s : State) (i : Nat) (n old : NodeInfo) (hold : s.cl.nodes.get? n.id = some old) :
    (∃ n', (apply s i (.addNode n)).1.cl.nodes.get? n.id = some n' ∧ n'.wstate = old.wstate) ∧
    (∃ n', (apply s i (.updateNode n)).1.cl.nodes.get? n.id = some n' ∧ n'.wstate = old.wstate) ∧
    (apply s i (.addNode n)).1.cl.pw = s.cl.pw ∧
    (apply s i (.addNode n)).1.cl.compactor = s.cl.compactor ∧
    (∀ k, k ≠ n.id → (apply s i (.addNode n)).1.cl.nodes.get? k = s.cl.nodes.get? k) := by
  have e : (apply s i (.addNode n)).1.cl = (applyAddNode s.cl n).1 := rfl
  have e2 : (apply s i (.updateNode n)).1.cl = (applyAddNode s.cl n).1 := rfl
  have hA : (applyAddNode s.cl n).1 = { s.cl with nodes := s.cl.nodes.ins n.id { n with wstate := old.wstate } } := by
    unfold applyAddNode; rw [hold]
  rw [e, e2, hA]
  refine ⟨⟨_, get?_ins_self _ _ _, rfl⟩, ⟨_, get?_ins_self _ _ _, rfl⟩, rfl, rfl, ?_⟩
  intro k hk
  exact get?_ins_ne _ _ _ _ hk

example : ∃ (s : State) (n old : NodeInfo), s.cl.nodes.get? n.id = some old ∧ old.wstate = "primary" ∧ n.wstate = "" :=
  ⟨runEv State.empty [.cmd 1 (.addNode (nodeW "n1" "")), .cmd 2 (.promote "n1" "")],
   nodeW "n1" "", nodeW "n1" "primary", by decide, rfl, rfl⟩

/-! ## the pre-fix counterexamples (statements about `Arc.C22.PreFix`, not about the current code) -/

/-- pre-466f761: two AddNode payloads carrying `writer_state = "primary"` left two nodes marked -/
theorem C23_prefix_one_primary_witness :
    ¬ OnePrimary (PreFix.runEv State.empty
        [.cmd 1 (.addNode (nodeW "n1" "primary")), .cmd 2 (.addNode (nodeW "n2" "primary"))]).cl := by
  intro h
  have := h "n1" "n2" (nodeW "n1" "primary") (nodeW "n2" "primary") (by decide) (by decide) rfl rfl
  exact absurd this (by decide)

/-- pre-93fb282 / pre-4708dee / pre-466f761: promote of an unknown id, leave of the primary and
rejoin of the primary each left `primaryWriterID` naming a missing or unmarked node -/
theorem C23_prefix_primary_exists_witness :
    (PreFix.runEv State.empty [.cmd 1 (.addNode (nodeW "n1" "")), .cmd 2 (.promote "n1" ""),
        .cmd 3 (.promote "n4" "n1")]).cl.pw = "n4" ∧
    (PreFix.runEv State.empty [.cmd 1 (.addNode (nodeW "n1" "")), .cmd 2 (.promote "n1" ""),
        .cmd 3 (.promote "n4" "n1")]).cl.nodes.get? "n4" = none ∧
    (PreFix.runEv State.empty [.cmd 1 (.addNode (nodeW "n1" "")), .cmd 2 (.promote "n1" ""),
        .cmd 3 (.removeNode "n1")]).cl.pw = "n1" ∧
    (PreFix.runEv State.empty [.cmd 1 (.addNode (nodeW "n1" "")), .cmd 2 (.promote "n1" ""),
        .cmd 3 (.removeNode "n1")]).cl.nodes.get? "n1" = none ∧
    (PreFix.runEv State.empty [.cmd 1 (.addNode (nodeW "n1" "")), .cmd 2 (.promote "n1" ""),
        .cmd 3 (.addNode (nodeW "n1" ""))]).cl.pw = "n1" ∧
    ((PreFix.runEv State.empty [.cmd 1 (.addNode (nodeW "n1" "")), .cmd 2 (.promote "n1" ""),
        .cmd 3 (.addNode (nodeW "n1" ""))]).cl.nodes.get? "n1").map (·.wstate) = some "" := by decide

/-- the same three histories on the CURRENT functions end in a consistent state -/
theorem C23_prefix_histories_now_fine :
    (runEv State.empty [.cmd 1 (.addNode (nodeW "n1" "")), .cmd 2 (.promote "n1" ""),
        .cmd 3 (.promote "n4" "n1")]).cl.pw = "n1" ∧
    (runEv State.empty [.cmd 1 (.addNode (nodeW "n1" "")), .cmd 2 (.promote "n1" ""),
        .cmd 3 (.removeNode "n1")]).cl.pw = "" ∧
    ((runEv State.empty [.cmd 1 (.addNode (nodeW "n1" "")), .cmd 2 (.promote "n1" ""),
        .cmd 3 (.addNode (nodeW "n1" ""))]).cl.nodes.get? "n1").map (·.wstate) = some "primary" := by decide

/-! ## clause (4): RBAC children always have existing parents (full strength) -/

/-- **C23_rbac_parents.** In EVERY state reachable from the empty FSM — any commands (valid,
invalid, duplicate, out of order) at any log indexes, snapshot+restore steps anywhere — every team
refers to an existing organization, every role to an existing team, every measurement permission to
an existing role and every membership to an existing token and an existing team. (Invariant `PInv`:
parents exist and every child is listed in the traversal index that its parent's cascade walks;
preserved by the three nested cascades, re-established by `Restore` for any snapshot.) -/
theorem C23_rbac_parents (evs : List Ev) : ParentsExist (runEv State.empty evs).au :=
  (pinv_runEv State.empty evs pinv_empty).parents

/-- **C23_rbac_cascade_index_complete.** … and every team / role / measurement permission /
membership is listed in the index a cascading delete of its parent iterates, so no cascade can miss
a child. -/
theorem C23_rbac_cascade_index_complete (evs : List Ev) :
    let a := (runEv State.empty evs).au
    (∀ k e, a.teams.get? k = some e → get2? a.teamsByOrg e.org e.name = some k) ∧
    (∀ k e, a.roles.get? k = some e → get2? a.rolesByTeam e.team k = some ()) ∧
    (∀ k e, a.mperms.get? k = some e → get2? a.mpermsByRole e.role k = some ()) ∧
    (∀ k e, a.members.get? k = some e →
      get2? a.memByToken e.token k = some () ∧ get2? a.memByTeam e.team k = some ()) :=
  let h := pinv_runEv State.empty evs pinv_empty
  ⟨h.c1, h.c2, h.c3, h.c4⟩

/-- **C23_membership_indexes_sound.** For histories with strictly increasing log indexes: every
entry of `tokenMembershipsByTeam` / `…ByToken` / `…ByPair` points at a membership record that exists
and carries that team / token — together with `C23_rbac_cascade_index_complete` the cascades walk
exactly the memberships of the team (token) being deleted, no more and no fewer. -/
theorem C23_membership_indexes_sound (evs : List Ev) (hinc : idxIncreasing 1 evs = true) :
    let a := (runEv State.empty evs).au
    (∀ tm id, get2? a.memByTeam tm id = some () → ∃ e, a.members.get? id = some e ∧ e.team = tm) ∧
    (∀ tok id, get2? a.memByToken tok id = some () → ∃ e, a.members.get? id = some e ∧ e.token = tok) ∧
    (∀ tok tm id, get2? a.memByPair tok tm = some id →
        ∃ e, a.members.get? id = some e ∧ e.token = tok ∧ e.team = tm) :=
  let h := memInv_runEv State.empty 1 evs (memInv_empty _) hinc
  ⟨h.s3, h.s2, h.s1⟩

/-- non-vacuity: a history that builds the whole hierarchy, restores, and cascades a delete -/
example :
    let evs : List Ev :=
      [.cmd 1 (.createOrg { id := 0, name := "acme", desc := "", created := 5, updated := 0, enabled := false, lsn := 0 }),
       .cmd 2 (.createTeam { id := 0, org := 1, name := "core", desc := "", created := 5, updated := 0, enabled := false, lsn := 0 }),
       .cmd 3 (.createToken { id := 0, name := "t", desc := "", perms := "read", hash := "h", pfx := "p", created := 5, expires := 0, enabled := true, lsn := 0 }),
       .cmd 4 (.createRole { id := 0, team := 2, pattern := "*", perms := "read", created := 5, lsn := 0 }),
       .restore,
       .cmd 5 (.addMember { id := 0, token := 3, team := 2, created := 5, lsn := 0 })]
    (runEv State.empty evs).au.members.length = 1 ∧ (runEv State.empty evs).au.roles.length = 1 ∧
    (runEv State.empty (evs ++ [.cmd 6 (.deleteOrg 1)])).au.members = [] ∧
    (runEv State.empty (evs ++ [.cmd 6 (.deleteOrg 1)])).au.roles = [] := by decide

/-! ## tie to the source -/

/-- **C23_model_quirks_tied.** The source shapes the role theorems rest on are what the model
encodes (regenerated from `/repo` on every run): AddNode/UpdateNode overwrite the payload's
writer_state with the recorded one (or clear a "primary" claim of a new id) BEFORE storing the record;
`applyPromoteWriter`'s not-found guard precedes every mutation; `applyRemoveNode` clears
`primaryWriterID` when it removes that node. Reverting any of the three fixes flips a fact. -/
theorem C23_model_quirks_tied :
    Arc.Generated.C23.addNodeKeepsWriterState = true ∧ Arc.Generated.C23.updateNodeKeepsWriterState = true ∧
    Arc.Generated.C23.promoteValidatesBeforeMutating = true ∧
    Arc.Generated.C23.removeNodeClearsPrimary = true := by decide

end Arc.C23
