import Arc.Model.C29
import Arc.Generated.C29
/-!
# C29 — continuous query windows are contiguous and processed once

Property text: *Successive scheduled executions of a continuous query process time windows that are
contiguous and non-overlapping, each starting where the previous successful execution ended; a failed
execution does not advance the window, and output rows are labelled with the start of the window
they summarise.*  Quantifier: all sequences of scheduled and manual executions, failures, restarts
and query updates under a controlled clock.

Proved for ALL histories (`List Op`), all integer clock positions and every starting state:
`C29_fail_no_advance`, `C29_advance_only_if_written`, `C29_completed_advances`, `C29_cursor_is_last_completed_end`, `C29_chain`,
`C29_label`, `C29_label_cursor`.

The label clause is proved in full (`C29_label`; the sub-second label defect found by this check was
fixed in /repo 388c9ab).  The code as it is violates the contiguity / processed-once clauses on two
input classes (known findings, confirmed on the real handler by the harness): manual executions with
an explicit range move the cursor, and rows written by an execution whose record-and-advance
transaction failed are re-emitted.  For those the full statement is kept in a comment, concrete
`_witness`es are proved, and the `_partial` theorems hold under the decidable carve-out `tameOp`.
-/
namespace Arc.C29

/-! ## helper lemmas (not property theorems) -/

theorem floorSec_mono {a b : Int} (h : a ≤ b) : floorSec a ≤ floorSec b := by
  unfold floorSec nsPerSec; omega

theorem floorSec_mul (s : Int) : floorSec (s * nsPerSec) = s := by
  unfold floorSec nsPerSec; omega

/-- what one execution does, given the chosen window — all branches of `execWindow`. -/
theorem execWindow_spec (st : State) (k : Kind) (ex : Bool) (a b : Int) (dry : Bool) (f : Fault) :
    let r := execWindow st k ex a b dry f
    (r.2.status = .completed →
        a < b ∧ r.2.win = some (floorSec a, floorSec b) ∧ r.1.lp = some (floorSec b) ∧ recFails f = false) ∧
    (r.2.status ≠ .completed → r.1.lp = st.lp) ∧
    (r.2.status = .recfailed → a < b ∧ r.2.win = some (floorSec a, floorSec b) ∧ recFails f = true) ∧
    (∀ w, r.2.win = some w → w = (floorSec a, floorSec b) ∧ a < b) ∧
    (∀ l, r.2.label = some l → l = floorSec a * 1000000 ∧ r.2.win = some (floorSec a, floorSec b)) ∧
    r.2.startNs = a ∧ r.2.kind = k ∧ r.2.lpBefore = st.lp ∧ r.2.lpAfter = r.1.lp := by
  unfold execWindow
  by_cases h1 : a < b
  · by_cases h2 : dry = true
    · simp [h1, h2]
    · by_cases h3 : aggFails st f = true
      · simp [h1, h2, h3]
      · by_cases h5 : writeFails st f (aggRows st (floorSec a) (floorSec b)) = true
        · simp [h1, h2, h3, h5]
        · by_cases h4 : recFails f = true
          · simp only [h1, h2, h3, h4, h5]
            simp [secLabelUs]
          · simp only [h1, h2, h3, h4, h5]
            simp [secLabelUs]
  · simp [h1]

/-- the start instant of a window that begins at the cursor -/
theorem cursorStart_some (c now : Int) : cursorStart (some c) now = c * nsPerSec := rfl

/-- single-step summary used by all history-level theorems. -/
theorem step_spec (st : State) (op : Op) :
    let r := step st op
    (r.2.status ≠ .completed → r.1.lp = st.lp) ∧
    (r.2.status = .completed → ∃ s e, r.2.win = some (s, e) ∧ s ≤ e ∧ r.1.lp = some e) ∧
    (tameOp op = true → r.2.reportedOk = true →
        ∃ s e, r.2.win = some (s, e) ∧ r.2.status = .completed ∧ (∀ c, st.lp = some c → s = c)) := by
  cases op with
  | sched now f =>
    simp only [step]
    by_cases hr : st.running = true
    · by_cases ha : st.active = true
      · simp only [hr, ha, Bool.not_true, Bool.false_eq_true, if_false]
        have sp := execWindow_spec st .sched false (cursorStart st.lp now) now false f
        simp only at sp
        obtain ⟨h1, h2, h3, _, _, _⟩ := sp
        refine ⟨h2, ?_, ?_⟩
        · intro hc
          obtain ⟨hlt, hw, hlp, _⟩ := h1 hc
          exact ⟨_, _, hw, floorSec_mono (Int.le_of_lt hlt), hlp⟩
        · intro ht hok
          simp only [tameOp, Bool.not_eq_true'] at ht
          simp only [Event.reportedOk, Bool.or_eq_true, beq_iff_eq] at hok
          rcases hok with hc | hrf
          · obtain ⟨_, hw, _, _⟩ := h1 hc
            refine ⟨_, _, hw, hc, ?_⟩
            intro c hcur
            rw [hcur, cursorStart_some, floorSec_mul]
          · have := (h3 hrf).2.2
            simp [ht] at this
      · simp [hr, ha, plainEvent, Event.reportedOk]
    · simp [hr, plainEvent, Event.reportedOk]
  | manual now s e dry f =>
    simp only [step]
    by_cases ha : st.active = true
    · simp only [ha, Bool.not_true, Bool.false_eq_true, if_false]
      cases hs : pickStart s st.lp now with
      | none => simp [plainEvent, Event.reportedOk]
      | some a =>
        cases he : pickEnd e now with
        | none => simp [plainEvent, Event.reportedOk]
        | some b =>
          simp only
          have sp := execWindow_spec st .manual (s.isExplicit || e.isExplicit) a b dry f
          simp only at sp
          obtain ⟨h1, h2, h3, _, _, _⟩ := sp
          refine ⟨h2, ?_, ?_⟩
          · intro hc
            obtain ⟨hlt, hw, hlp, _⟩ := h1 hc
            exact ⟨_, _, hw, floorSec_mono (Int.le_of_lt hlt), hlp⟩
          · intro ht hok
            simp only [tameOp, Bool.and_eq_true, Bool.or_eq_true, Bool.not_eq_true'] at ht
            simp only [Event.reportedOk, Bool.or_eq_true, beq_iff_eq] at hok
            rcases hok with hc | hrf
            · obtain ⟨_, hw, _, _⟩ := h1 hc
              refine ⟨_, _, hw, hc, ?_⟩
              intro c hcur
              -- not a dry run (a dry run is never `completed`), hence no explicit start
              rcases ht.1 with hdry | hne
              · exfalso
                unfold execWindow at hc
                subst hdry
                by_cases hlt : a < b <;> simp [hlt] at hc
              · have hsne : s.isExplicit = false := hne.1
                have : a = cursorStart st.lp now := by
                  cases s <;> simp_all [pickStart, TimeArg.isExplicit]
                rw [this, hcur, cursorStart_some, floorSec_mul]
            · have := (h3 hrf).2.2
              simp [ht.2] at this
    · simp [ha, plainEvent, Event.reportedOk]
  | update now a i q => simp [step, plainEvent, Event.reportedOk]
  | restart now => simp [step, plainEvent, Event.reportedOk]
  | src t h => simp [step, plainEvent, Event.reportedOk]

/-- windows form a chain starting at cursor `c`: each starts where the previous one ended. -/
def ChainFrom : Option Int → List (Int × Int) → Prop
  | _, [] => True
  | c, w :: rest => (∀ c', c = some c' → w.1 = c') ∧ w.1 ≤ w.2 ∧ ChainFrom (some w.2) rest

/-- successive windows are contiguous: `s_{i+1} = e_i`. -/
def Contiguous : List (Int × Int) → Prop
  | [] => True
  | [_] => True
  | a :: b :: rest => b.1 = a.2 ∧ Contiguous (b :: rest)

theorem chainFrom_contiguous : ∀ (c : Option Int) (ws : List (Int × Int)), ChainFrom c ws → Contiguous ws
  | _, [], _ => trivial
  | _, [_], _ => trivial
  | c, a :: b :: rest, h => by
    obtain ⟨_, _, h2⟩ := h
    exact ⟨h2.1 _ rfl, chainFrom_contiguous (some a.2) (b :: rest) h2⟩

/-- every window of a chain from `c` lies at or after `c`. -/
theorem chainFrom_lower : ∀ (c : Int) (ws : List (Int × Int)), ChainFrom (some c) ws →
    ∀ w ∈ ws, c ≤ w.1 ∧ w.1 ≤ w.2
  | _, [], _ => by intro w hw; cases hw
  | c, a :: rest, h => by
    obtain ⟨h0, h1, h2⟩ := h
    have ha : a.1 = c := h0 c rfl
    intro w hw
    rcases List.mem_cons.mp hw with rfl | hin
    · exact ⟨by omega, h1⟩
    · have := chainFrom_lower a.2 rest h2 w hin
      exact ⟨by omega, this.2⟩

theorem okWins_cons (ev : Event) (evs : List Event) :
    okWins (ev :: evs) = (match ev.reportedOk, ev.win with
      | true, some w => w :: okWins evs
      | _, _ => okWins evs) := rfl

/-- core invariant of tame histories -/
theorem tame_chainFrom (ops : List Op) : ∀ (st : State), (∀ op ∈ ops, tameOp op = true) →
    ChainFrom st.lp (okWins (trace st ops)) := by
  induction ops with
  | nil => intro st _; trivial
  | cons op ops ih =>
    intro st ht
    have hop : tameOp op = true := ht op (by simp)
    have hrest : ∀ o ∈ ops, tameOp o = true := fun o ho => ht o (by simp [ho])
    have sp := step_spec st op
    simp only at sp
    obtain ⟨hnc, hc, htame⟩ := sp
    have ih' := ih (step st op).1 hrest
    simp only [trace, okWins_cons]
    cases hok : (step st op).2.reportedOk with
    | false =>
      have hne : (step st op).2.status ≠ .completed := by
        intro h; simp [Event.reportedOk, h] at hok
      simp only
      rw [← hnc hne]; exact ih'
    | true =>
      obtain ⟨s, e, hw, hcomp, hstart⟩ := htame hop hok
      obtain ⟨s', e', hw', hle, hlp⟩ := hc hcomp
      rw [hw] at hw'
      cases hw'
      simp only [hw]
      refine ⟨hstart, hle, ?_⟩
      rw [← hlp]; exact ih'

theorem lastCompletedEnd_cons (c : Option Int) (ev : Event) (evs : List Event) :
    lastCompletedEnd c (ev :: evs) = (match ev.status, ev.win with
      | .completed, some w => lastCompletedEnd (some w.2) evs
      | _, _ => lastCompletedEnd c evs) := rfl

/-! ## property theorems — all histories, no carve-out -/

/-- **C29_fail_no_advance.** An execution that is not recorded as completed — aggregation failed,
record-and-advance failed, rejected (`start ≥ end`), malformed arguments, inactive query, no job,
dry run — and every update / restart / source write leaves `last_processed_time` untouched. -/
theorem C29_fail_no_advance (st : State) (op : Op) (h : (step st op).2.status ≠ .completed) :
    (step st op).1.lp = st.lp :=
  (step_spec st op).1 h

/-- non-vacuity for the write-failure branch: the query returns a row, the buffer rejects it —
recorded as failed, nothing written, cursor stays. -/
example : (step { lp := some 100, src := [⟨100500000, false⟩] } (.sched 160250000000 .wr)).2.status = .aggfailed ∧
    (step { lp := some 100, src := [⟨100500000, false⟩] } (.sched 160250000000 .wr)).2.rows = [] ∧
    (step { lp := some 100, src := [⟨100500000, false⟩] } (.sched 160250000000 .wr)).1.lp = some 100 ∧
    (step { lp := some 100, q := .badtime, src := [⟨100500000, false⟩] } (.sched 160250000000 .none)).1.lp = some 100 := by
  decide

/-- **C29_advance_only_if_written.** The cursor moves only when the rows of the window really were
handed to the destination buffer: whenever an op changes `last_processed_time`, the aggregation
succeeded, the write was not rejected, and the event carries exactly the aggregated rows of the
recorded window. -/
theorem C29_advance_only_if_written (st : State) (op : Op) (h : (step st op).1.lp ≠ st.lp) :
    ∃ s e f, (step st op).2.win = some (s, e) ∧ (step st op).2.status = .completed ∧
      (step st op).2.rows = aggRows st s e ∧ writeFails st f (aggRows st s e) = false ∧
      (op = .sched (match op with | .sched n _ => n | .manual n _ _ _ _ => n | _ => 0) f ∨
       ∃ n a b d, op = .manual n a b d f) := by
  have key : ∀ (k : Kind) (ex : Bool) (a b : Int) (dry : Bool) (f : Fault),
      (execWindow st k ex a b dry f).1.lp ≠ st.lp →
      ∃ s e, (execWindow st k ex a b dry f).2.win = some (s, e) ∧
        (execWindow st k ex a b dry f).2.status = .completed ∧
        (execWindow st k ex a b dry f).2.rows = aggRows st s e ∧ writeFails st f (aggRows st s e) = false := by
    intro k ex a b dry f hne
    unfold execWindow at hne ⊢
    by_cases h1 : a < b
    · by_cases h2 : dry = true
      · simp [h1, h2] at hne
      · by_cases h3 : aggFails st f = true
        · simp [h1, h2, h3] at hne
        · by_cases h5 : writeFails st f (aggRows st (floorSec a) (floorSec b)) = true
          · simp [h1, h2, h3, h5] at hne
          · by_cases h4 : recFails f = true
            · simp [h1, h2, h3, h4, h5] at hne
            · refine ⟨floorSec a, floorSec b, ?_⟩
              simp only [h1, h2, h3, h4, h5]
              simp
    · simp [h1] at hne
  cases op with
  | sched now f =>
    simp only [step] at h ⊢
    by_cases hr : st.running = true
    · by_cases ha : st.active = true
      · simp only [hr, ha, Bool.not_true, Bool.false_eq_true, if_false] at h ⊢
        obtain ⟨s, e, h1, h2, h3, h4⟩ := key _ _ _ _ _ _ h
        exact ⟨s, e, f, h1, h2, h3, h4, Or.inl rfl⟩
      · simp [hr, ha] at h
    · simp [hr] at h
  | manual now s e dry f =>
    simp only [step] at h ⊢
    by_cases ha : st.active = true
    · simp only [ha, Bool.not_true, Bool.false_eq_true, if_false] at h ⊢
      cases hs : pickStart s st.lp now with
      | none => simp [hs] at h
      | some a =>
        cases he : pickEnd e now with
        | none => simp [hs, he] at h
        | some b =>
          simp only [hs, he] at h ⊢
          obtain ⟨s', e', h1, h2, h3, h4⟩ := key _ _ _ _ _ _ h
          exact ⟨s', e', f, h1, h2, h3, h4, Or.inr ⟨now, s, e, dry, rfl⟩⟩
    · simp [ha] at h
  | update now a i q => simp [step] at h
  | restart now => simp [step] at h
  | src t hst => simp [step] at h

/-- **C29_completed_advances.** A completed execution (scheduled or manual) ran a window `[s, e)`
with `s ≤ e` and moves the cursor exactly to `e`. -/
theorem C29_completed_advances (st : State) (op : Op) (h : (step st op).2.status = .completed) :
    ∃ s e, (step st op).2.win = some (s, e) ∧ s ≤ e ∧ (step st op).1.lp = some e :=
  (step_spec st op).2.1 h

/-- **C29_cursor_is_last_completed_end.** After ANY history the persisted cursor is the end of the
last completed execution (or the initial cursor when nothing completed). -/
theorem C29_cursor_is_last_completed_end (ops : List Op) : ∀ (st : State),
    (runState st ops).lp = lastCompletedEnd st.lp (trace st ops) := by
  induction ops with
  | nil => intro st; rfl
  | cons op ops ih =>
    intro st
    simp only [runState, trace, lastCompletedEnd_cons]
    rw [ih]
    have sp := step_spec st op
    simp only at sp
    obtain ⟨hnc, hc, _⟩ := sp
    by_cases hs : (step st op).2.status = .completed
    · obtain ⟨s, e, hw, _, hlp⟩ := hc hs
      simp only [hs, hw, hlp]
    · rw [hnc hs]
      cases hst : (step st op).2.status <;> first | (exact absurd hst hs) | rfl

/-- **C29_chain.** "each starting where the previous successful execution ended": after ANY history
(manual executions with explicit ranges, failures, restarts, updates included), a scheduled execution
that gets as far as choosing a window starts it exactly at the end of the last completed execution. -/
theorem C29_chain (st : State) (ops : List Op) (now : Int) (f : Fault) (c s e : Int)
    (hlast : lastCompletedEnd st.lp (trace st ops) = some c)
    (hwin : (step (runState st ops) (.sched now f)).2.win = some (s, e)) : s = c := by
  have hcur := C29_cursor_is_last_completed_end ops st
  rw [hlast] at hcur
  generalize runState st ops = st' at hcur hwin
  simp only [step] at hwin
  by_cases hr : st'.running = true
  · by_cases ha : st'.active = true
    · simp only [hr, ha, Bool.not_true, Bool.false_eq_true, if_false] at hwin
      have sp := execWindow_spec st' .sched false (cursorStart st'.lp now) now false f
      simp only at sp
      have := (sp.2.2.2.1 _ hwin).1
      rw [hcur, cursorStart_some, floorSec_mul] at this
      exact (congrArg Prod.fst this)
    · simp [hr, ha, plainEvent] at hwin
  · simp [hr, plainEvent] at hwin

example : lastCompletedEnd (none : Option Int)
    (trace {src := [⟨0, false⟩]} [.sched 100500000000 .none, .manual 200000000000 (.at 5000000000) (.at 50000000000) false .none])
      = some 50 := by decide

/-- **C29_label.** (full, all histories — holds since /repo 388c9ab.) Rows written by ANY execution —
scheduled or manual, first run without a cursor, explicit start with fractional seconds or a
non-UTC offset, record failure afterwards — carry `time = s · 10⁶ µs` where `[s, e)` is exactly the
window that was aggregated and reported: the label is the whole-second start of the window the rows
summarise. -/
theorem C29_label (st : State) (op : Op) (l : Int) (h : (step st op).2.label = some l) :
    ∃ s e, (step st op).2.win = some (s, e) ∧ s = floorSec (step st op).2.startNs ∧ l = s * 1000000 := by
  have key : ∀ (k : Kind) (ex : Bool) (a b : Int) (dry : Bool) (f : Fault),
      (execWindow st k ex a b dry f).2.label = some l →
      ∃ s e, (execWindow st k ex a b dry f).2.win = some (s, e) ∧
        s = floorSec (execWindow st k ex a b dry f).2.startNs ∧ l = s * 1000000 := by
    intro k ex a b dry f hl
    have sp := execWindow_spec st k ex a b dry f
    simp only at sp
    obtain ⟨_, _, _, _, h5, h6, _⟩ := sp
    obtain ⟨hl', hw⟩ := h5 l hl
    exact ⟨_, _, hw, by rw [h6], hl'⟩
  cases op with
  | sched now f =>
    simp only [step] at h ⊢
    by_cases hr : st.running = true
    · by_cases ha : st.active = true
      · simp only [hr, ha, Bool.not_true, Bool.false_eq_true, if_false] at h ⊢
        exact key _ _ _ _ _ _ h
      · simp [hr, ha, plainEvent] at h
    · simp [hr, plainEvent] at h
  | manual now s e dry f =>
    simp only [step] at h ⊢
    by_cases ha : st.active = true
    · simp only [ha, Bool.not_true, Bool.false_eq_true, if_false] at h ⊢
      cases hs : pickStart s st.lp now with
      | none => simp [hs, plainEvent] at h
      | some a =>
        cases he : pickEnd e now with
        | none => simp [hs, he, plainEvent] at h
        | some b =>
          simp only [hs, he] at h ⊢
          exact key _ _ _ _ _ _ h
    · simp [ha, plainEvent] at h
  | update now a i q => simp [step, plainEvent] at h
  | restart now => simp [step, plainEvent] at h
  | src t hst => simp [step, plainEvent] at h

/-- non-vacuity: first execution (no cursor) at clock 7210.25 s — window `[3610, 7210)`, label 3610 s
(before 388c9ab the label was 3610.25 s). -/
example : (step { src := [⟨0, false⟩] } (.sched 7210250000000 .none)).2.win = some (3610, 7210) ∧
    (step { src := [⟨0, false⟩] } (.sched 7210250000000 .none)).2.label = some 3610000000 := by decide

/-- **C29_label_cursor.** Every scheduled execution that starts from a stored cursor `c` labels its
rows with exactly `c` (µs) — the start of the window it summarises. -/
theorem C29_label_cursor (st : State) (now : Int) (f : Fault) (c l : Int) (hc : st.lp = some c)
    (h : (step st (.sched now f)).2.label = some l) :
    l = c * 1000000 ∧ ∃ e, (step st (.sched now f)).2.win = some (c, e) := by
  obtain ⟨s, e, hw, hs, hl⟩ := C29_label st (.sched now f) l h
  have hstart : (step st (.sched now f)).2.startNs = c * nsPerSec := by
    simp only [step] at h ⊢
    by_cases hr : st.running = true
    · by_cases ha : st.active = true
      · simp only [hr, ha, Bool.not_true, Bool.false_eq_true, if_false] at h ⊢
        have sp := execWindow_spec st .sched false (cursorStart st.lp now) now false f
        simp only at sp
        rw [sp.2.2.2.2.2.1, hc, cursorStart_some]
      · simp [hr, ha, plainEvent] at h
    · simp [hr, plainEvent] at h
  have hsc : s = c := by rw [hs, hstart, floorSec_mul]
  subst hsc
  exact ⟨hl, e, hw⟩

example : (step {lp := some 100, src := [⟨100500000, false⟩]} (.sched 160250000000 .none)).2.label = some 100000000 := by
  decide

/-! ## contiguity / processed once

FULL STATEMENT (false for the code as it is — see the witnesses):
  ∀ st ops, Contiguous (okWins (trace st ops)) ∧
    ∀ i < j, ∀ t, ¬ (covers (okSchedWins (trace st ops))[i] t ∧ covers (okSchedWins (trace st ops))[j] t)
i.e. the windows of all successful executions tile the time axis, and no instant is covered by two
successful scheduled windows, for ALL histories. -/

/-- **C29_contiguous_partial.** For every history without (non-dry) manual executions carrying an
explicit `start_time`/`end_time` and without a failing record-and-advance (`tameOp`), from any starting
state: the windows of the successful executions form a chain — the first starts at the initial cursor
(if any), each next one starts exactly where the previous one ended (`s_{i+1} = e_i`), and `s_i ≤ e_i`.
Aggregation failures, rejected / dry-run / inactive executions, manual executions from the cursor,
updates, restarts, clock jumps in either direction are all allowed. -/
theorem C29_contiguous_partial (st : State) (ops : List Op) (ht : ∀ op ∈ ops, tameOp op = true) :
    ChainFrom st.lp (okWins (trace st ops)) ∧ Contiguous (okWins (trace st ops)) :=
  ⟨tame_chainFrom ops st ht, chainFrom_contiguous _ _ (tame_chainFrom ops st ht)⟩

example : okWins (trace {src := [⟨0, false⟩]}
    [.sched 7200250000000 .none, .sched 7260000000000 .agg, .manual 7290000000000 .absent .empty false .none,
     .restart 7300000000000, .sched 7320500000000 .none]) = [(3600, 7200), (7200, 7290), (7290, 7320)] := by decide

/-- scheduled successful windows are a sub-sequence of all successful windows -/
theorem okSchedWins_sublist : ∀ evs : List Event, (okSchedWins evs).Sublist (okWins evs)
  | [] => List.Sublist.slnil
  | ev :: evs => by
    have ih := okSchedWins_sublist evs
    simp only [okSchedWins, okWins]
    cases hok : ev.reportedOk <;> cases hw : ev.win <;> cases hk : (ev.kind == Kind.sched) <;>
      simp [ih, List.Sublist.cons]

/-- in a chain, an earlier window ends no later than any later window starts -/
theorem chainFrom_pairwise : ∀ (c : Option Int) (ws : List (Int × Int)), ChainFrom c ws →
    ws.Pairwise (fun a b => a.2 ≤ b.1)
  | _, [], _ => List.Pairwise.nil
  | c, a :: rest, h => by
    obtain ⟨_, _, h2⟩ := h
    refine List.Pairwise.cons ?_ (chainFrom_pairwise _ rest h2)
    intro b hb
    exact (chainFrom_lower a.2 rest h2 b hb).1

/-- **C29_once_partial.** Under the same carve-out no instant is covered by two successful
scheduled windows (nor by any two successful windows): for windows at positions `i < j` of the
sequence actually executed, the earlier one ends no later than the later one starts, so they share no
instant `t`. -/
theorem C29_once_partial (st : State) (ops : List Op) (ht : ∀ op ∈ ops, tameOp op = true) :
    (okSchedWins (trace st ops)).Pairwise (fun a b => a.2 ≤ b.1 ∧ ∀ t, ¬ (covers a t ∧ covers b t)) ∧
    (okWins (trace st ops)).Pairwise (fun a b => a.2 ≤ b.1 ∧ ∀ t, ¬ (covers a t ∧ covers b t)) := by
  have hp := chainFrom_pairwise _ _ (tame_chainFrom ops st ht)
  have hp' : (okWins (trace st ops)).Pairwise (fun a b => a.2 ≤ b.1 ∧ ∀ t, ¬ (covers a t ∧ covers b t)) := by
    refine hp.imp ?_
    intro a b hab
    refine ⟨hab, ?_⟩
    intro t ⟨h1, h2⟩
    unfold covers at h1 h2
    omega
  exact ⟨hp'.sublist (okSchedWins_sublist _), hp'⟩

/-- **C29_sched_contiguous_partial.** With no manual execution in the history (and no record
failure) the successful *scheduled* windows themselves satisfy `s_{i+1} = e_i`. -/
theorem C29_sched_contiguous_partial (st : State) (ops : List Op) (ht : ∀ op ∈ ops, tameOp op = true)
    (hnm : ∀ op ∈ ops, ∀ now s e d f, op ≠ .manual now s e d f) :
    Contiguous (okSchedWins (trace st ops)) := by
  have hEq : ∀ (ops : List Op) (st : State), (∀ op ∈ ops, ∀ now s e d f, op ≠ .manual now s e d f) →
      okSchedWins (trace st ops) = okWins (trace st ops) := by
    intro ops
    induction ops with
    | nil => intro _ _; rfl
    | cons op ops ih =>
      intro st h
      have hk : (step st op).2.reportedOk = true → (step st op).2.kind = .sched := by
        cases op with
        | manual now s e d f => exact absurd rfl (h _ (by simp) now s e d f)
        | sched now f =>
          intro _
          simp only [step]
          by_cases hr : st.running = true
          · by_cases ha : st.active = true
            · simp only [hr, ha, Bool.not_true, Bool.false_eq_true, if_false]
              exact (execWindow_spec st .sched false _ now false f).2.2.2.2.2.2.1
            · simp [hr, ha, plainEvent]
          · simp [hr, plainEvent]
        | update now a i q => simp [step, plainEvent, Event.reportedOk]
        | restart now => simp [step, plainEvent, Event.reportedOk]
        | src t hh => simp [step, plainEvent, Event.reportedOk]
      simp only [trace, okSchedWins, okWins]
      rw [ih _ (fun o ho => h o (by simp [ho]))]
      cases hok : (step st op).2.reportedOk
      · simp
      · simp [hk hok]
  rw [hEq ops st hnm]
  exact (C29_contiguous_partial st ops ht).2

/-! ### witnesses: the carve-out cannot be dropped (each history was replayed on the real handler) -/

/-- one source row so that the aggregation has files to read -/
def w0 : State := { src := [⟨0, false⟩] }

/-- **C29_once_witness** (manual backfill rewinds the cursor). tick, tick, manual `[0,1800)`, tick:
the third tick processes `[1800, 7330)`, which contains the whole second window `[7210, 7270)`;
instant 7250 is covered by two successful scheduled windows. -/
theorem C29_once_witness :
    okSchedWins (trace w0 [.sched 7210000000000 .none, .sched 7270000000000 .none,
        .manual 7280000000000 (.at 0) (.at 1800000000000) false .none, .sched 7330000000000 .none])
      = [(3610, 7210), (7210, 7270), (1800, 7330)] ∧
    covers (7210, 7270) 7250 ∧ covers (1800, 7330) 7250 := by
  refine ⟨by decide, ?_, ?_⟩ <;> (unfold covers; omega)

/-- **C29_contiguous_witness** (manual range ahead of the cursor leaves a gap). tick, manual
`[7240, 7250)`, tick: successful windows `[3610,7210) [7240,7250) [7250,7270)` — the instants
`[7210, 7240)` are processed by nobody, `Contiguous` fails. -/
theorem C29_contiguous_witness :
    okWins (trace w0 [.sched 7210000000000 .none, .manual 7250000000000 (.at 7240000000000) .absent false .none,
        .sched 7270000000000 .none]) = [(3610, 7210), (7240, 7250), (7250, 7270)] ∧
    ¬ Contiguous [(3610, 7210), (7240, 7250), (7250, 7270)] := by
  refine ⟨by decide, ?_⟩
  simp [Contiguous]

/-- **C29_rerun_witness** (rows written, record-and-advance failed). tick ok, tick whose SQLite
transaction fails, tick ok: the second tick wrote its row for `[7210,7270)` and reported completed,
the cursor stayed at 7210, and the third tick processes `[7210,7330)` again. -/
theorem C29_rerun_witness :
    let evs := trace w0 [.sched 7210000000000 .none, .sched 7270000000000 .recUpd, .sched 7330000000000 .none]
    okSchedWins evs = [(3610, 7210), (7210, 7270), (7210, 7330)] ∧
    evs.map (fun ev => (ev.status, ev.rows.length, ev.lpAfter)) =
      [(.completed, 1, some 7210), (.recfailed, 1, some 7210), (.completed, 1, some 7330)] := by
  decide

/-! ## tie to the source: step order and constants regenerated by factgen -/

/-- **C29_source_shape.** The facts factgen extracts from the CURRENT `continuous_query.go` /
`cq_scheduler.go` are the ones the model is built on: look-back constant; in both execution paths the
order validity-check → (dry-run return) → executeAggregation → failed-record on error →
recordExecutionAndUpdateTime; record+advance is one transaction writing `endTime.Format(RFC3339)`;
the only writers of `last_processed_time`; the label expression; the destination write's error is
returned (a rejected write fails the execution); `startTime`/`endTime` are assigned only from the
cursor, the request, or the clock (no clamp / rounding of the window); the scheduler calls `ExecuteCQ`. -/
theorem C29_source_shape :
    Arc.Generated.C29.lookbackNs = hourNs ∧
    Arc.Generated.C29.executeCQSteps =
      ["getQuery", "activeCheck", "cursorOrLookback", "beforeCheck", "executeAggregation", "recordExecution:failed",
       "recordExecutionAndUpdateTime"] ∧
    Arc.Generated.C29.handleExecuteSteps =
      ["getQuery", "activeCheck", "parseStart", "cursorOrLookback", "parseEnd", "beforeCheck", "dryRunReturn",
       "executeAggregation", "recordExecution:failed", "recordExecutionAndUpdateTime"] ∧
    Arc.Generated.C29.recordTx = ["Begin", "defer Rollback", "INSERT continuous_query_executions:startTime.Format(time.RFC3339),endTime.Format(time.RFC3339)",
       "UPDATE last_processed_time:endTime.Format(time.RFC3339)", "Commit"] ∧
    Arc.Generated.C29.cursorWriters = ["recordExecutionAndUpdateTime", "updateLastProcessedTime"] ∧
    Arc.Generated.C29.recordCallers = ["ExecuteCQ", "handleExecute"] ∧
    Arc.Generated.C29.updateLastProcessedTimeCallers = [] ∧
    Arc.Generated.C29.labelExpr = "startTime.UTC().Truncate(time.Second).UnixMicro()" ∧
    Arc.Generated.C29.writeStep = "if err := write; err != nil { return 0, wrap(err) }" ∧
    Arc.Generated.C29.executeCQStartAssigns =
      ["time.Parse(time.RFC3339, *cq.LastProcessedTime)", "startTime.UTC()", "time.Now().UTC().Add(-1 * time.Hour)"] ∧
    Arc.Generated.C29.executeCQEndAssigns = ["time.Now().UTC()"] ∧
    Arc.Generated.C29.handleExecuteStartAssigns =
      ["time.Parse(time.RFC3339, *req.StartTime)", "startTime.UTC()", "time.Parse(time.RFC3339, *cq.LastProcessedTime)",
       "startTime.UTC()", "time.Now().UTC().Add(-1 * time.Hour)"] ∧
    Arc.Generated.C29.handleExecuteEndAssigns =
      ["time.Parse(time.RFC3339, *req.EndTime)", "endTime.UTC()", "time.Now().UTC()"] ∧
    Arc.Generated.C29.windowFormat = "time.RFC3339" ∧
    Arc.Generated.C29.schedulerCalls = ["ExecuteCQ"] := by
  decide

end Arc.C29
