import Arc.Proofs.C07.Basic
import Arc.Generated.C07
/-!
# C07 — Backpressure and storage outages never lose or duplicate acknowledged writes

Model: `Arc/Model/C07.lean` (durability LTS with ghost row ids; code facts = `Arc.Generated.C07.facts`).
A trace is a list of events, each with the harness' observation of which hour files a partial
multi-hour flush managed to write.

The first two clauses FAIL on the current tree (each class replayed on the real code by the harness, see
`props/C07.py`); the third clause holds at full strength since repair C (a6bcf98): `C07_nowal_ack`.
Full statements of the failing clauses, kept visible:

```
theorem C07_no_dup     : ∀ c tr i, cnt (runO c {} tr).stored i ≤ 1
theorem C07_eventually : ∀ c tr, Cov (runO c {} tr)          -- acked ∧ ¬stored → still in memory or in a WAL file
```
Below: `_witness` theorems (concrete traces evaluated on the model instantiated with the GENERATED
facts) and `_partial` theorems under explicit decidable carve-outs on traces.
-/
namespace Arc.C07

abbrev Trace := List (Ev × List Nat)

def runO (c : Cfg) (s : St) : Trace → St
  | [] => s
  | (e, o) :: t => runO c (step c s e o) t

/-- configuration used by the harness (`new wal=1 cc=2 q=1 bm=2 am=601 sa=1802 ra=301 mf=5`), thresholds
derived from the generated constants: `safeAge = max(floor, mult · 600.5 s)` compared with `>`,
`MinFileAge` compared with `<` -/
def cfgGen (wal : Bool) : Cfg :=
  { walOn := wal, chanCap := 2, qCap := 1, bufMax := 2, ageMax := 601,
    safeAge := (max Arc.Generated.C07.safeAgeFloorNs (Arc.Generated.C07.safeAgeMult * 600500000000)) / 1000000000 + 1,
    rotAge := 301, minFileAge := (Arc.Generated.C07.minFileAgeNs + 999999999) / 1000000000,
    facts := Arc.Generated.C07.facts }

/-- the tree before repairs B and C (explicitly named pre-fix configuration) -/
def cfgPre (wal : Bool) : Cfg := { cfgGen wal with facts := Facts.round1 }

/-- the facts the witnesses below were found with; a source change that alters any of them (e.g. a
repair) makes this fail, so the findings are re-examined instead of silently kept -/
theorem C07_facts_current :
    Arc.Generated.C07.facts = Facts.current ∧ (cfgGen true).safeAge = 1802 ∧ (cfgGen true).minFileAge = 5
      ∧ Arc.Generated.C07.hooksBeforeComponents = true ∧ 8 ≤ Arc.Generated.C07.apiWriteCallersChecked := by decide

/-! ## no duplicates -/

def DupFree (s : St) : Prop := ∀ i, cntLS s i ≤ 1

/-- carve-out, per event: ghost ids of a write are fresh; an event that replays WAL files (tick, restart)
finds no row in them that is still in memory or already in Parquet (nor twice in the files) -/
def dupSafe (s : St) : Ev → Bool
  | .write _ rows => rows.all (fun r => decide (cnt rows r.id + cntLS s r.id ≤ 1))
  | .writeT _ _ rows => rows.all (fun r => decide (cnt rows r.id + cntLS s r.id ≤ 1))
  | .tick => (filesRows s.files).all (fun r => decide (phi s r.id ≤ 1))
  | .restart => (filesRows s.files).all (fun r => decide (phi s r.id ≤ 1))
  | .tickF _ => false      -- a replay pass with a rejected callback keeps the file: its replayed rows WILL be replayed again
  | .restartF _ => false
  | _ => true

def carveDup (c : Cfg) (s : St) : Trace → Bool
  | [] => true
  | (e, o) :: t => dupSafe s e && carveDup c (step c s e o) t

theorem cnt_pos_mem {rows : List Row} {i : Nat} (h : 0 < cnt rows i) : ∃ r ∈ rows, r.id = i := by
  unfold cnt at h
  obtain ⟨r, hr, hp⟩ := List.countP_pos_iff.mp h
  exact ⟨r, hr, by simpa using hp⟩

theorem step_dupFree (c : Cfg) (s : St) (e : Ev) (obs : List Nat) (hs : DupFree s) (hc : dupSafe s e = true) :
    DupFree (step c s e obs) := by
  intro i
  have hne : e.injects = false := by
    cases e <;> first | rfl | (simp [dupSafe] at hc)
  have hb := step_cntLS c s e obs i hne
  have h0 := hs i
  by_cases ha : added s e i = 0
  · omega
  · have hpos : 0 < added s e i := Nat.pos_of_ne_zero ha
    cases e with
    | write k rows =>
      obtain ⟨r, hr, hi⟩ := cnt_pos_mem (show 0 < cnt rows i from hpos)
      have := (List.all_eq_true.mp hc) r hr
      simp only [hi, decide_eq_true_eq] at this
      show cntLS (step c s (.write k rows) obs) i ≤ 1
      have hb' : cntLS (step c s (.write k rows) obs) i ≤ cntLS s i + cnt rows i := hb
      omega
    | writeT d k rows =>
      obtain ⟨r, hr, hi⟩ := cnt_pos_mem (show 0 < cnt rows i from hpos)
      have := (List.all_eq_true.mp hc) r hr
      simp only [hi, decide_eq_true_eq] at this
      have hb' : cntLS (step c s (.writeT d k rows) obs) i ≤ cntLS s i + cnt rows i := hb
      omega
    | stall => exact absurd rfl ha
    | tickF n => simp [dupSafe] at hc
    | restartF n => simp [dupSafe] at hc
    | tick =>
      obtain ⟨r, hr, hi⟩ := cnt_pos_mem (show 0 < cnt (filesRows s.files) i from hpos)
      have := (List.all_eq_true.mp hc) r hr
      simp only [hi, decide_eq_true_eq, phi] at this
      have hb' : cntLS (step c s .tick obs) i ≤ cntLS s i + cnt (filesRows s.files) i := hb
      omega
    | restart =>
      obtain ⟨r, hr, hi⟩ := cnt_pos_mem (show 0 < cnt (filesRows s.files) i from hpos)
      have := (List.all_eq_true.mp hc) r hr
      simp only [hi, decide_eq_true_eq, phi] at this
      have hb' : cntLS (step c s .restart obs) i ≤ cntLS s i + cnt (filesRows s.files) i := hb
      omega
    | adv d => exact absurd rfl ha
    | wpause => exact absurd rfl ha
    | wresume => exact absurd rfl ha
    | hold => exact absurd rfl ha
    | unhold => exact absurd rfl ha
    | step1 => exact absurd rfl ha
    | mode m => exact absurd rfl ha
    | ageFlush => exact absurd rfl ha
    | shutdown d => exact absurd rfl ha
    | crash => exact absurd rfl ha

theorem run_dupFree (c : Cfg) (tr : Trace) (s : St) (hs : DupFree s) (hc : carveDup c s tr = true) :
    DupFree (runO c s tr) := by
  induction tr generalizing s with
  | nil => exact hs
  | cons x t ih =>
    obtain ⟨e, o⟩ := x
    simp only [carveDup, Bool.and_eq_true] at hc
    exact ih _ (step_dupFree c s e o hs hc.1) hc.2

theorem dupFree_init : DupFree {} := by
  intro i; simp [cntLS, liveRows, bufRows, taskRows, optRows, cnt]

/-- **no_dup, partial**: for every configuration, all code facts and every trace (any interleaving of
writes, saturation, failures, rotation, ticks, shutdown, crash, restart): if no replaying event finds an
already stored / still buffered row in the WAL files it replays (and ghost ids are fresh), every row is in
Parquet at most once — and at most once in memory ∪ Parquet. -/
theorem C07_no_dup_partial (c : Cfg) (tr : Trace) (hc : carveDup c {} tr = true) (i : Nat) :
    cnt (runO c {} tr).stored i ≤ 1 := by
  have h := run_dupFree c tr {} dupFree_init hc i
  simp only [cntLS_eq] at h
  omega

def r (i h : Nat) : Row := ⟨i, h⟩
def noObs (es : List Ev) : Trace := es.map (fun e => (e, []))

/-- (d) rows 1,2 flushed fine, rows 3,4 hit an outage (flag), the WAL file rotates, the tick replays the
whole file: rows 1,2 are written to Parquet a second time -/
def traceDup : Trace := noObs [.restart, .write 0 [r 1 0, r 2 0], .mode (some 0), .write 1 [r 3 0, r 4 0],
  .mode none, .adv 310, .write 0 [r 5 0], .adv 10, .tick]

theorem C07_no_dup_witness : cnt (runO (cfgGen true) {} traceDup).stored 1 = 2 := by decide

/-- (d2) partial multi-hour flush: hour 0 written, hour 1 fails; replay re-stores the hour-0 row -/
def traceDupPartial : Trace :=
  [(.restart, []), (.mode (some 1), []), (.write 0 [r 1 0, r 2 1], [0]), (.mode none, []), (.adv 310, []),
   (.write 1 [r 3 0], []), (.adv 10, []), (.tick, [])]

theorem C07_no_dup_witness_partial_flush : cnt (runO (cfgGen true) {} traceDupPartial).stored 1 = 2 := by decide

-- non-vacuity of the carve-out: an outage whose rows are all replayed exactly once
example : carveDup (cfgGen true) {} (noObs [.restart, .mode (some 0), .write 0 [r 1 0, r 2 0],
    .adv 310, .write 1 [r 3 0, r 4 0], .mode none, .adv 10, .tick]) = true
  ∧ cnt (runO (cfgGen true) {} (noObs [.restart, .mode (some 0), .write 0 [r 1 0, r 2 0],
    .adv 310, .write 1 [r 3 0, r 4 0], .mode none, .adv 10, .tick])).stored 1 = 1 := by decide
-- the write that triggers the rotation is itself in the rotated file: replay re-buffers row 3 while its
-- first copy is still buffered
example : carveDup (cfgGen true) {} (noObs [.restart, .mode (some 0), .write 0 [r 1 0, r 2 0], .mode none,
    .adv 310, .write 1 [r 3 0], .adv 10, .tick]) = false := by decide
example : carveDup (cfgGen true) {} traceDup = false := by decide

/-! ## eventually stored (as a safety invariant) -/

/-- every acknowledged row has a copy somewhere: Parquet, memory (buffer, queue, in flight) or a WAL file
that is still on disk / the WAL channel -/
def Cov (s : St) : Prop := ∀ i ∈ s.acked, 0 < tot s i

/-- the event removes the last copy of an acknowledged row that never reached Parquet (or acknowledges a
row of which no copy is kept) -/
def lossy (c : Cfg) (s : St) (e : Ev) (obs : List Nat) : Bool :=
  (step c s e obs).acked.any (fun i => tot (step c s e obs) i == 0 && (decide (0 < tot s i) || !s.acked.contains i))

def carveLoss (c : Cfg) (s : St) : Trace → Bool
  | [] => true
  | (e, o) :: t => !lossy c s e o && carveLoss c (step c s e o) t

theorem step_cov (c : Cfg) (s : St) (e : Ev) (obs : List Nat) (hs : Cov s) (hc : lossy c s e obs = false) :
    Cov (step c s e obs) := by
  intro i hi
  apply Nat.pos_of_ne_zero
  intro hz
  have : lossy c s e obs = true := by
    unfold lossy
    apply List.any_eq_true.mpr
    refine ⟨i, hi, ?_⟩
    by_cases hm : i ∈ s.acked
    · have := hs i hm
      simp [hz, this]
    · simp [hz, hm]
  rw [hc] at this
  exact Bool.noConfusion this

/-- **eventually, partial**: along every trace without a `lossy` event every acknowledged row that is not
in Parquet is still in memory or in the WAL.  (Which events are lossy on the current tree: the witnesses.) -/
theorem C07_eventually_partial (c : Cfg) (tr : Trace) (hc : carveLoss c {} tr = true) :
    Cov (runO c {} tr) := by
  have key : ∀ (tr : Trace) (s : St), Cov s → carveLoss c s tr = true → Cov (runO c s tr) := by
    intro tr
    induction tr with
    | nil => intro s hs _; exact hs
    | cons x t ih =>
      intro s hs hc
      obtain ⟨e, o⟩ := x
      simp only [carveLoss, Bool.and_eq_true, Bool.not_eq_true'] at hc
      exact ih _ (step_cov c s e o hs hc.1) hc.2
  exact key tr {} (by intro i hi; simp at hi) hc

/-- row `i` was acknowledged and no copy of it exists anywhere at the end of the trace -/
def lostIn (c : Cfg) (tr : Trace) (i : Nat) : Bool :=
  (runO c {} tr).acked.contains i && tot (runO c {} tr) i == 0

/-- the tree between repairs B/C and 945541f (named pre-fix configuration) -/
def cfgPre945 (wal : Bool) : Cfg := { cfgGen wal with facts := Facts.pre945 }

/-- **pending failure ⇒ no age purge (945541f), full strength**: for every configuration carrying the
generated facts and every state with the flush-failure flag up, the maintenance tick is exactly "replay
every old-enough rotated file, then clear the flag": no file leaves the disk without its entries having
been handed to the buffer (classes (b′) and (c): outage or overflow longer than safeAge). -/
theorem C07_pending_failure_tick_never_age_purges (c : Cfg) (hf : c.facts = Arc.Generated.C07.facts)
    (hw : c.walOn = true) (s : St) (hs : s.flag = true) :
    tick c s = { replayFiles c c.minFileAge s with flag := false } := by
  have h : c.facts.tickFlag = [.replay, .reset] := by rw [hf]; decide
  unfold tick
  simp [hw, hs, h, tickAct]

/-- (b′) queue-full drop with the WAL on: rows 5,6 are acknowledged and only in the WAL; the flag is
raised (repair B), no tick comes before the rotated file is older than safeAge -/
def traceQueueFull : Trace := noObs [.restart, .hold, .write 0 [r 1 0, r 2 0], .write 0 [r 3 0, r 4 0],
  .write 0 [r 5 0, r 6 0], .unhold, .adv 310, .write 1 [r 7 0], .adv 1810, .tick]
/-- history: before 945541f the flag branch purged first and rows 5,6 were lost; now they are replayed and
stored exactly once -/
theorem C07_queue_full_long_gap_fixed :
    lostIn (cfgPre945 true) traceQueueFull 5 = true ∧ lostIn (cfgGen true) traceQueueFull 5 = false
      ∧ cnt (runO (cfgGen true) {} traceQueueFull).stored 5 = 1 := by decide

/-- (b) same overflow, the tick comes in time (file rotated, younger than safeAge), then a graceful
shutdown -/
def traceQueueFullShort : Trace := noObs [.restart, .hold, .write 0 [r 1 0, r 2 0], .write 0 [r 3 0, r 4 0],
  .write 0 [r 5 0, r 6 0], .unhold, .adv 310, .write 1 [r 7 0], .adv 10, .tick, .shutdown 0]
/-- effect of repair B (52926d5): on the pre-fix tree the overflowed rows are never replayed and the
shutdown purge removes their last copy; on the current tree the tick replays them -/
theorem C07_queue_full_flag_effect :
    lostIn (cfgPre true) traceQueueFullShort 5 = true ∧ lostIn (cfgGen true) traceQueueFullShort 5 = false
      ∧ cnt (runO (cfgGen true) {} traceQueueFullShort).stored 5 = 1 := by decide

/-- (c) outage longer than safeAge, then a tick -/
def traceLongOutage : Trace := noObs [.restart, .mode (some 0), .write 0 [r 1 0, r 2 0], .adv 310,
  .write 1 [r 3 0], .adv 1810, .mode none, .tick]
/-- history: before 945541f the tick purged the rotated file before replaying it; now rows 1,2 are stored -/
theorem C07_long_outage_fixed :
    lostIn (cfgPre945 true) traceLongOutage 1 = true ∧ lostIn (cfgGen true) traceLongOutage 1 = false
      ∧ cnt (runO (cfgGen true) {} traceLongOutage).stored 1 = 1 := by decide

/-- (e) graceful shutdown: the purge hook runs before `ArrowBuffer.Close`, whose final flush fails -/
def traceShutdown : Trace := noObs [.restart, .write 0 [r 1 0], .mode (some 0), .shutdown 0]
theorem C07_eventually_witness_shutdown_purge : lostIn (cfgGen true) traceShutdown 1 = true := by decide

/-- (f) `Close()` drops the queued task (rows 3,4); the WAL has been purged -/
def traceCloseDrop : Trace := noObs [.restart, .hold, .write 0 [r 1 0, r 2 0], .write 0 [r 3 0, r 4 0], .shutdown 0]
theorem C07_eventually_witness_close_drops_queue : lostIn (cfgGen true) traceCloseDrop 3 = true := by decide

/-- (g) WAL channel full: the entry of row 3 is dropped, then the flush of its buffer fails -/
def traceWalDrop : Trace := noObs [.restart, .wpause, .write 0 [r 1 0], .write 1 [r 2 0], .mode (some 0),
  .write 0 [r 3 0], .wresume]
theorem C07_eventually_witness_wal_drop : lostIn (cfgGen true) traceWalDrop 3 = true := by decide

/-- (h) the failed rows sit in the ACTIVE file, periodic replay skips it and the tick still clears the flag -/
def traceFlagReset : Trace := noObs [.restart, .mode (some 0), .write 0 [r 1 0, r 2 0], .mode none, .adv 10, .tick,
  .adv 310, .write 1 [r 3 0], .adv 1810, .tick]
theorem C07_eventually_witness_flag_reset : lostIn (cfgGen true) traceFlagReset 1 = true := by decide

/-- (i) replay while the outage lasts: the file is deleted after re-buffering, the re-flush fails -/
def traceReplayOutage : Trace := noObs [.restart, .mode (some 0), .write 0 [r 1 0, r 2 0], .adv 310,
  .write 1 [r 3 0], .adv 10, .tick]
theorem C07_eventually_witness_replay_during_outage : lostIn (cfgGen true) traceReplayOutage 1 = true := by decide

-- non-vacuity of the carve-out: outage, rotation, replay by the tick — nothing lossy, row 1 ends in Parquet
example : carveLoss (cfgGen true) {} (noObs [.restart, .mode (some 0), .write 0 [r 1 0, r 2 0], .mode none,
    .adv 310, .write 1 [r 3 0], .adv 10, .tick]) = true := by decide
example : carveLoss (cfgGen true) {} traceShutdown = false := by decide

/-- time passing, stalling the WAL writer, parking the worker and switching the storage mode never lose
anything by themselves -/
theorem C07_eventually_benign_events (c : Cfg) (s : St) (obs : List Nat) (e : Ev)
    (he : (∃ d, e = .adv d) ∨ e = .hold ∨ e = .wpause ∨ (∃ m, e = .mode m)) (hs : Cov s) :
    Cov (step c s e obs) := by
  have frame : ∀ s' : St, s'.bufs = s.bufs → s'.queue = s.queue → s'.inflight = s.inflight → s'.stored = s.stored →
      s'.chan = s.chan → s'.active = s.active → s'.activeLinked = s.activeLinked → s'.files = s.files →
      s'.acked = s.acked → Cov s' := by
    intro s' h1 h2 h3 h4 h5 h6 h7 h8 h9 i hi
    have := hs i (h9 ▸ hi)
    simpa [tot, cntLS, liveRows, walRows, activeRows, h1, h2, h3, h4, h5, h6, h7, h8] using this
  rcases he with ⟨d, rfl⟩ | rfl | rfl | ⟨m, rfl⟩
  · exact frame _ rfl rfl rfl rfl rfl rfl rfl rfl rfl
  · show Cov (if s.up then stepUp c (begin s obs 1) .hold else begin s obs 0)
    split <;> exact frame _ rfl rfl rfl rfl rfl rfl rfl rfl rfl
  · show Cov (if s.up then stepUp c (begin s obs 1) .wpause else begin s obs 0)
    split <;> exact frame _ rfl rfl rfl rfl rfl rfl rfl rfl rfl
  · exact frame _ rfl rfl rfl rfl rfl rfl rfl rfl rfl

/-- mixed-format file (columnar entry of rows 1,2, row-format entry of rows 3,4, columnar entry of row 5),
flush failures, rotation; the tick's replay pass has its first callback invocation rejected -/
def traceReplayReject : Trace := noObs [.restart, .mode (some 0), .write 0 [r 1 0, r 2 0], .writeT true 1 [r 3 0, r 4 0],
  .adv 310, .write 0 [r 5 0], .mode none, .adv 10, .tickF 0]

/-- **a WAL file is deleted by a replay pass only if every entry of it was replayed**: after the rejected
columnar entry the later row / columnar entries are replayed, and the file — rows 1,2 included — is still
on disk (`RecoverWithOptions`: `allEntriesSucceeded` stays false) -/
theorem C07_replay_keeps_file_of_rejected_entry :
    cnt (filesRows (runO (cfgGen true) {} traceReplayReject).files) 1 = 1
      ∧ 0 < cntLS (runO (cfgGen true) {} traceReplayReject) 3
      ∧ lostIn (cfgGen true) traceReplayReject 1 = false := by decide

/-- the same at start-up recovery -/
theorem C07_restart_keeps_file_of_rejected_entry :
    cnt (filesRows (runO (cfgGen true) {} (noObs [.restart, .mode (some 0), .write 0 [r 1 0, r 2 0],
      .writeT true 1 [r 3 0, r 4 0], .crash, .mode none, .restartF 0])).files) 1 = 1 := by decide

/-! ## WAL disabled: a dropped write is not acknowledged -/

/-- **nowal_ack, FULL strength** (current tree, facts regenerated): for every configuration carrying the
generated facts with the WAL disabled, every state, every write path (0 generic columnar, 1 typed msgpack
decode, 2 `WriteTypedColumnarDirect`), every key and batch: a write that is acknowledged did not take the
queue-full arm of `tryEnqueueFlush`, i.e. its rows were buffered or handed to the flush queue. -/
theorem C07_nowal_ack (c : Cfg) (hf : c.facts = Arc.Generated.C07.facts) (hw : c.walOn = false)
    (s : St) (path k : Nat) (rows : List Row) (ha : (writeP c s path k rows).lastAck = true) :
    (writeP c s path k rows).lastFull = false := by
  have hrep : reportsOn c path = true := by
    unfold reportsOn reportsFull reportsFullTyped; rw [hf, hw]; split <;> decide
  unfold writeP finishWrite at ha ⊢
  simp only [ackOf, hrep, Bool.and_true, Bool.not_eq_true'] at ha
  simpa using ha

/-- the same for any facts that report the drop on that path -/
theorem C07_nowal_ack_of_reports (c : Cfg) (s : St) (path k : Nat) (rows : List Row) (hr : reportsOn c path = true)
    (ha : (writeP c s path k rows).lastAck = true) : (writeP c s path k rows).lastFull = false := by
  unfold writeP finishWrite at ha ⊢
  simp only [ackOf, hr, Bool.and_true, Bool.not_eq_true'] at ha
  simpa using ha

/-- (a) WAL disabled, queue saturated: rows 5,6 are dropped by `tryEnqueueFlush` -/
def traceNoWal : Trace := noObs [.restart, .hold, .write 0 [r 1 0, r 2 0], .write 0 [r 3 0, r 4 0], .write 0 [r 5 0, r 6 0]]

/-- pre-fix tree (before a6bcf98): the dropped write was acknowledged (204) and its rows exist nowhere;
current tree: the same write is refused -/
theorem C07_nowal_ack_prefix_witness :
    ((runO (cfgPre false) {} traceNoWal).lastAck = true ∧ (runO (cfgPre false) {} traceNoWal).lastFull = true
      ∧ lostIn (cfgPre false) traceNoWal 5 = true)
    ∧ ((runO (cfgGen false) {} traceNoWal).lastAck = false ∧ (runO (cfgGen false) {} traceNoWal).lastFull = true
      ∧ (runO (cfgGen false) {} traceNoWal).acked.contains 5 = false) := by decide

-- non-vacuity: acknowledged writes on the generic and on the typed path in the generated WAL-off configuration
example : (runO (cfgGen false) {} (noObs [.restart, .write 0 [r 1 0, r 2 0]])).lastAck = true
    ∧ (runO (cfgGen false) {} (noObs [.restart, .writeT true 0 [r 1 0, r 2 0]])).lastAck = true := by decide

/-- the typed path under saturation with the WAL disabled: refused, nothing acknowledged is lost -/
def traceNoWalTyped : Trace := noObs [.restart, .hold, .writeT false 0 [r 1 0, r 2 0], .writeT true 0 [r 3 0, r 4 0],
  .writeT false 0 [r 5 0, r 6 0], .writeT true 0 [r 7 0, r 8 0]]
theorem C07_nowal_ack_typed_paths :
    (runO (cfgGen false) {} traceNoWalTyped).lastAck = false
      ∧ (runO (cfgGen false) {} traceNoWalTyped).acked = [1, 2, 3, 4] := by decide

/-- a stalled storage write (flush deadline exceeded) on the worker path raises the flag like an error
does, so the tick replays the rows: stored exactly once -/
def traceStall : Trace := noObs [.restart, .stall, .write 0 [r 1 0, r 2 0], .adv 310, .write 1 [r 3 0, r 4 0],
  .mode none, .adv 10, .tick]
theorem C07_stall_flags_and_replays :
    (runO (cfgGen true) {} (traceStall.take 3)).flag = true
      ∧ cnt (runO (cfgGen true) {} traceStall).stored 1 = 1 := by decide

/-! ## what the small repairs buy (facts edited, same traces) -/

/-- the repair NOT applied (fix-1): purge after the buffer close, skipped while the flag is up; Close raises
the flag when it drops queued tasks -/
def Facts.repaired : Facts :=
  { Facts.current with shutdown := [.bufClose, .purgeAll, .walClose], purgeGuardedByFlag := true,
                       closeDropSetsFlag := true }

def cfgRep (wal : Bool) : Cfg := { cfgGen wal with facts := Facts.repaired }

/-- fix-1 would stop the shutdown losses (e) (f) — the kept WAL is replayed at restart (duplicates of what
had been stored); (h) (i) remain: they need the purge / delete-after-replay to depend on what reached Parquet -/
theorem C07_repairs_effect :
    lostIn (cfgRep true) traceShutdown 1 = false ∧ lostIn (cfgRep true) traceCloseDrop 3 = false
      ∧ lostIn (cfgRep true) traceFlagReset 1 = true ∧ lostIn (cfgRep true) traceReplayOutage 1 = true := by decide

end Arc.C07
