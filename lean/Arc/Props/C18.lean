/-
C18 — "Partition pruning never changes query results"   (model re-synced to /repo b2903b5).

FULL STATEMENT (still false of the source in three classes — kept here, each with a machine-checked witness):

  theorem C18_full (now : Int) (σ : Valuation) (p : Pred) (ds : Dataset) (hwp : WellPlaced ds) :
      runPruned now σ p ds = runFull now σ p ds
  -- cached form:  runCached now σ p ds0 ds = runFull now σ p ds   (ds0 = data set when the plan was cached)

Proved, for all integer times, all data sets, all valuations of the non-time conditions:
  * C18_paths_cover / _cover_trunc / _sound — the generated hour and day paths are exactly the hours `h` with
    `max(trunc start, minPartitionDate) ≤ h·1h < end` (`≤ end` when EndInclusive) and their days (cap not firing);
  * C18_partial — for EVERY WHERE clause (AND / OR / NOT / subqueries, any columns, any operators, any literal format,
    NOW() ± INTERVAL in any unit) the pruned query returns exactly the rows of the unpruned query, provided the data
    lies inside the bounds the pruner still assumes: no row before minPartitionDate (1970) and, when the WHERE clause
    has no upper time bound, no row at or after now + 24 h;
  * C18_join_exact / C18_union_exact — multi-table statements are never pruned;
  * C18_cached_partial — the same statement issued again inside the cache TTL stays exact if the post-compaction hook
    ran (regenerated facts) or no NEW partition appeared;
  * witnesses for the three classes that remain: data before minPartitionDate, start-only predicate with data after
    now + 24 h, plan cached across a partition created by a flush;
  * history: the counterexamples of the nine repaired classes (OR, NOT, `<=`/BETWEEN bound on the hour, end-only with
    data before 2020, column name ending in `time`, subquery, JOIN, UNION, NOW() − INTERVAL 'n months' at month ends)
    are kept as `example`s stating that the repaired model now returns the full result on exactly those inputs;
  * C18_*_tied — the regenerated regex literals / constants / loop shape / unit table / call-site facts are the ones
    the model was written for.
-/
import Arc.Model.C18
import Arc.Proofs.C18.Basic
namespace Arc.C18
open Arc.Generated.C18

/-! ## ties to the regenerated facts -/

theorem C18_constants_tied :
    HOUR = hourNs ∧ DAY = 24 * HOUR ∧ minPartitionDateNs % HOUR = 0 ∧ minPartitionDateNs ≤ defaultStartNs ∧
    0 < startOnlyAddNs ∧ 0 < maxPartitionPaths ∧
    partitionCacheTTLNs ≤ transformCacheTTLNs ∧ globCacheTTLNs ≤ transformCacheTTLNs ∧
    defaultStartNs = minPartitionDateNs ∧ defaultStartIsFloor = true := by decide

/-- The model's reading of the regexes (header of Model/C18.lean) was written for exactly these literals. -/
theorem C18_regex_tied :
    startTimePatterns = ["(?i)\\btime\\s*>=\\s*'([^']+)'", "(?i)\\btime\\s*>\\s*'([^']+)'",
                         "(?i)\\btimestamp\\s*>=\\s*'([^']+)'", "(?i)\\btimestamp\\s*>\\s*'([^']+)'"] ∧
    endTimePatterns = ["(?i)\\btime\\s*<\\s*'([^']+)'", "(?i)\\btime\\s*<=\\s*'([^']+)'",
                       "(?i)\\btimestamp\\s*<\\s*'([^']+)'", "(?i)\\btimestamp\\s*<=\\s*'([^']+)'"] ∧
    betweenPattern = "(?i)\\btime\\s+BETWEEN\\s+'([^']+)'\\s+AND\\s+'([^']+)'" ∧
    relativePatterns =
      ["(?i)\\btime\\s*>=?\\s*(?:NOW\\s*\\(\\s*\\)|CURRENT_TIMESTAMP)\\s*-\\s*INTERVAL\\s*'(\\d+)\\s*(second|seconds|minute|minutes|hour|hours|day|days|week|weeks|month|months)'",
       "(?i)\\btime\\s*>=?\\s*(?:NOW\\s*\\(\\s*\\)|CURRENT_TIMESTAMP)\\s*\\+\\s*INTERVAL\\s*'(\\d+)\\s*(second|seconds|minute|minutes|hour|hours|day|days|week|weeks|month|months)'",
       "(?i)\\btime\\s*<=?\\s*(?:NOW\\s*\\(\\s*\\)|CURRENT_TIMESTAMP)\\s*-\\s*INTERVAL\\s*'(\\d+)\\s*(second|seconds|minute|minutes|hour|hours|day|days|week|weeks|month|months)'",
       "(?i)\\btime\\s*<=?\\s*(?:NOW\\s*\\(\\s*\\)|CURRENT_TIMESTAMP)\\s*\\+\\s*INTERVAL\\s*'(\\d+)\\s*(second|seconds|minute|minutes|hour|hours|day|days|week|weeks|month|months)'"] ∧
    whereClausePattern = "(?i)\\bWHERE\\b\\s+([\\s\\S]+?)(?:\\bGROUP BY\\b|\\bORDER BY\\b|\\bLIMIT\\b|$)" ∧
    multiTablePattern = "(?i)\\b(?:JOIN|UNION|INTERSECT|EXCEPT)\\b" ∧ selectPattern = "(?i)\\bSELECT\\b" ∧
    disjunctionPattern = "(?i)\\b(?:OR|NOT)\\b" ∧
    extractOrder = ["multiTablePattern", "selectPattern", "whereClausePattern", "disjunctionPattern",
                    "startTimePatterns", "endTimePatterns", "betweenPattern",
                    "relativeStartSubtractPattern", "relativeStartAddPattern",
                    "relativeEndSubtractPattern", "relativeEndAddPattern"] ∧
    extractBreaks = 2 ∧ extractNilGuards = 4 ∧
    parseLayouts = ["2006-01-02T15:04:05Z07:00", "2006-01-02T15:04:05.999999999Z07:00", "2006-01-02 15:04:05",
                    "2006-01-02 15:04", "2006-01-02", "2006/01/02 15:04:05", "2006/01/02"] ∧
    parseConvertsToUTC = true :=
  ⟨rfl, rfl, rfl, rfl, rfl, rfl, rfl, rfl, rfl, rfl, rfl, rfl, rfl⟩

/-- loop shape, EndInclusive rules (`<` literal pattern ⇒ exclusive; `<=`, BETWEEN, relative, none ⇒ inclusive) and
    the two bail-outs of ExtractTimeRange. -/
theorem C18_loop_tied :
    loopInit = "timeRange.Start.Truncate(time.Hour)" ∧
    loopCond = "current.Before(end) || (timeRange.EndInclusive && current.Equal(end))" ∧
    loopStep = "current.Add(time.Hour)" ∧
    clampStmt = "current.Before(minPartitionDate) => current = minPartitionDate" ∧
    hourlyExpr = "int64((span + time.Hour - 1) / time.Hour)" ∧ dailyExpr = "hourlyPaths/24 + 1" ∧
    dayLevelPaths = true ∧ emptyFallbacks = 2 ∧ partitionCacheConsultedFirst = true ∧
    endInclusiveRules = ["endInclusive := false", "endInclusive = i%2 == 1", "endInclusive = true",
                         "endInclusive = true"] ∧
    bailsOnMultiTable = true ∧ bailsOnOrNot = true := by decide

/-- unit → arithmetic table of `evaluateRelativeTime` the model's `relGo` was written for: second/minute/hour are
    fixed Durations, day/week are `AddDate` days (= n·24 h in UTC), month is CALENDAR-month `AddDate(0, n, 0)` pulled
    back to the target month's last day on overflow, as DuckDB does (no `year` unit: the regexes do not recognise it). -/
theorem C18_relative_units_tied :
    relativeUnits = ["second => now.Add(time.Duration(n) * time.Second)",
                     "minute => now.Add(time.Duration(n) * time.Minute)",
                     "hour => now.Add(time.Duration(n) * time.Hour)",
                     "day => now.AddDate(0, 0, n)", "week => now.AddDate(0, 0, n*7)",
                     "month => t := now.AddDate(0, n, 0); if t.Day() != now.Day() { t = t.AddDate(0, 0, -t.Day()) }; return t, nil"] := by
  decide

/-- query.go prunes every table reference with the text of the whole statement (harmless now that multi-table
    statements are not pruned); nothing on the ingest/flush path invalidates the pruner / transform caches. -/
theorem C18_call_sites_tied :
    prunesWithWholeStatement = true ∧ optimizeSqlArgs.length = 2 ∧ ingestInvalidations = 0 ∧
    compactionCallsInvalidate = true := by decide

/-! ## (1) generated paths -/

/-- every instant in `[start, end)` (not before `minPartitionDate`) has its hour partition AND its day partition
    among the generated paths — for all integer times, whatever EndInclusive is. -/
theorem C18_paths_cover (s e t : Int) (incl : Bool) (ps : Paths) (h : generatePaths s e incl = some ps)
    (hs : s ≤ t) (he : t < e) (hm : minPartitionDateNs ≤ t) :
    hourOf t ∈ ps.hours ∧ dayOf t ∈ ps.days := by
  apply paths_cover_trunc C18_constants_tied.2.2.1 s e t incl ps h hs _ hm
  cases incl <;> simp only [loopEnd, HOUR, ↓reduceIte, Bool.false_eq_true] at * <;> omega

/-- sharper: it is enough that the HOUR of `t` starts before `end` — or AT `end` when the bound is inclusive
    (`time <= b`, BETWEEN): the row exactly at `b` lives in the hour that starts at `b`. -/
theorem C18_paths_cover_trunc (s e t : Int) (incl : Bool) (ps : Paths) (h : generatePaths s e incl = some ps)
    (hs : s ≤ t) (he : truncHour t < e ∨ (incl = true ∧ truncHour t ≤ e)) (hm : minPartitionDateNs ≤ t) :
    hourOf t ∈ ps.hours ∧ dayOf t ∈ ps.days := by
  apply paths_cover_trunc C18_constants_tied.2.2.1 s e t incl ps h hs _ hm
  rcases he with he | ⟨hi, he⟩
  · cases incl <;> simp only [loopEnd, truncHour, HOUR, ↓reduceIte, Bool.false_eq_true] at * <;> omega
  · subst hi; simp only [loopEnd, truncHour, HOUR, ↓reduceIte] at *; omega

/-- nothing else is generated: pruning really prunes. -/
theorem C18_paths_sound (s e h : Int) (incl : Bool) (ps : Paths) (hg : generatePaths s e incl = some ps)
    (hm : h ∈ ps.hours) : startOf s ≤ h * HOUR ∧ h * HOUR < loopEnd e incl := by
  unfold generatePaths at hg
  simp only [] at hg
  split at hg
  · cases hg
  · injection hg with hg
    subst hg
    exact loop_sound _ _ _ _ (startOf_aligned C18_constants_tied.2.2.1 s) hm

example : generatePaths 1710498600000000000 1710505800000000000 =
    some { hours := [475138, 475139, 475140], days := [19797] } := by decide
/-- the inclusive bound adds exactly the hour that starts at `end` -/
example : generatePaths 1710496800000000000 1710500400000000000 true =
    some { hours := [475138, 475139], days := [19797] } ∧
    generatePaths 1710496800000000000 1710500400000000000 false =
    some { hours := [475138], days := [19797] } := by decide

/-! ## (2) pruning is exact for every WHERE clause, data inside the assumed bounds -/

/-- the data lies inside the bounds the pruner assumes: nothing before minPartitionDate; nothing at/after
    now + 24 h when the statement is prunable and has no upper time bound. -/
def dataOK (now : Int) (p : Pred) (ds : Dataset) : Bool :=
  (rowsOf ds).all fun r =>
    decide (minPartitionDateNs ≤ r.time) &&
    (!p.plainConj || (endBound now p.text).isSome || decide (r.time < now + startOnlyAddNs))

/-- whatever the pruner reads, DuckDB reads the same instant (all literal formats Go accepts; every unit). -/
theorem go_eq_db {now : Int} {r : Rhs} {s : Int} (h : r.go now = some s) : r.db now = s := by
  cases r with
  | lit l =>
    simp only [Rhs.go] at h
    simp only [Rhs.db]
    have : l.db = some s := by
      unfold Lit.go at h
      unfold Lit.db
      split at h <;> simp_all
    simp [this]
  | rel p n u cs =>
    simp only [Rhs.go] at h
    cases cs with
    | true => simp at h
    | false =>
      simp only [Bool.false_eq_true, if_false, Option.some.injEq] at h
      subst h
      cases u <;> rfl
  | num k => simp [Rhs.go] at h

theorem conj_atoms_true {now : Int} {σ : Valuation} {r : Row} :
    ∀ {p : Pred}, p.plainConj = true → p.eval now σ r = true → ∀ b ∈ p.text, b.eval now σ r = true := by
  intro p
  induction p with
  | atom a =>
    intro hs he b hb
    cases a with
    | base b0 =>
      simp only [Pred.text, Atom.text, List.mem_singleton] at hb
      subst hb
      simpa [Pred.eval, Atom.eval] using he
    | sub k inner => simp [Pred.plainConj] at hs
  | and p q ihp ihq =>
    intro hs he b hb
    simp only [Pred.plainConj, Bool.and_eq_true] at hs
    simp only [Pred.eval, Bool.and_eq_true] at he
    simp only [Pred.text, List.mem_append] at hb
    rcases hb with hb | hb
    · exact ihp hs.1 he.1 b hb
    · exact ihq hs.2 he.2 b hb
  | or p q _ _ => intro hs; simp [Pred.plainConj] at hs
  | not p _ => intro hs; simp [Pred.plainConj] at hs

/-- a column the patterns see is the partition column. -/
theorem visible_is_time {c : Col} (h : c.endsInTime = true ∨ c.endsInTimestamp = true) : c = .time := by
  cases c <;> simp_all [Col.endsInTime, Col.endsInTimestamp]

theorem cmp_sound_start {now : Int} {σ : Valuation} {row : Row} {c : Col} {op : Cmp} {r : Rhs} {s : Int}
    (hev : (BAtom.cmp c op r).eval now σ row = true)
    (hvis : c.endsInTime = true ∨ c.endsInTimestamp = true)
    (hop : op = .ge ∨ op = .gt) (hgo : r.go now = some s) : s ≤ row.time := by
  have hc := visible_is_time hvis
  subst hc
  have hdb := go_eq_db hgo
  simp only [BAtom.eval, Col.val, hdb] at hev
  rcases hop with h | h <;> subst h <;> simp only [Cmp.holds, decide_eq_true_eq] at hev <;> omega

/-- `<` gives `t < e`, `<=` gives `t ≤ e`. -/
theorem cmp_sound_end {now : Int} {σ : Valuation} {row : Row} {c : Col} {op : Cmp} {r : Rhs} {e : Int}
    (hev : (BAtom.cmp c op r).eval now σ row = true)
    (hvis : c.endsInTime = true ∨ c.endsInTimestamp = true)
    (hop : op = .lt ∨ op = .le) (hgo : r.go now = some e) :
    row.time ≤ e ∧ (op = .lt → row.time < e) := by
  have hc := visible_is_time hvis
  subst hc
  have hdb := go_eq_db hgo
  simp only [BAtom.eval, Col.val, hdb] at hev
  rcases hop with h | h <;> subst h <;> simp only [Cmp.holds, decide_eq_true_eq] at hev
  · exact ⟨by omega, fun _ => hev⟩
  · exact ⟨hev, fun h => by cases h⟩

theorem start_sound {now : Int} {σ : Valuation} {row : Row} {txt : List BAtom} {s : Int}
    (hall : ∀ b ∈ txt, b.eval now σ row = true)
    (h : startBound now txt = some s) : s ≤ row.time := by
  unfold startBound at h
  split at h
  · rename_i a b hb
    simp only [Option.some.injEq] at h
    subst h
    obtain ⟨c, l1, l2, hm, hc, h1, _⟩ := betweenPat_some hb
    have hev := hall _ hm
    have hct := visible_is_time (Or.inl hc)
    subst hct
    have hdb : (Rhs.lit l1).db now = a := go_eq_db (by simpa [Rhs.go] using h1)
    simp only [BAtom.eval, Col.val, Bool.and_eq_true, hdb] at hev
    exact of_decide_eq_true hev.1
  · have hmem := firstSome_some h
    simp only [List.mem_cons, List.mem_nil_iff, or_false] at hmem
    rcases hmem with hmem | hmem | hmem
    · have hmem2 := firstSome_some (l := [_, _, _, _]) hmem.symm
      simp only [List.mem_cons, List.mem_nil_iff, or_false] at hmem2
      rcases hmem2 with h1 | h1 | h1 | h1
      all_goals
        obtain ⟨c, l, hm, hc, hgo⟩ := absPat_some h1.symm
        have hev := hall _ hm
        first
          | exact cmp_sound_start hev (Or.inl hc) (Or.inl rfl) (by simpa [Rhs.go] using hgo)
          | exact cmp_sound_start hev (Or.inl hc) (Or.inr rfl) (by simpa [Rhs.go] using hgo)
          | exact cmp_sound_start hev (Or.inr hc) (Or.inl rfl) (by simpa [Rhs.go] using hgo)
          | exact cmp_sound_start hev (Or.inr hc) (Or.inr rfl) (by simpa [Rhs.go] using hgo)
    all_goals
      obtain ⟨c, o, n, u, cs, hm, hc, ho, hgo⟩ := relPat_some hmem.symm
      have hev := hall _ hm
      simp only [if_true] at ho
      exact cmp_sound_start hev (Or.inl hc) ho hgo

/-- an end bound `(e, incl)`: qualifying rows are `≤ e`, and `< e` when the bound is exclusive. -/
theorem end_sound {now : Int} {σ : Valuation} {row : Row} {txt : List BAtom} {e : Int} {incl : Bool}
    (hall : ∀ b ∈ txt, b.eval now σ row = true)
    (h : endBoundP now txt = some (e, incl)) : row.time ≤ e ∧ (incl = false → row.time < e) := by
  unfold endBoundP at h
  split at h
  · rename_i a b hb
    simp only [Option.some.injEq, Prod.mk.injEq] at h
    obtain ⟨h1, h2⟩ := h
    subst h1; subst h2
    obtain ⟨c, l1, l2, hm, hc, _, h2⟩ := betweenPat_some hb
    have hev := hall _ hm
    have hct := visible_is_time (Or.inl hc)
    subst hct
    have hdb : (Rhs.lit l2).db now = b := go_eq_db (by simpa [Rhs.go] using h2)
    simp only [BAtom.eval, Col.val, Bool.and_eq_true, hdb] at hev
    exact ⟨of_decide_eq_true hev.2, fun h => by cases h⟩
  · split at h
    · rename_i x hx
      simp only [Option.some.injEq] at h
      subst h
      have hmem := firstSomeP_some hx
      simp only [List.mem_cons, List.mem_nil_iff, or_false, Prod.mk.injEq] at hmem
      rcases hmem with ⟨h1, h2⟩ | ⟨h1, h2⟩ | ⟨h1, h2⟩ | ⟨h1, h2⟩
      all_goals
        obtain ⟨c, l, hm, hc, hgo⟩ := absPat_some h1.symm
        have hev := hall _ hm
        subst h2
      · have := cmp_sound_end hev (Or.inl hc) (Or.inl rfl) (by simpa [Rhs.go] using hgo)
        exact ⟨this.1, fun _ => this.2 rfl⟩
      · have := cmp_sound_end hev (Or.inl hc) (Or.inr rfl) (by simpa [Rhs.go] using hgo)
        exact ⟨this.1, fun h => by cases h⟩
      · have := cmp_sound_end hev (Or.inr hc) (Or.inl rfl) (by simpa [Rhs.go] using hgo)
        exact ⟨this.1, fun _ => this.2 rfl⟩
      · have := cmp_sound_end hev (Or.inr hc) (Or.inr rfl) (by simpa [Rhs.go] using hgo)
        exact ⟨this.1, fun h => by cases h⟩
    · split at h
      · rename_i e' he'
        simp only [Option.some.injEq, Prod.mk.injEq] at h
        obtain ⟨h1, h2⟩ := h
        subst h1; subst h2
        have hmem := firstSome_some he'
        simp only [List.mem_cons, List.mem_nil_iff, or_false] at hmem
        rcases hmem with hmem | hmem
        all_goals
          obtain ⟨c, o, n, u, cs, hm, hc, ho, hgo⟩ := relPat_some hmem.symm
          have hev := hall _ hm
          simp only [Bool.false_eq_true, if_false] at ho
          exact ⟨(cmp_sound_end hev (Or.inl hc) ho hgo).1, fun h => by cases h⟩
      · cases h

/-- a qualifying row lies inside the extracted range (in the sense the path loop needs). -/
theorem range_sound {now : Int} {σ : Valuation} {p : Pred} {ds : Dataset} {row : Row} {s e : Int} {incl : Bool}
    (hconj : p.plainConj = true) (hdata : dataOK now p ds = true) (hrow : row ∈ rowsOf ds)
    (hev : p.eval now σ row = true) (hx : extract now p.text = some (s, e, incl)) :
    s ≤ row.time ∧ row.time / HOUR * HOUR < loopEnd e incl ∧ minPartitionDateNs ≤ row.time := by
  have hall := conj_atoms_true hconj hev
  have hd := (List.all_eq_true.mp hdata) row hrow
  simp only [hconj, Bool.not_true, Bool.false_or, Bool.and_eq_true, Bool.or_eq_true, decide_eq_true_eq] at hd
  obtain ⟨hmin, hend⟩ := hd
  unfold extract at hx
  split at hx
  · rename_i s' e' i' hs he
    simp only [Option.some.injEq, Prod.mk.injEq] at hx
    obtain ⟨h1, h2, h3⟩ := hx; subst h1; subst h2; subst h3
    have h2 := end_sound hall he
    refine ⟨start_sound hall hs, ?_, hmin⟩
    cases i' with
    | true => simp only [loopEnd, ↓reduceIte, HOUR] at *; omega
    | false => have := h2.2 rfl; simp only [loopEnd, Bool.false_eq_true, ↓reduceIte, HOUR] at *; omega
  · rename_i s' hs he
    simp only [Option.some.injEq, Prod.mk.injEq] at hx
    obtain ⟨h1, h2, h3⟩ := hx; subst h1; subst h2; subst h3
    refine ⟨start_sound hall hs, ?_, hmin⟩
    simp only [endBound, he, Option.map_none, Option.isSome_none, Bool.false_eq_true, false_or] at hend
    simp only [loopEnd, ↓reduceIte, HOUR] at *
    omega
  · rename_i e' i' hs he
    simp only [Option.some.injEq, Prod.mk.injEq] at hx
    obtain ⟨h1, h2, h3⟩ := hx; subst h1; subst h2; subst h3
    have h2 := end_sound hall he
    refine ⟨by have := C18_constants_tied.2.2.2.2.2.2.2.2.1; omega, ?_, hmin⟩
    cases i' with
    | true => simp only [loopEnd, ↓reduceIte, HOUR] at *; omega
    | false => have := h2.2 rfl; simp only [loopEnd, Bool.false_eq_true, ↓reduceIte, HOUR] at *; omega
  · cases hx

/-- reading under ANY plan derived from generated paths that cover the qualifying rows returns the full result. -/
theorem read_exact {now : Int} {σ : Valuation} {p : Pred} {ds0 ds : Dataset} {s e : Int} {incl : Bool} {ps : Paths}
    (hwp : WellPlaced ds) (hg : generatePaths s e incl = some ps)
    (hnew : ∀ f ∈ ds, ∃ f0 ∈ ds0, f0.part = f.part)
    (hin : ∀ row ∈ rowsOf ds, p.eval now σ row = true →
      s ≤ row.time ∧ row.time / HOUR * HOUR < loopEnd e incl ∧ minPartitionDateNs ≤ row.time) :
    (rowsOf (readWith (planFor (some (s, e, incl)) ds0) ds)).filter (p.eval now σ) =
      (rowsOf ds).filter (p.eval now σ) := by
  simp only [planFor, hg]
  split
  · rfl
  · simp only [readWith]
    apply filter_rows_drop
    intro f hf hkeep row hrow
    cases hP : p.eval now σ row with
    | false => rfl
    | true =>
      exfalso
      obtain ⟨h1, h2, h3⟩ := hin row (mem_rowsOf.mpr ⟨f, hf, hrow⟩) hP
      obtain ⟨hh, hd⟩ := paths_cover_trunc C18_constants_tied.2.2.1 s e row.time incl ps hg h1 h2 h3
      have hpart : f.part ∈ partsOfPaths ps := by
        have := hwp f hf row hrow
        cases hfp : f.part with
        | hour h =>
          simp only [hfp, Part.contains, decide_eq_true_eq] at this
          rw [mem_partsOfPaths_hour]; rw [← this]; exact hh
        | day d =>
          simp only [hfp, Part.contains, decide_eq_true_eq] at this
          rw [mem_partsOfPaths_day]; rw [← this]; exact hd
      obtain ⟨f0, hf0, hf0p⟩ := hnew f hf
      have : f.part ∈ (partsOfPaths ps).filter (fun p => ds0.any (fun f => decide (f.part = p))) := by
        rw [List.mem_filter]
        refine ⟨hpart, ?_⟩
        rw [List.any_eq_true]
        exact ⟨f0, hf0, by simp [hf0p]⟩
      simp only [decide_eq_false_iff_not] at hkeep
      exact hkeep this

/-- **C18_partial** — for EVERY WHERE clause the pruned query returns exactly the rows of the unpruned query (same
    rows, same order), for every data set inside the assumed bounds, every time and every valuation of the
    non-time conditions. The only carve-out left is on the DATA (`dataOK`): the two known classes. -/
theorem C18_partial (now : Int) (σ : Valuation) (p : Pred) (ds : Dataset)
    (hwp : WellPlaced ds) (hdata : dataOK now p ds = true) :
    runPruned now σ p ds = runFull now σ p ds := by
  unfold runPruned runFull readSet extractStmt
  cases hconj : p.plainConj with
  | false => rfl
  | true =>
    simp only [if_true]
    cases hx : extract now p.text with
    | none => rfl
    | some sei =>
      obtain ⟨s, e, incl⟩ := sei
      cases hg : generatePaths s e incl with
      | none => simp [planFor, hg, readWith]
      | some ps =>
        exact read_exact hwp hg (fun f hf => ⟨f, hf, rfl⟩)
          (fun row hrow hev => range_sound hconj hdata hrow hev hx)

/-- multi-table statements are read unpruned: JOIN. -/
theorem C18_join_exact (now : Int) (σ : Valuation) (p : Pred) (a b : Dataset) :
    runJoinPruned now σ p a b = runJoinFull now σ p a b := rfl

/-- multi-table statements are read unpruned: UNION ALL. -/
theorem C18_union_exact (now : Int) (σ : Valuation) (p q : Pred) (ds : Dataset) :
    runUnionPruned now σ p q ds = runUnionFull now σ p q ds := rfl

/-- the same statement issued again inside the cache TTL returns the full result provided that EITHER the
    post-compaction hook `InvalidateCaches` ran since the plan was cached (compaction replaces hour files by a NEW
    day-level partition; the regenerated facts say the hook clears the transform cache and the pruner caches, so the
    plan is recomputed) OR the data set has no partition the cached plan's data set lacked (new files inside
    already-known partitions are found by the globs at execution time). -/
theorem C18_cached_partial (now : Int) (σ : Valuation) (p : Pred) (ds0 ds : Dataset) (invalidated : Bool)
    (hwp : WellPlaced ds) (hdata : dataOK now p ds = true)
    (hnew : invalidated = false → ∀ f ∈ ds, ∃ f0 ∈ ds0, f0.part = f.part) :
    runCachedI now σ p ds0 ds invalidated = runFull now σ p ds := by
  have hsurv : survivesInvalidate = false := by decide
  cases invalidated with
  | true =>
    simp only [runCachedI, hsurv, Bool.not_false, Bool.and_self, if_true]
    exact C18_partial now σ p ds hwp hdata
  | false =>
    simp only [runCachedI, Bool.false_and, Bool.false_eq_true, if_false]
    unfold runCached runFull extractStmt
    cases hconj : p.plainConj with
    | false => rfl
    | true =>
      simp only [if_true]
      cases hx : extract now p.text with
      | none => rfl
      | some sei =>
        obtain ⟨s, e, incl⟩ := sei
        cases hg : generatePaths s e incl with
        | none => simp [planFor, hg, readWith]
        | some ps =>
          exact read_exact hwp hg (hnew rfl) (fun row hrow hev => range_sound hconj hdata hrow hev hx)

/-! ### concrete material for the non-vacuity examples, the witnesses and the history
    2024-03-15 10:00:00Z = 1710496800 s; hour index 475138; day index 19797. -/

def T0 : Int := 1710496800000000000          -- 2024-03-15 10:00:00Z (an hour boundary)
def mkRow (t : Int) : Row := { time := t, c1 := t, c2 := t, v := 1 }
def litAt (hh mi : Int) : Rhs := .lit { fmt := 1, y := 2024, mo := 3, d := 15, hh := hh, mi := mi, ss := 0, frac := 0, off := 0 }
def tAt (hh mi : Int) : Int := T0 + (hh - 10) * HOUR + mi * 60 * NS
def hourFile (hh : Int) (mins : List Int) : File := { part := .hour (475128 + hh), rows := mins.map (fun m => mkRow (tAt hh m)) }
def timeCmp (op : Cmp) (r : Rhs) : Pred := .atom (.base (.cmp .time op r))
def NOW0 : Int := T0 + 5 * HOUR
def σ0 : Valuation := fun _ _ => true
/-- hour files 09, 10, 11, 12 of 2024-03-15 and the compacted day file of 2024-03-14. -/
def DS0 : Dataset :=
  [hourFile 9 [30], hourFile 10 [0, 30], hourFile 11 [0], hourFile 12 [0],
   { part := .day 19796, rows := [mkRow (T0 - 20 * HOUR)] }]

theorem DS0_wellPlaced : WellPlaced DS0 := by decide


/-- non-vacuity of C18_partial: `time >= '…10:00:00' AND time <= '…11:00:00' AND v >= 0` on DS0 really prunes
    (2 of 5 files read, among them hour 11 for the row exactly at 11:00:00) and the hypotheses hold. -/
example :
    let p := Pred.and (timeCmp .ge (litAt 10 0)) (.and (timeCmp .le (litAt 11 0)) (.atom (.base (.cmp .plain .ge (.num 0)))))
    dataOK NOW0 p DS0 = true ∧ (readSet (extractStmt NOW0 p) DS0).length = 2 ∧
    (runFull NOW0 σ0 p DS0).length = 3 ∧ runPruned NOW0 σ0 p DS0 = runFull NOW0 σ0 p DS0 := by decide

/-- non-vacuity of C18_cached_partial: a flush adds a file to the already known hour 10 after the plan was cached. -/
example :
    let p := Pred.and (timeCmp .ge (litAt 10 0)) (timeCmp .lt (litAt 11 30))
    let ds1 : Dataset := DS0 ++ [hourFile 10 [45]]
    dataOK NOW0 p ds1 = true ∧ WellPlaced ds1 ∧
    (∀ f ∈ ds1, ∃ f0 ∈ DS0, f0.part = f.part) ∧ (runCachedI NOW0 σ0 p DS0 ds1 false).length = 4 := by decide

/-- hours 10 and 11 (two files each) before, and after a daily compaction that leaves the first ("late raw") file
    of each hour in place and moves the other rows into the new day-level file of 2024-03-15. -/
def DSraw : Dataset := [hourFile 10 [0], hourFile 10 [30], hourFile 11 [0], hourFile 11 [20]]
def DScompacted : Dataset :=
  [hourFile 10 [0], hourFile 11 [0], { part := .day 19797, rows := [mkRow (tAt 10 30), mkRow (tAt 11 20)] }]

/-- non-vacuity of the compaction branch of C18_cached_partial (invalidated = true). -/
example :
    let p := Pred.and (timeCmp .ge (litAt 10 0)) (timeCmp .lt (litAt 12 0))
    dataOK NOW0 p DScompacted = true ∧ WellPlaced DScompacted ∧
    (runCachedI NOW0 σ0 p DSraw DScompacted true).length = 4 := by decide

/-- why the hook must clear the cached plan: reusing the pre-compaction plan (hour globs only) after the
    compaction loses the rows that moved into the day-level file — and with empty hour directories the listed
    globs match nothing (DuckDB: "No files found"). -/
theorem C18_compaction_needs_invalidate_witness :
    let p := Pred.and (timeCmp .ge (litAt 10 0)) (timeCmp .lt (litAt 12 0))
    runCached NOW0 σ0 p DSraw DScompacted ≠ runFull NOW0 σ0 p DScompacted ∧
    planBroken (planFor (extractStmt NOW0 p) DSraw) [{ part := .day 19797, rows := [] }] = true := by decide

/-! ## (3) the classes that remain: one counterexample each (the full statement instantiated, refuted by evaluation) -/

/-- start-only predicate, data later than now + 24 h (`now` = 2024-03-14 10:30, so the assumed end is
    2024-03-15 10:30): `time >= '2024-03-15 09:00'` loses the rows of 11:00 and 12:00. -/
theorem C18_start_only_future_witness :
    runPruned (T0 - 24 * HOUR + 30 * 60 * NS) σ0 (timeCmp .ge (litAt 9 0)) DS0 ≠
    runFull (T0 - 24 * HOUR + 30 * 60 * NS) σ0 (timeCmp .ge (litAt 9 0)) DS0 := by decide

/-- plan cached before hour 11 existed, reused (transform cache TTL) after the flush created it. -/
theorem C18_cache_stale_witness :
    let p := Pred.and (timeCmp .ge (litAt 10 0)) (timeCmp .lt (litAt 12 0))
    let ds0 : Dataset := [hourFile 9 [30], hourFile 10 [0, 30]]
    let ds1 : Dataset := ds0 ++ [hourFile 11 [0]]
    dataOK NOW0 p ds1 = true ∧ cacheValid NOW0 (NOW0 + 30 * NS) = true ∧
    runCached (NOW0 + 30 * NS) σ0 p ds0 ds1 ≠ runFull (NOW0 + 30 * NS) σ0 p ds1 := by decide

/-- data before minPartitionDate (Arc's ingest accepts pre-1970 timestamps): `time >= '1969-12-31' AND time < '1970-01-02'`. -/
theorem C18_pre_epoch_witness :
    let lo : Rhs := .lit { fmt := 0, y := 1969, mo := 12, d := 31, hh := 0, mi := 0, ss := 0, frac := 0, off := 0 }
    let hi : Rhs := .lit { fmt := 0, y := 1970, mo := 1, d := 2, hh := 0, mi := 0, ss := 0, frac := 0, off := 0 }
    let ds : Dataset := [{ part := .hour (-1), rows := [mkRow (-1800 * NS)] }, { part := .hour 0, rows := [mkRow (1800 * NS)] }]
    let p := Pred.and (timeCmp .ge lo) (timeCmp .lt hi)
    WellPlaced ds ∧ runPruned NOW0 σ0 p ds ≠ runFull NOW0 σ0 p ds := by decide

/-- quirk kept by the model (performance only, results unaffected): the path cap does not fire for spans the
    saturating `Sub` cannot represent — 1970 … 2370 yields 3.5 million paths instead of the unpruned fallback. -/
theorem C18_cap_quirk_witness :
    overCap 0 (400 * 365 * DAY) = false ∧ overCap 0 (6 * 365 * DAY) = true := by decide

/-! ## (4) history: the inputs that refuted the property before the repairs now return the full result -/

/-- OR, NOT (642ecb4): no pruning. -/
example :
    let por := Pred.or (timeCmp .ge (litAt 11 0)) (.atom (.base (.cmp .plain .ge (.num 0))))
    let pnot := Pred.not (timeCmp .ge (litAt 11 0))
    runPruned NOW0 σ0 por DS0 = runFull NOW0 σ0 por DS0 ∧ runPruned NOW0 σ0 pnot DS0 = runFull NOW0 σ0 pnot DS0 ∧
    extractStmt NOW0 por = none ∧ extractStmt NOW0 pnot = none := by decide

/-- `<=` and BETWEEN upper bound on the hour (5c0e6c5): the hour that starts at the bound is read. -/
example :
    let ple := Pred.and (timeCmp .ge (litAt 10 0)) (timeCmp .le (litAt 11 0))
    let pbt := Pred.atom (.base (.between .time (litAt 10 0) (litAt 11 0)))
    runPruned NOW0 σ0 ple DS0 = runFull NOW0 σ0 ple DS0 ∧ runPruned NOW0 σ0 pbt DS0 = runFull NOW0 σ0 pbt DS0 ∧
    (readSet (extractStmt NOW0 ple) DS0).length = 2 := by decide

def lit2020 : Rhs := .lit { fmt := 1, y := 2020, mo := 1, d := 1, hh := 2, mi := 0, ss := 0, frac := 0, off := 0 }
def DS2019 : Dataset :=
  [{ part := .hour 438287, rows := [mkRow 1577835000000000000] }, { part := .hour 438288, rows := [mkRow 1577838600000000000] }]

/-- end-only predicate with data before 2020 (a6e9521): the range starts at the floor; here it exceeds the path
    cap, so the statement is read unpruned. -/
example :
    runPruned NOW0 σ0 (timeCmp .lt lit2020) DS2019 = runFull NOW0 σ0 (timeCmp .lt lit2020) DS2019 ∧
    planFor (extractStmt NOW0 (timeCmp .lt lit2020)) DS2019 = none := by decide

/-- a column whose name merely ends in `time` (18e1f86) is invisible: only `time >= '09:00'` bounds the range. -/
example :
    let ds : Dataset := [{ part := .hour 475137, rows := [{ time := tAt 9 30, c1 := tAt 11 30, c2 := 0, v := 1 }] }, hourFile 11 [0]]
    let p := Pred.and (.atom (.base (.cmp .likeTime .ge (litAt 11 0)))) (timeCmp .ge (litAt 9 0))
    runPruned NOW0 σ0 p ds = runFull NOW0 σ0 p ds ∧
    extractStmt NOW0 p = some (tAt 9 0, NOW0 + startOnlyAddNs, true) := by decide

/-- subquery (b2903b5): more than one SELECT ⇒ no pruning. -/
example :
    runPruned NOW0 σ0 (.atom (.sub 0 [.cmp .time .ge (litAt 11 0)])) DS0 =
    runFull NOW0 σ0 (.atom (.sub 0 [.cmp .time .ge (litAt 11 0)])) DS0 := by decide

/-- `time >= NOW() - INTERVAL '1 month'` on 2024-03-31 12:00 (b6673db): the pruner now reads Feb 29 12:00 like DuckDB
    (plain `AddDate` gave Mar 2 12:00). -/
example :
    let now : Int := 1711886400000000000
    relGo now false 1 .month = relDb now false 1 .month ∧ goAddMonths now (-1) ≠ relDb now false 1 .month ∧
    relGo now false 1 .month = 1709208000 * NS := by decide

end Arc.C18
