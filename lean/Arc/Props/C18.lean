/-
C18 — "Partition pruning never changes query results".

FULL STATEMENT (false of the current source — kept here, with one machine-checked counterexample per class):

  theorem C18_full (now : Int) (σ : Valuation) (p : Pred) (ds : Dataset) (hwp : WellPlaced ds) :
      runPruned now σ p ds = runFull now σ p ds
  -- and its multi-table / cached forms
  --   runJoinPruned now σ p a b = runJoinFull now σ p a b
  --   runUnionPruned now σ p q ds = runUnionFull now σ p q ds
  --   runCached now σ p ds0 ds = runFull now σ p ds          (ds0 = data set when the plan was cached)

What IS proved, for all integer times, all data sets, all valuations of the non-time conditions:
  * C18_paths_cover / C18_paths_cover_trunc / C18_paths_sound — the generated hour and day paths are exactly the
    hours `h` with `max(trunc start, minPartitionDate) ≤ h·1h < end` and their days (whenever the cap did not fire);
  * C18_partial — pruning is exact when the WHERE clause is a conjunction of atoms each of which is either invisible
    to the regexes or a comparison / BETWEEN on the column written `time` whose right-hand side the pruner reads
    exactly as DuckDB does, with `<=`/BETWEEN upper bounds not on an hour boundary, and the data lies inside the
    bounds the pruner assumes (≥ minPartitionDate; ≥ 2020-01-01 when no start bound is found; < now+24 h when
    no end bound is found);
  * C18_cached_partial — the same statement issued again stays exact if the post-compaction hook ran (regenerated
    facts: InvalidateCaches clears the transform cache and the pruner caches) or no NEW partition appeared;
  * one `…_witness` per excluded class (OR, NOT, `<=` on the hour, BETWEEN upper bound on the hour, end-only with
    data before the default start, start-only with data after now+24 h, column whose name merely ends in `time`,
    subquery, join, UNION, plan cached across a new partition, NOW() − INTERVAL 'n months' at month ends,
    data before minPartitionDate);
  * C18_*_tied — the regenerated regex literals / constants / loop shape / call-site facts are the ones the model
    was written for.
-/
import Arc.Model.C18
import Arc.Proofs.C18.Basic
namespace Arc.C18
open Arc.Generated.C18

/-! ## ties to the regenerated facts -/

theorem C18_constants_tied :
    HOUR = hourNs ∧ DAY = 24 * HOUR ∧ minPartitionDateNs % HOUR = 0 ∧ minPartitionDateNs ≤ defaultStartNs ∧
    0 < startOnlyAddNs ∧ 0 < maxPartitionPaths ∧
    partitionCacheTTLNs ≤ transformCacheTTLNs ∧ globCacheTTLNs ≤ transformCacheTTLNs := by decide

/-- The model's reading of the regexes (header of Model/C18.lean) was written for exactly these literals. -/
theorem C18_regex_tied :
    startTimePatterns = ["(?i)time\\s*>=\\s*'([^']+)'", "(?i)time\\s*>\\s*'([^']+)'",
                         "(?i)timestamp\\s*>=\\s*'([^']+)'", "(?i)timestamp\\s*>\\s*'([^']+)'"] ∧
    endTimePatterns = ["(?i)time\\s*<\\s*'([^']+)'", "(?i)time\\s*<=\\s*'([^']+)'",
                       "(?i)timestamp\\s*<\\s*'([^']+)'", "(?i)timestamp\\s*<=\\s*'([^']+)'"] ∧
    betweenPattern = "(?i)time\\s+BETWEEN\\s+'([^']+)'\\s+AND\\s+'([^']+)'" ∧
    relativePatterns =
      ["(?i)time\\s*>=?\\s*(?:NOW\\s*\\(\\s*\\)|CURRENT_TIMESTAMP)\\s*-\\s*INTERVAL\\s*'(\\d+)\\s*(second|seconds|minute|minutes|hour|hours|day|days|week|weeks|month|months)'",
       "(?i)time\\s*>=?\\s*(?:NOW\\s*\\(\\s*\\)|CURRENT_TIMESTAMP)\\s*\\+\\s*INTERVAL\\s*'(\\d+)\\s*(second|seconds|minute|minutes|hour|hours|day|days|week|weeks|month|months)'",
       "(?i)time\\s*<=?\\s*(?:NOW\\s*\\(\\s*\\)|CURRENT_TIMESTAMP)\\s*-\\s*INTERVAL\\s*'(\\d+)\\s*(second|seconds|minute|minutes|hour|hours|day|days|week|weeks|month|months)'",
       "(?i)time\\s*<=?\\s*(?:NOW\\s*\\(\\s*\\)|CURRENT_TIMESTAMP)\\s*\\+\\s*INTERVAL\\s*'(\\d+)\\s*(second|seconds|minute|minutes|hour|hours|day|days|week|weeks|month|months)'"] ∧
    whereClausePattern = "(?i)\\bWHERE\\b\\s+([\\s\\S]+?)(?:\\bGROUP BY\\b|\\bORDER BY\\b|\\bLIMIT\\b|$)" ∧
    extractOrder = ["whereClausePattern", "startTimePatterns", "endTimePatterns", "betweenPattern",
                    "relativeStartSubtractPattern", "relativeStartAddPattern",
                    "relativeEndSubtractPattern", "relativeEndAddPattern"] ∧
    extractBreaks = 2 ∧ extractNilGuards = 4 ∧
    parseLayouts = ["2006-01-02T15:04:05Z07:00", "2006-01-02T15:04:05.999999999Z07:00", "2006-01-02 15:04:05",
                    "2006-01-02 15:04", "2006-01-02", "2006/01/02 15:04:05", "2006/01/02"] ∧
    parseConvertsToUTC = true :=
  ⟨rfl, rfl, rfl, rfl, rfl, rfl, rfl, rfl, rfl, rfl⟩

theorem C18_loop_tied :
    loopInit = "timeRange.Start.Truncate(time.Hour)" ∧ loopCond = "current.Before(end)" ∧
    loopStep = "current.Add(time.Hour)" ∧
    clampStmt = "current.Before(minPartitionDate) => current = minPartitionDate" ∧
    hourlyExpr = "int64((span + time.Hour - 1) / time.Hour)" ∧ dailyExpr = "hourlyPaths/24 + 1" ∧
    dayLevelPaths = true ∧ emptyFallbacks = 2 ∧ partitionCacheConsultedFirst = true := by decide

/-- unit → arithmetic table of `evaluateRelativeTime` the model's `relGo` was written for: second/minute/hour are
    fixed Durations, day/week are `AddDate` days (= n·24 h in UTC), month is CALENDAR-month `AddDate(0, n, 0)`
    (no `year` unit: the regexes do not recognise it). -/
theorem C18_relative_units_tied :
    relativeUnits = ["second => now.Add(time.Duration(n) * time.Second)",
                     "minute => now.Add(time.Duration(n) * time.Minute)",
                     "hour => now.Add(time.Duration(n) * time.Hour)",
                     "day => now.AddDate(0, 0, n)", "week => now.AddDate(0, 0, n*7)",
                     "month => now.AddDate(0, n, 0)"] := by decide

/-- query.go prunes every table reference with the text of the whole statement; nothing on the ingest/flush path
    invalidates the pruner / transform caches (only compaction completion and the cluster cache-invalidate do). -/
theorem C18_call_sites_tied :
    prunesWithWholeStatement = true ∧ optimizeSqlArgs.length = 2 ∧ ingestInvalidations = 0 ∧
    compactionCallsInvalidate = true := by decide

/-! ## (1) generated paths -/

/-- every instant in `[start, end)` (not before `minPartitionDate`) has its hour partition AND its day partition
    among the generated paths — for all integer times. -/
theorem C18_paths_cover (s e t : Int) (ps : Paths) (h : generatePaths s e = some ps)
    (hs : s ≤ t) (he : t < e) (hm : minPartitionDateNs ≤ t) :
    hourOf t ∈ ps.hours ∧ dayOf t ∈ ps.days := by
  apply paths_cover_trunc C18_constants_tied.2.2.1 s e t ps h hs _ hm
  simp only [HOUR] at *
  omega

/-- sharper: it is enough that the HOUR of `t` starts before `end` (this is what makes `time <= b` sound
    exactly when `b` is not on an hour boundary). -/
theorem C18_paths_cover_trunc (s e t : Int) (ps : Paths) (h : generatePaths s e = some ps)
    (hs : s ≤ t) (he : truncHour t < e) (hm : minPartitionDateNs ≤ t) :
    hourOf t ∈ ps.hours ∧ dayOf t ∈ ps.days :=
  paths_cover_trunc C18_constants_tied.2.2.1 s e t ps h hs he hm

/-- nothing else is generated: pruning really prunes. -/
theorem C18_paths_sound (s e h : Int) (ps : Paths) (hg : generatePaths s e = some ps) (hm : h ∈ ps.hours) :
    startOf s ≤ h * HOUR ∧ h * HOUR < e := by
  unfold generatePaths at hg
  simp only [] at hg
  split at hg
  · cases hg
  · injection hg with hg
    subst hg
    exact loop_sound _ _ _ _ (startOf_aligned C18_constants_tied.2.2.1 s) hm

example : generatePaths 1710498600000000000 1710505800000000000 =
    some { hours := [475138, 475139, 475140], days := [19797] } := by decide

/-! ## (2) the class on which pruning is exact -/

/-- the pruner reads the right-hand side exactly as the engine does (or not at all). -/
def Rhs.exact (now : Int) (r : Rhs) : Bool :=
  match r.go now with
  | none => true
  | some g => decide (g = r.db now)

/-- column spellings in which no regex fragment matches. -/
def Col.quiet : Col → Bool
  | .timeQuoted => true
  | .plain => true
  | _ => false

def Rhs.isNum : Rhs → Bool
  | .num _ => true
  | _ => false

/-- atoms that are invisible to the regexes, or visible and read soundly. -/
def BAtom.safe (now : Int) : BAtom → Bool
  | .cmp c op r =>
    r.dbOk && (r.isNum || c.quiet ||
      (decide (c = .time) && r.exact now && (decide (op ≠ .le) || decide (r.db now % HOUR ≠ 0))))
  | .between c lo hi =>
    lo.dbOk && hi.dbOk && (c.quiet ||
      (decide (c = .time) && lo.exact now && hi.exact now && decide (hi.db now % HOUR ≠ 0)))
  | .opaque _ => true

/-- WHERE = conjunction of safe atoms (no OR, no NOT, no subquery). -/
def Pred.safeConj (now : Int) : Pred → Bool
  | .atom (.base b) => b.safe now
  | .and p q => p.safeConj now && q.safeConj now
  | _ => false

/-- the data lies inside the bounds the pruner assumes. -/
def dataOK (now : Int) (txt : List BAtom) (ds : Dataset) : Bool :=
  (rowsOf ds).all fun r =>
    decide (minPartitionDateNs ≤ r.time) &&
    ((endBound now txt).isSome || decide (r.time < now + startOnlyAddNs)) &&
    ((startBound now txt).isSome || decide (defaultStartNs ≤ r.time))

theorem conj_atoms_true {now : Int} {σ : Valuation} {r : Row} :
    ∀ {p : Pred}, p.safeConj now = true → p.eval now σ r = true →
      ∀ b ∈ p.text, b.safe now = true ∧ b.eval now σ r = true := by
  intro p
  induction p with
  | atom a =>
    intro hs he b hb
    cases a with
    | base b0 =>
      simp only [Pred.text, Atom.text, List.mem_singleton] at hb
      subst hb
      exact ⟨by simpa [Pred.safeConj] using hs, by simpa [Pred.eval, Atom.eval] using he⟩
    | sub k inner => simp [Pred.safeConj] at hs
  | and p q ihp ihq =>
    intro hs he b hb
    simp only [Pred.safeConj, Bool.and_eq_true] at hs
    simp only [Pred.eval, Bool.and_eq_true] at he
    simp only [Pred.text, List.mem_append] at hb
    rcases hb with hb | hb
    · exact ihp hs.1 he.1 b hb
    · exact ihq hs.2 he.2 b hb
  | or p q _ _ => intro hs; simp [Pred.safeConj] at hs
  | not p _ => intro hs; simp [Pred.safeConj] at hs

theorem visible_not_quiet {c : Col} (h : c.endsInTime = true ∨ c.endsInTimestamp = true) : c.quiet = false := by
  cases c <;> simp_all [Col.endsInTime, Col.endsInTimestamp, Col.quiet]

theorem cmp_sound_start {now : Int} {σ : Valuation} {row : Row} {c : Col} {op : Cmp} {r : Rhs} {s : Int}
    (hsafe : (BAtom.cmp c op r).safe now = true) (hev : (BAtom.cmp c op r).eval now σ row = true)
    (hvis : c.endsInTime = true ∨ c.endsInTimestamp = true) (hnum : r.isNum = false)
    (hop : op = .ge ∨ op = .gt) (hgo : r.go now = some s) : s ≤ row.time := by
  have hq := visible_not_quiet hvis
  simp only [BAtom.safe, hnum, hq, Bool.false_or, Bool.and_eq_true, decide_eq_true_eq, Rhs.exact, hgo] at hsafe
  obtain ⟨_, ⟨hc, hex⟩, _⟩ := hsafe
  subst hc
  simp only [BAtom.eval, Col.val] at hev
  rcases hop with h | h <;> subst h <;> simp only [Cmp.holds, decide_eq_true_eq] at hev <;> omega

theorem cmp_sound_end {now : Int} {σ : Valuation} {row : Row} {c : Col} {op : Cmp} {r : Rhs} {e : Int}
    (hsafe : (BAtom.cmp c op r).safe now = true) (hev : (BAtom.cmp c op r).eval now σ row = true)
    (hvis : c.endsInTime = true ∨ c.endsInTimestamp = true) (hnum : r.isNum = false)
    (hop : op = .lt ∨ op = .le) (hgo : r.go now = some e) : row.time / HOUR * HOUR < e := by
  have hq := visible_not_quiet hvis
  simp only [BAtom.safe, hnum, hq, Bool.false_or, Bool.and_eq_true, decide_eq_true_eq, Rhs.exact, hgo] at hsafe
  obtain ⟨_, ⟨hc, hex⟩, hle⟩ := hsafe
  subst hc
  simp only [BAtom.eval, Col.val] at hev
  rcases hop with h | h
  · subst h
    simp only [Cmp.holds, decide_eq_true_eq] at hev
    simp only [HOUR] at *
    omega
  · subst h
    simp only [Cmp.holds, decide_eq_true_eq] at hev
    simp only [ne_eq, not_true_eq_false, decide_false, Bool.false_or, decide_eq_true_eq] at hle
    simp only [HOUR] at *
    omega

theorem start_sound {now : Int} {σ : Valuation} {row : Row} {txt : List BAtom} {s : Int}
    (hall : ∀ b ∈ txt, b.safe now = true ∧ b.eval now σ row = true)
    (h : startBound now txt = some s) : s ≤ row.time := by
  unfold startBound at h
  split at h
  · rename_i a b hb
    simp only [Option.some.injEq] at h
    subst h
    obtain ⟨c, l1, l2, hm, hc, h1, _⟩ := betweenPat_some hb
    obtain ⟨hsafe, hev⟩ := hall _ hm
    have hq := visible_not_quiet (Or.inl hc)
    simp only [BAtom.safe, hq, Bool.false_or, Bool.and_eq_true, decide_eq_true_eq, Rhs.exact, Rhs.go, h1] at hsafe
    obtain ⟨_, ⟨⟨⟨hct, hex⟩, _⟩, _⟩⟩ := hsafe
    subst hct
    simp only [BAtom.eval, Col.val, Bool.and_eq_true] at hev
    have hev1 := of_decide_eq_true hev.1
    omega
  · have hmem := firstSome_some h
    simp only [List.mem_cons, List.mem_nil_iff, or_false] at hmem
    rcases hmem with hmem | hmem | hmem
    · have hmem2 := firstSome_some (l := [_, _, _, _]) hmem.symm
      simp only [List.mem_cons, List.mem_nil_iff, or_false] at hmem2
      rcases hmem2 with h1 | h1 | h1 | h1
      all_goals
        obtain ⟨c, l, hm, hc, hgo⟩ := absPat_some h1.symm
        obtain ⟨hsafe, hev⟩ := hall _ hm
        first
          | exact cmp_sound_start hsafe hev (Or.inl hc) rfl (Or.inl rfl) (by simpa [Rhs.go] using hgo)
          | exact cmp_sound_start hsafe hev (Or.inl hc) rfl (Or.inr rfl) (by simpa [Rhs.go] using hgo)
          | exact cmp_sound_start hsafe hev (Or.inr hc) rfl (Or.inl rfl) (by simpa [Rhs.go] using hgo)
          | exact cmp_sound_start hsafe hev (Or.inr hc) rfl (Or.inr rfl) (by simpa [Rhs.go] using hgo)
    all_goals
      obtain ⟨c, o, n, u, cs, hm, hc, ho, hgo⟩ := relPat_some hmem.symm
      obtain ⟨hsafe, hev⟩ := hall _ hm
      simp only [if_true] at ho
      exact cmp_sound_start hsafe hev (Or.inl hc) rfl ho hgo

theorem end_sound {now : Int} {σ : Valuation} {row : Row} {txt : List BAtom} {e : Int}
    (hall : ∀ b ∈ txt, b.safe now = true ∧ b.eval now σ row = true)
    (h : endBound now txt = some e) : row.time / HOUR * HOUR < e := by
  unfold endBound at h
  split at h
  · rename_i a b hb
    simp only [Option.some.injEq] at h
    subst h
    obtain ⟨c, l1, l2, hm, hc, _, h2⟩ := betweenPat_some hb
    obtain ⟨hsafe, hev⟩ := hall _ hm
    have hq := visible_not_quiet (Or.inl hc)
    simp only [BAtom.safe, hq, Bool.false_or, Bool.and_eq_true, decide_eq_true_eq, Rhs.exact, Rhs.go, h2] at hsafe
    obtain ⟨_, ⟨⟨⟨hct, _⟩, hex⟩, hb⟩⟩ := hsafe
    subst hct
    simp only [BAtom.eval, Col.val, Bool.and_eq_true] at hev
    have hev2 := of_decide_eq_true hev.2
    simp only [HOUR] at *
    omega
  · have hmem := firstSome_some h
    simp only [List.mem_cons, List.mem_nil_iff, or_false] at hmem
    rcases hmem with hmem | hmem | hmem
    · have hmem2 := firstSome_some (l := [_, _, _, _]) hmem.symm
      simp only [List.mem_cons, List.mem_nil_iff, or_false] at hmem2
      rcases hmem2 with h1 | h1 | h1 | h1
      all_goals
        obtain ⟨c, l, hm, hc, hgo⟩ := absPat_some h1.symm
        obtain ⟨hsafe, hev⟩ := hall _ hm
        first
          | exact cmp_sound_end hsafe hev (Or.inl hc) rfl (Or.inl rfl) (by simpa [Rhs.go] using hgo)
          | exact cmp_sound_end hsafe hev (Or.inl hc) rfl (Or.inr rfl) (by simpa [Rhs.go] using hgo)
          | exact cmp_sound_end hsafe hev (Or.inr hc) rfl (Or.inl rfl) (by simpa [Rhs.go] using hgo)
          | exact cmp_sound_end hsafe hev (Or.inr hc) rfl (Or.inr rfl) (by simpa [Rhs.go] using hgo)
    all_goals
      obtain ⟨c, o, n, u, cs, hm, hc, ho, hgo⟩ := relPat_some hmem.symm
      obtain ⟨hsafe, hev⟩ := hall _ hm
      simp only [Bool.false_eq_true, if_false] at ho
      exact cmp_sound_end hsafe hev (Or.inl hc) rfl ho hgo

/-- a qualifying row lies inside the extracted range (in the sense the path loop needs). -/
theorem range_sound {now : Int} {σ : Valuation} {p : Pred} {ds : Dataset} {row : Row} {s e : Int}
    (hconj : p.safeConj now = true) (hdata : dataOK now p.text ds = true) (hrow : row ∈ rowsOf ds)
    (hev : p.eval now σ row = true) (hx : extract now p.text = some (s, e)) :
    s ≤ row.time ∧ row.time / HOUR * HOUR < e ∧ minPartitionDateNs ≤ row.time := by
  have hall := conj_atoms_true hconj hev
  have hd := (List.all_eq_true.mp hdata) row hrow
  simp only [Bool.and_eq_true, Bool.or_eq_true, decide_eq_true_eq] at hd
  obtain ⟨⟨hmin, hend⟩, hstart⟩ := hd
  unfold extract at hx
  split at hx
  · rename_i s' e' hs he
    simp only [Option.some.injEq, Prod.mk.injEq] at hx
    obtain ⟨h1, h2⟩ := hx; subst h1; subst h2
    exact ⟨start_sound hall hs, end_sound hall he, hmin⟩
  · rename_i s' hs he
    simp only [Option.some.injEq, Prod.mk.injEq] at hx
    obtain ⟨h1, h2⟩ := hx; subst h1; subst h2
    refine ⟨start_sound hall hs, ?_, hmin⟩
    simp only [he, Option.isSome_none, Bool.false_eq_true, false_or] at hend
    simp only [HOUR] at *
    omega
  · rename_i e' hs he
    simp only [Option.some.injEq, Prod.mk.injEq] at hx
    obtain ⟨h1, h2⟩ := hx; subst h1; subst h2
    simp only [hs, Option.isSome_none, Bool.false_eq_true, false_or] at hstart
    exact ⟨hstart, end_sound hall he, hmin⟩
  · cases hx

/-- reading under ANY plan derived from generated paths that cover the qualifying rows returns the full result. -/
theorem read_exact {now : Int} {σ : Valuation} {p : Pred} {ds0 ds : Dataset} {s e : Int} {ps : Paths}
    (hwp : WellPlaced ds) (hg : generatePaths s e = some ps)
    (hnew : ∀ f ∈ ds, ∃ f0 ∈ ds0, f0.part = f.part)
    (hin : ∀ row ∈ rowsOf ds, p.eval now σ row = true →
      s ≤ row.time ∧ row.time / HOUR * HOUR < e ∧ minPartitionDateNs ≤ row.time) :
    (rowsOf (readWith (planFor (some (s, e)) ds0) ds)).filter (p.eval now σ) =
      (rowsOf ds).filter (p.eval now σ) := by
  simp only [planFor, hg]
  split
  · rfl
  · simp only [readWith]
    apply filter_rows_drop
    intro f hf hkeep row hrow
    cases hP : p.eval now σ row with
    | false => rfl
    | true =>
      exfalso
      obtain ⟨h1, h2, h3⟩ := hin row (mem_rowsOf.mpr ⟨f, hf, hrow⟩) hP
      obtain ⟨hh, hd⟩ := paths_cover_trunc C18_constants_tied.2.2.1 s e row.time ps hg h1 h2 h3
      have hpart : f.part ∈ partsOfPaths ps := by
        have := hwp f hf row hrow
        cases hfp : f.part with
        | hour h =>
          simp only [hfp, Part.contains, decide_eq_true_eq] at this
          rw [mem_partsOfPaths_hour]; rw [← this]; exact hh
        | day d =>
          simp only [hfp, Part.contains, decide_eq_true_eq] at this
          rw [mem_partsOfPaths_day]; rw [← this]; exact hd
      obtain ⟨f0, hf0, hf0p⟩ := hnew f hf
      have : f.part ∈ (partsOfPaths ps).filter (fun p => ds0.any (fun f => decide (f.part = p))) := by
        rw [List.mem_filter]
        refine ⟨hpart, ?_⟩
        rw [List.any_eq_true]
        exact ⟨f0, hf0, by simp [hf0p]⟩
      simp only [decide_eq_false_iff_not] at hkeep
      exact hkeep this

/-- **C18_partial** — on the exact class the pruned query returns exactly the rows of the unpruned query
    (same rows, same order), for every data set, time and valuation of the non-time conditions. -/
theorem C18_partial (now : Int) (σ : Valuation) (p : Pred) (ds : Dataset)
    (hwp : WellPlaced ds) (hconj : p.safeConj now = true) (hdata : dataOK now p.text ds = true) :
    runPruned now σ p ds = runFull now σ p ds := by
  unfold runPruned runFull readSet
  cases hx : extract now p.text with
  | none => rfl
  | some se =>
    obtain ⟨s, e⟩ := se
    cases hg : generatePaths s e with
    | none => simp [planFor, hg, readWith]
    | some ps =>
      exact read_exact hwp hg (fun f hf => ⟨f, hf, rfl⟩)
        (fun row hrow hev => range_sound hconj hdata hrow hev hx)

/-- the same statement issued again inside the cache TTL returns the full result provided that EITHER the
    post-compaction hook `InvalidateCaches` ran since the plan was cached (compaction replaces hour files by a NEW
    day-level partition; the regenerated facts say the hook clears the transform cache and the pruner caches, so the
    plan is recomputed) OR the data set has no partition the cached plan's data set lacked (new files inside
    already-known partitions are found by the globs at execution time). -/
theorem C18_cached_partial (now : Int) (σ : Valuation) (p : Pred) (ds0 ds : Dataset) (invalidated : Bool)
    (hwp : WellPlaced ds) (hconj : p.safeConj now = true) (hdata : dataOK now p.text ds = true)
    (hnew : invalidated = false → ∀ f ∈ ds, ∃ f0 ∈ ds0, f0.part = f.part) :
    runCachedI now σ p ds0 ds invalidated = runFull now σ p ds := by
  have hsurv : survivesInvalidate = false := by decide
  cases invalidated with
  | true =>
    simp only [runCachedI, hsurv, Bool.not_false, Bool.and_self, if_true]
    exact C18_partial now σ p ds hwp hconj hdata
  | false =>
    simp only [runCachedI, Bool.false_and, Bool.false_eq_true, if_false]
    unfold runCached runFull
    cases hx : extract now p.text with
    | none => rfl
    | some se =>
      obtain ⟨s, e⟩ := se
      cases hg : generatePaths s e with
      | none => simp [planFor, hg, readWith]
      | some ps =>
        exact read_exact hwp hg (hnew rfl) (fun row hrow hev => range_sound hconj hdata hrow hev hx)

/-! ### concrete material for the non-vacuity example and the witnesses
    2024-03-15 10:00:00Z = 1710496800 s; hour index 475138; day index 19797. -/

def T0 : Int := 1710496800000000000          -- 2024-03-15 10:00:00Z (an hour boundary)
def mkRow (t : Int) : Row := { time := t, c1 := t, c2 := t, v := 1 }
def litAt (hh mi : Int) : Rhs := .lit { fmt := 1, y := 2024, mo := 3, d := 15, hh := hh, mi := mi, ss := 0, frac := 0, off := 0 }
def tAt (hh mi : Int) : Int := T0 + (hh - 10) * HOUR + mi * 60 * NS
def hourFile (hh : Int) (mins : List Int) : File := { part := .hour (475128 + hh), rows := mins.map (fun m => mkRow (tAt hh m)) }
def timeCmp (op : Cmp) (r : Rhs) : Pred := .atom (.base (.cmp .time op r))
def NOW0 : Int := T0 + 5 * HOUR
def σ0 : Valuation := fun _ _ => true
/-- hour files 09, 10, 11, 12 of 2024-03-15 and the compacted day file of 2024-03-14. -/
def DS0 : Dataset :=
  [hourFile 9 [30], hourFile 10 [0, 30], hourFile 11 [0], hourFile 12 [0],
   { part := .day 19796, rows := [mkRow (T0 - 20 * HOUR)] }]

theorem DS0_wellPlaced : WellPlaced DS0 := by decide

/-- non-vacuity of C18_partial: `time >= '…10:00:00' AND time < '…11:30:00' AND v >= 0` on DS0 really prunes
    (2 of 5 files read) and the hypotheses hold. -/
example :
    let p := Pred.and (timeCmp .ge (litAt 10 0)) (.and (timeCmp .lt (litAt 11 30)) (.atom (.base (.cmp .plain .ge (.num 0)))))
    p.safeConj NOW0 = true ∧ dataOK NOW0 p.text DS0 = true ∧
    (readSet (extract NOW0 p.text) DS0).length = 2 ∧ (runFull NOW0 σ0 p DS0).length = 3 := by decide

/-- non-vacuity of C18_cached_partial: a flush adds a file to the already known hour 10 after the plan was cached. -/
example :
    let p := Pred.and (timeCmp .ge (litAt 10 0)) (timeCmp .lt (litAt 11 30))
    let ds1 : Dataset := DS0 ++ [hourFile 10 [45]]
    p.safeConj NOW0 = true ∧ dataOK NOW0 p.text ds1 = true ∧ WellPlaced ds1 ∧
    (∀ f ∈ ds1, ∃ f0 ∈ DS0, f0.part = f.part) ∧ (runCachedI NOW0 σ0 p DS0 ds1 false).length = 4 := by decide

/-- hours 10 and 11 (two files each) before, and after a daily compaction that leaves the first ("late raw") file
    of each hour in place and moves the other rows into the new day-level file of 2024-03-15. -/
def DSraw : Dataset := [hourFile 10 [0], hourFile 10 [30], hourFile 11 [0], hourFile 11 [20]]
def DScompacted : Dataset :=
  [hourFile 10 [0], hourFile 11 [0], { part := .day 19797, rows := [mkRow (tAt 10 30), mkRow (tAt 11 20)] }]

/-- non-vacuity of the compaction branch of C18_cached_partial (invalidated = true). -/
example :
    let p := Pred.and (timeCmp .ge (litAt 10 0)) (timeCmp .lt (litAt 12 0))
    p.safeConj NOW0 = true ∧ dataOK NOW0 p.text DScompacted = true ∧ WellPlaced DScompacted ∧
    (runCachedI NOW0 σ0 p DSraw DScompacted true).length = 4 := by decide

/-- why the hook must clear the cached plan: reusing the pre-compaction plan (hour globs only) after the
    compaction loses the rows that moved into the day-level file — and with empty hour directories the listed
    globs match nothing (DuckDB: "No files found"). -/
theorem C18_compaction_needs_invalidate_witness :
    let p := Pred.and (timeCmp .ge (litAt 10 0)) (timeCmp .lt (litAt 12 0))
    runCached NOW0 σ0 p DSraw DScompacted ≠ runFull NOW0 σ0 p DScompacted ∧
    planBroken (planFor (extract NOW0 p.text) DSraw) [{ part := .day 19797, rows := [] }] = true := by decide

/-! ## (3) one counterexample per excluded class (the full statement instantiated, refuted by evaluation) -/

/-- OR around a time atom: `time >= '11:00' OR v >= 0` — the regexes do not see the OR; the start-only range
    [11:00, now+24h) drops every earlier row although `v >= 0` selects them. -/
theorem C18_or_witness :
    runPruned NOW0 σ0 (.or (timeCmp .ge (litAt 11 0)) (.atom (.base (.cmp .plain .ge (.num 0))))) DS0 ≠
    runFull NOW0 σ0 (.or (timeCmp .ge (litAt 11 0)) (.atom (.base (.cmp .plain .ge (.num 0))))) DS0 := by decide

/-- NOT around a time atom: `NOT (time >= '11:00')` selects the rows before 11:00 but prunes to [11:00, now+24h). -/
theorem C18_not_witness :
    runPruned NOW0 σ0 (.not (timeCmp .ge (litAt 11 0))) DS0 ≠
    runFull NOW0 σ0 (.not (timeCmp .ge (litAt 11 0))) DS0 := by decide

/-- `time >= '10:00' AND time <= '11:00:00'`: the row exactly at 11:00:00 lives in hour 11, which
    `for current.Before(end)` never reaches. -/
theorem C18_le_end_witness :
    runPruned NOW0 σ0 (.and (timeCmp .ge (litAt 10 0)) (timeCmp .le (litAt 11 0))) DS0 ≠
    runFull NOW0 σ0 (.and (timeCmp .ge (litAt 10 0)) (timeCmp .le (litAt 11 0))) DS0 := by decide

/-- the same for the inclusive upper bound of BETWEEN. -/
theorem C18_between_end_witness :
    runPruned NOW0 σ0 (.atom (.base (.between .time (litAt 10 0) (litAt 11 0)))) DS0 ≠
    runFull NOW0 σ0 (.atom (.base (.between .time (litAt 10 0) (litAt 11 0)))) DS0 := by decide

/-- 2020-01-01 02:00:00 -/
def lit2020 : Rhs := .lit { fmt := 1, y := 2020, mo := 1, d := 1, hh := 2, mi := 0, ss := 0, frac := 0, off := 0 }
/-- rows at 2019-12-31 23:30 (hour index 438287) and 2020-01-01 00:30 (hour index 438288) -/
def DS2019 : Dataset :=
  [{ part := .hour 438287, rows := [mkRow 1577835000000000000] }, { part := .hour 438288, rows := [mkRow 1577838600000000000] }]

/-- end-only predicate, data before the assumed start 2020-01-01: `time < '2020-01-01 02:00:00'`
    (any later end bound loses the 2019 row as well). -/
theorem C18_end_only_witness :
    WellPlaced DS2019 ∧ runPruned NOW0 σ0 (timeCmp .lt lit2020) DS2019 ≠ runFull NOW0 σ0 (timeCmp .lt lit2020) DS2019 := by
  decide

/-- start-only predicate, data later than now + 24 h (`now` = 2024-03-14 11:00, so the assumed end is
    2024-03-15 11:00): `time >= '2024-03-15 09:00'` loses the rows of 11:00 and 12:00. -/
theorem C18_start_only_future_witness :
    runPruned (T0 - 23 * HOUR) σ0 (timeCmp .ge (litAt 9 0)) DS0 ≠
    runFull (T0 - 23 * HOUR) σ0 (timeCmp .ge (litAt 9 0)) DS0 := by decide

/-- a column whose name merely ends in `time`: `event_time >= '11:00' AND time >= '09:00'` — the first textual
    match of `time\s*>=` is `event_time`; rows whose event_time is late but whose `time` is early are lost. -/
theorem C18_suffix_column_witness :
    let ds : Dataset := [{ part := .hour 475137, rows := [{ time := tAt 9 30, c1 := tAt 11 30, c2 := 0, v := 1 }] }, hourFile 11 [0]]
    let p := Pred.and (.atom (.base (.cmp .likeTime .ge (litAt 11 0)))) (timeCmp .ge (litAt 9 0))
    runPruned NOW0 σ0 p ds ≠ runFull NOW0 σ0 p ds := by decide

/-- a time predicate inside a subquery prunes the OUTER table:
    `v IN (SELECT v FROM other WHERE time >= '11:00')` (the membership holds for every outer row here). -/
theorem C18_subquery_witness :
    runPruned NOW0 σ0 (.atom (.sub 0 [.cmp .time .ge (litAt 11 0)])) DS0 ≠
    runFull NOW0 σ0 (.atom (.sub 0 [.cmp .time .ge (litAt 11 0)])) DS0 := by decide

/-- JOIN: `FROM a JOIN b ON a.v = b.v WHERE a.time >= '11:00'` also prunes `b` to [11:00, …): b's row of 09:00
    no longer joins. -/
theorem C18_join_witness :
    runJoinPruned NOW0 σ0 (timeCmp .ge (litAt 11 0)) DS0 [hourFile 9 [0], hourFile 11 [30]] ≠
    runJoinFull NOW0 σ0 (timeCmp .ge (litAt 11 0)) DS0 [hourFile 9 [0], hourFile 11 [30]] := by decide

/-- UNION ALL: `… WHERE time >= '10:00' UNION ALL … WHERE time < '11:00'` — the WHERE text runs from the first
    WHERE to the end of the statement, so BOTH branches are pruned to the window [10:00, 11:00) although each
    branch is one-sided. -/
theorem C18_union_witness :
    runUnionPruned NOW0 σ0 (timeCmp .ge (litAt 10 0)) (timeCmp .lt (litAt 11 0)) DS0 ≠
    runUnionFull NOW0 σ0 (timeCmp .ge (litAt 10 0)) (timeCmp .lt (litAt 11 0)) DS0 := by decide

/-- plan cached before hour 11 existed, reused (transform cache TTL) after the flush created it. -/
theorem C18_cache_stale_witness :
    let p := Pred.and (timeCmp .ge (litAt 10 0)) (timeCmp .lt (litAt 12 0))
    let ds0 : Dataset := [hourFile 9 [30], hourFile 10 [0, 30]]
    let ds1 : Dataset := ds0 ++ [hourFile 11 [0]]
    p.safeConj NOW0 = true ∧ dataOK NOW0 p.text ds1 = true ∧ cacheValid NOW0 (NOW0 + 30 * NS) = true ∧
    runCached (NOW0 + 30 * NS) σ0 p ds0 ds1 ≠ runFull (NOW0 + 30 * NS) σ0 p ds1 := by decide

/-- `time >= NOW() - INTERVAL '1 month' AND time < '2024-03-02 14:00'` on 2024-03-31 12:00: Go `AddDate(0,-1,0)`
    = Mar 2 12:00, DuckDB = Feb 29 12:00; the row of Mar 1 10:30 (hour index 474802) qualifies but its hour is
    never generated (the row of Mar 2 13:30, hour index 474829, keeps the plan from falling back). -/
theorem C18_relative_month_witness :
    let now : Int := 1711886400000000000
    let ds : Dataset := [{ part := .hour 474802, rows := [mkRow 1709289000000000000] }, { part := .hour 474829, rows := [mkRow 1709386200000000000] }]
    let hi : Rhs := .lit { fmt := 2, y := 2024, mo := 3, d := 2, hh := 14, mi := 0, ss := 0, frac := 0, off := 0 }
    let p := Pred.and (timeCmp .ge (.rel false 1 .month false)) (timeCmp .lt hi)
    WellPlaced ds ∧ relGo now false 1 .month ≠ relDb now false 1 .month ∧
      runPruned now σ0 p ds ≠ runFull now σ0 p ds := by
  decide

/-- data before minPartitionDate (Arc's ingest accepts pre-1970 timestamps): `time >= '1969-12-31' AND time < '1970-01-02'`. -/
theorem C18_pre_epoch_witness :
    let lo : Rhs := .lit { fmt := 0, y := 1969, mo := 12, d := 31, hh := 0, mi := 0, ss := 0, frac := 0, off := 0 }
    let hi : Rhs := .lit { fmt := 0, y := 1970, mo := 1, d := 2, hh := 0, mi := 0, ss := 0, frac := 0, off := 0 }
    let ds : Dataset := [{ part := .hour (-1), rows := [mkRow (-1800 * NS)] }, { part := .hour 0, rows := [mkRow (1800 * NS)] }]
    let p := Pred.and (timeCmp .ge lo) (timeCmp .lt hi)
    WellPlaced ds ∧ runPruned NOW0 σ0 p ds ≠ runFull NOW0 σ0 p ds := by decide

/-- quirk kept by the model (performance only, results unaffected): the path cap does not fire for spans the
    saturating `Sub` cannot represent — 1970 … 2370 yields 3.5 million paths instead of the unpruned fallback. -/
theorem C18_cap_quirk_witness :
    overCap 0 (400 * 365 * DAY) = false ∧ overCap 0 (6 * 365 * DAY) = true := by decide

end Arc.C18
