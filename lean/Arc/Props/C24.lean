import Arc.Model.C24
import Arc.Generated.C24
import Arc.Proofs.C24.Inv
import Arc.Proofs.C24.Healthy
import Arc.Proofs.C24.Ckpt
/-!
# C24 — the replicated WAL stream is ordered, gap-free and authenticated

Property theorems only; invariants and helper lemmas live in `Arc/Proofs/C24/Inv.lean`.
All theorems quantify over every reachable state of the LTS `Arc.C24.step`, i.e. over ALL
interleavings of any number of producer threads and ALL wire behaviours (the adversary may deliver
any frame at any time).  MAC / hash security are hypotheses (`Unforgeable`, `CollisionFree`).
-/
namespace Arc.C24

variable {α : Type} [DecidableEq α]

/-- **C24_applied_sorted.** Whatever the writer's interleaving and whatever the wire does (no
crypto hypothesis needed), the reader's applied sequence numbers are strictly increasing and never
exceed `lastSeq`. -/
theorem C24_applied_sorted (cfg : Cfg) (hashFn : Bytes → α) (s : State)
    (h : Reach cfg hashFn (fun _ _ => True) s) :
    s.applied.Pairwise (fun a b => a.seq < b.seq) ∧ ∀ e ∈ s.applied, e.seq ≤ s.lastSeq :=
  applied_sorted cfg hashFn s h

/-- **C24_no_replay.** An entry frame whose sequence number was already applied is never applied
again (byte-identical replay, duplicate, or a re-tagged copy alike): the applied log is unchanged. -/
theorem C24_no_replay (cfg : Cfg) (hashFn : Bytes → α) (s : State)
    (h : Reach cfg hashFn (fun _ _ => True) s) (e : Entry) (he : e ∈ s.applied)
    (p : Bytes) (tagOk applyOk : Bool) :
    (recvEntry s e.seq p tagOk applyOk).applied = s.applied ∧
    (s.applied.map (·.seq)).Nodup :=
  no_replay cfg hashFn s h e he p tagOk applyOk

/-- **C24_authentic.** Under `Unforgeable` (a tag verifies only on a (seq, payload) the sender
emitted in this session) every applied entry was enqueued by the writer with exactly that sequence
number and payload — nothing altered, spliced or injected is ever applied. -/
theorem C24_authentic (cfg : Cfg) (hashFn : Bytes → α) (s : State)
    (h : Reach cfg hashFn (Unforgeable hashFn) s) :
    (∀ e ∈ s.applied, e ∈ s.queued) ∧ (∀ e ∈ s.queued, 1 ≤ e.seq ∧ e.seq ≤ s.ctr) :=
  authentic cfg hashFn s h

/-- **C24_drops_reported.** Every sequence number the writer ever assigned is either enqueued,
still held by a thread between assignment and enqueue, or reported as dropped; the channel is FIFO
(`queued = dist ++ queue`) and a session's frames are a contiguous segment of what was popped
(`post` = entries popped after the writer removed the reader). -/
theorem C24_drops_reported (cfg : Cfg) (hashFn : Bytes → α) (s : State)
    (h : Reach cfg hashFn (fun _ _ => True) s) :
    (∀ n, 1 ≤ n → n ≤ s.ctr →
      n ∈ s.queued.map (·.seq) ∨ n ∈ s.dropped ∨ n ∈ s.holding.map (·.2.seq)) ∧
    s.queued = s.dist ++ s.queue ∧ (∃ pre post, s.dist = pre ++ s.sent ++ post) :=
  drops_reported cfg hashFn s h

/-- **C24_checkpoint (gap-free).** With an ordered channel (`Carve`: assignment and enqueue atomic,
or one producer), `Unforgeable`, `CollisionFree` for the running hash, non-empty payloads and no
local apply failure: whenever a checkpoint verifies, the entries applied in this session are
exactly a prefix of the frames the sender emitted in this session — nothing was dropped, reordered
or inserted on the wire since the handshake. -/
theorem C24_checkpoint (cfg : Cfg) (hashFn : Bytes → α) (hcf : CollisionFree hashFn) (s s' : State)
    (h : Reach cfg hashFn (fun st ev => Unforgeable hashFn st ev ∧ Carve cfg ev ∧ Clean ev) s)
    (l : Nat) (hv : α) (c f m : Bool)
    (hu : Unforgeable hashFn s (.deliverC l hv c f m))
    (hstep : step cfg hashFn s (.deliverC l hv c f m) = some s') (hok : s'.conn = true) :
    ∃ n, 0 < n ∧ s.appliedS = s.sent.take n ∧ (s.appliedS.map (·.seq)).getLast? = some l :=
  checkpoint cfg hashFn hcf s s' h l hv c f m hu hstep hok

/-- **C24_checkpoint_hash_scope_tied.** `C24_checkpoint` is a theorem about a running hash that
covers EVERY payload since the handshake on both sides (`doDist`: `pre := flat sent'`, `recvCkpt`:
compared with `flat fed`, neither ever reset inside a session). This is the regenerated fact that
the current `sendToReader`/`emitCheckpointLocked` and `receiveLoop` do exactly that. With a
per-window hash on both sides the gap-free clause is false: removing all frames of one checkpoint
window (its entries and its closing checkpoint) leaves a stream whose next window verifies. -/
theorem C24_checkpoint_hash_scope_tied :
    Arc.Generated.C24.hashScopeSender = "session" ∧ Arc.Generated.C24.hashScopeReceiver = "session" := by
  decide

/-- **C24_checkpoint_source.** `C24_checkpoint` for the current source: its proof consumes the
regenerated hash-scope fact, so a source edit that changes the scope breaks THIS obligation by name. -/
theorem C24_checkpoint_source (cfg : Cfg) (hashFn : Bytes → α) (hcf : CollisionFree hashFn) (s s' : State)
    (h : Reach cfg hashFn (fun st ev => Unforgeable hashFn st ev ∧ Carve cfg ev ∧ Clean ev) s)
    (l : Nat) (hv : α) (c f m : Bool)
    (hu : Unforgeable hashFn s (.deliverC l hv c f m))
    (hstep : step cfg hashFn s (.deliverC l hv c f m) = some s') (hok : s'.conn = true) :
    Arc.Generated.C24.hashScopeSender = "session" ∧ Arc.Generated.C24.hashScopeReceiver = "session" ∧
    ∃ n, 0 < n ∧ s.appliedS = s.sent.take n ∧ (s.appliedS.map (·.seq)).getLast? = some l :=
  ⟨C24_checkpoint_hash_scope_tied.1, C24_checkpoint_hash_scope_tied.2,
    C24_checkpoint cfg hashFn hcf s s' h l hv c f m hu hstep hok⟩

/-- **C24_payload_ownership_tied.** `C24_authentic` speaks about the payload value an entry had
when it was enqueued; that is the payload on the wire only if nobody writes to the queued slice
afterwards. Regenerated fact: either `Sender.Replicate` copies the payload, or the envelope that
`AppendRawWithMeta` hands to the hook is a fresh `make` (never pooled / reused). (`AppendRaw` passes
the caller's slice: its callers hand over ownership — an assumption, see props/C24.py.) -/
theorem C24_payload_ownership_tied :
    Arc.Generated.C24.senderCopiesPayload = true ∨
    (Arc.Generated.C24.hookPayloadAppendRawWithMeta = "fresh-make" ∧
     Arc.Generated.C24.hookPayloadAppendRaw = "caller-slice") := by decide

/-! ### non-vacuity: a concrete two-producer run with a reordering, duplicating, forging adversary -/

/-- the symbolic hash used in the examples (pre-image itself: collision-free). -/
def exHash (b : Bytes) : Bytes := b

/-- producers 0 (atomic config), three entries, checkpoint every 2 entries; the wire delivers entry 1,
a forged entry (rejected tag would drop — so not delivered here), entry 2, then the checkpoint. -/
def exTrace : List (Ev Bytes) :=
  [.connect, .assign 0 [1], .enqueue 0, .assign 1 [2, 2], .enqueue 1, .dist, .dist,
   .deliverE 1 [1] true true, .deliverE 2 [2, 2] true true]

example : CollisionFree exHash := fun _ _ h => h

/-- hypotheses of `C24_checkpoint` (and of the other safety theorems) hold on a non-trivial state:
after `exTrace` the checkpoint (2, hash [1,2,2]) verifies and the two applied entries are the
sender's first two frames. -/
example : ∃ s s', Reach ⟨true, 4, 2⟩ exHash
      (fun st ev => Unforgeable exHash st ev ∧ Carve ⟨true, 4, 2⟩ ev ∧ Clean ev) s ∧
    Unforgeable exHash s (.deliverC 2 [1, 2, 2] true true true) ∧
    step ⟨true, 4, 2⟩ exHash s (.deliverC 2 [1, 2, 2] true true true) = some s' ∧ s'.conn = true ∧
    s.appliedS.map (·.seq) = [1, 2] ∧ s.applied.length = 2 := by
  have h : ∃ s, runChk ⟨true, 4, 2⟩ exHash
      (fun st ev => Unforgeable exHash st ev ∧ Carve ⟨true, 4, 2⟩ ev ∧ Clean ev) init exTrace = some s ∧
      Unforgeable exHash s (.deliverC 2 [1, 2, 2] true true true) ∧
      (step ⟨true, 4, 2⟩ exHash s (.deliverC 2 [1, 2, 2] true true true)).map (·.conn) = some true ∧
      s.appliedS.map (·.seq) = [1, 2] ∧ s.applied.length = 2 := by
    refine ⟨_, rfl, ?_, ?_, ?_, ?_⟩ <;> decide
  obtain ⟨s, hr, hu, hs, h1, h2⟩ := h
  match hst : step ⟨true, 4, 2⟩ exHash s (.deliverC 2 [1, 2, 2] true true true), hs with
  | some s', hs =>
    exact ⟨s, s', reach_runChk exTrace init s .init hr, hu, hst, by simpa using hs, h1, h2⟩

/-- … and the adversary is constrained only by `Unforgeable`: a replayed entry 1 after entry 2
(valid tag) is a legal event of the LTS, and drops the connection instead of being applied. -/
example : (run ⟨true, 4, 2⟩ exHash init (exTrace ++ [.deliverE 1 [1] true true])).map
    (fun s => (s.lastDrop, s.applied.map (·.seq))) = some (some .seq, [1, 2]) := by decide

/-- `C24_healthy_partial` is not vacuous: a single producer, three entries, a checkpoint after two. -/
example : (hrun ⟨false, 4, 2⟩ exHash init
      [.connect, .assign 0 [1], .enqueue 0, .dist, .assign 0 [2], .assign 0 [3]]).isNone = true ∧
    HCarve ⟨false, 4, 2⟩ [.connect, .assign 0 [1], .enqueue 0, .dist, .assign 0 [2], .enqueue 0, .dist] = true ∧
    (hrun ⟨false, 4, 2⟩ exHash init
      [.connect, .assign 0 [1], .enqueue 0, .dist, .assign 0 [2], .enqueue 0, .dist]).map
      (fun s => (s.lastDrop, s.appliedS.map (·.seq), s.ckpts.length)) = some (none, [1, 2], 1) := by
  decide

/-- **C24_checkpoint_nonempty_needed_witness.** The non-empty-payload hypothesis of
`C24_checkpoint` cannot be dropped: the running hash is over the concatenation of payloads, so after
a session that streamed only an empty payload, its checkpoint (hash of nothing) replayed into a
FRESH session verifies although nothing was applied in that session (harmless: it vouches for no
entry; observed on the real receiver, harness tag `ckpt-monitor:empty-payload-checkpoint-…`). -/
theorem C24_checkpoint_nonempty_needed_witness :
    (run ⟨true, 4, 1⟩ exHash init
      [.connect, .assign 0 [], .enqueue 0, .dist, .deliverE 1 [] true true, .close, .connect,
       .deliverC 1 [] true true true]).map
      (fun s => (s.conn, s.lastDrop, s.appliedS.length, s.ckpts.map (·.pre))) =
    some (true, none, 0, [[]]) := by decide

/-
**C24_healthy_full** (the last clause of the property, at full strength) — FALSE for the current
source when two or more producers run concurrently:

  theorem C24_healthy_full (cfg) (tr : List HEv) (s) :
      hrun cfg hashFn init tr = some s → s.lastDrop = none

refuted by `C24_healthy_witness` below.  What holds is `C24_healthy_partial` under the decidable
carve-out `HCarve cfg tr` = "assignment and enqueue are one critical section (regenerated fact) or
all producer events come from one thread".
-/

/-- **C24_healthy_witness.** Two producers, honest wire: assign(1), assign(2), enqueue(2),
enqueue(1) puts 2 before 1 into the channel; the reader applies 2 and then drops the healthy
connection on 1 (`seq ≤ lastSeq`). -/
theorem C24_healthy_witness :
    (hrun ⟨false, 8, 1024⟩ (fun b : Bytes => b) init
      [.connect, .assign 0 [1], .assign 1 [2], .enqueue 1, .enqueue 0, .dist, .dist]).map
      (fun s => (s.lastDrop, s.applied.map (·.seq), s.conn)) = some (some .seq, [2], false) := by
  decide

/-- **C24_healthy_partial.** With an honest wire, if assignment+enqueue are atomic or there is a
single producer thread, the connection is never dropped, and everything the sender emitted in the
session has been applied, in order. -/
theorem C24_healthy_partial (cfg : Cfg) (hashFn : Bytes → α) (hint : 1 ≤ cfg.interval)
    (tr : List HEv) (s : State)
    (hc : HCarve cfg tr = true) (hr : hrun cfg hashFn init tr = some s) :
    s.lastDrop = none ∧ (s.conn = true → s.appliedS = s.sent) :=
  healthy cfg hashFn hint tr s hc hr

/-- **C24_healthy_source.** The carve-out instantiated with the fact regenerated from the current
source: as soon as `Sender.Replicate` assigns and enqueues in one critical section the carve-out is
`true` for every trace and `C24_healthy_partial` is the full theorem. -/
theorem C24_healthy_source (cap interval : Nat) (tr : List HEv)
    (h : Arc.Generated.C24.assignEnqueueAtomic = true) :
    HCarve ⟨Arc.Generated.C24.assignEnqueueAtomic, cap, interval⟩ tr = true := by
  simp [HCarve, h]

/-- The receiver steps the model assumes are the steps (and the order) found in the current
`receiveLoop` (regenerated). -/
theorem C24_receiver_order_tied :
    Arc.Generated.C24.recvEntryOrder =
      ["verify-tag", "seq-check", "hash-write", "apply", "apply-error-continue", "advance"] ∧
    Arc.Generated.C24.recvCkptOrder = ["cluster", "seq", "hash", "hmac"] ∧
    Arc.Generated.C24.senderOverwritesSequence = true := by decide

end Arc.C24
